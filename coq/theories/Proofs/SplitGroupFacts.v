(* Proofs for C14: the L0 laws of split / group (partition, one part per
   distinct value, recursion on the column list, order of given values, one
   row per combination, by-cells, padded series) for all tables, and the
   refinement of the L1 model (selection by row id, kernels) to L0. *)
From Coq Require Import ZArith NArith List Bool String Permutation Lia Sorting.Sorted.
From DM Require Import Base.PyVal Spec.Nf Spec.Table Spec.SplitGroup.
Import ListNotations.

(* ====================================================================== *)
(* generic list facts *)

Lemma filter_filter_and {A} (f g : A -> bool) (l : list A) :
  filter f (filter g l) = filter (fun x => g x && f x) l.
Proof.
  induction l as [|a l IH]; simpl; auto.
  destruct (g a); simpl; [destruct (f a)|]; simpl; rewrite IH; auto.
Qed.

Lemma filter_all_true {A} (f : A -> bool) (l : list A) :
  (forall x, In x l -> f x = true) -> filter f l = l.
Proof.
  induction l as [|a l IH]; simpl; intros H; auto.
  rewrite (H a) by auto. f_equal. apply IH. intros; apply H; auto.
Qed.

Lemma filter_disjoint_perm {A} (f g : A -> bool) (l : list A) :
  (forall x, In x l -> f x = true -> g x = true -> False) ->
  Permutation (filter f l ++ filter g l) (filter (fun x => f x || g x) l).
Proof.
  induction l as [|a l IH]; simpl; intros H; auto.
  assert (IH' := IH (fun x Hx => H x (or_intror Hx))).
  destruct (f a) eqn:Fa, (g a) eqn:Ga; simpl.
  - exfalso. apply (H a); auto.
  - apply perm_skip. exact IH'.
  - eapply Permutation_trans; [apply Permutation_sym, Permutation_middle|]. apply perm_skip. exact IH'.
  - exact IH'.
Qed.

Lemma concat_map_perm {A B} (f : A -> list B) (l l' : list A) :
  Permutation l l' -> Permutation (List.concat (map f l)) (List.concat (map f l')).
Proof.
  induction 1; simpl; auto.
  - apply Permutation_app_head; auto.
  - rewrite !app_assoc. apply Permutation_app_tail. apply Permutation_app_comm.
  - eapply Permutation_trans; eauto.
Qed.

Lemma FOP_perm {A} (R : A -> A -> Prop) (Rsym : forall a b, R a b -> R b a) (l l' : list A) :
  Permutation l l' -> ForallOrdPairs R l -> ForallOrdPairs R l'.
Proof.
  induction 1 as [|x l l' P IH|x y l|l l' l'' P1 IH1 P2 IH2]; intros HF; auto.
  - inversion HF; subst. constructor; auto. eapply Permutation_Forall; eauto.
  - inversion HF as [|a l0 Hy Hr]; subst. inversion Hr as [|b l1 Hx Hl]; subst.
    inversion Hy; subst. constructor.
    + constructor; auto.
    + constructor; auto.
Qed.

Lemma FOP_filter {A} (R : A -> A -> Prop) (f : A -> bool) (l : list A) :
  ForallOrdPairs R l -> ForallOrdPairs R (filter f l).
Proof.
  induction 1; simpl; [constructor|].
  destruct (f a); auto. constructor; auto.
  apply Forall_forall. intros x Hx. apply filter_In in Hx. destruct Hx.
  rewrite Forall_forall in H. auto.
Qed.

Lemma FOP_app {A} (R : A -> A -> Prop) (l1 l2 : list A) :
  ForallOrdPairs R l1 -> ForallOrdPairs R l2 -> (forall a b, In a l1 -> In b l2 -> R a b) ->
  ForallOrdPairs R (l1 ++ l2).
Proof.
  induction 1; simpl; intros H2 Hc; auto.
  constructor.
  - apply Forall_app; split; [assumption | apply Forall_forall; intros; apply Hc; simpl; auto].
  - apply IHForallOrdPairs; auto; intros; apply Hc; simpl; auto.
Qed.

Lemma FOP_map {A B} (R : B -> B -> Prop) (g : A -> B) (l : list A) :
  ForallOrdPairs (fun a b => R (g a) (g b)) l -> ForallOrdPairs R (map g l).
Proof.
  induction 1; simpl; constructor; auto.
  apply Forall_forall. intros y Hy. apply in_map_iff in Hy. destruct Hy as [x [<- Hx]].
  rewrite Forall_forall in H. auto.
Qed.

(* insertion sort is a permutation *)
Lemma insert_by_perm {K} (le : K -> K -> bool) (x : K) (l : list K) : Permutation (x :: l) (insert_by le x l).
Proof.
  induction l as [|y l IH]; simpl; auto.
  destruct (le x y); auto.
  eapply Permutation_trans; [apply perm_swap|]. apply perm_skip. exact IH.
Qed.
Lemma isort_perm {K} (le : K -> K -> bool) (l : list K) : Permutation l (isort le l).
Proof.
  induction l as [|x l IH]; simpl; auto.
  eapply Permutation_trans; [apply perm_skip, IH|]. apply insert_by_perm.
Qed.
(* ... and its result is ordered when the order is total *)
Lemma insert_by_sorted {K} (le : K -> K -> bool) (tot : forall a b, le a b = true \/ le b a = true) x l :
  LocallySorted (fun a b => le a b = true) l -> LocallySorted (fun a b => le a b = true) (insert_by le x l).
Proof.
  induction 1 as [|a|a b l Hl IH Hab]; simpl.
  - constructor.
  - destruct (le x a) eqn:E; repeat constructor; auto. destruct (tot x a); congruence.
  - simpl in IH. destruct (le x a) eqn:E.
    + repeat constructor; auto.
    + destruct (le x b) eqn:E2.
      * constructor; [constructor; auto|]. destruct (tot x a); congruence.
      * constructor; auto.
Qed.
Lemma isort_sorted {K} (le : K -> K -> bool) (tot : forall a b, le a b = true \/ le b a = true) l :
  LocallySorted (fun a b => le a b = true) (isort le l).
Proof. induction l; simpl; [constructor|]. apply insert_by_sorted; auto. Qed.

(* ====================================================================== *)
(* generic: distinct keys and the partition of rows by key *)
Section Gen.
  Context {K : Type}.
  Variable eqv : K -> K -> bool.
  Hypothesis eqv_refl : forall a, eqv a a = true.
  Hypothesis eqv_sym : forall a b, eqv a b = eqv b a.
  Hypothesis eqv_trans : forall a b c, eqv a b = true -> eqv b c = true -> eqv a c = true.

  Definition ne (a b : K) : Prop := eqv a b = false.
  Definition pairwise_ne (l : list K) : Prop := ForallOrdPairs ne l.
  Definition covers (us l : list K) : Prop := forall x, In x l -> exists u, In u us /\ eqv x u = true.

  Lemma ne_sym a b : ne a b -> ne b a.
  Proof. unfold ne. rewrite eqv_sym. auto. Qed.

  Lemma distinct_in l x : In x (distinct eqv l) -> In x l.
  Proof.
    revert x. induction l as [|a l IH]; simpl; intros x H; auto.
    destruct H as [H|H]; auto. apply filter_In in H. destruct H. auto.
  Qed.

  Lemma distinct_pairwise l : pairwise_ne (distinct eqv l).
  Proof.
    induction l as [|a l IH]; simpl; [constructor|].
    constructor.
    - apply Forall_forall. intros y Hy. apply filter_In in Hy. destruct Hy as [_ Hy].
      unfold ne. rewrite eqv_sym. destruct (eqv y a); simpl in Hy; congruence.
    - apply FOP_filter. exact IH.
  Qed.

  Lemma distinct_covers l : covers (distinct eqv l) l.
  Proof.
    induction l as [|a l IH]; intros x Hx; simpl in *; [contradiction|].
    destruct Hx as [<-|Hx].
    - exists a. auto.
    - destruct (IH x Hx) as [u [Hu Hxu]].
      destruct (eqv u a) eqn:E.
      + exists a. split; auto. eapply eqv_trans; eauto.
      + exists u. split; auto. right. apply filter_In. split; auto. rewrite E. auto.
  Qed.

  Lemma pairwise_perm l l' : Permutation l l' -> pairwise_ne l -> pairwise_ne l'.
  Proof. apply FOP_perm. apply ne_sym. Qed.
  Lemma covers_perm us us' l : Permutation us us' -> covers us l -> covers us' l.
  Proof.
    intros P H x Hx. destruct (H x Hx) as [u [Hu E]]. exists u. split; auto. eapply Permutation_in; eauto.
  Qed.

  Variable key : nat -> K.

  (* the parts of pairwise different keys are disjoint: together they are the rows carrying one of the keys *)
  Lemma rows_union us ps :
    pairwise_ne us ->
    Permutation (List.concat (map (fun u => rows_with eqv key u ps) us))
                (filter (fun p => existsb (eqv (key p)) us) ps).
  Proof.
    induction 1 as [|u us Hu Hus IH]; simpl.
    - induction ps; simpl; auto.
    - eapply Permutation_trans; [apply Permutation_app_head, IH|].
      unfold rows_with. apply filter_disjoint_perm.
      intros p _ E1 E2. apply existsb_exists in E2. destruct E2 as [u' [Hu' E2]].
      rewrite Forall_forall in Hu. specialize (Hu u' Hu'). unfold ne in Hu.
      assert (eqv u u' = true); [|congruence].
      eapply eqv_trans; [|exact E2]. rewrite eqv_sym. exact E1.
  Qed.

  (* a listing of the keys: pairwise different, and every row's key is among them *)
  Theorem rows_partition us ps :
    pairwise_ne us -> covers us (map key ps) ->
    Permutation (List.concat (map (fun u => rows_with eqv key u ps) us)) ps.
  Proof.
    intros Hp Hc. eapply Permutation_trans; [apply rows_union; auto|].
    rewrite filter_all_true; auto.
    intros p Hp'. apply existsb_exists. destruct (Hc (key p)) as [u [Hu E]]; [apply in_map; auto|]. eauto.
  Qed.

  Lemma rows_with_spec k ps p : In p (rows_with eqv key k ps) <-> In p ps /\ eqv (key p) k = true.
  Proof. unfold rows_with. apply filter_In. Qed.

  Lemma rows_with_nonempty k ps : In k (map key ps) -> rows_with eqv key k ps <> [].
  Proof.
    intros H. apply in_map_iff in H. destruct H as [p [<- Hp]].
    intros E. assert (In p (rows_with eqv key (key p) ps)) by (apply rows_with_spec; auto).
    rewrite E in H. contradiction.
  Qed.

  Lemma rows_with_sorted k ps : StronglySorted lt ps -> StronglySorted lt (rows_with eqv key k ps).
  Proof.
    unfold rows_with. induction 1 as [|a l Hl IH Ha]; simpl; [constructor|].
    destruct (eqv (key a) k); auto. constructor; auto.
    apply Forall_forall. intros x Hx. apply filter_In in Hx. destruct Hx.
    rewrite Forall_forall in Ha. auto.
  Qed.

  (* exactly one part holds a given row *)
  Lemma rows_unique_part us ps p u u' :
    pairwise_ne us -> In u us -> In u' us ->
    In p (rows_with eqv key u ps) -> In p (rows_with eqv key u' ps) -> eqv u u' = true.
  Proof.
    intros _ _ _ H1 H2. apply rows_with_spec in H1. apply rows_with_spec in H2.
    destruct H1 as [_ H1], H2 as [_ H2]. eapply eqv_trans; [|exact H2]. rewrite eqv_sym. exact H1.
  Qed.

  (* groups = rows by distinct key in first-occurrence order *)
  Theorem distinct_partition ps :
    Permutation (List.concat (map (fun u => rows_with eqv key u ps) (distinct eqv (map key ps)))) ps.
  Proof. apply rows_partition; [apply distinct_pairwise | apply distinct_covers]. Qed.
End Gen.

(* ====================================================================== *)
(* "the cell equals the value" is an equivalence on all cell values *)

Lemma dy_eq_at m1 e1 m2 e2 k :
  (k <= Z.min e1 e2)%Z ->
  (dy_cmp (m1, e1) (m2, e2) = Eq <-> (m1 * 2 ^ (e1 - k) = m2 * 2 ^ (e2 - k))%Z).
Proof.
  intros Hk. unfold dy_cmp.
  pose proof (Z.le_min_l e1 e2). pose proof (Z.le_min_r e1 e2).
  remember (Z.min e1 e2) as e. rewrite Z.compare_eq_iff.
  replace (e1 - k)%Z with ((e1 - e) + (e - k))%Z by lia.
  replace (e2 - k)%Z with ((e2 - e) + (e - k))%Z by lia.
  rewrite !Z.pow_add_r by lia. rewrite !Z.mul_assoc.
  assert (0 < 2 ^ (e - k))%Z by (apply Z.pow_pos_nonneg; lia).
  split; intros H2.
  - rewrite H2. reflexivity.
  - apply Z.mul_reg_r in H2; auto. lia.
Qed.

Lemma dy_eq_refl p : dy_cmp p p = Eq.
Proof. destruct p. unfold dy_cmp. apply Z.compare_refl. Qed.
Lemma dy_eq_sym p q : dy_cmp p q = Eq -> dy_cmp q p = Eq.
Proof.
  destruct p as [m1 e1], q as [m2 e2]. intros H.
  apply (dy_eq_at m1 e1 m2 e2 (Z.min e1 e2)) in H; [|lia].
  apply (dy_eq_at m2 e2 m1 e1 (Z.min e1 e2)); [lia|]. auto.
Qed.
Lemma dy_eq_trans p q r : dy_cmp p q = Eq -> dy_cmp q r = Eq -> dy_cmp p r = Eq.
Proof.
  destruct p as [m1 e1], q as [m2 e2], r as [m3 e3]. intros H1 H2.
  set (k := Z.min e1 (Z.min e2 e3)).
  apply (dy_eq_at m1 e1 m2 e2 k) in H1; [|unfold k; lia].
  apply (dy_eq_at m2 e2 m3 e3 k) in H2; [|unfold k; lia].
  apply (dy_eq_at m1 e1 m3 e3 k); [unfold k; lia|]. congruence.
Qed.

Definition nrep (n : num) : option (bool + Z * Z) :=
  match n with
  | NInt z => Some (inr (z, 0%Z))
  | NFlt FNan => None
  | NFlt (FInf s) => Some (inl s)
  | NFlt (FZero _) => Some (inr (0%Z, 0%Z))
  | NFlt (FFin s m e) => Some (inr (if s then Z.neg m else Z.pos m, e))
  end.
Definition rep_eq (x y : bool + Z * Z) : bool :=
  match x, y with
  | inl s, inl t => Bool.eqb s t
  | inr p, inr q => match dy_cmp p q with Eq => true | _ => false end
  | _, _ => false
  end.
Lemma num_eqb_rep a b :
  num_eqb a b = match nrep a, nrep b with Some x, Some y => rep_eq x y | _, _ => false end.
Proof.
  destruct a as [z|[|s|s|s m e]], b as [z'|[|s'|s'|s' m' e']]; unfold num_eqb, num_cmp; simpl; try reflexivity;
    try (destruct s; reflexivity); try (destruct s'; reflexivity); try (destruct s, s'; reflexivity).
Qed.
Lemma rep_eq_refl x : rep_eq x x = true.
Proof. destruct x as [s|p]; simpl; [apply eqb_reflx | rewrite dy_eq_refl; auto]. Qed.
Lemma rep_eq_sym x y : rep_eq x y = true -> rep_eq y x = true.
Proof.
  destruct x as [s|p], y as [t|q]; simpl; auto.
  - rewrite Bool.eqb_true_iff. intros ->. apply eqb_reflx.
  - destruct (dy_cmp p q) eqn:E; try discriminate. rewrite (dy_eq_sym _ _ E). auto.
Qed.
Lemma rep_eq_trans x y z : rep_eq x y = true -> rep_eq y z = true -> rep_eq x z = true.
Proof.
  destruct x as [s|p], y as [t|q], z as [u|r]; simpl; try discriminate; auto.
  - rewrite !Bool.eqb_true_iff. congruence.
  - destruct (dy_cmp p q) eqn:E1; try discriminate. destruct (dy_cmp q r) eqn:E2; try discriminate.
    rewrite (dy_eq_trans _ _ _ E1 E2). auto.
Qed.

(* key_eq through a class function: number class / NaN / text / None *)
Inductive kcls := CNum (x : bool + Z * Z) | CNan | CStr (s : string) | CNone.
Definition cls (v : val) : kcls :=
  match v with
  | VInt z => CNum (inr (z, 0%Z))
  | VFlt f => match nrep (NFlt f) with Some x => CNum x | None => CNan end
  | VStr s => CStr s
  | VNone => CNone
  end.
Definition cls_eq (a b : kcls) : bool :=
  match a, b with
  | CNum x, CNum y => rep_eq x y
  | CNan, CNan => true
  | CStr s, CStr t => String.eqb s t
  | CNone, CNone => true
  | _, _ => false
  end.
Lemma key_eq_cls a b : key_eq a b = cls_eq (cls a) (cls b).
Proof.
  unfold key_eq, py_cmp.
  destruct a as [z|[|s|s|s m e]|s|], b as [z'|[|s'|s'|s' m' e']|s'|]; cbn [val_num];
    rewrite ?num_eqb_rep; cbn [nrep cls cls_eq is_nan andb orb]; rewrite ?orb_false_r; try reflexivity.
Qed.
Lemma cls_eq_refl a : cls_eq a a = true.
Proof. destruct a; simpl; auto using rep_eq_refl, String.eqb_refl. Qed.
Lemma cls_eq_sym a b : cls_eq a b = cls_eq b a.
Proof.
  destruct a, b; simpl; auto.
  - destruct (rep_eq x x0) eqn:E.
    + symmetry. apply rep_eq_sym. auto.
    + destruct (rep_eq x0 x) eqn:E2; auto. apply rep_eq_sym in E2. congruence.
  - apply String.eqb_sym.
Qed.
Lemma cls_eq_trans a b c : cls_eq a b = true -> cls_eq b c = true -> cls_eq a c = true.
Proof.
  destruct a, b, c; simpl; try discriminate; auto.
  - apply rep_eq_trans.
  - rewrite !String.eqb_eq. congruence.
Qed.

Lemma key_eq_refl a : key_eq a a = true.
Proof. rewrite key_eq_cls. apply cls_eq_refl. Qed.
Lemma key_eq_sym a b : key_eq a b = key_eq b a.
Proof. rewrite !key_eq_cls. apply cls_eq_sym. Qed.
Lemma key_eq_trans a b c : key_eq a b = true -> key_eq b c = true -> key_eq a c = true.
Proof. rewrite !key_eq_cls. apply cls_eq_trans. Qed.

Lemma keys_eq_refl a : keys_eq a a = true.
Proof. induction a; simpl; auto. rewrite key_eq_refl. auto. Qed.
Lemma keys_eq_sym a b : keys_eq a b = keys_eq b a.
Proof.
  revert b. induction a as [|x a IH]; destruct b as [|y b]; simpl; auto.
  rewrite key_eq_sym, IH. auto.
Qed.
Lemma keys_eq_trans a b c : keys_eq a b = true -> keys_eq b c = true -> keys_eq a c = true.
Proof.
  revert b c. induction a as [|x a IH]; destruct b as [|y b], c as [|z c]; simpl; try discriminate; auto.
  rewrite !andb_true_iff. intros [H1 H2] [H3 H4]. split; [eapply key_eq_trans | eapply IH]; eauto.
Qed.

(* ====================================================================== *)
(* split *)

Lemma FOP_impl {A} (R S : A -> A -> Prop) (l : list A) :
  (forall a b, R a b -> S a b) -> ForallOrdPairs R l -> ForallOrdPairs S l.
Proof.
  intros I. induction 1; constructor; auto. eapply Forall_impl; [|eassumption]. auto.
Qed.

Lemma seq_sorted n s : StronglySorted lt (seq s n).
Proof.
  revert s. induction n; simpl; intros s; constructor; auto.
  apply Forall_forall. intros x Hx. apply in_seq in Hx. lia.
Qed.
Lemma filter_sorted (f : nat -> bool) l : StronglySorted lt l -> StronglySorted lt (filter f l).
Proof.
  induction 1 as [|a l Hl IH Ha]; simpl; [constructor|]. destruct (f a); auto. constructor; auto.
  apply Forall_forall. intros x Hx. apply filter_In in Hx. destruct Hx. rewrite Forall_forall in Ha. auto.
Qed.

Lemma unique_perm cells : Permutation (distinct key_eq cells) (unique cells).
Proof. unfold unique. apply isort_perm. Qed.
Lemma unique_pairwise cells : pairwise_ne key_eq (unique cells).
Proof.
  eapply pairwise_perm; [apply key_eq_sym | apply unique_perm | apply distinct_pairwise; apply key_eq_sym].
Qed.
Lemma unique_covers cells : covers key_eq (unique cells) cells.
Proof.
  eapply covers_perm; [apply unique_perm|]. apply distinct_covers; [apply key_eq_refl | apply key_eq_trans].
Qed.
Lemma unique_in cells v : In v (unique cells) -> In v cells.
Proof.
  intros H. apply (distinct_in key_eq). eapply Permutation_in; [apply Permutation_sym, unique_perm|]. auto.
Qed.
Lemma unique_length cells : List.length (unique cells) = List.length (distinct key_eq cells).
Proof. symmetry. apply Permutation_length, unique_perm. Qed.

(* the parts of split(col) are a partition of the rows *)
Theorem split1_partition cells ps : Permutation (List.concat (map snd (split1 cells ps))) ps.
Proof.
  unfold split1. rewrite map_map. simpl.
  apply (rows_partition key_eq key_eq_sym key_eq_trans (cell cells)).
  - apply unique_pairwise.
  - apply unique_covers.
Qed.

(* one part per distinct value, in `unique` order; the values are pairwise different *)
Theorem split1_values cells ps :
  map fst (split1 cells ps) = unique (take_cells ps cells)
  /\ pairwise_ne key_eq (map fst (split1 cells ps))
  /\ List.length (split1 cells ps) = List.length (distinct key_eq (take_cells ps cells)).
Proof.
  unfold split1. rewrite map_map. simpl. rewrite map_id, map_length.
  split; [reflexivity|]. split; [apply unique_pairwise | apply unique_length].
Qed.

(* each part holds exactly the rows whose cell equals its value, in source order, and is not empty *)
Theorem split1_parts cells ps v qs :
  In (v, qs) (split1 cells ps) ->
  qs = filter (fun p => key_eq (cell cells p) v) ps /\ qs <> [] /\ In v (take_cells ps cells).
Proof.
  unfold split1. intros H. apply in_map_iff in H. destruct H as [u [E Hu]]. inversion E; subst. clear E.
  split; [reflexivity|]. apply unique_in in Hu. split; auto.
  apply (rows_with_nonempty key_eq key_eq_refl (cell cells)). exact Hu.
Qed.

(* every value of the column has its part *)
Theorem split1_covers cells ps p :
  In p ps -> exists v qs, In (v, qs) (split1 cells ps) /\ In p qs.
Proof.
  intros Hp. destruct (unique_covers (take_cells ps cells) (cell cells p)) as [u [Hu E]].
  - unfold take_cells. apply in_map. auto.
  - exists u, (rows_with key_eq (cell cells) u ps). split.
    + unfold split1. apply in_map_iff. exists u. auto.
    + apply rows_with_spec. auto.
Qed.

(* ---------- several columns *)
Lemma map_snd_tag (v : val) (l : list (list val * list nat)) :
  map snd (map (fun '(vs, qs) => (v :: vs, qs)) l) = map snd l.
Proof. rewrite map_map. apply map_ext. intros [a b]. reflexivity. Qed.
Lemma map_fst_tag (v : val) (l : list (list val * list nat)) :
  map fst (map (fun '(vs, qs) => (v :: vs, qs)) l) = map (cons v) (map fst l).
Proof. rewrite !map_map. apply map_ext. intros [a b]. reflexivity. Qed.

Theorem splitm_partition kcols : forall ps, Permutation (List.concat (map snd (splitm kcols ps))) ps.
Proof.
  induction kcols as [|c r IH]; intros ps; simpl.
  - rewrite app_nil_r. auto.
  - eapply Permutation_trans; [|apply (split1_partition c ps)].
    unfold split1. rewrite map_map. simpl.
    induction (unique (take_cells ps c)) as [|u us IHu]; simpl; auto.
    rewrite map_app, concat_app. apply Permutation_app; auto.
    rewrite map_snd_tag. apply IH.
Qed.

Theorem splitm_parts kcols : forall ps vs qs,
  In (vs, qs) (splitm kcols ps) -> qs = filter (fun p => keys_eq (row_key kcols p) vs) ps.
Proof.
  induction kcols as [|c r IH]; intros ps vs qs H; simpl in H.
  - destruct H as [H|[]]. inversion H; subst. symmetry. apply filter_all_true. auto.
  - apply in_flat_map in H. destruct H as [v [Hv H]]. apply in_map_iff in H.
    destruct H as [[vs' qs'] [E H]]. inversion E; subst. clear E.
    apply IH in H. rewrite H. unfold rows_with. rewrite filter_filter_and.
    apply filter_ext. intros p. reflexivity.
Qed.

Theorem splitm_nonempty kcols : forall ps vs qs,
  kcols <> [] -> In (vs, qs) (splitm kcols ps) -> qs <> [].
Proof.
  induction kcols as [|c r IH]; intros ps vs qs Hne H; [congruence|]. simpl in H.
  apply in_flat_map in H. destruct H as [v [Hv H]]. apply in_map_iff in H.
  destruct H as [[vs' qs'] [E H]]. inversion E; subst. clear E.
  destruct r as [|c' r'].
  - simpl in H. destruct H as [H|[]]. inversion H; subst.
    apply (rows_with_nonempty key_eq key_eq_refl (cell c)). apply unique_in in Hv. exact Hv.
  - eapply IH; [discriminate | exact H].
Qed.

Theorem splitm_combos_distinct kcols : forall ps,
  ForallOrdPairs (fun a b => keys_eq a b = false) (map fst (splitm kcols ps)).
Proof.
  induction kcols as [|c r IH]; intros ps; simpl.
  - repeat constructor.
  - pose proof (unique_pairwise (take_cells ps c)) as Hu.
    induction Hu as [|u us Hu1 Hus IHu]; simpl; [constructor|].
    rewrite map_app. apply FOP_app.
    + rewrite map_fst_tag. apply FOP_map. eapply FOP_impl; [|apply IH].
      intros a b Hab. simpl. rewrite Hab. apply andb_false_r.
    + exact IHu.
    + intros a b Ha Hb. rewrite map_fst_tag in Ha. apply in_map_iff in Ha. destruct Ha as [a' [<- _]].
      apply in_map_iff in Hb. destruct Hb as [[b1 b2] [<- Hb]]. apply in_flat_map in Hb.
      destruct Hb as [u' [Hu' Hb]]. apply in_map_iff in Hb. destruct Hb as [[b1' b2'] [E _]].
      inversion E; subst. simpl. rewrite Forall_forall in Hu1. rewrite (Hu1 u' Hu'). reflexivity.
Qed.

(* every row is in the part of its own combination *)
Theorem splitm_covers kcols : forall ps p,
  In p ps -> exists vs qs, In (vs, qs) (splitm kcols ps) /\ In p qs.
Proof.
  induction kcols as [|c r IH]; intros ps p Hp; simpl.
  - exists [], ps. auto.
  - destruct (split1_covers c ps p Hp) as [v [qs [Hin Hq]]].
    unfold split1 in Hin. apply in_map_iff in Hin. destruct Hin as [u [E Hu]]. inversion E; subst. clear E.
    destruct (IH _ p Hq) as [vs [qs' [H1 H2]]].
    exists (v :: vs), qs'. split; auto.
    apply in_flat_map. exists v. split; auto. apply in_map_iff. exists (vs, qs'). auto.
Qed.

Theorem splitm_single c ps : splitm [c] ps = map (fun '(v, qs) => ([v], qs)) (split1 c ps).
Proof.
  simpl. unfold split1. rewrite map_map. simpl.
  induction (unique (take_cells ps c)); simpl; congruence.
Qed.

(* ---------- given values *)
Theorem splitv_order cells vs ps :
  List.length (splitv cells vs ps) = List.length vs
  /\ forall i, (i < List.length vs)%nat ->
       nth i (splitv cells vs ps) [] = filter (fun p => key_eq (cell cells p) (nth i vs VNone)) ps.
Proof.
  unfold splitv. split; [apply map_length|]. intros i Hi.
  rewrite (nth_indep _ [] (rows_with key_eq (cell cells) VNone ps)) by (rewrite map_length; auto).
  rewrite (map_nth (fun v => rows_with key_eq (cell cells) v ps)). reflexivity.
Qed.

(* ====================================================================== *)
(* group *)

Theorem groups_partition bycols ps : Permutation (List.concat (map snd (groups bycols ps))) ps.
Proof.
  unfold groups. rewrite map_map. simpl.
  apply (distinct_partition keys_eq keys_eq_refl keys_eq_sym keys_eq_trans (row_key bycols)).
Qed.

(* one group per distinct combination of by-values; the combinations are pairwise different *)
Theorem groups_combos bycols ps :
  map fst (groups bycols ps) = distinct keys_eq (map (row_key bycols) ps)
  /\ pairwise_ne keys_eq (map fst (groups bycols ps)).
Proof.
  unfold groups. rewrite map_map. simpl. rewrite map_id. split; auto.
  apply distinct_pairwise. apply keys_eq_sym.
Qed.

Theorem groups_parts bycols ps k qs :
  In (k, qs) (groups bycols ps) ->
  qs = filter (fun p => keys_eq (row_key bycols p) k) ps /\ qs <> []
  /\ exists p, In p ps /\ k = row_key bycols p.
Proof.
  unfold groups. intros H. apply in_map_iff in H. destruct H as [u [E Hu]]. inversion E; subst. clear E.
  apply (distinct_in keys_eq) in Hu. split; [reflexivity|]. split.
  - apply (rows_with_nonempty keys_eq keys_eq_refl (row_key bycols)). exact Hu.
  - apply in_map_iff in Hu. destruct Hu as [p [E Hp]]. eauto.
Qed.

Theorem groups_covers bycols ps p :
  In p ps -> exists k qs, In (k, qs) (groups bycols ps) /\ In p qs.
Proof.
  intros Hp.
  destruct (distinct_covers keys_eq keys_eq_refl keys_eq_trans (map (row_key bycols) ps) (row_key bycols p))
    as [u [Hu E]]; [apply in_map; auto|].
  exists u, (rows_with keys_eq (row_key bycols) u ps). split.
  - unfold groups. apply in_map_iff. exists u. auto.
  - apply rows_with_spec. auto.
Qed.

Lemma keys_eq_nth a : forall b j, keys_eq a b = true -> (j < List.length a)%nat ->
  key_eq (nth j a VNone) (nth j b VNone) = true.
Proof.
  induction a as [|x a IH]; intros [|y b] j H Hj; simpl in *; try discriminate; try lia.
  apply andb_true_iff in H. destruct H. destruct j; auto. apply IH; auto. lia.
Qed.
Lemma row_key_nth bycols p j : nth j (row_key bycols p) VNone = cell (nth j bycols []) p.
Proof.
  unfold row_key. replace VNone with ((fun c => cell c p) []) at 1.
  - apply (map_nth (fun c => cell c p)).
  - unfold cell. destruct p; reflexivity.
Qed.

(* the by-cells of a group equal the by-values of every row of the group *)
Theorem group_by_cells bycols ps k qs p j :
  In (k, qs) (groups bycols ps) -> In p qs -> (j < List.length bycols)%nat ->
  key_eq (cell (nth j bycols []) p) (nth j k VNone) = true.
Proof.
  intros H Hp Hj. apply groups_parts in H. destruct H as [-> _].
  apply filter_In in Hp. destruct Hp as [_ E].
  rewrite <- row_key_nth. apply keys_eq_nth; auto. unfold row_key. rewrite map_length. auto.
Qed.

Lemma max_len_ge {A} (gs : list (list A)) g : In g gs -> (List.length g <= max_len gs)%nat.
Proof.
  induction gs as [|x gs IH]; simpl; intros H; [contradiction|].
  destruct H as [->|H]; [lia|]. specialize (IH H). lia.
Qed.
Lemma max_len_attained {A} (gs : list (list A)) : gs <> [] -> exists g, In g gs /\ List.length g = max_len gs.
Proof.
  induction gs as [|x gs IH]; [congruence|]. intros _. simpl.
  destruct gs as [|y gs'].
  - exists x. simpl. split; auto. lia.
  - destruct IH as [g [Hg E]]; [discriminate|].
    destruct (Nat.le_ge_cases (List.length x) (max_len (y :: gs'))).
    + exists g. split; auto. lia.
    + exists x. split; auto. lia.
Qed.

(* every series row: the group's values in source order, then NaN up to the size of the largest group *)
Theorem series_rows cells gs i :
  (i < List.length gs)%nat ->
  nth i (series_of cells gs) [] =
    map to_fl (take_cells (nth i gs []) cells) ++ repeat FNan (max_len gs - List.length (nth i gs [])).
Proof.
  intros Hi. unfold series_of.
  rewrite (nth_indep _ [] ((fun ps => pad_row (max_len gs) (map to_fl (take_cells ps cells))) []))
    by (rewrite map_length; auto).
  rewrite (map_nth (fun ps => pad_row (max_len gs) (map to_fl (take_cells ps cells)))).
  unfold pad_row, take_cells. rewrite !map_length. reflexivity.
Qed.
Theorem series_row_length cells gs r : In r (series_of cells gs) -> List.length r = max_len gs.
Proof.
  unfold series_of. intros H. apply in_map_iff in H. destruct H as [ps [<- Hps]].
  unfold pad_row, take_cells. rewrite app_length, repeat_length, !map_length.
  pose proof (max_len_ge gs ps Hps). lia.
Qed.

(* the grouped table is made of exactly these pieces *)
Theorem group_table src bynames g :
  group src bynames = Some g ->
  exists bycols,
    all_some (map (fun n => col_cells n src) bynames) = Some bycols
    /\ let gs := groups bycols (seq 0 (nrows_of src)) in
       g_n g = List.length gs
       /\ (forall n k cs, In (n, k, cs) (g_by g) <->
             exists cells j, In (n, k, cells) src /\ index_of_name n bynames 0 = Some j
                             /\ cs = by_cells j (map fst gs))
       /\ (forall n d rows, In (n, d, rows) (g_series g) <->
             exists k cells, In (n, k, cells) src /\ index_of_name n bynames 0 = None
                             /\ d = max_len (map snd gs) /\ rows = series_of cells (map snd gs)).
Proof.
  unfold group. destruct (all_some (map (fun n => col_cells n src) bynames)) as [bycols|]; [|discriminate].
  intros E. inversion E; subst. clear E. exists bycols. split; auto. simpl. split; auto. split.
  - intros n k cs. rewrite in_flat_map. split.
    + intros [[[n' k'] cells] [Hin H]]. destruct (index_of_name n' bynames 0) as [j|] eqn:Ej; [|contradiction].
      destruct H as [H|[]]. inversion H; subst. exists cells, j. auto.
    + intros [cells [j [Hin [Ej ->]]]]. exists (n, k, cells). split; auto. rewrite Ej. left. reflexivity.
  - intros n d rows. rewrite in_flat_map. split.
    + intros [[[n' k'] cells] [Hin H]]. destruct (index_of_name n' bynames 0) as [j|] eqn:Ej; [contradiction|].
      destruct H as [H|[]]. inversion H; subst. exists k', cells. auto.
    + intros [k [cells [Hin [Ej [-> ->]]]]]. exists (n, k, cells). split; auto. rewrite Ej. left. reflexivity.
Qed.

(* ====================================================================== *)
(* the statements of Props/C14.v about a whole table of n rows *)

Lemma perm_seq_nodup l n : Permutation l (seq 0 n) -> NoDup l.
Proof. intros P. eapply Permutation_NoDup; [apply Permutation_sym, P | apply seq_NoDup]. Qed.

Theorem split_partition_all cells n :
  let parts := map snd (split1 cells (seq 0 n)) in
  Permutation (List.concat parts) (seq 0 n) /\ NoDup (List.concat parts).
Proof.
  simpl. pose proof (split1_partition cells (seq 0 n)) as P. split; auto. eapply perm_seq_nodup; eauto.
Qed.

Theorem split_part_exact cells n v qs :
  In (v, qs) (split1 cells (seq 0 n)) ->
  qs = filter (fun p => key_eq (cell cells p) v) (seq 0 n)
  /\ (forall p, In p qs <-> (p < n)%nat /\ key_eq (cell cells p) v = true)
  /\ StronglySorted lt qs /\ qs <> [].
Proof.
  intros H. apply split1_parts in H. destruct H as [E [Hne _]]. split; auto. split; [|split; auto].
  - intros p. rewrite E, filter_In, in_seq. intuition lia.
  - rewrite E. apply filter_sorted, seq_sorted.
Qed.

Theorem split_multi_all kcols n :
  let res := splitm kcols (seq 0 n) in
  Permutation (List.concat (map snd res)) (seq 0 n)
  /\ NoDup (List.concat (map snd res))
  /\ ForallOrdPairs (fun a b => keys_eq a b = false) (map fst res)
  /\ (forall vs qs, In (vs, qs) res ->
        qs = filter (fun p => keys_eq (row_key kcols p) vs) (seq 0 n)
        /\ StronglySorted lt qs /\ (kcols <> [] -> qs <> []))
  /\ (forall p, (p < n)%nat -> exists vs qs, In (vs, qs) res /\ In p qs).
Proof.
  simpl. pose proof (splitm_partition kcols (seq 0 n)) as P.
  split; auto. split; [eapply perm_seq_nodup; eauto|]. split; [apply splitm_combos_distinct|]. split.
  - intros vs qs H. pose proof (splitm_parts _ _ _ _ H) as E. split; auto. split.
    + rewrite E. apply filter_sorted, seq_sorted.
    + intros Hk. eapply splitm_nonempty; eauto.
  - intros p Hp. apply splitm_covers. apply in_seq. lia.
Qed.

Theorem group_rows_all bycols n :
  let gs := groups bycols (seq 0 n) in
  Permutation (List.concat (map snd gs)) (seq 0 n)
  /\ NoDup (List.concat (map snd gs))
  /\ map fst gs = distinct keys_eq (map (row_key bycols) (seq 0 n))
  /\ ForallOrdPairs (fun a b => keys_eq a b = false) (map fst gs)
  /\ (forall k qs, In (k, qs) gs ->
        qs = filter (fun p => keys_eq (row_key bycols p) k) (seq 0 n) /\ StronglySorted lt qs /\ qs <> [])
  /\ (forall p, (p < n)%nat -> exists k qs, In (k, qs) gs /\ In p qs).
Proof.
  simpl. pose proof (groups_partition bycols (seq 0 n)) as P. destruct (groups_combos bycols (seq 0 n)) as [C1 C2].
  split; auto. split; [eapply perm_seq_nodup; eauto|]. split; auto. split; auto. split.
  - intros k qs H. apply groups_parts in H. destruct H as [E [Hne _]]. split; auto. split; auto.
    rewrite E. apply filter_sorted, seq_sorted.
  - intros p Hp. apply groups_covers. apply in_seq. lia.
Qed.

Theorem series_padded cells gs :
  (forall i, (i < List.length gs)%nat ->
     nth i (series_of cells gs) [] =
       map to_fl (take_cells (nth i gs []) cells) ++ repeat FNan (max_len gs - List.length (nth i gs [])))
  /\ (forall r, In r (series_of cells gs) -> List.length r = max_len gs)
  /\ (forall g, In g gs -> (List.length g <= max_len gs)%nat)
  /\ (gs <> [] -> exists g, In g gs /\ List.length g = max_len gs).
Proof.
  split; [apply series_rows|]. split; [apply series_row_length|]. split; [apply max_len_ge | apply max_len_attained].
Qed.

(* ====================================================================== *)
(* `unique` is ordered: numbers by value with NaN last, text by code point, mixed columns by text *)

Lemma insert_by_sorted_in {K} (le : K -> K -> bool) (P : K -> Prop)
      (tot : forall a b, P a -> P b -> le a b = true \/ le b a = true) x l :
  P x -> Forall P l ->
  LocallySorted (fun a b => le a b = true) l -> LocallySorted (fun a b => le a b = true) (insert_by le x l).
Proof.
  intros Px Pl. induction 1 as [|a|a b l Hl IH Hab]; simpl.
  - constructor.
  - inversion Pl; subst. destruct (le x a) eqn:E; repeat constructor; auto. destruct (tot x a); auto; congruence.
  - inversion Pl as [|? ? Pa Pl']; subst. simpl in IH. destruct (le x a) eqn:E.
    + repeat constructor; auto.
    + destruct (le x b) eqn:E2.
      * constructor; [constructor; auto|]. destruct (tot x a); auto; congruence.
      * constructor; auto.
Qed.
Lemma insert_by_forall {K} (le : K -> K -> bool) (P : K -> Prop) x l : P x -> Forall P l -> Forall P (insert_by le x l).
Proof.
  intros Px. induction 1; simpl; [repeat constructor; auto|]. destruct (le x x0); repeat constructor; auto.
Qed.
Lemma isort_sorted_in {K} (le : K -> K -> bool) (P : K -> Prop)
      (tot : forall a b, P a -> P b -> le a b = true \/ le b a = true) l :
  Forall P l -> LocallySorted (fun a b => le a b = true) (isort le l) /\ Forall P (isort le l).
Proof.
  induction 1 as [|x l Px Pl [IH1 IH2]]; simpl; [split; constructor|]. split.
  - apply (insert_by_sorted_in le P tot); auto.
  - apply insert_by_forall; auto.
Qed.

Lemma dy_cmp_antisym p q : dy_cmp q p = CompOpp (dy_cmp p q).
Proof. destruct p as [m1 e1], q as [m2 e2]. unfold dy_cmp. rewrite (Z.min_comm e2 e1). apply Z.compare_antisym. Qed.
Lemma num_cmp_antisym x y :
  num_cmp y x = match num_cmp x y with Some c => Some (CompOpp c) | None => None end.
Proof.
  destruct x as [z|[|s|s|s m e]], y as [z'|[|s'|s'|s' m' e']]; unfold num_cmp; cbn [fl_dy];
    try reflexivity; try (rewrite dy_cmp_antisym; reflexivity);
    try (destruct s; reflexivity); try (destruct s'; reflexivity); try (destruct s, s'; reflexivity).
Qed.
Lemma num_cmp_none x y : num_cmp x y = None -> x = NFlt FNan \/ y = NFlt FNan.
Proof.
  destruct x as [z|[|s|s|s m e]], y as [z'|[|s'|s'|s' m' e']]; unfold num_cmp; cbn [fl_dy]; auto; discriminate.
Qed.

Lemma num_le_total a b : is_num a = true -> is_num b = true -> num_le a b = true \/ num_le b a = true.
Proof.
  unfold is_num, num_le. destruct (val_num a) as [x|] eqn:Ea; [|discriminate].
  destruct (val_num b) as [y|] eqn:Eb; [|discriminate]. intros _ _.
  destruct (is_nan b) eqn:Nb; [left; reflexivity|]. destruct (is_nan a) eqn:Na; [right; reflexivity|]. simpl.
  unfold num_leb. rewrite (num_cmp_antisym x y). destruct (num_cmp x y) as [[]|] eqn:E; simpl; auto.
  exfalso. apply num_cmp_none in E. destruct E; subst.
  - destruct a as [|[]| |]; simpl in *; try discriminate; inversion Ea.
  - destruct b as [|[]| |]; simpl in *; try discriminate; inversion Eb.
Qed.
Lemma str_leb_total s t : str_leb s t = true \/ str_leb t s = true.
Proof.
  unfold str_leb. rewrite (String.compare_antisym s t). destruct (String.compare t s); simpl; auto.
Qed.
Lemma str_le_total a b : str_le a b = true \/ str_le b a = true.
Proof. destruct a, b; simpl; auto. apply str_leb_total. Qed.
Lemma text_le_total a b : text_le a b = true \/ text_le b a = true.
Proof. unfold text_le. destruct (text_key a), (text_key b); auto. apply str_leb_total. Qed.

Theorem unique_sorted cells :
  LocallySorted (fun a b => unique_le (distinct key_eq cells) a b = true) (unique cells).
Proof.
  unfold unique. set (d := distinct key_eq cells). unfold unique_le.
  destruct (forallb is_num d) eqn:En.
  - apply (isort_sorted_in num_le (fun v => is_num v = true)).
    + intros a b Ha Hb. apply num_le_total; auto.
    + apply Forall_forall. apply forallb_forall. exact En.
  - destruct (forallb is_str d); apply isort_sorted; [apply str_le_total | apply text_le_total].
Qed.
