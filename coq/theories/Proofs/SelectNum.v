(* C02 proofs, part 3: exactness facts about numbers that the refinement of sequence references and of
   integral float references needs.
     - comparing with a finite float that denotes an integer z is comparing with z      (num_cmp_int_r)
     - an integral finite float denotes int(f)                                         (integral_is_int)
     - float(z) denotes z for every integer a binary64 holds: |z| <= 2^53, and
       z = +-M * 2^E with M < 2^53 (in particular int(f) of an integral binary64 f)    (round53_small, round53_trunc_is_int)
   No rounding is involved anywhere: values are exact dyadics (Base.PyVal). *)
From Coq Require Import ZArith List Bool String Lia.
From DM Require Import Base.PyVal Spec.Nf Gen.KCheck Model.Store Proofs.NfFacts.
Import ListNotations.
Open Scope Z_scope.

(* dy_cmp may scale both sides to any common exponent below both *)
Lemma dy_cmp_scaled m1 e1 m2 e2 u : u <= e1 -> u <= e2 ->
  dy_cmp (m1, e1) (m2, e2) = (m1 * 2 ^ (e1 - u) ?= m2 * 2 ^ (e2 - u)).
Proof.
  intros H1 H2. unfold dy_cmp. set (e := Z.min e1 e2).
  assert (He : u <= e /\ e <= e1 /\ e <= e2) by (unfold e; lia).
  replace (2 ^ (e1 - u)) with (2 ^ (e1 - e) * 2 ^ (e - u)) by (rewrite <- Z.pow_add_r by lia; f_equal; lia).
  replace (2 ^ (e2 - u)) with (2 ^ (e2 - e) * 2 ^ (e - u)) by (rewrite <- Z.pow_add_r by lia; f_equal; lia).
  rewrite !Z.mul_assoc. apply Zmult_compare_compat_r.
  apply Z.lt_gt. apply Z.pow_pos_nonneg; lia.
Qed.

(* the dyadic (m, e) denotes the integer z *)
Definition dy_is_int (d : Z * Z) (z : Z) : Prop :=
  let '(m, e) := d in (0 <= e -> z = m * 2 ^ e) /\ (e < 0 -> m = z * 2 ^ (- e)).

Lemma dy_cmp_int_r a m e z : dy_is_int (m, e) z -> dy_cmp a (m, e) = dy_cmp a (z, 0).
Proof.
  destruct a as [m1 e1]. intros [Hp Hn].
  set (u := Z.min e1 (Z.min e 0)).
  assert (Hu : u <= e1 /\ u <= e /\ u <= 0) by (unfold u; lia).
  rewrite (dy_cmp_scaled m1 e1 m e u), (dy_cmp_scaled m1 e1 z 0 u) by lia.
  f_equal.
  destruct (Z_le_gt_dec 0 e) as [He|He].
  - rewrite (Hp He). rewrite <- Z.mul_assoc, <- Z.pow_add_r by lia. do 2 f_equal; lia.
  - rewrite (Hn ltac:(lia)). rewrite <- Z.mul_assoc, <- Z.pow_add_r by lia. do 2 f_equal; lia.
Qed.

(* the finite float f denotes the integer z *)
Definition fl_is_int (f : fl) (z : Z) : Prop :=
  match fl_dy f with Some d => dy_is_int d z | None => False end.

(* comparing any number with such a float is comparing it with the integer *)
Lemma num_cmp_int_r x f z : fl_is_int f z -> num_cmp x (NFlt f) = num_cmp x (NInt z).
Proof.
  unfold fl_is_int. destruct f as [|n|n|n m e]; cbn [fl_dy]; try contradiction; intros H;
    destruct x as [a|[|s|s|s m' e']]; unfold num_cmp; cbn [fl_dy]; try reflexivity;
    f_equal; apply dy_cmp_int_r; exact H.
Qed.

(* an integral finite float denotes its truncation: int(f) == f exactly, whatever the magnitude *)
Lemma integral_is_int f : fl_is_finite f = true -> fl_integral f = true -> fl_is_int f (fl_trunc f).
Proof.
  destruct f as [|n|n|n m e]; try discriminate; intros _ Hi; unfold fl_is_int; cbn [fl_dy dy_is_int fl_trunc].
  - split; intros; lia.
  - unfold fl_integral in Hi. destruct (0 <=? e) eqn:He.
    + apply Z.leb_le in He. split; [intros _|lia]. destruct n; [change (Z.neg m) with (- Z.pos m)|]; lia.
    + apply Z.leb_gt in He. cbn [orb] in Hi. apply Z.eqb_eq in Hi. split; [lia|intros _].
      assert (Hp : 0 < 2 ^ (- e)) by (apply Z.pow_pos_nonneg; lia).
      pose proof (Z.div_mod (Z.pos m) (2 ^ (- e)) ltac:(lia)) as Hdm. rewrite Hi in Hdm.
      destruct n; [change (Z.neg m) with (- Z.pos m)|]; lia.
Qed.

Lemma num_cmp_trunc x f : fl_is_finite f = true -> fl_integral f = true ->
  num_cmp x (NInt (fl_trunc f)) = num_cmp x (NFlt f).
Proof. intros Hf Hi. symmetry. apply num_cmp_int_r, integral_is_int; assumption. Qed.

(* ---------- float(int) is exact on the integers a binary64 holds *)
Lemma mk_fin_is_int neg a e : 0 < a -> 0 <= e -> fl_is_int (mk_fin neg a e) ((if neg then - a else a) * 2 ^ e).
Proof.
  intros Ha He. unfold mk_fin. destruct a as [|p|p]; try lia.
  destruct (pos_norm p e) as [m' e'] eqn:E.
  pose proof (pos_norm_val p e He) as [Hv Hle]. rewrite E in Hv, Hle. cbn [fst snd] in *.
  unfold fl_is_int. cbn [fl_dy dy_is_int]. split; [intros _|lia].
  destruct neg; [change (Z.neg m') with (- Z.pos m')|]; lia.
Qed.

Lemma round53_exact (neg : bool) M E : 0 < M < 2 ^ 53 -> 0 <= E ->
  fl_is_int (round53 ((if neg then - M else M) * 2 ^ E)) ((if neg then - M else M) * 2 ^ E).
Proof.
  intros HM HE.
  set (a := M * 2 ^ E).
  assert (Hpe : 0 < 2 ^ E) by (apply Z.pow_pos_nonneg; lia).
  assert (Ha : 0 < a) by (unfold a; nia).
  assert (Hz : (if neg then - M else M) * 2 ^ E = if neg then - a else a) by (unfold a; destruct neg; lia).
  rewrite Hz.
  assert (Habs : Z.abs (if neg then - a else a) = a) by (destruct neg; lia).
  assert (Hsign : ((if neg then - a else a) <? 0) = neg).
  { destruct neg; [apply Z.ltb_lt|apply Z.ltb_ge]; lia. }
  unfold round53. rewrite Habs, Hsign.
  assert (E0 : (a =? 0) = false) by (apply Z.eqb_neq; lia). rewrite E0.
  assert (Hlog : Z.log2 a = E + Z.log2 M) by (unfold a; apply Z.log2_mul_pow2; lia).
  assert (Hlm : Z.log2 M < 53) by (apply Z.log2_lt_pow2; lia).
  assert (Hl0 : 0 <= Z.log2 M) by apply Z.log2_nonneg.
  destruct (Z.log2 a + 1 <=? 53) eqn:En.
  - pose proof (mk_fin_is_int neg a 0 Ha ltac:(lia)) as H. rewrite Z.pow_0_r, Z.mul_1_r in H. exact H.
  - apply Z.leb_gt in En. set (sh := Z.log2 a + 1 - 53).
    assert (Hsh : 0 < sh <= E) by (unfold sh; lia).
    assert (Hsplit : a = (M * 2 ^ (E - sh)) * 2 ^ sh).
    { unfold a. rewrite <- Z.mul_assoc, <- Z.pow_add_r by lia. do 2 f_equal. lia. }
    assert (Hps : 0 < 2 ^ sh) by (apply Z.pow_pos_nonneg; lia).
    assert (Hq : a / 2 ^ sh = M * 2 ^ (E - sh)) by (rewrite Hsplit; apply Z.div_mul; lia).
    assert (Hr : a mod 2 ^ sh = 0) by (rewrite Hsplit; apply Z.mod_mul; lia).
    rewrite Hq, Hr.
    assert (Hh : 0 < 2 ^ (sh - 1)) by (apply Z.pow_pos_nonneg; lia).
    assert (E1 : (2 ^ (sh - 1) <? 0) = false) by (apply Z.ltb_ge; lia).
    assert (E2 : (0 =? 2 ^ (sh - 1)) = false) by (apply Z.eqb_neq; lia).
    rewrite E1, E2. cbn [orb andb].
    assert (Hpes : 0 < 2 ^ (E - sh)) by (apply Z.pow_pos_nonneg; lia).
    pose proof (mk_fin_is_int neg (M * 2 ^ (E - sh)) sh ltac:(nia) ltac:(lia)) as H.
    replace ((if neg then - (M * 2 ^ (E - sh)) else M * 2 ^ (E - sh)) * 2 ^ sh) with (if neg then - a else a) in H
      by (rewrite Hsplit; destruct neg; lia).
    exact H.
Qed.

(* integers up to 2^53 in magnitude *)
Lemma round53_small z : - 2 ^ 53 <= z <= 2 ^ 53 -> fl_is_int (round53 z) z.
Proof.
  intros Hz.
  destruct (Z.eq_dec z 0) as [->|Hnz].
  { unfold fl_is_int. cbn. split; intros; lia. }
  destruct (Z.eq_dec (Z.abs z) (2 ^ 53)) as [Hmax|Hlt].
  - pose proof (round53_exact (z <? 0) 1 53 ltac:(lia) ltac:(lia)) as H.
    assert (Ez : (if z <? 0 then Z.opp 1 else 1) * 2 ^ 53 = z)
      by (destruct (z <? 0) eqn:E; [apply Z.ltb_lt in E|apply Z.ltb_ge in E]; lia).
    rewrite Ez in H. exact H.
  - pose proof (round53_exact (z <? 0) (Z.abs z) 0 ltac:(lia) ltac:(lia)) as H.
    assert (Ez : (if z <? 0 then - Z.abs z else Z.abs z) * 2 ^ 0 = z)
      by (destruct (z <? 0) eqn:E; [apply Z.ltb_lt in E|apply Z.ltb_ge in E]; lia).
    rewrite Ez in H. exact H.
Qed.

(* int(f) of an integral binary64 *)
Lemma round53_trunc_is_int f : fl_wf f = true -> fl_is_finite f = true -> fl_integral f = true ->
  fl_is_int (round53 (fl_trunc f)) (fl_trunc f).
Proof.
  destruct f as [|n|n|neg m e]; try discriminate; intros Hwf _ Hint.
  - unfold fl_is_int. cbn. split; intros; lia.
  - unfold fl_wf in Hwf. unfold fl_integral in Hint.
    apply andb_prop in Hwf as [Hlt Hodd]. apply Z.ltb_lt in Hlt.
    assert (He : 0 <= e).
    { destruct (0 <=? e) eqn:E; [apply Z.leb_le in E; exact E|]. cbn [orb] in Hint.
      apply Z.leb_gt in E. apply Z.eqb_eq in Hint.
      assert (Hp : 2 ^ (- e) = 2 * 2 ^ (- e - 1)) by (rewrite <- Z.pow_succ_r by lia; f_equal; lia).
      assert (Hq : 0 < 2 ^ (- e - 1)) by (apply Z.pow_pos_nonneg; lia).
      pose proof (Z.div_mod (Z.pos m) (2 ^ (- e)) ltac:(lia)) as Hdm.
      rewrite Hint, Hp in Hdm.
      exfalso. apply Z.odd_spec in Hodd. destruct Hodd as [k Hk]. nia. }
    unfold fl_trunc. assert (El : (0 <=? e) = true) by (apply Z.leb_le; exact He). rewrite El.
    pose proof (round53_exact neg (Z.pos m) e ltac:(lia) He) as H.
    assert (Ez : (if neg then - (Z.pos m * 2 ^ e) else Z.pos m * 2 ^ e) = (if neg then - Z.pos m else Z.pos m) * 2 ^ e)
      by (destruct neg; lia).
    rewrite Ez. exact H.
Qed.

(* float(int(f)) compares like f, float(z) compares like z *)
Lemma num_cmp_round53_trunc x f : fl_wf f = true -> fl_is_finite f = true -> fl_integral f = true ->
  num_cmp x (NFlt (round53 (fl_trunc f))) = num_cmp x (NFlt f).
Proof.
  intros Hw Hf Hi. rewrite (num_cmp_int_r x _ _ (round53_trunc_is_int f Hw Hf Hi)). apply num_cmp_trunc; assumption.
Qed.

Lemma num_cmp_round53_small x z : - 2 ^ 53 <= z <= 2 ^ 53 -> num_cmp x (NFlt (round53 z)) = num_cmp x (NInt z).
Proof. intros Hz. apply num_cmp_int_r, round53_small, Hz. Qed.

(* len(a) == len(b) on Python ints *)
Lemma py_eq_int a b : py_eq (PInt a) (PInt b) = (a =? b).
Proof.
  unfold py_eq, pyv_num, num_eqb, num_cmp, dy_cmp. cbn [Z.min Z.sub Z.opp]. rewrite Z.min_id.
  replace (0 - 0) with 0 by lia. rewrite Z.pow_0_r, !Z.mul_1_r.
  destruct (Z.compare_spec a b) as [->|H|H]; symmetry; [apply Z.eqb_refl|apply Z.eqb_neq; lia|apply Z.eqb_neq; lia].
Qed.
