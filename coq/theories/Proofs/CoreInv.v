(* The representation invariant inv_b (Model/LTable.v) is INDUCTIVE AT L1: the implementation-shaped algorithms of
   Model/Core.v re-establish it on every table they produce -- duplicate-free row ids, valid Index caches (position
   cache absent or exact, maximum absent or true), distinct names bound to existing column objects, and for every
   column object the table's row ids, one cell per row, owner and type-checking flags, valid caches of its own Index
   and cells that are normal forms of its type.  Until now inv_b was only evaluated on dumped implementation states
   and assumed by the refinement theorems (Proofs/CoreRefine.v ...); here it is proved for every step of lstep, for
   concat_l and for whole L1 histories, under the boolean side condition step_fits defined below. *)
From Coq Require Import ZArith NArith List Bool Lia Arith String.
From DM Require Import Base.PyVal Spec.Nf Spec.Table Spec.Ops Model.LTable Gen.KCore Model.Core.
From DM Require Export Model.CoreRun.
From DM Require Import
  Proofs.ListX Proofs.MergeFacts Proofs.TableFacts Proofs.CoreRefine Proofs.SetColRefine Proofs.ConcatRefine.
Import ListNotations.
Open Scope nat_scope.

(* ---------- the boolean invariant, read as a proposition over the three fields it depends on ---------- *)
Definition col_okP (ids : list N) (c : lcol) : Prop :=
  ia (lc_rowid c) = ids /\ List.length (lc_cells c) = List.length ids
  /\ lc_owner c = true /\ lc_tc c = true /\ index_ok (lc_rowid c) = true
  /\ forallb (cell_ok (lc_kind c)) (lc_cells c) = true.

Definition names_okP (names : list (string * nat)) (ncols : nat) : Prop :=
  NoDup (map fst names) /\ Forall (fun ni : string * nat => snd ni < ncols) names.

Definition invP (rid : index) (names : list (string * nat)) (cols : list lcol) : Prop :=
  NoDup (ia rid) /\ index_ok rid = true /\ names_okP names (List.length cols) /\ Forall (col_okP (ia rid)) cols.

Lemma ids_eqb_iff a b : ids_eqb a b = true <-> a = b.
Proof. split; [apply ids_eqb_eq|intros ->; apply ids_eqb_refl]. Qed.

Lemma col_ok_iff t c : col_ok t c = true <-> col_okP (ia (l_rowid t)) c.
Proof.
  unfold col_ok, col_okP. rewrite !andb_true_iff, ids_eqb_iff, Nat.eqb_eq. tauto.
Qed.

Lemma nodup_str_NoDup l : nodup_str l = true <-> NoDup l.
Proof.
  induction l as [|x l IH]; cbn [nodup_str]; [split; [constructor|reflexivity]|].
  rewrite andb_true_iff, negb_true_iff, IH. split.
  - intros [Hx Hl]. constructor; [|assumption]. intros Hin.
    assert (Hex : existsb (String.eqb x) l = true) by (apply existsb_exists; exists x; split; [assumption|apply String.eqb_refl]).
    congruence.
  - intros H. inversion H as [|? ? Hnotin Hnd]; subst. split; [|assumption].
    destruct (existsb (String.eqb x) l) eqn:E; [|reflexivity].
    apply existsb_exists in E. destruct E as [y [Hy Exy]]. apply String.eqb_eq in Exy. subst y. contradiction.
Qed.

Lemma inv_b_iff t : inv_b t = true <-> invP (l_rowid t) (l_names t) (l_cols t).
Proof.
  unfold inv_b, invP, names_okP. rewrite !andb_true_iff, nodup_N_NoDup, nodup_str_NoDup.
  assert (Hn : forallb (fun '(_, i) => Nat.ltb i (List.length (l_cols t))) (l_names t) = true
               <-> Forall (fun ni : string * nat => snd ni < List.length (l_cols t)) (l_names t)).
  { rewrite forallb_forall, Forall_forall. split; intros H [n i] Hin; specialize (H _ Hin); cbn [snd] in *;
      [apply Nat.ltb_lt|apply Nat.ltb_lt]; exact H. }
  assert (Hc : forallb (col_ok t) (l_cols t) = true <-> Forall (col_okP (ia (l_rowid t))) (l_cols t)).
  { rewrite forallb_forall, Forall_forall. split; intros H c Hin; apply col_ok_iff; apply H; exact Hin. }
  rewrite Hn, Hc. tauto.
Qed.

(* the invariant does not read the family, the sorted flag or the default column type *)
Lemma inv_b_fields t f s d :
  inv_b t = true ->
  inv_b {| l_fam := f; l_rowid := l_rowid t; l_names := l_names t; l_cols := l_cols t; l_sorted := s; l_dflt := d |} = true.
Proof. intros H. apply inv_b_iff. apply inv_b_iff in H. exact H. Qed.

Lemma col_okP_inv ids c : col_okP ids c -> col_inv ids c.
Proof.
  intros (Hi & Hl & _ & _ & Hix & _). unfold index_ok in Hix. apply andb_true_iff in Hix. constructor; tauto.
Qed.

(* ---------- what this file needs of the regenerated kernels (Gen/KCore.v), nothing else is unfolded below ---------- *)
Lemma index_init_max_spec n : k_index_init_max n = (n - 1)%Z.
Proof. reflexivity. Qed.
Lemma append_max_spec i cur : k_append_max i cur = Z.max i cur.
Proof. unfold k_append_max. destruct (Z.gtb_spec i cur); lia. Qed.
Lemma setcol_byref_owner same_owner is_own same_len same_ids :
  k_setcol_byref same_owner is_own same_len same_ids = true -> same_owner = true.
Proof. unfold k_setcol_byref. rewrite !andb_true_iff. tauto. Qed.
Lemma setcol_byref_notown same_owner same_len same_ids : k_setcol_byref same_owner false same_len same_ids = false.
Proof. unfold k_setcol_byref. destruct same_owner; reflexivity. Qed.
Lemma setcol_badlen_spec vlen len : k_setcol_badlen vlen len = false -> vlen = len.
Proof. unfold k_setcol_badlen. intros H. apply negb_false_iff, Z.eqb_eq in H. exact H. Qed.
(* a rename that is neither a no-op nor refused has a new name that is not in use *)
Lemma rename_decision_new same old_in new_in is_ident :
  (k_rename_decision same old_in new_in true is_ident false =? 0)%Z = false ->
  (k_rename_decision same old_in new_in true is_ident false =? 1)%Z = false -> new_in = false.
Proof. unfold k_rename_decision. destruct same, old_in, new_in, is_ident; cbn; congruence. Qed.

(* ---------- Index objects: the caches every constructor / mutator leaves behind are valid ---------- *)
Lemma index_ok_of_list l : index_ok (idx_of_list l) = true.
Proof. reflexivity. Qed.

Lemma maxN_app a b : maxN (a ++ b) = N.max (maxN a) (maxN b).
Proof. induction a as [|x a IH]; cbn [app maxN]; [lia|]. rewrite IH. lia. Qed.

Lemma maxN_iotaN n : forall s, (N.succ (maxN (iotaN s (S n))) = s + N.of_nat (S n))%N.
Proof.
  induction n as [|n IH]; intros s; [cbn [iotaN maxN]; lia|].
  change (iotaN s (S (S n))) with (s :: iotaN (N.succ s) (S n)). cbn [maxN].
  specialize (IH (N.succ s)). lia.
Qed.

Lemma index_ok_range n : index_ok (idx_range n) = true.
Proof.
  unfold index_ok, meta_ok, max_ok, idx_range. rewrite index_init_max_spec. cbn [imeta imax ia andb].
  destruct n as [|n]; [reflexivity|].
  change (iotaN 0 (S n)) with (0%N :: iotaN 1 n). apply Z.eqb_eq.
  pose proof (maxN_iotaN n 0) as H. change (iotaN 0 (S n)) with (0%N :: iotaN 1 n) in H. lia.
Qed.

Lemma index_ok_append i k : index_ok i = true -> index_ok (idx_append i k) = true.
Proof.
  unfold index_ok, meta_ok, max_ok, idx_append. cbn [imeta imax ia andb].
  rewrite andb_true_iff. intros [_ Hm]. destruct (imax i) as [m|]; [|reflexivity]. rewrite append_max_spec.
  destruct (ia i) as [|x l] eqn:E.
  - apply Z.eqb_eq in Hm. subst m. cbn [app maxN]. apply Z.eqb_eq. lia.
  - apply Z.eqb_eq in Hm. subst m. change ((x :: l) ++ [k]) with (x :: (l ++ [k])).
    apply Z.eqb_eq. cbn [maxN]. rewrite maxN_app. cbn [maxN]. lia.
Qed.

Lemma index_ok_fold_append hits : forall i, index_ok i = true -> index_ok (fold_left idx_append hits i) = true.
Proof.
  induction hits as [|h hits IH]; intros i H; cbn [fold_left]; [exact H|]. apply IH. apply index_ok_append. exact H.
Qed.

Lemma index_ok_add i j : index_ok (idx_add i j) = true.
Proof. reflexivity. Qed.

Lemma maxN_insert x l : maxN (insert_N x l) = N.max x (maxN l).
Proof.
  induction l as [|y l IH]; cbn [insert_N maxN]; [reflexivity|].
  destruct (N.leb x y); cbn [maxN]; [reflexivity|]. rewrite IH. lia.
Qed.
Lemma maxN_sort l : maxN (sort_N l) = maxN l.
Proof. unfold sort_N. induction l as [|x l IH]; cbn [fold_right maxN]; [reflexivity|]. rewrite maxN_insert, IH. reflexivity. Qed.
Lemma sort_N_nil l : sort_N l = [] -> l = [].
Proof.
  destruct l as [|x l]; [reflexivity|]. intros H. exfalso.
  assert (Hin : In x (sort_N (x :: l))) by (apply sort_N_In; left; reflexivity). rewrite H in Hin. destruct Hin.
Qed.

(* Index.sorted keeps the cached maximum: it is still the maximum *)
Lemma index_ok_sorted i : index_ok i = true -> index_ok (idx_sorted i) = true.
Proof.
  unfold index_ok, meta_ok, max_ok, idx_sorted. cbn [imeta imax ia andb]. rewrite andb_true_iff. intros [_ Hm].
  destruct (imax i) as [m|]; [|reflexivity].
  destruct (sort_N (ia i)) as [|y s] eqn:Es.
  - apply sort_N_nil in Es. rewrite Es in Hm. exact Hm.
  - destruct (ia i) as [|x l] eqn:E; [discriminate|]. rewrite <- Es, maxN_sort. exact Hm.
Qed.

(* ---------- cells ---------- *)
Lemma default_cell_ok k : cell_ok k (default_cell k) = true.
Proof. destruct k; reflexivity. Qed.

(* the integer an IntColumn would store for v lies in the int64 range (or v is refused) *)
Definition int64_b (z : Z) : bool := ((- 2 ^ 63 <=? z) && (z <? 2 ^ 63))%Z.
Definition int_fits (v : pyv) : bool :=
  match num_of v with
  | Some (NInt z) => int64_b z
  | Some (NFlt f) => if fl_is_finite f then int64_b (fl_trunc f) else true
  | None => true
  end.
Definition val_fits (k : kind) (v : pyv) : bool := match k with KInt => int_fits v | _ => true end.

Lemma nf_cell_ok k v x : val_fits k v = true -> nf k v = Ok x -> cell_ok k x = true.
Proof.
  destruct k; cbn [val_fits nf].
  - intros _. unfold nf_mixed. destruct (num_of v) as [[z|f]|].
    + intros H; injection H as <-. reflexivity.
    + destruct (fl_is_finite f && fl_integral f) eqn:E; intros H; injection H as <-; [reflexivity|].
      cbn [cell_ok]. rewrite E. reflexivity.
    + destruct v; try discriminate; intros H; injection H as <-; reflexivity.
  - intros _. unfold nf_float. destruct (num_of v) as [[z|f]|].
    + intros H; injection H as <-. reflexivity.
    + intros H; injection H as <-. reflexivity.
    + destruct v; try discriminate; intros H; injection H as <-; reflexivity.
  - unfold int_fits, nf_int. destruct (num_of v) as [[z|f]|]; [| |discriminate].
    + intros Hf H; injection H as <-. exact Hf.
    + destruct (fl_is_finite f); [|discriminate]. intros Hf H; injection H as <-. exact Hf.
Qed.

Lemma coerce_all_ok k vs : forall xs,
  forallb (val_fits k) vs = true -> coerce_all k vs = Ok xs -> forallb (cell_ok k) xs = true.
Proof.
  induction vs as [|v vs IH]; intros xs Hf; cbn [coerce_all]; [intros H; injection H as <-; reflexivity|].
  cbn [forallb] in Hf. apply andb_true_iff in Hf. destruct Hf as [Hv Hvs].
  destruct (nf k v) as [x|e] eqn:En; cbn [bind]; [|discriminate].
  destruct (coerce_all k vs) as [ys|e]; cbn [bind]; [|discriminate].
  intros H; injection H as <-. cbn [forallb]. rewrite (nf_cell_ok k v x Hv En), (IH ys Hvs eq_refl). reflexivity.
Qed.

Definition rhs_fits (k : kind) (r : rhs) : bool :=
  match r with RScalar v => val_fits k v | RSeq vs => forallb (val_fits k) vs end.

Lemma forallb_firstn {A} (f : A -> bool) n l : forallb f l = true -> forallb f (firstn n l) = true.
Proof.
  revert n; induction l as [|a l IH]; intros [|n] H; cbn [firstn forallb] in *; try reflexivity.
  apply andb_true_iff in H. destruct H as [Ha Hl]. rewrite Ha, (IH n Hl). reflexivity.
Qed.

Lemma forallb_repeat {A} (f : A -> bool) x n : f x = true -> forallb f (repeat x n) = true.
Proof. intros H. induction n as [|n IH]; cbn [repeat forallb]; [reflexivity|]. rewrite H, IH. reflexivity. Qed.

Lemma rhs_cells_k_ok k n r xs :
  rhs_fits k r = true -> rhs_cells_k k n r = Ok xs ->
  forallb (cell_ok k) xs = true /\ List.length xs = n.
Proof.
  intros Hf H. split; [|rewrite rhs_cells_k_spec in H; eapply rhs_cells_length; exact H].
  destruct r as [v|vs]; cbn [rhs_cells_k rhs_fits] in *.
  - destruct (nf k v) as [x|e] eqn:En; cbn [bind] in H; [|discriminate]. injection H as <-.
    apply forallb_repeat. eapply nf_cell_ok; eassumption.
  - destruct (coerce_all k _) as [ys|e] eqn:Ec; cbn [bind] in H; [|discriminate].
    destruct (k_toseq_badlen _ _); [discriminate|]. injection H as <-.
    eapply coerce_all_ok; [|exact Ec]. apply forallb_firstn. exact Hf.
Qed.

Lemma forallb_set_nth {A} (f : A -> bool) x : forall i l, f x = true -> forallb f l = true -> forallb f (set_nth i x l) = true.
Proof.
  intros i l Hx. revert i. induction l as [|a l IH]; intros [|i] Hl; cbn [set_nth forallb] in *; try reflexivity;
    apply andb_true_iff in Hl; destruct Hl as [Ha Hl]; apply andb_true_iff; split; auto.
Qed.

Lemma forallb_write_at (f : val -> bool) ps : forall xs cells,
  forallb f xs = true -> forallb f cells = true -> forallb f (write_at ps xs cells) = true.
Proof.
  induction ps as [|p ps IH]; intros [|x xs] cells Hx Hc; cbn [write_at]; try exact Hc.
  cbn [forallb] in Hx. apply andb_true_iff in Hx. destruct Hx as [Hx Hxs].
  apply IH; [exact Hxs|]. apply forallb_set_nth; assumption.
Qed.

Lemma write_list_k_ok (f : val -> bool) len l : forall xs cells,
  forallb f xs = true -> forallb f cells = true ->
  forallb f (fst (write_list_k len l xs cells)) = true
  /\ List.length (fst (write_list_k len l xs cells)) = List.length cells.
Proof.
  induction l as [|i l IH]; intros [|x xs] cells Hx Hc; cbn [write_list_k fst]; try (split; [exact Hc|reflexivity]).
  destruct (k_seqkey_oob i len); cbn [fst]; [split; [exact Hc|reflexivity]|].
  cbn [forallb] in Hx. apply andb_true_iff in Hx. destruct Hx as [Hx Hxs].
  destruct (IH xs (set_nth (Z.to_nat i) x cells) Hxs (forallb_set_nth f x _ _ Hx Hc)) as [H1 H2].
  split; [exact H1|]. rewrite H2. apply set_nth_length.
Qed.

Lemma forallb_take_pos {A} (f : A -> bool) ps (l r : list A) :
  forallb f l = true -> take_pos ps l = Some r -> forallb f r = true.
Proof.
  rewrite !forallb_forall. intros H Ht x Hx. apply H. eapply take_pos_In; eassumption.
Qed.

Lemma forallb_app_intro {A} (f : A -> bool) a b : forallb f a = true -> forallb f b = true -> forallb f (a ++ b) = true.
Proof. intros Ha Hb. rewrite forallb_app, Ha, Hb. reflexivity. Qed.

(* ---------- name maps ---------- *)
Lemma map_fst_combine {A B} (l : list A) : forall (m : list B), List.length l = List.length m -> map fst (combine l m) = l.
Proof. induction l as [|a l IH]; intros [|b m] H; cbn [combine map fst List.length] in *; try reflexivity; try lia. f_equal. apply IH. lia. Qed.

Lemma names_ok_fresh (names : list (string * nat)) n :
  NoDup (map fst names) -> List.length names = n ->
  names_okP (combine (map fst names) (seq 0 (List.length names))) n.
Proof.
  intros Hnd Hl. split.
  - rewrite map_fst_combine by (rewrite map_length, seq_length; reflexivity). exact Hnd.
  - subst n. exact (combine_seq_bound (map fst names) 0 (List.length names)).
Qed.

Lemma lookup_None_notin {A} n (l : list (string * A)) : lookup n l = None -> ~ In n (map fst l).
Proof.
  induction l as [|[m a] l IH]; cbn [lookup map fst]; [intros _ []|].
  destruct (String.eqb n m) eqn:E; [discriminate|]. apply String.eqb_neq in E.
  intros H [Hm|Hin]; [congruence|]. exact (IH H Hin).
Qed.

Lemma lookup_Some_in {A} n (l : list (string * A)) a : lookup n l = Some a -> In n (map fst l).
Proof. intros H. apply lookup_In in H. apply in_map_iff. exists (n, a). split; [reflexivity|exact H]. Qed.

Lemma map_fst_replace_name {A} n (a : A) l : map fst (replace_name n a l) = map fst l.
Proof.
  induction l as [|[m x] l IH]; cbn [replace_name]; [reflexivity|].
  destruct (String.eqb n m); cbn [map fst]; [reflexivity|]. f_equal. exact IH.
Qed.

Lemma names_ok_mono names n m : n <= m -> names_okP names n -> names_okP names m.
Proof.
  intros Hle [Hnd Hb]. split; [exact Hnd|]. eapply Forall_impl; [|exact Hb]. intros a Ha. cbv beta in *. lia.
Qed.

(* binding a name to a column index: an existing name keeps its place, a new one is appended *)
Lemma names_ok_bind names n ci ncols :
  names_okP names ncols -> ci < ncols ->
  names_okP (match lookup n names with Some _ => replace_name n ci names | None => names ++ [(n, ci)] end) ncols.
Proof.
  intros [Hnd Hb] Hci. destruct (lookup n names) as [j|] eqn:El.
  - split; [rewrite map_fst_replace_name; exact Hnd|].
    apply (replace_name_bound (fun j => j < ncols)); assumption.
  - split.
    + rewrite map_app. cbn [map fst]. apply NoDup_app_disj; [exact Hnd|constructor; [intros []|constructor]|].
      intros x Hx [<-|[]]. exact (lookup_None_notin _ _ El Hx).
    + apply Forall_app. split; [exact Hb|constructor; [exact Hci|constructor]].
Qed.

Lemma names_ok_filter (f : string * nat -> bool) names n : names_okP names n -> names_okP (filter f names) n.
Proof.
  intros [Hnd Hb]. split.
  - clear Hb. induction names as [|a l IH]; cbn [filter]; [constructor|].
    cbn [map] in Hnd. inversion Hnd as [|? ? Hnotin Hnd']; subst. destruct (f a); cbn [map]; [|apply IH; exact Hnd'].
    constructor; [|apply IH; exact Hnd']. intros Hin. apply Hnotin. apply in_map_iff in Hin. destruct Hin as [y [Ey Hy]].
    apply filter_In in Hy. apply in_map_iff. exists y. tauto.
  - apply Forall_forall. intros x Hx. apply filter_In in Hx. rewrite Forall_forall in Hb. apply Hb. tauto.
Qed.

Lemma names_ok_rename old new names n :
  names_okP names n -> ~ In new (map fst names) ->
  names_okP (map (fun '(m, i) => if String.eqb m old then (new, i) else (m, i)) names) n.
Proof.
  intros [Hnd Hb] Hnew. set (g := fun '(m, i) => if String.eqb m old then (new, i) else (m : string, i : nat)).
  split.
  - clear Hb. induction names as [|[m i] l IH]; [constructor|]. cbn [map] in *.
    inversion Hnd as [|? ? Hnotin Hnd']; subst.
    assert (Hnew' : ~ In new (map fst l)) by (intros H; apply Hnew; right; exact H).
    assert (IH' := IH Hnd' Hnew').
    constructor; [|exact IH'].
    assert (Eg : fst (g (m, i)) = if String.eqb m old then new else m) by (unfold g; destruct (String.eqb m old); reflexivity).
    rewrite Eg. clear Eg. intros Hin.
    assert (Hl : forall x, In x (map fst (map g l)) -> x = new /\ In old (map fst l) \/ (x <> old /\ In x (map fst l))).
    { clear - l. intros x Hx. rewrite map_map in Hx. apply in_map_iff in Hx. destruct Hx as [[m' i'] [E Hi]]. unfold g in E.
      destruct (String.eqb m' old) eqn:Em; cbn [fst] in E.
      - left. apply String.eqb_eq in Em. subst. split; [reflexivity|]. apply in_map_iff. exists (old, i'). split; [reflexivity|exact Hi].
      - right. subst x. apply String.eqb_neq in Em. split; [exact Em|]. apply in_map_iff. exists (m', i'). split; [reflexivity|exact Hi]. }
    specialize (Hl _ Hin). destruct (String.eqb m old) eqn:Em.
    + apply String.eqb_eq in Em. subst m. destruct Hl as [[_ Ho]|[_ Hn]]; [exact (Hnotin Ho)|exact (Hnew' Hn)].
    + destruct Hl as [[E _]|[_ Hm]]; [|exact (Hnotin Hm)]. subst m. apply Hnew. left. reflexivity.
  - apply Forall_forall. intros x Hx. apply in_map_iff in Hx. destruct Hx as [[m i] [<- Hin]].
    rewrite Forall_forall in Hb. specialize (Hb _ Hin). unfold g. destruct (String.eqb m old); exact Hb.
Qed.

(* ---------- columns ---------- *)
Lemma Forall_set_nth {A} (P : A -> Prop) x : forall i l, P x -> Forall P l -> Forall P (set_nth i x l).
Proof.
  intros i l Hx. revert i. induction l as [|a l IH]; intros [|i] Hl; cbn [set_nth]; try constructor;
    inversion Hl; subst; auto.
Qed.

Lemma col_ok_cells ids c cells :
  col_okP ids c -> List.length cells = List.length (lc_cells c) -> forallb (cell_ok (lc_kind c)) cells = true ->
  col_okP ids {| lc_kind := lc_kind c; lc_rowid := lc_rowid c; lc_cells := cells; lc_owner := lc_owner c; lc_tc := lc_tc c |}.
Proof.
  intros (H1 & H2 & H3 & H4 & H5 & H6) Hl Hc. unfold col_okP. cbn [lc_kind lc_rowid lc_cells lc_owner lc_tc].
  repeat split; try assumption. congruence.
Qed.

Lemma col_ok_new ids k cells :
  List.length cells = List.length ids -> forallb (cell_ok k) cells = true ->
  col_okP ids {| lc_kind := k; lc_rowid := idx_of_list ids; lc_cells := cells; lc_owner := true; lc_tc := true |}.
Proof. intros Hl Hc. unfold col_okP. cbn [lc_kind lc_rowid lc_cells lc_owner lc_tc idx_of_list ia]. repeat split; assumption. Qed.

(* replacing the cells of one column object *)
Lemma inv_set_cells rid names cols ci c cells :
  invP rid names cols -> nth_error cols ci = Some c ->
  List.length cells = List.length (lc_cells c) -> forallb (cell_ok (lc_kind c)) cells = true ->
  invP rid names (set_nth ci {| lc_kind := lc_kind c; lc_rowid := lc_rowid c; lc_cells := cells;
                                lc_owner := lc_owner c; lc_tc := lc_tc c |} cols).
Proof.
  intros (Hnd & Hix & Hn & Hc) Hci Hl Hcells. unfold invP. rewrite set_nth_length.
  split; [exact Hnd|]. split; [exact Hix|]. split; [exact Hn|].
  apply Forall_set_nth; [|exact Hc]. apply col_ok_cells; try assumption.
  rewrite Forall_forall in Hc. apply Hc. eapply nth_error_In. exact Hci.
Qed.

(* binding a name to an existing column object, or to a new one appended to the column list *)
Lemma inv_lbind_same rid names cols n ci :
  invP rid names cols -> ci < List.length cols ->
  invP rid (match lookup n names with Some _ => replace_name n ci names | None => names ++ [(n, ci)] end) cols.
Proof.
  intros (Hnd & Hix & Hn & Hc) Hci. unfold invP. split; [exact Hnd|]. split; [exact Hix|]. split; [|exact Hc].
  apply names_ok_bind; assumption.
Qed.

Lemma inv_lbind_new rid names cols n c :
  invP rid names cols -> col_okP (ia rid) c ->
  invP rid (match lookup n names with Some _ => replace_name n (List.length cols) names
                                 | None => names ++ [(n, List.length cols)] end) (cols ++ [c]).
Proof.
  intros (Hnd & Hix & Hn & Hc) Hcol. unfold invP. rewrite app_length. cbn [List.length].
  split; [exact Hnd|]. split; [exact Hix|]. split.
  - apply names_ok_bind; [|lia]. eapply names_ok_mono; [|exact Hn]. lia.
  - apply Forall_app. split; [exact Hc|constructor; [exact Hcol|constructor]].
Qed.

(* ---------- derived column lists ---------- *)
Lemma all_some_Forall {A B} (g : A -> option B) (P : B -> Prop) l r :
  all_some (map g l) = Some r -> (forall a b, In a l -> g a = Some b -> P b) -> Forall P r.
Proof.
  intros H Hg. apply all_some_spec in H. apply Forall_forall. intros b Hb.
  assert (Hin : In (Some b) (map Some r)) by (apply in_map; exact Hb).
  rewrite <- H in Hin. apply in_map_iff in Hin. destruct Hin as [a [Ea Ha]]. eapply Hg; eassumption.
Qed.

Lemma pos_of_all ids key :
  (forall k, In k key -> In k ids) -> exists ps, all_some (map (fun k => pos_of k ids) key) = Some ps.
Proof.
  induction key as [|k ks IH]; intros Hin; [exists []; reflexivity|].
  destruct (pos_of_In k ids (Hin k (or_introl eq_refl))) as [p Hp].
  destruct IH as [ps Hps]; [intros x Hx; apply Hin; right; exact Hx|].
  exists (p :: ps). cbn [map all_some]. rewrite Hp, Hps. reflexivity.
Qed.

(* ---------- a column fetched by id (_getrowidkey, both lookup algorithms) ---------- *)
Lemma getrowidkey_shape c ids key c' :
  NoDup ids -> col_inv ids c -> index_ok key = true -> (forall k, In k (ia key) -> In k ids) ->
  getrowidkey c key = Some c' ->
  ia (lc_rowid c') = ia key /\ lc_owner c' = true /\ lc_tc c' = true /\ index_ok (lc_rowid c') = true
  /\ lc_kind c' = lc_kind c /\ List.length (lc_cells c') = List.length (ia key)
  /\ exists ps, take_pos ps (lc_cells c) = Some (lc_cells c').
Proof.
  intros Hnd Hci Hix Hin H. destruct (pos_of_all ids (ia key) Hin) as [ps Hps].
  unfold getrowidkey in H. rewrite (positions_by_id_spec c ids (ia key) Hnd Hci Hin), Hps in H.
  destruct Hci as [Hi Hl Hm]. rewrite Hi, (take_pos_pos_of ids (ia key) ps Hps) in H.
  destruct (take_pos ps (lc_cells c)) as [cells|] eqn:Ec; [|discriminate]. injection H as <-.
  cbn [lc_kind lc_rowid lc_cells lc_owner lc_tc].
  split; [destruct (is_mixed c); reflexivity|]. split; [reflexivity|]. split; [reflexivity|].
  split; [destruct (is_mixed c); [exact Hix|reflexivity]|]. split; [reflexivity|]. split.
  - rewrite (take_pos_length _ _ _ Ec). apply all_some_length in Hps. rewrite map_length in Hps. exact Hps.
  - exists ps. exact Ec.
Qed.

Lemma getrowidkey_ok c ids key c' :
  NoDup ids -> col_okP ids c -> index_ok key = true -> (forall k, In k (ia key) -> In k ids) ->
  getrowidkey c key = Some c' -> col_okP (ia key) c'.
Proof.
  intros Hnd Hc Hix Hin H.
  destruct (getrowidkey_shape c ids key c' Hnd (col_okP_inv _ _ Hc) Hix Hin H) as (H1 & H2 & H3 & H4 & H5 & H6 & [ps Hps]).
  unfold col_okP. repeat split; try assumption.
  rewrite H5. eapply forallb_take_pos; [|exact Hps]. apply Hc.
Qed.

(* ---------- DataMatrix._selectrowid ---------- *)
Theorem selectrowid_inv t key r :
  inv_b t = true -> NoDup (ia key) -> index_ok key = true ->
  (forall k, In k (ia key) -> In k (ia (l_rowid t))) ->
  selectrowid t key = Some r -> inv_b r = true.
Proof.
  intros Hinv Hk Hix Hin H. apply inv_b_iff in Hinv. destruct Hinv as (Hnd & _ & [Hnn _] & Hc).
  unfold selectrowid in H. destruct (all_some _) as [cols|] eqn:Ecols; [|discriminate]. injection H as <-.
  apply inv_b_iff. cbn [l_rowid l_names l_cols]. split; [exact Hk|]. split; [exact Hix|]. split.
  - apply names_ok_fresh; [exact Hnn|]. apply all_some_length in Ecols. rewrite map_length in Ecols. congruence.
  - eapply all_some_Forall; [exact Ecols|]. intros [n i] c' _ Hg.
    destruct (nth_error (l_cols t) i) as [c|] eqn:Ec; [|discriminate].
    apply (getrowidkey_ok c (ia (l_rowid t)) key c' Hnd); [|exact Hix|exact Hin|exact Hg].
    rewrite Forall_forall in Hc. apply Hc. eapply nth_error_In. exact Ec.
Qed.

(* rows fetched by id at duplicate-free positions (sort, shuffle, sample) *)
Theorem by_position_inv t perm rid r :
  inv_b t = true -> NoDup perm -> take_pos perm (ia (l_rowid t)) = Some rid ->
  selectrowid t (idx_of_list rid) = Some r -> inv_b r = true.
Proof.
  intros Hinv Hp Hr H. assert (Hnd : NoDup (ia (l_rowid t))) by (apply inv_b_iff in Hinv; apply Hinv).
  apply (selectrowid_inv t (idx_of_list rid) r Hinv); [| | |exact H].
  - cbn [idx_of_list ia]. eapply take_pos_NoDup; eassumption.
  - reflexivity.
  - intros k Hk. cbn [idx_of_list ia] in Hk. eapply take_pos_In; eassumption.
Qed.

(* ---------- comparison ---------- *)
Lemma compare_ids_ok c op ref :
  NoDup (ia (lc_rowid c)) -> List.length (ia (lc_rowid c)) = List.length (lc_cells c) ->
  NoDup (ia (compare_ids c op ref)) /\ index_ok (compare_ids c op ref) = true
  /\ forall k, In k (ia (compare_ids c op ref)) -> In k (ia (lc_rowid c)).
Proof.
  intros Hnd Hl. pose proof (compare_ids_take c op ref Hl) as Ht. split; [|split].
  - eapply take_pos_NoDup; [exact Hnd| |exact Ht]. apply positions_where_NoDup.
  - unfold compare_ids. destruct (is_mixed c); [|reflexivity].
    apply index_ok_fold_append. apply index_ok_range.
  - intros k Hk. eapply take_pos_In; eassumption.
Qed.

Theorem select_inv t c op ref r :
  inv_b t = true -> In c (l_cols t) -> selectrowid t (compare_ids c op ref) = Some r -> inv_b r = true.
Proof.
  intros Hinv Hc H. pose proof Hinv as Hi. apply inv_b_iff in Hi. destruct Hi as (Hnd & _ & _ & Hcols).
  rewrite Forall_forall in Hcols. destruct (Hcols c Hc) as (Hia & Hlen & _).
  destruct (compare_ids_ok c op ref) as (H1 & H2 & H3); [rewrite Hia; exact Hnd|congruence|].
  apply (selectrowid_inv t (compare_ids c op ref) r Hinv H1 H2); [|exact H].
  intros k Hk. rewrite <- Hia. apply H3. exact Hk.
Qed.

(* ---------- positional slicing ---------- *)
Lemma slice_col_ok ids c ps rid c' :
  col_okP ids c -> take_pos ps ids = Some rid -> slice_col c ps = Some c' -> col_okP rid c' /\ lc_kind c' = lc_kind c.
Proof.
  intros (Hi & Hl & _ & _ & _ & Hcells) Hr H. unfold slice_col in H. rewrite Hi, Hr in H.
  destruct (take_pos ps (lc_cells c)) as [cells|] eqn:Ec; [|discriminate]. injection H as <-.
  split; [|reflexivity]. apply col_ok_new.
  - rewrite (take_pos_length _ _ _ Ec), (take_pos_length _ _ _ Hr). reflexivity.
  - eapply forallb_take_pos; eassumption.
Qed.

Theorem slice_table_inv t ps r : inv_b t = true -> NoDup ps -> slice_table t ps = Some r -> inv_b r = true.
Proof.
  intros Hinv Hps H. apply inv_b_iff in Hinv. destruct Hinv as (Hnd & _ & [Hnn _] & Hc).
  unfold slice_table in H. destruct (take_pos ps (ia (l_rowid t))) as [rid|] eqn:Er; [|discriminate].
  destruct (all_some _) as [cols|] eqn:Ecols; [|discriminate]. injection H as <-.
  apply inv_b_iff. cbn [l_rowid l_names l_cols idx_of_list ia].
  split; [eapply take_pos_NoDup; eassumption|]. split; [reflexivity|]. split.
  - apply names_ok_fresh; [exact Hnn|]. apply all_some_length in Ecols. rewrite map_length in Ecols. congruence.
  - eapply all_some_Forall; [exact Ecols|]. intros [n i] c' _ Hg.
    destruct (nth_error (l_cols t) i) as [c|] eqn:Ec; [|discriminate].
    eapply slice_col_ok; [|exact Er|exact Hg].
    rewrite Forall_forall in Hc. apply Hc. eapply nth_error_In. exact Ec.
Qed.

(* ---------- row deletion ---------- *)
Theorem delrows_inv t dead r : inv_b t = true -> delrows t dead = Some r -> inv_b r = true.
Proof.
  intros Hinv H. assert (Hnd : NoDup (ia (l_rowid t))) by (apply inv_b_iff in Hinv; apply Hinv).
  unfold delrows in H. destruct (take_pos dead (ia (l_rowid t))) as [dead_ids|]; [|discriminate].
  destruct (selectrowid t _) as [s|] eqn:Es; [|discriminate]. injection H as <-.
  apply inv_b_fields. eapply selectrowid_inv; [exact Hinv| | | |exact Es]; cbn [idx_of_list ia].
  - apply NoDup_filter. exact Hnd.
  - reflexivity.
  - intros k Hk. apply filter_In in Hk. tauto.
Qed.

(* ---------- resizing ---------- *)
Lemma addrowid_ok ids c new : col_okP ids c -> col_okP (ids ++ new) (addrowid c new).
Proof.
  intros (Hi & Hl & Ho & Ht & _ & Hc). unfold col_okP, addrowid.
  cbn [lc_kind lc_rowid lc_cells lc_owner lc_tc idx_add idx_of_list ia].
  split; [rewrite Hi; reflexivity|]. split; [rewrite !app_length, repeat_length, Hl; reflexivity|].
  split; [exact Ho|]. split; [exact Ht|]. split; [reflexivity|].
  apply forallb_app_intro; [exact Hc|]. apply forallb_repeat. apply default_cell_ok.
Qed.

Theorem setlength_inv t value r : inv_b t = true -> setlength t value = Some r -> inv_b r = true.
Proof.
  intros Hinv H. unfold setlength in H. destruct (k_setlength_shrinks _ _).
  - destruct (slice_table t _) as [s|] eqn:Es; [|discriminate]. injection H as <-.
    apply inv_b_fields. eapply slice_table_inv; [exact Hinv|apply seq_NoDup|exact Es].
  - injection H as <-. apply inv_b_iff in Hinv. destruct Hinv as (Hnd & Hix & Hn & Hc).
    apply inv_b_iff. unfold invP. cbn [l_rowid l_names l_cols idx_add idx_of_list ia]. rewrite map_length.
    unfold index_ok in Hix. apply andb_true_iff in Hix. destruct Hix as [_ Hmax].
    split; [rewrite (fresh_ids_spec t value Hmax); apply grow_ids_NoDup; exact Hnd|].
    split; [reflexivity|]. split; [exact Hn|].
    apply Forall_forall. intros c' Hc'. apply in_map_iff in Hc'. destruct Hc' as [c [<- Hin]].
    apply addrowid_ok. rewrite Forall_forall in Hc. apply Hc. exact Hin.
Qed.

(* ---------- merging ---------- *)
Lemma kind_eqb_eq a b : kind_eqb a b = true -> a = b.
Proof. destruct a, b; try discriminate; reflexivity. Qed.

Lemma merged_cell_In ida idb ca cb r v : merged_cell ida idb ca cb r = Some v -> In v ca \/ In v cb.
Proof.
  unfold merged_cell, cell_by_id. destruct (pos_of r ida) as [p|]; [intros H; left; eapply nth_error_In; exact H|].
  destruct (pos_of r idb) as [p|]; [|discriminate]. intros H; right; eapply nth_error_In; exact H.
Qed.

Lemma merge_col_ok a b rid ida idb c' :
  NoDup ida -> NoDup idb -> col_okP ida a -> col_okP idb b -> lc_kind a = lc_kind b -> index_ok rid = true ->
  (forall r, In r (ia rid) -> In r ida \/ In r idb) ->
  merge_col a b rid = Some c' -> col_okP (ia rid) c'.
Proof.
  intros Hnda Hndb Ha Hb Hk Hix Hcov H.
  pose proof (col_okP_inv _ _ Ha) as Hia. pose proof (col_okP_inv _ _ Hb) as Hib.
  destruct (merge_col_cells a b rid ida idb c' Hnda Hndb Hia Hib Hk Hcov H) as [Hkc Hcells].
  assert (Hshape : ia (lc_rowid c') = ia rid /\ lc_owner c' = true /\ lc_tc c' = true /\ index_ok (lc_rowid c') = true).
  { unfold merge_col in H. destruct (is_mixed a) eqn:Emix.
    - destruct (all_some _) as [cells|]; [|discriminate]. injection H as <-.
      cbn [lc_rowid lc_owner lc_tc]. repeat split; assumption.
    - destruct Ha as (Hida & Hla & _). destruct Hb as (Hidb & Hlb & _). rewrite Hida, Hidb in H.
      set (keep_a := filter (fun '(r, _) => mem_N r (ia rid)) (combine ida (lc_cells a))) in *.
      set (keep_b := filter (fun '(r, _) => negb (mem_N r ida) && mem_N r (ia rid)) (combine idb (lc_cells b))) in *.
      set (cat := keep_a ++ keep_b) in *.
      assert (Hfa : map fst keep_a = filter (fun r => mem_N r (ia rid)) ida)
        by (apply map_fst_filter_combine; congruence).
      assert (Hfb : map fst keep_b = filter (fun r => negb (mem_N r ida) && mem_N r (ia rid)) idb)
        by (apply map_fst_filter_combine; congruence).
      assert (Hndc : NoDup (map fst cat)).
      { unfold cat. rewrite map_app, Hfa, Hfb. apply NoDup_app_disj; [apply NoDup_filter; assumption .. |].
        intros x. rewrite !filter_In, andb_true_iff, negb_true_iff, mem_N_false, mem_N_In. tauto. }
      assert (Hin : forall k, In k (ia rid) -> In k (map fst cat)).
      { intros k Hk0. unfold cat. rewrite map_app, Hfa, Hfb. apply in_or_app.
        destruct (mem_N k ida) eqn:Em.
        - left. apply filter_In. split; [apply mem_N_In; exact Em|apply mem_N_In; exact Hk0].
        - right. apply filter_In. apply mem_N_false in Em. destruct (Hcov k Hk0) as [Hx|Hx]; [contradiction|].
          split; [exact Hx|]. apply andb_true_iff. split; [apply negb_true_iff, mem_N_false; exact Em|apply mem_N_In; exact Hk0]. }
      match type of H with getrowidkey ?cc0 rid = _ => set (cc := cc0) in * end.
      assert (Hcc : col_inv (map fst cat) cc)
        by (constructor; [reflexivity|cbn [cc lc_cells]; rewrite !map_length; reflexivity|reflexivity]).
      destruct (getrowidkey_shape cc (map fst cat) rid c' Hndc Hcc Hix Hin H) as (H1 & H2 & H3 & H4 & _).
      repeat split; assumption. }
  destruct Hshape as (H1 & H2 & H3 & H4). unfold col_okP. repeat split; try assumption.
  - apply all_some_length in Hcells. rewrite map_length in Hcells. exact Hcells.
  - rewrite Hkc. apply forallb_forall. intros v Hv.
    assert (HF : Forall (fun v => In v (lc_cells a) \/ In v (lc_cells b)) (lc_cells c')).
    { eapply all_some_Forall; [exact Hcells|]. intros r v' _ Hm. eapply merged_cell_In. exact Hm. }
    rewrite Forall_forall in HF. destruct Ha as (_ & _ & _ & _ & _ & Hca). destruct Hb as (_ & _ & _ & _ & _ & Hcb).
    rewrite forallb_forall in Hca, Hcb. destruct (HF v Hv) as [Hx|Hx]; [apply Hca; exact Hx|rewrite Hk; apply Hcb; exact Hx].
Qed.

Theorem merge_tables_inv o a b r :
  inv_b a = true -> inv_b b = true ->
  forallb (fun '(n, i) => match nth_error (l_cols a) i, lcol_of b n with
                          | Some ca, Some cb => kind_eqb (lc_kind ca) (lc_kind cb)
                          | _, _ => true end) (l_names a) = true ->
  merge_tables o a b = Some r -> inv_b r = true.
Proof.
  intros Ha Hb Hkinds H. apply inv_b_iff in Ha, Hb.
  destruct Ha as (Hnda & _ & [Hnna _] & Hca). destruct Hb as (Hndb & _ & _ & Hcb).
  unfold merge_tables in H. set (rid := idx_sorted (idx_of_list _)) in H.
  assert (Erid : ia rid = merge_ids o (ia (l_rowid a)) (ia (l_rowid b))) by (destruct o; reflexivity).
  assert (Hix : index_ok rid = true) by reflexivity.
  destruct (all_some _) as [cols|] eqn:Ecols; [|discriminate]. injection H as <-.
  apply inv_b_iff. cbn [l_rowid l_names l_cols].
  split; [rewrite Erid; apply ssorted_NoDup, merge_ids_ssorted; assumption|]. split; [exact Hix|]. split.
  - apply names_ok_fresh; [exact Hnna|]. apply all_some_length in Ecols. rewrite map_length in Ecols. congruence.
  - eapply all_some_Forall; [exact Ecols|]. intros [n i] c' Hni Hg.
    destruct (nth_error (l_cols a) i) as [ca|] eqn:Eca; [|discriminate].
    destruct (lcol_of b n) as [cb|] eqn:Ecb; [|discriminate].
    rewrite forallb_forall in Hkinds. specialize (Hkinds _ Hni). cbv beta iota in Hkinds. rewrite Eca, Ecb in Hkinds.
    rewrite Forall_forall in Hca, Hcb.
    eapply (merge_col_ok ca cb rid (ia (l_rowid a)) (ia (l_rowid b))); try eassumption.
    + apply Hca. eapply nth_error_In. exact Eca.
    + apply Hcb. eapply lcol_of_In. exact Ecb.
    + apply kind_eqb_eq. exact Hkinds.
    + intros x Hx. rewrite Erid in Hx. apply merge_ids_cover in Hx. exact Hx.
Qed.

(* ---------- DataMatrix.__lshift__ ---------- *)
Lemma names_ok_fresh_gen (l : list string) n :
  NoDup l -> List.length l = n -> names_okP (combine l (seq 0 (List.length l))) n.
Proof.
  intros Hnd Hl. split.
  - rewrite map_fst_combine by (rewrite seq_length; reflexivity). exact Hnd.
  - subst n. exact (combine_seq_bound l 0 (List.length l)).
Qed.

Lemma lookup_NoDup {A} (l : list (string * A)) n a : NoDup (map fst l) -> In (n, a) l -> lookup n l = Some a.
Proof.
  induction l as [|[m x] l IH]; intros Hnd Hin; [destruct Hin|].
  cbn [map fst] in Hnd. inversion Hnd as [|? ? Hnotin Hnd']; subst. cbn [lookup].
  destruct Hin as [H|H].
  - injection H as -> ->. rewrite String.eqb_refl. reflexivity.
  - destruct (String.eqb n m) eqn:E; [|apply IH; assumption].
    apply String.eqb_eq in E. subst m. exfalso. apply Hnotin. apply in_map_iff. exists (n, a). split; [reflexivity|exact H].
Qed.

Lemma lview_names_sub t x : In x (map fst (lview t)) -> In x (map fst (l_names t)).
Proof.
  unfold lview. intros H. apply in_map_iff in H. destruct H as [[n c] [<- H]]. apply in_flat_map in H.
  destruct H as [[m i] [Hin H]]. destruct (nth_error (l_cols t) i); [|destruct H]. destruct H as [H|[]].
  injection H as -> _. apply in_map_iff. exists (n, i). split; [reflexivity|exact Hin].
Qed.

Lemma lview_names_NoDup t : NoDup (map fst (l_names t)) -> NoDup (map fst (lview t)).
Proof.
  unfold lview. induction (l_names t) as [|[n i] l IH]; intros Hnd; [constructor|].
  cbn [map fst] in Hnd. inversion Hnd as [|? ? Hnotin Hnd']; subst. cbn [flat_map].
  destruct (nth_error (l_cols t) i) as [c|]; cbn [app map fst]; [|apply IH; exact Hnd'].
  constructor; [|apply IH; exact Hnd']. intros H. apply Hnotin.
  apply in_map_iff in H. destruct H as [[m c'] [E H]]. cbn [fst] in E. subst m. apply in_flat_map in H.
  destruct H as [[m j] [Hin H]]. destruct (nth_error (l_cols t) j); [|destruct H]. destruct H as [H|[]].
  injection H as -> _. apply in_map_iff. exists (n, j). split; [reflexivity|exact Hin].
Qed.

Lemma fill_slice_ok total x y cells k base :
  forallb (cell_ok k) cells = true -> forallb (cell_ok k) base = true ->
  forallb (cell_ok k) (fill_slice total x y cells k base) = true
  /\ List.length (fill_slice total x y cells k base) = List.length base.
Proof.
  intros Hc Hb. unfold fill_slice. split; [apply forallb_write_at; assumption|apply write_at_length].
Qed.

Theorem concat_inv a b nf r :
  inv_b a = true -> inv_b b = true -> concat_l a b nf = Ok r -> inv_b r = true.
Proof.
  intros Ha Hb H. apply inv_b_iff in Ha, Hb.
  destruct Ha as (_ & _ & [Hnna _] & Hca). destruct Hb as (_ & _ & [Hnnb _] & Hcb).
  rewrite Forall_forall in Hca, Hcb.
  unfold concat_l in H. cbv zeta in H.
  set (total := Z.to_nat (k_concat_len (Z.of_nat (nrows_l a)) (Z.of_nat (nrows_l b)))) in *.
  set (VA := lview a) in *. set (VB := lview b) in *.
  match type of H with (if existsb ?f0 VB then _ else _) = _ => set (f := f0) in *; destruct (existsb f VB) eqn:Eex end;
    [discriminate|].
  injection H as <-.
  assert (HndA : NoDup (map fst VA)) by (apply lview_names_NoDup; exact Hnna).
  assert (HndB : NoDup (map fst VB)) by (apply lview_names_NoDup; exact Hnnb).
  assert (HcA : forall n c, In (n, c) VA -> forallb (cell_ok (lc_kind c)) (lc_cells c) = true).
  { intros n c Hin. apply (Hca c (lview_In a n c Hin)). }
  assert (HcB : forall n c, In (n, c) VB -> forallb (cell_ok (lc_kind c)) (lc_cells c) = true).
  { intros n c Hin. apply (Hcb c (lview_In b n c Hin)). }
  assert (Hk : forall n c c2, In (n, c) VB -> lookup n VA = Some c2 -> lc_kind c = lc_kind c2).
  { intros n c c2 Hin Hl. destruct (kind_eqb (lc_kind c) (lc_kind c2)) eqn:E; [apply kind_eqb_eq; exact E|]. exfalso.
    assert (Hex : existsb f VB = true).
    { apply existsb_exists. exists (n, c). split; [exact Hin|]. unfold f. rewrite Hl, E. reflexivity. }
    congruence. }
  apply inv_b_iff. unfold invP. cbn [l_rowid l_names l_cols].
  split; [apply iotaN_NoDup|]. split; [apply index_ok_range|].
  match goal with |- names_okP (combine (map fst (?ca ++ ?cb)) _) _ /\ _ => set (CA := ca); set (CB := cb) end.
  assert (HfA : map fst CA = map fst VA).
  { unfold CA. rewrite map_map. apply map_ext. intros [n c]. reflexivity. }
  assert (HfB : forall x, In x (map fst CB) -> In x (map fst VB) /\ lookup x VA = None).
  { intros x Hx. apply in_map_iff in Hx. destruct Hx as [[n c'] [<- Hx]]. unfold CB in Hx. apply in_flat_map in Hx.
    destruct Hx as [[m c] [Hin Hx]]. destruct (lookup m VA) eqn:El; [destruct Hx|]. destruct Hx as [Hx|[]].
    injection Hx as -> _. cbn [fst]. split; [|exact El]. apply in_map_iff. exists (n, c). split; [reflexivity|exact Hin]. }
  assert (HndCB : NoDup (map fst CB)).
  { unfold CB. clear - HndB. induction VB as [|[n c] V IH]; [constructor|]. cbn [map fst] in HndB.
    inversion HndB as [|? ? Hnotin Hnd']; subst. cbn [flat_map].
    destruct (lookup n VA); cbn [app map fst]; [apply IH; exact Hnd'|].
    constructor; [|apply IH; exact Hnd']. intros Hin. apply Hnotin. apply in_map_iff in Hin.
    destruct Hin as [[m c'] [E Hin]]. cbn [fst] in E. subst m. apply in_flat_map in Hin.
    destruct Hin as [[m c0] [Hin Hx]]. destruct (lookup m VA); [destruct Hx|]. destruct Hx as [Hx|[]].
    injection Hx as -> _. apply in_map_iff. exists (n, c0). split; [reflexivity|exact Hin]. }
  split.
  - rewrite map_length. rewrite <- (map_length fst (CA ++ CB)). apply names_ok_fresh_gen; [|reflexivity].
    rewrite map_app. apply NoDup_app_disj; [rewrite HfA; exact HndA|exact HndCB|].
    intros x Hx Hx'. rewrite HfA in Hx. destruct (HfB x Hx') as [_ Hl]. exact (lookup_None_notin _ _ Hl Hx).
  - rewrite map_app. apply Forall_app. split; apply Forall_forall; intros col Hcol; apply in_map_iff in Hcol;
      destruct Hcol as [[n col'] [<- Hin]]; cbn [snd].
    + unfold CA in Hin. apply in_map_iff in Hin. destruct Hin as [[m c] [E Hin]]. injection E as -> <-.
      pose proof (HcA n c Hin) as Hcc.
      assert (Hbase : forallb (cell_ok (lc_kind c)) (repeat (default_cell (lc_kind c)) total) = true)
        by (apply forallb_repeat, default_cell_ok).
      destruct (fill_slice_ok total None (Some (k_concat_left_stop (Z.of_nat (nrows_l a)))) (lc_cells c) (lc_kind c) _ Hcc Hbase)
        as [Hl1 Hl2].
      apply col_ok_new; rewrite ?iotaN_length.
      * destruct (lookup n VB) as [c2|] eqn:E2.
        -- unfold fill_slice at 1. rewrite write_at_length, Hl2. apply repeat_length.
        -- rewrite Hl2. apply repeat_length.
      * destruct (lookup n VB) as [c2|] eqn:E2; [|exact Hl1].
        apply fill_slice_ok; [|exact Hl1].
        pose proof (lookup_In _ _ _ E2) as Hin2.
        rewrite <- (Hk n c2 c Hin2 (lookup_NoDup VA n c HndA Hin)). apply (HcB n c2 Hin2).
    + unfold CB in Hin. apply in_flat_map in Hin. destruct Hin as [[m c] [Hin Hx]].
      destruct (lookup m VA); [destruct Hx|]. destruct Hx as [Hx|[]]. injection Hx as -> <-.
      assert (Hbase : forallb (cell_ok (lc_kind c)) (repeat (default_cell (lc_kind c)) total) = true)
        by (apply forallb_repeat, default_cell_ok).
      destruct (fill_slice_ok total (Some (k_concat_right_start (Z.of_nat (nrows_l a)))) None (lc_cells c) (lc_kind c) _
                              (HcB n c Hin) Hbase) as [Hl1 Hl2].
      apply col_ok_new; rewrite ?iotaN_length; [rewrite Hl2; apply repeat_length|exact Hl1].
Qed.

(* ---------- in-place updates of one table ---------- *)
Lemma inv_col_cells t ci c :
  inv_b t = true -> nth_error (l_cols t) ci = Some c ->
  forallb (cell_ok (lc_kind c)) (lc_cells c) = true /\ List.length (lc_cells c) = nrows_l t.
Proof.
  intros Hinv Hc. apply inv_b_iff in Hinv. destruct Hinv as (_ & _ & _ & Hcols).
  rewrite Forall_forall in Hcols. destruct (Hcols c (nth_error_In _ _ Hc)) as (_ & Hl & _ & _ & _ & Hcells).
  split; [exact Hcells|exact Hl].
Qed.

Lemma upd_cells_inv t ci c cells :
  inv_b t = true -> nth_error (l_cols t) ci = Some c ->
  List.length cells = List.length (lc_cells c) -> forallb (cell_ok (lc_kind c)) cells = true ->
  inv_b (with_cells t ci c cells) = true.
Proof.
  intros Hinv Hc Hl Hcells. apply inv_b_iff in Hinv. apply inv_b_iff. unfold with_cells. cbn [l_rowid l_names l_cols].
  apply inv_set_cells; assumption.
Qed.

Lemma fresh_col_inv t name k :
  inv_b t = true ->
  inv_b (lbind t name (List.length (l_cols t))
               (l_cols t ++ [{| lc_kind := k; lc_rowid := idx_of_list (ia (l_rowid t));
                                lc_cells := repeat (default_cell k) (nrows_l t); lc_owner := true; lc_tc := true |}])) = true.
Proof.
  intros Hinv. apply inv_b_iff in Hinv. apply inv_b_iff. unfold lbind. cbn [l_rowid l_names l_cols].
  apply inv_lbind_new; [exact Hinv|]. apply col_ok_new; [apply repeat_length|apply forallb_repeat, default_cell_ok].
Qed.

Lemma copy_col_inv t name v :
  inv_b t = true -> List.length (lc_cells v) = nrows_l t -> forallb (cell_ok (lc_kind v)) (lc_cells v) = true ->
  inv_b (lbind t name (List.length (l_cols t))
               (l_cols t ++ [{| lc_kind := lc_kind v; lc_rowid := idx_of_list (ia (l_rowid t));
                                lc_cells := lc_cells v; lc_owner := true; lc_tc := true |}])) = true.
Proof.
  intros Hinv Hl Hc. apply inv_b_iff in Hinv. apply inv_b_iff. unfold lbind. cbn [l_rowid l_names l_cols].
  apply inv_lbind_new; [exact Hinv|]. apply col_ok_new; assumption.
Qed.

(* ---------- the side conditions of one step ---------- *)
(* the type of the column a write goes to: the column bound to the name or, for a Row-addressed write to a
   missing name, the table's default column type (the column is created first) *)
Definition target_kind (t : ltable) (name : string) : kind :=
  match lookup name (l_names t) with
  | Some ci => match nth_error (l_cols t) ci with Some c => lc_kind c | None => KMixed end
  | None => l_dflt t
  end.

Definition step_fits (p : list ltable) (o : op) : bool :=
  match o with
  (* (1) the order / choice supplied by the oracle for sorted(), random.shuffle, random.sample holds no position twice.
         The implementation's sorted() and random.shuffle return permutations and random.sample draws without
         replacement; the L0 step validates the same fact (is_perm_of_range / nodup_nat choice) and answers
         Err OtherError otherwise.  (That the positions are in range is not needed: take_pos fails and the step is LErr.) *)
  | OSort _ _ perm | OShuffle _ perm | OSample _ _ perm => nodup_nat perm
  (* (2) every value written to an IntColumn coerces to an integer inside the int64 range (or is refused):
         cell_ok KInt demands the range, nf KInt does not -- int64 overflow is outside the model (DESIGN I.8, "Not modelled").
         Nothing is asked of values written to MixedColumns and FloatColumns. *)
  | OSetCell ti name _ r | OSetCol ti name r =>
      match nth_error p ti with Some t => rhs_fits (target_kind t name) r | None => true end
  | _ => true
  end.

Definition res_inv (x : lres) : Prop :=
  match x with
  | LNew r | LUpd _ r | LErrUpd _ r => inv_b r = true
  | LErr | LSkip => True
  end.

Lemma target_kind_hit t name ci c :
  lookup name (l_names t) = Some ci -> nth_error (l_cols t) ci = Some c -> target_kind t name = lc_kind c.
Proof. intros El Ec. unfold target_kind. rewrite El, Ec. reflexivity. Qed.

Lemma lookup_app_new {A} n (a : A) l : lookup n l = None -> lookup n (l ++ [(n, a)]) = Some a.
Proof.
  induction l as [|[m x] l IH]; cbn [lookup app]; [rewrite String.eqb_refl; reflexivity|].
  destruct (String.eqb n m); [discriminate|]. exact IH.
Qed.

Lemma nth_error_app_new {A} (l : list A) x : nth_error (l ++ [x]) (List.length l) = Some x.
Proof. rewrite nth_error_app2 by lia. rewrite Nat.sub_diag. reflexivity. Qed.

(* ---------- every step of lstep re-establishes the invariant on what it produces ---------- *)
Theorem lstep_res_inv p o : winv p -> step_fits p o = true -> res_inv (lstep p o).
Proof.
  intros Hw Hf. destruct o; cbn [lstep]; try exact I.
  - (* OSetColKind *)
    destruct (nth_error p t) as [tb|] eqn:Et; [|exact I]. pose proof (winv_nth _ _ _ Hw Et) as Hinv.
    apply fresh_col_inv. exact Hinv.
  - (* OSetCol *)
    destruct (nth_error p t) as [tb|] eqn:Et; [|exact I]. pose proof (winv_nth _ _ _ Hw Et) as Hinv.
    cbn [step_fits] in Hf. rewrite Et in Hf.
    destruct (lookup name (l_names tb)) as [ci|] eqn:El; [|exact I].
    destruct (nth_error (l_cols tb) ci) as [c|] eqn:Ec; [|exact I].
    rewrite (target_kind_hit tb name ci c El Ec) in Hf.
    destruct (rhs_cells_k (lc_kind c) (nrows_l tb) r) as [xs|e] eqn:Er; [|exact Hinv].
    destruct (rhs_cells_k_ok _ _ _ _ Hf Er) as [Hxs Hlen]. destruct (inv_col_cells tb ci c Hinv Ec) as [_ Hcl].
    apply upd_cells_inv; [exact Hinv|exact Ec|congruence|exact Hxs].
  - (* OSetColFromCol *)
    destruct (nth_error p t) as [tb|] eqn:Et; [|exact I]. pose proof (winv_nth _ _ _ Hw Et) as Hinv.
    destruct (nth_error p t2) as [tb2|] eqn:Et2; [|exact I]. pose proof (winv_nth _ _ _ Hw Et2) as Hinv2.
    destruct (lookup name2 (l_names tb2)) as [ci|] eqn:El; [|exact I].
    destruct (nth_error (l_cols tb2) ci) as [v|] eqn:Ev; [|exact I].
    unfold setcol_value. destruct (k_setcol_byref _ _ _ _) eqn:Eb.
    + (* inserted by reference: only a column of the same table *)
      unfold res_inv. lazy beta iota.
      apply setcol_byref_owner in Eb. apply Nat.eqb_eq in Eb. subst t2. rewrite Et in Et2. injection Et2 as <-.
      apply inv_b_iff in Hinv. apply inv_b_iff. unfold lbind. cbn [l_rowid l_names l_cols].
      apply inv_lbind_same; [exact Hinv|]. apply nth_error_Some. congruence.
    + destruct (k_setcol_badlen _ _) eqn:Ebl; [exact I|]. unfold res_inv. lazy beta iota.
      apply setcol_badlen_spec in Ebl.
      destruct (inv_col_cells tb2 ci v Hinv2 Ev) as [Hcv _].
      apply copy_col_inv; [exact Hinv|lia|exact Hcv].
  - (* OSetCell *)
    cbn [step_fits] in Hf.
    destruct a as [i|x y|l|t2|i].
    + (* col[i] = v *)
      destruct r as [v|vs]; [|exact I].
      destruct (nth_error p t) as [tb|] eqn:Et; [|exact I]. pose proof (winv_nth _ _ _ Hw Et) as Hinv.
      destruct (lookup name (l_names tb)) as [ci|] eqn:El; [|exact I].
      destruct (nth_error (l_cols tb) ci) as [c|] eqn:Ec; [|exact I].
      rewrite (target_kind_hit tb name ci c El Ec) in Hf. cbn [rhs_fits] in Hf.
      destruct (nf (lc_kind c) v) as [cell|e] eqn:En; [|exact I].
      destruct (norm_index (nrows_l tb) i) as [q|]; [|exact I].
      destruct (inv_col_cells tb ci c Hinv Ec) as [Hcc _].
      apply upd_cells_inv; [exact Hinv|exact Ec|apply write_at_length|].
      apply forallb_write_at; [|exact Hcc]. cbn [forallb]. rewrite (nf_cell_ok _ _ _ Hf En). reflexivity.
    + (* col[x:y] = r *)
      destruct (nth_error p t) as [tb|] eqn:Et; [|exact I]. pose proof (winv_nth _ _ _ Hw Et) as Hinv.
      destruct (lookup name (l_names tb)) as [ci|] eqn:El; [|exact I].
      destruct (nth_error (l_cols tb) ci) as [c|] eqn:Ec; [|exact I].
      rewrite (target_kind_hit tb name ci c El Ec) in Hf.
      destruct (rhs_cells_k (lc_kind c) _ r) as [xs|e] eqn:Er; [|exact I].
      destruct (rhs_cells_k_ok _ _ _ _ Hf Er) as [Hxs _]. destruct (inv_col_cells tb ci c Hinv Ec) as [Hcc _].
      apply upd_cells_inv; [exact Hinv|exact Ec|apply write_at_length|apply forallb_write_at; assumption].
    + (* col[[i, j, ...]] = r *)
      destruct (nth_error p t) as [tb|] eqn:Et; [|exact I]. pose proof (winv_nth _ _ _ Hw Et) as Hinv.
      destruct (lookup name (l_names tb)) as [ci|] eqn:El; [|exact I].
      destruct (nth_error (l_cols tb) ci) as [c|] eqn:Ec; [|exact I].
      rewrite (target_kind_hit tb name ci c El Ec) in Hf.
      destruct (rhs_cells_k (lc_kind c) _ r) as [xs|e] eqn:Er; [|exact I].
      destruct (rhs_cells_k_ok _ _ _ _ Hf Er) as [Hxs _]. destruct (inv_col_cells tb ci c Hinv Ec) as [Hcc _].
      destruct (write_list_k_ok (cell_ok (lc_kind c)) (Z.of_nat (List.length (lc_cells c))) l xs (lc_cells c) Hxs Hcc) as [H1 H2].
      destruct (write_list_k _ l xs (lc_cells c)) as [cells ok] eqn:Ewl. cbn [fst] in H1, H2.
      pose proof (upd_cells_inv tb ci c cells Hinv Ec H2 H1) as Hr. unfold with_cells in Hr.
      destruct ok; exact Hr.
    + (* col[selection] = r *)
      destruct (nth_error p t) as [tb|] eqn:Et; [|exact I]. pose proof (winv_nth _ _ _ Hw Et) as Hinv.
      destruct (nth_error p t2) as [kb|] eqn:Ek; [|exact I].
      destruct (lookup name (l_names tb)) as [ci|] eqn:El; [|exact I].
      destruct (nth_error (l_cols tb) ci) as [c|] eqn:Ec; [|exact I].
      rewrite (target_kind_hit tb name ci c El Ec) in Hf.
      destruct (negb (Nat.eqb (l_fam kb) (l_fam tb))); [exact I|].
      destruct (negb (forallb _ (ia (l_rowid kb)))); [exact I|].
      destruct (sel_positions c kb) as [ps|]; [|exact I].
      destruct (rhs_cells_k (lc_kind c) _ r) as [xs|e] eqn:Er; [|exact I].
      destruct (rhs_cells_k_ok _ _ _ _ Hf Er) as [Hxs _]. destruct (inv_col_cells tb ci c Hinv Ec) as [Hcc _].
      apply (upd_cells_inv tb ci c (write_at ps xs (lc_cells c)) Hinv Ec); [apply write_at_length|apply forallb_write_at; assumption].
    + (* dm[i].name = v *)
      destruct r as [v|vs]; [|exact I].
      destruct (nth_error p t) as [tb|] eqn:Et; [|exact I]. pose proof (winv_nth _ _ _ Hw Et) as Hinv.
      destruct (k_getrow_oob i (Z.of_nat (nrows_l tb))); [exact I|]. cbv zeta.
      match goal with |- res_inv (match lookup name (l_names ?t0) with _ => _ end) => set (t1 := t0) end.
      assert (H1 : inv_b t1 = true /\ forall ci c, lookup name (l_names t1) = Some ci -> nth_error (l_cols t1) ci = Some c ->
                                                   target_kind tb name = lc_kind c).
      { unfold t1. destruct (lookup name (l_names tb)) as [j|] eqn:El; cbv beta iota.
        - split; [exact Hinv|]. intros ci c El' Ec. rewrite El in El'. injection El' as <-. exact (target_kind_hit tb name j c El Ec).
        - split; [apply fresh_col_inv; exact Hinv|]. intros ci c El' Ec. unfold lbind in El', Ec. cbn [l_names l_cols] in El', Ec.
          rewrite El in El'. rewrite (lookup_app_new name (List.length (l_cols tb)) (l_names tb) El) in El'. injection El' as <-.
          rewrite nth_error_app_new in Ec. injection Ec as <-. unfold target_kind. rewrite El. reflexivity. }
      destruct H1 as [Hinv1 Hkind].
      destruct (lookup name (l_names t1)) as [ci|] eqn:El1; [|exact I].
      destruct (nth_error (l_cols t1) ci) as [c|] eqn:Ec1; [|exact I].
      rewrite (Hkind ci c eq_refl Ec1) in Hf. cbn [rhs_fits] in Hf.
      destruct (nf (lc_kind c) v) as [cell|e] eqn:En; [|exact Hinv1].
      destruct (norm_index (nrows_l t1) i) as [q|]; [|exact Hinv1].
      destruct (inv_col_cells t1 ci c Hinv1 Ec1) as [Hcc _].
      apply upd_cells_inv; [exact Hinv1|exact Ec1|apply write_at_length|].
      apply forallb_write_at; [|exact Hcc]. cbn [forallb]. rewrite (nf_cell_ok _ _ _ Hf En). reflexivity.
  - (* OSelect *)
    destruct (nth_error p t) as [tb|] eqn:Et; [|exact I]. pose proof (winv_nth _ _ _ Hw Et) as Hinv.
    destruct (lcol_of tb name) as [col|] eqn:Ec; [|exact I].
    destruct (negb (ref_ok (lc_kind col) ref)); [exact I|].
    destruct (selectrowid tb (compare_ids col c ref)) as [r|] eqn:Es; [|exact I].
    exact (select_inv tb col c ref r Hinv (lcol_of_In _ _ _ Ec) Es).
  - (* OMerge *)
    destruct (nth_error p t) as [a|] eqn:Et; [|exact I]. pose proof (winv_nth _ _ _ Hw Et) as Ha.
    destruct (nth_error p t2) as [b|] eqn:Et2; [|exact I]. pose proof (winv_nth _ _ _ Hw Et2) as Hb.
    destruct (negb (Nat.eqb (l_fam a) (l_fam b))); [exact I|].
    destruct (negb (forallb _ (l_names a))) eqn:Ek; [exact I|]. apply negb_false_iff in Ek.
    destruct (merge_tables o a b) as [r|] eqn:Em; [|exact I].
    exact (merge_tables_inv o a b r Ha Hb Ek Em).
  - (* OSlice *)
    destruct (nth_error p t) as [tb|] eqn:Et; [|exact I]. pose proof (winv_nth _ _ _ Hw Et) as Hinv.
    destruct (slice_table tb _) as [r|] eqn:Es; [|exact I].
    exact (slice_table_inv tb _ r Hinv (slice_pos_NoDup _ _ _) Es).
  - (* OGetRows *)
    destruct (nth_error p t) as [tb|] eqn:Et; [|exact I]. pose proof (winv_nth _ _ _ Hw Et) as Hinv.
    destruct l as [|z l]; [exact I|].
    destruct (all_some (map (norm_index (nrows_l tb)) (z :: l))) as [ps|]; [|exact I].
    destruct (nodup_nat ps) eqn:En; [|exact I].
    destruct (slice_table tb ps) as [r|] eqn:Es; [|exact I].
    exact (slice_table_inv tb ps r Hinv (proj1 (nodup_nat_NoDup ps) En) Es).
  - (* OSort *)
    destruct (nth_error p t) as [tb|] eqn:Et; [|exact I]. pose proof (winv_nth _ _ _ Hw Et) as Hinv.
    destruct (take_pos perm (ia (l_rowid tb))) as [rid|] eqn:Er; [|exact I].
    destruct (selectrowid tb (idx_of_list rid)) as [r|] eqn:Es; [|exact I].
    exact (by_position_inv tb perm rid r Hinv (proj1 (nodup_nat_NoDup perm) Hf) Er Es).
  - (* OShuffle *)
    destruct (nth_error p t) as [tb|] eqn:Et; [|exact I]. pose proof (winv_nth _ _ _ Hw Et) as Hinv.
    destruct (take_pos perm (ia (l_rowid tb))) as [rid|] eqn:Er; [|exact I].
    destruct (selectrowid tb (idx_of_list rid)) as [r|] eqn:Es; [|exact I].
    exact (by_position_inv tb perm rid r Hinv (proj1 (nodup_nat_NoDup perm) Hf) Er Es).
  - (* OSample *)
    destruct (nth_error p t) as [tb|] eqn:Et; [|exact I]. pose proof (winv_nth _ _ _ Hw Et) as Hinv.
    destruct ((k <? 0)%Z || (Z.of_nat (nrows_l tb) <? k)%Z); [exact I|].
    destruct (take_pos choice (ia (l_rowid tb))) as [rid|] eqn:Er; [|exact I].
    destruct (selectrowid tb (idx_of_list rid)) as [r|] eqn:Es; [|exact I].
    exact (by_position_inv tb choice rid r Hinv (proj1 (nodup_nat_NoDup choice) Hf) Er Es).
  - (* OSetLength *)
    destruct (nth_error p t) as [tb|] eqn:Et; [|exact I]. pose proof (winv_nth _ _ _ Hw Et) as Hinv.
    destruct (n <? 0)%Z; [exact I|].
    destruct (setlength tb n) as [r|] eqn:Es; [|exact I].
    exact (setlength_inv tb n r Hinv Es).
  - (* ODelRows *)
    destruct (nth_error p t) as [tb|] eqn:Et; [|exact I]. pose proof (winv_nth _ _ _ Hw Et) as Hinv.
    destruct (all_some (map (norm_index (nrows_l tb)) l)) as [dead|]; [|exact I].
    destruct (delrows tb dead) as [r|] eqn:Ed; [|exact I].
    exact (delrows_inv tb dead r Hinv Ed).
  - (* ODelCol *)
    destruct (nth_error p t) as [tb|] eqn:Et; [|exact I]. pose proof (winv_nth _ _ _ Hw Et) as Hinv.
    destruct (lookup name (l_names tb)) as [ci|]; [|exact I].
    apply inv_b_iff in Hinv. destruct Hinv as (H1 & H2 & H3 & H4).
    apply inv_b_iff. cbn [l_rowid l_names l_cols]. split; [exact H1|]. split; [exact H2|]. split; [|exact H4].
    apply names_ok_filter. exact H3.
  - (* ORename *)
    destruct (nth_error p t) as [tb|] eqn:Et; [|exact I]. pose proof (winv_nth _ _ _ Hw Et) as Hinv.
    cbv zeta.
    match goal with |- context [(?d0 =? 0)%Z] => set (d := d0) end.
    destruct (d =? 0)%Z eqn:E0; [exact Hinv|]. destruct (d =? 1)%Z eqn:E1; [exact I|].
    assert (Hnew : lookup new (l_names tb) = None).
    { pose proof (rename_decision_new _ _ _ _ E0 E1) as Hn. destruct (lookup new (l_names tb)); [discriminate|reflexivity]. }
    apply inv_b_iff in Hinv. destruct Hinv as (H1 & H2 & H3 & H4).
    apply inv_b_iff. cbn [l_rowid l_names l_cols]. split; [exact H1|]. split; [exact H2|]. split; [|exact H4].
    apply names_ok_rename; [exact H3|]. apply lookup_None_notin. exact Hnew.
  - (* OSetSorted *)
    destruct (nth_error p t) as [tb|] eqn:Et; [|exact I]. pose proof (winv_nth _ _ _ Hw Et) as Hinv.
    apply inv_b_fields. exact Hinv.
  - (* OSetColFromSlice *)
    destruct (nth_error p t) as [tb|] eqn:Et; [|exact I]. pose proof (winv_nth _ _ _ Hw Et) as Hinv.
    destruct (lcol_of tb name2) as [c|] eqn:Ec; [|exact I].
    destruct (all_some (map (norm_index (nrows_l tb)) l)) as [ps|]; [|exact I].
    destruct (slice_col c ps) as [v|] eqn:Es; [|exact I].
    unfold setcol_value. rewrite setcol_byref_notown.
    destruct (k_setcol_badlen _ _) eqn:Ebl; [exact I|]. unfold res_inv. lazy beta iota.
    apply setcol_badlen_spec in Ebl.
    destruct (slice_col_cells c ps v Es) as [Hcells Hkind].
    unfold lcol_of in Ec. destruct (lookup name2 (l_names tb)) as [cj|]; [|discriminate].
    destruct (inv_col_cells tb cj c Hinv Ec) as [Hcc _].
    apply copy_col_inv; [exact Hinv|lia|]. rewrite Hkind. eapply forallb_take_pos; eassumption.
Qed.

(* ---------- L1 histories: lnew, create_default, lstep_all, lapply, next_fam, lrun_from, lrun are defined in
   Model/CoreRun.v (so that the run-time comparators can use them without depending on any proof) ---------- *)
(* every step of the history satisfies step_fits on the pool it is applied to *)
Fixpoint hist_fits_from (ops : list op) (p : list ltable) (nf : nat) : bool :=
  match ops with
  | [] => true
  | o :: r => let x := lstep_all p nf o in step_fits p o && hist_fits_from r (lapply p x) (next_fam nf o x)
  end.
Definition hist_fits (ops : list op) : bool := hist_fits_from ops [] 0.

Lemma lnew_inv fam n : inv_b (lnew fam n) = true.
Proof.
  apply inv_b_iff. unfold lnew. cbn [l_rowid l_names l_cols].
  split; [apply iotaN_NoDup|]. split; [apply index_ok_range|]. split; [split; constructor|constructor].
Qed.

Theorem lstep_all_keeps_inv p nf o : winv p -> step_fits p o = true -> res_inv (lstep_all p nf o).
Proof.
  intros Hw Hf. destruct o; try exact (lstep_res_inv p _ Hw Hf); cbn [lstep_all].
  - exact (lnew_inv nf n).
  - destruct (nth_error p t) as [tb|] eqn:Et; [|exact I].
    destruct (lookup name (l_names tb)) as [ci|] eqn:El; [exact (lstep_res_inv p _ Hw Hf)|].
    pose proof (winv_nth _ _ _ Hw Et) as Hinv.
    assert (Hlt : t < List.length p) by (apply nth_error_Some; congruence).
    apply lstep_res_inv.
    + unfold winv. apply Forall_set_nth; [|exact Hw]. apply fresh_col_inv. exact Hinv.
    + cbn [step_fits] in *. rewrite Et in Hf. rewrite (set_nth_same t (create_default tb name) p Hlt).
      assert (E1 : target_kind tb name = l_dflt tb) by (unfold target_kind; rewrite El; reflexivity).
      assert (E2 : target_kind (create_default tb name) name = l_dflt tb).
      { unfold target_kind, create_default, lbind. cbn [l_names l_cols l_dflt]. rewrite El.
        rewrite (lookup_app_new name (List.length (l_cols tb)) (l_names tb) El), nth_error_app_new. reflexivity. }
      rewrite E2, <- E1. exact Hf.
  - destruct (nth_error p t) as [a|] eqn:Et; [|exact I]. destruct (nth_error p t2) as [b|] eqn:Et2; [|exact I].
    destruct (concat_l a b nf) as [r|e] eqn:Ec; [|exact I].
    exact (concat_inv a b nf r (winv_nth _ _ _ Hw Et) (winv_nth _ _ _ Hw Et2) Ec).
Qed.

Lemma winv_lapply p x : winv p -> res_inv x -> winv (lapply p x).
Proof.
  unfold winv. intros Hw Hx. destruct x as [r|i r| |i r|]; cbn [lapply res_inv] in *; try exact Hw.
  - apply Forall_app. split; [exact Hw|constructor; [exact Hx|constructor]].
  - apply Forall_set_nth; assumption.
  - apply Forall_set_nth; assumption.
Qed.

Theorem lrun_from_keeps_inv ops : forall p nf, winv p -> hist_fits_from ops p nf = true -> winv (lrun_from ops p nf).
Proof.
  induction ops as [|o ops IH]; intros p nf Hw Hf; cbn [lrun_from hist_fits_from] in *; [exact Hw|].
  apply andb_true_iff in Hf. destruct Hf as [Hs Hr].
  apply IH; [|exact Hr]. apply winv_lapply; [exact Hw|]. apply lstep_all_keeps_inv; assumption.
Qed.

Corollary lrun_keeps_inv ops : hist_fits ops = true -> winv (lrun ops).
Proof. intros H. apply lrun_from_keeps_inv; [constructor|exact H]. Qed.


(* ---------- the statements quoted by Props/C01.v ---------- *)
Theorem lstep_keeps_inv : forall p o,
  winv p -> step_fits p o = true ->
  match lstep p o with
  | LNew r | LUpd _ r | LErrUpd _ r => inv_b r = true
  | LErr | LSkip => True
  end.
Proof. exact lstep_res_inv. Qed.

Theorem concat_keeps_inv : forall a b nf r,
  concat_l a b nf = Ok r -> inv_b a = true -> inv_b b = true -> inv_b r = true.
Proof. intros a b nf r H Ha Hb. exact (concat_inv a b nf r Ha Hb H). Qed.

Theorem lrun_keeps_inv_from : forall ops p nf, winv p -> hist_fits_from ops p nf = true -> winv (lrun_from ops p nf).
Proof. exact lrun_from_keeps_inv. Qed.
