(* Proofs for the column variants of property C11 (Spec/ShuffleCol.v, Model/ShuffleCol.v):
   A. what the L0 operations guarantee (rearrangement, position alignment, sampled values keep their ids,
      shuffle_horiz permutes within rows and touches nothing else);
   B. the L1 algorithms of operations.py refine them on every object graph satisfying inv_b. *)
From Coq Require Import ZArith NArith List Bool Lia Arith String Permutation.
From DM Require Import Base.PyVal Spec.Nf Spec.Table Spec.Ops Spec.ShuffleCol Model.LTable Model.ShuffleColAbs
  Proofs.ListX Proofs.TableFacts Proofs.TakeFacts.
Import ListNotations.
Open Scope nat_scope.

(* ================= A. L0 ================= *)

(* ---------- shuffle of a column ---------- *)
Theorem shuffle_col_spec perm c c' :
  shuffle_col perm c = Ok c' ->
  Permutation (c_cells c) (c_cells c') /\ c_ids c' = c_ids c /\ c_kind c' = c_kind c
  /\ take_pos perm (c_cells c) = Some (c_cells c').
Proof.
  unfold shuffle_col. destruct (is_perm_of_range perm (List.length (c_cells c))) eqn:Hp; [|discriminate].
  destruct (take_pos perm (c_cells c)) as [cs|] eqn:Ht; [|discriminate].
  intros H. injection H as <-. cbn [c_cells c_ids c_kind]. repeat split.
  eapply take_pos_perm; eassumption.
Qed.

(* a permutation of the row range always shuffles *)
Lemma shuffle_col_total perm c :
  is_perm_of_range perm (List.length (c_cells c)) = true -> exists c', shuffle_col perm c = Ok c'.
Proof.
  intros Hp. unfold shuffle_col. rewrite Hp.
  destruct (take_pos_total perm (c_cells c)) as [r Hr].
  - unfold is_perm_of_range in Hp. rewrite !andb_true_iff, forallb_forall in Hp. destruct Hp as [_ Hr].
    apply Forall_forall. intros p Hin. apply Nat.ltb_lt. apply Hr. assumption.
  - rewrite Hr. eexists. reflexivity.
Qed.

(* ---------- a position-aligned column as a selection key ---------- *)
Lemma matching_ids_take (f : val -> bool) (ids : list N) (cells : list val) :
  List.length ids = List.length cells ->
  take_pos (positions_where f cells 0) ids
  = Some (map fst (filter (fun '(_, cell) => f cell) (combine ids cells))).
Proof.
  intros Hl. apply take_pos_spec.
  assert (G : forall (ids : list N) (cells : list val) s, List.length ids = List.length cells ->
            map (fun p => nth_error ids (p - s)) (positions_where f cells s)
            = map (@Some N) (map fst (filter (fun '(_, cell) => f cell) (combine ids cells)))).
  { clear. induction ids as [|a ids IH]; intros [|c cells] s Hl; try discriminate; [reflexivity|].
    cbn [combine filter positions_where]. cbn [List.length] in Hl.
    assert (E : map (fun p => nth_error (a :: ids) (p - s)) (positions_where f cells (S s))
                = map (fun p => nth_error ids (p - S s)) (positions_where f cells (S s))).
    { apply map_ext_in. intros p Hp. apply positions_where_ge in Hp.
      replace (p - s) with (S (p - S s)) by lia. reflexivity. }
    destruct (f c); cbn [map fst].
    - f_equal; [replace (s - s) with 0 by lia; reflexivity|]. rewrite E. apply IH. lia.
    - rewrite E. apply IH. lia. }
  rewrite <- (G ids cells 0 Hl). apply map_ext. intros p. rewrite Nat.sub_0_r. reflexivity.
Qed.

Lemma pos_of_nth_unique (x : N) l p : NoDup l -> nth_error l p = Some x -> pos_of x l = Some p.
Proof.
  revert p; induction l as [|y l IH]; intros p Hnd H; [destruct p; discriminate|].
  inversion Hnd as [|? ? Hnotin Hnd']; subst. cbn [pos_of]. destruct p as [|p]; cbn [nth_error] in H.
  - injection H as ->. rewrite N.eqb_refl. reflexivity.
  - destruct (N.eqb x y) eqn:E.
    + apply N.eqb_eq in E. subst y. exfalso. apply Hnotin. eapply nth_error_In. eassumption.
    + rewrite (IH p Hnd' H). reflexivity.
Qed.

Lemma pos_of_taken ids ps rid :
  NoDup ids -> take_pos ps ids = Some rid -> all_some (map (fun r => pos_of r ids) rid) = Some ps.
Proof.
  intros Hnd H. apply take_pos_spec in H. revert rid H.
  induction ps as [|p ps IH]; intros [|r rid] H; try discriminate; [reflexivity|].
  cbn [map] in H. injection H as Hp H. cbn [map all_some].
  rewrite (pos_of_nth_unique r ids p Hnd Hp), (IH rid H). reflexivity.
Qed.

Theorem select_by_aligned f c t :
  c_ids c = ids t -> NoDup (ids t) -> List.length (c_cells c) = nrows t ->
  select_by f c t = take (positions_where f (c_cells c) 0) t.
Proof.
  intros Hi Hnd Hl. unfold select_by, matching_ids. rewrite Hi.
  assert (Hlen : List.length (ids t) = List.length (c_cells c)) by (unfold nrows in Hl; lia).
  rewrite (pos_of_taken _ _ _ Hnd (matching_ids_take f (ids t) (c_cells c) Hlen)). reflexivity.
Qed.

(* the shuffled column used as a key selects the rows at the positions where IT holds the value *)
Corollary shuffle_col_as_key perm t name c c' f :
  twf t -> col_of t name = Some c -> shuffle_col perm c = Ok c' ->
  select_by f c' t = take (positions_where f (c_cells c') 0) t.
Proof.
  intros Ht Hc Hs. destruct (shuffle_col_spec _ _ _ Hs) as (_ & Hi & _ & Htp).
  unfold col_of in Hc. destruct (slot_of t name) as [s|] eqn:Es; [|discriminate]. injection Hc as <-.
  cbn [c_ids c_cells] in *. destruct Ht as (Hnd & Hslots & Hnames).
  apply select_by_aligned; [assumption|assumption|].
  apply take_pos_length in Htp. unfold shuffle_col in Hs. cbn [c_cells] in Hs.
  destruct (is_perm_of_range perm (List.length (scells s))) eqn:Hp; [|discriminate].
  unfold is_perm_of_range in Hp. rewrite !andb_true_iff, Nat.eqb_eq in Hp. destruct Hp as [[Hlen _] _].
  rewrite Htp, Hlen. unfold slot_of in Es. destruct (lookup name (names t)) as [i|]; [|discriminate].
  rewrite Forall_forall in Hslots. apply Hslots. eapply nth_error_In. eassumption.
Qed.

(* ---------- assigning a column back: value j goes to row j, nothing else changes ---------- *)
Lemma lookup_replace_name_same {A} n (a : A) l : lookup n l <> None -> lookup n (replace_name n a l) = Some a.
Proof.
  induction l as [|[m x] l IH]; cbn [lookup replace_name]; [intros H; contradiction H; reflexivity|].
  destruct (String.eqb n m) eqn:E; cbn [lookup]; rewrite E; [reflexivity|]. exact IH.
Qed.
Lemma lookup_replace_name_other {A} n n' (a : A) l : n' <> n -> lookup n' (replace_name n a l) = lookup n' l.
Proof.
  intros Hne. induction l as [|[m x] l IH]; cbn [lookup replace_name]; [reflexivity|].
  destruct (String.eqb n m) eqn:E; cbn [lookup].
  - apply String.eqb_eq in E. subst m.
    destruct (String.eqb n' n) eqn:E2; [apply String.eqb_eq in E2; contradiction|reflexivity].
  - rewrite IH. reflexivity.
Qed.
Lemma lookup_app_new {A} n (a : A) l : lookup n l = None -> lookup n (l ++ [(n, a)]) = Some a.
Proof.
  induction l as [|[m x] l IH]; cbn [lookup app]; [rewrite String.eqb_refl; reflexivity|].
  destruct (String.eqb n m); [discriminate|]. exact IH.
Qed.
Lemma lookup_app_other {A} n n' (a : A) l : n' <> n -> lookup n' (l ++ [(n, a)]) = lookup n' l.
Proof.
  intros Hne. induction l as [|[m x] l IH]; cbn [lookup app].
  - destruct (String.eqb n' n) eqn:E; [apply String.eqb_eq in E; contradiction|reflexivity].
  - destruct (String.eqb n' m); [reflexivity|]. exact IH.
Qed.

Theorem assign_col_spec t name c t' :
  twf t -> assign_col t name c = Ok t' ->
  slot_of t' name = Some {| skind := c_kind c; scells := c_cells c |}
  /\ ids t' = ids t /\ fam t' = fam t
  /\ (forall n, n <> name -> slot_of t' n = slot_of t n)
  /\ List.length (c_cells c) = nrows t.
Proof.
  intros (Hnd & Hslots & Hnames) H. unfold assign_col in H.
  destruct (Nat.eqb (List.length (c_cells c)) (nrows t)) eqn:El; cbn [negb] in H; [|discriminate].
  apply Nat.eqb_eq in El. unfold add_slot in H. injection H as <-.
  unfold slot_of, bind_name, has_name. cbn [names slots ids fam].
  split; [|split; [reflexivity|split; [reflexivity|split; [|assumption]]]].
  - destruct (lookup name (names t)) as [i|] eqn:E.
    + rewrite lookup_replace_name_same by congruence. rewrite nth_error_app2, Nat.sub_diag by lia. reflexivity.
    + rewrite lookup_app_new by assumption. rewrite nth_error_app2, Nat.sub_diag by lia. reflexivity.
  - intros n Hne.
    assert (Hl : lookup n (if match lookup name (names t) with Some _ => true | None => false end
                           then replace_name name (List.length (slots t)) (names t)
                           else names t ++ [(name, List.length (slots t))]) = lookup n (names t)).
    { destruct (lookup name (names t)); [apply lookup_replace_name_other|apply lookup_app_other]; assumption. }
    rewrite Hl. destruct (lookup n (names t)) as [i|] eqn:E; [|reflexivity].
    apply nth_error_app1. apply lookup_In in E. rewrite Forall_forall in Hnames. apply (Hnames _ E).
Qed.

(* ---------- random_sample of a column ---------- *)
Theorem sample_col_error k choice c :
  sample_col k choice c = Raise ValueError <-> (k < 0)%Z \/ (Z.of_nat (List.length (c_cells c)) < k)%Z.
Proof.
  unfold sample_col. destruct ((k <? 0)%Z || (Z.of_nat (List.length (c_cells c)) <? k)%Z) eqn:E.
  - apply orb_true_iff in E. rewrite Z.ltb_lt, Z.ltb_lt in E. split; [intros _; exact E|reflexivity].
  - apply orb_false_iff in E. rewrite !Z.ltb_ge in E. split.
    + destruct (valid_choice choice k (List.length (c_cells c))); [|discriminate].
      destruct (take_pos choice (c_ids c)); [destruct (take_pos choice (c_cells c))|]; discriminate.
    + lia.
Qed.

Theorem sample_col_spec k choice c c' :
  List.length (c_ids c) = List.length (c_cells c) ->
  sample_col k choice c = Ok c' ->
  (0 <= k <= Z.of_nat (List.length (c_cells c)))%Z
  /\ List.length (c_cells c') = Z.to_nat k /\ NoDup choice
  /\ take_pos choice (combine (c_ids c) (c_cells c)) = Some (combine (c_ids c') (c_cells c'))
  /\ List.length (c_ids c') = List.length (c_cells c')
  /\ c_kind c' = c_kind c
  /\ (NoDup (c_ids c) -> NoDup (c_ids c')).
Proof.
  intros Hlen. unfold sample_col.
  destruct ((k <? 0)%Z || (Z.of_nat (List.length (c_cells c)) <? k)%Z) eqn:E; [discriminate|].
  apply orb_false_iff in E. rewrite !Z.ltb_ge in E.
  destruct (valid_choice choice k (List.length (c_cells c))) eqn:Ev; [|discriminate].
  destruct (take_pos choice (c_ids c)) as [ri|] eqn:Ei; [|discriminate].
  destruct (take_pos choice (c_cells c)) as [cs|] eqn:Ec; [|discriminate].
  intros H. injection H as <-. cbn [c_ids c_cells c_kind].
  unfold valid_choice in Ev. rewrite !andb_true_iff, Nat.eqb_eq in Ev. destruct Ev as [[Hk Hnd] _].
  apply nodup_nat_NoDup in Hnd.
  pose proof (take_pos_length _ _ _ Ei) as Li. pose proof (take_pos_length _ _ _ Ec) as Lc.
  split; [lia|]. split; [lia|]. split; [assumption|]. split; [|split; [lia|split; [reflexivity|]]].
  - apply take_pos_spec. apply take_pos_spec in Ei. apply take_pos_spec in Ec.
    clear -Ei Ec Hlen. revert ri cs Ei Ec. induction choice as [|p ps IH]; intros ri cs Ei Ec.
    + destruct ri; [|discriminate]. destruct cs; [|discriminate]. reflexivity.
    + destruct ri as [|r ri]; [discriminate|]. destruct cs as [|x cs]; [discriminate|].
      cbn [map combine] in *. injection Ei as Er Ei. injection Ec as Ex Ec. f_equal; [|apply IH; assumption].
      clear -Er Ex Hlen. revert p Er Ex. generalize dependent (c_cells c). generalize (c_ids c).
      induction l as [|a l IH]; intros [|b m] Hl p Er Ex; try discriminate; [destruct p; discriminate|].
      destruct p as [|p]; cbn [nth_error combine] in *; [congruence|]. apply IH; [cbn [List.length] in Hl; lia|assumption|assumption].
  - intros Hn. eapply take_pos_NoDup; eassumption.
Qed.

(* every sampled (id, value) pair is a pair of the source *)
Corollary sample_col_pairs k choice c c' r v :
  List.length (c_ids c) = List.length (c_cells c) -> sample_col k choice c = Ok c' ->
  In (r, v) (combine (c_ids c') (c_cells c')) -> In (r, v) (combine (c_ids c) (c_cells c)).
Proof.
  intros Hl H Hin. destruct (sample_col_spec _ _ _ _ Hl H) as (_ & _ & _ & Ht & _).
  apply take_pos_spec in Ht. apply In_nth_error in Hin. destruct Hin as [i Hi].
  assert (E : nth_error (map Some (combine (c_ids c') (c_cells c'))) i = Some (Some (r, v)))
    by (rewrite nth_error_map, Hi; reflexivity).
  rewrite <- Ht, nth_error_map in E. destruct (nth_error choice i) as [p|]; [|discriminate].
  cbn [option_map] in E. injection E as E. eapply nth_error_In; eassumption.
Qed.

(* ---------- shuffle_horiz: one row ---------- *)
Lemma cell_ok_nf k v : cell_ok k v = true -> nf k (pyv_of_val v) = Ok v.
Proof.
  destruct k, v as [z|f|s|]; cbn [cell_ok]; try discriminate; intros H; cbn [pyv_of_val nf nf_mixed nf_float nf_int num_of]; try reflexivity.
  - apply negb_true_iff in H. rewrite H. reflexivity.
Qed.

Lemma coerce_row_fixed kinds vals :
  Forall2 (fun k v => cell_ok k v = true) kinds vals -> coerce_row kinds vals = Ok vals.
Proof.
  induction 1 as [|k v ks vs Hkv _ IH]; [reflexivity|]. cbn [coerce_row].
  rewrite (cell_ok_nf _ _ Hkv). cbn [bind]. rewrite IH. reflexivity.
Qed.

Lemma coerce_row_length kinds vals out :
  coerce_row kinds vals = Ok out -> List.length kinds = List.length vals -> List.length out = List.length vals.
Proof.
  revert vals out; induction kinds as [|k ks IH]; intros [|v vs] out H Hl; try discriminate.
  - injection H as <-. reflexivity.
  - cbn [coerce_row] in H. destruct (nf k (pyv_of_val v)) as [x|e]; [|discriminate]. cbn [bind] in H.
    destruct (coerce_row ks vs) as [r|e] eqn:E; [|discriminate]. cbn [bind] in H. injection H as <-.
    cbn [List.length] in *. f_equal. apply IH; [assumption|lia].
Qed.

(* a row of the result is the coerced rearrangement of the source row *)
Theorem hrow_spec kinds perm row row' :
  hrow kinds perm row = Ok row' ->
  exists moved, Permutation row moved /\ take_pos perm row = Some moved /\ coerce_row kinds moved = Ok row'.
Proof.
  unfold hrow. destruct (is_perm_of_range perm (List.length row)) eqn:Hp; [|discriminate].
  destruct (take_pos perm row) as [moved|] eqn:Ht; [|discriminate].
  intros H. exists moved. split; [eapply take_pos_perm; eassumption|]. split; [reflexivity|assumption].
Qed.

(* columns of one type holding normal forms of that type: the cells of the row are permuted, nothing else *)
Theorem hrow_perm k perm row row' :
  forallb (cell_ok k) row = true ->
  hrow (repeat k (List.length row)) perm row = Ok row' -> Permutation row row'.
Proof.
  intros Hok H. destruct (hrow_spec _ _ _ _ H) as (moved & Hperm & Htake & Hc).
  assert (Hm : coerce_row (repeat k (List.length row)) moved = Ok moved).
  { apply coerce_row_fixed. rewrite (Permutation_length Hperm).
    assert (Hall : Forall (fun v => cell_ok k v = true) moved).
    { apply Forall_forall. intros v Hv. rewrite forallb_forall in Hok. apply Hok.
      eapply Permutation_in; [apply Permutation_sym; eassumption|assumption]. }
    clear -Hall. induction Hall; cbn [List.length repeat]; constructor; assumption. }
  rewrite Hm in Hc. injection Hc as <-. assumption.
Qed.

Lemma hrows_spec kinds perms : forall rows rows',
  hrows kinds perms rows = Ok rows' ->
  List.length rows' = List.length rows /\ List.length perms = List.length rows
  /\ forall i row, nth_error rows i = Some row ->
       exists p row', nth_error perms i = Some p /\ nth_error rows' i = Some row' /\ hrow kinds p row = Ok row'.
Proof.
  induction perms as [|p ps IH]; intros [|r rs] rows' H; cbn [hrows] in H; try discriminate.
  - injection H as <-. repeat split. intros [|i] row Hi; discriminate.
  - destruct (hrow kinds p r) as [x|e] eqn:Ex; [|discriminate]. cbn [bind] in H.
    destruct (hrows kinds ps rs) as [xs|e] eqn:Exs; [|discriminate]. cbn [bind] in H. injection H as <-.
    destruct (IH rs xs Exs) as (L1 & L2 & Hall). cbn [List.length]. repeat split; try lia.
    intros [|i] row Hi; cbn [nth_error] in *.
    + injection Hi as <-. exists p, x. repeat split. assumption.
    + apply Hall. assumption.
Qed.

(* ---------- shuffle_horiz: the table ---------- *)
Lemma index_of_None x l : index_of x l = None <-> ~ In x l.
Proof.
  induction l as [|y l IH]; cbn [index_of]; [split; [intros _ []|reflexivity]|].
  destruct (String.eqb x y) eqn:E.
  - apply String.eqb_eq in E. subst y. split; [discriminate|intros H; contradiction H; left; reflexivity].
  - apply String.eqb_neq in E. destruct (index_of x l) as [p|].
    + split; [discriminate|]. intros H. exfalso.
      assert (Hn : ~ In x l) by (intros Hin; apply H; right; assumption).
      apply (proj2 IH) in Hn. discriminate.
    + split; [|reflexivity]. intros _ [Hh|Ht]; [congruence|]. apply (proj1 IH); [reflexivity|assumption].
Qed.

Lemma index_of_nth l : NoDup l -> forall j x, nth_error l j = Some x -> index_of x l = Some j.
Proof.
  induction 1 as [|y l Hnotin _ IH]; intros [|j] x H; try discriminate; cbn [nth_error index_of] in *.
  - injection H as ->. rewrite String.eqb_refl. reflexivity.
  - destruct (String.eqb x y) eqn:E.
    + apply String.eqb_eq in E. subst y. exfalso. apply Hnotin. eapply nth_error_In. eassumption.
    + rewrite (IH j x H). reflexivity.
Qed.

Lemma insert_str_perm x l : Permutation (x :: l) (insert_str x l).
Proof.
  induction l as [|y l IH]; cbn [insert_str]; [apply Permutation_refl|].
  destruct (str_leb x y); [apply Permutation_refl|].
  eapply Permutation_trans; [apply perm_swap|]. apply perm_skip. exact IH.
Qed.
Lemma sort_str_perm l : Permutation l (fold_right insert_str [] l).
Proof.
  induction l as [|x l IH]; cbn [fold_right]; [constructor|].
  eapply Permutation_trans; [apply perm_skip; exact IH|apply insert_str_perm].
Qed.

Lemma mem_str_In x l : mem_str x l = true <-> In x l.
Proof.
  unfold mem_str. rewrite existsb_exists. split.
  - intros [y [Hy E]]. apply String.eqb_eq in E. subst. assumption.
  - intros H. exists x. split; [assumption|apply String.eqb_refl].
Qed.

Lemma chosen_order_In t ns n : In n (chosen_order t ns) <-> In n (map fst (names t)) /\ In n ns.
Proof.
  unfold chosen_order. split.
  - intros H. apply (Permutation_in _ (Permutation_sym (sort_str_perm _))) in H.
    apply filter_In in H. rewrite mem_str_In in H. exact H.
  - intros H. apply (Permutation_in _ (sort_str_perm _)). apply filter_In. rewrite mem_str_In. exact H.
Qed.

Lemma chosen_order_NoDup t ns : NoDup (map fst (names t)) -> NoDup (chosen_order t ns).
Proof.
  intros H. unfold chosen_order. eapply Permutation_NoDup; [apply sort_str_perm|]. apply NoDup_filter. assumption.
Qed.

(* the slots of a table rebuilt name by name *)
Lemma lookup_rebuilt {B} (g : string * nat -> option B) (ss_all : list B) :
  forall nm ss off, all_some (map g nm) = Some ss -> skipn off ss_all = ss ->
  forall n, match lookup n (combine (map fst nm) (seq off (List.length nm))) with
            | Some k => nth_error ss_all k | None => None end
            = match lookup n nm with Some i => g (n, i) | None => None end.
Proof.
  induction nm as [|[m i] nm IH]; intros ss off Ha Hs n; cbn [map combine seq List.length fst lookup]; [reflexivity|].
  cbn [map all_some] in Ha. destruct (g (m, i)) as [s|] eqn:Eg; [|discriminate].
  destruct (all_some (map g nm)) as [ss'|] eqn:Ea; [|discriminate]. injection Ha as <-.
  apply skipn_cons_nth in Hs. destruct Hs as [Hn Hs].
  destruct (String.eqb n m) eqn:E.
  - apply String.eqb_eq in E. subst m. rewrite Hn, Eg. reflexivity.
  - apply (IH ss' (S off)); [reflexivity|assumption].
Qed.

Lemma nth_col_from j rows i :
  i < List.length rows -> nth i (col_from j rows) VNone = nth j (nth i rows []) VNone.
Proof.
  intros Hi. unfold col_from.
  rewrite (nth_indep _ VNone (nth j [] VNone)) by (rewrite map_length; assumption).
  rewrite (map_nth (fun r => nth j r VNone) rows [] i). reflexivity.
Qed.

Lemma nth_error_nth_default {A} (l : list A) i d x : nth_error l i = Some x -> nth i l d = x.
Proof. revert i; induction l as [|a l IH]; intros [|i] H; try discriminate; cbn [nth nth_error] in *; [congruence|auto]. Qed.

Lemma list_eq_nth {A} (d : A) (a b : list A) :
  List.length a = List.length b -> (forall j, j < List.length a -> nth j a d = nth j b d) -> a = b.
Proof.
  revert b; induction a as [|x a IH]; intros [|y b] Hl H; try discriminate; [reflexivity|].
  cbn [List.length] in *. f_equal; [apply (H 0); lia|]. apply IH; [lia|]. intros j Hj. apply (H (S j)). lia.
Qed.

Lemma map_fst_combine_seq' {A} (l : list A) s : map fst (combine l (seq s (List.length l))) = l.
Proof. revert s; induction l as [|a l IH]; intros s; cbn [List.length seq combine map fst]; [reflexivity|]. rewrite IH. reflexivity. Qed.

Lemma nth_error_seq' s n i : i < n -> nth_error (seq s n) i = Some (s + i).
Proof.
  revert s i; induction n as [|n IH]; intros s [|i] H; try lia; cbn [seq nth_error]; [f_equal; lia|].
  rewrite IH by lia. f_equal. lia.
Qed.

Theorem shuffle_horiz_spec t args perms t' :
  twf t -> NoDup (map fst (names t)) ->
  shuffle_horiz t args perms = Ok t' ->
  exists ns, chosen_names t args = Ok ns /\
  let order := chosen_order t ns in
  ids t' = ids t /\ fam t' = fam t /\ map fst (names t') = map fst (names t) /\ twf t'
  (* every other column keeps its cells *)
  /\ (forall n, ~ In n order -> slot_of t' n = slot_of t n)
  (* a chosen column keeps its type *)
  /\ (forall n s, In n order -> slot_of t n = Some s -> exists s', slot_of t' n = Some s' /\ skind s' = skind s)
  (* every row: its cells in the chosen columns are the coerced rearrangement, by the row's own permutation *)
  /\ (forall i, i < nrows t ->
        exists p, nth_error perms i = Some p
                  /\ hrow (map (fun n => match slot_of t n with Some s => skind s | None => KMixed end) order) p
                          (trow t order i) = Ok (trow t' order i)).
Proof.
  intros Ht Hnn H. unfold shuffle_horiz in H.
  destruct (chosen_names t args) as [ns|e] eqn:Ens; [|discriminate]. cbn [bind] in H.
  exists ns. split; [reflexivity|]. cbv zeta.
  set (order := chosen_order t ns) in *.
  destruct (all_some (map (slot_of t) order)) as [ss|] eqn:Ess; [|discriminate].
  set (kinds := map skind ss) in *. set (cols := map scells ss) in *.
  destruct (Nat.eqb (List.length perms) (nrows t)) eqn:Epl; cbn [negb] in H; [|discriminate].
  destruct (hrows kinds perms (map (fun i => row_at i cols) (seq 0 (nrows t)))) as [rows'|e] eqn:Er; [|discriminate].
  cbn [bind] in H.
  set (g := fun ni : string * nat =>
              match nth_error (slots t) (snd ni) with
              | Some s => Some {| skind := skind s;
                                  scells := match index_of (fst ni) order with
                                            | Some j => col_from j rows' | None => scells s end |}
              | None => None end) in *.
  destruct (all_some (map g (names t))) as [ss'|] eqn:Eg; [|discriminate].
  injection H as <-. cbn [ids fam names].
  destruct (hrows_spec _ _ _ _ Er) as (Lr & Lp & Hrows). rewrite map_length, seq_length in Lr, Lp.
  assert (Hss : map (slot_of t) order = map Some ss) by (apply all_some_spec; assumption).
  (* slot_of on the rebuilt table *)
  assert (Hslot : forall n, slot_of {| fam := fam t; ids := ids t;
                                       names := combine (map fst (names t)) (seq 0 (List.length (names t)));
                                       slots := ss'; tsorted := true; dflt := KMixed |} n
                            = match lookup n (names t) with Some i => g (n, i) | None => None end).
  { intros n. unfold slot_of. cbn [names slots]. apply (lookup_rebuilt g ss' (names t) ss' 0 Eg eq_refl). }
  destruct Ht as (Hnd & Hslots & Hnames).
  assert (Hord : NoDup order) by (apply chosen_order_NoDup; assumption).
  split; [reflexivity|]. split; [reflexivity|]. split.
  { rewrite <- (map_length fst (names t)). apply map_fst_combine_seq'. }
  split.
  { (* twf *)
    unfold twf, nrows. cbn [ids slots names]. split; [assumption|]. split.
    - apply all_some_spec in Eg. apply Forall_forall. intros s Hs.
      assert (Hin : In (Some s) (map Some ss')) by (apply in_map; assumption).
      rewrite <- Eg in Hin. apply in_map_iff in Hin. destruct Hin as [[n i] [Hx Hni]]. unfold g in Hx. cbn [fst snd] in Hx.
      destruct (nth_error (slots t) i) as [s0|] eqn:E0; [|discriminate]. injection Hx as <-. cbn [scells].
      destruct (index_of n order); [unfold col_from; rewrite map_length; exact Lr|].
      rewrite Forall_forall in Hslots. apply Hslots. eapply nth_error_In. eassumption.
    - apply all_some_length in Eg. rewrite map_length in Eg. rewrite Eg.
      exact (combine_seq_bound (map fst (names t)) 0 (List.length (names t))). }
  split.
  { intros n Hn. rewrite Hslot. unfold slot_of. destruct (lookup n (names t)) as [i|]; [|reflexivity].
    unfold g. cbn [fst snd]. destruct (nth_error (slots t) i) as [s|]; [|reflexivity].
    rewrite (proj2 (index_of_None n order) Hn). destruct s; reflexivity. }
  split.
  { intros n s Hn Hs. rewrite Hslot. unfold slot_of in Hs. destruct (lookup n (names t)) as [i|]; [|discriminate].
    unfold g. cbn [fst snd]. rewrite Hs. eexists. split; [reflexivity|reflexivity]. }
  intros i Hi.
  destruct (Hrows i (row_at i cols)) as (p & row' & Hp & Hr' & Hh).
  { rewrite nth_error_map. rewrite (nth_error_seq' 0 (nrows t) i Hi). reflexivity. }
  exists p. split; [assumption|].
  (* the source row *)
  assert (Esrc : trow t order i = row_at i cols).
  { unfold trow, row_at, cols, cell_of. clear -Hss. revert ss Hss. induction order as [|n o IH]; intros [|s ss] Hss; try discriminate; [reflexivity|].
    cbn [map] in *. injection Hss as Hs Hss. rewrite Hs. f_equal. apply IH. assumption. }
  assert (Ekinds : map (fun n => match slot_of t n with Some s => skind s | None => KMixed end) order = kinds).
  { unfold kinds. clear -Hss. revert ss Hss. induction order as [|n o IH]; intros [|s ss] Hss; try discriminate; [reflexivity|].
    cbn [map] in *. injection Hss as Hs Hss. rewrite Hs. f_equal. apply IH. assumption. }
  rewrite Esrc, Ekinds, Hh. f_equal.
  (* the result row *)
  assert (Llen : List.length row' = List.length order).
  { destruct (hrow_spec _ _ _ _ Hh) as (moved & Hperm & _ & Hc).
    assert (Lm : List.length moved = List.length order).
    { rewrite <- (Permutation_length Hperm). unfold row_at, cols. rewrite !map_length.
      apply all_some_length in Ess. rewrite map_length in Ess. exact Ess. }
    rewrite (coerce_row_length _ _ _ Hc); [exact Lm|]. unfold kinds. rewrite map_length, Lm.
    apply all_some_length in Ess. rewrite map_length in Ess. exact Ess. }
  apply (list_eq_nth VNone); [unfold trow; rewrite map_length; exact Llen|].
  intros j Hj. rewrite Llen in Hj.
  destruct (nth_error order j) as [n|] eqn:En; [|apply nth_error_None in En; lia].
  unfold trow.
  match goal with |- _ = nth j (map ?f order) VNone =>
    rewrite (nth_indep (map f order) VNone (f ""%string)) by (rewrite map_length; assumption);
    rewrite (map_nth f order ""%string j) end.
  rewrite (nth_error_nth_default _ _ ""%string _ En).
  unfold cell_of. rewrite Hslot.
  assert (Hin : In n order) by (eapply nth_error_In; eassumption).
  assert (Hsome : exists s, slot_of t n = Some s).
  { assert (E : nth_error (map (slot_of t) order) j = Some (slot_of t n)) by (rewrite nth_error_map, En; reflexivity).
    rewrite Hss, nth_error_map in E. destruct (nth_error ss j) as [s|]; [|discriminate]. cbn [option_map] in E.
    exists s. congruence. }
  destruct Hsome as [s Hs]. unfold slot_of in Hs. destruct (lookup n (names t)) as [i0|]; [|discriminate].
  unfold g. cbn [fst snd]. rewrite Hs. cbn [scells].
  rewrite (index_of_nth order Hord j n En).
  rewrite nth_col_from by (rewrite Lr; exact Hi).
  rewrite (nth_error_nth_default _ _ [] _ Hr'). reflexivity.
Qed.

(* columns of one type holding normal forms of that type: every row keeps the multiset of its cells *)
Definition same_kind_ok (t : table) (ns : list string) (k : kind) : bool :=
  forallb (fun n => match slot_of t n with
                    | Some s => kind_eqb (skind s) k && forallb (cell_ok k) (scells s)
                    | None => false
                    end) (chosen_order t ns).

Lemma kind_eqb_eq a b : kind_eqb a b = true -> a = b.
Proof. destruct a, b; cbn; congruence. Qed.

Corollary shuffle_horiz_rows_permuted t args perms t' ns k :
  twf t -> NoDup (map fst (names t)) ->
  shuffle_horiz t args perms = Ok t' -> chosen_names t args = Ok ns -> same_kind_ok t ns k = true ->
  forall i, i < nrows t -> Permutation (trow t (chosen_order t ns) i) (trow t' (chosen_order t ns) i).
Proof.
  intros Ht Hnn H Hns Hk i Hi.
  destruct (shuffle_horiz_spec t args perms t' Ht Hnn H) as (ns' & Hns' & Hspec). cbv zeta in Hspec.
  rewrite Hns in Hns'. injection Hns' as <-.
  destruct Hspec as (_ & _ & _ & _ & _ & _ & Hrows). destruct (Hrows i Hi) as (p & _ & Hh).
  unfold same_kind_ok in Hk. rewrite forallb_forall in Hk.
  set (order := chosen_order t ns) in *.
  assert (Ekinds : map (fun n => match slot_of t n with Some s => skind s | None => KMixed end) order
                   = repeat k (List.length (trow t order i))).
  { unfold trow. rewrite map_length. clear -Hk. induction order as [|n o IH]; [reflexivity|].
    cbn [map List.length repeat]. f_equal.
    - specialize (Hk n (or_introl eq_refl)). destruct (slot_of t n) as [s|]; [|discriminate].
      apply andb_true_iff in Hk. apply kind_eqb_eq. tauto.
    - apply IH. intros x Hx. apply Hk. right. assumption. }
  rewrite Ekinds in Hh. eapply hrow_perm; [|eassumption].
  apply forallb_forall. intros v Hv. unfold trow in Hv. apply in_map_iff in Hv. destruct Hv as [n [<- Hn]].
  specialize (Hk n Hn). unfold cell_of. destruct (slot_of t n) as [s|] eqn:Es; [|discriminate].
  apply andb_true_iff in Hk. destruct Hk as [_ Hc]. rewrite forallb_forall in Hc. apply Hc. apply nth_In.
  destruct Ht as (_ & Hslots & _). unfold slot_of in Es. destruct (lookup n (names t)); [|discriminate].
  rewrite Forall_forall in Hslots. rewrite (Hslots s (nth_error_In _ _ Es)). exact Hi.
Qed.

(* as a step on the pool: every member that existed stays what it was (in particular the source) *)
Theorem xstep_horiz_frame w ti args perms j :
  j < List.length (pool w) -> get (fst (xstep_horiz w ti args perms)) j = get w j.
Proof.
  intros Hj. unfold xstep_horiz. destruct (get w ti) as [t|]; [|reflexivity].
  destruct (shuffle_horiz t args perms); cbn [fst]; [apply get_push_old; assumption|reflexivity].
Qed.
