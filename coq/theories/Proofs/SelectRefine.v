(* C02 proofs, part 2: the L1 model (Model.Select.compare, built from the kernels regenerated
   from the source) computes the L0 selection (Spec.Select.sel_positions). *)
From Coq Require Import ZArith NArith List Bool String Lia.
From DM Require Import Base.PyVal Spec.Nf Spec.Table Spec.Select Gen.KCheck Model.SelectRef Gen.KSelect Model.Select.
From DM Require Import Proofs.NfFacts Proofs.SelectFacts.
Import ListNotations.
Open Scope Z_scope.

(* ---------- CPython comparison (Model.SelectRef.py_op) versus Spec.Table.py_cmp *)
Lemma dy_cmp_antisym a b : dy_cmp b a = CompOpp (dy_cmp a b).
Proof. destruct a as [m1 e1], b as [m2 e2]. unfold dy_cmp. rewrite (Z.min_comm e2 e1). apply Z.compare_antisym. Qed.

Lemma num_cmp_antisym x y : num_cmp y x = match num_cmp x y with Some c => Some (CompOpp c) | None => None end.
Proof.
  unfold num_cmp.
  destruct x as [a|[|n|n|n m e]], y as [b|[|n'|n'|n' m' e']]; cbn -[dy_cmp Z.compare];
    try reflexivity; try (rewrite dy_cmp_antisym; reflexivity); try (rewrite Z.compare_antisym; reflexivity);
    try (destruct n; reflexivity); try (destruct n'; reflexivity); try (destruct n, n'; reflexivity).
Qed.

Lemma cmp_holds_num op x y :
  cmp_holds op (num_cmp x y) =
  match op with
  | CEq => num_eqb x y | CNe => negb (num_eqb x y)
  | CLt => num_ltb x y | CLe => num_leb x y
  | CGt => num_ltb y x | CGe => num_leb y x
  end.
Proof.
  unfold num_eqb, num_ltb, num_leb. rewrite (num_cmp_antisym x y).
  destruct op, (num_cmp x y) as [[]|]; reflexivity.
Qed.

Lemma str_eqb_compare s t : str_eqb s t = match String.compare s t with Eq => true | _ => false end.
Proof.
  unfold str_eqb. destruct (String.eqb_spec s t) as [->|Hn].
  - pose proof (String.compare_antisym t t) as H. destruct (String.compare t t); try reflexivity; discriminate H.
  - destruct (String.compare s t) eqn:E; try reflexivity. apply String.compare_eq_iff in E. contradiction.
Qed.

Lemma cmp_holds_str op s t :
  cmp_holds op (Some (str_cmp s t)) =
  match op with
  | CEq => str_eqb s t | CNe => negb (str_eqb s t)
  | CLt => str_ltb s t | CLe => str_leb s t
  | CGt => str_ltb t s | CGe => str_leb t s
  end.
Proof.
  unfold str_cmp, str_ltb, str_leb. rewrite str_eqb_compare. rewrite (String.compare_antisym t s).
  destruct op, (String.compare s t); reflexivity.
Qed.

(* try: op(cell, ref) except: no match   is py_cmp *)
Lemma swallow_py_op op c v : swallow (py_op op (pyv_of_val c) (pyv_of_val v)) = Ok (py_cmp op c v).
Proof.
  destruct c as [a|f|s|], v as [b|g|t|]; unfold py_op, py_cmp; cbn [pyv_of_val pyv_num val_num swallow];
    try (rewrite cmp_holds_num; reflexivity); try (rewrite cmp_holds_str; reflexivity);
    destruct op; reflexivity.
Qed.

Lemma py_eq_cmp k c v : py_eq (iter_obj k c) (pyv_of_val v) = py_cmp CEq c v.
Proof.
  destruct k, c as [a|f|s|], v as [b|g|t|]; reflexivity.
Qed.

(* ---------- loops *)
Lemma keep_where_total k (test : pyv -> res bool) (g : val -> bool) cells :
  (forall c, In c cells -> test (iter_obj k c) = Ok (g c)) ->
  forall i, keep_where k test i cells = Ok (positions_sat (fun _ c => g c) cells i).
Proof.
  induction cells as [|c r IH]; intros H i; [reflexivity|].
  cbn [keep_where positions_sat]. rewrite (H c (or_introl eq_refl)). cbn [bind].
  rewrite IH by (intros x Hx; apply H; right; exact Hx). cbn [bind]. destruct (g c); reflexivity.
Qed.

Lemma where_from_map (g : val -> bool) cells : forall i,
  where_from i (map g cells) = positions_sat (fun _ c => g c) cells i.
Proof. induction cells as [|c r IH]; intros i; cbn; [reflexivity|]. rewrite IH. reflexivity. Qed.

Lemma positions_sat_ext (f g : nat -> val -> bool) cells :
  (forall i c, In c cells -> f i c = g i c) -> forall i, positions_sat f cells i = positions_sat g cells i.
Proof.
  induction cells as [|c r IH]; intros H i; [reflexivity|]. cbn.
  rewrite (H i c (or_introl eq_refl)), IH by (intros j x Hx; apply H; right; exact Hx). reflexivity.
Qed.

Lemma positions_sat_all (f : nat -> val -> bool) cells :
  (forall i c, In c cells -> f i c = true) -> forall i, positions_sat f cells i = seq i (List.length cells).
Proof.
  induction cells as [|c r IH]; intros H i; [reflexivity|]. cbn.
  rewrite (H i c (or_introl eq_refl)), IH by (intros j x Hx; apply H; right; exact Hx). reflexivity.
Qed.

Lemma positions_sat_none (f : nat -> val -> bool) cells :
  (forall i c, In c cells -> f i c = false) -> forall i, positions_sat f cells i = [].
Proof.
  induction cells as [|c r IH]; intros H i; [reflexivity|]. cbn.
  rewrite (H i c (or_introl eq_refl)), IH by (intros j x Hx; apply H; right; exact Hx). reflexivity.
Qed.

(* ---------- cells of a column are normal forms of its type *)
Definition cell_of (k : kind) (c : val) : bool :=
  match k, c with
  | KMixed, _ => true
  | KFloat, VFlt _ => true
  | KInt, VInt _ => true
  | _, _ => false
  end.

(* the part of the reference domain on which the refinement is proved *)
Definition nonintegral (f : fl) : bool := match f with FFin _ _ _ => negb (fl_integral f) | _ => false end.
Definition proved_scalar (k : kind) (op : cmpop) (v : val) : bool :=
  if is_nan_val v then eq_or_ne op else
  match k, v with
  | KMixed, _ => true
  | KInt, VInt z => int64 z
  | KFloat, VFlt f => nonintegral f || (eq_or_ne op && fl_is_inf f)
  | _, _ => false
  end.
Definition proved_dom (k : kind) (op : cmpop) (r : ref) : bool :=
  match r with
  | RScalar v => proved_scalar k op v
  | RSeq _ => false
  | RSet _ | RPred _ => eq_or_ne op
  | RType t => eq_or_ne op
  end.

Lemma is_nan_iter k c : cell_of k c = true ->
  (is_float (iter_obj k c) && match iter_obj k c with PFloat f | PNpFloat _ f => fl_is_nan f | _ => false end)%bool
  = is_nan_val c.
Proof. destruct k, c as [a|[]|s|]; cbn; intros H; try discriminate; reflexivity. Qed.

Lemma nan_eq_test k c : cell_of k c = true ->
  bind (Ok (is_float (iter_obj k c))) (fun b_ => if b_ then b_isnan (iter_obj k c) else Ok false) = Ok (is_nan_val c).
Proof. destruct k, c as [a|[]|s|]; cbn; intros H; try discriminate; reflexivity. Qed.
Lemma nan_ne_test k c : cell_of k c = true ->
  bind (Ok (negb (is_float (iter_obj k c))))
       (fun b_ => if b_ then Ok true else bind (b_isnan (iter_obj k c)) (fun b_0 => Ok (negb b_0)))
  = Ok (negb (is_nan_val c)).
Proof. destruct k, c as [a|[]|s|]; cbn; intros H; try discriminate; reflexivity. Qed.

Lemma isinstance_iter k c t : cell_of k c = true -> k <> KInt ->
  py_isinstance (iter_obj k c) t = instance_of t c.
Proof. destruct k, c as [a|f|s|], t; cbn; intros H Hk; try discriminate; try reflexivity; contradiction. Qed.

Lemma pred_iter k c f : cell_of k c = true -> r_call (inj_ref (RPred f)) (iter_obj k c) = Ok (f c).
Proof. destruct k, c as [a|g|s|]; cbn; intros H; try discriminate; reflexivity. Qed.

Lemma cells_in k cells c : forallb (cell_of k) cells = true -> In c cells -> cell_of k c = true.
Proof. intros H Hin. rewrite forallb_forall in H. apply H. exact Hin. Qed.

(* ---------- BaseColumn._compare on the proved domain *)
Lemma base_compare_spec k cells op r :
  forallb (cell_of k) cells = true -> proved_dom k op r = true ->
  (k = KInt -> match r with RType _ => False | _ => True end) ->
  base_compare k cells (OpCmp op) (inj_ref r) = Ok (sel_positions op r cells).
Proof.
  intros Hc Hd Hint. unfold sel_positions. destruct r as [v|vs|vs|f|t]; cbn [proved_dom] in Hd; try discriminate.
  - (* scalar *)
    unfold proved_scalar in Hd. destruct (is_nan_val v) eqn:En.
    + destruct v as [a|[]|s|]; try discriminate En.
      assert (Hop : op = CEq \/ op = CNe) by (destruct op; try discriminate Hd; auto).
      unfold base_compare. cbn [inj_ref pyv_of_val]. unfold k_compare_dispatch. cbn -[keep_where k_compare_nan].
      destruct Hop as [-> | ->]; cbn -[keep_where].
      * rewrite (keep_where_total k _ is_nan_val) by (intros c Hin; apply nan_eq_test, (cells_in k cells); assumption).
        reflexivity.
      * rewrite (keep_where_total k _ (fun c => negb (is_nan_val c)))
          by (intros c Hin; apply nan_ne_test, (cells_in k cells); assumption).
        reflexivity.
    + assert (Hdisp : k_compare_dispatch (plen cells) (MVal (pyv_of_val v)) (OpCmp op) = Ok BVal).
      { destruct v as [a|[]|s|]; try discriminate En; reflexivity. }
      unfold base_compare. cbn [inj_ref]. rewrite Hdisp. cbn [bind r_val].
      assert (Hss : forall c, sat_scalar op c v = py_cmp op c v) by (intros c; unfold sat_scalar; rewrite En; reflexivity).
      destruct k.
      * rewrite (keep_where_total KMixed _ (fun c => py_cmp op c v)).
        -- apply f_equal, positions_sat_ext. intros i c _. cbn. rewrite Hss. reflexivity.
        -- intros c _. unfold k_compare_value_cell, py_mop. cbn [iter_obj]. apply swallow_py_op.
      * (* FloatColumn *)
        destruct v as [a|f|s|]; try discriminate Hd.
        assert (Hcase : nonintegral f = true \/ (eq_or_ne op = true /\ fl_is_inf f = true)).
        { apply orb_prop in Hd as [H|H]; [left; exact H|right; apply andb_prop in H; exact H]. }
        assert (Hck : checktype_of KFloat (PFloat f) = Ok (PFloat f)).
        { unfold checktype_of, k_numeric_checktype, k_base_checktype_self, k_base_checktype, k_checktype_regular.
          destruct f as [|n|n|n m e]; try discriminate En.
          - reflexivity.
          - destruct Hcase as [H|[_ H]]; discriminate H.
          - destruct Hcase as [H|[_ H]]; [|discriminate H].
            cbn -[fl_trunc num_eqb fl_integral]. rewrite trunc_eq_integral.
            unfold nonintegral in H. apply negb_true_iff in H. rewrite H. reflexivity. }
        unfold k_numeric_compare_value. cbn [pyv_of_val]. rewrite Hck. cbn [bind].
        assert (Hcell : forall o c, In c cells -> np_cmp_cell KFloat (OpCmp o) c (PFloat f) = py_cmp o c (VFlt f)).
        { intros o c Hin. pose proof (cells_in _ _ c Hc Hin) as Hcc. destruct c as [a|g|s|]; try discriminate Hcc.
          unfold np_cmp_cell, py_cmp. cbn [val_num np_operand pyv_num]. apply cmp_holds_num. }
        assert (Hfin : forall o, v_where (v_cmp KFloat (OpCmp o) cells (PFloat f))
                                 = positions_sat (sat_at o (RScalar (VFlt f))) cells 0).
        { intros o. unfold v_where, v_cmp. rewrite where_from_map. apply positions_sat_ext. intros i c Hin.
          rewrite Hcell by exact Hin. cbn [sat_at]. unfold sat_scalar. rewrite En. reflexivity. }
        destruct f as [|n|n|n m e]; try discriminate En.
        -- destruct Hcase as [H|[Hop _]]; [discriminate H|].
           destruct op; try discriminate Hop; cbn -[v_cmp v_where]; rewrite Hfin; reflexivity.
        -- destruct Hcase as [H|[_ H]]; discriminate H.
        -- cbn -[v_cmp v_where]. rewrite Hfin. reflexivity.
      * (* IntColumn *)
        destruct v as [z|f|s|]; try discriminate Hd.
        unfold k_numeric_compare_value. cbn [checktype_of k_int_checktype pyv_of_val is_int bind].
        assert (Hok : np_scalar_ok (PInt z) = true).
        { unfold int64 in Hd. unfold np_scalar_ok. apply andb_prop in Hd as [H1 H2]. rewrite H1. cbn.
          apply Z.ltb_lt in H2. apply Z.ltb_lt. lia. }
        cbn [b_isnan b_isinf bind]. unfold v_where, v_cmp. rewrite where_from_map.
        apply f_equal, positions_sat_ext. intros i c Hin. cbn [sat_at]. rewrite Hss.
        pose proof (cells_in _ _ c Hc Hin) as Hcc. destruct c as [a|g|s|]; try discriminate Hcc.
        unfold np_cmp_cell, py_cmp. cbn [val_num np_operand pyv_num]. apply cmp_holds_num.
  - (* set *)
    assert (Hop : op = CEq \/ op = CNe) by (destruct op; try discriminate Hd; auto).
    unfold base_compare. cbn [inj_ref]. unfold k_compare_dispatch. cbn -[keep_where k_compare_set].
    destruct Hop as [-> | ->]; cbn -[keep_where].
    + rewrite (keep_where_total k _ (fun c => existsb (fun v => py_cmp CEq c v) vs)); [reflexivity|].
      intros c _. cbn. f_equal. induction vs as [|v vs IH]; [reflexivity|]. cbn. rewrite py_eq_cmp, IH. reflexivity.
    + rewrite (keep_where_total k _ (fun c => forallb (fun v => py_cmp CNe c v) vs)); [reflexivity|].
      intros c _. cbn. f_equal. induction vs as [|v vs IH]; [reflexivity|]. cbn. rewrite py_eq_cmp, IH. f_equal.
      destruct c as [a|g|s|], v as [b|h|t|]; reflexivity.
  - (* predicate *)
    assert (Hop : op = CEq \/ op = CNe) by (destruct op; try discriminate Hd; auto).
    unfold base_compare. cbn [inj_ref]. unfold k_compare_dispatch. cbn -[keep_where k_compare_function r_call].
    destruct Hop as [-> | ->]; cbn -[keep_where r_call].
    + rewrite (keep_where_total k _ f); [reflexivity|].
      intros c Hin. pose proof (pred_iter k c f (cells_in k cells c Hc Hin)) as Hp. cbn [inj_ref] in Hp. exact Hp.
    + rewrite (keep_where_total k _ (fun c => negb (f c))); [reflexivity|].
      intros c Hin. pose proof (pred_iter k c f (cells_in k cells c Hc Hin)) as Hp. cbn [inj_ref] in Hp.
      rewrite Hp. reflexivity.
  - (* type *)
    assert (Hk : k <> KInt) by (intros ->; apply (Hint eq_refl)).
    assert (Hop : op = CEq \/ op = CNe) by (destruct op; try discriminate Hd; auto).
    unfold base_compare. cbn [inj_ref]. unfold k_compare_dispatch. cbn -[keep_where k_compare_type].
    destruct Hop as [-> | ->]; cbn -[keep_where].
    + rewrite (keep_where_total k _ (instance_of t)); [reflexivity|].
      intros c Hin. rewrite isinstance_iter by (try apply (cells_in k cells); assumption). reflexivity.
    + rewrite (keep_where_total k _ (fun c => negb (instance_of t c))); [reflexivity|].
      intros c Hin. rewrite isinstance_iter by (try apply (cells_in k cells); assumption). reflexivity.
Qed.

Lemma issequence_nonseq n r :
  match r with RSeq _ | RType _ => False | _ => True end -> k_issequence n (inj_ref r) = Ok false.
Proof.
  destruct r as [v|vs|vs|f|t]; intros H; try contradiction; try reflexivity.
  destruct v; reflexivity.
Qed.

Lemma int_cells_type cells t :
  forallb (cell_of KInt) cells = true ->
  sel_positions CEq (RType t) cells
  = match t with TInt | TObject => seq 0 (List.length cells) | _ => [] end
  /\ sel_positions CNe (RType t) cells
  = match t with TInt | TObject => [] | _ => seq 0 (List.length cells) end.
Proof.
  intros Hc. unfold sel_positions.
  assert (Hi : forall c, In c cells -> exists z, c = VInt z).
  { intros c Hin. pose proof (cells_in _ _ c Hc Hin) as H. destruct c; try discriminate H. eexists; reflexivity. }
  destruct t; split;
    first [ apply positions_sat_all; intros i c Hin; destruct (Hi c Hin) as [z ->]; reflexivity
          | apply positions_sat_none; intros i c Hin; destruct (Hi c Hin) as [z ->]; reflexivity ].
Qed.

(* L1 = L0 on the proved part of the reference domain.  _partial: sequence references, integer-valued
   references of a FloatColumn and float references of an IntColumn are inside Spec.Select.in_domain
   but not covered here (they need the exactness of float(int) below 2^53, Base.round53); for those the
   model is tied to the implementation and the implementation to L0 by the generated cases only. *)
Theorem compare_refines_partial k cells op r :
  forallb (cell_of k) cells = true -> proved_dom k op r = true ->
  compare k cells op (inj_ref r) = Ok (sel_positions op r cells).
Proof.
  intros Hc Hd.
  assert (Hgen : (k = KInt -> match r with RType _ => False | _ => True end) ->
                 base_compare k cells (OpCmp op) (inj_ref r) = Ok (sel_positions op r cells))
    by (apply base_compare_spec; assumption).
  assert (Hnoseq : match r with RSeq _ => False | _ => True end) by (destruct r; try exact I; discriminate Hd).
  unfold compare.
  destruct k; try (apply Hgen; intros E; discriminate E).
  destruct op; try (apply Hgen; intros _; destruct r; try exact I; discriminate Hd).
  - (* IntColumn.__eq__ *)
    unfold k_int_eq. destruct r as [v|vs|vs|f|t]; try contradiction.
    + cbn [inj_ref r_is_type]. rewrite (issequence_nonseq _ (RScalar v) I). cbn [bind]. cbn [inj_ref] in Hgen.
      rewrite Hgen by (intros _; exact I). reflexivity.
    + cbn [inj_ref r_is_type]. rewrite (issequence_nonseq _ (RSet vs) I). cbn [bind]. cbn [inj_ref] in Hgen.
      rewrite Hgen by (intros _; exact I). reflexivity.
    + change (r_is_type (inj_ref (RPred f))) with false. cbv iota.
      rewrite (issequence_nonseq _ (RPred f) I). cbn [bind].
      rewrite Hgen by (intros _; exact I). reflexivity.
    + cbn [inj_ref r_is_type r_type_accepts_int]. destruct (int_cells_type cells t Hc) as [E _]. rewrite E.
      destruct t; reflexivity.
  - (* IntColumn.__ne__ *)
    unfold k_int_ne. destruct r as [v|vs|vs|f|t]; try contradiction.
    + cbn [inj_ref r_is_type]. rewrite (issequence_nonseq _ (RScalar v) I). cbn [bind]. cbn [inj_ref] in Hgen.
      rewrite Hgen by (intros _; exact I). reflexivity.
    + cbn [inj_ref r_is_type]. rewrite (issequence_nonseq _ (RSet vs) I). cbn [bind]. cbn [inj_ref] in Hgen.
      rewrite Hgen by (intros _; exact I). reflexivity.
    + change (r_is_type (inj_ref (RPred f))) with false. cbv iota.
      rewrite (issequence_nonseq _ (RPred f) I). cbn [bind].
      rewrite Hgen by (intros _; exact I). reflexivity.
    + cbn [inj_ref r_is_type r_type_accepts_int]. destruct (int_cells_type cells t Hc) as [_ E]. rewrite E.
      destruct t; reflexivity.
Qed.

