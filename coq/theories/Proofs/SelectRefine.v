(* C02 proofs, part 2: the L1 model (Model.Select.compare, built from the kernels regenerated
   from the source) computes the L0 selection (Spec.Select.sel_positions). *)
From Coq Require Import ZArith NArith List Bool String Lia.
From DM Require Import Base.PyVal Spec.Nf Spec.Table Spec.Select Gen.KCheck Model.SelectRef Gen.KSelect Model.Select.
From DM Require Import Proofs.NfFacts Proofs.SelectFacts Proofs.SelectNum.
Import ListNotations.
Open Scope Z_scope.

(* ---------- CPython comparison (Model.SelectRef.py_op) versus Spec.Table.py_cmp *)
Lemma dy_cmp_antisym a b : dy_cmp b a = CompOpp (dy_cmp a b).
Proof. destruct a as [m1 e1], b as [m2 e2]. unfold dy_cmp. rewrite (Z.min_comm e2 e1). apply Z.compare_antisym. Qed.

Lemma num_cmp_antisym x y : num_cmp y x = match num_cmp x y with Some c => Some (CompOpp c) | None => None end.
Proof.
  unfold num_cmp.
  destruct x as [a|[|n|n|n m e]], y as [b|[|n'|n'|n' m' e']]; cbn -[dy_cmp Z.compare];
    try reflexivity; try (rewrite dy_cmp_antisym; reflexivity); try (rewrite Z.compare_antisym; reflexivity);
    try (destruct n; reflexivity); try (destruct n'; reflexivity); try (destruct n, n'; reflexivity).
Qed.

Lemma cmp_holds_num op x y :
  cmp_holds op (num_cmp x y) =
  match op with
  | CEq => num_eqb x y | CNe => negb (num_eqb x y)
  | CLt => num_ltb x y | CLe => num_leb x y
  | CGt => num_ltb y x | CGe => num_leb y x
  end.
Proof.
  unfold num_eqb, num_ltb, num_leb. rewrite (num_cmp_antisym x y).
  destruct op, (num_cmp x y) as [[]|]; reflexivity.
Qed.

Lemma str_eqb_compare s t : str_eqb s t = match String.compare s t with Eq => true | _ => false end.
Proof.
  unfold str_eqb. destruct (String.eqb_spec s t) as [->|Hn].
  - pose proof (String.compare_antisym t t) as H. destruct (String.compare t t); try reflexivity; discriminate H.
  - destruct (String.compare s t) eqn:E; try reflexivity. apply String.compare_eq_iff in E. contradiction.
Qed.

Lemma cmp_holds_str op s t :
  cmp_holds op (Some (str_cmp s t)) =
  match op with
  | CEq => str_eqb s t | CNe => negb (str_eqb s t)
  | CLt => str_ltb s t | CLe => str_leb s t
  | CGt => str_ltb t s | CGe => str_leb t s
  end.
Proof.
  unfold str_cmp, str_ltb, str_leb. rewrite str_eqb_compare. rewrite (String.compare_antisym t s).
  destruct op, (String.compare s t); reflexivity.
Qed.

(* try: op(cell, ref) except: no match   is py_cmp *)
Lemma swallow_py_op op c v : swallow (py_op op (pyv_of_val c) (pyv_of_val v)) = Ok (py_cmp op c v).
Proof.
  destruct c as [a|f|s|], v as [b|g|t|]; unfold py_op, py_cmp; cbn [pyv_of_val pyv_num val_num swallow];
    try (rewrite cmp_holds_num; reflexivity); try (rewrite cmp_holds_str; reflexivity);
    destruct op; reflexivity.
Qed.

Lemma py_eq_cmp k c v : py_eq (iter_obj k c) (pyv_of_val v) = py_cmp CEq c v.
Proof.
  destruct k, c as [a|f|s|], v as [b|g|t|]; reflexivity.
Qed.

(* ---------- loops *)
Lemma keep_where_total k (test : pyv -> res bool) (g : val -> bool) cells :
  (forall c, In c cells -> test (iter_obj k c) = Ok (g c)) ->
  forall i, keep_where k test i cells = Ok (positions_sat (fun _ c => g c) cells i).
Proof.
  induction cells as [|c r IH]; intros H i; [reflexivity|].
  cbn [keep_where positions_sat]. rewrite (H c (or_introl eq_refl)). cbn [bind].
  rewrite IH by (intros x Hx; apply H; right; exact Hx). cbn [bind]. destruct (g c); reflexivity.
Qed.

Lemma where_from_map (g : val -> bool) cells : forall i,
  where_from i (map g cells) = positions_sat (fun _ c => g c) cells i.
Proof. induction cells as [|c r IH]; intros i; cbn; [reflexivity|]. rewrite IH. reflexivity. Qed.

Lemma positions_sat_ext (f g : nat -> val -> bool) cells :
  (forall i c, In c cells -> f i c = g i c) -> forall i, positions_sat f cells i = positions_sat g cells i.
Proof.
  induction cells as [|c r IH]; intros H i; [reflexivity|]. cbn.
  rewrite (H i c (or_introl eq_refl)), IH by (intros j x Hx; apply H; right; exact Hx). reflexivity.
Qed.

Lemma positions_sat_all (f : nat -> val -> bool) cells :
  (forall i c, In c cells -> f i c = true) -> forall i, positions_sat f cells i = seq i (List.length cells).
Proof.
  induction cells as [|c r IH]; intros H i; [reflexivity|]. cbn.
  rewrite (H i c (or_introl eq_refl)), IH by (intros j x Hx; apply H; right; exact Hx). reflexivity.
Qed.

Lemma positions_sat_none (f : nat -> val -> bool) cells :
  (forall i c, In c cells -> f i c = false) -> forall i, positions_sat f cells i = [].
Proof.
  induction cells as [|c r IH]; intros H i; [reflexivity|]. cbn.
  rewrite (H i c (or_introl eq_refl)), IH by (intros j x Hx; apply H; right; exact Hx). reflexivity.
Qed.

(* ---------- the part of the reference domain on which the refinement is proved.
   It contains Spec.Select.in_domain (lemma in_domain_proved below, for references whose floats are
   binary64 values) and is about the MODEL: where it is wider than in_domain (e.g. integers beyond int64)
   the model is not claimed to mirror NumPy. *)
Definition nonintegral (f : fl) : bool := match f with FFin _ _ _ => negb (fl_integral f) | _ => false end.
Definition integral_fin (f : fl) : bool := fl_is_finite f && fl_integral f.
(* cell_of, val_wf, ref_wf: Model/Select.v *)

(* an element of a sequence reference (and a scalar that _checktype turns into a Python int) *)
Definition proved_elem (k : kind) (v : val) : bool :=
  match k, v with
  | KMixed, _ => true
  | KFloat, VInt z => small z
  | KFloat, VFlt f => negb (integral_fin f) || fl_wf f
  | KFloat, _ => true
  | KInt, VInt _ => true
  | KInt, VFlt f => integral_fin f
  | KInt, _ => false
  end.
(* scalars handled by BaseColumn._compare itself *)
Definition proved_scalar_base (k : kind) (op : cmpop) (v : val) : bool :=
  if is_nan_val v then eq_or_ne op else
  match k, v with
  | KMixed, _ => true
  | KInt, VInt z => int64 z
  | KInt, VFlt f => integral_fin f
  | KFloat, VInt z => small z
  | KFloat, VFlt f => nonintegral f || (integral_fin f && fl_wf f) || (eq_or_ne op && fl_is_inf f)
  | _, _ => false
  end.
(* scalars that make NumericColumn._compare_value raise TypeError, caught by IntColumn.__eq__ / __ne__ *)
Definition int_fallback (k : kind) (op : cmpop) (v : val) : bool :=
  match k with
  | KInt => eq_or_ne op && (is_inf_val v || match v with VNone => true | _ => false end)
  | _ => false
  end.
Definition proved_scalar (k : kind) (op : cmpop) (v : val) : bool :=
  proved_scalar_base k op v || int_fallback k op v.
Definition proved_dom (k : kind) (op : cmpop) (r : ref) (n : nat) : bool :=
  match r with
  | RScalar v => proved_scalar k op v
  | RSeq vs => Nat.eqb (List.length vs) n && forallb (proved_elem k) vs
  | RSet _ | RPred _ => eq_or_ne op
  | RType t => eq_or_ne op
  end.

Lemma is_nan_iter k c : cell_of k c = true ->
  (is_float (iter_obj k c) && match iter_obj k c with PFloat f | PNpFloat _ f => fl_is_nan f | _ => false end)%bool
  = is_nan_val c.
Proof. destruct k, c as [a|[]|s|]; cbn; intros H; try discriminate; reflexivity. Qed.

Lemma nan_eq_test k c : cell_of k c = true ->
  bind (Ok (is_float (iter_obj k c))) (fun b_ => if b_ then b_isnan (iter_obj k c) else Ok false) = Ok (is_nan_val c).
Proof. destruct k, c as [a|[]|s|]; cbn; intros H; try discriminate; reflexivity. Qed.
Lemma nan_ne_test k c : cell_of k c = true ->
  bind (Ok (negb (is_float (iter_obj k c))))
       (fun b_ => if b_ then Ok true else bind (b_isnan (iter_obj k c)) (fun b_0 => Ok (negb b_0)))
  = Ok (negb (is_nan_val c)).
Proof. destruct k, c as [a|[]|s|]; cbn; intros H; try discriminate; reflexivity. Qed.

Lemma isinstance_iter k c t : cell_of k c = true -> k <> KInt ->
  py_isinstance (iter_obj k c) t = instance_of t c.
Proof. destruct k, c as [a|f|s|], t; cbn; intros H Hk; try discriminate; try reflexivity; contradiction. Qed.

Lemma pred_iter k c f : cell_of k c = true -> r_call (inj_ref (RPred f)) (iter_obj k c) = Ok (f c).
Proof. destruct k, c as [a|g|s|]; cbn; intros H; try discriminate; reflexivity. Qed.

Lemma cells_in k cells c : forallb (cell_of k) cells = true -> In c cells -> cell_of k c = true.
Proof. intros H Hin. rewrite forallb_forall in H. apply H. exact Hin. Qed.

(* ---------- what column._checktype makes of a reference value: an integral float becomes a Python int
   (int(f) == f), text / None become NaN for a FloatColumn *)
Definition checked (k : kind) (v : val) : pyv :=
  match v with
  | VFlt f => if integral_fin f then PInt (fl_trunc f) else PFloat f
  | VInt z => PInt z
  | _ => match k with KFloat => PFloat FNan | _ => pyv_of_val v end
  end.

Lemma checktype_checked k v : proved_elem k v = true -> checktype_of k (pyv_of_val v) = Ok (checked k v).
Proof.
  unfold checktype_of, k_numeric_checktype, k_base_checktype_self, k_base_checktype, k_checktype_regular, k_int_checktype,
    checked, integral_fin, nan.
  destruct k, v as [z|f|s|]; intros H; try discriminate H; try reflexivity;
    destruct f as [|n|n|n m e]; try discriminate H;
    cbn -[fl_trunc num_eqb fl_integral]; try reflexivity;
    try (rewrite trunc_eq_integral; destruct (fl_integral (FFin n m e)); reflexivity).
  cbn [proved_elem integral_fin fl_is_finite andb] in H. rewrite H. reflexivity.
Qed.

(* Python / NumPy comparison of a cell with a checked reference value is py_cmp with the value itself *)
Lemma py_cmp_num op c v x y : val_num c = Some x -> val_num v = Some y -> py_cmp op c v = cmp_holds op (num_cmp x y).
Proof. intros Hc Hv. unfold py_cmp. rewrite Hc, Hv. symmetry. apply cmp_holds_num. Qed.

Lemma py_cmp_trunc op c f : integral_fin f = true -> py_cmp op c (VInt (fl_trunc f)) = py_cmp op c (VFlt f).
Proof.
  unfold integral_fin. intros H. apply andb_prop in H as [Hf Hi].
  destruct c as [a|g|s|]; try reflexivity.
  - rewrite (py_cmp_num op (VInt a) (VInt (fl_trunc f)) (NInt a) (NInt (fl_trunc f))) by reflexivity.
    rewrite (py_cmp_num op (VInt a) (VFlt f) (NInt a) (NFlt f)) by reflexivity.
    rewrite num_cmp_trunc by assumption. reflexivity.
  - rewrite (py_cmp_num op (VFlt g) (VInt (fl_trunc f)) (NFlt g) (NInt (fl_trunc f))) by reflexivity.
    rewrite (py_cmp_num op (VFlt g) (VFlt f) (NFlt g) (NFlt f)) by reflexivity.
    rewrite num_cmp_trunc by assumption. reflexivity.
Qed.

Lemma small_bounds z : small z = true -> (- 2 ^ 53 <= z <= 2 ^ 53)%Z.
Proof. unfold small. intros H. apply andb_prop in H as [H1 H2]. apply Z.leb_le in H1, H2. lia. Qed.

(* try: op(cell, checked reference) except: no match *)
Lemma swallow_checked op c v :
  swallow (py_op op (pyv_of_val c) (checked KMixed v)) = Ok (py_cmp op c v).
Proof.
  destruct v as [z|f|s|].
  - apply (swallow_py_op op c (VInt z)).
  - unfold checked. destruct (integral_fin f) eqn:E; [|apply (swallow_py_op op c (VFlt f))].
    rewrite <- (py_cmp_trunc op c f E). apply (swallow_py_op op c (VInt (fl_trunc f))).
  - apply (swallow_py_op op c (VStr s)).
  - apply (swallow_py_op op c VNone).
Qed.

(* element-wise NumPy comparison of a numeric cell with a checked reference value *)
Lemma np_cmp_checked k op c v : k <> KMixed -> cell_of k c = true -> proved_elem k v = true ->
  np_cmp_cell k (OpCmp op) c (checked k v) = py_cmp op c v.
Proof.
  intros Hk Hc Hv. destruct k; [contradiction| |].
  - (* float64 array *)
    destruct c as [a|g|s|]; try discriminate Hc.
    destruct v as [z|f|s|]; cbn [proved_elem] in Hv.
    + unfold np_cmp_cell, checked. cbn [val_num np_operand pyv_num].
      rewrite num_cmp_round53_small by (apply small_bounds; exact Hv).
      symmetry. apply py_cmp_num; reflexivity.
    + unfold checked. destruct (integral_fin f) eqn:E.
      * cbn [negb orb] in Hv. unfold integral_fin in E. apply andb_prop in E as [Ef Ei].
        unfold np_cmp_cell. cbn [val_num np_operand pyv_num].
        rewrite num_cmp_round53_trunc by assumption. symmetry. apply py_cmp_num; reflexivity.
      * unfold np_cmp_cell. cbn [val_num np_operand pyv_num]. symmetry. apply py_cmp_num; reflexivity.
    + destruct g, op; reflexivity.
    + destruct g, op; reflexivity.
  - (* int64 array *)
    destruct c as [a|g|s|]; try discriminate Hc.
    destruct v as [z|f|s|]; cbn [proved_elem] in Hv; try discriminate Hv.
    + unfold np_cmp_cell, checked. cbn [val_num np_operand pyv_num]. symmetry. apply py_cmp_num; reflexivity.
    + unfold checked. rewrite Hv. rewrite <- (py_cmp_trunc op (VInt a) f Hv).
      unfold np_cmp_cell. cbn [val_num np_operand pyv_num]. symmetry. apply py_cmp_num; reflexivity.
Qed.

(* ---------- loops over two zipped sequences *)
Lemma map_res_map (f : pyv -> res pyv) (g : val -> pyv) (h : val -> pyv) vs :
  (forall v, In v vs -> f (g v) = Ok (h v)) -> map_res f (map g vs) = Ok (map h vs).
Proof.
  induction vs as [|v vs IH]; intros H; [reflexivity|]. cbn [map map_res].
  rewrite (H v (or_introl eq_refl)). cbn [bind]. rewrite IH by (intros x Hx; apply H; right; exact Hx). reflexivity.
Qed.

Lemma tosequence_checked k (cells : list val) vs :
  List.length vs = List.length cells -> forallb (proved_elem k) vs = true ->
  tosequence k (List.length cells) (map pyv_of_val vs) = Ok (map (checked k) vs).
Proof.
  intros Hl Hv. unfold tosequence, base_tosequence.
  rewrite firstn_all2 by (rewrite map_length; lia).
  rewrite (map_res_map _ pyv_of_val (checked k)).
  - cbn [bind]. rewrite map_length, Hl, Nat.eqb_refl. reflexivity.
  - intros v Hin. apply checktype_checked. rewrite forallb_forall in Hv. apply Hv. exact Hin.
Qed.

Definition seq_sat (g : val -> val -> bool) (vs : list val) (j : nat) (c : val) : bool :=
  match nth_error vs j with Some v => g c v | None => false end.

Lemma keep_where2_spec k (test : pyv -> pyv -> res bool) (g : val -> val -> bool) (h : val -> pyv) :
  forall cells vs pre, List.length vs = List.length cells ->
  (forall c v, In c cells -> In v vs -> test (iter_obj k c) (h v) = Ok (g c v)) ->
  keep_where2 k test (List.length pre) cells (map h vs)
  = Ok (positions_sat (seq_sat g (pre ++ vs)) cells (List.length pre)).
Proof.
  induction cells as [|c r IH]; intros [|v s] pre Hl H; try discriminate Hl; [reflexivity|].
  cbn [map keep_where2 positions_sat]. rewrite (H c v (or_introl eq_refl) (or_introl eq_refl)). cbn [bind].
  specialize (IH s (pre ++ [v])). rewrite app_length in IH. cbn [List.length] in IH.
  rewrite Nat.add_1_r, <- app_assoc in IH. cbn [app] in IH.
  rewrite IH; [|cbn in Hl; lia|intros x y Hx Hy; apply H; right; assumption]. cbn [bind].
  assert (E : seq_sat g (pre ++ v :: s) (List.length pre) c = g c v).
  { unfold seq_sat. rewrite nth_error_app2 by lia. rewrite Nat.sub_diag. reflexivity. }
  rewrite E. reflexivity.
Qed.

Lemma v_cmp_seq_spec k op (g : val -> val -> bool) (h : val -> pyv) :
  forall cells vs pre, List.length vs = List.length cells ->
  (forall c v, In c cells -> In v vs -> np_cmp_cell k op c (h v) = g c v) ->
  where_from (List.length pre) (v_cmp_seq k op cells (map h vs))
  = positions_sat (seq_sat g (pre ++ vs)) cells (List.length pre).
Proof.
  induction cells as [|c r IH]; intros [|v s] pre Hl H; try discriminate Hl; [reflexivity|].
  cbn [map v_cmp_seq where_from positions_sat]. rewrite (H c v (or_introl eq_refl) (or_introl eq_refl)).
  specialize (IH s (pre ++ [v])). rewrite app_length in IH. cbn [List.length] in IH.
  rewrite Nat.add_1_r, <- app_assoc in IH. cbn [app] in IH.
  rewrite IH; [|cbn in Hl; lia|intros x y Hx Hy; apply H; right; assumption].
  assert (E : seq_sat g (pre ++ v :: s) (List.length pre) c = g c v).
  { unfold seq_sat. rewrite nth_error_app2 by lia. rewrite Nat.sub_diag. reflexivity. }
  rewrite E. reflexivity.
Qed.

(* ---------- `other` is a list / tuple: _issequence and the dispatch chain *)
Lemma issequence_seq cells vs :
  k_issequence (plen cells) (MSeq (map pyv_of_val vs))
  = if Nat.eqb (List.length vs) (List.length cells) then Ok true else Raise TypeError.
Proof.
  unfold k_issequence, plen. cbn [r_is_set r_is_basestring r_has_len r_len orb negb].
  rewrite py_eq_int, map_length.
  destruct (Nat.eqb_spec (List.length vs) (List.length cells)) as [->|Hn].
  - rewrite Z.eqb_refl. reflexivity.
  - assert (E : (Z.of_nat (List.length vs) =? Z.of_nat (List.length cells))%Z = false) by (apply Z.eqb_neq; lia).
    rewrite E. reflexivity.
Qed.

Lemma dispatch_seq cells vs op :
  k_compare_dispatch (plen cells) (MSeq (map pyv_of_val vs)) op
  = if Nat.eqb (List.length vs) (List.length cells) then Ok BSeq else Raise TypeError.
Proof.
  unfold k_compare_dispatch. cbn [r_is_float r_is_type r_is_set r_is_function bind]. rewrite issequence_seq.
  destruct (Nat.eqb (List.length vs) (List.length cells)); reflexivity.
Qed.

(* BaseColumn._compare_sequence / NumericColumn._compare_sequence *)
Lemma base_compare_seq k cells op vs :
  forallb (cell_of k) cells = true -> List.length vs = List.length cells -> forallb (proved_elem k) vs = true ->
  base_compare k cells (OpCmp op) (inj_ref (RSeq vs)) = Ok (sel_positions op (RSeq vs) cells).
Proof.
  intros Hc Hl Hv. unfold base_compare. cbn [inj_ref]. rewrite dispatch_seq, Hl, Nat.eqb_refl. cbn [bind r_items].
  assert (Hsel : sel_positions op (RSeq vs) cells = positions_sat (seq_sat (py_cmp op) ([] ++ vs)) cells (List.length (@nil val)))
    by reflexivity.
  rewrite Hsel. destruct k.
  - rewrite tosequence_checked by assumption. cbn [bind].
    apply (keep_where2_spec KMixed _ (py_cmp op) (checked KMixed) cells vs [] Hl).
    intros c v _ _. unfold k_compare_sequence_cell, py_mop. cbn [iter_obj]. apply swallow_checked.
  - unfold k_numeric_compare_sequence. rewrite tosequence_checked by assumption. cbn [bind]. f_equal.
    apply (v_cmp_seq_spec KFloat (OpCmp op) (py_cmp op) (checked KFloat) cells vs [] Hl).
    intros c v Hin Hinv. apply np_cmp_checked; [discriminate|apply (cells_in KFloat cells); assumption|].
    rewrite forallb_forall in Hv. apply Hv. exact Hinv.
  - unfold k_numeric_compare_sequence. rewrite tosequence_checked by assumption. cbn [bind]. f_equal.
    apply (v_cmp_seq_spec KInt (OpCmp op) (py_cmp op) (checked KInt) cells vs [] Hl).
    intros c v Hin Hinv. apply np_cmp_checked; [discriminate|apply (cells_in KInt cells); assumption|].
    rewrite forallb_forall in Hv. apply Hv. exact Hinv.
Qed.

(* NumericColumn._compare_value on a reference that _checktype turns into a Python int *)
Lemma numeric_value_int k cells op v t :
  k <> KMixed -> forallb (cell_of k) cells = true -> proved_elem k v = true -> checked k v = PInt t ->
  k_numeric_compare_value k (checktype_of k) cells (pyv_of_val v) (OpCmp op)
  = Ok (positions_sat (fun _ c => py_cmp op c v) cells 0).
Proof.
  intros Hk Hc Hv Ht. unfold k_numeric_compare_value. rewrite checktype_checked by exact Hv. rewrite Ht.
  cbn [bind b_isnan b_isinf]. unfold v_where, v_cmp. rewrite where_from_map. f_equal.
  apply positions_sat_ext. intros i c Hin. rewrite <- Ht.
  apply np_cmp_checked; [exact Hk|apply (cells_in k cells); assumption|exact Hv].
Qed.

(* ---------- BaseColumn._compare on the proved domain *)
Lemma base_compare_spec k cells op r :
  forallb (cell_of k) cells = true ->
  match r with
  | RScalar v => proved_scalar_base k op v
  | _ => proved_dom k op r (List.length cells)
  end = true ->
  (k = KInt -> match r with RType _ => False | _ => True end) ->
  base_compare k cells (OpCmp op) (inj_ref r) = Ok (sel_positions op r cells).
Proof.
  intros Hc Hd Hint. destruct r as [v|vs|vs|f|t]; cbn [proved_dom] in Hd.
  2:{ apply andb_prop in Hd as [Hl Hv]. apply Nat.eqb_eq in Hl. apply base_compare_seq; assumption. }
  all: unfold sel_positions.
  - (* scalar *)
    unfold proved_scalar_base in Hd. destruct (is_nan_val v) eqn:En.
    + destruct v as [a|[]|s|]; try discriminate En.
      assert (Hop : op = CEq \/ op = CNe) by (destruct op; try discriminate Hd; auto).
      unfold base_compare. cbn [inj_ref pyv_of_val]. unfold k_compare_dispatch. cbn -[keep_where k_compare_nan].
      destruct Hop as [-> | ->]; cbn -[keep_where].
      * rewrite (keep_where_total k _ is_nan_val) by (intros c Hin; apply nan_eq_test, (cells_in k cells); assumption).
        reflexivity.
      * rewrite (keep_where_total k _ (fun c => negb (is_nan_val c)))
          by (intros c Hin; apply nan_ne_test, (cells_in k cells); assumption).
        reflexivity.
    + assert (Hdisp : k_compare_dispatch (plen cells) (MVal (pyv_of_val v)) (OpCmp op) = Ok BVal).
      { destruct v as [a|[]|s|]; try discriminate En; reflexivity. }
      unfold base_compare. cbn [inj_ref]. rewrite Hdisp. cbn [bind r_val].
      assert (Hss : forall c, sat_scalar op c v = py_cmp op c v) by (intros c; unfold sat_scalar; rewrite En; reflexivity).
      assert (Hsat : positions_sat (fun _ c => py_cmp op c v) cells 0 = positions_sat (sat_at op (RScalar v)) cells 0).
      { apply positions_sat_ext. intros i c _. cbn [sat_at]. rewrite Hss. reflexivity. }
      destruct k.
      * rewrite (keep_where_total KMixed _ (fun c => py_cmp op c v)).
        -- rewrite Hsat. reflexivity.
        -- intros c _. unfold k_compare_value_cell, py_mop. cbn [iter_obj]. apply swallow_py_op.
      * (* FloatColumn *)
        destruct v as [a|f|s|]; try discriminate Hd.
        { (* an int up to 2^53: float(int) is exact *)
          rewrite <- Hsat. apply (numeric_value_int KFloat cells op (VInt a) a); [discriminate|exact Hc|exact Hd|reflexivity]. }
        destruct (integral_fin f) eqn:Eint.
        { (* an integral float: _checktype makes it int(f), NumPy converts that back: exact *)
          assert (Hw : fl_wf f = true).
          { unfold nonintegral, integral_fin in *. destruct f as [|n|n|n m e]; try discriminate Eint; try reflexivity.
            cbn [fl_is_finite andb] in Eint. rewrite Eint in Hd. cbn [negb orb andb fl_is_inf] in Hd.
            rewrite andb_false_r, orb_false_r in Hd. exact Hd. }
          rewrite <- Hsat. apply (numeric_value_int KFloat cells op (VFlt f) (fl_trunc f)); [discriminate|exact Hc| |].
          - cbn [proved_elem]. rewrite Hw. apply orb_true_r.
          - unfold checked. rewrite Eint. reflexivity. }
        assert (Hcase : nonintegral f = true \/ (eq_or_ne op = true /\ fl_is_inf f = true)).
        { rewrite andb_false_l, orb_false_r in Hd. apply orb_prop in Hd as [H|H]; [left; exact H|right; apply andb_prop in H; exact H]. }
        assert (Hck : checktype_of KFloat (PFloat f) = Ok (PFloat f)).
        { unfold checktype_of, k_numeric_checktype, k_base_checktype_self, k_base_checktype, k_checktype_regular.
          destruct f as [|n|n|n m e]; try discriminate En.
          - reflexivity.
          - destruct Hcase as [H|[_ H]]; discriminate H.
          - destruct Hcase as [H|[_ H]]; [|discriminate H].
            cbn -[fl_trunc num_eqb fl_integral]. rewrite trunc_eq_integral.
            unfold nonintegral in H. apply negb_true_iff in H. rewrite H. reflexivity. }
        unfold k_numeric_compare_value. cbn [pyv_of_val]. rewrite Hck. cbn [bind].
        assert (Hcell : forall o c, In c cells -> np_cmp_cell KFloat (OpCmp o) c (PFloat f) = py_cmp o c (VFlt f)).
        { intros o c Hin. pose proof (cells_in _ _ c Hc Hin) as Hcc. destruct c as [a|g|s|]; try discriminate Hcc.
          unfold np_cmp_cell, py_cmp. cbn [val_num np_operand pyv_num]. apply cmp_holds_num. }
        assert (Hfin : forall o, v_where (v_cmp KFloat (OpCmp o) cells (PFloat f))
                                 = positions_sat (sat_at o (RScalar (VFlt f))) cells 0).
        { intros o. unfold v_where, v_cmp. rewrite where_from_map. apply positions_sat_ext. intros i c Hin.
          rewrite Hcell by exact Hin. cbn [sat_at]. unfold sat_scalar. rewrite En. reflexivity. }
        destruct f as [|n|n|n m e]; try discriminate En.
        -- destruct Hcase as [H|[Hop _]]; [discriminate H|].
           destruct op; try discriminate Hop; cbn -[v_cmp v_where]; rewrite Hfin; reflexivity.
        -- destruct Hcase as [H|[_ H]]; discriminate H.
        -- cbn -[v_cmp v_where]. rewrite Hfin. reflexivity.
      * (* IntColumn: an int, or an integral float (int(f) == f) *)
        rewrite <- Hsat.
        destruct v as [z|f|s|]; try discriminate Hd.
        -- apply (numeric_value_int KInt cells op (VInt z) z); [discriminate|exact Hc|reflexivity|reflexivity].
        -- apply (numeric_value_int KInt cells op (VFlt f) (fl_trunc f)); [discriminate|exact Hc|exact Hd|].
           unfold checked. rewrite Hd. reflexivity.
  - (* set *)
    assert (Hop : op = CEq \/ op = CNe) by (destruct op; try discriminate Hd; auto).
    unfold base_compare. cbn [inj_ref]. unfold k_compare_dispatch. cbn -[keep_where k_compare_set].
    destruct Hop as [-> | ->]; cbn -[keep_where].
    + rewrite (keep_where_total k _ (fun c => existsb (fun v => py_cmp CEq c v) vs)); [reflexivity|].
      intros c _. cbn. f_equal. induction vs as [|v vs IH]; [reflexivity|]. cbn. rewrite py_eq_cmp, IH. reflexivity.
    + rewrite (keep_where_total k _ (fun c => forallb (fun v => py_cmp CNe c v) vs)); [reflexivity|].
      intros c _. cbn. f_equal. induction vs as [|v vs IH]; [reflexivity|]. cbn. rewrite py_eq_cmp, IH. f_equal.
      destruct c as [a|g|s|], v as [b|h|t|]; reflexivity.
  - (* predicate *)
    assert (Hop : op = CEq \/ op = CNe) by (destruct op; try discriminate Hd; auto).
    unfold base_compare. cbn [inj_ref]. unfold k_compare_dispatch. cbn -[keep_where k_compare_function r_call].
    destruct Hop as [-> | ->]; cbn -[keep_where r_call].
    + rewrite (keep_where_total k _ f); [reflexivity|].
      intros c Hin. pose proof (pred_iter k c f (cells_in k cells c Hc Hin)) as Hp. cbn [inj_ref] in Hp. exact Hp.
    + rewrite (keep_where_total k _ (fun c => negb (f c))); [reflexivity|].
      intros c Hin. pose proof (pred_iter k c f (cells_in k cells c Hc Hin)) as Hp. cbn [inj_ref] in Hp.
      rewrite Hp. reflexivity.
  - (* type *)
    assert (Hk : k <> KInt) by (intros ->; apply (Hint eq_refl)).
    assert (Hop : op = CEq \/ op = CNe) by (destruct op; try discriminate Hd; auto).
    unfold base_compare. cbn [inj_ref]. unfold k_compare_dispatch. cbn -[keep_where k_compare_type].
    destruct Hop as [-> | ->]; cbn -[keep_where].
    + rewrite (keep_where_total k _ (instance_of t)); [reflexivity|].
      intros c Hin. rewrite isinstance_iter by (try apply (cells_in k cells); assumption). reflexivity.
    + rewrite (keep_where_total k _ (fun c => negb (instance_of t c))); [reflexivity|].
      intros c Hin. rewrite isinstance_iter by (try apply (cells_in k cells); assumption). reflexivity.
Qed.

Lemma issequence_nonseq n r :
  match r with RSeq _ | RType _ => False | _ => True end -> k_issequence n (inj_ref r) = Ok false.
Proof.
  destruct r as [v|vs|vs|f|t]; intros H; try contradiction; try reflexivity.
  destruct v; reflexivity.
Qed.

Lemma int_cells_type cells t :
  forallb (cell_of KInt) cells = true ->
  sel_positions CEq (RType t) cells
  = match t with TInt | TObject => seq 0 (List.length cells) | _ => [] end
  /\ sel_positions CNe (RType t) cells
  = match t with TInt | TObject => [] | _ => seq 0 (List.length cells) end.
Proof.
  intros Hc. unfold sel_positions.
  assert (Hi : forall c, In c cells -> exists z, c = VInt z).
  { intros c Hin. pose proof (cells_in _ _ c Hc Hin) as H. destruct c; try discriminate H. eexists; reflexivity. }
  destruct t; split;
    first [ apply positions_sat_all; intros i c Hin; destruct (Hi c Hin) as [z ->]; reflexivity
          | apply positions_sat_none; intros i c Hin; destruct (Hi c Hin) as [z ->]; reflexivity ].
Qed.

(* ---------- IntColumn == / != a reference NumericColumn._compare_value cannot coerce (inf, None):
   the TypeError is caught and the constant comparison selects nothing / everything *)
Lemma where_from_const (b : bool) (cells : list val) : forall i,
  where_from i (map (fun _ => b) cells) = if b then seq i (List.length cells) else [].
Proof.
  induction cells as [|c r IH]; intros i; cbn; [destruct b; reflexivity|]. rewrite IH. destruct b; reflexivity.
Qed.

Lemma int_fallback_spec cells op v :
  forallb (cell_of KInt) cells = true -> is_nan_val v = false -> int_fallback KInt op v = true ->
  compare KInt cells op (inj_ref (RScalar v)) = Ok (sel_positions op (RScalar v) cells).
Proof.
  intros Hc En Hd. cbn [int_fallback] in Hd. apply andb_prop in Hd as [Hop Hv].
  assert (Hi : forall c, In c cells -> exists z, c = VInt z).
  { intros c Hin. pose proof (cells_in _ _ c Hc Hin) as H. destruct c; try discriminate H. eexists; reflexivity. }
  assert (Hraise : forall o, base_compare KInt cells (OpCmp o) (MVal (pyv_of_val v)) = Raise TypeError).
  { intros o. destruct v as [a|[|n|n|n m e]|s|]; try discriminate Hv; reflexivity. }
  assert (Hconst : forall b, k_numeric_compare_value KInt (checktype_of KInt) cells (PInt 0) (OpConst b)
                             = Ok (if b then seq 0 (List.length cells) else [])).
  { intros b. unfold k_numeric_compare_value. cbn [checktype_of k_int_checktype is_int bind b_isnan b_isinf].
    unfold v_where, v_cmp. cbn [np_cmp_cell]. rewrite where_from_const. reflexivity. }
  assert (Hne : forall c, In c cells -> py_cmp CEq c v = false /\ py_cmp CNe c v = true).
  { intros c Hin. destruct (Hi c Hin) as [z ->]. destruct v as [a|[|n|n|n m e]|s|]; try discriminate Hv; split; try reflexivity;
      destruct n; reflexivity. }
  unfold compare, sel_positions. destruct op; try discriminate Hop.
  - unfold k_int_eq. cbn [inj_ref r_is_type]. rewrite (issequence_nonseq _ (RScalar v) I). cbn [bind].
    rewrite Hraise. cbn [try_bind existsb exn_eqb orb]. rewrite Hconst. f_equal. symmetry.
    apply positions_sat_none. intros i c Hin. cbn [sat_at]. unfold sat_scalar. rewrite En. apply (Hne c Hin).
  - unfold k_int_ne. cbn [inj_ref r_is_type]. rewrite (issequence_nonseq _ (RScalar v) I). cbn [bind].
    rewrite Hraise. cbn [try_bind existsb exn_eqb orb]. rewrite Hconst. f_equal. symmetry.
    apply positions_sat_all. intros i c Hin. cbn [sat_at]. unfold sat_scalar. rewrite En. apply (Hne c Hin).
Qed.

(* L1 = L0 on the proved domain: scalars, same-length sequences, sets, predicates and types, for the three
   column types and the six operators. *)
Theorem compare_refines_dom k cells op r :
  forallb (cell_of k) cells = true -> proved_dom k op r (List.length cells) = true ->
  compare k cells op (inj_ref r) = Ok (sel_positions op r cells).
Proof.
  intros Hc Hd.
  destruct (match r with RScalar v => negb (proved_scalar_base k op v) | _ => false end) eqn:Efb.
  { (* only the IntColumn fallback covers this scalar *)
    destruct r as [v| | | |]; try discriminate Efb. apply negb_true_iff in Efb.
    cbn [proved_dom] in Hd. unfold proved_scalar in Hd. rewrite Efb in Hd. cbn [orb] in Hd.
    destruct k; try discriminate Hd.
    apply int_fallback_spec; [exact Hc| |exact Hd].
    destruct (is_nan_val v) eqn:En; [|reflexivity].
    unfold proved_scalar_base in Efb. rewrite En in Efb.
    cbn [int_fallback] in Hd. apply andb_prop in Hd as [Hop _]. rewrite Hop in Efb. discriminate Efb. }
  assert (Hgen : (k = KInt -> match r with RType _ => False | _ => True end) ->
                 base_compare k cells (OpCmp op) (inj_ref r) = Ok (sel_positions op r cells)).
  { apply base_compare_spec; [exact Hc|]. destruct r as [v| | | |]; try exact Hd.
    apply negb_false_iff in Efb. exact Efb. }
  unfold compare.
  destruct k; try (apply Hgen; intros E; discriminate E).
  destruct op; try (apply Hgen; intros _; destruct r; try exact I; discriminate Hd).
  - (* IntColumn.__eq__ *)
    unfold k_int_eq. destruct r as [v|vs|vs|f|t].
    + cbn [inj_ref r_is_type]. rewrite (issequence_nonseq _ (RScalar v) I). cbn [bind]. cbn [inj_ref] in Hgen.
      rewrite Hgen by (intros _; exact I). reflexivity.
    + cbn [inj_ref r_is_type]. rewrite issequence_seq. cbn [proved_dom] in Hd. apply andb_prop in Hd as [Hl _].
      rewrite Hl. cbn [bind]. cbn [inj_ref] in Hgen. apply Hgen. intros _; exact I.
    + cbn [inj_ref r_is_type]. rewrite (issequence_nonseq _ (RSet vs) I). cbn [bind]. cbn [inj_ref] in Hgen.
      rewrite Hgen by (intros _; exact I). reflexivity.
    + change (r_is_type (inj_ref (RPred f))) with false. cbv iota.
      rewrite (issequence_nonseq _ (RPred f) I). cbn [bind].
      rewrite Hgen by (intros _; exact I). reflexivity.
    + cbn [inj_ref r_is_type r_type_accepts_int]. destruct (int_cells_type cells t Hc) as [E _]. rewrite E.
      destruct t; reflexivity.
  - (* IntColumn.__ne__ *)
    unfold k_int_ne. destruct r as [v|vs|vs|f|t].
    + cbn [inj_ref r_is_type]. rewrite (issequence_nonseq _ (RScalar v) I). cbn [bind]. cbn [inj_ref] in Hgen.
      rewrite Hgen by (intros _; exact I). reflexivity.
    + cbn [inj_ref r_is_type]. rewrite issequence_seq. cbn [proved_dom] in Hd. apply andb_prop in Hd as [Hl _].
      rewrite Hl. cbn [bind]. cbn [inj_ref] in Hgen. apply Hgen. intros _; exact I.
    + cbn [inj_ref r_is_type]. rewrite (issequence_nonseq _ (RSet vs) I). cbn [bind]. cbn [inj_ref] in Hgen.
      rewrite Hgen by (intros _; exact I). reflexivity.
    + change (r_is_type (inj_ref (RPred f))) with false. cbv iota.
      rewrite (issequence_nonseq _ (RPred f) I). cbn [bind].
      rewrite Hgen by (intros _; exact I). reflexivity.
    + cbn [inj_ref r_is_type r_type_accepts_int]. destruct (int_cells_type cells t Hc) as [_ E]. rewrite E.
      destruct t; reflexivity.
Qed.

(* a list / tuple of another length: TypeError, for every column type and operator *)
Theorem compare_seq_length_mismatch k cells op vs :
  List.length vs <> List.length cells -> compare k cells op (inj_ref (RSeq vs)) = Raise TypeError.
Proof.
  intros Hn. apply Nat.eqb_neq in Hn.
  assert (Hb : forall o, base_compare k cells o (MSeq (map pyv_of_val vs)) = Raise TypeError).
  { intros o. unfold base_compare. rewrite dispatch_seq, Hn. reflexivity. }
  unfold compare. cbn [inj_ref].
  destruct k; try apply Hb. destruct op; try apply Hb.
  - unfold k_int_eq. cbn [r_is_type]. rewrite issequence_seq, Hn. reflexivity.
  - unfold k_int_ne. cbn [r_is_type]. rewrite issequence_seq, Hn. reflexivity.
Qed.

(* ---------- the property's reference domain (Spec.Select.in_domain) lies inside the proved domain *)
Lemma elem_dom_proved k cells v : val_wf v = true -> elem_dom k cells v = true -> proved_elem k v = true.
Proof.
  destruct k, v as [z|f|s|]; cbn [elem_dom proved_elem val_wf float_ref int_ref]; intros Hw H; try reflexivity;
    try discriminate H; try exact H.
  - rewrite Hw. apply orb_true_r.
  - apply andb_prop in H as [H _]. apply andb_prop in H as [H _]. exact H.
Qed.

Lemma in_domain_proved k op r cells :
  ref_wf r = true -> in_domain k op r cells = true -> proved_dom k op r (List.length cells) = true.
Proof.
  intros Hw Hd. destruct r as [v|vs|vs|f|t]; cbn [in_domain proved_dom ref_wf] in *; try exact Hd.
  - (* scalar *)
    unfold proved_scalar, proved_scalar_base, scalar_dom in *. destruct (is_nan_val v) eqn:En; [rewrite Hd; reflexivity|].
    destruct k.
    + reflexivity.
    + apply andb_prop in Hd as [Hf Ho]. destruct v as [z|f|s|]; try discriminate Hf.
      * cbn [float_ref] in Hf. rewrite Hf. reflexivity.
      * cbn [val_wf] in Hw. destruct f as [|n|n|n m e]; try discriminate En.
        -- cbn [is_inf_val negb] in Ho. rewrite orb_false_r in Ho. rewrite Ho. reflexivity.
        -- reflexivity.
        -- unfold nonintegral, integral_fin. cbn [fl_is_finite andb]. rewrite Hw.
           destruct (fl_integral (FFin n m e)); reflexivity.
    + apply orb_prop in Hd as [Hd|Hd].
      * apply andb_prop in Hd as [Hi _]. destruct v as [z|f|s|]; try discriminate Hi.
        -- cbn [int_ref] in Hi. rewrite Hi. reflexivity.
        -- cbn [int_ref] in Hi. apply andb_prop in Hi as [Hi _]. unfold integral_fin. rewrite Hi. reflexivity.
      * cbn [int_fallback]. rewrite Hd. apply orb_true_r.
  - (* sequence *)
    apply andb_prop in Hd as [Hl He]. rewrite Hl. cbn [andb].
    apply forallb_forall. intros v Hin. rewrite forallb_forall in He, Hw.
    apply (elem_dom_proved k cells); [apply Hw|apply He]; exact Hin.
  - (* set *)
    apply andb_prop in Hd as [Ho _]. exact Ho.
Qed.

(* L1 = L0 on the whole reference domain of the property: for every column type, operator and reference
   inside Spec.Select.in_domain (floats being binary64 values) the model assembled from the regenerated
   kernels selects exactly the positions of the specification. *)
Theorem compare_refines k cells op r :
  forallb (cell_of k) cells = true -> ref_wf r = true -> in_domain k op r cells = true ->
  compare k cells op (inj_ref r) = Ok (sel_positions op r cells).
Proof.
  intros Hc Hw Hd. apply compare_refines_dom; [exact Hc|]. apply in_domain_proved; assumption.
Qed.
