(* C12, part 1: the textbook statistics (Spec/Stats.v) satisfy the laws the property names -- for all lists.
   Nothing generated is used here. *)
From Coq Require Import ZArith QArith Qcanon List Bool String Permutation Sorted Lia Arith.
From DM Require Import Base.PyVal Base.QcPy Spec.Stats.
Import ListNotations.
Open Scope Qc_scope.

(* ------------------------------------------------------------------ order on Qc *)
Lemma Qcleb_true : forall x y, Qcleb x y = true <-> x <= y.
Proof. intros. unfold Qcleb, Qcle. apply Qle_bool_iff. Qed.
Lemma Qcleb_false : forall x y, Qcleb x y = false -> y <= x.
Proof.
  intros x y H. destruct (Qclt_le_dec y x) as [L|L].
  - apply Qclt_le_weak; exact L.
  - destruct (Qc_dec x y) as [[L2|L2]|E].
    + apply Qclt_le_weak in L2. apply Qcleb_true in L2. congruence.
    + apply Qclt_le_weak; exact L2.
    + subst. apply Qcle_refl.
Qed.
Lemma Qcleb_false_lt : forall x y, Qcleb x y = false -> y < x.
Proof.
  intros x y H. apply Qcnot_le_lt. intro L. apply Qcleb_true in L. congruence.
Qed.
Lemma Qceqb_true : forall x y, Qceqb x y = true <-> x = y.
Proof.
  intros. unfold Qceqb. rewrite Qeq_bool_iff. split.
  - apply Qc_is_canon.
  - intros ->. reflexivity.
Qed.
Lemma Qcle_total : forall x y, x <= y \/ y <= x.
Proof. intros. destruct (Qclt_le_dec x y); [left; apply Qclt_le_weak|right]; auto. Qed.

Lemma Qcsq_nonneg : forall x, 0 <= x * x.
Proof.
  intros x. destruct (Qclt_le_dec x 0) as [L|L].
  - assert (H : 0 <= - x).
    { apply Qclt_le_weak in L. apply Qcopp_le_compat in L. replace (- 0) with 0 in L by ring. exact L. }
    replace (x * x) with ((- x) * (- x)) by ring.
    replace 0 with (0 * (- x)) by ring. apply Qcmult_le_compat_r; auto.
  - replace 0 with (0 * x) at 1 by ring. apply Qcmult_le_compat_r; auto.
Qed.
Lemma Qcplus_nonneg : forall a b, 0 <= a -> 0 <= b -> 0 <= a + b.
Proof. intros. replace 0 with (0 + 0) by ring. apply Qcplus_le_compat; auto. Qed.

(* ------------------------------------------------------------------ sums *)
Lemma qsum_app : forall a b, qsum (a ++ b) = qsum a + qsum b.
Proof. induction a; intros; simpl. - ring. - rewrite IHa. ring. Qed.
Lemma qsum_perm : forall l l', Permutation l l' -> qsum l = qsum l'.
Proof. induction 1; simpl; try congruence. - ring. Qed.
Lemma fold_left_plus : forall l a, fold_left Qcplus l a = a + qsum l.
Proof. induction l; intros; simpl. - ring. - rewrite IHl. ring. Qed.
Lemma py_sum_qsum : forall l, py_sum l = qsum l.
Proof. intros. unfold py_sum. rewrite fold_left_plus. ring. Qed.
Lemma qsum_nonneg : forall l, Forall (fun x => 0 <= x) l -> 0 <= qsum l.
Proof. induction 1; simpl. - apply Qcle_refl. - apply Qcplus_nonneg; auto. Qed.

Lemma zlen_perm : forall A (l l' : list A), Permutation l l' -> zlen l = zlen l'.
Proof. intros. unfold zlen. erewrite Permutation_length; eauto. Qed.
Lemma qlen_perm : forall l l', Permutation l l' -> qlen l = qlen l'.
Proof. intros. unfold qlen. erewrite zlen_perm; eauto. Qed.
Lemma mean_perm : forall l l', Permutation l l' -> mean l = mean l'.
Proof. intros. unfold mean. rewrite (qsum_perm _ _ H), (qlen_perm _ _ H). reflexivity. Qed.
Lemma var_perm : forall l l', Permutation l l' -> var l = var l'.
Proof.
  intros. unfold var. rewrite (mean_perm _ _ H), (qlen_perm _ _ H).
  rewrite (qsum_perm _ _ (Permutation_map (sqdev (mean l')) H)). reflexivity.
Qed.

(* ------------------------------------------------------------------ sorting *)
Lemma qinsert_perm : forall x l, Permutation (qinsert x l) (x :: l).
Proof.
  induction l; simpl; auto. destruct (Qcleb x a); auto.
  eapply perm_trans. apply perm_skip. apply IHl. apply perm_swap.
Qed.
Lemma qsort_perm : forall l, Permutation (qsort l) l.
Proof. induction l; simpl; auto. eapply perm_trans. apply qinsert_perm. auto. Qed.
Lemma qsort_length : forall l, List.length (qsort l) = List.length l.
Proof. intros. apply Permutation_length, qsort_perm. Qed.

Lemma qinsert_sorted : forall x l, StronglySorted Qcle l -> StronglySorted Qcle (qinsert x l).
Proof.
  induction 1; simpl.
  - constructor; constructor.
  - destruct (Qcleb x a) eqn:E.
    + apply Qcleb_true in E. constructor. constructor; auto. constructor; auto.
      eapply Forall_impl; [|exact H0]. intros; eapply Qcle_trans; eauto.
    + apply Qcleb_false in E. constructor; auto.
      eapply Permutation_Forall. apply Permutation_sym, qinsert_perm. constructor; auto.
Qed.
Lemma qsort_sorted : forall l, StronglySorted Qcle (qsort l).
Proof. induction l; simpl. constructor. apply qinsert_sorted; auto. Qed.

Lemma sorted_perm_eq : forall a b, StronglySorted Qcle a -> StronglySorted Qcle b -> Permutation a b -> a = b.
Proof.
  induction a as [|x a IH]; intros b Sa Sb P.
  - apply Permutation_nil in P. auto.
  - destruct b as [|y b]. { apply Permutation_sym, Permutation_nil in P. discriminate. }
    inversion Sa; subst. inversion Sb; subst.
    assert (x = y).
    { apply Qcle_antisym.
      - assert (I : In y (x :: a)) by (eapply Permutation_in; [apply Permutation_sym; eauto| left; auto]).
        destruct I as [->|I]. apply Qcle_refl. rewrite Forall_forall in H2. auto.
      - assert (I : In x (y :: b)) by (eapply Permutation_in; [eauto| left; auto]).
        destruct I as [->|I]. apply Qcle_refl. rewrite Forall_forall in H4. auto. }
    subst. f_equal. apply IH; auto. eapply Permutation_cons_inv; eauto.
Qed.
Lemma qsort_perm_eq : forall l l', Permutation l l' -> qsort l = qsort l'.
Proof.
  intros. apply sorted_perm_eq; try apply qsort_sorted.
  eapply perm_trans. apply qsort_perm. eapply perm_trans. eauto. apply Permutation_sym, qsort_perm.
Qed.
Lemma median_perm : forall l l', Permutation l l' -> median l = median l'.
Proof. intros. unfold median. rewrite (qsort_perm_eq _ _ H). reflexivity. Qed.

(* ------------------------------------------------------------------ min / max *)
Definition is_min (l : list Qc) (m : Qc) : Prop := In m l /\ forall x, In x l -> m <= x.
Definition is_max (l : list Qc) (m : Qc) : Prop := In m l /\ forall x, In x l -> x <= m.

Lemma Qcmin_spec : forall a b, (Qcmin a b = a /\ a <= b) \/ (Qcmin a b = b /\ b <= a).
Proof. intros. unfold Qcmin. destruct (Qcleb a b) eqn:E; [left|right]; split; auto.
  apply Qcleb_true; auto. apply Qcleb_false; auto. Qed.
Lemma Qcmax_spec : forall a b, (Qcmax a b = b /\ a <= b) \/ (Qcmax a b = a /\ b <= a).
Proof. intros. unfold Qcmax. destruct (Qcleb a b) eqn:E; [left|right]; split; auto.
  apply Qcleb_true; auto. apply Qcleb_false; auto. Qed.

Lemma fold_min_spec : forall r x, is_min (x :: r) (fold_right Qcmin x r).
Proof.
  induction r as [|y r IH]; intros x; simpl.
  - split. left; auto. intros z [->|[]]. apply Qcle_refl.
  - destruct (IH x) as [I L]. destruct (Qcmin_spec y (fold_right Qcmin x r)) as [[E H]|[E H]]; rewrite E.
    + split. right; left; auto. intros z [<-|[<-|Hz]].
      * eapply Qcle_trans; [exact H|]. apply L. left; auto.
      * apply Qcle_refl.
      * eapply Qcle_trans; [exact H|]. apply L. right; auto.
    + split. destruct I as [I|I]; [left|right; right]; auto.
      intros z [<-|[<-|Hz]]. apply L; left; auto. exact H. apply L; right; auto.
Qed.
Lemma fold_max_spec : forall r x, is_max (x :: r) (fold_right Qcmax x r).
Proof.
  induction r as [|y r IH]; intros x; simpl.
  - split. left; auto. intros z [->|[]]. apply Qcle_refl.
  - destruct (IH x) as [I L]. destruct (Qcmax_spec y (fold_right Qcmax x r)) as [[E H]|[E H]]; rewrite E.
    + split. destruct I as [I|I]; [left|right; right]; auto.
      intros z [<-|[<-|Hz]]. apply L; left; auto. exact H. apply L; right; auto.
    + split. right; left; auto. intros z [<-|[<-|Hz]].
      * eapply Qcle_trans; [|exact H]. apply L. left; auto.
      * apply Qcle_refl.
      * eapply Qcle_trans; [|exact H]. apply L. right; auto.
Qed.
Lemma qmin_spec : forall l, l <> [] -> is_min l (qmin l).
Proof. destruct l; intros; [congruence|]. apply fold_min_spec. Qed.
Lemma qmax_spec : forall l, l <> [] -> is_max l (qmax l).
Proof. destruct l; intros; [congruence|]. apply fold_max_spec. Qed.
Lemma is_min_unique : forall l a b, is_min l a -> is_min l b -> a = b.
Proof. intros l a b [Ia La] [Ib Lb]. apply Qcle_antisym; auto. Qed.
Lemma is_max_unique : forall l a b, is_max l a -> is_max l b -> a = b.
Proof. intros l a b [Ia La] [Ib Lb]. apply Qcle_antisym; auto. Qed.
Lemma is_min_perm : forall l l' m, Permutation l l' -> is_min l m -> is_min l' m.
Proof. intros l l' m P [I L]. split. eapply Permutation_in; eauto.
  intros x Hx. apply L. eapply Permutation_in; [apply Permutation_sym|]; eauto. Qed.
Lemma is_max_perm : forall l l' m, Permutation l l' -> is_max l m -> is_max l' m.
Proof. intros l l' m P [I L]. split. eapply Permutation_in; eauto.
  intros x Hx. apply L. eapply Permutation_in; [apply Permutation_sym|]; eauto. Qed.
Lemma perm_nonnil : forall A (l l' : list A), Permutation l l' -> l <> [] -> l' <> [].
Proof. intros A l l' P H E. subst. apply Permutation_sym, Permutation_nil in P. auto. Qed.
Lemma qmin_perm : forall l l', Permutation l l' -> qmin l = qmin l'.
Proof.
  intros l l' P. destruct l as [|x l].
  - apply Permutation_nil in P. subst. reflexivity.
  - assert (N : x :: l <> []) by discriminate.
    eapply is_min_unique. eapply is_min_perm; [exact P|]. apply qmin_spec; auto.
    apply qmin_spec. eapply perm_nonnil; eauto.
Qed.
Lemma qmax_perm : forall l l', Permutation l l' -> qmax l = qmax l'.
Proof.
  intros l l' P. destruct l as [|x l].
  - apply Permutation_nil in P. subst. reflexivity.
  - assert (N : x :: l <> []) by discriminate.
    eapply is_max_unique. eapply is_max_perm; [exact P|]. apply qmax_spec; auto.
    apply qmax_spec. eapply perm_nonnil; eauto.
Qed.

(* Python's max / min (left fold keeping the first extreme) *)
Lemma fold_left_max_spec : forall r x, is_max (x :: r) (fold_left (fun a b => if Qcleb b a then a else b) r x).
Proof.
  induction r as [|y r IH]; intros x; simpl.
  - split. left; auto. intros z [->|[]]. apply Qcle_refl.
  - destruct (Qcleb y x) eqn:E.
    + apply Qcleb_true in E. destruct (IH x) as [I L]. split.
      * destruct I as [I|I]; [left|right; right]; auto.
      * intros z [<-|[<-|Hz]]. apply L; left; auto. eapply Qcle_trans; [exact E|]. apply L; left; auto.
        apply L; right; auto.
    + apply Qcleb_false in E. destruct (IH y) as [I L]. split.
      * right. exact I.
      * intros z [<-|[<-|Hz]]. eapply Qcle_trans; [exact E|]. apply L; left; auto. apply L; left; auto.
        apply L; right; auto.
Qed.
Lemma fold_left_min_spec : forall r x, is_min (x :: r) (fold_left (fun a b => if Qcleb a b then a else b) r x).
Proof.
  induction r as [|y r IH]; intros x; simpl.
  - split. left; auto. intros z [->|[]]. apply Qcle_refl.
  - destruct (Qcleb x y) eqn:E.
    + apply Qcleb_true in E. destruct (IH x) as [I L]. split.
      * destruct I as [I|I]; [left|right; right]; auto.
      * intros z [<-|[<-|Hz]]. apply L; left; auto. eapply Qcle_trans; [|exact E]. apply L; left; auto.
        apply L; right; auto.
    + apply Qcleb_false in E. destruct (IH y) as [I L]. split.
      * right. exact I.
      * intros z [<-|[<-|Hz]]. eapply Qcle_trans; [|exact E]. apply L; left; auto. apply L; left; auto.
        apply L; right; auto.
Qed.
Lemma py_max_qmax : forall l, py_max l = qmax l.
Proof.
  destruct l as [|x r]; auto. eapply is_max_unique. apply fold_left_max_spec. apply (qmax_spec (x :: r)). discriminate.
Qed.
Lemma py_min_qmin : forall l, py_min l = qmin l.
Proof.
  destruct l as [|x r]; auto. eapply is_min_unique. apply fold_left_min_spec. apply (qmin_spec (x :: r)). discriminate.
Qed.

(* ------------------------------------------------------------------ the numeric cells of a column *)
Lemma nums_app : forall a b, nums (a ++ b) = nums a ++ nums b.
Proof. induction a; intros; simpl; auto. destruct (cell_q a); simpl; rewrite IHa; auto. Qed.
Lemma nums_perm : forall c c', Permutation c c' -> Permutation (nums c) (nums c').
Proof.
  induction 1; simpl; auto.
  - destruct (cell_q x); auto.
  - destruct (cell_q x), (cell_q y); auto. apply perm_swap.
  - eapply perm_trans; eauto.
Qed.
Lemma nonempty_perm : forall A (l l' : list A), Permutation l l' -> nonempty l = nonempty l'.
Proof.
  intros. destruct l, l'; auto. apply Permutation_nil in H; discriminate.
  apply Permutation_sym, Permutation_nil in H; discriminate.
Qed.
Lemma textbook_perm : forall s l l', Permutation l l' -> textbook s l = textbook s l'.
Proof.
  intros s l l' P. destruct s; simpl; rewrite ?(nonempty_perm _ _ _ P), ?(Permutation_length P),
    ?(mean_perm _ _ P), ?(median_perm _ _ P), ?(var_perm _ _ P), ?(qmin_perm _ _ P), ?(qmax_perm _ _ P),
    ?(qsum_perm _ _ P); reflexivity.
Qed.
Lemma col_stat_perm : forall s c c', Permutation c c' -> col_stat s c = col_stat s c'.
Proof. intros. unfold col_stat. apply textbook_perm, nums_perm; auto. Qed.

(* cells that are not finite numbers do not matter *)
Definition is_number_cell (v : val) : bool := match cell_q v with Some _ => true | None => false end.
Lemma nums_filter : forall c, nums (filter is_number_cell c) = nums c.
Proof.
  induction c; simpl; auto. unfold is_number_cell at 1. destruct (cell_q a) eqn:E; simpl; rewrite ?E, IHc; auto.
Qed.
Lemma col_stat_ignores : forall s c, col_stat s (filter is_number_cell c) = col_stat s c.
Proof. intros. unfold col_stat. rewrite nums_filter. reflexivity. Qed.
Lemma nums_insert_junk : forall a v b, cell_q v = None -> nums (a ++ v :: b) = nums (a ++ b).
Proof. intros. rewrite !nums_app. simpl. rewrite H. reflexivity. Qed.

(* ------------------------------------------------------------------ integers inside Qc *)
Lemma this_Q2Qc : forall q, (this (Q2Qc q) == q)%Q.
Proof. intros. simpl. apply Qred_correct. Qed.
Lemma qz_plus : forall a b, qz (a + b) = qz a + qz b.
Proof. intros. unfold qz, Qcplus. apply Q2Qc_eq_iff. rewrite !this_Q2Qc, inject_Z_plus. reflexivity. Qed.
Lemma qz_opp : forall a, qz (- a) = - qz a.
Proof. intros. unfold qz, Qcopp. apply Q2Qc_eq_iff. rewrite !this_Q2Qc, inject_Z_opp. reflexivity. Qed.
Lemma qz_minus : forall a b, qz (a - b) = qz a - qz b.
Proof. intros. unfold Z.sub, Qcminus. rewrite qz_plus, qz_opp. reflexivity. Qed.
Lemma qz_mult : forall a b, qz (a * b) = qz a * qz b.
Proof. intros. unfold qz, Qcmult. apply Q2Qc_eq_iff. rewrite !this_Q2Qc, inject_Z_mult. reflexivity. Qed.
Lemma qz_le : forall a b, (a <= b)%Z -> qz a <= qz b.
Proof. intros. unfold Qcle, qz. rewrite !this_Q2Qc. rewrite <- Zle_Qle. auto. Qed.
Lemma qz_lt : forall a b, (a < b)%Z -> qz a < qz b.
Proof. intros. unfold Qclt, qz. rewrite !this_Q2Qc. rewrite <- Zlt_Qlt. auto. Qed.
Lemma qz_inj : forall a b, qz a = qz b -> a = b.
Proof. intros a b H. unfold qz in H. apply Q2Qc_eq_iff in H. unfold Qeq in H. simpl in H. lia. Qed.
Lemma qz_0 : qz 0 = 0. Proof. reflexivity. Qed.
Lemma qz_1 : qz 1 = 1. Proof. reflexivity. Qed.
Lemma qz_neq0 : forall a, a <> 0%Z -> qz a <> 0.
Proof. intros a H E. rewrite <- qz_0 in E. apply qz_inj in E. auto. Qed.

Lemma Qcinv_pos : forall d, 0 < d -> 0 < / d.
Proof.
  intros d H. unfold Qclt, Qcinv in *. rewrite this_Q2Qc in H. rewrite !this_Q2Qc. apply Qinv_lt_0_compat. exact H.
Qed.
Lemma Qcdiv_nonneg : forall a d, 0 <= a -> 0 < d -> 0 <= a / d.
Proof.
  intros. unfold Qcdiv. replace 0 with (0 * / d) by ring. apply Qcmult_le_compat_r; auto.
  apply Qclt_le_weak, Qcinv_pos; auto.
Qed.

(* ------------------------------------------------------------------ variance and standard deviation *)
Lemma var_nonneg : forall l, (2 <= List.length l)%nat -> 0 <= var l.
Proof.
  intros l H. unfold var. apply Qcdiv_nonneg.
  - apply qsum_nonneg. apply Forall_forall. intros x Hx. apply in_map_iff in Hx. destruct Hx as [y [<- _]].
    unfold sqdev. apply Qcsq_nonneg.
  - unfold qlen, zlen. rewrite <- qz_1, <- qz_minus, <- qz_0. apply qz_lt. lia.
Qed.
Lemma nonneg_root_unique : forall s1 s2, 0 <= s1 -> 0 <= s2 -> s1 * s1 = s2 * s2 -> s1 = s2.
Proof.
  intros s1 s2 H1 H2 E.
  assert (P : (s1 - s2) * (s1 + s2) = 0).
  { replace ((s1 - s2) * (s1 + s2)) with (s1 * s1 - s2 * s2) by ring. rewrite E. ring. }
  apply Qcmult_integral in P. destruct P as [P|P].
  - replace s1 with ((s1 - s2) + s2) by ring. rewrite P. ring.
  - assert (Z1 : s1 = 0).
    { apply Qcle_antisym; auto.
      assert (E1 : s1 = - s2). { replace s1 with ((s1 + s2) - s2) by ring. rewrite P. ring. }
      rewrite E1. replace 0 with (- 0) by ring. apply Qcopp_le_compat; auto. }
    subst s1. replace s2 with (0 + s2) by ring. rewrite P. reflexivity.
Qed.
Lemma std_unique : forall l s1 s2, is_std l s1 -> is_std l s2 -> s1 = s2.
Proof. intros l s1 s2 [P1 E1] [P2 E2]. apply nonneg_root_unique; auto. congruence. Qed.
Lemma std_perm : forall l l' s, Permutation l l' -> is_std l s -> is_std l' s.
Proof. intros l l' s P [H E]. split; auto. rewrite <- (var_perm _ _ P). auto. Qed.
(* a constant column has standard deviation 0 *)
Lemma std_sq_nonneg : forall l s, is_std l s -> 0 <= var l.
Proof. intros l s [_ <-]. apply Qcsq_nonneg. Qed.

(* ------------------------------------------------------------------ median *)
Definition count_le (m : Qc) (l : list Qc) : nat := List.length (filter (fun x => Qcleb x m) l).
Definition count_ge (m : Qc) (l : list Qc) : nat := List.length (filter (fun x => Qcleb m x) l).

Lemma filter_perm : forall A (f : A -> bool) l l', Permutation l l' -> Permutation (filter f l) (filter f l').
Proof.
  induction 1; simpl; auto.
  - destruct (f x); auto.
  - destruct (f x), (f y); auto. apply perm_swap.
  - eapply perm_trans; eauto.
Qed.
Lemma count_le_perm : forall m l l', Permutation l l' -> count_le m l = count_le m l'.
Proof. intros. unfold count_le. apply Permutation_length, filter_perm; auto. Qed.
Lemma count_ge_perm : forall m l l', Permutation l l' -> count_ge m l = count_ge m l'.
Proof. intros. unfold count_ge. apply Permutation_length, filter_perm; auto. Qed.

Lemma sorted_nth_le : forall s, StronglySorted Qcle s ->
  forall i j, (i <= j)%nat -> (j < List.length s)%nat -> nth i s 0 <= nth j s 0.
Proof.
  induction 1; intros i j Hij Hj; simpl in Hj. lia.
  destruct i, j; simpl; try lia.
  - apply Qcle_refl.
  - rewrite Forall_forall in H0. apply H0. apply nth_In. lia.
  - apply IHStronglySorted; lia.
Qed.
Lemma count_le_lower : forall s m, StronglySorted Qcle s ->
  forall k, (k < List.length s)%nat -> nth k s 0 <= m -> (k + 1 <= count_le m s)%nat.
Proof.
  induction 1; intros k Hk Hm; simpl in Hk. lia.
  unfold count_le. simpl. destruct k; simpl in Hm.
  - apply Qcleb_true in Hm. rewrite Hm. simpl. lia.
  - assert (a <= m).
    { eapply Qcle_trans; [|exact Hm]. rewrite Forall_forall in H0. apply H0, nth_In. lia. }
    apply Qcleb_true in H1. rewrite H1. simpl.
    assert (k + 1 <= count_le m l)%nat by (apply IHStronglySorted; auto; lia).
    unfold count_le in H2. lia.
Qed.
Lemma count_ge_all : forall s m, Forall (fun x => m <= x) s -> count_ge m s = List.length s.
Proof.
  induction 1; auto. unfold count_ge in *. simpl. apply Qcleb_true in H. rewrite H. simpl. congruence.
Qed.
Lemma count_ge_lower : forall s m, StronglySorted Qcle s ->
  forall k, (k < List.length s)%nat -> m <= nth k s 0 -> (List.length s - k <= count_ge m s)%nat.
Proof.
  induction 1; intros k Hk Hm; simpl in Hk. lia.
  destruct k; simpl in Hm.
  - rewrite count_ge_all. simpl; lia. constructor; auto.
    eapply Forall_impl; [|exact H0]. intros; eapply Qcle_trans; eauto.
  - assert (List.length l - k <= count_ge m l)%nat by (apply IHStronglySorted; auto; lia).
    unfold count_ge in *. simpl. destruct (Qcleb m a); simpl; lia.
Qed.

Lemma half_qz2 : / qz 2 = qc 1 2.
Proof. apply Qc_is_canon. reflexivity. Qed.
Lemma midpoint_between : forall a b, a <= b -> a <= (a + b) / qz 2 /\ (a + b) / qz 2 <= b.
Proof.
  intros a b H.
  assert (N : qz 2 <> 0) by (apply qz_neq0; discriminate).
  assert (D : 0 <= (b - a) / qz 2).
  { apply Qcdiv_nonneg. apply -> Qcle_minus_iff; auto. rewrite <- qz_0. apply qz_lt. lia. }
  assert (T : qz 2 = 1 + 1) by (apply Qc_is_canon; reflexivity).
  split.
  - replace ((a + b) / qz 2) with (a + (b - a) / qz 2) by (rewrite T in *; field; auto).
    replace a with (a + 0) at 1 by ring. apply Qcplus_le_compat; auto. apply Qcle_refl.
  - replace ((a + b) / qz 2) with (b + - ((b - a) / qz 2)) by (rewrite T in *; field; auto).
    assert (X : b + - ((b - a) / qz 2) <= b + - 0).
    { apply Qcplus_le_compat. apply Qcle_refl. apply Qcopp_le_compat; auto. }
    replace (b + - 0) with b in X by ring. exact X.
Qed.

Theorem median_spec : forall l, l <> [] ->
  let m := median l in
  let n := List.length l in
  let s := qsort l in
  (n <= 2 * count_le m l)%nat /\ (n <= 2 * count_ge m l)%nat /\
  (Nat.odd n = true -> In m l /\ m = nth (Nat.div2 n) s 0) /\
  (Nat.odd n = false ->
     let a := nth (Nat.div2 n - 1) s 0 in let b := nth (Nat.div2 n) s 0 in
     In a l /\ In b l /\ a <= b /\ m = (a + b) / qz 2).
Proof.
  intros l Hl m n s.
  assert (Ss : StronglySorted Qcle s) by apply qsort_sorted.
  assert (Ps : Permutation s l) by apply qsort_perm.
  assert (Ls : List.length s = n) by apply qsort_length.
  assert (Hn : (0 < n)%nat). { destruct l; [congruence|simpl; unfold n; simpl; lia]. }
  rewrite <- (count_le_perm m _ _ Ps), <- (count_ge_perm m _ _ Ps).
  pose proof (Nat.div2_odd n) as D.
  unfold m, median. fold s. rewrite Ls.
  destruct (Nat.odd n) eqn:O; simpl Nat.b2n in D.
  - assert (Hh : (Nat.div2 n < List.length s)%nat) by lia.
    split; [|split; [|split]].
    + pose proof (count_le_lower s (nth (Nat.div2 n) s 0) Ss _ Hh (Qcle_refl _)). lia.
    + pose proof (count_ge_lower s (nth (Nat.div2 n) s 0) Ss _ Hh (Qcle_refl _)). lia.
    + intros _. split; auto. eapply Permutation_in; [exact Ps|]. apply nth_In; auto.
    + discriminate.
  - set (h := Nat.div2 n) in *.
    assert (Hh : (h < List.length s)%nat) by lia.
    assert (Hh1 : (h - 1 < List.length s)%nat) by lia.
    assert (AB : nth (h - 1) s 0 <= nth h s 0) by (apply sorted_nth_le; auto; lia).
    destruct (midpoint_between _ _ AB) as [M1 M2].
    split; [|split; [|split]].
    + pose proof (count_le_lower s _ Ss _ Hh1 M1). lia.
    + pose proof (count_ge_lower s _ Ss _ Hh M2). lia.
    + discriminate.
    + intros _. simpl. repeat split; auto; (eapply Permutation_in; [exact Ps|]; apply nth_In; auto).
Qed.
