(* C14, third part: the L1 model of ops.group (Model/SplitGroup.m_group: the dict
   numbering of the key tuples, the hashed IntColumn, its unique values, one
   selection by row id per key, the by-cell of the group's first row, the growing
   series) computes the L0 group of Spec/SplitGroup.v.  The regenerated kernels
   (Gen/KSplitGroup.v) enter only through the characterising lemmas at the top. *)
From Coq Require Import ZArith NArith List Bool String Permutation Lia.
From DM Require Import Base.PyVal Spec.Nf Spec.Table Spec.SplitGroup Gen.KSplitGroup Model.SplitGroup
  Proofs.MergeFacts Proofs.SplitGroupFacts Proofs.SplitGroupRefine.
Import ListNotations.

(* ---------- kernels of group, characterised *)
Ltac zb := repeat match goal with
                  | |- context [Z.ltb ?a ?b] => destruct (Z.ltb_spec a b)
                  | |- context [Z.leb ?a ?b] => destruct (Z.leb_spec a b)
                  | |- context [Z.eqb ?a ?b] => destruct (Z.eqb_spec a b)
                  end.
(* a new key gets the current size of the dict *)
Lemma k_group_newid_spec z : k_group_newid z = z.
Proof. unfold k_group_newid. zb; lia. Qed.
(* the depth after a group of n rows is the larger of the old depth and n (any test between < and <=, any of
   `n` / `max(depth, n)` as the new depth proves this) *)
Lemma k_group_depth_spec d n : (if k_group_grow d n then k_group_newdepth d n else d) = Z.max d n.
Proof. unfold k_group_grow, k_group_newdepth. zb; lia. Qed.
(* the first n cells of the group's row are written *)
Lemma k_group_fill_spec d n : k_group_fill d n = n.
Proof. unfold k_group_fill. zb; lia. Qed.
(* the by-value kept is that of the group's first row *)
Lemma k_group_bycell_row_spec : k_group_bycell_row = 0%Z.
Proof. reflexivity. Qed.

(* ---------- small list facts *)
Lemma flat_map_ext_in {A B} (f g : A -> list B) l : (forall a, In a l -> f a = g a) -> flat_map f l = flat_map g l.
Proof.
  induction l as [|a l IH]; simpl; intros H; auto. rewrite (H a) by auto. f_equal. apply IH. intros; apply H; auto.
Qed.
Lemma nth_map_seq {A} (f : nat -> A) n p d : (p < n)%nat -> nth p (map f (seq 0 n)) d = f p.
Proof.
  intros H. rewrite (nth_indep _ d (f 0%nat)) by (rewrite map_length, seq_length; auto).
  rewrite map_nth. rewrite seq_nth; auto.
Qed.

Lemma filter_map_comm {A B} (f : A -> B) (g : B -> bool) l :
  filter g (map f l) = map f (filter (fun a => g (f a)) l).
Proof. induction l as [|a l IH]; simpl; auto. destruct (g (f a)); simpl; rewrite IH; auto. Qed.

(* ====================================================================== *)
(* numbering keys through a dict = position among the distinct keys, in first-occurrence order *)
Section Num.
  Context {K : Type}.
  Variable eqv : K -> K -> bool.
  Hypothesis eqv_refl : forall a, eqv a a = true.
  Hypothesis eqv_sym : forall a b, eqv a b = eqv b a.
  Hypothesis eqv_trans : forall a b c, eqv a b = true -> eqv b c = true -> eqv a c = true.

  (* position of the first listed key equal to k *)
  Fixpoint idx (k : K) (D : list K) : nat :=
    match D with [] => O | x :: r => if eqv k x then O else S (idx k r) end.
  Definition mem (k : K) (D : list K) : bool := existsb (eqv k) D.
  (* the dict after the keys D were entered in this order *)
  Definition enum_from (s : nat) (D : list K) : list (K * Z) := combine D (map Z.of_nat (seq s (List.length D))).

  Lemma enum_length s D : List.length (enum_from s D) = List.length D.
  Proof. unfold enum_from. rewrite combine_length, map_length, seq_length. apply Nat.min_id. Qed.
  Lemma enum_app s D k : enum_from s (D ++ [k]) = enum_from s D ++ [(k, Z.of_nat (s + List.length D))].
  Proof.
    unfold enum_from. revert s. induction D as [|x D IH]; intros s; simpl.
    - rewrite Nat.add_0_r. reflexivity.
    - f_equal. rewrite IH. do 3 f_equal. lia.
  Qed.
  Lemma dict_get_enum k D : forall s,
    gdict_get eqv k (enum_from s D) = if mem k D then Some (Z.of_nat (s + idx k D)) else None.
  Proof.
    unfold enum_from, mem. induction D as [|x D IH]; intros s; simpl; auto.
    destruct (eqv k x); simpl.
    - rewrite Nat.add_0_r. reflexivity.
    - rewrite IH. destruct (existsb (eqv k) D); auto. do 2 f_equal. lia.
  Qed.

  Lemma mem_app k D X : mem k (D ++ X) = mem k D || mem k X.
  Proof. apply existsb_app. Qed.
  Lemma mem_true k D : mem k D = true <-> exists x, In x D /\ eqv k x = true.
  Proof. apply existsb_exists. Qed.
  Lemma idx_app_in k D X : mem k D = true -> idx k (D ++ X) = idx k D.
  Proof.
    unfold mem. induction D as [|x D IH]; simpl; [discriminate|].
    destruct (eqv k x); simpl; auto.
  Qed.
  Lemma idx_app_out k D X : mem k D = false -> idx k (D ++ X) = (List.length D + idx k X)%nat.
  Proof.
    unfold mem. induction D as [|x D IH]; simpl; auto.
    destruct (eqv k x); simpl; [discriminate|]. intros H. rewrite IH; auto.
  Qed.

  (* the keys known after `keys` were looked up, starting from D *)
  Definition full (D keys : list K) : list K := D ++ filter (fun y => negb (mem y D)) (distinct eqv keys).

  Lemma full_step_in D k r : mem k D = true -> full D (k :: r) = full D r.
  Proof.
    intros M. unfold full. f_equal. simpl. rewrite M. simpl.
    rewrite filter_filter_and. apply filter_ext. intros y.
    destruct (eqv y k) eqn:E; simpl; auto.
    apply mem_true in M. destruct M as [x [Hx Ex]].
    assert (mem y D = true) as ->; [|reflexivity].
    apply mem_true. exists x. split; auto. eapply eqv_trans; eauto.
  Qed.
  Lemma full_step_out D k r : mem k D = false -> full D (k :: r) = full (D ++ [k]) r.
  Proof.
    intros M. unfold full. simpl. rewrite M. simpl. rewrite <- app_assoc. simpl. do 2 f_equal.
    rewrite filter_filter_and. apply filter_ext. intros y.
    rewrite mem_app. unfold mem at 2. simpl. rewrite orb_false_r, negb_orb. apply andb_comm.
  Qed.
  Lemma full_nil keys : full [] keys = distinct eqv keys.
  Proof. unfold full. simpl. apply filter_all_true. auto. Qed.

  Theorem number_keys_spec keys : forall D,
    gnumber_keys eqv keys (enum_from 0 D) = map (fun k => Z.of_nat (idx k (full D keys))) keys.
  Proof.
    induction keys as [|k r IH]; intros D; simpl; auto.
    rewrite dict_get_enum. destruct (mem k D) eqn:M.
    - f_equal.
      + rewrite full_step_in by auto. unfold full. rewrite idx_app_in; auto.
      + rewrite IH. apply map_ext. intros a. rewrite full_step_in; auto.
    - rewrite enum_length, k_group_newid_spec.
      replace (Z.of_nat (List.length D)) with (Z.of_nat (0 + List.length D)) at 2 by reflexivity.
      rewrite <- enum_app. f_equal.
      + rewrite full_step_out by auto. unfold full.
        assert (mem k (D ++ [k]) = true) as M2.
        { rewrite mem_app. unfold mem at 2. simpl. rewrite eqv_refl. rewrite orb_true_r. reflexivity. }
        rewrite idx_app_in by exact M2. rewrite idx_app_out by exact M. simpl. rewrite eqv_refl. f_equal. lia.
      + rewrite IH. apply map_ext. intros a. rewrite full_step_out; auto.
  Qed.

  (* positions in a listing of pairwise different keys *)
  Lemma idx_lt k D : mem k D = true -> (idx k D < List.length D)%nat.
  Proof.
    unfold mem. induction D as [|x D IH]; simpl; [discriminate|].
    destruct (eqv k x); simpl; [lia|]. intros H. apply IH in H. lia.
  Qed.
  Lemma idx_nth k D dflt : mem k D = true -> eqv k (nth (idx k D) D dflt) = true.
  Proof.
    unfold mem. induction D as [|x D IH]; simpl; [discriminate|].
    destruct (eqv k x) eqn:E; simpl; auto.
  Qed.
  Lemma idx_first k D dflt : forall i,
    pairwise_ne eqv D -> (i < List.length D)%nat -> eqv k (nth i D dflt) = true -> idx k D = i.
  Proof.
    induction D as [|x D IH]; intros i HP Hi E; simpl in *; [lia|].
    inversion HP as [|? ? Hx HD]; subst.
    destruct i as [|i].
    - rewrite E. reflexivity.
    - destruct (eqv k x) eqn:Ex.
      + exfalso. rewrite Forall_forall in Hx.
        assert (ne eqv x (nth i D dflt)) as Hn by (apply Hx; apply nth_In; lia).
        unfold ne in Hn. assert (eqv x (nth i D dflt) = true); [|congruence].
        eapply eqv_trans; [|exact E]. rewrite eqv_sym. exact Ex.
      + f_equal. apply IH; auto. lia.
  Qed.
  Lemma idx_eqv D a b :
    pairwise_ne eqv D -> mem a D = true -> mem b D = true -> Nat.eqb (idx a D) (idx b D) = eqv a b.
  Proof.
    intros HP Ha Hb. destruct (eqv a b) eqn:E.
    - apply Nat.eqb_eq. apply (idx_first a D b); auto.
      + apply idx_lt; auto.
      + eapply eqv_trans; [exact E|]. apply idx_nth; auto.
    - apply Nat.eqb_neq. intros Hi. assert (eqv a b = true); [|congruence].
      pose proof (idx_nth a D b Ha) as H1. pose proof (idx_nth b D b Hb) as H2. rewrite Hi in H1.
      eapply eqv_trans; [exact H1|]. rewrite eqv_sym. exact H2.
  Qed.
  Lemma idx_self_gen P : forall S,
    pairwise_ne eqv (P ++ S) -> map (fun k => idx k (P ++ S)) S = seq (List.length P) (List.length S).
  Proof.
    intros S. revert P. induction S as [|x S IH]; intros P HP; simpl; auto.
    f_equal.
    - apply (idx_first x (P ++ x :: S) x); auto.
      + rewrite app_length. simpl. lia.
      + rewrite app_nth2 by lia. rewrite Nat.sub_diag. simpl. apply eqv_refl.
    - replace (P ++ x :: S) with ((P ++ [x]) ++ S) in * by (rewrite <- app_assoc; reflexivity).
      rewrite IH by exact HP. rewrite app_length. simpl. f_equal. lia.
  Qed.
  Lemma idx_self D : pairwise_ne eqv D -> map (fun k => idx k D) D = seq 0 (List.length D).
  Proof. intros H. apply (idx_self_gen [] D H). Qed.
  Lemma mem_of_in k D : In k D -> mem k D = true.
  Proof. intros H. apply mem_true. exists k. auto. Qed.
  Lemma mem_covered D l x : covers eqv D l -> In x l -> mem x D = true.
  Proof. intros Hc Hx. apply mem_true. destruct (Hc x Hx) as [u [Hu E]]. eauto. Qed.

  (* distinct commutes with a map that preserves (in)equality of the listed keys *)
  Lemma distinct_map {K'} (eqv' : K' -> K' -> bool) (f : K -> K') l :
    (forall a b, In a l -> In b l -> eqv' (f a) (f b) = eqv a b) ->
    distinct eqv' (map f l) = map f (distinct eqv l).
  Proof.
    induction l as [|x l IH]; simpl; intros H; auto.
    rewrite IH by (intros; apply H; auto). f_equal.
    rewrite filter_map_comm. f_equal. apply filter_ext_in. intros y Hy.
    apply distinct_in in Hy. rewrite H; auto.
  Qed.

  (* the key kept for a group is the key of the group's first row *)
  Lemma distinct_first (key : nat -> K) ps u :
    In u (distinct eqv (map key ps)) -> exists p rest, rows_with eqv key u ps = p :: rest /\ key p = u.
  Proof.
    induction ps as [|a ps IH]; simpl; [contradiction|].
    intros [<-|H].
    - rewrite eqv_refl. eauto.
    - apply filter_In in H. destruct H as [H E].
      rewrite eqv_sym. destruct (eqv u (key a)); [discriminate|]. auto.
  Qed.
End Num.

(* ====================================================================== *)
(* the code's key (NaN replaced by the text nan, tuples compared by ==) numbers the rows like keys_eq does *)
Section Transfer.
  Context {K K' : Type}.
  Variable e : K -> K -> bool.
  Variable e' : K' -> K' -> bool.
  Variable h : K -> K'.
  Variable P : K -> Prop.
  Hypothesis He : forall a b, P a -> P b -> e' (h a) (h b) = e a b.
  Let hd_ (d : list (K * Z)) : list (K' * Z) := map (fun kv => (h (fst kv), snd kv)) d.

  Lemma gdict_get_transfer k d :
    P k -> Forall (fun kv => P (fst kv)) d -> gdict_get e' (h k) (hd_ d) = gdict_get e k d.
  Proof.
    intros Pk. induction d as [|[k' v] d IH]; simpl; intros Pd; auto.
    inversion Pd; subst. simpl in *. rewrite He by auto. destruct (e k k'); auto.
  Qed.
  Lemma gnumber_keys_transfer ks : forall d,
    Forall P ks -> Forall (fun kv => P (fst kv)) d ->
    gnumber_keys e' (map h ks) (hd_ d) = gnumber_keys e ks d.
  Proof.
    induction ks as [|a ks IH]; simpl; intros d Pk Pd; auto.
    inversion Pk; subst. rewrite gdict_get_transfer by auto. destruct (gdict_get e a d).
    - f_equal. apply IH; auto.
    - unfold hd_ in *. rewrite map_length. f_equal.
      specialize (IH (d ++ [(a, k_group_newid (Z.of_nat (List.length d)))])).
      rewrite map_app in IH. simpl in IH. apply IH; auto.
      apply Forall_app. split; auto.
  Qed.
End Transfer.

(* ---------- integers as cells *)
Lemma dy_cmp_int x y : dy_cmp (x, 0%Z) (y, 0%Z) = Z.compare x y.
Proof. unfold dy_cmp. simpl. rewrite !Z.mul_1_r. reflexivity. Qed.
Lemma key_eq_int x y : key_eq (VInt x) (VInt y) = Z.eqb x y.
Proof.
  rewrite key_eq_cls. unfold cls, cls_eq, rep_eq. rewrite dy_cmp_int.
  destruct (Z.compare_spec x y); destruct (Z.eqb_spec x y); auto; lia.
Qed.
Lemma num_le_int x y : num_le (VInt x) (VInt y) = Z.leb x y.
Proof.
  unfold num_le, num_leb, num_cmp. cbn [is_nan val_num orb]. rewrite dy_cmp_int. unfold Z.leb. destruct (x ?= y)%Z; reflexivity.
Qed.
Definition icell (i : nat) : val := VInt (Z.of_nat i).
Lemma key_eq_icell i j : key_eq (icell i) (icell j) = Nat.eqb i j.
Proof.
  unfold icell. rewrite key_eq_int. destruct (Z.eqb_spec (Z.of_nat i) (Z.of_nat j)); destruct (Nat.eqb_spec i j); auto; lia.
Qed.
(* np.unique of 0, 1, .., m-1 in any first-occurrence order: sorted ascending *)
Lemma isort_icells m : forall s, isort num_le (map icell (seq s m)) = map icell (seq s m).
Proof.
  induction m as [|m IH]; intros s; simpl; auto.
  rewrite IH. destruct m as [|m]; simpl; auto.
  unfold icell at 1 2. rewrite num_le_int. destruct (Z.leb_spec (Z.of_nat s) (Z.of_nat (S s))); auto. lia.
Qed.

(* ---------- the growing series *)
Lemma pad_to_pad_row d r : pad_to d r = pad_row d r.
Proof. reflexivity. Qed.
Lemma map_repeat' {A B} (f : A -> B) a n : map f (repeat a n) = repeat (f a) n.
Proof. induction n; simpl; congruence. Qed.
Lemma skipn_repeat {A} (a : A) n k : skipn k (repeat a n) = repeat a (n - k).
Proof. revert k. induction n as [|n IH]; intros [|k]; simpl; auto. Qed.
Lemma pad_to_length d r : (List.length r <= d)%nat -> List.length (pad_to d r) = d.
Proof. intros H. unfold pad_to. rewrite app_length, repeat_length. lia. Qed.
Lemma pad_to_twice d d1 r : (List.length r <= d)%nat -> (d <= d1)%nat -> pad_to d1 (pad_to d r) = pad_to d1 r.
Proof.
  intros H1 H2. unfold pad_to. rewrite app_length, repeat_length, <- app_assoc. f_equal.
  rewrite <- repeat_app. f_equal. lia.
Qed.
Lemma pad_to_nans d d1 : (d <= d1)%nat -> pad_to d1 (repeat FNan d) = repeat FNan d1.
Proof. intros H. unfold pad_to. rewrite repeat_length, <- repeat_app. f_equal. lia. Qed.
Lemma max_len_app {A} (a b : list (list A)) : max_len (a ++ b) = Nat.max (max_len a) (max_len b).
Proof. unfold max_len. induction a as [|x a IH]; simpl; auto. rewrite IH. lia. Qed.
Lemma max_len_map {A B} (f : A -> list B) (g : A -> nat) l :
  (forall x, In x l -> List.length (f x) = g x) -> max_len (map f l) = fold_right (fun x m => Nat.max (g x) m) O l.
Proof.
  unfold max_len. induction l as [|x l IH]; simpl; intros H; [reflexivity|].
  rewrite (H x) by auto. f_equal. apply IH. intros; apply H; auto.
Qed.

(* the rows of the series after some groups were stored: those groups padded, the others all NaN *)
Definition rows_form (depth : nat) (done : list (list fl)) (k : nat) : list (list fl) :=
  map (pad_to depth) done ++ repeat (repeat FNan depth) k.
Lemma rows_form_deepen depth d1 done k :
  depth = max_len done -> (depth <= d1)%nat -> map (pad_to d1) (rows_form depth done k) = rows_form d1 done k.
Proof.
  intros Hd Hle. unfold rows_form. rewrite map_app, map_map, map_repeat'. f_equal.
  - apply map_ext_in. intros r Hr. apply pad_to_twice; auto. subst depth. apply max_len_ge. auto.
  - f_equal. apply pad_to_nans. auto.
Qed.
Lemma update_at {A} (F : A -> A) (a : list A) r b : forall s,
  map (fun jr => if Nat.eqb (fst jr) (s + List.length a) then F (snd jr) else snd jr)
      (combine (seq s (List.length (a ++ r :: b))) (a ++ r :: b)) = a ++ F r :: b.
Proof.
  induction a as [|x a IH]; intros s; simpl.
  - rewrite Nat.add_0_r, Nat.eqb_refl. f_equal.
    assert (forall t, (s < t)%nat -> map (fun jr : nat * A => if Nat.eqb (fst jr) s then F (snd jr) else snd jr)
                                        (combine (seq t (List.length b)) b) = b) as Hb.
    { induction b as [|y b IHb]; intros t Ht; simpl; auto.
      destruct (Nat.eqb_spec t s); [lia|]. f_equal. apply IHb. lia. }
    apply Hb. lia.
  - destruct (Nat.eqb_spec s (s + S (List.length a))); [lia|]. f_equal.
    specialize (IH (S s)). replace (S s + List.length a)%nat with (s + S (List.length a))%nat in IH by lia. exact IH.
Qed.

Lemma series_step_spec done v k :
  series_step (max_len done, rows_form (max_len done) done (S k)) (List.length done) v
  = (max_len (done ++ [v]), rows_form (max_len (done ++ [v])) (done ++ [v]) k).
Proof.
  unfold series_step.
  set (depth := max_len done). set (n := Z.of_nat (List.length v)).
  assert (max_len (done ++ [v]) = Nat.max depth (List.length v)) as Hm.
  { rewrite max_len_app. unfold max_len at 2. simpl. fold depth. lia. }
  pose proof (k_group_depth_spec (Z.of_nat depth) n) as Hk.
  assert ((if k_group_grow (Z.of_nat depth) n
           then (Z.to_nat (k_group_newdepth (Z.of_nat depth) n),
                 map (pad_to (Z.to_nat (k_group_newdepth (Z.of_nat depth) n))) (rows_form depth done (S k)))
           else (depth, rows_form depth done (S k)))
          = (Nat.max depth (List.length v), rows_form (Nat.max depth (List.length v)) done (S k))) as ->.
  { destruct (k_group_grow (Z.of_nat depth) n).
    - rewrite Hk. replace (Z.to_nat (Z.max (Z.of_nat depth) n)) with (Nat.max depth (List.length v)) by (unfold n; lia).
      f_equal. apply rows_form_deepen; auto. lia.
    - replace (Nat.max depth (List.length v)) with depth by (unfold n in Hk; lia). reflexivity. }
  rewrite k_group_fill_spec. unfold n. rewrite Nat2Z.id. rewrite Hm.
  set (d1 := Nat.max depth (List.length v)). f_equal.
  unfold rows_form. simpl repeat.
  replace (List.length done) with (0 + List.length (map (pad_to d1) done))%nat by (rewrite map_length; reflexivity).
  rewrite (update_at (fun r => firstn (List.length v) v ++ skipn (List.length v) r)).
  rewrite firstn_all, skipn_repeat, map_app, <- app_assoc. reflexivity.
Qed.

Lemma series_run_gen rest : forall done,
  series_run (max_len done, rows_form (max_len done) done (List.length rest)) (List.length done) rest
  = (max_len (done ++ rest), map (pad_to (max_len (done ++ rest))) (done ++ rest)).
Proof.
  induction rest as [|v rest IH]; intros done; cbn [series_run List.length].
  - rewrite app_nil_r. unfold rows_form. simpl. rewrite app_nil_r. reflexivity.
  - rewrite series_step_spec. specialize (IH (done ++ [v])).
    rewrite app_length in IH. simpl in IH. rewrite Nat.add_1_r in IH. rewrite IH.
    rewrite <- app_assoc. reflexivity.
Qed.
(* the series of one grouped column: every group's values padded with NaN to the longest group *)
Theorem series_run_spec vals :
  series_run (O, repeat [] (List.length vals)) O vals = (max_len vals, map (pad_row (max_len vals)) vals).
Proof. exact (series_run_gen vals []). Qed.

(* ====================================================================== *)
(* the table: columns by name, the premise, the pieces of m_group *)
Lemma find_col_In n v k cs : find_col n v = Some (k, cs) -> In (n, k, cs) v.
Proof.
  induction v as [|[[m k'] cs'] v IH]; simpl; [discriminate|].
  destruct (String.eqb n m) eqn:E; auto.
  intros H. inversion H; subst. apply String.eqb_eq in E. subst. auto.
Qed.
Lemma col_cells_find n v :
  col_cells n v = match find_col n v with Some kc => Some (snd kc) | None => None end.
Proof. induction v as [|[[m k] cs] v IH]; simpl; auto. destruct (String.eqb n m); auto. Qed.
Lemma all_some_snd names v :
  all_some (map (fun n => col_cells n v) names)
  = match all_some (map (fun n => find_col n v) names) with Some bys => Some (map snd bys) | None => None end.
Proof.
  induction names as [|a names IH]; simpl; auto. rewrite col_cells_find. destruct (find_col a v); auto.
  rewrite IH. destruct (all_some (map (fun n => find_col n v) names)); auto.
Qed.
Lemma all_some_in {A} (l : list (option A)) : forall r x, all_some l = Some r -> In x r -> In (Some x) l.
Proof.
  induction l as [|[a|] l IH]; simpl; intros r x H Hx; try discriminate.
  - inversion H; subst. contradiction.
  - destruct (all_some l) as [r'|]; [|discriminate]. inversion H; subst. destruct Hx as [->|Hx]; eauto.
Qed.
Lemma all_some_nth {A} (l : list (option A)) : forall r j d,
  all_some l = Some r -> (j < List.length l)%nat -> nth j l None = Some (nth j r d).
Proof.
  induction l as [|[a|] l IH]; simpl; intros r j d H Hj; try discriminate; [lia|].
  destruct (all_some l) as [r'|] eqn:E; [|discriminate]. inversion H; subst.
  destruct j as [|j]; simpl; auto. apply IH; auto. lia.
Qed.
Lemma nodup_str_find v :
  nodup_str (map (fun c : string * kind * list val => fst (fst c)) v) = true ->
  forall n k cs, In (n, k, cs) v -> find_col n v = Some (k, cs).
Proof.
  induction v as [|[[m k'] cs'] v IH]; simpl; intros H n k cs Hin; [contradiction|].
  apply andb_true_iff in H. destruct H as [H1 H2].
  destruct Hin as [E|Hin].
  - inversion E; subst. rewrite String.eqb_refl. reflexivity.
  - destruct (String.eqb n m) eqn:E; [|apply IH; auto].
    exfalso. apply String.eqb_eq in E. subst. apply negb_true_iff in H1.
    assert (existsb (String.eqb m) (map (fun c : string * kind * list val => fst (fst c)) v) = true); [|congruence].
    apply existsb_exists. exists m. split; [|apply String.eqb_refl].
    apply in_map_iff. exists (m, k, cs). auto.
Qed.
Lemma index_of_name_some n l : forall s j,
  index_of_name n l s = Some j -> exists i, j = (s + i)%nat /\ (i < List.length l)%nat /\ nth i l ""%string = n.
Proof.
  induction l as [|a l IH]; simpl; intros s j H; [discriminate|]. destruct (String.eqb n a) eqn:E.
  - inversion H; subst. exists 0%nat. split; [lia|]. split; [lia|]. apply String.eqb_eq in E. auto.
  - apply IH in H. destruct H as [i [-> [Hi Hn]]]. exists (S i). split; [lia|]. split; [lia|]. auto.
Qed.
Lemma index_of_name_exists n l : forall s,
  existsb (String.eqb n) l = match index_of_name n l s with Some _ => true | None => false end.
Proof. induction l as [|a l IH]; simpl; intros s; auto. destruct (String.eqb n a); simpl; auto. Qed.

Lemma not_nan_text_b_spec v : not_nan_text_b v = true -> not_nan_text v.
Proof.
  intros H E. subst v. discriminate H.
Qed.
Lemma not_nan_text_cell c p : Forall not_nan_text c -> not_nan_text (cell c p).
Proof.
  intros H. unfold cell. destruct (nth_in_or_default p c VNone) as [Hin|E].
  - rewrite Forall_forall in H. auto.
  - rewrite E. discriminate.
Qed.

Lemma wf_group_unpack d bynames :
  wf_group_b d bynames = true ->
  NoDup (m_rid d) /\ nrows_of (m_cols d) = List.length (m_rid d)
  /\ (forall n k cs, In (n, k, cs) (m_cols d) -> List.length cs = List.length (m_rid d))
  /\ nodup_str (map (fun c : string * kind * list val => fst (fst c)) (m_cols d)) = true
  /\ (forall n k cs, In (n, k, cs) (m_cols d) -> In n bynames -> Forall not_nan_text cs).
Proof.
  unfold wf_group_b. rewrite !andb_true_iff. intros [[[[H1 H2] H3] H4] H5].
  split; [apply nodup_N_NoDup; auto|]. split; [apply Nat.eqb_eq; auto|]. split; [|split; auto].
  - intros n k cs Hin. rewrite forallb_forall in H3. specialize (H3 _ Hin). simpl in H3. apply Nat.eqb_eq; auto.
  - intros n k cs Hin Hb. rewrite forallb_forall in H5. specialize (H5 _ Hin). simpl in H5.
    apply orb_true_iff in H5. destruct H5 as [H5|H5].
    + apply negb_true_iff in H5.
      assert (existsb (String.eqb n) bynames = true); [|congruence].
      apply existsb_exists. exists n. split; auto. apply String.eqb_refl.
    + apply Forall_forall. intros c Hc. rewrite forallb_forall in H5. apply not_nan_text_b_spec. auto.
Qed.

Lemma map_seq_nth {A B} (F : A -> B) (D : list A) dflt :
  map (fun i => F (nth i D dflt)) (seq 0 (List.length D)) = map F D.
Proof.
  induction D as [|x D IH]; simpl; auto. f_equal. rewrite <- seq_shift, map_map. exact IH.
Qed.
Lemma rid_all d : map (rid_at d) (seq 0 (List.length (m_rid d))) = m_rid d.
Proof. unfold rid_at. rewrite (map_seq_nth (fun x => x)). apply map_id. Qed.
Lemma m_take_all' d :
  (forall n k cs, In (n, k, cs) (m_cols d) -> List.length cs = List.length (m_rid d)) ->
  m_take (seq 0 (List.length (m_rid d))) d = d.
Proof.
  intros Hc. unfold m_take. rewrite rid_all. destruct d as [rid cs]. simpl in *. f_equal.
  unfold take_cols. rewrite <- (map_id cs) at 2. apply map_ext_in. intros [[n k] c] Hin.
  rewrite <- (Hc _ _ _ Hin), take_all_cells. reflexivity.
Qed.

Lemma cell_map_keycell c : forall p, cell (map m_keycell c) p = m_keycell (cell c p).
Proof.
  unfold cell. induction c as [|x c IH]; intros [|p]; simpl; auto; rewrite m_keycell_spec; reflexivity.
Qed.
(* the tuples of zip over bycols: the key cells of the rows' by-values *)
Lemma model_keys (bys : list (kind * list val)) ps :
  map (fun p => map (fun c => cell c p) (map (fun kc => map m_keycell (snd kc)) bys)) ps
  = map (map m_keycell) (map (row_key (map snd bys)) ps).
Proof.
  rewrite map_map. apply map_ext. intros p. unfold row_key. rewrite !map_map. apply map_ext. intros kc.
  apply cell_map_keycell.
Qed.

Local Notation kidx := (idx keys_eq).
Local Notation kdistinct := (distinct keys_eq).

(* bycol_hashed: the position of the row's combination among the distinct combinations *)
Lemma model_hashed rawkeys :
  Forall (Forall not_nan_text) rawkeys ->
  number_keys (map (map m_keycell) rawkeys) [] = map (fun k => Z.of_nat (kidx k (kdistinct rawkeys))) rawkeys.
Proof.
  intros H. unfold number_keys.
  change (@nil (list val * Z)) with (map (fun kv : list val * Z => (map m_keycell (fst kv), snd kv)) []).
  rewrite (gnumber_keys_transfer keys_eq tuple_eq (map m_keycell) (Forall not_nan_text)); auto.
  - change (@nil (list val * Z)) with (enum_from 0 (@nil (list val))).
    rewrite (number_keys_spec keys_eq keys_eq_refl keys_eq_trans). rewrite full_nil. reflexivity.
  - intros a b Ha Hb. apply group_key_faithful; auto.
Qed.

Lemma kmem_rawkeys rawkeys k : In k rawkeys -> mem keys_eq k (kdistinct rawkeys) = true.
Proof.
  intros H. apply (mem_covered keys_eq (kdistinct rawkeys) rawkeys); auto.
  apply distinct_covers; [apply keys_eq_refl | apply keys_eq_trans].
Qed.
Lemma kpairwise rawkeys : pairwise_ne keys_eq (kdistinct rawkeys).
Proof. apply distinct_pairwise. apply keys_eq_sym. Qed.

(* keys = bycol_hashed.unique: 0 .. m-1 *)
Lemma model_ukeys rawkeys :
  m_unique KInt (map VInt (map (fun k => Z.of_nat (kidx k (kdistinct rawkeys))) rawkeys))
  = map icell (seq 0 (List.length (kdistinct rawkeys))).
Proof.
  unfold m_unique. rewrite map_map.
  change (fun x : list val => VInt (Z.of_nat (kidx x (kdistinct rawkeys))))
    with (fun x : list val => icell (kidx x (kdistinct rawkeys))).
  rewrite (distinct_map keys_eq key_eq (fun x => icell (kidx x (kdistinct rawkeys))) rawkeys).
  - rewrite <- (map_map (fun x => kidx x (kdistinct rawkeys)) icell).
    rewrite (idx_self keys_eq keys_eq_refl keys_eq_sym keys_eq_trans _ (kpairwise rawkeys)). apply isort_icells.
  - intros a b Ha Hb. rewrite key_eq_icell.
    apply (idx_eqv keys_eq keys_eq_sym keys_eq_trans); auto using kpairwise, kmem_rawkeys.
Qed.

(* bycol_hashed == i selects the rows of the i-th distinct combination *)
Lemma model_rows (key : nat -> list val) n i :
  let rawkeys := map key (seq 0 n) in
  let D := kdistinct rawkeys in
  (i < List.length D)%nat ->
  rows_with key_eq (cell (map VInt (map (fun k => Z.of_nat (kidx k D)) rawkeys))) (icell i) (seq 0 n)
  = rows_with keys_eq key (nth i D []) (seq 0 n).
Proof.
  intros rawkeys D Hi. unfold rows_with. apply filter_ext_in. intros p Hp. apply in_seq in Hp.
  unfold cell, rawkeys. rewrite !map_map. rewrite nth_map_seq by lia. fold (icell (kidx (key p) D)).
  rewrite key_eq_icell.
  assert (In (nth i D []) rawkeys) as HinD by (apply (distinct_in keys_eq); apply nth_In; auto).
  assert (kidx (nth i D []) D = i) as Hself.
  { apply (idx_first keys_eq keys_eq_sym keys_eq_trans _ D []); [apply kpairwise|exact Hi|apply keys_eq_refl]. }
  rewrite <- Hself at 1.
  apply (idx_eqv keys_eq keys_eq_sym keys_eq_trans); [apply kpairwise| |].
  - apply kmem_rawkeys. unfold rawkeys. apply in_map. apply in_seq. lia.
  - apply kmem_rawkeys. auto.
Qed.

(* dm_ = bycol_hashed == key: the rows at the selected positions *)
Lemma model_select d hashed v :
  NoDup (m_rid d) ->
  (forall n k cs, In (n, k, cs) (m_cols d) -> List.length cs = List.length (m_rid d)) ->
  List.length hashed = List.length (m_rid d) -> (forall c, In c hashed -> is_num c = true) ->
  m_selectrowid d (m_compare_eq KInt (m_rid d) hashed v)
  = m_take (rows_with key_eq (cell hashed) v (seq 0 (List.length (m_rid d)))) d.
Proof.
  intros ND Hlen Hh Hnum. set (n := List.length (m_rid d)).
  assert (m_compare_eq KInt (m_rid d) hashed v = map (rid_at d) (rows_with key_eq (cell hashed) v (seq 0 n))) as ->.
  { rewrite <- (m_compare_eq_spec KInt (rid_at d) hashed v (seq 0 n)).
    - f_equal; [symmetry; apply rid_all|]. unfold n. rewrite <- Hh. symmetry. apply take_all_cells.
    - intros p Hp. apply Hnum. unfold cell. apply nth_In. apply in_seq in Hp. unfold n in Hp. lia. }
  pose proof (m_selectrowid_take d (seq 0 n) (rows_with key_eq (cell hashed) v (seq 0 n)) ND) as Hs.
  unfold n in *. rewrite (m_take_all' d Hlen) in Hs. apply Hs.
  - intros p Hp. apply in_seq in Hp. lia.
  - intros p Hp. apply rows_with_spec in Hp. tauto.
Qed.

Lemma all_some_length {A} (l : list (option A)) : forall r, all_some l = Some r -> List.length r = List.length l.
Proof.
  induction l as [|[a|] l IH]; simpl; intros r H; try discriminate.
  - inversion H. reflexivity.
  - destruct (all_some l) as [r'|]; [|discriminate]. inversion H; subst. simpl. f_equal. auto.
Qed.

(* the by-column found under the j-th by-name *)
Lemma bycol_nth (v : cols) bynames bys nm k cs i :
  all_some (map (fun n => find_col n v) bynames) = Some bys ->
  (i < List.length bynames)%nat -> nth i bynames ""%string = nm -> find_col nm v = Some (k, cs) ->
  nth i (map snd bys) [] = cs.
Proof.
  intros Eb Hi Hnm Hf.
  pose proof (all_some_length _ _ Eb) as Hl. rewrite map_length in Hl.
  pose proof (all_some_nth _ bys i (k, cs) Eb) as Hnth. rewrite map_length in Hnth. specialize (Hnth Hi).
  rewrite (nth_indep _ None (find_col ""%string v)) in Hnth by (rewrite map_length; auto).
  rewrite (map_nth (fun n => find_col n v)) in Hnth. rewrite Hnm, Hf in Hnth. inversion Hnth as [Hkc].
  rewrite (nth_indep _ [] (snd (k, cs))) by (rewrite map_length; lia).
  rewrite map_nth. rewrite <- Hkc. reflexivity.
Qed.

(* ====================================================================== *)
(* ops.group as the code computes it  =  the L0 group, for every well-formed source *)
Theorem m_group_refines d bynames :
  wf_group_b d bynames = true -> m_group d bynames = group (m_cols d) bynames.
Proof.
  intros Hwf. destruct (wf_group_unpack _ _ Hwf) as [ND [Hn [Hlen [Hnames Hnan]]]].
  unfold m_group, group. rewrite all_some_snd.
  destruct (all_some (map (fun n => find_col n (m_cols d)) bynames)) as [bys|] eqn:Ebys; [|reflexivity].
  cbv zeta. rewrite Hn. rewrite model_keys.
  set (n := List.length (m_rid d)).
  set (bycols := map snd bys).
  set (key := row_key bycols).
  set (rawkeys := map key (seq 0 n)).
  (* no by-value is the literal text nan *)
  assert (Hraw : Forall (Forall not_nan_text) rawkeys).
  { apply Forall_forall. intros rk Hrk. unfold rawkeys in Hrk. apply in_map_iff in Hrk. destruct Hrk as [p [<- _]].
    unfold key, row_key. apply Forall_forall. intros c Hc. apply in_map_iff in Hc. destruct Hc as [col [<- Hcol]].
    apply not_nan_text_cell. unfold bycols in Hcol. apply in_map_iff in Hcol. destruct Hcol as [[k cs] [<- Hkc]].
    pose proof (all_some_in _ _ _ Ebys Hkc) as Hs. apply in_map_iff in Hs. destruct Hs as [bn [Hf Hbn]].
    apply find_col_In in Hf. simpl. eapply Hnan; eauto. }
  rewrite (model_hashed rawkeys Hraw). rewrite model_ukeys.
  set (D := kdistinct rawkeys).
  set (hashed := map VInt (map (fun k => Z.of_nat (kidx k D)) rawkeys)).
  (* one selection per key: the rows of the corresponding distinct combination *)
  assert (Hsel : map (fun k => m_selectrowid d (m_compare_eq KInt (m_rid d) hashed k)) (map icell (seq 0 (List.length D)))
                 = map (fun u => m_take (rows_with keys_eq key u (seq 0 n)) d) D).
  { rewrite map_map. rewrite <- (map_seq_nth (fun u => m_take (rows_with keys_eq key u (seq 0 n)) d) D []).
    apply map_ext_in. intros i Hi. apply in_seq in Hi.
    rewrite model_select; auto.
    - fold n. f_equal. apply (model_rows key n i). fold rawkeys. fold D. lia.
    - unfold hashed, rawkeys. rewrite !map_length, seq_length. reflexivity.
    - intros c Hc. unfold hashed in Hc. apply in_map_iff in Hc. destruct Hc as [z [<- _]]. reflexivity. }
  rewrite Hsel.
  assert (Hgroups : groups bycols (seq 0 n) = map (fun u => (u, rows_with keys_eq key u (seq 0 n))) D) by reflexivity.
  rewrite Hgroups.
  f_equal. f_equal.
  - rewrite !map_length, seq_length. reflexivity.
  - (* by-columns: the by-values of the group's first row *)
    apply flat_map_ext_in. intros [[nm k] cs] Hin.
    rewrite (index_of_name_exists nm bynames 0). destruct (index_of_name nm bynames 0) as [j|] eqn:Ej; [|reflexivity].
    f_equal. f_equal. unfold by_cells. rewrite !map_map. apply map_ext_in. intros u Hu.
    cbn [m_take m_cols fst]. rewrite find_col_take. rewrite (nodup_str_find _ Hnames _ _ _ Hin).
    rewrite k_group_bycell_row_spec. change (Z.to_nat 0) with 0%nat.
    destruct (distinct_first keys_eq keys_eq_refl keys_eq_sym key (seq 0 n) u Hu) as [p [rest [Hrows Hkey]]].
    rewrite Hrows. cbn [take_cells map]. unfold cell at 1. cbn [nth].
    rewrite <- Hkey. unfold key. rewrite row_key_nth. f_equal.
    destruct (index_of_name_some _ _ _ _ Ej) as [i [-> [Hi Hnm]]]. simpl.
    symmetry. apply (bycol_nth (m_cols d) bynames bys nm k cs i Ebys Hi Hnm). apply nodup_str_find; auto.
  - (* the other columns: series in source order, padded with NaN to the longest group *)
    apply flat_map_ext_in. intros [[nm k] cs] Hin.
    rewrite (index_of_name_exists nm bynames 0). destruct (index_of_name nm bynames 0) as [j|] eqn:Ej; [reflexivity|].
    rewrite !map_map. cbn [m_take m_cols snd].
    set (parts := map (fun u => rows_with keys_eq key u (seq 0 n)) D).
    assert (Hvals : map (fun u => match find_col nm (take_cols (rows_with keys_eq key u (seq 0 n)) (m_cols d)) with
                                  | Some (_, cs0) => map to_fl cs0
                                  | None => []
                                  end) D
                    = map (fun qs => map to_fl (take_cells qs cs)) parts).
    { unfold parts. rewrite map_map. apply map_ext. intros u.
      rewrite find_col_take. rewrite (nodup_str_find _ Hnames _ _ _ Hin). reflexivity. }
    rewrite Hvals.
    replace (List.length (map icell (seq 0 (List.length D))))
      with (List.length (map (fun qs => map to_fl (take_cells qs cs)) parts))
      by (unfold parts; rewrite !map_length, seq_length; reflexivity).
    rewrite series_run_spec.
    assert (Hmax : max_len (map (fun qs => map to_fl (take_cells qs cs)) parts) = max_len parts).
    { rewrite (max_len_map _ (@List.length nat)); [reflexivity|].
      intros qs _. unfold take_cells. rewrite !map_length. reflexivity. }
    rewrite Hmax. fold parts. unfold series_of. rewrite map_map. reflexivity.
Qed.
