(* Proofs for C20 (memoize): kernel characterisations, the L1 call in closed
   form, the laws of the property over all call histories, and L1 refines L0
   (every trace of the model is accepted by Spec.Memo.accept). *)
From Coq Require Import ZArith List Bool Lia.
From DM Require Import Gen.KMemo Spec.Memo Model.Memo.
Import ListNotations.
Open Scope Z_scope.

(* ---------- characterising lemmas of the generated kernels ---------- *)
Lemma k_evict_test_true : forall c m, k_evict_test c m = true -> c > m.
Proof. intros c m. unfold k_evict_test. lia. Qed.
Lemma k_evict_test_false : forall c m, k_evict_test c m = false -> c <= m.
Proof. intros c m. unfold k_evict_test. lia. Qed.
Lemma k_evict_test_fits : forall c m, c <= m -> k_evict_test c m = false.
Proof. intros c m. unfold k_evict_test. lia. Qed.
Lemma k_pop_last_spec : k_pop_last = false.
Proof. reflexivity. Qed.
Lemma k_memkey_spec : forall (K : Type) b (d e : K), k_memkey b d e = if b then d else e.
Proof. intros K b d e. destruct b; reflexivity. Qed.
Lemma k_lazy_test_spec : forall l, k_lazy_test l = l.
Proof. intros l. destruct l; reflexivity. Qed.
Lemma k_read_cache_spec : forall ignore persistent on_disk in_mem,
  k_read_cache ignore persistent on_disk in_mem =
  if ignore then {| r_hit := None; r_reset := true; r_delmem := true; r_deldisk := true |}
  else if persistent
       then (if on_disk then {| r_hit := Some SDisk; r_reset := false; r_delmem := false; r_deldisk := false |}
             else {| r_hit := None; r_reset := false; r_delmem := false; r_deldisk := false |})
       else (if in_mem then {| r_hit := Some SMem; r_reset := false; r_delmem := false; r_deldisk := false |}
             else {| r_hit := None; r_reset := false; r_delmem := false; r_deldisk := false |}).
Proof. intros [] [] [] []; reflexivity. Qed.
(* a store only happens after a miss, i.e. when no file exists: the on_disk = true row is left free *)
Lemma k_write_cache_spec : forall persistent,
  k_write_cache persistent false =
  if persistent then {| w_disk := true; w_mem := false; w_evict := false |}
  else {| w_disk := false; w_mem := true; w_evict := true |}.
Proof. intros []; reflexivity. Qed.
Lemma k_write_cache_mem : forall on_disk,
  k_write_cache false on_disk = {| w_disk := false; w_mem := true; w_evict := true |}.
Proof. intros []; reflexivity. Qed.

Section MemoFacts.
  Variables (A K V F : Type).
  Variable f : A -> V.
  Variable key_of : A -> K.
  Variable thunks : A -> nat.
  Variable size : V -> Z.
  Variables (keqb : K -> K -> bool) (veqb : V -> V -> bool) (feqb : F -> F -> bool).
  Hypothesis keqb_spec : forall a b, keqb a b = true <-> a = b.
  Hypothesis feqb_spec : forall a b, feqb a b = true <-> a = b.
  Hypothesis veqb_refl : forall v, veqb v v = true.

  Notation opts := (opts K F).
  Notation inst := (inst K V).
  Notation world := (world K V F).
  Notation event := (event K V).
  Notation lookup := (lookup K V keqb).
  Notation remove := (remove K V keqb).
  Notation dlookup := (dlookup K V F keqb feqb).
  Notation dremove := (dremove K V F keqb feqb).
  Notation dkeys := (dkeys K V F feqb).
  Notation total := (total K V size).
  Notation key := (key A K F key_of).
  Notation at_ := (at_ K V F keqb feqb).
  Notation od_set := (od_set K V keqb).
  Notation dset := (dset K V F keqb feqb).
  Notation evict := (evict K V size).
  Notation icall := (icall A K V F f key_of thunks size keqb feqb).
  Notation mk_event := (mk_event K V F size feqb).
  Notation irun := (irun A K V F f key_of thunks size keqb feqb).
  Notation wstep := (wstep A K V F f key_of thunks size keqb feqb).
  Notation wrun := (wrun A K V F f key_of thunks size keqb feqb).
  Notation accept := (accept A K V F f key_of thunks size keqb veqb feqb).
  Notation spec_call := (spec_call A K V F f key_of thunks size keqb veqb feqb).
  Notation memkey := (memkey A K F key_of).

  Lemma keqb_refl : forall k, keqb k k = true.
  Proof. intros k. apply keqb_spec. reflexivity. Qed.
  Lemma feqb_refl : forall k, feqb k k = true.
  Proof. intros k. apply feqb_spec. reflexivity. Qed.
  Lemma keqb_neq : forall a b, a <> b -> keqb a b = false.
  Proof. intros a b H. destruct (keqb a b) eqn:E; auto. apply keqb_spec in E. contradiction. Qed.
  Lemma keqb_false : forall a b, keqb a b = false -> a <> b.
  Proof. intros a b H E. subst. rewrite keqb_refl in H. discriminate. Qed.

  (* ---------- association lists ---------- *)
  Lemma lookup_remove_same : forall k m, lookup k (remove k m) = None.
  Proof.
    intros k m. induction m as [|[k' v] r IH]; simpl; auto.
    destruct (keqb k k') eqn:E; auto. simpl. rewrite E. auto.
  Qed.
  Lemma lookup_remove_other : forall k k1 m, k <> k1 -> lookup k (remove k1 m) = lookup k m.
  Proof.
    intros k k1 m H. induction m as [|[k' v] r IH]; simpl; auto.
    destruct (keqb k1 k') eqn:E1.
    - apply keqb_spec in E1. subst k'. rewrite (keqb_neq _ _ H). auto.
    - simpl. destruct (keqb k k'); auto.
  Qed.
  Lemma lookup_app : forall k m m', lookup k (m ++ m') =
    match lookup k m with Some v => Some v | None => lookup k m' end.
  Proof.
    intros k m m'. induction m as [|[k' v] r IH]; simpl; auto. destruct (keqb k k'); auto.
  Qed.
  Lemma od_set_fresh : forall k v m, lookup k m = None -> od_set k v m = m ++ [(k, v)].
  Proof.
    intros k v m. induction m as [|[k' v'] r IH]; simpl; auto.
    destruct (keqb k k'); intros H; [discriminate|]. rewrite IH; auto.
  Qed.
  Lemma lookup_In : forall k m v, lookup k m = Some v -> In (k, v) m.
  Proof.
    intros k m v. induction m as [|[k' v'] r IH]; simpl; [discriminate|].
    destruct (keqb k k') eqn:E; intros H.
    - apply keqb_spec in E. inversion H. subst. auto.
    - auto.
  Qed.
  Lemma In_remove : forall k m e, In e (remove k m) -> In e m.
  Proof.
    intros k m e. induction m as [|[k' v'] r IH]; simpl; auto.
    destruct (keqb k k'); simpl; intuition.
  Qed.
  Lemma total_app : forall m m', total (m ++ m') = total m + total m'.
  Proof. intros m m'. induction m as [|e r IH]; simpl; auto. unfold Spec.Memo.total in *. simpl. lia. Qed.

  Lemma at_true : forall fo k fo' k' v, at_ fo k (fo', k', v) = true -> fo = fo' /\ k = k'.
  Proof.
    intros fo k fo' k' v. simpl. rewrite andb_true_iff, feqb_spec, keqb_spec. auto.
  Qed.
  Lemma at_refl : forall fo k v, at_ fo k (fo, k, v) = true.
  Proof. intros. simpl. rewrite feqb_refl, keqb_refl. reflexivity. Qed.
  Lemma dlookup_dremove_same : forall fo k d, dlookup fo k (dremove fo k d) = None.
  Proof.
    intros fo k d. induction d as [|e r IH]; simpl; auto.
    destruct (at_ fo k e) eqn:E; auto. simpl. rewrite E. auto.
  Qed.
  Lemma dlookup_dremove_other : forall fo k fo1 k1 d, (fo, k) <> (fo1, k1) ->
    dlookup fo k (dremove fo1 k1 d) = dlookup fo k d.
  Proof.
    intros fo k fo1 k1 d H. induction d as [|[[fo' k'] v] r IH]; auto.
    cbn [Spec.Memo.dremove]. destruct (at_ fo1 k1 (fo', k', v)) eqn:E1.
    - apply at_true in E1. destruct E1; subst fo' k'.
      cbn [Spec.Memo.dlookup]. destruct (at_ fo k (fo1, k1, v)) eqn:E2.
      + apply at_true in E2. destruct E2; subst. exfalso. apply H. reflexivity.
      + auto.
    - cbn [Spec.Memo.dlookup]. destruct (at_ fo k (fo', k', v)); auto.
  Qed.
  Lemma dlookup_app : forall fo k d d', dlookup fo k (d ++ d') =
    match dlookup fo k d with Some v => Some v | None => dlookup fo k d' end.
  Proof.
    intros fo k d d'. induction d as [|e r IH]; simpl; auto. destruct (at_ fo k e); auto.
  Qed.
  Lemma dset_fresh : forall fo k v d, dlookup fo k d = None -> dset fo k v d = d ++ [(fo, k, v)].
  Proof.
    intros fo k v d. induction d as [|e r IH]; simpl; auto.
    destruct (at_ fo k e); intros H; [discriminate|]. rewrite IH; auto.
  Qed.
  Lemma dlookup_In : forall fo k d v, dlookup fo k d = Some v -> In (fo, k, v) d.
  Proof.
    intros fo k d v. induction d as [|[[fo' k'] v'] r IH]; [discriminate|].
    cbn [Spec.Memo.dlookup]. destruct (at_ fo k (fo', k', v')) eqn:E; intros H.
    - apply at_true in E. destruct E; subst. inversion H. subst. left. reflexivity.
    - right. auto.
  Qed.
  Lemma In_dremove : forall fo k d e, In e (dremove fo k d) -> In e d.
  Proof.
    intros fo k d e. induction d as [|e' r IH]; simpl; auto.
    destruct (at_ fo k e'); simpl; intuition.
  Qed.

  (* ---------- the eviction loop ---------- *)
  Lemma evict_0 : forall mx m, evict 0 mx m = m.
  Proof. reflexivity. Qed.
  Lemma evict_S : forall n mx m,
    evict (S n) mx m = if k_evict_test (total m) mx then evict n mx (tl m) else m.
  Proof.
    intros n mx m. change (evict (S n) mx m) with
      (if k_evict_test (total m) mx then evict n mx (pop K V k_pop_last m) else m).
    unfold pop. rewrite k_pop_last_spec. reflexivity.
  Qed.

  Lemma evict_suffix : forall fuel mx m, exists dropped, m = dropped ++ evict fuel mx m.
  Proof.
    induction fuel as [|n IH]; intros mx m.
    - exists []. reflexivity.
    - rewrite evict_S. destruct (k_evict_test (total m) mx).
      + destruct m as [|x t]; simpl tl.
        * destruct (IH mx []) as [dr H]. exists dr. exact H.
        * destruct (IH mx t) as [dr H]. exists (x :: dr). simpl. rewrite <- H. reflexivity.
      + exists []. reflexivity.
  Qed.
  Lemma evict_bound : forall fuel mx m, 0 <= mx -> (length m <= fuel)%nat -> total (evict fuel mx m) <= mx.
  Proof.
    induction fuel as [|n IH]; intros mx m Hmx Hl.
    - rewrite evict_0. destruct m; simpl in Hl; [|lia]. exact Hmx.
    - rewrite evict_S. destruct (k_evict_test (total m) mx) eqn:E.
      + apply IH; auto. destruct m; simpl in *; lia.
      + apply k_evict_test_false. exact E.
  Qed.
  Lemma evict_keeps_newest : forall fuel mx pre e, size (snd e) <= mx ->
    exists pre', evict fuel mx (pre ++ [e]) = pre' ++ [e].
  Proof.
    induction fuel as [|n IH]; intros mx pre e He.
    - exists pre. reflexivity.
    - rewrite evict_S. destruct (k_evict_test (total (pre ++ [e])) mx) eqn:E.
      + destruct pre as [|x p]; simpl tl.
        * apply k_evict_test_true in E. unfold Spec.Memo.total in E. simpl in E. lia.
        * apply IH. exact He.
      + exists pre. reflexivity.
  Qed.
  (* eviction happens only when the bound is exceeded, one entry at a time *)
  Lemma evict_minimal : forall fuel mx m dr x,
    m = (dr ++ [x]) ++ evict fuel mx m -> total (x :: evict fuel mx m) > mx.
  Proof.
    induction fuel as [|n IH]; intros mx m dr x H.
    - exfalso. rewrite evict_0 in H. apply (f_equal (@length _)) in H. rewrite !app_length in H. simpl in H. lia.
    - rewrite evict_S in *. destruct (k_evict_test (total m) mx) eqn:E.
      + destruct m as [|y t]; simpl tl in *.
        * destruct dr; discriminate.
        * destruct dr as [|z dr']; simpl in H.
          -- injection H as Hy Ht. subst y. apply k_evict_test_true in E. rewrite <- Ht. exact E.
          -- injection H as Hz Ht. apply (IH mx t dr' x). exact Ht.
      + exfalso. apply (f_equal (@length _)) in H. rewrite !app_length in H. simpl in H. lia.
  Qed.

  (* ---------- the L1 call in closed (kernel-free) form ---------- *)
  Definition stored (o : opts) (mem : list (K * V)) (d : list (F * K * V)) (k : K) : option V :=
    if persistent o then dlookup (folder o) k d else lookup k mem.

  Definition store (o : opts) (mem : list (K * V)) (d : list (F * K * V)) (a : A)
    : event * inst * list (F * K * V) :=
    let k := key o a in
    let v := f a in
    let forced := if lazy o then thunks a else 0%nat in
    if persistent o then
      let st2 := {| cache := mem; ign := false |} in
      let d2 := d ++ [(folder o, k, v)] in
      (mk_event o v true forced st2 d2, st2, d2)
    else
      let m := mem ++ [(k, v)] in
      let st2 := {| cache := evict (length m) (max_size o) m; ign := false |} in
      (mk_event o v true forced st2 d, st2, d).

  Definition forget (o : opts) (st : inst) (a : A) : list (K * V) :=
    if ign st then remove (key o a) (cache st) else cache st.
  Definition dforget (o : opts) (st : inst) (d : list (F * K * V)) (a : A) : list (F * K * V) :=
    if ign st then dremove (folder o) (key o a) d else d.

  Definition icall_ref (o : opts) (st : inst) (d : list (F * K * V)) (a : A)
    : event * inst * list (F * K * V) :=
    let mem1 := forget o st a in
    let d1 := dforget o st d a in
    match stored o mem1 d1 (key o a) with
    | Some v => let st1 := {| cache := mem1; ign := false |} in (mk_event o v false 0 st1 d1, st1, d1)
    | None => store o mem1 d1 a
    end.

  Lemma memkey_key : forall o a, memkey o a = key o a.
  Proof.
    intros o a. unfold Model.Memo.memkey, Spec.Memo.key. destruct (xkey o); rewrite k_memkey_spec; reflexivity.
  Qed.

  Lemma stored_forget_ign : forall o st d a, ign st = true ->
    stored o (forget o st a) (dforget o st d a) (key o a) = None.
  Proof.
    intros o st d a H. unfold stored, forget, dforget. rewrite H.
    destruct (persistent o); [apply dlookup_dremove_same | apply lookup_remove_same].
  Qed.

  Lemma icall_eq : forall o st d a, icall o st d a = icall_ref o st d a.
  Proof.
    intros o [c ig] d a. unfold Model.Memo.icall, read_cache, write_cache. rewrite memkey_key.
    rewrite k_read_cache_spec, k_lazy_test_spec. unfold icall_ref, stored, store, forget, dforget.
    cbn [cache ign]. destruct ig.
    - cbn [r_hit r_reset r_delmem r_deldisk cache ign]. rewrite dlookup_dremove_same. cbn [is_some].
      rewrite k_write_cache_spec.
      destruct (persistent o) eqn:P; cbn [w_disk w_mem w_evict cache ign].
      + rewrite dset_fresh by apply dlookup_dremove_same.
        reflexivity.
      + rewrite lookup_remove_same. rewrite od_set_fresh by apply lookup_remove_same. reflexivity.
    - destruct (persistent o) eqn:P.
      + destruct (dlookup (folder o) (key o a) d) eqn:L; cbn [is_some r_hit r_reset r_delmem r_deldisk cache ign].
        * reflexivity.
        * rewrite ?L. cbn [is_some]. rewrite k_write_cache_spec. cbn [w_disk w_mem w_evict cache ign].
          rewrite dset_fresh by exact L. reflexivity.
      + destruct (lookup (key o a) c) eqn:L; cbn [is_some r_hit r_reset r_delmem r_deldisk cache ign].
        * reflexivity.
        * rewrite k_write_cache_mem. cbn [w_disk w_mem w_evict cache ign].
          rewrite od_set_fresh by exact L. reflexivity.
  Qed.

  (* ---------- one call, by cases ---------- *)
  Lemma icall_cases : forall o st d a ev st1 d1, icall o st d a = (ev, st1, d1) ->
    (e_ran ev = false /\ e_forced ev = 0%nat /\ ign st = false /\ cache st1 = cache st /\ d1 = d /\ ign st1 = false
       /\ stored o (cache st) d (key o a) = Some (e_ret ev))
    \/ (e_ran ev = true /\ e_ret ev = f a /\ e_forced ev = (if lazy o then thunks a else 0%nat) /\ ign st1 = false
        /\ stored o (forget o st a) (dforget o st d a) (key o a) = None
        /\ ((persistent o = true /\ cache st1 = forget o st a
               /\ d1 = dforget o st d a ++ [(folder o, key o a, f a)])
            \/ (persistent o = false /\ d1 = dforget o st d a
               /\ cache st1 = evict (length (forget o st a ++ [(key o a, f a)])) (max_size o)
                                    (forget o st a ++ [(key o a, f a)])))).
  Proof.
    intros o st d a ev st1 d1. rewrite icall_eq. unfold icall_ref.
    destruct (stored o (forget o st a) (dforget o st d a) (key o a)) eqn:S.
    - intros H. injection H as H1 H2 H3. left.
      destruct (ign st) eqn:I.
      + rewrite (stored_forget_ign o st d a I) in S. discriminate.
      + unfold forget, dforget in *. rewrite I in *. subst. simpl. auto 10.
    - intros H. right. unfold store in H. destruct (persistent o) eqn:P.
      + injection H as H1 H2 H3. subst. simpl. auto 10.
      + injection H as H1 H2 H3. subst. simpl. auto 10.
  Qed.

  Lemma icall_event : forall o st d a ev st1 d1, icall o st d a = (ev, st1, d1) ->
    e_keys ev = map fst (cache st1) /\ e_csize ev = total (cache st1) /\ e_files ev = dkeys (folder o) d1.
  Proof.
    intros o st d a ev st1 d1. rewrite icall_eq. unfold icall_ref.
    destruct (stored o (forget o st a) (dforget o st d a) (key o a)).
    - intros H. injection H as H1 H2 H3. subst. simpl. auto.
    - unfold store. destruct (persistent o); intros H; injection H as H1 H2 H3; subst; simpl; auto.
  Qed.

  (* C20 / lazy: callable arguments are evaluated exactly when the body runs in lazy mode *)
  Lemma memo_lazy : forall o st d a ev st1 d1, icall o st d a = (ev, st1, d1) ->
    e_forced ev = if e_ran ev && lazy o then thunks a else 0%nat.
  Proof.
    intros o st d a ev st1 d1 H. destruct (icall_cases _ _ _ _ _ _ _ H) as [C|C].
    - destruct C as (R & Fo & _). rewrite R, Fo. reflexivity.
    - destruct C as (R & _ & Fo & _). rewrite R, Fo. reflexivity.
  Qed.

  (* a stored key is served from the store *)
  Lemma icall_hit : forall o st d b v, ign st = false -> stored o (cache st) d (key o b) = Some v ->
    exists ev st1, icall o st d b = (ev, st1, d) /\ e_ran ev = false /\ e_ret ev = v /\ e_forced ev = 0%nat
                   /\ cache st1 = cache st /\ ign st1 = false.
  Proof.
    intros o st d b v I S. rewrite icall_eq. unfold icall_ref, forget, dforget. rewrite I, S.
    eexists. eexists. split; [reflexivity|]. simpl. auto.
  Qed.

  Definition fits (o : opts) (v : V) : Prop := persistent o = true \/ size v <= max_size o.

  (* after a call, its key is stored with the value just returned (if that value alone fits) *)
  Lemma icall_stores : forall o st d a ev st1 d1, icall o st d a = (ev, st1, d1) -> fits o (f a) ->
    ign st1 = false /\ stored o (cache st1) d1 (key o a) = Some (e_ret ev).
  Proof.
    intros o st d a ev st1 d1 H Hf. destruct (icall_cases _ _ _ _ _ _ _ H) as [C|C].
    - destruct C as (_ & _ & _ & C1 & C2 & C3 & C4). subst d1. split; auto.
      unfold stored in *. rewrite C1. exact C4.
    - destruct C as (_ & Rv & _ & I1 & S & [(P & C1 & C2)|(P & C2 & C1)]); split; auto; rewrite Rv.
      + unfold stored in *. rewrite P in *. rewrite C2, dlookup_app, S. cbn [Spec.Memo.dlookup].
        rewrite at_refl. reflexivity.
      + destruct Hf as [Hf|Hf]; [congruence|].
        unfold stored in *. rewrite P in *. rewrite C1.
        destruct (evict_keeps_newest (length (forget o st a ++ [(key o a, f a)])) (max_size o)
                    (forget o st a) (key o a, f a) Hf) as [pre' E].
        rewrite E. destruct (evict_suffix (length (forget o st a ++ [(key o a, f a)])) (max_size o)
                    (forget o st a ++ [(key o a, f a)])) as [dr Hd].
        rewrite E in Hd. rewrite app_assoc in Hd. apply app_inj_tail in Hd. destruct Hd as [Hd _].
        rewrite Hd, lookup_app in S. rewrite lookup_app.
        destruct (lookup (key o a) dr); [discriminate|]. rewrite S. simpl. rewrite keqb_refl. reflexivity.
  Qed.

  (* C20 / explicit key and "same key": once a call returned, any call with the same key is a hit
     returning the same value *)
  Lemma memo_same_key_hit : forall o st d a b ev1 st1 d1 ev2 st2 d2,
    icall o st d a = (ev1, st1, d1) -> fits o (f a) -> key o b = key o a ->
    icall o st1 d1 b = (ev2, st2, d2) ->
    e_ran ev2 = false /\ e_ret ev2 = e_ret ev1 /\ e_forced ev2 = 0%nat.
  Proof.
    intros o st d a b ev1 st1 d1 ev2 st2 d2 H1 Hf Hk H2.
    destruct (icall_stores _ _ _ _ _ _ _ H1 Hf) as [I S]. rewrite <- Hk in S.
    destruct (icall_hit o st1 d1 b _ I S) as (ev & st' & E & R & Rv & Fo & _).
    rewrite E in H2. injection H2 as <- <- <-. auto.
  Qed.

  Lemma memo_explicit_key : forall o x st d a b ev1 st1 d1 ev2 st2 d2,
    xkey o = Some x -> icall o st d a = (ev1, st1, d1) -> fits o (f a) ->
    icall o st1 d1 b = (ev2, st2, d2) ->
    key o a = x /\ key o b = x /\ e_ran ev2 = false /\ e_ret ev2 = e_ret ev1.
  Proof.
    intros o x st d a b ev1 st1 d1 ev2 st2 d2 X H1 Hf H2.
    assert (Ka : key o a = x) by (unfold Spec.Memo.key; rewrite X; reflexivity).
    assert (Kb : key o b = x) by (unfold Spec.Memo.key; rewrite X; reflexivity).
    destruct (memo_same_key_hit o st d a b _ _ _ _ _ _ H1 Hf (eq_trans Kb (eq_sym Ka)) H2) as (R & Rv & _).
    auto.
  Qed.

  (* C20 / clear: exactly the next call re-executes *)
  Lemma memo_clear_next_only : forall o st d a ev1 st1 d1,
    icall o (iclear K V st) d a = (ev1, st1, d1) ->
    e_ran ev1 = true /\ e_ret ev1 = f a /\ ign st1 = false
    /\ (fits o (f a) -> forall ev2 st2 d2, icall o st1 d1 a = (ev2, st2, d2) ->
          e_ran ev2 = false /\ e_ret ev2 = f a /\ cache st2 = cache st1 /\ d2 = d1).
  Proof.
    intros o st d a ev1 st1 d1 H. destruct (icall_cases _ _ _ _ _ _ _ H) as [C|C].
    - destruct C as (_ & _ & I & _). simpl in I. discriminate.
    - destruct C as (R & Rv & _ & I1 & _). repeat split; auto;
      destruct (icall_stores _ _ _ _ _ _ _ H H0) as [I S];
      destruct (icall_hit o st1 d1 a _ I S) as (ev & st' & E & R2 & Rv2 & _ & C2 & _);
      rewrite E in H1; injection H1 as <- <- <-; congruence.
  Qed.

  (* C20 / FIFO: what a store drops is a prefix of the insertion order, dropped one at a time only
     while the bound is exceeded *)
  Lemma memo_fifo : forall o st d a ev st1 d1, icall o st d a = (ev, st1, d1) ->
    persistent o = false -> e_ran ev = true ->
    exists dropped, forget o st a ++ [(key o a, f a)] = dropped ++ cache st1
      /\ forall dr x, dropped = dr ++ [x] -> total (x :: cache st1) > max_size o.
  Proof.
    intros o st d a ev st1 d1 H P R. destruct (icall_cases _ _ _ _ _ _ _ H) as [C|C].
    - destruct C as (R' & _). congruence.
    - destruct C as (_ & _ & _ & _ & _ & [(P' & _)|(_ & _ & C1)]); [congruence|].
      destruct (evict_suffix (length (forget o st a ++ [(key o a, f a)])) (max_size o)
                  (forget o st a ++ [(key o a, f a)])) as [dr Hd].
      exists dr. rewrite C1. split; [exact Hd|].
      intros dr' x E. subst dr. eapply evict_minimal. exact Hd.
  Qed.
  Lemma memo_hit_keeps_cache : forall o st d a ev st1 d1, icall o st d a = (ev, st1, d1) ->
    e_ran ev = false -> cache st1 = cache st /\ d1 = d.
  Proof.
    intros o st d a ev st1 d1 H R. destruct (icall_cases _ _ _ _ _ _ _ H) as [C|C].
    - destruct C as (_ & _ & _ & C1 & C2 & _). auto.
    - destruct C as (R' & _). congruence.
  Qed.

  (* ---------- histories of one instance ---------- *)
  Lemma icall_frame : forall o st d a ev st1 d1 k, icall o st d a = (ev, st1, d1) -> k <> key o a ->
    (persistent o = false -> e_ran ev = true -> cache st1 = forget o st a ++ [(key o a, f a)]) ->
    stored o (cache st1) d1 k = stored o (cache st) d k.
  Proof.
    intros o st d a ev st1 d1 k H Hk NE. destruct (icall_cases _ _ _ _ _ _ _ H) as [C|C].
    - destruct C as (_ & _ & _ & C1 & C2 & _). subst d1. unfold stored. rewrite C1. reflexivity.
    - destruct C as (R & _ & _ & _ & _ & [(P & C1 & C2)|(P & C2 & C1)]); unfold stored; rewrite P.
      + rewrite C2, dlookup_app. cbn [Spec.Memo.dlookup]. unfold Spec.Memo.at_.
        rewrite (keqb_neq _ _ Hk), andb_false_r. unfold dforget.
        destruct (ign st).
        * rewrite dlookup_dremove_other by (intros E; injection E; auto).
          destruct (dlookup (folder o) k d); reflexivity.
        * destruct (dlookup (folder o) k d); reflexivity.
      + rewrite (NE P R), lookup_app. cbn [Spec.Memo.lookup]. rewrite (keqb_neq _ _ Hk). unfold forget.
        destruct (ign st).
        * rewrite lookup_remove_other by exact Hk. destruct (lookup k (cache st)); reflexivity.
        * destruct (lookup k (cache st)); reflexivity.
  Qed.

  Definition ran_key (o : opts) (k : K) (p : A * event) : bool := e_ran (snd p) && keqb (key o (fst p)) k.
  Definition runs (o : opts) (k : K) (evs : list (A * event)) : nat := length (filter (ran_key o k) evs).
  Definition clear_free (ops : list (iop A)) : Prop := Forall (fun p => p <> IClear) ops.
  (* no store of the history dropped anything *)
  Fixpoint evict_free (o : opts) (st : inst) (d : list (F * K * V)) (ops : list (iop A)) : Prop :=
    match ops with
    | [] => True
    | IClear :: r => evict_free o (iclear K V st) d r
    | ICall a :: r =>
        (persistent o = false -> e_ran (fst (fst (icall o st d a))) = true ->
           cache (snd (fst (icall o st d a))) = forget o st a ++ [(key o a, f a)])
        /\ evict_free o (snd (fst (icall o st d a))) (snd (icall o st d a)) r
    end.

  Lemma at_most_once_gen : forall o k ops st d, clear_free ops -> evict_free o st d ops ->
    (runs o k (fst (fst (irun o st d ops))) <=
       if ign st then 1 else if is_some (stored o (cache st) d k) then 0 else 1)%nat.
  Proof.
    intros o k ops. induction ops as [|p r IH]; intros st d CF EF.
    - simpl. unfold runs. simpl. destruct (ign st); [lia|]. destruct (is_some _); lia.
    - inversion CF as [|? ? Hp CF']. subst. destruct p as [a|]; [|congruence].
      cbn [Model.Memo.irun]. cbn [evict_free] in EF. destruct EF as [NE EF].
      destruct (icall o st d a) as [[ev st1] d1] eqn:H. cbn [fst snd] in NE, EF.
      specialize (IH st1 d1 CF' EF).
      destruct (irun o st1 d1 r) as [[evs st2] d2]. cbn [fst] in *.
      unfold runs in *. cbn [filter]. unfold ran_key at 1. cbn [fst snd].
      destruct (icall_cases _ _ _ _ _ _ _ H) as [C|C].
      + destruct C as (R & _ & I & C1 & C2 & I1 & S). rewrite R. cbn [andb]. rewrite I1 in IH. rewrite I.
        subst d1. rewrite C1 in IH. exact IH.
      + destruct C as (R & Rv & _ & I1 & S & _). rewrite R. cbn [andb]. rewrite I1 in IH.
        destruct (keqb (key o a) k) eqn:E.
        * apply keqb_spec in E. subst k. cbn [length].
          assert (Hs : is_some (stored o (cache st1) d1 (key o a)) = true).
          { destruct (icall_cases _ _ _ _ _ _ _ H) as [C|C]; [destruct C; congruence|].
            destruct C as (_ & _ & _ & _ & S' & [(P & C1 & C2)|(P & C2 & C1)]); unfold stored in *; rewrite P in *.
            - rewrite C2, dlookup_app, S'. cbn [Spec.Memo.dlookup]. rewrite at_refl. reflexivity.
            - rewrite (NE eq_refl R), lookup_app, S'. cbn [Spec.Memo.lookup]. rewrite keqb_refl. reflexivity. }
          rewrite Hs in IH.
          destruct (ign st) eqn:I; [lia|]. unfold forget, dforget in S. rewrite I in S. rewrite S. simpl. lia.
        * apply keqb_false in E.
          rewrite (icall_frame _ _ _ _ _ _ _ k H (fun e => E (eq_sym e)) NE) in IH.
          destruct (ign st); [destruct (is_some _) in IH; lia | exact IH].
  Qed.

  (* C20 / at most once: in a history without clear() in which nothing is evicted, the body runs at
     most once per key -- from any state, in particular from the state right after a clear() *)
  Lemma memo_at_most_once : forall o st d ops k, clear_free ops -> evict_free o st d ops ->
    (runs o k (fst (fst (irun o st d ops))) <= 1)%nat.
  Proof.
    intros o st d ops k CF EF. pose proof (at_most_once_gen o k ops st d CF EF) as H.
    destruct (ign st); [exact H|]. destruct (is_some _) in H; lia.
  Qed.
  (* ... and not at all for a key that is already stored *)
  Lemma memo_stored_never_reruns : forall o st d ops k, clear_free ops -> evict_free o st d ops ->
    ign st = false -> stored o (cache st) d k <> None ->
    runs o k (fst (fst (irun o st d ops))) = 0%nat.
  Proof.
    intros o st d ops k CF EF I S. pose proof (at_most_once_gen o k ops st d CF EF) as H.
    rewrite I in H. destruct (stored o (cache st) d k); [simpl in H; lia | congruence].
  Qed.

  (* ---------- worlds: several instances, one disk ---------- *)
  Lemma Forall_set_nth : forall X (P : X -> Prop) i x l, Forall P l -> P x -> Forall P (set_nth i x l).
  Proof.
    intros X P i x l H. revert i. induction H as [|y r Hy Hr IH]; intros i Hx; simpl.
    - destruct i; constructor.
    - destruct i; constructor; auto.
  Qed.
  Lemma map_fst_set_nth : forall X Y i (x : X) (y y' : Y) l, nth_error l i = Some (x, y) ->
    map fst (set_nth i (x, y') l) = map fst l.
  Proof.
    intros X Y i x y y' l. revert i. induction l as [|e r IH]; intros i H; destruct i; simpl in *; try discriminate.
    - injection H as ->. reflexivity.
    - rewrite (IH i H). reflexivity.
  Qed.
  Lemma nth_error_Forall : forall X (P : X -> Prop) l i x, Forall P l -> nth_error l i = Some x -> P x.
  Proof. intros X P l i x H E. rewrite Forall_forall in H. apply H. eapply nth_error_In. exact E. Qed.

  Section WInv.
    Variable PI : opts -> inst -> Prop.
    Variable PD : list (F * K * V) -> Prop.
    Variable okopt : opts -> Prop.
    Variable clear_ok : Prop.
    Variable EV : opts -> A -> event -> Prop.
    Hypothesis Hfresh : forall o, okopt o -> PI o fresh.
    Hypothesis Hclear : clear_ok -> forall o st, PI o st -> PI o (iclear K V st).
    Hypothesis Hcall : forall o st d a ev st1 d1, PI o st -> PD d -> icall o st d a = (ev, st1, d1) ->
      PI o st1 /\ PD d1 /\ EV o a ev.

    Definition WI (w : world) : Prop := Forall (fun os => PI (fst os) (snd os)) (insts w) /\ PD (disk w).
    Definition op_ok (p : op A K F) : Prop :=
      match p with ONew o => okopt o | OClear _ => clear_ok | OCall _ _ => True end.
    Fixpoint tr_ok (os : list opts) (tr : list (tev A K V F)) : Prop :=
      match tr with
      | [] => True
      | TNew o :: r => tr_ok (os ++ [o]) r
      | TClear _ :: r => tr_ok os r
      | TCall i a ev :: r =>
          match nth_error os i with Some o => EV o a ev | None => True end /\ tr_ok os r
      end.

    Lemma winv_step : forall w p, WI w -> op_ok p ->
      WI (fst (wstep w p)) /\
      forall tr, tr_ok (map fst (insts (fst (wstep w p)))) tr -> tr_ok (map fst (insts w)) (snd (wstep w p) :: tr).
    Proof.
      intros w p [HI HD] Hp. destruct p as [o|i a|i]; cbn [Model.Memo.wstep].
      - simpl. split; [split|]; auto.
        + apply Forall_app. split; auto.
        + intros tr. rewrite map_app. simpl. auto.
      - destruct (nth_error (insts w) i) as [[o st]|] eqn:E.
        + destruct (icall o st (disk w) a) as [[ev st1] d1] eqn:H.
          pose proof (nth_error_Forall _ _ _ _ _ HI E) as Hst. cbn [fst snd] in Hst.
          destruct (Hcall _ _ _ _ _ _ _ Hst HD H) as (H1 & H2 & H3).
          simpl. split; [split|].
          * apply Forall_set_nth; auto.
          * exact H2.
          * intros tr. rewrite (map_fst_set_nth _ _ _ _ _ _ _ E).
            rewrite (map_nth_error fst i (insts w) E). cbn [fst]. auto.
        + simpl. split; [split|]; auto.
      - destruct (nth_error (insts w) i) as [[o st]|] eqn:E.
        + pose proof (nth_error_Forall _ _ _ _ _ HI E) as Hst. cbn [fst snd] in Hst.
          simpl. split; [split|]; auto.
          * apply Forall_set_nth; auto. cbn [fst snd]. apply Hclear; auto.
          * intros tr. rewrite (map_fst_set_nth _ _ _ _ _ _ _ E). auto.
        + simpl. split; [split|]; auto.
    Qed.

    Lemma winv_run : forall ops w, WI w -> Forall op_ok ops ->
      WI (fst (wrun w ops)) /\ tr_ok (map fst (insts w)) (snd (wrun w ops)).
    Proof.
      induction ops as [|p r IH]; intros w Hw Hops.
      - simpl. auto.
      - inversion Hops as [|? ? Hp Hr]. subst. cbn [Model.Memo.wrun].
        destruct (winv_step w p Hw Hp) as (H1 & H2).
        destruct (wstep w p) as [w1 t] eqn:E1. cbn [fst snd] in *.
        destruct (IH w1 H1 Hr) as [H4 H5]. destruct (wrun w1 r) as [w2 tr]. cbn [fst snd] in *.
        split; auto.
    Qed.
  End WInv.

  (* ---------- C20 / size bound ---------- *)
  Hypothesis size_nonneg : forall v, 0 <= size v.

  Lemma total_nonneg : forall m, 0 <= total m.
  Proof.
    induction m as [|e r IH]; unfold Spec.Memo.total in *; simpl; [lia|]. pose proof (size_nonneg (snd e)). lia.
  Qed.
  Lemma total_remove_le : forall k m, total (remove k m) <= total m.
  Proof.
    intros k m. induction m as [|[k' v] r IH]; simpl; [lia|].
    destruct (keqb k k'); unfold Spec.Memo.total in *; simpl; pose proof (size_nonneg v); lia.
  Qed.

  Definition PI_bound (o : opts) (st : inst) : Prop := 0 <= max_size o /\ total (cache st) <= max_size o.
  Definition EV_bound (o : opts) (a : A) (ev : event) : Prop := e_csize ev <= max_size o.

  Lemma bound_call : forall o st d a ev st1 d1, PI_bound o st -> True -> icall o st d a = (ev, st1, d1) ->
    PI_bound o st1 /\ True /\ EV_bound o a ev.
  Proof.
    intros o st d a ev st1 d1 [Hm Hb] _ H.
    assert (G : total (cache st1) <= max_size o).
    { destruct (icall_cases _ _ _ _ _ _ _ H) as [C|C].
      - destruct C as (_ & _ & _ & C1 & _). rewrite C1. exact Hb.
      - destruct C as (_ & _ & _ & _ & _ & [(P & C1 & C2)|(P & C2 & C1)]); rewrite C1.
        + unfold forget. destruct (ign st); [|exact Hb]. pose proof (total_remove_le (key o a) (cache st)). lia.
        + apply evict_bound; auto. }
    split; [split; auto|split; auto]. unfold EV_bound.
    destruct (icall_event _ _ _ _ _ _ _ H) as (_ & E & _). rewrite E. exact G.
  Qed.

  Lemma memo_size_bound : forall w ops,
    WI PI_bound (fun _ => True) w ->
    Forall (fun p => match p with ONew o => 0 <= max_size o | _ => True end) ops ->
    WI PI_bound (fun _ => True) (fst (wrun w ops))
    /\ tr_ok EV_bound (map fst (insts w)) (snd (wrun w ops)).
  Proof.
    intros w ops Hw Hops.
    assert (Hf : forall o, 0 <= max_size o -> PI_bound o fresh).
    { intros o Ho. split; auto. }
    assert (Hc : True -> forall o st, PI_bound o st -> PI_bound o (iclear K V st)).
    { intros _ o st H. exact H. }
    apply (winv_run PI_bound (fun _ => True) (fun o => 0 <= max_size o) True EV_bound Hf Hc bound_call ops w Hw).
    eapply Forall_impl; [|exact Hops]. intros [o|i a|i]; simpl; auto.
  Qed.

  (* ---------- C20 / transparency ---------- *)
  (* arguments with the same key are arguments the body does not tell apart (in particular: an injective key) *)
  Hypothesis key_inj : forall a b, key_of a = key_of b -> f a = f b.

  (* an explicit key never coincides with an argument-derived one *)
  Definition opts_ok (o : opts) : Prop := match xkey o with None => True | Some x => forall a, key_of a <> x end.
  Definition derived (k : K) (v : V) : Prop := exists a, k = key_of a /\ v = f a.
  Definition PI_tr (o : opts) (st : inst) : Prop :=
    opts_ok o /\ (xkey o = None -> forall k v, In (k, v) (cache st) -> derived k v).
  Definition PD_tr (d : list (F * K * V)) : Prop :=
    forall fo k v, In (fo, k, v) d -> derived k v \/ forall a, key_of a <> k.
  Definition EV_tr (o : opts) (a : A) (ev : event) : Prop := xkey o = None -> e_ret ev = f a.

  Lemma derived_key : forall a v, derived (key_of a) v -> v = f a.
  Proof. intros a v (b & E & Hv). apply key_inj in E. subst. symmetry. exact E. Qed.

  Lemma tr_call : forall o st d a ev st1 d1, PI_tr o st -> PD_tr d -> icall o st d a = (ev, st1, d1) ->
    PI_tr o st1 /\ PD_tr d1 /\ EV_tr o a ev.
  Proof.
    intros o st d a ev st1 d1 [Ho Hc] Hd H.
    destruct (icall_cases _ _ _ _ _ _ _ H) as [C|C].
    - destruct C as (_ & _ & _ & C1 & C2 & _ & S). subst d1. split; [|split]; auto.
      + split; auto. rewrite C1. exact Hc.
      + intros X. unfold stored, Spec.Memo.key in S. rewrite X in S. destruct (persistent o).
        * apply dlookup_In in S. destruct (Hd _ _ _ S) as [D|N]; [apply derived_key; exact D|].
          exfalso. apply (N a). reflexivity.
        * apply lookup_In in S. apply derived_key. apply (Hc X). exact S.
    - destruct C as (_ & Rv & _ & _ & _ & C).
      assert (Hnew : derived (key o a) (f a) \/ forall b, key_of b <> key o a).
      { unfold Spec.Memo.key, opts_ok in *. destruct (xkey o); [right; exact Ho|left; exists a; auto]. }
      assert (Hforget : xkey o = None -> forall k v, In (k, v) (forget o st a) -> derived k v).
      { intros X k v Hin. apply (Hc X). unfold forget in Hin. destruct (ign st); auto. eapply In_remove; eauto. }
      assert (Hdforget : PD_tr (dforget o st d a)).
      { intros fo k v Hin. apply (Hd fo). unfold dforget in Hin. destruct (ign st); auto. eapply In_dremove; eauto. }
      split; [|split].
      + split; auto. intros X k v Hin. destruct C as [(P & C1 & C2)|(P & C2 & C1)]; rewrite C1 in Hin.
        * apply (Hforget X). exact Hin.
        * destruct (evict_suffix (length (forget o st a ++ [(key o a, f a)])) (max_size o)
                      (forget o st a ++ [(key o a, f a)])) as [dr E].
          assert (Hin' : In (k, v) (forget o st a ++ [(key o a, f a)])) by (rewrite E; apply in_or_app; auto).
          apply in_app_or in Hin'. destruct Hin' as [Hin'|[Hin'|[]]]; [apply (Hforget X); exact Hin'|].
          injection Hin' as <- <-. unfold Spec.Memo.key. rewrite X. exists a. auto.
      + destruct C as [(P & C1 & C2)|(P & C2 & C1)]; rewrite C2; auto.
        intros fo k v Hin. apply in_app_or in Hin. destruct Hin as [Hin|[Hin|[]]]; [apply (Hdforget fo); exact Hin|].
        injection Hin as _ <- <-. exact Hnew.
      + intros _. exact Rv.
  Qed.

  Lemma memo_transparent : forall w ops,
    WI PI_tr PD_tr w -> Forall (fun p => match p with ONew o => opts_ok o | _ => True end) ops ->
    tr_ok EV_tr (map fst (insts w)) (snd (wrun w ops)).
  Proof.
    intros w ops Hw Hops.
    assert (Hf : forall o, opts_ok o -> PI_tr o fresh).
    { intros o Ho. split; auto. intros _ k v []. }
    assert (Hc : True -> forall o st, PI_tr o st -> PI_tr o (iclear K V st)).
    { intros _ o st H. exact H. }
    apply (winv_run PI_tr PD_tr opts_ok True EV_tr Hf Hc tr_call ops w Hw).
    eapply Forall_impl; [|exact Hops]. intros [o|i a|i]; simpl; auto.
  Qed.
  Lemma WI_tr_w0 : WI PI_tr PD_tr w0.
  Proof. split; [constructor|]. intros fo k v []. Qed.

  (* ---------- C20 / persistence across instances ---------- *)
  Definition no_clear (p : op A K F) : Prop := match p with OClear _ => False | _ => True end.

  Lemma memo_persistent_shared : forall w i o st a mid o',
    nth_error (insts w) i = Some (o, st) -> persistent o = true ->
    Forall (fun os => ign (snd os) = false) (insts (fst (wstep w (OCall i a)))) ->
    Forall no_clear mid ->
    persistent o' = true -> folder o' = folder o -> key o' a = key o a ->
    let w2 := fst (wrun (fst (wstep w (OCall i a))) mid) in
    let j := length (insts w2) in
    exists ev1 ev2,
      snd (wstep w (OCall i a)) = TCall i a ev1
      /\ snd (wrun w2 [ONew o'; OCall j a]) = [TNew o'; TCall j a ev2]
      /\ e_ran ev2 = false /\ e_ret ev2 = e_ret ev1.
  Proof.
    intros w i o st a mid o' E P Hign Hmid P' Fo' K'.
    cbn [Model.Memo.wstep] in *. rewrite E in *.
    destruct (icall o st (disk w) a) as [[ev1 st1] d1] eqn:H. cbn [fst snd] in *.
    destruct (icall_stores _ _ _ _ _ _ _ H (or_introl P)) as [_ S]. unfold stored in S. rewrite P in S.
    set (w1 := upd K V F w i o st1 d1) in *.
    set (PI := fun (_ : opts) (s : inst) => ign s = false).
    set (PD := fun d : list (F * K * V) => dlookup (folder o) (key o a) d = Some (e_ret ev1)).
    assert (Hf : forall o0 : opts, True -> PI o0 fresh) by (intros; reflexivity).
    assert (Hc : False -> forall o0 s, PI o0 s -> PI o0 (iclear K V s)) by (intros []).
    assert (Hcall : forall o0 s d b ev s1 d', PI o0 s -> PD d -> icall o0 s d b = (ev, s1, d') ->
                    PI o0 s1 /\ PD d' /\ True).
    { intros o0 s d b ev s1 d' Hs Hd Hi. unfold PI, PD in *.
      destruct (icall_cases _ _ _ _ _ _ _ Hi) as [C|C].
      - destruct C as (_ & _ & _ & _ & C2 & I1 & _). subst. auto.
      - destruct C as (_ & _ & _ & I1 & _ & [(_ & _ & C2)|(_ & C2 & _)]); unfold dforget in C2; rewrite Hs in C2;
          subst d'; split; auto; split; auto.
        rewrite dlookup_app, Hd. reflexivity. }
    assert (Hw1 : WI PI PD w1).
    { split; [exact Hign|]. unfold PD, w1. simpl. exact S. }
    assert (Hops : Forall (op_ok (fun _ => True) False) mid).
    { eapply Forall_impl; [|exact Hmid]. intros [?|? ?|?]; simpl; auto. }
    destruct (winv_run PI PD (fun _ => True) False (fun _ _ _ => True) Hf Hc Hcall mid w1 Hw1 Hops) as [[_ HD] _].
    destruct (wrun w1 mid) as [w2 tr2]. cbn [fst snd] in *. unfold PD in HD.
    exists ev1. cbn [Model.Memo.wrun Model.Memo.wstep insts disk].
    rewrite nth_error_app2 by lia. rewrite Nat.sub_diag. cbn [nth_error].
    assert (S2 : stored o' (cache (@fresh K V)) (disk w2) (key o' a) = Some (e_ret ev1)).
    { unfold stored. rewrite P', Fo', K'. exact HD. }
    destruct (icall_hit o' fresh (disk w2) a _ eq_refl S2) as (ev2 & st2 & E2 & R & Rv & _).
    rewrite E2. exists ev2. cbn [fst snd]. auto.
  Qed.

  (* ---------- L1 refines L0: every trace of the model is accepted by the spec ---------- *)
  Lemma keys_eqb_refl : forall l, keys_eqb K keqb l l = true.
  Proof. induction l as [|k r IH]; simpl; auto. rewrite keqb_refl, IH. reflexivity. Qed.
  Lemma kmem_In : forall k l, In k l -> kmem K keqb k l = true.
  Proof.
    intros k l H. unfold kmem. apply existsb_exists. exists k. split; auto. apply keqb_refl.
  Qed.
  Lemma same_keys_refl : forall l, same_keys K keqb l l = true.
  Proof.
    intros l. unfold same_keys. rewrite Nat.eqb_refl, andb_true_r.
    assert (H : forallb (fun k => kmem K keqb k l) l = true).
    { apply forallb_forall. intros k Hk. apply kmem_In. exact Hk. }
    rewrite H. reflexivity.
  Qed.
  Lemma skipn_suffix : forall X (dr c : list X), skipn (length (dr ++ c) - length c) (dr ++ c) = c.
  Proof.
    intros X dr c. rewrite app_length. replace (length dr + length c - length c)%nat with (length dr) by lia.
    induction dr; simpl; auto.
  Qed.

  Lemma skipn_suffix' : forall X (full dr c : list X), full = dr ++ c ->
    skipn (length full - length c) full = c /\ (length c <= length full)%nat.
  Proof. intros X full dr c E. subst. split; [apply skipn_suffix|rewrite app_length; lia]. Qed.

  Lemma spec_accepts_icall : forall o st d a ev st1 d1, 0 <= max_size o ->
    icall o st d a = (ev, st1, d1) -> (xkey o = None -> e_ret ev = f a) ->
    spec_call o st d a ev = Some (st1, d1).
  Proof.
    intros o st d a ev st1 d1 Hm H T. rewrite icall_eq in H. unfold icall_ref in H.
    unfold Spec.Memo.spec_call. fold (forget o st a). fold (dforget o st d a).
    fold (stored o (forget o st a) (dforget o st d a) (key o a)).
    assert (Tr : match xkey o with None => veqb (e_ret ev) (f a) | Some _ => true end = true).
    { destruct (xkey o); auto. rewrite T by reflexivity. apply veqb_refl. }
    rewrite Tr. clear Tr T.
    destruct (stored o (forget o st a) (dforget o st d a) (key o a)) eqn:S.
    - injection H as <- <- <-. simpl.
      rewrite veqb_refl, keys_eqb_refl, Z.eqb_refl, same_keys_refl. reflexivity.
    - unfold store in H. destruct (persistent o) eqn:P.
      + injection H as <- <- <-. simpl.
        rewrite veqb_refl, Nat.eqb_refl, keys_eqb_refl, Z.eqb_refl, same_keys_refl. reflexivity.
      + injection H as <- <- <-. simpl.
        set (full := forget o st a ++ [(key o a, f a)]).
        destruct (evict_suffix (length full) (max_size o) full) as [dr E].
        assert (Hb : Z.leb (total (evict (length full) (max_size o) full)) (max_size o) = true).
        { apply Z.leb_le. apply evict_bound; auto. }
        remember (evict (length full) (max_size o) full) as c eqn:Hc.
        rewrite map_length.
        destruct (skipn_suffix' _ full dr c E) as [Hk Hl']. rewrite Hk.
        assert (Hl : Nat.leb (length c) (length full) = true) by (apply Nat.leb_le; exact Hl').
        rewrite veqb_refl, Nat.eqb_refl, Hl, keys_eqb_refl, Hb, Z.eqb_refl, same_keys_refl. reflexivity.
  Qed.

  Definition PI_all (o : opts) (st : inst) : Prop := PI_tr o st /\ 0 <= max_size o.
  Definition new_ok (p : op A K F) : Prop :=
    match p with ONew o => opts_ok o /\ 0 <= max_size o | _ => True end.

  Lemma model_accepted : forall ops w, WI PI_all PD_tr w -> Forall new_ok ops ->
    accept w (snd (wrun w ops)) = true.
  Proof.
    induction ops as [|p r IH]; intros w [HI HD] Hops; [reflexivity|].
    inversion Hops as [|? ? Hp Hr]. subst. cbn [Model.Memo.wrun].
    destruct p as [o|i a|i]; cbn [Model.Memo.wstep].
    - set (w1 := {| insts := insts w ++ [(o, fresh)]; disk := disk w |}).
      assert (Hw1 : WI PI_all PD_tr w1).
      { split; auto. simpl. apply Forall_app. split; auto. constructor; [|constructor].
        destruct Hp as [Ho Hm]. split; auto. split; auto. intros _ k v []. }
      specialize (IH w1 Hw1 Hr). destruct (wrun w1 r) as [w2 tr]. cbn [snd Spec.Memo.accept] in *. exact IH.
    - destruct (nth_error (insts w) i) as [[o st]|] eqn:E.
      + destruct (icall o st (disk w) a) as [[ev st1] d1] eqn:H.
        pose proof (nth_error_Forall _ _ _ _ _ HI E) as [Hst Hm]. cbn [fst snd] in Hst, Hm.
        destruct (tr_call _ _ _ _ _ _ _ Hst HD H) as (H1 & H2 & H3).
        set (w1 := upd K V F w i o st1 d1).
        assert (Hw1 : WI PI_all PD_tr w1).
        { split; [|exact H2]. simpl. apply Forall_set_nth; auto. split; auto. }
        specialize (IH w1 Hw1 Hr). destruct (wrun w1 r) as [w2 tr]. cbn [snd Spec.Memo.accept] in *.
        rewrite E. rewrite (spec_accepts_icall _ _ _ _ _ _ _ Hm H H3). exact IH.
      + specialize (IH w (conj HI HD) Hr). destruct (wrun w r) as [w2 tr]. cbn [snd Spec.Memo.accept] in *.
        rewrite E. exact IH.
    - destruct (nth_error (insts w) i) as [[o st]|] eqn:E.
      + pose proof (nth_error_Forall _ _ _ _ _ HI E) as Hst. cbn [fst snd] in Hst.
        set (w1 := upd K V F w i o (iclear K V st) (disk w)).
        assert (Hw1 : WI PI_all PD_tr w1).
        { split; [|exact HD]. simpl. apply Forall_set_nth; auto. }
        specialize (IH w1 Hw1 Hr). destruct (wrun w1 r) as [w2 tr]. cbn [snd Spec.Memo.accept] in *.
        rewrite E. exact IH.
      + specialize (IH w (conj HI HD) Hr). destruct (wrun w r) as [w2 tr]. cbn [snd Spec.Memo.accept] in *.
        rewrite E. exact IH.
  Qed.

  (* ---------- from the initial world: all histories ---------- *)
  Lemma WI_all_w0 : WI PI_all PD_tr w0.
  Proof. split; [constructor|]. intros fo k v []. Qed.
  Lemma WI_bound_w0 : WI PI_bound (fun _ => True) w0.
  Proof. split; [constructor|exact I]. Qed.

  Lemma memo_transparent_w0 : forall ops,
    Forall (fun p => match p with ONew o => opts_ok o | _ => True end) ops ->
    tr_ok EV_tr [] (snd (wrun w0 ops)).
  Proof. intros ops H. exact (memo_transparent w0 ops WI_tr_w0 H). Qed.

  Lemma memo_size_bound_w0 : forall ops,
    Forall (fun p => match p with ONew o => 0 <= max_size o | _ => True end) ops ->
    tr_ok EV_bound [] (snd (wrun w0 ops))
    /\ Forall (fun os => total (cache (snd os)) <= max_size (fst os)) (insts (fst (wrun w0 ops))).
  Proof.
    intros ops H. destruct (memo_size_bound w0 ops WI_bound_w0 H) as [[HI _] Ht]. split; [exact Ht|].
    eapply Forall_impl; [|exact HI]. intros os [_ Hb]. exact Hb.
  Qed.

  Lemma model_accepted_w0 : forall ops, Forall new_ok ops -> accept w0 (snd (wrun w0 ops)) = true.
  Proof. intros ops H. exact (model_accepted ops w0 WI_all_w0 H). Qed.
End MemoFacts.
