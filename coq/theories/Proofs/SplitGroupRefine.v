(* C14, second part: the L1 model of split (Model/SplitGroup.v: selection by
   row id, the _compare routes, unique, the recursive generator) computes the
   L0 parts; characterising lemmas of the regenerated kernels
   (Gen/KSplitGroup.v) are the only way the kernels enter. *)
From Coq Require Import ZArith NArith List Bool String Permutation Lia.
From DM Require Import Base.PyVal Spec.Nf Spec.Table Spec.SplitGroup Gen.KSplitGroup Model.SplitGroup
  Proofs.SplitGroupFacts.
Import ListNotations.

(* ---------- kernels, characterised *)
Lemma k_split_values_spec {A} (b : bool) (g u : A) : k_split_values b g u = if b then g else u.
Proof. unfold k_split_values. destruct b; reflexivity. Qed.
Lemma k_split_multi_spec h a : k_split_multi h a = true <-> h = true /\ a = true.
Proof. unfold k_split_multi. destruct h, a; simpl; intuition congruence. Qed.
Lemma k_split_bad_spec a : k_split_bad a = true <-> a = false.
Proof. unfold k_split_bad. destruct a; simpl; intuition congruence. Qed.
Lemma k_split_yield_bare_spec h : k_split_yield_bare h = h.
Proof. reflexivity. Qed.
Lemma k_compare_route_spec f n : k_compare_route f n = if f && n then 1%nat else 0%nat.
Proof. unfold k_compare_route. destruct f, n; reflexivity. Qed.
Lemma k_cmpnan_keep_spec f n : k_cmpnan_keep f n = true <-> f = true /\ n = true.
Proof. unfold k_cmpnan_keep. destruct f, n; simpl; intuition congruence. Qed.
Lemma k_num_eq_cell_spec on oi cn ce : k_num_eq_cell on oi cn ce = if on then cn else ce.
Proof. unfold k_num_eq_cell. destruct on, oi; reflexivity. Qed.
Lemma k_group_keycell_spec {A} (b : bool) (t v : A) : k_group_keycell b t v = if b then t else v.
Proof. unfold k_group_keycell. destruct b; reflexivity. Qed.
Lemma k_group_newid_fresh n : k_group_newid n = n.
Proof. reflexivity. Qed.
Lemma k_group_grow_spec d n : k_group_grow d n = true <-> (d < n)%Z.
Proof. unfold k_group_grow. apply Z.ltb_lt. Qed.
Lemma k_group_newdepth_spec d n : k_group_newdepth d n = n.
Proof. reflexivity. Qed.
Lemma k_group_fill_spec d n : k_group_fill d n = n.
Proof. reflexivity. Qed.
Lemma k_group_bycell_row_spec : k_group_bycell_row = 0%Z.
Proof. reflexivity. Qed.

(* ---------- the model's objects *)
Definition rid_at (d : mdm) (p : nat) : N := nth p (m_rid d) 0%N.
Definition m_take (ps : list nat) (d : mdm) : mdm :=
  {| m_rid := map (rid_at d) ps; m_cols := take_cols ps (m_cols d) |}.
Definition cells_ok (k : kind) (cs : list val) : Prop :=
  match k with
  | KMixed => forall c, In c cs -> is_nan c = false       (* quantifier of C14: NaN keys only in FloatColumns *)
  | KFloat | KInt => forall c, In c cs -> is_num c = true
  end.
Definition wf_dm (d : mdm) : Prop :=
  NoDup (m_rid d)
  /\ forall n k cs, In (n, k, cs) (m_cols d) -> List.length cs = List.length (m_rid d) /\ cells_ok k cs.
Definition in_range (d : mdm) (ps : list nat) : Prop := forall p, In p ps -> (p < List.length (m_rid d))%nat.

Lemma keep_ids_map (keep : val -> bool) (g : nat -> N) (h : nat -> val) ps :
  keep_ids keep (map g ps) (map h ps) = map g (filter (fun p => keep (h p)) ps).
Proof.
  unfold keep_ids. induction ps as [|a ps IH]; simpl; auto.
  destruct (keep (h a)); simpl; rewrite IH; auto.
Qed.

Lemma key_eq_not_nan_r c v : is_nan v = false -> key_eq c v = py_cmp CEq c v.
Proof. unfold key_eq. intros ->. rewrite andb_false_r, orb_false_r. reflexivity. Qed.
Lemma key_eq_nan_r c : key_eq c (VFlt FNan) = is_nan c.
Proof.
  unfold key_eq, py_cmp. destruct c as [z|[|s|s|s m e]|s|]; simpl; try reflexivity.
Qed.
Lemma is_nan_flt v : is_flt v && is_nan v = is_nan v.
Proof. destruct v as [|[]| |]; reflexivity. Qed.
Lemma key_eq_num_nonnum c v : is_num c = true -> val_num v = None -> key_eq c v = false.
Proof.
  unfold key_eq, py_cmp, is_num. destruct (val_num c) eqn:E; [|discriminate]. intros _ ->.
  destruct c, v; simpl in *; try discriminate; try reflexivity; destruct f; try discriminate; reflexivity.
Qed.

(* col == v selects the ids of exactly the rows whose cell equals v, in row order *)
Lemma m_compare_eq_spec k (g : nat -> N) cs v ps :
  (match k with KMixed => True | _ => forall p, In p ps -> is_num (cell cs p) = true end) ->
  m_compare_eq k (map g ps) (take_cells ps cs) v = map g (rows_with key_eq (cell cs) v ps).
Proof.
  intros Hk. unfold m_compare_eq, take_cells, rows_with. rewrite k_compare_route_spec, is_nan_flt.
  destruct (is_nan v) eqn:Hn.
  - (* _compare_nan *)
    rewrite keep_ids_map. f_equal. apply filter_ext. intros p.
    assert (v = VFlt FNan) as -> by (destruct v as [|[]| |]; try discriminate; reflexivity).
    rewrite key_eq_nan_r. unfold k_cmpnan_keep. apply is_nan_flt.
  - destruct k.
    + rewrite keep_ids_map. f_equal. apply filter_ext. intros p. symmetry. apply key_eq_not_nan_r. auto.
    + destruct (val_num v) eqn:Ev.
      * rewrite keep_ids_map. f_equal. apply filter_ext. intros p.
        rewrite k_num_eq_cell_spec, Hn. symmetry. apply key_eq_not_nan_r. auto.
      * symmetry. rewrite (proj2 (filter_nil_iff _ _)); [reflexivity|].
        intros p Hp. apply key_eq_num_nonnum; auto.
    + destruct (val_num v) eqn:Ev.
      * rewrite keep_ids_map. f_equal. apply filter_ext. intros p.
        rewrite k_num_eq_cell_spec, Hn. symmetry. apply key_eq_not_nan_r. auto.
      * symmetry. rewrite (proj2 (filter_nil_iff _ _)); [reflexivity|].
        intros p Hp. apply key_eq_num_nonnum; auto.
Qed.
