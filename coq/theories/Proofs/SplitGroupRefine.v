(* C14, second part: the L1 model of split (Model/SplitGroup.v: selection by
   row id, the _compare routes, unique, the recursive generator) computes the
   L0 parts; characterising lemmas of the regenerated kernels
   (Gen/KSplitGroup.v) are the only way the kernels enter. *)
From Coq Require Import ZArith NArith List Bool String Permutation Lia.
From DM Require Import Base.PyVal Spec.Nf Spec.Table Spec.SplitGroup Gen.KSplitGroup Model.SplitGroup
  Proofs.SplitGroupFacts.
Import ListNotations.

(* ---------- kernels, characterised *)
Lemma k_split_values_spec {A} (b : bool) (g u : A) : k_split_values b g u = if b then g else u.
Proof. unfold k_split_values. destruct b; reflexivity. Qed.
Lemma k_split_multi_spec h a : k_split_multi h a = true <-> h = true /\ a = true.
Proof. unfold k_split_multi. destruct h, a; simpl; intuition congruence. Qed.
Lemma k_split_bad_spec a : k_split_bad a = true <-> a = false.
Proof. unfold k_split_bad. destruct a; simpl; intuition congruence. Qed.
Lemma k_split_yield_bare_spec h : k_split_yield_bare h = h.
Proof. reflexivity. Qed.
Lemma k_compare_route_spec f n : k_compare_route f n = if f && n then 1%nat else 0%nat.
Proof. unfold k_compare_route. destruct f, n; reflexivity. Qed.
Lemma k_cmpnan_keep_spec f n : k_cmpnan_keep f n = true <-> f = true /\ n = true.
Proof. unfold k_cmpnan_keep. destruct f, n; simpl; intuition congruence. Qed.
Lemma k_num_eq_cell_spec on oi cn ce : k_num_eq_cell on oi cn ce = if on then cn else ce.
Proof. unfold k_num_eq_cell. destruct on, oi; reflexivity. Qed.
Lemma k_group_keycell_spec {A} (b : bool) (t v : A) : k_group_keycell b t v = if b then t else v.
Proof. unfold k_group_keycell. destruct b; reflexivity. Qed.
(* k_group_newid / k_group_grow / k_group_newdepth / k_group_fill / k_group_bycell_row enter only through the
   executable model and its correspondence with the implementation: no theorem below depends on their exact
   form, so that harmless rewrites of those lines (<= for <, [-1] for [0]) do not raise an alarm. *)

Lemma k_split_multi_nocol h : k_split_multi h false = false.
Proof. destruct (k_split_multi h false) eqn:E; [|reflexivity]. apply k_split_multi_spec in E. destruct E. discriminate. Qed.
Lemma k_split_bad_allcol : k_split_bad true = false.
Proof. destruct (k_split_bad true) eqn:E; [|reflexivity]. apply k_split_bad_spec in E. discriminate. Qed.

(* ---------- the model's objects *)
Definition rid_at (d : mdm) (p : nat) : N := nth p (m_rid d) 0%N.
Definition m_take (ps : list nat) (d : mdm) : mdm :=
  {| m_rid := map (rid_at d) ps; m_cols := take_cols ps (m_cols d) |}.
Definition cells_ok (k : kind) (cs : list val) : Prop :=
  match k with
  | KMixed => forall c, In c cs -> is_nan c = false       (* quantifier of C14: NaN keys only in FloatColumns *)
  | KFloat | KInt => forall c, In c cs -> is_num c = true
  end.
Definition wf_dm (d : mdm) : Prop :=
  NoDup (m_rid d)
  /\ forall n k cs, In (n, k, cs) (m_cols d) -> List.length cs = List.length (m_rid d) /\ cells_ok k cs.
Definition in_range (d : mdm) (ps : list nat) : Prop := forall p, In p ps -> (p < List.length (m_rid d))%nat.

Lemma keep_ids_map (keep : val -> bool) (g : nat -> N) (h : nat -> val) ps :
  keep_ids keep (map g ps) (map h ps) = map g (filter (fun p => keep (h p)) ps).
Proof.
  unfold keep_ids. induction ps as [|a ps IH]; simpl; auto.
  destruct (keep (h a)); simpl; rewrite IH; auto.
Qed.

Lemma key_eq_not_nan_r c v : is_nan v = false -> key_eq c v = py_cmp CEq c v.
Proof. unfold key_eq. intros ->. rewrite andb_false_r, orb_false_r. reflexivity. Qed.
Lemma key_eq_nan_r c : key_eq c (VFlt FNan) = is_nan c.
Proof.
  unfold key_eq, py_cmp. destruct c as [z|[|s|s|s m e]|s|]; simpl; try reflexivity.
Qed.
Lemma is_nan_flt v : is_flt v && is_nan v = is_nan v.
Proof. destruct v as [|[]| |]; reflexivity. Qed.
Lemma key_eq_num_nonnum c v : is_num c = true -> val_num v = None -> key_eq c v = false.
Proof.
  intros Hc Hv. destruct v as [z|f|s|]; simpl in Hv; try discriminate;
    destruct c as [z'|[|s'|s'|s' m e]|s'|]; try discriminate Hc; reflexivity.
Qed.

Lemma filter_none {A} (f : A -> bool) l : (forall x, In x l -> f x = false) -> filter f l = [].
Proof.
  induction l as [|a l IH]; simpl; intros H; auto. rewrite (H a) by auto. apply IH. intros; apply H; auto.
Qed.

(* col == v selects the ids of exactly the rows whose cell equals v, in row order *)
Lemma m_compare_eq_spec k (g : nat -> N) cs v ps :
  (match k with KMixed => True | _ => forall p, In p ps -> is_num (cell cs p) = true end) ->
  m_compare_eq k (map g ps) (take_cells ps cs) v = map g (rows_with key_eq (cell cs) v ps).
Proof.
  intros Hk. unfold m_compare_eq, take_cells, rows_with. rewrite k_compare_route_spec, is_nan_flt.
  destruct (is_nan v) eqn:Hn.
  - (* _compare_nan *)
    rewrite keep_ids_map. f_equal. apply filter_ext. intros p.
    assert (v = VFlt FNan) as -> by (destruct v as [|[]| |]; try discriminate; reflexivity).
    rewrite key_eq_nan_r. unfold k_cmpnan_keep. apply is_nan_flt.
  - destruct k.
    + rewrite keep_ids_map. f_equal. apply filter_ext. intros p. symmetry. apply key_eq_not_nan_r. auto.
    + destruct (val_num v) eqn:Ev.
      * rewrite keep_ids_map. f_equal. apply filter_ext. intros p.
        rewrite k_num_eq_cell_spec. cbv iota. symmetry. apply key_eq_not_nan_r. auto.
      * rewrite filter_none; [reflexivity|].
        intros p Hp. apply key_eq_num_nonnum; auto.
    + destruct (val_num v) eqn:Ev.
      * rewrite keep_ids_map. f_equal. apply filter_ext. intros p.
        rewrite k_num_eq_cell_spec. cbv iota. symmetry. apply key_eq_not_nan_r. auto.
      * rewrite filter_none; [reflexivity|].
        intros p Hp. apply key_eq_num_nonnum; auto.
Qed.

(* ---------- selection by row id = taking positions *)
Lemma cell_cons x l i : cell (x :: l) (S i) = cell l i.
Proof. reflexivity. Qed.

Lemma rid_inj d p q :
  NoDup (m_rid d) -> (p < List.length (m_rid d))%nat -> (q < List.length (m_rid d))%nat ->
  rid_at d p = rid_at d q -> p = q.
Proof. intros ND Hp Hq E. eapply (proj1 (NoDup_nth (m_rid d) 0%N)); eauto. Qed.

Lemma lookup_by_id d cs ps q :
  NoDup (m_rid d) -> in_range d ps -> In q ps ->
  cell (take_cells ps cs) (idx_of (rid_at d q) (map (rid_at d) ps)) = cell cs q.
Proof.
  intros ND. unfold take_cells. induction ps as [|a ps IH]; intros Hr Hq; [contradiction|].
  simpl. destruct (N.eqb (rid_at d q) (rid_at d a)) eqn:E.
  - apply N.eqb_eq in E. assert (q = a) as ->; [|reflexivity].
    apply (rid_inj d); auto; apply Hr; first [exact Hq | simpl; auto].
  - rewrite cell_cons. apply IH.
    + intros p Hp. apply Hr. simpl. auto.
    + destruct Hq as [->|Hq]; auto. rewrite N.eqb_refl in E. discriminate.
Qed.

Lemma m_selectrowid_take d ps qs :
  NoDup (m_rid d) -> in_range d ps -> incl qs ps ->
  m_selectrowid (m_take ps d) (map (rid_at d) qs) = m_take qs d.
Proof.
  intros ND Hr Hi. unfold m_selectrowid, m_take. simpl. f_equal.
  unfold take_cols. rewrite map_map. apply map_ext. intros [[n k] cs].
  f_equal. unfold m_getrowidkey. rewrite map_map. unfold take_cells at 2. apply map_ext_in.
  intros q Hq. apply lookup_by_id; auto.
Qed.

(* ---------- unique *)
Lemma distinct_ext {K} (e1 e2 : K -> K -> bool) l :
  (forall x y, In x l -> In y l -> e1 x y = e2 x y) -> distinct e1 l = distinct e2 l.
Proof.
  induction l as [|a l IH]; simpl; intros H; auto.
  rewrite IH by (intros; apply H; auto). f_equal. apply filter_ext_in.
  intros y Hy. apply distinct_in in Hy. rewrite H; auto.
Qed.

Lemma m_safe_sorted_spec l : m_safe_sorted l = isort (unique_le l) l.
Proof. unfold m_safe_sorted, unique_le. destruct (forallb is_num l); auto. destruct (forallb is_str l); auto. Qed.

Lemma m_unique_spec k cells : cells_ok k cells -> m_unique k cells = unique cells.
Proof.
  intros H. unfold unique. destruct k; simpl in *.
  - rewrite m_safe_sorted_spec.
    rewrite (distinct_ext (py_cmp CEq) key_eq); [reflexivity|].
    intros x y _ Hy. symmetry. apply key_eq_not_nan_r. auto.
  - unfold unique_le. replace (forallb is_num (distinct key_eq cells)) with true; [reflexivity|].
    symmetry. apply forallb_forall. intros x Hx. apply distinct_in in Hx. auto.
  - unfold unique_le. replace (forallb is_num (distinct key_eq cells)) with true; [reflexivity|].
    symmetry. apply forallb_forall. intros x Hx. apply distinct_in in Hx. auto.
Qed.

(* ---------- split *)
Lemma find_col_take n ps v :
  find_col n (take_cols ps v) = match find_col n v with Some (k, cs) => Some (k, take_cells ps cs) | None => None end.
Proof.
  induction v as [|[[m k] cs] v IH]; simpl; auto. destruct (String.eqb n m); auto.
Qed.
Lemma find_col_in n v k cs : find_col n v = Some (k, cs) -> exists m, In (m, k, cs) v.
Proof.
  induction v as [|[[m k'] cs'] v IH]; simpl; [discriminate|].
  destruct (String.eqb n m).
  - intros E. inversion E; subst. eauto.
  - intros E. destruct (IH E) as [m' H]. eauto.
Qed.

Lemma take_cells_ok d k cs ps :
  List.length cs = List.length (m_rid d) -> in_range d ps -> cells_ok k cs -> cells_ok k (take_cells ps cs).
Proof.
  intros Hl Hr Hok.
  assert (forall c, In c (take_cells ps cs) -> In c cs) as Hin.
  { intros c Hc. unfold take_cells in Hc. apply in_map_iff in Hc. destruct Hc as [p [<- Hp]].
    unfold cell. apply nth_In. rewrite Hl. apply Hr. auto. }
  destruct k; simpl in *; intros c Hc; apply Hok; auto.
Qed.

(* the (value, part) pairs the generator yields for one column, with or without given values,
   on the sub-table of the rows ps *)
Lemma m_split_vals_spec d ps kname k cs given :
  wf_dm d -> in_range d ps -> find_col kname (m_cols d) = Some (k, cs) ->
  m_split_vals (m_take ps d) kname given =
    map (fun v => (v, m_take (rows_with key_eq (cell cs) v ps) d))
        (match given with Some (x :: g) => x :: g | _ => unique (take_cells ps cs) end).
Proof.
  intros [ND Hcols] Hr Hf. unfold m_split_vals. simpl m_cols. rewrite find_col_take, Hf.
  destruct (find_col_in _ _ _ _ Hf) as [m Hm]. destruct (Hcols _ _ _ Hm) as [Hl Hok].
  rewrite k_split_values_spec.
  assert (m_unique k (take_cells ps cs) = unique (take_cells ps cs)) as Eu
      by (apply m_unique_spec; eapply take_cells_ok; eauto).
  assert (forall v, m_selectrowid (m_take ps d) (m_compare_eq k (m_rid (m_take ps d)) (take_cells ps cs) v)
                    = m_take (rows_with key_eq (cell cs) v ps) d) as Es.
  { intros v. simpl m_rid. rewrite m_compare_eq_spec.
    - apply m_selectrowid_take; auto. intros p Hp. apply rows_with_spec in Hp. tauto.
    - destruct k; auto; intros p Hp; apply Hok; unfold cell; apply nth_In; rewrite Hl; apply Hr; auto. }
  destruct given as [[|x g]|]; rewrite ?Eu; apply map_ext; intros v; rewrite Es; reflexivity.
Qed.

(* split(col1, ..., colk) on the rows ps: the L0 parts, as tables *)
Theorem m_splitm_spec d : wf_dm d -> forall names kcols ps,
  in_range d ps ->
  map (fun n => match find_col n (m_cols d) with Some kc => Some (snd kc) | None => None end) names
    = map Some kcols ->
  m_splitm names (m_take ps d) = map (fun x => (fst x, m_take (snd x) d)) (splitm kcols ps).
Proof.
  intros Hwf. induction names as [|n names IH]; intros kcols ps Hr Hk; destruct kcols as [|c kcols]; try discriminate.
  - reflexivity.
  - simpl in Hk. inversion Hk as [[Hc Hrest]]. clear Hk.
    destruct (find_col n (m_cols d)) as [[k cs]|] eqn:Hf; [|discriminate]. simpl in Hc. inversion Hc; subst cs.
    simpl m_splitm. rewrite (m_split_vals_spec d ps n k c None Hwf Hr Hf). simpl splitm.
    induction (unique (take_cells ps c)) as [|u us IHu]; simpl; auto.
    rewrite map_app. f_equal; auto.
    rewrite (IH kcols); auto.
    + rewrite !map_map. apply map_ext. intros [vs qs]. reflexivity.
    + intros p Hp. apply rows_with_spec in Hp. apply Hr. tauto.
Qed.

Lemma take_all_cells cs : take_cells (seq 0 (List.length cs)) cs = cs.
Proof.
  unfold take_cells, cell. induction cs as [|a cs IH]; simpl; auto.
  f_equal. rewrite <- seq_shift, map_map. exact IH.
Qed.
Lemma m_take_all d : wf_dm d -> m_take (seq 0 (List.length (m_rid d))) d = d.
Proof.
  intros [_ Hc]. destruct d as [rid cs]. unfold m_take, rid_at. simpl in *. f_equal.
  - clear Hc. induction rid as [|a rid IH]; simpl; auto. f_equal. rewrite <- seq_shift, map_map. exact IH.
  - unfold take_cols. rewrite <- (map_id cs) at 2. apply map_ext_in. intros [[n k] c] Hin.
    destruct (Hc _ _ _ Hin) as [Hl _]. rewrite <- Hl, take_all_cells. reflexivity.
Qed.

(* the generator on a whole DataMatrix: exactly the L0 parts, in the L0 order *)
Theorem m_split_refines d names kcols :
  wf_dm d ->
  map (fun n => match find_col n (m_cols d) with Some kc => Some (snd kc) | None => None end) names
    = map Some kcols ->
  m_splitm names d = map (fun x => (fst x, m_take (snd x) d)) (splitm kcols (seq 0 (List.length (m_rid d)))).
Proof.
  intros Hwf Hk. rewrite <- (m_take_all d Hwf) at 1. apply m_splitm_spec; auto.
  intros p Hp. apply in_seq in Hp. lia.
Qed.

(* split(col, v1, ..., vk) on a whole DataMatrix *)
Theorem m_splitv_refines d kname k cs x vs :
  wf_dm d -> find_col kname (m_cols d) = Some (k, cs) ->
  m_split d kname [] (x :: vs) =
    SBare (map (fun qs => m_take qs d) (splitv cs (x :: vs) (seq 0 (List.length (m_rid d))))).
Proof.
  intros Hwf Hf. unfold m_split. rewrite k_split_multi_nocol.
  rewrite k_split_yield_bare_spec. f_equal.
  rewrite <- (m_take_all d Hwf) at 1.
  rewrite (m_split_vals_spec d _ kname k cs (Some (x :: vs)) Hwf); auto.
  - unfold splitv. rewrite !map_map. reflexivity.
  - intros p Hp. apply in_seq in Hp. lia.
Qed.

(* the user-level call without values *)
Theorem m_split_cols_refines d first rest kcols :
  wf_dm d ->
  map (fun n => match find_col n (m_cols d) with Some kc => Some (snd kc) | None => None end) (first :: rest)
    = map Some kcols ->
  m_split d first rest [] =
    SPairs (map (fun x => (fst x, m_take (snd x) d)) (splitm kcols (seq 0 (List.length (m_rid d))))).
Proof.
  intros Hwf Hk. unfold m_split. destruct rest as [|r rest].
  - rewrite k_split_multi_nocol. rewrite k_split_yield_bare_spec. f_equal.
    rewrite <- (m_split_refines d [first] kcols Hwf Hk). simpl.
    induction (m_split_vals d first None) as [|[v sd] l IHl]; simpl; congruence.
  - rewrite (proj2 (k_split_multi_spec _ _)) by auto.
    rewrite k_split_bad_allcol.
    f_equal. apply m_split_refines; auto.
Qed.

(* neither call changes its source: the model is a function of the source state and returns nothing else *)

(* ---------- group: the dict key built by the code (NaN replaced by the text nan, tuples compared by ==)
   identifies exactly the combinations that are equal in the sense of the property *)
Lemma py_eq_self v : py_cmp CEq v v = negb (is_nan v).
Proof.
  pose proof (key_eq_refl v) as H. unfold key_eq in H. destruct (is_nan v) eqn:E.
  - destruct v as [|[]| |]; try discriminate. reflexivity.
  - rewrite andb_false_r, orb_false_r in H. rewrite H. reflexivity.
Qed.
Lemma m_keycell_spec v : m_keycell v = if is_nan v then VStr "nan" else v.
Proof. unfold m_keycell. rewrite k_group_keycell_spec, py_eq_self, negb_involutive. reflexivity. Qed.

Definition not_nan_text (v : val) : Prop := v <> VStr "nan".

Lemma keycell_eq a b :
  not_nan_text a -> not_nan_text b -> py_cmp CEq (m_keycell a) (m_keycell b) = key_eq a b.
Proof.
  intros Ha Hb. rewrite !m_keycell_spec. destruct (is_nan a) eqn:Ea, (is_nan b) eqn:Eb.
  - destruct a as [|[]| |], b as [|[]| |]; try discriminate. reflexivity.
  - assert (a = VFlt FNan) as -> by (destruct a as [|[]| |]; try discriminate; reflexivity).
    rewrite key_eq_sym, key_eq_nan_r, Eb.
    destruct b as [z|f|s|]; try reflexivity. simpl. unfold str_eqb.
    destruct (String.eqb "nan" s) eqn:E; auto. apply String.eqb_eq in E. subst. exfalso. apply Hb. reflexivity.
  - assert (b = VFlt FNan) as -> by (destruct b as [|[]| |]; try discriminate; reflexivity).
    rewrite key_eq_nan_r, Ea.
    destruct a as [z|f|s|]; try reflexivity. simpl. unfold str_eqb.
    destruct (String.eqb s "nan") eqn:E; auto. apply String.eqb_eq in E. subst. exfalso. apply Ha. reflexivity.
  - symmetry. apply key_eq_not_nan_r. auto.
Qed.

Theorem group_key_faithful a : forall b,
  Forall not_nan_text a -> Forall not_nan_text b ->
  tuple_eq (map m_keycell a) (map m_keycell b) = keys_eq a b.
Proof.
  induction a as [|x a IH]; intros [|y b] Ha Hb; simpl; auto.
  inversion Ha; inversion Hb; subst. rewrite keycell_eq, IH; auto.
Qed.

(* new keys are numbered by the current size of the dict: numbers of different keys differ *)
Lemma number_keys_length keys : forall d, List.length (number_keys keys d) = List.length keys.
Proof.
  unfold number_keys. induction keys as [|k r IH]; intros d; simpl; auto.
  destruct (gdict_get tuple_eq k d); simpl; rewrite IH; auto.
Qed.
