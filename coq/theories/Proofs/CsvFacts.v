(* Proofs for C16: the csv reader automaton inverts the csv writer for all
   records (parse_render); readtxt inverts writetxt cell by cell
   (csv_roundtrip) and the result satisfies the L0 statement (roundtrip_spec);
   BOM, line endings, short rows, series guard. *)
From Coq Require Import ZArith List Bool String Ascii Lia DecimalString.
From DM Require Import Base.PyVal Base.CsvPy Spec.Nf Spec.Csv Gen.KCheck Model.Store Gen.KCsv Model.Csv Proofs.NfFacts.
Import ListNotations.
Open Scope Z_scope.

(* ------------------------------------------------------------------ *)
(* generic list facts *)

Lemma map_res_ok {A B} (f : A -> res B) (g : A -> B) (l : list A) :
  Forall (fun a => f a = Ok (g a)) l -> map_res f l = Ok (map g l).
Proof.
  induction 1 as [|a l Ha _ IH]; simpl; [reflexivity|].
  rewrite Ha. simpl. rewrite IH. reflexivity.
Qed.

Lemma to_chars_to_str l : to_chars (to_str l) = l.
Proof. apply list_ascii_of_string_of_list_ascii. Qed.
Lemma to_str_to_chars s : to_str (to_chars s) = s.
Proof. apply string_of_list_ascii_of_string. Qed.

Lemma map_to_str_to_chars (l : list (list string)) : map (map to_str) (map (map to_chars) l) = l.
Proof.
  induction l as [|r l IH]; simpl; [reflexivity|]. rewrite IH. f_equal.
  induction r as [|s r IHr]; simpl; [reflexivity|]. rewrite to_str_to_chars, IHr. reflexivity.
Qed.

Lemma aeqb_sym a b : aeqb a b = aeqb b a.
Proof. unfold aeqb. apply Ascii.eqb_sym. Qed.
Lemma aeqb_refl a : aeqb a a = true.
Proof. unfold aeqb. apply Ascii.eqb_refl. Qed.

Definition nocr (l : chars) : Prop := Forall (fun c => aeqb c CR = false) l.

(* ------------------------------------------------------------------ *)
(* universal newlines *)

Lemma unl_nocr t : nocr t -> unl t = t.
Proof.
  induction 1 as [|c t Hc _ IH]; simpl; [reflexivity|]. rewrite Hc, IH. reflexivity.
Qed.

Definition plain_line (l : chars) : Prop := Forall (fun c => aeqb c CR = false /\ aeqb c LF = false) l.

Lemma unl_line_app l t : plain_line l -> unl (l ++ t) = l ++ unl t.
Proof.
  induction 1 as [|c l [Hc _] _ IH]; simpl; [reflexivity|]. rewrite Hc, IH. reflexivity.
Qed.

Theorem unl_lf (ls : list chars) : Forall plain_line ls ->
  unl (List.concat (map (fun l => l ++ [LF]) ls)) = List.concat (map (fun l => l ++ [LF]) ls).
Proof.
  induction 1 as [|l ls Hl _ IH]; simpl; [reflexivity|].
  rewrite <- !app_assoc. rewrite unl_line_app by assumption. simpl. rewrite IH. reflexivity.
Qed.

(* lines joined with CR LF, with CR or with LF denote the same text *)
Theorem unl_crlf (ls : list chars) : Forall plain_line ls ->
  unl (List.concat (map (fun l => l ++ [CR; LF]) ls)) = List.concat (map (fun l => l ++ [LF]) ls).
Proof.
  induction 1 as [|l ls Hl _ IH]; simpl; [reflexivity|].
  rewrite <- !app_assoc. rewrite unl_line_app by assumption. simpl. rewrite IH. reflexivity.
Qed.

Lemma unl_cr_cons_plain l t : plain_line l -> l <> [] ->
  unl (CR :: l ++ t) = LF :: unl (l ++ t).
Proof.
  intros Hl Hne. destruct l as [|c l]; [congruence|]. inversion Hl as [|? ? [Hc Hlf] Hl']; subst.
  simpl. rewrite Hlf. rewrite Hc. reflexivity.
Qed.

(* for lone CR the next line must not begin with LF, which holds for plain lines; the
   statement is by induction on the list of lines, looking at the head of the rest *)
Theorem unl_cr (ls : list chars) : Forall plain_line ls ->
  unl (List.concat (map (fun l => l ++ [CR]) ls)) = List.concat (map (fun l => l ++ [LF]) ls).
Proof.
  induction 1 as [|l ls Hl Hls IH]; simpl; [reflexivity|].
  rewrite <- !app_assoc. rewrite unl_line_app by assumption. f_equal.
  simpl app.
  (* unl (CR :: rest) where rest = concat ... starts with a plain character, a CR, or is empty *)
  destruct ls as [|l2 ls2]; [reflexivity|].
  simpl in IH |- *. rewrite <- IH.
  inversion Hls as [|? ? Hl2 _]; subst.
  destruct l2 as [|c l2].
  - simpl. reflexivity.
  - inversion Hl2 as [|? ? [Hc Hlf] _]; subst. simpl. rewrite Hlf. reflexivity.
Qed.

(* ------------------------------------------------------------------ *)
(* the automaton inverts the writer *)

Section Automaton.
Variables d q : ascii.
Hypothesis Hdq : aeqb d q = false.
Hypothesis Hd : nlb d = false.
Hypothesis Hq : nlb q = false.

Let lt : chars := [LF].

Lemma HdLF : aeqb d LF = false. Proof. unfold nlb in Hd. apply orb_false_elim in Hd. tauto. Qed.
Lemma HdCR : aeqb d CR = false. Proof. unfold nlb in Hd. apply orb_false_elim in Hd. tauto. Qed.
Lemma HqLF : aeqb q LF = false. Proof. unfold nlb in Hq. apply orb_false_elim in Hq. tauto. Qed.
Lemma HqCR : aeqb q CR = false. Proof. unfold nlb in Hq. apply orb_false_elim in Hq. tauto. Qed.
Lemma Hqd : aeqb q d = false. Proof. rewrite aeqb_sym. exact Hdq. Qed.
Lemma HLFq : aeqb LF q = false. Proof. rewrite aeqb_sym. exact HqLF. Qed.
Lemma HLFd : aeqb LF d = false. Proof. rewrite aeqb_sym. exact HdLF. Qed.

Definition run (s : st) (t : chars) : st := fold_left (feed d q) t s.
Lemma run_app s a b : run s (a ++ b) = run (run s a) b.
Proof. apply fold_left_app. Qed.

(* an ordinary character: neither delimiter, quote nor line break *)
Definition okc (c : ascii) : Prop :=
  aeqb c d = false /\ aeqb c q = false /\ aeqb c LF = false /\ aeqb c CR = false.

Definition startm (m : mode) : bool := match m with SR | SF => true | _ => false end.
Definition fieldm (m : mode) : bool := match m with SR | SF | INF | QINQ => true | _ => false end.
Definition endm (m : mode) : bool := match m with SF | INF | QINQ => true | _ => false end.

Ltac stp := unfold feed, step_ch, sf_char, eol, step_eol, nlb; cbn [md inl fld flds recs setmd setinl push save emit].

Lemma feed_start_ok m i f fs rs c : startm m = true -> okc c ->
  feed d q (mkst m i f fs rs) c = mkst INF true (c :: f) fs rs.
Proof.
  intros Hm (H1 & H2 & H3 & H4). destruct m; try discriminate; stp; rewrite ?H1, ?H2, ?H3, ?H4; reflexivity.
Qed.

Lemma feed_INF_ok i f fs rs c : okc c ->
  feed d q (mkst INF i f fs rs) c = mkst INF true (c :: f) fs rs.
Proof. intros (H1 & H2 & H3 & H4). stp; rewrite ?H1, ?H2, ?H3, ?H4; reflexivity. Qed.

Lemma feed_start_q m i f fs rs : startm m = true ->
  feed d q (mkst m i f fs rs) q = mkst INQ true f fs rs.
Proof.
  intros Hm. pose proof HqLF as A. pose proof HqCR as B.
  destruct m; try discriminate; stp; rewrite ?A, ?B, ?aeqb_refl; reflexivity.
Qed.

Lemma feed_INQ_other i f fs rs c : aeqb c q = false ->
  exists i', feed d q (mkst INQ i f fs rs) c = mkst INQ i' (c :: f) fs rs.
Proof.
  intros H. stp. rewrite H. destruct (aeqb c LF); cbn; eexists; reflexivity.
Qed.

Lemma feed_INQ_q i f fs rs : feed d q (mkst INQ i f fs rs) q = mkst QINQ true f fs rs.
Proof. pose proof HqLF as A. stp. rewrite aeqb_refl, A. reflexivity. Qed.

Lemma feed_QINQ_q i f fs rs : feed d q (mkst QINQ i f fs rs) q = mkst INQ true (q :: f) fs rs.
Proof. pose proof HqLF as A. stp. rewrite aeqb_refl, A. reflexivity. Qed.

Lemma feed_d m i f fs rs : fieldm m = true ->
  feed d q (mkst m i f fs rs) d = mkst SF true [] (rev f :: fs) rs.
Proof.
  intros Hm. pose proof HdLF as A. pose proof HdCR as B.
  destruct m; try discriminate; stp; rewrite ?A, ?B, ?Hdq, ?aeqb_refl; reflexivity.
Qed.

Lemma feed_LF m i f fs rs : endm m = true ->
  feed d q (mkst m i f fs rs) LF = mkst SR false [] [] (rev (rev f :: fs) :: rs).
Proof.
  intros Hm. pose proof HLFq as A. pose proof HLFd as B.
  destruct m; try discriminate; stp; rewrite ?A, ?B; reflexivity.
Qed.

Lemma feed_LF_SR i fs rs : feed d q (mkst SR i [] fs rs) LF = mkst SR false [] [] (rev fs :: rs).
Proof. stp. reflexivity. Qed.

(* field bodies *)
Lemma run_plain f : Forall okc f -> forall i acc fs rs,
  run (mkst INF i acc fs rs) f = mkst INF (match f with [] => i | _ => true end) (rev f ++ acc) fs rs.
Proof.
  induction 1 as [|c f Hc _ IH]; intros; [reflexivity|].
  cbn [run fold_left]. rewrite feed_INF_ok by assumption. fold (run (mkst INF true (c :: acc) fs rs) f).
  rewrite IH. simpl rev. rewrite <- app_assoc. simpl. destruct f; reflexivity.
Qed.

Lemma run_escape f : forall i acc fs rs,
  exists i', run (mkst INQ i acc fs rs) (escape q f) = mkst INQ i' (rev f ++ acc) fs rs.
Proof.
  induction f as [|c f IH]; intros; [eexists; reflexivity|].
  simpl escape. destruct (aeqb c q) eqn:E.
  - apply Ascii.eqb_eq in E. subst c. cbn [run fold_left].
    rewrite feed_INQ_q, feed_QINQ_q. fold (run (mkst INQ true (q :: acc) fs rs) (escape q f)).
    destruct (IH true (q :: acc) fs rs) as [i' Hi]. exists i'. rewrite Hi. simpl rev. rewrite <- app_assoc. reflexivity.
  - cbn [run fold_left]. destruct (feed_INQ_other i acc fs rs c E) as [i1 H1]. rewrite H1.
    fold (run (mkst INQ i1 (c :: acc) fs rs) (escape q f)).
    destruct (IH i1 (c :: acc) fs rs) as [i' Hi]. exists i'. rewrite Hi. simpl rev. rewrite <- app_assoc. reflexivity.
Qed.

Lemma run_quoted m i f fs rs : startm m = true ->
  run (mkst m i [] fs rs) (q :: escape q f ++ [q]) = mkst QINQ true (rev f) fs rs.
Proof.
  intros Hm. cbn [run fold_left]. rewrite feed_start_q by assumption.
  fold (run (mkst INQ true [] fs rs) (escape q f ++ [q])). rewrite run_app.
  destruct (run_escape f true [] fs rs) as [i' Hi]. rewrite Hi. rewrite app_nil_r.
  cbn [run fold_left]. apply feed_INQ_q.
Qed.

Lemma run_unquoted m i c f fs rs : startm m = true -> Forall okc (c :: f) ->
  run (mkst m i [] fs rs) (c :: f) = mkst INF true (rev (c :: f)) fs rs.
Proof.
  intros Hm H. inversion H as [|? ? Hc Hf]; subst. cbn [run fold_left]. rewrite feed_start_ok by assumption.
  fold (run (mkst INF true [c] fs rs) f). rewrite run_plain by assumption. simpl rev. destruct f; reflexivity.
Qed.

(* an unquoted rendered field consists of ordinary characters *)
Lemma unquoted_ok f : needs_quote d q lt f = false -> nocr f -> Forall okc f.
Proof.
  unfold needs_quote. intros H N. induction N as [|c f Hc _ IH]; [constructor|].
  simpl in H. apply orb_false_elim in H. destruct H as [H1 H2].
  apply orb_false_elim in H1. destruct H1 as [H1 H3]. apply orb_false_elim in H1. destruct H1 as [H1 H4].
  unfold lt, memb in H3. simpl in H3. rewrite orb_false_r in H3.
  constructor; [repeat split; assumption | apply IH; assumption].
Qed.

Notation rf := (render_field d q lt).

Lemma run_field_d m i f fs rs : startm m = true -> nocr f ->
  run (mkst m i [] fs rs) (rf f ++ [d]) = mkst SF true [] (f :: fs) rs.
Proof.
  intros Hm N. rewrite run_app. unfold render_field. destruct (needs_quote d q lt f) eqn:E.
  - rewrite run_quoted by assumption. cbn [run fold_left]. rewrite feed_d by reflexivity. rewrite rev_involutive. reflexivity.
  - destruct f as [|c f].
    + cbn [run fold_left]. rewrite feed_d by (destruct m; try discriminate; reflexivity). reflexivity.
    + rewrite run_unquoted by (try assumption; apply unquoted_ok; assumption).
      cbn [run fold_left]. rewrite feed_d by reflexivity. rewrite rev_involutive. reflexivity.
Qed.

Lemma run_field_LF m i f fs rs : m = SF \/ (m = SR /\ rf f <> []) -> nocr f ->
  run (mkst m i [] fs rs) (rf f ++ [LF]) = mkst SR false [] [] (rev (f :: fs) :: rs).
Proof.
  intros Hm N. assert (Hs : startm m = true) by (destruct Hm as [->|[-> _]]; reflexivity).
  rewrite run_app. unfold render_field in *. destruct (needs_quote d q lt f) eqn:E.
  - rewrite run_quoted by assumption. cbn [run fold_left]. rewrite feed_LF by reflexivity. rewrite rev_involutive. reflexivity.
  - destruct f as [|c f].
    + destruct Hm as [->|[_ Hne]]; [|congruence]. cbn [run fold_left]. rewrite feed_LF by reflexivity. reflexivity.
    + rewrite run_unquoted by (try assumption; apply unquoted_ok; assumption).
      cbn [run fold_left]. rewrite feed_LF by reflexivity. rewrite rev_involutive. reflexivity.
Qed.

Lemma join_cons2 f g r : join d (f :: g :: r) = f ++ d :: join d (g :: r).
Proof. reflexivity. Qed.

Lemma run_fields_SF fs : fs <> [] -> Forall nocr fs -> forall i acc rs,
  run (mkst SF i [] acc rs) (join d (map rf fs) ++ [LF]) = mkst SR false [] [] (rev (rev fs ++ acc) :: rs).
Proof.
  induction fs as [|f fs IH]; [congruence|]. intros _ H i acc rs. inversion H as [|? ? Hf Hfs]; subst.
  destruct fs as [|g fs].
  - simpl map. simpl join. rewrite run_field_LF by (auto). reflexivity.
  - change (map rf (f :: g :: fs)) with (rf f :: rf g :: map rf fs). rewrite join_cons2.
    change (rf g :: map rf fs) with (map rf (g :: fs)).
    replace ((rf f ++ d :: join d (map rf (g :: fs))) ++ [LF])
      with ((rf f ++ [d]) ++ (join d (map rf (g :: fs)) ++ [LF])) by (rewrite <- !app_assoc; reflexivity).
    rewrite run_app. rewrite run_field_d by (auto). rewrite IH by (congruence || assumption).
    f_equal. f_equal. f_equal. simpl rev. rewrite <- !app_assoc. reflexivity.
Qed.

Lemma run_row fs rs : Forall nocr fs ->
  run (mkst SR false [] [] rs) (render_row d q lt fs) = mkst SR false [] [] (fs :: rs).
Proof.
  intros H. unfold render_row. destruct fs as [|f fs].
  - simpl. unfold lt. cbn [run fold_left]. apply feed_LF_SR.
  - inversion H as [|? ? Hf Hfs]; subst. destruct fs as [|g fs].
    + simpl map. simpl join. destruct (rf f) as [|c body] eqn:E.
      * (* the single empty field *)
        assert (f = []) as ->.
        { unfold render_field in E. destruct (needs_quote d q lt f); [discriminate|assumption]. }
        unfold lt. change ([q; q] ++ [LF]) with ((q :: escape q [] ++ [q]) ++ [LF]).
        rewrite run_app. rewrite run_quoted by reflexivity. cbn [run fold_left]. rewrite feed_LF by reflexivity. reflexivity.
      * rewrite <- E. unfold lt. rewrite run_field_LF; [reflexivity| |assumption].
        right. split; [reflexivity|]. rewrite E. discriminate.
    + change (map rf (f :: g :: fs)) with (rf f :: map rf (g :: fs)).
      assert (Hb : join d (rf f :: map rf (g :: fs)) = rf f ++ d :: join d (map rf (g :: fs))) by reflexivity.
      rewrite Hb. destruct (rf f ++ d :: join d (map rf (g :: fs))) as [|c body] eqn:E.
      { destruct (rf f); discriminate. }
      rewrite <- E.
      replace ((rf f ++ d :: join d (map rf (g :: fs))) ++ lt)
        with ((rf f ++ [d]) ++ (join d (map rf (g :: fs)) ++ [LF])) by (unfold lt; rewrite <- !app_assoc; reflexivity).
      rewrite run_app. rewrite run_field_d by (auto). rewrite run_fields_SF by (congruence || assumption).
      f_equal. f_equal. rewrite rev_app_distr. rewrite rev_involutive. reflexivity.
Qed.

Lemma run_rows rows : Forall (Forall nocr) rows -> forall rs,
  run (mkst SR false [] [] rs) (render d q lt rows) = mkst SR false [] [] (rev rows ++ rs).
Proof.
  induction 1 as [|r rows Hr _ IH]; intros; [reflexivity|].
  unfold render. simpl map. simpl List.concat. rewrite run_app. rewrite run_row by assumption.
  fold (render d q lt rows). rewrite IH. simpl rev. rewrite <- app_assoc. reflexivity.
Qed.

Theorem parse_render rows : Forall (Forall nocr) rows -> parse d q (render d q [LF] rows) = Ok rows.
Proof.
  intros H. unfold parse. change (fold_left (feed d q) (render d q [LF] rows) init) with (run init (render d q lt rows)).
  unfold init. rewrite run_rows by assumption. rewrite app_nil_r. unfold finish. simpl. rewrite rev_involutive. reflexivity.
Qed.

(* the written text contains no CR *)
Lemma escape_nocr f : nocr f -> nocr (escape q f).
Proof.
  pose proof HqCR as A.
  induction 1 as [|c f Hc _ IH]; simpl; [constructor|].
  destruct (aeqb c q) eqn:E.
  - apply Ascii.eqb_eq in E. subst c. repeat constructor; assumption.
  - constructor; assumption.
Qed.

Lemma nocr_app a b : nocr a -> nocr b -> nocr (a ++ b).
Proof. unfold nocr. intros. apply Forall_app. split; assumption. Qed.

Lemma render_field_nocr f : nocr f -> nocr (rf f).
Proof.
  pose proof HqCR as A. intros N. unfold render_field. destruct (needs_quote d q lt f); [|assumption].
  constructor; [assumption|]. apply nocr_app; [apply escape_nocr; assumption|repeat constructor; assumption].
Qed.

Lemma join_nocr fs : Forall nocr fs -> nocr (join d fs).
Proof.
  pose proof HdCR as A.
  induction 1 as [|f fs Hf Hfs IH]; [constructor|]. destruct fs as [|g fs]; [assumption|].
  rewrite join_cons2. apply nocr_app; [assumption|]. constructor; assumption.
Qed.

Lemma render_row_nocr fs : Forall nocr fs -> nocr (render_row d q lt fs).
Proof.
  pose proof HqCR as A. intros H. unfold render_row. apply nocr_app; [|repeat constructor].
  assert (J : nocr (join d (map rf fs))).
  { apply join_nocr. induction H; simpl; constructor; [apply render_field_nocr; assumption|assumption]. }
  destruct fs as [|f0 fs0]; [assumption|]. destruct (join d (map rf (f0 :: fs0))); [repeat constructor; assumption|assumption].
Qed.

Lemma render_nocr rows : Forall (Forall nocr) rows -> nocr (render d q lt rows).
Proof.
  induction 1 as [|r rows Hr _ IH]; [constructor|]. unfold render. simpl. apply nocr_app; [apply render_row_nocr; assumption|exact IH].
Qed.

(* a byte-order mark in front of a file whose first field is written unquoted ends up in front of that field *)
Lemma needs_quote_app a b : needs_quote d q lt (a ++ b) = needs_quote d q lt a || needs_quote d q lt b.
Proof. unfold needs_quote. apply existsb_app. Qed.

Theorem parse_bom_prefix (bom n : chars) (rest : list chars) (rows : list (list chars)) :
  needs_quote d q lt bom = false -> needs_quote d q lt n = false -> n <> [] ->
  nocr bom -> Forall (Forall nocr) ((n :: rest) :: rows) ->
  parse d q (bom ++ render d q [LF] ((n :: rest) :: rows)) = Ok (((bom ++ n) :: rest) :: rows).
Proof.
  intros Hb Hn Hne Nb H.
  assert (E : bom ++ render d q [LF] ((n :: rest) :: rows) = render d q [LF] (((bom ++ n) :: rest) :: rows)).
  { unfold render. simpl map. simpl List.concat. rewrite app_assoc. f_equal.
    unfold render_row. rewrite app_assoc. f_equal.
    assert (R : render_field d q [LF] (bom ++ n) = bom ++ render_field d q [LF] n).
    { unfold render_field. fold lt. rewrite needs_quote_app, Hb, Hn. reflexivity. }
    assert (Rn : render_field d q [LF] n = n) by (unfold render_field; fold lt; rewrite Hn; reflexivity).
    simpl map. rewrite R, Rn.
    destruct rest as [|g rest].
    - simpl join. destruct n as [|c n]; [congruence|]. destruct bom; reflexivity.
    - change (map (render_field d q [LF]) (g :: rest)) with (map rf (g :: rest)).
      assert (J : forall x, join d (x :: map rf (g :: rest)) = x ++ d :: join d (map rf (g :: rest))) by reflexivity.
      rewrite !J. rewrite <- app_assoc. destruct n as [|c n]; [congruence|]. destruct bom; reflexivity. }
  rewrite E. apply parse_render.
  inversion H as [|? ? Hr Hrows]; subst. constructor; [|assumption].
  inversion Hr as [|? ? Hn' Hrest]; subst. constructor; [apply nocr_app; assumption|assumption].
Qed.

End Automaton.

(* ------------------------------------------------------------------ *)
(* cells: safe_str then MixedColumn's type check *)

Lemma string_of_uint_nocr u : nocr (to_chars (DecimalString.NilEmpty.string_of_uint u)).
Proof. induction u; simpl; constructor; (reflexivity || assumption). Qed.

Lemma show_int_nocr z : nocr (to_chars (show_int z)).
Proof.
  unfold show_int, NilZero.string_of_int, NilZero.string_of_uint.
  destruct (Z.to_int z) as [u|u]; destruct u; simpl; repeat (constructor; try reflexivity); apply string_of_uint_nocr.
Qed.

Lemma filter_all {A} (p : A -> bool) (l : list A) : (forall x, In x l -> p x = true) -> filter p l = l.
Proof.
  induction l as [|a l IH]; intros H; simpl; [reflexivity|].
  rewrite (H a (or_introl eq_refl)). rewrite IH; [reflexivity|]. intros x Hx. apply H. right. exact Hx.
Qed.

Lemma dedup_nodup (l : list string) : NoDup l -> dedup l = l.
Proof.
  induction 1 as [|x l Hx _ IH]; simpl; [reflexivity|]. rewrite IH. f_equal.
  apply filter_all. intros y Hy. unfold str_eqb.
  destruct (String.eqb x y) eqn:E; [|reflexivity]. apply String.eqb_eq in E. subst. contradiction.
Qed.

Lemma fill_exact (m : string) (r : list string) : fill m (List.length r) r = r.
Proof. unfold fill. rewrite firstn_all, Nat.sub_diag. simpl. apply app_nil_r. Qed.

(* ------------------------------------------------------------------ *)
(* the table read back satisfies the L0 statement *)

Lemma num_eqb_refl_int z : num_eqb (NInt z) (NInt z) = true.
Proof. unfold num_eqb, num_cmp, dy_cmp. rewrite Z.compare_refl. reflexivity. Qed.

Lemma cell_ok_rt v : cell_ok v (rt_cell v) = true.
Proof.
  destruct v as [z|f|s|].
  - cbn [cell_ok rt_cell val_num]. apply num_eqb_refl_int.
  - destruct f as [| neg | neg | neg m e].
    + reflexivity.
    + destruct neg; reflexivity.
    + destruct neg; reflexivity.
    + unfold rt_cell. cbn [fl_is_finite andb]. destruct (fl_integral (FFin neg m e)) eqn:E.
      * cbn [cell_ok val_num fl_is_nan]. rewrite trunc_eq_integral. exact E.
      * cbn [cell_ok val_num fl_is_nan]. unfold num_eqb, num_cmp, fl_dy, dy_cmp. rewrite Z.compare_refl. reflexivity.
  - cbn [cell_ok rt_cell]. unfold str_eqb. apply String.eqb_refl.
  - reflexivity.
Qed.

Lemma index_of_nth l : NoDup l -> forall j n, nth_error l j = Some n -> index_of n l = Some j.
Proof.
  induction 1 as [|x l Hx Hnd IH]; intros j n Hj; [destruct j; discriminate|].
  destruct j as [|j]; simpl in Hj.
  - inversion Hj; subst. simpl. unfold str_eqb. rewrite String.eqb_refl. reflexivity.
  - simpl. unfold str_eqb. destruct (String.eqb n x) eqn:E.
    + apply String.eqb_eq in E. subst. exfalso. apply Hx. eapply nth_error_In; eauto.
    + rewrite (IH j n Hj). reflexivity.
Qed.

Lemma nth_error_combine {A B} (a : list A) : forall (b : list B) j x y,
  nth_error (combine a b) j = Some (x, y) -> nth_error a j = Some x /\ nth_error b j = Some y.
Proof.
  induction a as [|a0 a IH]; intros b j x y H; [destruct j; discriminate|].
  destruct b as [|b0 b]; [destruct j; discriminate|]. destruct j as [|j]; simpl in *.
  - inversion H; auto.
  - apply IH; assumption.
Qed.

Lemma nodupb_NoDup l : NoDup l -> nodupb l = true.
Proof.
  induction 1 as [|x l Hx _ IH]; simpl; [reflexivity|]. rewrite IH, andb_true_r.
  apply negb_true_iff. apply not_true_is_false. intros E. apply existsb_exists in E.
  destruct E as [y [Hy E]]. unfold str_eqb in E. apply String.eqb_eq in E. subst. contradiction.
Qed.

(* L1's answer satisfies the L0 statement of the property *)
Theorem roundtrip_spec names rows :
  NoDup names -> Forall (fun r : list val => List.length r = List.length names) rows ->
  roundtrip_ok (names, rows) (names, map (map rt_cell) rows) = true.
Proof.
  intros Hnd Hrows. unfold roundtrip_ok, tables_ok. rewrite nodupb_NoDup by assumption. rewrite Nat.eqb_refl.
  cbn [andb].
  induction Hrows as [|r rows Hr _ IH]; cbn [map rows_ok]; [reflexivity|]. rewrite IH, andb_true_r.
  unfold row_ok. rewrite map_length, Hr, Nat.eqb_refl. cbn [andb].
  apply forallb_forall. intros [n v] Hin. cbn [fst snd].
  apply In_nth_error in Hin. destruct Hin as [j Hj]. apply nth_error_combine in Hj. destruct Hj as [Hn Hv].
  unfold cell_of. rewrite (index_of_nth names Hnd j n Hn). rewrite nth_error_map, Hv. cbn [option_map]. apply cell_ok_rt.
Qed.

Section Cells.
Variables d q : ascii.
Hypothesis Hdq : aeqb d q = false.
Hypothesis Hd : nlb d = false.
Hypothesis Hq : nlb q = false.
(* CPython oracles: int(str), float(str), repr(float) *)
Variable pint : string -> option Z.
Variable pflt : string -> option fl.
Variable shf : fl -> string.
Let cls : cls_t := fun s => (pint s, pflt s).
Hypothesis Hint : forall z, pint (show_int z) = Some z.
Hypothesis Hflt : forall f, fl_is_finite f = true -> fl_integral f = false ->
                            pint (shf f) = None /\ pflt (shf f) = Some f.
Hypothesis Hshf : forall f, nocr (to_chars (shf f)).
Hypothesis Hnan : pint "nan" = None /\ pflt "nan" = Some FNan.
Hypothesis Hinf : pint "inf" = None /\ pflt "inf" = Some (FInf false).
Hypothesis Hninf : pint "-inf" = None /\ pflt "-inf" = Some (FInf true).
Hypothesis Hnone : pint "None" = None /\ pflt "None" = None.

(* a text cell is text that a MixedColumn keeps as text, without CR *)
Definition cell_wf (v : val) : Prop :=
  match v with
  | VStr s => nocr (to_chars s) /\ pint s = None /\ pflt s = None
  | _ => True
  end.

(* the text writetxt puts into the file for a cell *)
Definition cell_str (v : val) : string :=
  match v with
  | VInt z => show_int z
  | VFlt f => if fl_is_finite f && fl_integral f then show_int (fl_trunc f) else show_flt shf f
  | VStr s => s
  | VNone => "None"
  end.

Lemma cell_text_eq v : cell_text shf (pyv_of_val v) = Ok (cell_str v).
Proof.
  destruct v as [z|f|s|]; try reflexivity.
  destruct f as [| neg | neg | neg m e].
  - reflexivity.
  - destruct neg; reflexivity.
  - destruct neg; reflexivity.
  - unfold cell_text, k_cell_str, k_safe_decode, cell_str, pyv_of_val.
    cbn -[fl_trunc num_eqb fl_integral show_int].
    unfold py_eq. cbn -[fl_trunc num_eqb fl_integral show_int].
    rewrite trunc_eq_integral. destruct (fl_integral (FFin neg m e)); reflexivity.
Qed.

Lemma cell_store v : cell_wf v -> store_cell KMixed (text_obj cls (cell_str v)) = Ok (rt_cell v).
Proof.
  intros W. rewrite store_mixed_spec. unfold text_obj, cls. cbn [fst snd].
  destruct v as [z|f|s|].
  - simpl cell_str. rewrite Hint. reflexivity.
  - simpl cell_str. simpl rt_cell. destruct (fl_is_finite f && fl_integral f) eqn:E.
    + rewrite Hint. reflexivity.
    + destruct f as [| neg | neg | neg m e].
      * simpl. destruct Hnan as [-> ->]. reflexivity.
      * destruct neg; simpl; [destruct Hninf as [-> ->]|destruct Hinf as [-> ->]]; reflexivity.
      * discriminate.
      * cbn [fl_is_finite andb] in E. destruct (Hflt (FFin neg m e) eq_refl E) as [A B]. cbn [show_flt]. rewrite A, B.
        unfold nf_mixed, num_of. cbn [fl_is_finite andb]. rewrite E. reflexivity.
  - simpl in W. destruct W as (_ & A & B). simpl. rewrite A, B. reflexivity.
  - simpl. destruct Hnone as [-> ->]. reflexivity.
Qed.

Lemma cell_nocr v : cell_wf v -> nocr (to_chars (cell_str v)).
Proof.
  intros W. destruct v as [z|f|s|]; simpl.
  - apply show_int_nocr.
  - destruct (fl_is_finite f && fl_integral f); [apply show_int_nocr|].
    destruct f as [| [] | |]; simpl; try apply Hshf; repeat (constructor; try reflexivity).
  - apply W.
  - repeat (constructor; try reflexivity).
Qed.

(* a valid column name: no CR, does not start with a byte-order mark *)
Definition name_wf (n : string) : Prop := nocr (to_chars n) /\ String.prefix k_bom n = false.

Definition row_wf (n : nat) (r : list val) : Prop := List.length r = n /\ Forall cell_wf r.

Lemma store_row r : Forall cell_wf r ->
  map_res (fun s => store_cell KMixed (text_obj cls s)) (map cell_str r) = Ok (map rt_cell r).
Proof.
  induction 1 as [|v r Hv _ IH]; cbn [map map_res]; [reflexivity|].
  rewrite cell_store by assumption. cbn [bind]. rewrite IH. reflexivity.
Qed.

Lemma store_rows n rows : Forall (row_wf n) rows ->
  map_res (map_res (fun s => store_cell KMixed (text_obj cls s))) (map (map cell_str) rows) = Ok (map (map rt_cell) rows).
Proof.
  induction 1 as [|r rows [_ Hr] _ IH]; cbn [map map_res]; [reflexivity|].
  rewrite store_row by assumption. cbn [bind]. rewrite IH. reflexivity.
Qed.

Theorem csv_roundtrip (names : list string) (rows : list (list val)) :
  names <> [] -> NoDup names -> Forall name_wf names -> Forall (row_wf (List.length names)) rows ->
  exists bytes,
    writetxt shf d q true (names, rows) = Ok bytes /\
    readtxt cls d q bytes = Ok (names, map (map rt_cell) rows).
Proof.
  intros Hne Hnd Hnames Hrows.
  set (texts := map (map cell_str) rows).
  exists (to_str (render d q [LF] (map (map to_chars) (names :: texts)))).
  assert (Wn : map_res (fun n => cell_text shf (PStr n None None)) names = Ok (map (fun n => n) names)).
  { apply map_res_ok. apply Forall_forall. intros; reflexivity. }
  assert (Wr : map_res (map_res (fun v => cell_text shf (pyv_of_val v))) rows = Ok texts).
  { unfold texts. apply map_res_ok. apply Forall_forall. intros r _. apply map_res_ok.
    apply Forall_forall. intros v _. apply cell_text_eq. }
  split.
  - unfold writetxt. cbn [k_write_guard negb bind]. rewrite Wn. cbn [bind]. rewrite Wr. cbn [bind].
    rewrite map_id. reflexivity.
  - unfold readtxt, read_records. rewrite to_chars_to_str.
    assert (NC : Forall (Forall nocr) (map (map to_chars) (names :: texts))).
    { simpl map. constructor.
      - apply Forall_map. eapply Forall_impl; [|exact Hnames]. intros n [A _]. exact A.
      - unfold texts. rewrite map_map. apply Forall_map. eapply Forall_impl; [|exact Hrows].
        intros r [_ Hr]. rewrite map_map. apply Forall_map. eapply Forall_impl; [|exact Hr].
        intros v Hv. apply cell_nocr. exact Hv. }
    rewrite unl_nocr by (apply render_nocr; assumption).
    change (k_reader_delimiter d q) with d. change (k_reader_quotechar d q) with q.
    rewrite (parse_render d q Hdq Hd Hq) by assumption. cbn [bind].
    rewrite map_to_str_to_chars.
    assert (Hh : map k_header_name names = names).
    { rewrite <- (map_id names) at 2. apply map_ext_Forall. eapply Forall_impl; [|exact Hnames].
      intros n [_ B]. unfold k_header_name. rewrite B. reflexivity. }
    rewrite Hh. rewrite dedup_nodup by assumption.
    destruct names as [|n0 names0] eqn:En; [congruence|]. cbn [is_nil]. rewrite <- En in *.
    assert (Hf : map (fill k_missing (List.length names)) texts = texts).
    { unfold texts. rewrite <- (map_id (map (map cell_str) rows)) at 2. rewrite !map_map.
      apply map_ext_Forall. eapply Forall_impl; [|exact Hrows]. intros r [Hl _].
      rewrite <- Hl. rewrite <- (map_length cell_str r). apply fill_exact. }
    rewrite Hf.
    unfold texts. rewrite (store_rows _ _ Hrows). reflexivity.
Qed.

(* the property, end to end: what readtxt returns for the file writetxt produced satisfies the L0 statement *)
Theorem csv_roundtrip_L0 (names : list string) (rows : list (list val)) :
  names <> [] -> NoDup names -> Forall name_wf names -> Forall (row_wf (List.length names)) rows ->
  exists bytes t',
    writetxt shf d q true (names, rows) = Ok bytes /\ readtxt cls d q bytes = Ok t' /\
    roundtrip_ok (names, rows) t' = true.
Proof.
  intros Hne Hnd Hn Hr. destruct (csv_roundtrip names rows Hne Hnd Hn Hr) as [bytes [A B]].
  exists bytes, (names, map (map rt_cell) rows). repeat split; try assumption.
  apply roundtrip_spec; [assumption|]. eapply Forall_impl; [|exact Hr]. intros r [L _]. exact L.
Qed.

(* CR LF and CR line endings give the same table as LF *)
Theorem read_newlines_crlf (ls : list chars) : Forall plain_line ls ->
  readtxt cls d q (to_str (List.concat (map (fun l => l ++ [CR; LF]) ls))) =
  readtxt cls d q (to_str (List.concat (map (fun l => l ++ [LF]) ls))).
Proof.
  intros H. unfold readtxt, read_records. rewrite !to_chars_to_str, unl_crlf, unl_lf by assumption. reflexivity.
Qed.

Theorem read_newlines_cr (ls : list chars) : Forall plain_line ls ->
  readtxt cls d q (to_str (List.concat (map (fun l => l ++ [CR]) ls))) =
  readtxt cls d q (to_str (List.concat (map (fun l => l ++ [LF]) ls))).
Proof.
  intros H. unfold readtxt, read_records. rewrite !to_chars_to_str, unl_cr, unl_lf by assumption. reflexivity.
Qed.

(* reading: a file with logical content hdr / recs (records of any length: short, long, empty) gives
   the table of the L0 reading spec: cells stay under their header, missing cells are '' *)
Lemma store_text (c : cls_t) s : store_cell KMixed (text_obj c s) = Ok (text_val c s).
Proof.
  rewrite store_mixed_spec. unfold text_val, text_obj, nf. destruct (c s) as [[z|] [f|]]; cbn [fst snd]; try reflexivity.
  unfold nf_mixed, num_of. destruct (fl_is_finite f && fl_integral f); reflexivity.
Qed.

Theorem read_records_spec (c : cls_t) bytes hdr recs :
  read_records d q bytes = Ok (hdr :: recs) ->
  hdr <> [] -> NoDup hdr -> Forall (fun n => String.prefix k_bom n = false) hdr ->
  readtxt c d q bytes = Ok (read_spec c hdr recs).
Proof.
  intros R Hne Hnd Hb. unfold readtxt. rewrite R. cbn [bind].
  assert (Hh : map k_header_name hdr = hdr).
  { rewrite <- (map_id hdr) at 2. apply map_ext_Forall. eapply Forall_impl; [|exact Hb].
    intros n B. unfold k_header_name. rewrite B. reflexivity. }
  rewrite Hh, dedup_nodup by assumption. destruct hdr as [|n0 hdr0] eqn:En; [congruence|]. cbn [is_nil]. rewrite <- En.
  unfold read_spec. change k_missing with EmptyString.
  rewrite (map_res_ok _ (map (text_val c))).
  - rewrite map_map. reflexivity.
  - apply Forall_forall. intros r _. apply map_res_ok. apply Forall_forall. intros s _. apply store_text.
Qed.

Theorem read_rendered (c : cls_t) (hdr : list string) (recs : list (list string)) :
  Forall (Forall nocr) (map (map to_chars) (hdr :: recs)) ->
  hdr <> [] -> NoDup hdr -> Forall (fun n => String.prefix k_bom n = false) hdr ->
  readtxt c d q (to_str (render d q [LF] (map (map to_chars) (hdr :: recs)))) = Ok (read_spec c hdr recs).
Proof.
  intros NC Hne Hnd Hb. apply read_records_spec; try assumption.
  unfold read_records. rewrite to_chars_to_str. rewrite unl_nocr by (apply render_nocr; assumption).
  change (k_reader_delimiter d q) with d. change (k_reader_quotechar d q) with q.
  rewrite (parse_render d q Hdq Hd Hq) by assumption. cbn [bind]. rewrite map_to_str_to_chars. reflexivity.
Qed.

(* writing a DataMatrix that has a series column raises TypeError *)
Theorem write_series_typeerror (t : table) : writetxt shf d q false t = Raise TypeError.
Proof. destruct t. reflexivity. Qed.

End Cells.

(* BOM stripping of a header name *)
Theorem header_bom (n : string) : k_header_name (k_bom ++ n) = n.
Proof. destruct n; reflexivity. Qed.

(* short rows: the cells present stay in place, the missing ones are '' , extra cells are dropped *)
Theorem fill_length m n r : List.length (fill m n r) = n.
Proof.
  unfold fill. rewrite app_length, repeat_length, firstn_length. lia.
Qed.

Lemma nth_error_firstn_lt {A} (n : nat) : forall (r : list A) (i : nat), (i < n)%nat ->
  nth_error (firstn n r) i = nth_error r i.
Proof.
  induction n as [|n IH]; intros r i Hi; [lia|].
  destruct r as [|a r]; [destruct i; reflexivity|]. destruct i as [|i]; [reflexivity|].
  simpl. apply IH. lia.
Qed.

Lemma nth_error_repeat_lt {A} (a : A) (n : nat) : forall i, (i < n)%nat -> nth_error (repeat a n) i = Some a.
Proof.
  induction n as [|n IH]; intros i Hi; [lia|]. destruct i as [|i]; [reflexivity|]. simpl. apply IH. lia.
Qed.

Theorem fill_nth m n r i : (i < n)%nat ->
  nth_error (fill m n r) i = if Nat.ltb i (List.length r) then nth_error r i else Some m.
Proof.
  intros Hi. unfold fill. destruct (Nat.ltb i (List.length r)) eqn:E.
  - apply Nat.ltb_lt in E. rewrite nth_error_app1 by (rewrite firstn_length; lia).
    apply nth_error_firstn_lt. exact Hi.
  - apply Nat.ltb_ge in E. rewrite nth_error_app2 by (rewrite firstn_length; lia).
    rewrite firstn_length. rewrite Nat.min_r by lia.
    apply nth_error_repeat_lt. lia.
Qed.
