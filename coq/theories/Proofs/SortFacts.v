(* C10 proofs: the generated comparison methods under CPython's dispatch form a
   strict weak order that coincides with the documented order (Spec.Table.sort_le);
   a stable sort w.r.t. a strict weak order is unique; the modelled sort of a
   table is a permutation that sorts the by-column; sort(col, by) keeps the
   source's row ids; bin_split partitions the sorted rows into balanced
   consecutive chunks. *)
From Coq Require Import ZArith NArith List Bool String Ascii Lia Permutation Sorted Arith.
From DM Require Import Base.PyVal Base.SortKey Spec.Nf Spec.Table Spec.Sort Gen.KSort Model.Sort.
Import ListNotations.

(* ====================================================================== *)
(* 1. strings: String.compare is a strict total order                      *)
(* ====================================================================== *)
Lemma ascii_cmp_lt_trans a b c : Ascii.compare a b = Lt -> Ascii.compare b c = Lt -> Ascii.compare a c = Lt.
Proof. unfold Ascii.compare. rewrite !N.compare_lt_iff. lia. Qed.

Lemma ascii_cmp_eq a b : Ascii.compare a b = Eq -> a = b.
Proof. apply Ascii.compare_eq_iff. Qed.

Lemma ascii_cmp_refl a : Ascii.compare a a = Eq.
Proof. unfold Ascii.compare. apply N.compare_refl. Qed.

Lemma str_cmp_refl s : String.compare s s = Eq.
Proof. induction s as [|a s IH]; cbn; [reflexivity|]. rewrite ascii_cmp_refl. exact IH. Qed.

Lemma str_cmp_lt_trans : forall a b c,
  String.compare a b = Lt -> String.compare b c = Lt -> String.compare a c = Lt.
Proof.
  induction a as [|x a IH]; intros [|y b] [|z c]; cbn; try congruence.
  destruct (Ascii.compare x y) eqn:Exy; try discriminate;
  destruct (Ascii.compare y z) eqn:Eyz; try discriminate; intros H1 H2.
  - apply ascii_cmp_eq in Exy, Eyz. subst. rewrite ascii_cmp_refl. eapply IH; eauto.
  - apply ascii_cmp_eq in Exy. subst. rewrite Eyz. reflexivity.
  - apply ascii_cmp_eq in Eyz. subst. rewrite Exy. reflexivity.
  - rewrite (ascii_cmp_lt_trans _ _ _ Exy Eyz). reflexivity.
Qed.

Lemma str_ltb_irrefl s : str_ltb s s = false.
Proof. unfold str_ltb. rewrite str_cmp_refl. reflexivity. Qed.
Lemma str_ltb_trans a b c : str_ltb a b = true -> str_ltb b c = true -> str_ltb a c = true.
Proof.
  unfold str_ltb. destruct (String.compare a b) eqn:E1; try discriminate.
  destruct (String.compare b c) eqn:E2; try discriminate. intros _ _.
  rewrite (str_cmp_lt_trans _ _ _ E1 E2). reflexivity.
Qed.
Lemma str_leb_ltb a b : str_leb a b = negb (str_ltb b a).
Proof.
  unfold str_leb, str_ltb. rewrite (String.compare_antisym a b).
  destruct (String.compare b a); reflexivity.
Qed.
Lemma str_gtb_ltb a b : str_gtb a b = str_ltb b a.
Proof. reflexivity. Qed.
(* incomparable strings are equal *)
Lemma str_incomp_eq a b : str_ltb a b = false -> str_ltb b a = false -> a = b.
Proof.
  unfold str_ltb. rewrite (String.compare_antisym b a).
  destruct (String.compare a b) eqn:E; cbn; try discriminate. intros _ _.
  apply String.compare_eq_iff. exact E.
Qed.

(* ====================================================================== *)
(* 2. numbers: exact comparison of int / non-NaN float keys                *)
(* ====================================================================== *)
Open Scope Z_scope.
Definition num_ok (n : num) : bool := match n with NFlt FNan => false | _ => true end.
Definition ndy (n : num) : Z * Z :=
  match n with
  | NInt z => (z, 0)
  | NFlt (FFin neg m e) => (if neg then Z.neg m else Z.pos m, e)
  | _ => (0, 0)
  end.
Definition nexp (n : num) : Z := snd (ndy n).
Definition ncls (n : num) : Z :=
  match n with NFlt (FInf true) => -1 | NFlt (FInf false) => 1 | _ => 0 end.
(* the finite value scaled to the common exponent E *)
Definition nsc (E : Z) (n : num) : Z := fst (ndy n) * 2 ^ (snd (ndy n) - E).
Definition lexc (c1 s1 c2 s2 : Z) : comparison :=
  match c1 ?= c2 with Eq => s1 ?= s2 | c => c end.

Lemma dy_cmp_scale m1 e1 m2 e2 E : E <= e1 -> E <= e2 ->
  dy_cmp (m1, e1) (m2, e2) = (m1 * 2 ^ (e1 - E) ?= m2 * 2 ^ (e2 - E)).
Proof.
  intros H1 H2. unfold dy_cmp. set (e := Z.min e1 e2).
  assert (He : E <= e) by (unfold e; lia).
  assert (He1 : e <= e1) by (unfold e; lia). assert (He2 : e <= e2) by (unfold e; lia).
  replace (e1 - E) with ((e1 - e) + (e - E)) by lia.
  replace (e2 - E) with ((e2 - e) + (e - E)) by lia.
  rewrite !Z.pow_add_r by lia. rewrite !Z.mul_assoc.
  apply Zmult_compare_compat_r. apply Z.lt_gt. apply Z.pow_pos_nonneg; lia.
Qed.

Lemma num_cmp_lex E a b : num_ok a = true -> num_ok b = true -> E <= nexp a -> E <= nexp b ->
  num_cmp a b = Some (lexc (ncls a) (nsc E a) (ncls b) (nsc E b)).
Proof.
  intros Ha Hb Ea Eb.
  destruct a as [z|[|n|n|n m e]]; destruct b as [z'|[|n'|n'|n' m' e']]; try discriminate;
    unfold nexp in Ea, Eb; cbn [ndy snd] in Ea, Eb;
    unfold num_cmp, lexc, nsc; cbn [fl_dy ncls ndy fst snd];
    try (destruct n); try (destruct n'); cbn [Z.compare]; try reflexivity;
    try (rewrite (dy_cmp_scale _ _ _ _ E) by assumption; reflexivity).
Qed.

Lemma lexc_lt c1 s1 c2 s2 : lexc c1 s1 c2 s2 = Lt <-> (c1 < c2 \/ (c1 = c2 /\ s1 < s2)).
Proof.
  unfold lexc. destruct (Z.compare_spec c1 c2); destruct (Z.compare_spec s1 s2);
    split; intros; try discriminate; try reflexivity; lia.
Qed.
Lemma lexc_antisym c1 s1 c2 s2 : lexc c2 s2 c1 s1 = CompOpp (lexc c1 s1 c2 s2).
Proof.
  unfold lexc. rewrite (Z.compare_antisym c1 c2), (Z.compare_antisym s1 s2).
  destruct (c1 ?= c2); reflexivity.
Qed.

Lemma num_ltb_iff E a b : num_ok a = true -> num_ok b = true -> E <= nexp a -> E <= nexp b ->
  (num_ltb a b = true <-> (ncls a < ncls b \/ (ncls a = ncls b /\ nsc E a < nsc E b))).
Proof.
  intros Ha Hb Ea Eb. unfold num_ltb. rewrite (num_cmp_lex E a b Ha Hb Ea Eb).
  rewrite <- lexc_lt. destruct (lexc (ncls a) (nsc E a) (ncls b) (nsc E b)); split; congruence.
Qed.
Lemma num_ltb_negb_leb a b : num_ok a = true -> num_ok b = true -> num_ltb a b = negb (num_leb b a).
Proof.
  intros Ha Hb. set (E := Z.min (nexp a) (nexp b)).
  unfold num_ltb, num_leb.
  rewrite (num_cmp_lex E a b Ha Hb) by (unfold E; lia).
  rewrite (num_cmp_lex E b a Hb Ha) by (unfold E; lia).
  rewrite (lexc_antisym (ncls a) (nsc E a) (ncls b) (nsc E b)).
  destruct (lexc (ncls a) (nsc E a) (ncls b) (nsc E b)); reflexivity.
Qed.

Lemma num_ltb_irrefl a : num_ok a = true -> num_ltb a a = false.
Proof.
  intros Ha. destruct (num_ltb a a) eqn:E; [|reflexivity].
  apply (num_ltb_iff (nexp a) a a Ha Ha) in E; lia.
Qed.
Lemma num_ltb_trans a b c : num_ok a = true -> num_ok b = true -> num_ok c = true ->
  num_ltb a b = true -> num_ltb b c = true -> num_ltb a c = true.
Proof.
  intros Ha Hb Hc. set (E := Z.min (nexp a) (Z.min (nexp b) (nexp c))).
  rewrite (num_ltb_iff E a b), (num_ltb_iff E b c), (num_ltb_iff E a c) by (try assumption; unfold E; lia). lia.
Qed.
(* negative transitivity: what makes incomparability transitive *)
Lemma num_ltb_negtrans a b c : num_ok a = true -> num_ok b = true -> num_ok c = true ->
  num_ltb a c = true -> num_ltb a b = true \/ num_ltb b c = true.
Proof.
  intros Ha Hb Hc. set (E := Z.min (nexp a) (Z.min (nexp b) (nexp c))).
  rewrite (num_ltb_iff E a b), (num_ltb_iff E b c), (num_ltb_iff E a c) by (try assumption; unfold E; lia). lia.
Qed.

(* ====================================================================== *)
(* 3. the generated comparison methods under CPython's dispatch             *)
(* ====================================================================== *)
Definition krank (k : key) : Z := match k with KNum _ => 0 | KStr _ => 1 | KNone => 2 | KNan => 3 end.
(* the documented order on keys, hand-written *)
Definition klt (a b : key) : bool :=
  match a, b with
  | KNum x, KNum y => num_ltb x y
  | KStr s, KStr t => str_ltb s t
  | _, _ => krank a <? krank b
  end.

(* characterising lemma: all later proofs see the kernels only through this *)
Lemma py_lt_char a b : py_lt a b = klt a b.
Proof.
  destruct a, b;
    unfold py_lt, SortableNAN_lt, SortableNAN_gt, SortableNone_lt, SortableNone_gt, SortableSTR_lt, SortableSTR_gt;
    cbn; unfold str_geb; rewrite ?str_leb_ltb, ?str_gtb_ltb, ?negb_involutive, ?orb_false_r, ?andb_true_r; try reflexivity.
Qed.

Lemma key_wf_num n : key_wf (KNum n) = true -> num_ok n = true.
Proof. destruct n as [|[]]; cbn; congruence. Qed.

Theorem py_lt_irrefl a : key_wf a = true -> py_lt a a = false.
Proof.
  rewrite py_lt_char. destruct a; cbn; intros H; try reflexivity.
  - apply num_ltb_irrefl, key_wf_num, H.
  - apply str_ltb_irrefl.
Qed.

Theorem py_lt_trans a b c : key_wf a = true -> key_wf b = true -> key_wf c = true ->
  py_lt a b = true -> py_lt b c = true -> py_lt a c = true.
Proof.
  intros Ha Hb Hc. rewrite !py_lt_char. destruct a, b, c; cbn; intros H1 H2; try reflexivity; try discriminate.
  - apply (num_ltb_trans n n0 n1); auto using key_wf_num.
  - apply (str_ltb_trans s s0 s1); auto.
Qed.

Theorem py_lt_negtrans a b c : key_wf a = true -> key_wf b = true -> key_wf c = true ->
  py_lt a c = true -> py_lt a b = true \/ py_lt b c = true.
Proof.
  intros Ha Hb Hc. rewrite !py_lt_char. destruct a, b, c; cbn; intros H; try discriminate; auto.
  - apply num_ltb_negtrans; auto using key_wf_num.
  - destruct (str_ltb s s0) eqn:E1; [auto|]. destruct (str_ltb s0 s1) eqn:E2; [auto|].
    destruct (str_ltb s0 s) eqn:E3.
    + left. pose proof (str_ltb_trans _ _ _ E3 H). congruence.
    + pose proof (str_incomp_eq _ _ E1 E3). subst. congruence.
Qed.

Theorem py_lt_asym a b : key_wf a = true -> key_wf b = true -> py_lt a b = true -> py_lt b a = false.
Proof.
  intros Ha Hb H. destruct (py_lt b a) eqn:E; [|reflexivity].
  pose proof (py_lt_trans a b a Ha Hb Ha H E). rewrite py_lt_irrefl in H0; auto.
Qed.

(* transitivity of incomparability: with the three laws above, a strict weak order *)
Theorem py_incomp_trans a b c : key_wf a = true -> key_wf b = true -> key_wf c = true ->
  py_lt a b = false -> py_lt b a = false -> py_lt b c = false -> py_lt c b = false ->
  py_lt a c = false /\ py_lt c a = false.
Proof.
  intros Ha Hb Hc H1 H2 H3 H4. split.
  - destruct (py_lt a c) eqn:E; [|reflexivity].
    destruct (py_lt_negtrans a b c Ha Hb Hc E); congruence.
  - destruct (py_lt c a) eqn:E; [|reflexivity].
    destruct (py_lt_negtrans c b a Hc Hb Ha E); congruence.
Qed.

(* ====================================================================== *)
(* 4. sortable() and the documented order                                   *)
(* ====================================================================== *)
(* what the property text says the key of a stored cell is *)
Definition key_of_val (v : val) : key :=
  match v with
  | VInt z => KNum (NInt z)
  | VFlt FNan => KNan
  | VFlt f => KNum (NFlt f)
  | VStr s => KStr s
  | VNone => KNone
  end.

(* characterising lemma for the generated _sortable_regular on stored cells *)
Lemma sortable_char v : sortable v = Some (key_of_val v).
Proof. destruct v as [z|[| | |]|s|]; reflexivity. Qed.

Lemma key_of_val_wf v : key_wf (key_of_val v) = true.
Proof. destruct v as [z|[| | |]|s|]; reflexivity. Qed.

Theorem sortable_total v : exists k, sortable v = Some k /\ key_wf k = true.
Proof. exists (key_of_val v). split; [apply sortable_char|apply key_of_val_wf]. Qed.

Lemma klt_doc v w : klt (key_of_val v) (key_of_val w) = sort_lt v w.
Proof.
  unfold sort_lt, sort_le.
  destruct v as [z|f|s|]; destruct w as [z'|f'|s'|];
    try (destruct f as [| | |]); try (destruct f' as [| | |]); cbn [key_of_val klt krank sort_rank val_num Z.ltb Z.eqb Z.compare Pos.compare Pos.compare_cont];
    try reflexivity;
    try (rewrite num_ltb_negb_leb by reflexivity; reflexivity);
    try (rewrite str_leb_ltb, negb_involutive; reflexivity).
Qed.

(* py_lt on the keys the implementation builds = the documented rank order
   -inf < finite by value < +inf < str by code point < None < NaN  (Spec.Table.sort_le) *)
Theorem py_lt_doc v w a b : sortable v = Some a -> sortable w = Some b -> py_lt a b = sort_lt v w.
Proof.
  rewrite !sortable_char. intros Ha Hb. inversion Ha; inversion Hb; subst.
  rewrite py_lt_char. apply klt_doc.
Qed.

(* ====================================================================== *)
(* 5. insertion sort: permutation, sortedness, stability, uniqueness        *)
(* ====================================================================== *)
Lemma insert_perm {A} (f : A -> A -> bool) x l : Permutation (insert f x l) (x :: l).
Proof.
  induction l as [|y r IH]; cbn; [reflexivity|].
  destruct (f y x); [|reflexivity].
  rewrite IH. apply perm_swap.
Qed.
Lemma isort_cons {A} (f : A -> A -> bool) x l : isort f (x :: l) = insert f x (isort f l).
Proof. reflexivity. Qed.
Lemma isort_perm {A} (f : A -> A -> bool) l : Permutation (isort f l) l.
Proof.
  induction l as [|x l IH]; [reflexivity|]. rewrite isort_cons.
  rewrite insert_perm. constructor. exact IH.
Qed.
Lemma isort_ext {A} (f g : A -> A -> bool) l :
  (forall x y, In x l -> In y l -> f x y = g x y) -> isort f l = isort g l.
Proof.
  induction l as [|x l IH]; intros H; [reflexivity|]. rewrite !isort_cons.
  rewrite <- IH by (intros; apply H; right; assumption).
  assert (Hin : forall y, In y (isort f l) -> In y l)
    by (intros y Hy; eapply Permutation_in; [apply isort_perm|exact Hy]).
  revert Hin. generalize (isort f l) as s. induction s as [|y s IHs]; intros Hin; cbn; [reflexivity|].
  rewrite (H y x) by (cbn; auto using in_eq, in_cons).
  destruct (g y x); [|reflexivity]. f_equal. apply IHs. intros; apply Hin; right; assumption.
Qed.
(* sorting commutes with a key-preserving relabelling *)
Lemma isort_map {A B} (f : A -> A -> bool) (g : B -> B -> bool) (h : A -> B) l :
  (forall x y, g (h x) (h y) = f x y) -> isort g (map h l) = map h (isort f l).
Proof.
  intros H. induction l as [|x l IH]; [reflexivity|]. cbn [map]. rewrite !isort_cons, IH.
  generalize (isort f l) as s. induction s as [|y s IHs]; cbn; [reflexivity|].
  rewrite H. destruct (f y x); cbn; [rewrite IHs|]; reflexivity.
Qed.

Lemma ssorted_perm_unique {A} (R : A -> A -> Prop) :
  (forall a, ~ R a a) -> (forall a b c, R a b -> R b c -> R a c) ->
  forall p q, Permutation p q -> StronglySorted R p -> StronglySorted R q -> p = q.
Proof.
  intros Hirr Htr. induction p as [|a p IH]; intros q Hpq Hp Hq.
  - apply Permutation_nil in Hpq. congruence.
  - destruct q as [|b q]; [apply Permutation_sym, Permutation_nil in Hpq; discriminate|].
    inversion Hp as [|? ? Hp' Fa]; inversion Hq as [|? ? Hq' Fb]; subst.
    assert (Eab : a = b).
    { assert (Ha : In a (b :: q)) by (eapply Permutation_in; [exact Hpq|left; reflexivity]).
      assert (Hb : In b (a :: p)) by (eapply Permutation_in; [apply Permutation_sym; exact Hpq|left; reflexivity]).
      destruct Ha as [Ha|Ha]; [congruence|]. destruct Hb as [Hb|Hb]; [congruence|].
      rewrite Forall_forall in Fa, Fb. exfalso. apply (Hirr a). eapply Htr; [apply Fa, Hb|apply Fb, Ha]. }
    subst b. f_equal. apply IH; auto. eapply Permutation_cons_inv; exact Hpq.
Qed.

Section StableSort.
  Context {A : Type} (lt : A -> A -> bool).
  Hypothesis lt_irrefl : forall a, lt a a = false.
  Hypothesis lt_trans : forall a b c, lt a b = true -> lt b c = true -> lt a c = true.
  Hypothesis lt_negtrans : forall a b c, lt a c = true -> lt a b = true \/ lt b c = true.

  (* a stable sort orders by key and, among incomparable keys, by prior position *)
  Definition tlt (x y : A * nat) : Prop :=
    lt (fst x) (fst y) = true \/ (lt (fst y) (fst x) = false /\ (snd x < snd y)%nat).

  Lemma tlt_irrefl x : ~ tlt x x.
  Proof. intros [H|[_ H]]; [rewrite lt_irrefl in H; discriminate|lia]. Qed.
  Lemma tlt_trans x y z : tlt x y -> tlt y z -> tlt x z.
  Proof.
    destruct x as [a i], y as [b j], z as [c k]. unfold tlt; cbn.
    intros [H1|[H1 L1]] [H2|[H2 L2]].
    - left. eapply lt_trans; eauto.
    - destruct (lt_negtrans a c b H1) as [H|H]; [auto|congruence].
    - destruct (lt_negtrans b a c H2) as [H|H]; [congruence|auto].
    - right. split; [|lia]. destruct (lt c a) eqn:E; [|reflexivity].
      destruct (lt_negtrans c b a E); congruence.
  Qed.

  Definition tagged (k : nat) (l : list A) : list (A * nat) := combine l (seq k (List.length l)).

  Lemma insert_tsorted x l :
    Forall (fun y => (snd x < snd y)%nat) l -> StronglySorted tlt l ->
    StronglySorted tlt (insert (fst_lt lt) x l).
  Proof.
    induction l as [|y r IH]; intros Htag Hs; cbn.
    - constructor; constructor.
    - inversion Htag as [|? ? Hy Hr]; inversion Hs as [|? ? Hs' Fy]; subst.
      unfold fst_lt at 1. destruct (lt (fst y) (fst x)) eqn:E.
      + constructor; [apply IH; assumption|].
        rewrite Forall_forall. intros z Hz.
        apply (Permutation_in _ (insert_perm _ _ _)) in Hz. destruct Hz as [<-|Hz].
        * left; exact E.
        * rewrite Forall_forall in Fy; apply Fy, Hz.
      + assert (Hxy : tlt x y).
        { destruct (lt (fst x) (fst y)) eqn:E2; [left; exact E2|right; split; assumption]. }
        constructor; [exact Hs|]. constructor; [exact Hxy|].
        rewrite Forall_forall in *. intros z Hz. eapply tlt_trans; [exact Hxy|apply Fy, Hz].
  Qed.

  Lemma tagged_tags k l : Forall (fun y => (k <= snd y)%nat) (tagged k l).
  Proof.
    revert k; induction l as [|a l IH]; intros k; cbn; constructor; cbn; [lia|].
    eapply Forall_impl; [|apply IH]. cbn; intros; lia.
  Qed.

  Theorem isort_stable k l :
    Permutation (isort (fst_lt lt) (tagged k l)) (tagged k l) /\
    StronglySorted tlt (isort (fst_lt lt) (tagged k l)).
  Proof.
    split; [apply isort_perm|].
    revert k; induction l as [|a l IH]; intros k; cbn; [constructor|].
    apply insert_tsorted; [|apply IH].
    rewrite Forall_forall. intros y Hy. apply (Permutation_in _ (isort_perm _ _)) in Hy.
    pose proof (tagged_tags (S k) l) as Ht. rewrite Forall_forall in Ht. apply Ht in Hy. cbn. lia.
  Qed.

  (* a stable sort w.r.t. a strict weak order is unique: whatever algorithm (Timsort) produced a
     stable sorted arrangement of the tagged items produced the arrangement of insertion sort *)
  Theorem stable_sort_unique t p q :
    Permutation p t -> Permutation q t -> StronglySorted tlt p -> StronglySorted tlt q -> p = q.
  Proof.
    intros Hp Hq. apply (ssorted_perm_unique tlt tlt_irrefl tlt_trans).
    rewrite Hp, Hq. reflexivity.
  Qed.
  Corollary isort_unique k l q :
    Permutation q (tagged k l) -> StronglySorted tlt q -> q = isort (fst_lt lt) (tagged k l).
  Proof.
    intros Hq Hs. destruct (isort_stable k l) as [Hp Hs'].
    eapply stable_sort_unique; eauto.
  Qed.

  (* in particular the keys come out without descents *)
  Lemma tlt_no_descent x y : tlt x y -> lt (fst y) (fst x) = false.
  Proof.
    intros [H|[H _]]; [|exact H]. destruct (lt (fst y) (fst x)) eqn:E; [|reflexivity].
    pose proof (lt_trans _ _ _ H E) as H2. rewrite lt_irrefl in H2. discriminate.
  Qed.
End StableSort.

(* ====================================================================== *)
(* 6. the modelled sort satisfies the L0 predicate                          *)
(* ====================================================================== *)
Lemma sort_lt_key v w : sort_lt v w = py_lt (key_of_val v) (key_of_val w).
Proof. rewrite py_lt_char. symmetry. apply klt_doc. Qed.
Lemma sort_lt_irrefl v : sort_lt v v = false.
Proof. rewrite sort_lt_key. apply py_lt_irrefl, key_of_val_wf. Qed.
Lemma sort_lt_trans a b c : sort_lt a b = true -> sort_lt b c = true -> sort_lt a c = true.
Proof. rewrite !sort_lt_key. apply py_lt_trans; apply key_of_val_wf. Qed.
Lemma sort_lt_negtrans a b c : sort_lt a c = true -> sort_lt a b = true \/ sort_lt b c = true.
Proof. rewrite !sort_lt_key. apply py_lt_negtrans; apply key_of_val_wf. Qed.

Lemma all_some_map_Some {A} (l : list A) : all_some (map Some l) = Some l.
Proof. induction l as [|a l IH]; cbn; [reflexivity|]. rewrite IH. reflexivity. Qed.

Definition numcell (v : val) : bool := match v with VInt _ | VFlt _ => true | _ => false end.

Lemma np_lt_doc a b : numcell a = true -> numcell b = true -> np_lt a b = sort_lt a b.
Proof.
  intros Ha Hb. rewrite <- klt_doc.
  destruct a as [z|f| |]; destruct b as [z'|f'| |]; try discriminate;
    try (destruct f as [| | |]); try (destruct f' as [| | |]); reflexivity.
Qed.

(* sorted() with the generated keys and comparison methods = insertion sort by the documented order *)
Lemma py_sorted_spec {B} (items : list (val * B)) :
  py_sorted (fun x => sortable (fst x)) items = Some (isort (fst_lt sort_lt) items).
Proof.
  unfold py_sorted, decorate.
  rewrite (map_ext _ (fun x => Some (key_of_val (fst x), x))) by (intros x; rewrite sortable_char; reflexivity).
  rewrite <- (map_map (fun x => (key_of_val (fst x), x)) Some), all_some_map_Some.
  rewrite (isort_map (fst_lt sort_lt) (fst_lt py_lt) (fun x => (key_of_val (fst x), x))).
  - rewrite map_map. cbn [snd]. rewrite map_id. reflexivity.
  - intros x y. unfold fst_lt. cbn [fst]. symmetry. apply sort_lt_key.
Qed.

Definition kind_cells_ok (k : kind) (cells : list val) : Prop :=
  match k with KMixed => True | _ => Forall (fun v => numcell v = true) cells end.

Lemma sorted_tags_spec {B} k cells (tags : list B) : kind_cells_ok k cells ->
  sorted_tags k cells tags = Some (map snd (isort (fst_lt sort_lt) (combine cells tags))).
Proof.
  intros Hk. assert (Hnum : Forall (fun v => numcell v = true) cells ->
    map snd (isort (fst_lt np_lt) (combine cells tags)) = map snd (isort (fst_lt sort_lt) (combine cells tags))).
  { intros H. f_equal. apply isort_ext. intros [a i] [b j] Hx Hy. unfold fst_lt; cbn [fst].
    rewrite Forall_forall in H. apply np_lt_doc; apply H; eapply in_combine_l; eauto. }
  destruct k; cbn [sorted_tags kind_cells_ok] in *.
  - rewrite py_sorted_spec. reflexivity.
  - rewrite Hnum by assumption. reflexivity.
  - rewrite Hnum by assumption. reflexivity.
Qed.

Lemma map_snd_tagged {A} k (l : list A) : map snd (tagged k l) = seq k (List.length l).
Proof. unfold tagged. revert k; induction l as [|a l IH]; intros k; cbn; [reflexivity|]. rewrite IH. reflexivity. Qed.
Lemma in_tagged {A} k (l : list A) c i : In (c, i) (tagged k l) -> (k <= i)%nat /\ nth_error l (i - k) = Some c.
Proof.
  unfold tagged. revert k; induction l as [|a l IH]; intros k; cbn; [tauto|].
  intros [H|H].
  - inversion H; subst. rewrite Nat.sub_diag. split; [lia|reflexivity].
  - apply IH in H. destruct H as [H1 H2]. split; [lia|].
    replace (i - k)%nat with (S (i - S k)) by lia. exact H2.
Qed.

Lemma mem_nat_In x l : mem_nat x l = true <-> In x l.
Proof.
  induction l as [|y l IH]; cbn; [split; [discriminate|tauto]|].
  rewrite orb_true_iff, IH, Nat.eqb_eq. split; intros [H|H]; auto.
Qed.
Lemma nodup_nat_NoDup l : NoDup l -> nodup_nat l = true.
Proof.
  induction 1 as [|x l Hx Hl IH]; cbn; [reflexivity|]. rewrite IH, andb_true_r.
  destruct (mem_nat x l) eqn:E; [apply mem_nat_In in E; contradiction|reflexivity].
Qed.
Lemma perm_range p n : Permutation p (seq 0 n) -> is_perm_of_range p n = true.
Proof.
  intros H. unfold is_perm_of_range. rewrite !andb_true_iff. repeat split.
  - apply Nat.eqb_eq. rewrite (Permutation_length H). apply seq_length.
  - apply nodup_nat_NoDup. eapply Permutation_NoDup; [apply Permutation_sym; exact H|apply seq_NoDup].
  - apply forallb_forall. intros x Hx. apply Nat.ltb_lt.
    apply (Permutation_in _ H) in Hx. apply in_seq in Hx. lia.
Qed.

Lemma ssorted_sorted_by (r : list (val * nat)) :
  StronglySorted (tlt sort_lt) r -> sorted_by sort_le (map fst r) = true.
Proof.
  induction 1 as [|x r Hs IH Fx]; [reflexivity|].
  destruct r as [|y r]; [reflexivity|]. cbn [map sorted_by] in *. rewrite IH, andb_true_r.
  inversion Fx as [|? ? Hxy _]; subst.
  apply (tlt_no_descent sort_lt sort_lt_irrefl sort_lt_trans) in Hxy.
  unfold sort_lt in Hxy. apply negb_false_iff in Hxy. exact Hxy.
Qed.

(* the positions chosen by the modelled sort: for EVERY column content, they name every row once and
   arrange the by-cells in the documented order *)
Theorem sort_positions_total k cells : kind_cells_ok k cells -> exists p, sort_positions k cells = Some p.
Proof. intros H. eexists. unfold sort_positions. apply sorted_tags_spec, H. Qed.

Theorem sort_positions_sorting k cells p : kind_cells_ok k cells ->
  sort_positions k cells = Some p -> is_sorting_perm cells p = true.
Proof.
  intros Hk. unfold sort_positions. rewrite (sorted_tags_spec k cells _ Hk). intros H; inversion H; subst p; clear H.
  change (combine cells (seq 0 (List.length cells))) with (tagged 0 cells).
  destruct (isort_stable sort_lt sort_lt_trans sort_lt_negtrans 0 cells) as [Hp Hs].
  set (r := isort (fst_lt sort_lt) (tagged 0 cells)) in *.
  unfold is_sorting_perm. apply andb_true_iff. split.
  - apply perm_range. rewrite <- (map_snd_tagged 0 cells). apply Permutation_map, Hp.
  - assert (E : take_pos (map snd r) cells = Some (map fst r)).
    { unfold take_pos. rewrite map_map.
      rewrite (map_ext_in _ (fun x => Some (fst x))).
      - rewrite <- (map_map fst Some). apply all_some_map_Some.
      - intros [c i] Hin. apply (Permutation_in _ Hp) in Hin. apply in_tagged in Hin.
        cbn [fst snd]. rewrite Nat.sub_0_r in Hin. apply Hin. }
    rewrite E. apply ssorted_sorted_by, Hs.
Qed.

(* and they are THE stable arrangement: any stable sorted arrangement of the tagged cells is this one *)
Theorem sort_positions_stable_unique k cells p (q : list (val * nat)) : kind_cells_ok k cells ->
  sort_positions k cells = Some p ->
  Permutation q (tagged 0 cells) -> StronglySorted (tlt sort_lt) q -> map snd q = p.
Proof.
  intros Hk. unfold sort_positions. rewrite (sorted_tags_spec k cells _ Hk). intros H Hq Hs; inversion H; subst p.
  f_equal. apply (isort_unique sort_lt sort_lt_irrefl sort_lt_trans sort_lt_negtrans 0 cells q Hq Hs).
Qed.

(* ====================================================================== *)
(* 7. bin_split over the generated guard and bound                          *)
(* ====================================================================== *)
(* characterising lemmas for the generated kernels.  The translator maps int(a/b) to Z.quot under its
   stated assumption (0 <= a < 2^53, 0 < b: the correctly rounded quotient truncates to the exact floor) *)
Lemma k_bin_end_char len i bins : 0 <= len -> 0 <= i -> 0 < bins ->
  k_bin_end len i bins = (len * (i + 1)) / bins.
Proof.
  intros. unfold k_bin_end. try (rewrite Z.quot_div_nonneg by nia).
  first [reflexivity | f_equal; ring].
Qed.
Lemma k_bin_guard_char len bins : k_bin_guard len bins = true <-> len < bins.
Proof. unfold k_bin_guard. apply Z.ltb_lt. Qed.
Lemma k_bin_start_char : k_bin_start = 0.
Proof. reflexivity. Qed.

Definition zslice {A} (l : list A) (a b : Z) : list A := firstn (Z.to_nat (b - a)) (skipn (Z.to_nat a) l).

Lemma pslice_char {A} (l : list A) a b : 0 <= a -> a <= b -> b <= Z.of_nat (List.length l) ->
  pslice l a b = zslice l a b.
Proof.
  intros H1 H2 H3. unfold pslice, zslice, clamp.
  destruct (a <? 0) eqn:Ea; [apply Z.ltb_lt in Ea; lia|].
  destruct (b <? 0) eqn:Eb; [apply Z.ltb_lt in Eb; lia|].
  rewrite !Z.min_r by lia. reflexivity.
Qed.
Lemma firstn_app_skipn {A} x y (l : list A) : firstn x l ++ firstn y (skipn x l) = firstn (x + y) l.
Proof.
  revert l; induction x as [|x IH]; intros l; [reflexivity|].
  destruct l as [|a l]; cbn [Nat.add firstn skipn app]; [rewrite firstn_nil; reflexivity|].
  rewrite IH. reflexivity.
Qed.
Lemma skipn_add {A} x y (l : list A) : skipn x (skipn y l) = skipn (y + x) l.
Proof.
  revert l; induction y as [|y IH]; intros l; [reflexivity|].
  destruct l as [|a l]; cbn [Nat.add skipn]; [apply skipn_nil|apply IH].
Qed.
Lemma zslice_app {A} (l : list A) a b c : 0 <= a -> a <= b -> b <= c ->
  zslice l a b ++ zslice l b c = zslice l a c.
Proof.
  intros H1 H2 H3. unfold zslice.
  replace (Z.to_nat b) with (Z.to_nat a + Z.to_nat (b - a))%nat by lia.
  rewrite <- skipn_add, firstn_app_skipn. f_equal. lia.
Qed.
Lemma zslice_length {A} (l : list A) a b : 0 <= a -> a <= b -> b <= Z.of_nat (List.length l) ->
  Z.of_nat (List.length (zslice l a b)) = b - a.
Proof. intros. unfold zslice. rewrite firstn_length, skipn_length. lia. Qed.

Lemma ediff n b i : 0 <= n -> 0 < b -> 0 <= i ->
  n / b <= (n * (i + 1)) / b - (n * i) / b <= n / b + 1.
Proof. intros. Z.div_mod_to_equations. nia. Qed.
Lemma ebound n b i : 0 <= n -> 0 < b -> 0 <= i <= b -> 0 <= (n * i) / b <= n.
Proof. intros. Z.div_mod_to_equations. nia. Qed.

Section BinSplit.
  Context {A : Type} (rows : list A) (bins : Z).
  Hypothesis Hbins : 0 < bins.
  Let n := Z.of_nat (List.length rows).
  Let e (i : nat) : Z := (n * Z.of_nat i) / bins.

  Lemma bin_loop_spec : forall todo i, Z.of_nat (i + todo) <= bins ->
    let L := bin_loop rows bins i todo (e i) in
    List.concat L = zslice rows (e i) (e (i + todo)) /\
    List.length L = todo /\
    Forall (fun c => n / bins <= Z.of_nat (List.length c) <= n / bins + 1) L.
  Proof.
    assert (Hn : 0 <= n) by (unfold n; lia).
    induction todo as [|todo IH]; intros i Hi; cbn zeta.
    - cbn [bin_loop List.concat List.length]. rewrite Nat.add_0_r. unfold zslice.
      rewrite Z.sub_diag. cbn. auto.
    - cbn [bin_loop]. fold n.
      rewrite (k_bin_end_char n (Z.of_nat i) bins) by lia.
      replace (Z.of_nat i + 1) with (Z.of_nat (S i)) by lia. fold (e (S i)).
      pose proof (ediff n bins (Z.of_nat i) Hn Hbins ltac:(lia)) as Hd.
      replace (Z.of_nat i + 1) with (Z.of_nat (S i)) in Hd by lia. fold (e (S i)) in Hd. fold (e i) in Hd.
      pose proof (ebound n bins (Z.of_nat i) Hn Hbins ltac:(lia)) as Hb1. fold (e i) in Hb1.
      pose proof (ebound n bins (Z.of_nat (S i)) Hn Hbins ltac:(lia)) as Hb2. fold (e (S i)) in Hb2.
      pose proof (ebound n bins (Z.of_nat (S i + todo)) Hn Hbins ltac:(lia)) as Hb3. fold (e (S i + todo)%nat) in Hb3.
      assert (Hq : 0 <= n / bins) by (apply Z.div_pos; lia).
      destruct (IH (S i) ltac:(lia)) as [IH1 [IH2 IH3]].
      assert (Hmono : e (S i) <= e (S i + todo)%nat).
      { unfold e. apply Z.div_le_mono; [lia|]. apply Z.mul_le_mono_nonneg_l; lia. }
      rewrite pslice_char by (fold n; lia).
      cbn [List.concat List.length]. rewrite IH1, IH2.
      replace (i + S todo)%nat with (S i + todo)%nat by lia.
      repeat split.
      + apply zslice_app; lia.
      + constructor; [|exact IH3]. rewrite zslice_length by (fold n; lia). lia.
  Qed.

  (* bins >= 1 consecutive chunks that cover every row once and whose sizes differ by at most one;
     ValueError exactly when bins exceeds the number of rows *)
  Theorem bin_split_partition_sec :
    (n < bins -> bin_split rows bins = Raise ValueError) /\
    (bins <= n -> exists chunks, bin_split rows bins = Ok chunks /\
       List.concat chunks = rows /\ Z.of_nat (List.length chunks) = bins /\
       Forall (fun c => n / bins <= Z.of_nat (List.length c) <= n / bins + 1) chunks).
  Proof.
    unfold bin_split. fold n. split; intros H.
    - destruct (k_bin_guard n bins) eqn:E; [reflexivity|].
      apply k_bin_guard_char in H. congruence.
    - destruct (k_bin_guard n bins) eqn:E; [apply k_bin_guard_char in E; lia|].
      eexists. split; [reflexivity|]. rewrite k_bin_start_char.
      assert (E0 : e 0 = 0) by (unfold e; rewrite Z.mul_0_r; apply Z.div_0_l; lia).
      rewrite <- E0.
      destruct (bin_loop_spec (Z.to_nat bins) 0 ltac:(lia)) as [H1 [H2 H3]].
      repeat split; [|lia|exact H3].
      rewrite H1, E0. cbn [Nat.add].
      assert (E1 : e (Z.to_nat bins) = n).
      { unfold e. rewrite Z2Nat.id by lia. apply Z.div_mul; lia. }
      rewrite E1. unfold zslice. cbn [Z.to_nat skipn]. rewrite Z.sub_0_r.
      apply firstn_all2. unfold n. lia.
  Qed.
End BinSplit.

Theorem bin_split_partition {A} (rows : list A) (bins : Z) : 0 < bins ->
  let n := Z.of_nat (List.length rows) in
  (n < bins -> bin_split rows bins = Raise ValueError) /\
  (bins <= n -> exists chunks, bin_split rows bins = Ok chunks /\
     List.concat chunks = rows /\ Z.of_nat (List.length chunks) = bins /\
     Forall (fun c => n / bins <= Z.of_nat (List.length c) <= n / bins + 1) chunks).
Proof. intros H. apply (bin_split_partition_sec rows bins H). Qed.

Theorem bin_split_valueerror {A} (rows : list A) (bins : Z) :
  (exists e, bin_split rows bins = Raise e) <-> Z.of_nat (List.length rows) < bins.
Proof.
  unfold bin_split. destruct (k_bin_guard (Z.of_nat (List.length rows)) bins) eqn:E.
  - apply k_bin_guard_char in E. split; [intros _; exact E|intros _; eexists; reflexivity].
  - split; [intros [e He]; discriminate|]. intros H. apply k_bin_guard_char in H. congruence.
Qed.

Theorem sort_positions_ok k cells : kind_cells_ok k cells ->
  exists p, sort_positions k cells = Some p /\ is_sorting_perm cells p = true.
Proof.
  intros H. destruct (sort_positions_total k cells H) as [p Hp].
  exists p. split; [exact Hp|]. eapply sort_positions_sorting; eauto.
Qed.

(* ====================================================================== *)
(* 8. row ids: operations.sort on tables / columns refines the positional take *)
(* ====================================================================== *)
Lemma pos_of_nth ids d : NoDup ids -> forall i, (i < List.length ids)%nat -> pos_of (nth i ids d) ids = Some i.
Proof.
  induction 1 as [|a r Ha Hr IH]; intros i Hi; cbn [List.length] in Hi; [lia|].
  destruct i as [|j]; cbn [nth pos_of].
  - rewrite N.eqb_refl. reflexivity.
  - destruct (N.eqb (nth j r d) a) eqn:E.
    + apply N.eqb_eq in E. exfalso. apply Ha. rewrite <- E. apply nth_In. lia.
    + rewrite IH by lia. reflexivity.
Qed.
Lemma map_nth_seq {A} (l : list A) d : map (fun i => nth i l d) (seq 0 (List.length l)) = l.
Proof.
  induction l as [|a l IH]; [reflexivity|]. cbn [List.length seq map nth]. f_equal.
  rewrite <- seq_shift, map_map. exact IH.
Qed.
Lemma combine_map_r {A B C} (f : B -> C) (l : list A) (t : list B) :
  combine l (map f t) = map (fun x => (fst x, f (snd x))) (combine l t).
Proof. revert t; induction l as [|a l IH]; intros [|b t]; cbn; [reflexivity..|]. rewrite IH. reflexivity. Qed.

Lemma sorted_tags_map {B C} k cells (f : B -> C) tags : kind_cells_ok k cells ->
  sorted_tags k cells (map f tags) = option_map (map f) (sorted_tags k cells tags).
Proof.
  intros H. rewrite !sorted_tags_spec by assumption. cbn [option_map]. f_equal.
  rewrite combine_map_r.
  rewrite (isort_map (fst_lt sort_lt) (fst_lt sort_lt) (fun x : val * B => (fst x, f (snd x)))) by reflexivity.
  rewrite !map_map. reflexivity.
Qed.

Lemma perm_range_lt p n : is_perm_of_range p n = true -> Forall (fun i => (i < n)%nat) p.
Proof.
  unfold is_perm_of_range. rewrite !andb_true_iff. intros [_ H]. rewrite forallb_forall in H.
  apply Forall_forall. intros x Hx. apply Nat.ltb_lt, H, Hx.
Qed.

Lemma all_some_len {A} (l : list (option A)) r : all_some l = Some r -> List.length r = List.length l.
Proof.
  revert r; induction l as [|[a|] l IH]; intros r; cbn [all_some]; try discriminate.
  - intros H; inversion H; reflexivity.
  - destruct (all_some l) as [x|]; [|discriminate]. intros H; inversion H. cbn. f_equal. apply IH. reflexivity.
Qed.
Lemma take_pos_len {A} p (l : list A) xs : take_pos p l = Some xs -> List.length xs = List.length p.
Proof. unfold take_pos. intros H. apply all_some_len in H. rewrite map_length in H. exact H. Qed.
Lemma nodup_nat_sound l : nodup_nat l = true -> NoDup l.
Proof.
  induction l as [|x l IH]; cbn; [constructor|]. rewrite andb_true_iff, negb_true_iff. intros [H1 H2].
  constructor; [|apply IH, H2]. intros Hin. apply mem_nat_In in Hin. congruence.
Qed.
Lemma perm_nodup_map (ids : list N) p : NoDup ids -> is_perm_of_range p (List.length ids) = true ->
  NoDup (map (fun i => nth i ids 0%N) p).
Proof.
  intros Hnd Hp. assert (Hlt := perm_range_lt _ _ Hp).
  unfold is_perm_of_range in Hp. rewrite !andb_true_iff in Hp. destruct Hp as [[_ Hn] _].
  apply nodup_nat_sound in Hn. clear - Hnd Hn Hlt.
  induction p as [|i p IH]; cbn [map]; [constructor|].
  inversion Hn; inversion Hlt; subst. constructor; [|apply IH; assumption].
  intros Hin. apply in_map_iff in Hin. destruct Hin as [j [Hj Hjin]].
  rewrite Forall_forall in *. 
  assert (j = i). { apply (proj1 (NoDup_nth ids 0%N) Hnd); auto. }
  subst. contradiction.
Qed.

(* the alignment invariant of a column inside its table *)
Definition col_aligned (ids : list N) (c : mcol) : Prop :=
  crowid c = ids /\ List.length (cseq c) = List.length ids.

Lemma sortedrowid_positions ids c : col_aligned ids c -> kind_cells_ok (ckind c) (cseq c) ->
  exists p, sort_positions (ckind c) (cseq c) = Some p /\ is_sorting_perm (cseq c) p = true /\
            sortedrowid c = Some (map (fun i => nth i ids 0%N) p).
Proof.
  intros [Hr Hl] Hk. destruct (sort_positions_ok _ _ Hk) as [p [Hp Hs]].
  exists p. repeat split; auto.
  unfold sortedrowid. rewrite Hr. rewrite <- (map_nth_seq ids 0%N) at 1.
  rewrite sorted_tags_map by assumption. unfold sort_positions in Hp. rewrite <- Hl, Hp. reflexivity.
Qed.

(* _getrowidkey along the sorted ids = the positional take *)
Lemma getrowidkey_take ids c p : NoDup ids -> col_aligned ids c -> Forall (fun i => (i < List.length ids)%nat) p ->
  exists xs, take_pos p (cseq c) = Some xs /\
    getrowidkey c (map (fun i => nth i ids 0%N) p) =
      Some {| ckind := ckind c; crowid := map (fun i => nth i ids 0%N) p; cseq := xs |}.
Proof.
  intros Hnd [Hr Hl] Hp.
  assert (HB : exists xs, take_pos p (cseq c) = Some xs).
  { unfold take_pos. induction Hp as [|i p Hi Hp IH]; [eexists; reflexivity|].
    destruct IH as [xs E1]. cbn [map all_some].
    destruct (nth_error (cseq c) i) as [x|] eqn:E; [|apply nth_error_None in E; lia].
    rewrite E1. eexists; reflexivity. }
  assert (HA : all_some (map (cell_by_id c) (map (fun i => nth i ids 0%N) p)) = take_pos p (cseq c)).
  { unfold take_pos. rewrite map_map. f_equal. apply map_ext_in. intros i Hi.
    rewrite Forall_forall in Hp. unfold cell_by_id. rewrite Hr, pos_of_nth by auto. reflexivity. }
  destruct HB as [xs Hx]. exists xs. split; [exact Hx|].
  unfold getrowidkey. rewrite HA, Hx. reflexivity.
Qed.

(* sort(col) / sort(col, by=other): the values of col rearranged by a permutation that sorts the by-column,
   under the row ids of the source (position-aligned, so it can be assigned back) *)
Theorem sort_col_spec ids obj by_ : NoDup ids -> col_aligned ids obj -> col_aligned ids by_ ->
  kind_cells_ok (ckind by_) (cseq by_) ->
  exists p xs, sort_col obj by_ = Some {| ckind := ckind obj; crowid := ids; cseq := xs |} /\
    sort_positions (ckind by_) (cseq by_) = Some p /\
    is_sorting_perm (cseq by_) p = true /\ take_pos p (cseq obj) = Some xs.
Proof.
  intros Hnd Ho Hb Hk. destruct (sortedrowid_positions ids by_ Hb Hk) as [p [Hp [Hs Hsr]]].
  assert (Hlt : Forall (fun i => (i < List.length ids)%nat) p).
  { apply andb_true_iff in Hs. destruct Hs as [Hs _]. apply perm_range_lt in Hs.
    destruct Hb as [_ Hl]. rewrite Hl in Hs. exact Hs. }
  destruct (getrowidkey_take ids obj p Hnd Ho Hlt) as [xs [Hx Hg]].
  exists p, xs. unfold sort_col. rewrite Hsr, Hg. cbn [ckind crowid cseq].
  destruct Ho as [Hr _]. rewrite Hr. auto.
Qed.

(* sort(dm, by=col): every column is the positional take along one permutation p of the rows that sorts
   the by-column; the new row ids are the old ones along p (each once); columns stay aligned *)
Theorem sort_dm_spec d by_ : NoDup (drowid d) ->
  Forall (fun nc => col_aligned (drowid d) (snd nc)) (dcols d) -> col_aligned (drowid d) by_ ->
  kind_cells_ok (ckind by_) (cseq by_) ->
  exists p r, sort_dm d by_ = Some r /\
    sort_positions (ckind by_) (cseq by_) = Some p /\ is_sorting_perm (cseq by_) p = true /\
    take_pos p (drowid d) = Some (drowid r) /\ NoDup (drowid r) /\
    Forall2 (fun nc rc => fst rc = fst nc /\ ckind (snd rc) = ckind (snd nc) /\
                          col_aligned (drowid r) (snd rc) /\
                          take_pos p (cseq (snd nc)) = Some (cseq (snd rc))) (dcols d) (dcols r).
Proof.
  intros Hnd Hcols Hb Hk. set (ids := drowid d) in *.
  destruct (sortedrowid_positions ids by_ Hb Hk) as [p [Hp [Hs Hsr]]].
  assert (Hperm := Hs). apply andb_true_iff in Hperm. destruct Hperm as [Hperm _].
  assert (Hlt : Forall (fun i => (i < List.length ids)%nat) p).
  { apply perm_range_lt in Hperm. destruct Hb as [_ Hl]. rewrite Hl in Hperm. exact Hperm. }
  set (sr := map (fun i => nth i ids 0%N) p) in *.
  assert (Hcs : exists cs, all_some (map (fun nc : string * mcol =>
              match getrowidkey (snd nc) sr with Some c => Some (fst nc, c) | None => None end) (dcols d)) = Some cs /\
            Forall2 (fun nc rc => fst rc = fst nc /\ ckind (snd rc) = ckind (snd nc) /\
                          col_aligned sr (snd rc) /\
                          take_pos p (cseq (snd nc)) = Some (cseq (snd rc))) (dcols d) cs).
  { induction Hcols as [|nc l Hc Hl IH]; [exists []; split; [reflexivity|constructor]|].
    destruct IH as [cs [E F]].
    destruct (getrowidkey_take ids (snd nc) p Hnd Hc Hlt) as [xs [Hx Hg]].
    cbn [map all_some]. fold sr in Hg. rewrite Hg, E. eexists; split; [reflexivity|].
    constructor; [|exact F]. cbn [fst snd ckind crowid cseq]. repeat split; auto.
    cbn. apply take_pos_len in Hx. unfold sr. rewrite map_length. exact Hx. }
  destruct Hcs as [cs [E F]].
  exists p, {| drowid := sr; dcols := cs |}. unfold sort_dm, selectrowid. rewrite Hsr. fold sr. rewrite E.
  cbn [drowid dcols]. repeat split; auto.
  - unfold take_pos. rewrite <- (all_some_map_Some sr). f_equal. unfold sr. rewrite map_map. apply map_ext_in.
    intros i Hi. rewrite Forall_forall in Hlt. apply nth_error_nth'. apply Hlt, Hi.
  - unfold sr. apply perm_nodup_map; [assumption|]. destruct Hb as [_ Hl]. rewrite <- Hl. exact Hperm.
Qed.
