From Coq Require Import ZArith List Bool String Lia.
From DM Require Import Base.PyVal Spec.Nf Gen.KCheck Model.Store.
Import ListNotations.
Open Scope Z_scope.

(* int(f) == f  holds exactly for integral finite floats *)
Lemma trunc_eq_integral neg m e :
  num_eqb (NInt (fl_trunc (FFin neg m e))) (NFlt (FFin neg m e)) = fl_integral (FFin neg m e).
Proof.
  unfold num_eqb, num_cmp, fl_dy, dy_cmp, fl_trunc, fl_integral.
  destruct (0 <=? e) eqn:He.
  - apply Z.leb_le in He. rewrite Z.min_l by lia.
    replace (0 - 0) with 0 by lia. replace (e - 0) with e by lia. simpl (2 ^ 0). cbn [orb].
    destruct neg.
    + change (Z.neg m) with (- Z.pos m). rewrite Z.mul_1_r, Z.mul_opp_l, Z.compare_refl. reflexivity.
    + rewrite Z.mul_1_r, Z.compare_refl. reflexivity.
  - apply Z.leb_gt in He. rewrite Z.min_r by lia.
    replace (e - e) with 0 by lia. simpl (2 ^ 0). cbn [orb].
    assert (Hp : 0 < 2 ^ (0 - e)) by (apply Z.pow_pos_nonneg; lia).
    replace (- e) with (0 - e) by lia.
    pose proof (Z.div_mod (Z.pos m) (2 ^ (0 - e)) ltac:(lia)) as Hdm.
    pose proof (Z.mod_pos_bound (Z.pos m) (2 ^ (0 - e)) Hp) as Hb.
    set (P := 2 ^ (0 - e)) in *.
    set (q := Z.pos m / P) in *. set (r := Z.pos m mod P) in *.
    destruct neg.
    + change (Z.neg m) with (- Z.pos m). rewrite Z.mul_1_r.
      destruct (r =? 0) eqn:Hr; [apply Z.eqb_eq in Hr|apply Z.eqb_neq in Hr].
      * replace (- q * P) with (- Z.pos m) by nia. rewrite Z.compare_refl. reflexivity.
      * destruct (- q * P ?= - Z.pos m) eqn:Hc; try reflexivity.
        apply Z.compare_eq_iff in Hc. nia.
    + rewrite Z.mul_1_r.
      destruct (r =? 0) eqn:Hr; [apply Z.eqb_eq in Hr|apply Z.eqb_neq in Hr].
      * replace (q * P) with (Z.pos m) by nia. rewrite Z.compare_refl. reflexivity.
      * destruct (q * P ?= Z.pos m) eqn:Hc; try reflexivity.
        apply Z.compare_eq_iff in Hc. nia.
Qed.

Lemma trunc_eq_zero neg : num_eqb (NInt (fl_trunc (FZero neg))) (NFlt (FZero neg)) = true.
Proof. reflexivity. Qed.

(* ---- the generated chains compute the normal forms of the property ---- *)

Ltac float_cases f :=
  destruct f as [| neg | neg | neg m e];
  cbn -[fl_trunc num_eqb round53 fl_integral];
  try reflexivity;
  try (rewrite trunc_eq_integral; destruct (fl_integral _); reflexivity).

Theorem store_mixed_spec (v : pyv) : store_cell KMixed v = nf_mixed v.
Proof.
  unfold store_cell, nf_mixed, k_base_checktype, k_checktype_regular.
  destruct v as [z | b | f | z | is64 f | s oi of | | ];
    cbn -[fl_trunc num_eqb round53 fl_integral]; try reflexivity.
  - float_cases f.
  - float_cases f.
  - destruct oi as [z|]; cbn -[fl_trunc num_eqb round53 fl_integral]; [reflexivity|].
    destruct of as [f|]; cbn -[fl_trunc num_eqb round53 fl_integral]; [|reflexivity].
    float_cases f.
Qed.

(* ---- float(int) is exact on integers that a binary64 holds ---- *)

Lemma dy_eq_of_val m1 e1 m2 e2 :
  0 <= e1 -> 0 <= e2 -> m1 * 2 ^ e1 = m2 * 2 ^ e2 -> dy_cmp (m1, e1) (m2, e2) = Eq.
Proof.
  intros H1 H2 H. unfold dy_cmp. set (u := Z.min e1 e2).
  assert (Hu : 0 <= u /\ u <= e1 /\ u <= e2) by (unfold u; lia).
  apply Z.compare_eq_iff.
  assert (Hp : 0 < 2 ^ u) by (apply Z.pow_pos_nonneg; lia).
  replace (2 ^ e1) with (2 ^ (e1 - u) * 2 ^ u) in H by (rewrite <- Z.pow_add_r by lia; f_equal; lia).
  replace (2 ^ e2) with (2 ^ (e2 - u) * 2 ^ u) in H by (rewrite <- Z.pow_add_r by lia; f_equal; lia).
  nia.
Qed.

Lemma pos_norm_val p : forall e, 0 <= e ->
  Z.pos (fst (pos_norm p e)) * 2 ^ (snd (pos_norm p e)) = Z.pos p * 2 ^ e /\ e <= snd (pos_norm p e).
Proof.
  induction p as [p IH | p IH |]; intros e He; cbn [pos_norm fst snd]; try (split; lia).
  destruct (IH (e + 1) ltac:(lia)) as [Hv Hle]. split; [|lia].
  rewrite Hv. rewrite Z.pow_add_r by lia. rewrite Pos2Z.inj_xO. simpl (2 ^ 1). lia.
Qed.

Lemma mk_fin_eqv neg a e m g :
  0 < a -> 0 <= e -> 0 <= g -> a * 2 ^ e = Z.pos m * 2 ^ g ->
  fl_eqv (mk_fin neg a e) (FFin neg m g) = true.
Proof.
  intros Ha He Hg H. unfold mk_fin. destruct a as [|p|p]; try lia.
  destruct (pos_norm p e) as [m' e'] eqn:E.
  pose proof (pos_norm_val p e He) as [Hv Hle]. rewrite E in Hv, Hle. cbn [fst snd] in *.
  cbn [fl_eqv]. rewrite Bool.eqb_reflx. cbn [andb].
  rewrite (dy_eq_of_val (Z.pos m') e' (Z.pos m) g); [reflexivity| lia | lia | lia].
Qed.

Lemma round53_trunc neg m e :
  fl_wf (FFin neg m e) = true -> fl_integral (FFin neg m e) = true ->
  fl_eqv (round53 (fl_trunc (FFin neg m e))) (FFin neg m e) = true.
Proof.
  unfold fl_wf, fl_integral. intros Hwf Hint.
  apply andb_prop in Hwf as [Hlt Hodd]. apply Z.ltb_lt in Hlt.
  assert (He : 0 <= e).
  { destruct (0 <=? e) eqn:E; [apply Z.leb_le in E; exact E|]. cbn [orb] in Hint.
    apply Z.leb_gt in E. apply Z.eqb_eq in Hint.
    assert (Hp : 2 ^ (- e) = 2 * 2 ^ (- e - 1)) by (rewrite <- Z.pow_succ_r by lia; f_equal; lia).
    assert (Hq : 0 < 2 ^ (- e - 1)) by (apply Z.pow_pos_nonneg; lia).
    pose proof (Z.div_mod (Z.pos m) (2 ^ (- e)) ltac:(lia)) as Hdm.
    rewrite Hint, Hp in Hdm.
    exfalso. apply Z.odd_spec in Hodd. destruct Hodd as [k Hk]. nia. }
  unfold fl_trunc. assert (El : (0 <=? e) = true) by (apply Z.leb_le; exact He). rewrite El.
  set (a := Z.pos m * 2 ^ e).
  assert (Hpe : 0 < 2 ^ e) by (apply Z.pow_pos_nonneg; lia).
  assert (Ha : 0 < a) by (unfold a; nia).
  assert (Habs : Z.abs (if neg then - a else a) = a) by (destruct neg; lia).
  assert (Hsign : ((if neg then - a else a) <? 0) = neg).
  { destruct neg; [apply Z.ltb_lt|apply Z.ltb_ge]; lia. }
  unfold round53. rewrite Habs, Hsign.
  assert (E0 : (a =? 0) = false) by (apply Z.eqb_neq; lia). rewrite E0.
  assert (Hlog : Z.log2 a = e + Z.log2 (Z.pos m)) by (unfold a; apply Z.log2_mul_pow2; lia).
  assert (Hlm : Z.log2 (Z.pos m) < 53) by (apply Z.log2_lt_pow2; lia).
  destruct (Z.log2 a + 1 <=? 53) eqn:En.
  - apply mk_fin_eqv; try lia; unfold a; rewrite ?Z.pow_0_r; lia.
  - apply Z.leb_gt in En. set (sh := Z.log2 a + 1 - 53).
    assert (Hsh : 0 < sh <= e) by (unfold sh; lia).
    assert (Hsplit : a = (Z.pos m * 2 ^ (e - sh)) * 2 ^ sh).
    { unfold a. rewrite <- Z.mul_assoc, <- Z.pow_add_r by lia. do 2 f_equal. lia. }
    assert (Hps : 0 < 2 ^ sh) by (apply Z.pow_pos_nonneg; lia).
    assert (Hq : a / 2 ^ sh = Z.pos m * 2 ^ (e - sh)) by (rewrite Hsplit; apply Z.div_mul; lia).
    assert (Hr : a mod 2 ^ sh = 0) by (rewrite Hsplit; apply Z.mod_mul; lia).
    rewrite Hq, Hr.
    assert (Hh : 0 < 2 ^ (sh - 1)) by (apply Z.pow_pos_nonneg; lia).
    assert (E1 : (2 ^ (sh - 1) <? 0) = false) by (apply Z.ltb_ge; lia).
    assert (E2 : (0 =? 2 ^ (sh - 1)) = false) by (apply Z.eqb_neq; lia).
    rewrite E1, E2. cbn [orb andb].
    assert (Hpes : 0 < 2 ^ (e - sh)) by (apply Z.pow_pos_nonneg; lia).
    apply mk_fin_eqv; lia.
Qed.

Lemma fl_eqv_refl f : fl_eqv f f = true.
Proof.
  destruct f as [| n | n | n m e]; cbn [fl_eqv]; try reflexivity; rewrite ?Bool.eqb_reflx; try reflexivity.
  cbn [andb]. unfold dy_cmp. rewrite Z.compare_refl. reflexivity.
Qed.
Lemma val_eqv_refl x : val_eqv x x = true.
Proof.
  destruct x; cbn [val_eqv]; [apply Z.eqb_refl | apply fl_eqv_refl | apply String.eqb_refl | reflexivity].
Qed.
Lemma res_eqv_refl r : res_eqv r r = true.
Proof. destruct r as [x|e]; cbn [res_eqv]; [apply val_eqv_refl | destruct e; reflexivity]. Qed.
Lemma res_eqv_of_eq a b : a = b -> res_eqv a b = true.
Proof. intros ->. apply res_eqv_refl. Qed.

Ltac float_cases_f f Hwf :=
  destruct f as [| neg | neg | neg m e];
  cbn -[fl_trunc num_eqb round53 fl_integral fl_eqv];
  try reflexivity; try apply fl_eqv_refl;
  try (rewrite trunc_eq_integral; destruct (fl_integral _) eqn:Hint;
       cbn -[fl_trunc num_eqb round53 fl_integral fl_eqv];
       [apply round53_trunc; assumption | apply fl_eqv_refl]).

Theorem store_float_spec (v : pyv) : pyv_wf v = true -> res_eqv (store_cell KFloat v) (nf_float v) = true.
Proof.
  intros Hwf.
  unfold store_cell, nf_float, k_numeric_checktype, k_base_checktype_self, k_base_checktype, k_checktype_regular.
  destruct v as [z | b | f | z | is64 f | s oi of | | ];
    cbn -[fl_trunc num_eqb round53 fl_integral fl_eqv]; try apply fl_eqv_refl; try reflexivity.
  - cbn [pyv_wf] in Hwf. float_cases_f f Hwf.
  - cbn [pyv_wf] in Hwf. float_cases_f f Hwf.
  - destruct oi as [z|]; cbn -[fl_trunc num_eqb round53 fl_integral fl_eqv]; [apply fl_eqv_refl|].
    destruct of as [f|]; cbn -[fl_trunc num_eqb round53 fl_integral fl_eqv]; [|reflexivity].
    cbn [pyv_wf] in Hwf. float_cases_f f Hwf.
Qed.

Theorem store_int_spec (v : pyv) : store_cell KInt v = nf_int v.
Proof.
  unfold store_cell, nf_int, k_int_checktype.
  destruct v as [z | b | f | z | is64 f | s oi of | | ]; cbn -[fl_trunc]; try reflexivity.
  - destruct f; reflexivity.
  - destruct f; reflexivity.
  - destruct oi as [z|]; cbn -[fl_trunc]; [reflexivity|].
    destruct of as [f|]; cbn -[fl_trunc]; [destruct f; reflexivity | reflexivity].
Qed.

Theorem store_cell_spec (k : kind) (v : pyv) : pyv_wf v = true -> res_eqv (store_cell k v) (nf k v) = true.
Proof.
  intros Hwf. destruct k; cbn [nf].
  - apply res_eqv_of_eq, store_mixed_spec.
  - apply store_float_spec, Hwf.
  - apply res_eqv_of_eq, store_int_spec.
Qed.

(* every write path stores the normal form: the uniformity claim of C05 *)
Theorem path_nf (p : path) (k : kind) (v : pyv) : pyv_wf v = true -> res_eqv (store p k v) (nf k v) = true.
Proof.
  intros Hwf. unfold store. destruct (scalar_path p); [|apply store_cell_spec, Hwf].
  unfold store_scalar_direct. destruct k; try (apply store_cell_spec, Hwf).
  destruct (is_int_or_float v) eqn:E; [|apply store_cell_spec, Hwf].
  destruct v as [z | b | f | z | is64 f | s oi of | | ]; try discriminate E;
    cbn -[round53 fl_eqv]; try apply fl_eqv_refl.
  destruct b; reflexivity.
Qed.

(* assigning the cells of another column (already normal forms of kind k2) *)
Theorem from_col_nf (k k2 : kind) (x : val) :
  pyv_wf (pyv_of_val x) = true -> res_eqv (store_from_col k k2 x) (nf k (pyv_of_val x)) = true.
Proof.
  intros Hwf. unfold store_from_col.
  destruct k; try (apply store_cell_spec, Hwf).
  destruct k2; try (apply store_cell_spec, Hwf);
    destruct x as [z|f|s|]; try (apply store_cell_spec, Hwf);
    cbn -[round53 fl_eqv]; apply fl_eqv_refl.
Qed.

(* the normal form is a fixed point: writing back what was read stores the same cell *)
Theorem nf_idem (k : kind) (v : pyv) (x : val) : nf k v = Ok x -> nf k (pyv_of_val x) = Ok x.
Proof.
  destruct k; cbn [nf]; unfold nf_mixed, nf_float, nf_int; intros H.
  - destruct (num_of v) as [[z|f]|] eqn:En.
    + inversion H; subst. reflexivity.
    + destruct (fl_is_finite f && fl_integral f) eqn:E; inversion H; subst; cbn [pyv_of_val num_of]; [reflexivity|].
      rewrite E. reflexivity.
    + destruct v; inversion H; subst; reflexivity.
  - destruct (num_of v) as [[z|f]|] eqn:En; [inversion H; subst; reflexivity .. |].
    destruct v; inversion H; subst; reflexivity.
  - destruct (num_of v) as [[z|f]|] eqn:En; [inversion H; subst; reflexivity | | discriminate].
    destruct (fl_is_finite f); inversion H; subst; reflexivity.
Qed.

(* result class per column type *)
Theorem nf_type (k : kind) (v : pyv) (x : val) : nf k v = Ok x ->
  match k, x with
  | KMixed, VFlt f => fl_is_finite f && fl_integral f = false     (* floats stored in a MixedColumn are never integral *)
  | KMixed, _ => True
  | KFloat, VFlt _ => True
  | KInt, VInt _ => True
  | _, _ => False
  end.
Proof.
  destruct k; cbn [nf]; unfold nf_mixed, nf_float, nf_int; intros H.
  - destruct (num_of v) as [[z|f]|]; [inversion H; exact I | | destruct v; inversion H; exact I].
    destruct (fl_is_finite f && fl_integral f) eqn:E; inversion H; subst; [exact I|exact E].
  - destruct (num_of v) as [[z|f]|]; [inversion H; exact I .. |]. destruct v; inversion H; exact I.
  - destruct (num_of v) as [[z|f]|]; [inversion H; exact I | | discriminate].
    destruct (fl_is_finite f); inversion H; exact I.
Qed.

(* integers and integer strings of any magnitude are stored exactly *)
Theorem nf_int_exact (z : Z) (s : string) (of : option fl) :
  nf KMixed (PInt z) = Ok (VInt z) /\ nf KMixed (PStr s (Some z) of) = Ok (VInt z) /\
  nf KInt (PInt z) = Ok (VInt z) /\ nf KInt (PNpInt z) = Ok (VInt z) /\ nf KInt (PStr s (Some z) of) = Ok (VInt z).
Proof. repeat split. Qed.
