(* C16: the is_2d guard of writetxt over the column objects of the table (kernel k_is_2d, regenerated from
   DataMatrix.is_2d). A column object is seen as `colobj`: Some depth for a series column -- of ANY depth, 0
   included -- and None for a column without a depth attribute. *)
From Coq Require Import ZArith List Bool String Ascii.
From DM Require Import Base.PyVal Base.CsvPy Spec.Nf Spec.Csv Gen.KCsv Model.Csv.
Import ListNotations.

Lemma is_2d_char (cols : list (string * colobj)) :
  k_is_2d cols = negb (existsb (fun c => col_hasattr_depth (snd c)) cols).
Proof.
  unfold k_is_2d. induction cols as [|[n c] r IH]; [reflexivity|].
  cbn [existsb snd]. destruct (col_hasattr_depth c); [reflexivity|]. cbn [orb]. exact IH.
Qed.

(* is_2d is False as soon as one column has a depth attribute, whatever its value and wherever the column is *)
Theorem is_2d_series (cols : list (string * colobj)) (n : string) (k : Z) :
  In (n, Some k) cols -> k_is_2d cols = false.
Proof.
  intros H. rewrite is_2d_char. apply negb_false_iff. apply existsb_exists. exists (n, Some k). split; [exact H|reflexivity].
Qed.

(* ... and True when no column has one *)
Theorem is_2d_plain (cols : list (string * colobj)) :
  Forall (fun c => snd c = None) cols -> k_is_2d cols = true.
Proof.
  intros H. rewrite is_2d_char. apply negb_true_iff. apply not_true_is_false. intros E.
  apply existsb_exists in E. destruct E as [[n c] [Hin Hc]]. rewrite Forall_forall in H. specialize (H _ Hin).
  cbn [snd] in *. subst c. discriminate.
Qed.

Theorem is_2d_iff (cols : list (string * colobj)) :
  k_is_2d cols = true <-> Forall (fun c => snd c = None) cols.
Proof.
  split; [|apply is_2d_plain]. intros H. apply Forall_forall. intros [n c] Hin. cbn [snd]. destruct c as [k|]; [|reflexivity].
  rewrite (is_2d_series cols n k Hin) in H. discriminate.
Qed.

(* writing a DataMatrix one of whose columns is a series column -- at any position, of any depth -- raises TypeError *)
Theorem write_dm_series_typeerror (shf : fl -> string) (d q : ascii) (cols : list (string * colobj)) (t : table)
  (n : string) (k : Z) :
  In (n, Some k) cols -> writetxt_dm shf d q cols t = Raise TypeError.
Proof. intros H. unfold writetxt_dm. rewrite (is_2d_series cols n k H). destruct t. reflexivity. Qed.

(* a DataMatrix of plain columns passes the guard: writetxt_dm is the writer of the round-trip theorems *)
Theorem write_dm_plain (shf : fl -> string) (d q : ascii) (cols : list (string * colobj)) (t : table) :
  Forall (fun c => snd c = None) cols -> writetxt_dm shf d q cols t = writetxt shf d q true t.
Proof. intros H. unfold writetxt_dm. rewrite (is_2d_plain cols H). reflexivity. Qed.
