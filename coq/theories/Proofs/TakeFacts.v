(* Rows stay intact: a derived table takes the SAME positions from the id list
   and from every column.  This is the L0 content of "cells stay with their
   rows" for selection, slicing, sorting, shuffling, sampling, shrinking and
   row deletion. *)
From Coq Require Import ZArith NArith List Bool Lia Arith String Permutation.
From DM Require Import Base.PyVal Spec.Nf Spec.Table Spec.Ops Proofs.ListX Proofs.TableFacts.
Import ListNotations.
Open Scope nat_scope.

Lemma skipn_cons_nth {A} off (l : list A) a r : skipn off l = a :: r -> nth_error l off = Some a /\ skipn (S off) l = r.
Proof.
  revert l; induction off as [|off IH]; intros l H.
  - cbn [skipn] in H. subst l. split; reflexivity.
  - destruct l as [|x l]; [discriminate|]. cbn [skipn nth_error] in *. apply IH in H. exact H.
Qed.

Section Derive.
  Variable t : table.
  Variable f : slot -> option slot.
  Let g (ni : string * nat) : option slot :=
    let '(n, i) := ni in match nth_error (slots t) i with Some s => f s | None => None end.
  Definition drel (ni : string * nat) (e : string * kind * list val) : Prop :=
    let '(n, i) := ni in let '(n', k, c) := e in
    n = n' /\ exists s s', nth_error (slots t) i = Some s /\ f s = Some s' /\ k = skind s' /\ c = scells s'.

  Lemma view_derive_aux (ss_all : list slot) :
    forall (nm : list (string * nat)) ss off,
      all_some (map g nm) = Some ss -> skipn off ss_all = ss ->
      Forall2 drel nm
        (map (fun '(n, i) => match nth_error ss_all i with
                             | Some s => (n, skind s, scells s)
                             | None => (n, KMixed, [])
                             end) (combine (map fst nm) (seq off (List.length nm)))).
  Proof.
    induction nm as [|[n i] nm IH]; intros ss off Ha Hs; cbn [map combine seq List.length fst]; [constructor|].
    cbn [map all_some] in Ha. unfold g at 1 in Ha.
    destruct (nth_error (slots t) i) as [s|] eqn:Es; [|discriminate].
    destruct (f s) as [s'|] eqn:Ef; [|discriminate].
    destruct (all_some (map g nm)) as [ss'|] eqn:Ea; [|discriminate].
    injection Ha as <-. apply skipn_cons_nth in Hs. destruct Hs as [Hn Hs].
    constructor.
    - rewrite Hn. cbn [drel]. split; [reflexivity|]. exists s, s'. repeat split; assumption.
    - apply (IH ss' (S off)); [reflexivity|assumption].
  Qed.

  Lemma view_derive newids t' :
    derive t f newids = Some t' -> Forall2 drel (names t) (view t').
  Proof.
    unfold derive. fold g.
    replace (map (fun '(n, i) => match nth_error (slots t) i with Some s => f s | None => None end) (names t))
      with (map g (names t)) by (apply map_ext; intros [n i]; reflexivity).
    destruct (all_some (map g (names t))) as [ss|] eqn:E; [|discriminate].
    intros H. injection H as <-. unfold view. cbn [names slots].
    apply (view_derive_aux ss (names t) ss 0); [assumption|reflexivity].
  Qed.
End Derive.

(* the main statement *)
Definition same_rows (ps : list nat) (e e' : string * kind * list val) : Prop :=
  let '(n, k, c) := e in let '(n', k', c') := e' in n = n' /\ k = k' /\ take_pos ps c = Some c'.

Theorem take_rows ps t t' :
  twf t -> take ps t = Some t' ->
  take_pos ps (ids t) = Some (ids t') /\ fam t' = fam t /\ Forall2 (same_rows ps) (view t) (view t').
Proof.
  intros Ht H. unfold take in H.
  destruct (take_pos ps (ids t)) as [newids|] eqn:E; [|discriminate].
  pose proof (view_derive t _ newids t' H) as Hv.
  assert (Hi : ids t' = newids /\ fam t' = fam t).
  { unfold derive in H. destruct (all_some _); [|discriminate]. injection H as <-. split; reflexivity. }
  destruct Hi as [-> Hf]. split; [reflexivity|]. split; [assumption|].
  unfold view at 1. clear H E.
  induction Hv as [|[n i] [[n' k] c] nm vs Hd Hrest IH]; cbn [map]; constructor; [|assumption].
  destruct Hd as [-> (s & s' & Hs & Hf' & -> & ->)]. rewrite Hs. cbn [same_rows].
  destruct (take_pos ps (scells s)) as [cs|]; [|discriminate]. injection Hf' as <-. cbn [skind scells].
  repeat split; reflexivity.
Qed.

(* consequences *)
Lemma take_pos_perm {A} ps (l r : list A) :
  is_perm_of_range ps (List.length l) = true -> take_pos ps l = Some r -> Permutation l r.
Proof.
  unfold is_perm_of_range. rewrite !andb_true_iff, Nat.eqb_eq, forallb_forall. intros [[Hlen Hnd] Hr] H.
  apply nodup_nat_NoDup in Hnd.
  assert (Hps : Permutation ps (seq 0 (List.length l))).
  { apply NoDup_Permutation_bis; [assumption|rewrite seq_length; lia|].
    intros x Hx. apply in_seq. specialize (Hr x Hx). apply Nat.ltb_lt in Hr. lia. }
  apply take_pos_spec in H.
  assert (Hmap : Permutation (map (nth_error l) ps) (map (nth_error l) (seq 0 (List.length l))))
    by (apply Permutation_map; assumption).
  assert (Hid : map (nth_error l) (seq 0 (List.length l)) = map Some l).
  { clear. induction l as [|a l IH]; [reflexivity|]. cbn [List.length seq map nth_error]. f_equal.
    rewrite <- seq_shift, map_map. cbn [nth_error]. exact IH. }
  rewrite H, Hid in Hmap.
  apply Permutation_map_inv in Hmap. destruct Hmap as [l3 [E Hp]].
  assert (r = l3).
  { clear -E. revert l3 E. induction r as [|a r IH]; intros [|b l3] E; try discriminate; [reflexivity|].
    cbn [map] in E. injection E as -> E. f_equal. apply IH. assumption. }
  subst l3. assumption.
Qed.

(* shuffling / sorting: the result holds exactly the rows of the source, each once *)
Theorem take_perm_rows ps t t' :
  twf t -> is_perm_of_range ps (nrows t) = true -> take ps t = Some t' ->
  Permutation (ids t) (ids t') /\ Forall2 (fun e e' => let '(n, k, c) := e in let '(n', k', c') := e' in
                       n = n' /\ k = k' /\ Permutation c c') (view t) (view t').
Proof.
  intros Ht Hp H. destruct (take_rows ps t t' Ht H) as (Hi & _ & Hv). split.
  - eapply take_pos_perm; eassumption.
  - assert (Hlen : forall n k c, In (n, k, c) (view t) -> List.length c = nrows t) by (intros; eapply view_len; eassumption).
    revert Hlen. induction Hv as [|[[n k] c] [[n' k'] c'] v v' Hd Hrest IH]; intros Hlen; constructor.
    + destruct Hd as (-> & -> & Hc). repeat split. eapply take_pos_perm; [|eassumption].
      rewrite (Hlen n' k' c) by (left; reflexivity). assumption.
    + apply IH. intros. eapply Hlen. right. eassumption.
Qed.
