(* L1 refines L0: the id-based algorithms of the implementation (Model/Core.v)
   compute, on every object graph that satisfies the representation invariant,
   exactly the positional operations of the reference model (Spec/Table.v). *)
From Coq Require Import ZArith NArith List Bool Lia Arith String Permutation.
From DM Require Import Base.PyVal Spec.Nf Spec.Table Spec.Ops Model.LTable Gen.KCore Model.Core
  Proofs.ListX Proofs.MergeFacts Proofs.TableFacts Proofs.TakeFacts.
Import ListNotations.
Open Scope nat_scope.

(* ---------- positional lookup ---------- *)
Lemma pos_of_In x l : In x l -> exists p, pos_of x l = Some p.
Proof.
  induction l as [|y l IH]; intros H; [destruct H|]. cbn [pos_of].
  destruct (N.eqb x y) eqn:E; [eexists; reflexivity|].
  apply N.eqb_neq in E. destruct H as [H|H]; [congruence|]. destruct (IH H) as [p ->]. eexists; reflexivity.
Qed.
Lemma pos_of_notin x l : ~ In x l -> pos_of x l = None.
Proof.
  induction l as [|y l IH]; intros H; [reflexivity|]. cbn [pos_of].
  destruct (N.eqb x y) eqn:E; [apply N.eqb_eq in E; subst; exfalso; apply H; left; reflexivity|].
  rewrite IH; [reflexivity|]. intros Hin. apply H. right. assumption.
Qed.
Lemma pos_of_nth x l p : pos_of x l = Some p -> nth_error l p = Some x.
Proof.
  revert p; induction l as [|y l IH]; intros p; cbn [pos_of]; [discriminate|].
  destruct (N.eqb x y) eqn:E.
  - apply N.eqb_eq in E. subst. intros H. injection H as <-. reflexivity.
  - destruct (pos_of x l) as [q|]; [|discriminate]. intros H. injection H as <-. cbn [nth_error]. apply IH. reflexivity.
Qed.
Lemma pos_of_unique x l p : NoDup l -> nth_error l p = Some x -> pos_of x l = Some p.
Proof.
  intros Hnd Hn. destruct (pos_of_In x l) as [q Hq]; [eapply nth_error_In; eassumption|].
  rewrite Hq. f_equal. pose proof (pos_of_nth _ _ _ Hq) as Hq'.
  rewrite NoDup_nth_error in Hnd. apply Hnd; [apply nth_error_Some; congruence|congruence].
Qed.

(* ---------- the Index position cache is a dict: under NoDup it is positional lookup ---------- *)
Lemma dict_get_combine k ids : forall s,
  NoDup ids -> dict_get k (combine ids (seq s (List.length ids))) = option_map (fun p => s + p) (pos_of k ids).
Proof.
  induction ids as [|a r IH]; intros s Hnd; [reflexivity|].
  inversion Hnd as [|? ? Hnotin Hnd']; subst.
  cbn [List.length seq combine dict_get pos_of]. rewrite (IH (S s) Hnd').
  destruct (N.eqb k a) eqn:E.
  - apply N.eqb_eq in E. subst a. rewrite (pos_of_notin k r Hnotin). cbn [option_map].
    rewrite N.eqb_refl. f_equal. lia.
  - rewrite N.eqb_sym, E. destruct (pos_of k r) as [p|]; cbn [option_map]; [f_equal; lia|reflexivity].
Qed.

Lemma list_eqb_pairs_eq (a b : list (N * nat)) :
  list_eqb (fun '(x, p) '(y, q) => N.eqb x y && Nat.eqb p q) a b = true -> a = b.
Proof.
  revert b; induction a as [|[x p] a IH]; intros [|[y q] b]; cbn [list_eqb]; try discriminate; [reflexivity|].
  rewrite !andb_true_iff, N.eqb_eq, Nat.eqb_eq. intros [[-> ->] H]. f_equal. apply IH. assumption.
Qed.

Lemma idx_index_pos i k : meta_ok i = true -> NoDup (ia i) -> idx_index i k = pos_of k (ia i).
Proof.
  intros Hm Hnd. unfold idx_index, idx_meta. unfold meta_ok in Hm.
  assert (E : match imeta i with Some m => m | None => combine (ia i) (seq 0 (List.length (ia i))) end
              = combine (ia i) (seq 0 (List.length (ia i)))).
  { destruct (imeta i) as [m|]; [apply list_eqb_pairs_eq; assumption|reflexivity]. }
  rewrite E, dict_get_combine by assumption. destruct (pos_of k (ia i)); reflexivity.
Qed.

(* ---------- argsort + searchsorted on a duplicate-free id array is positional lookup ---------- *)
Definition pairs_sorted (l : list (N * nat)) : Prop := ssorted (map fst l).

Lemma insert_by_In x y l : In y (insert_by x l) <-> y = x \/ In y l.
Proof.
  induction l as [|z l IH]; cbn [insert_by]; [simpl; intuition|].
  destruct (N.leb (fst x) (fst z)); simpl; [intuition|]. rewrite IH. intuition.
Qed.
Lemma insert_by_sorted x l :
  pairs_sorted l -> ~ In (fst x) (map fst l) -> pairs_sorted (insert_by x l).
Proof.
  unfold pairs_sorted. induction l as [|z l IH]; intros Hs Hn; cbn [insert_by map]; [constructor|].
  destruct (N.leb (fst x) (fst z)) eqn:E.
  - apply N.leb_le in E. cbn [map]. constructor; [|assumption].
    assert (fst x <> fst z) by (intros H; apply Hn; left; congruence). lia.
  - apply N.leb_gt in E. cbn [map] in *. assert (Hs' := ssorted_tail _ _ Hs).
    assert (Hn' : ~ In (fst x) (map fst l)) by (intros H; apply Hn; right; assumption).
    specialize (IH Hs' Hn').
    destruct l as [|w l]; cbn [insert_by map] in *; [constructor; [assumption|constructor]|].
    destruct (N.leb (fst x) (fst w)) eqn:E2; cbn [map] in *.
    + constructor; assumption.
    + constructor; [|assumption]. inversion Hs; subst; assumption.
Qed.

Definition sorted_pairs (ids : list N) : list (N * nat) :=
  fold_right insert_by [] (combine ids (seq 0 (List.length ids))).

Lemma fold_insert_In (ps : list (N * nat)) y : In y (fold_right insert_by [] ps) <-> In y ps.
Proof.
  induction ps as [|x ps IH]; cbn [fold_right]; [reflexivity|]. rewrite insert_by_In, IH. simpl. intuition.
Qed.
Lemma fold_insert_sorted (ps : list (N * nat)) : NoDup (map fst ps) -> pairs_sorted (fold_right insert_by [] ps).
Proof.
  induction ps as [|x ps IH]; intros H; cbn [fold_right]; [constructor|].
  cbn [map] in H. inversion H as [|? ? Hnotin Hnd]; subst.
  apply insert_by_sorted; [apply IH; assumption|].
  intros Hin. apply Hnotin. apply in_map_iff in Hin. destruct Hin as [p [E Hp]].
  apply (proj1 (fold_insert_In _ _)) in Hp. rewrite <- E. apply in_map. assumption.
Qed.

Lemma combine_seq_In (ids : list N) s a p :
  In (a, p) (combine ids (seq s (List.length ids))) <-> (s <= p /\ nth_error ids (p - s) = Some a).
Proof.
  revert s; induction ids as [|b r IH]; intros s; cbn [List.length seq combine].
  - split; [intros []|]. intros [_ H]. destruct (p - s); discriminate.
  - simpl In. rewrite IH. split.
    + intros [H|[H1 H2]].
      * injection H as -> ->. split; [lia|]. replace (p - p) with 0 by lia. reflexivity.
      * split; [lia|]. replace (p - s) with (S (p - S s)) by lia. exact H2.
    + intros [H1 H2]. destruct (Nat.eq_dec p s) as [->|Hne].
      * left. replace (s - s) with 0 in H2 by lia. cbn [nth_error] in H2. congruence.
      * right. split; [lia|]. replace (p - s) with (S (p - S s)) in H2 by lia. exact H2.
Qed.

Lemma map_fst_combine_seq (ids : list N) s : map fst (combine ids (seq s (List.length ids))) = ids.
Proof. revert s; induction ids as [|a r IH]; intros s; cbn [List.length seq combine map]; [reflexivity|]. f_equal. apply IH. Qed.

(* in a strictly sorted list the number of elements below k is k's index *)
Lemma filter_lt_nil k (l : list N) : (forall x, In x l -> (k < x)%N) -> filter (fun x => N.ltb x k) l = [].
Proof.
  induction l as [|b l IH]; intros H; [reflexivity|]. cbn [filter].
  assert (Eb : N.ltb b k = false) by (apply N.ltb_ge; specialize (H b (or_introl eq_refl)); lia).
  rewrite Eb. apply IH. intros x Hx. apply H. right. assumption.
Qed.

Lemma count_lt_index (l : list (N * nat)) k p :
  pairs_sorted l -> In (k, p) l ->
  nth_error l (List.length (filter (fun x => N.ltb x k) (map fst l))) = Some (k, p).
Proof.
  unfold pairs_sorted. induction l as [|[a q] l IH]; intros Hs Hin; [destruct Hin|].
  cbn [map filter fst]. destruct Hin as [H|H].
  - injection H as -> ->. rewrite N.ltb_irrefl.
    rewrite filter_lt_nil; [reflexivity|]. intros x Hx. cbn [map fst] in Hs. eapply ssorted_lt; eassumption.
  - cbn [map fst] in Hs.
    assert (Hlt : (a < k)%N).
    { apply (ssorted_lt a (map fst l)); [exact Hs|]. apply in_map_iff. exists (k, p). split; [reflexivity|assumption]. }
    assert (Ea : N.ltb a k = true) by (apply N.ltb_lt; assumption). rewrite Ea. cbn [List.length nth_error].
    apply IH; [eapply ssorted_tail; eassumption|assumption].
Qed.

(* positions found through argsort + searchsorted *)
Theorem argsort_searchsorted_pos ids k :
  NoDup ids -> In k ids ->
  nth_error (argsort ids) (searchsorted (map (fun p => nth p ids 0%N) (argsort ids)) k) = pos_of k ids.
Proof.
  intros Hnd Hin. unfold argsort, searchsorted. fold (sorted_pairs ids).
  set (L := sorted_pairs ids).
  assert (Hmem : forall a p, In (a, p) L <-> nth_error ids p = Some a).
  { intros a p. unfold L, sorted_pairs. rewrite fold_insert_In, combine_seq_In. rewrite Nat.sub_0_r. intuition lia. }
  assert (Hs : pairs_sorted L).
  { unfold L, sorted_pairs. apply fold_insert_sorted. rewrite map_fst_combine_seq. assumption. }
  assert (Hfst : map (fun p => nth p ids 0%N) (map snd L) = map fst L).
  { rewrite map_map. apply map_ext_in. intros [a p] Hp. cbn [fst snd]. apply Hmem in Hp.
    apply nth_error_nth. assumption. }
  rewrite Hfst.
  destruct (pos_of_In k ids Hin) as [p Hp]. rewrite Hp.
  assert (Hkp : In (k, p) L) by (apply Hmem; apply pos_of_nth; assumption).
  rewrite nth_error_map, (count_lt_index L k p Hs Hkp). reflexivity.
Qed.

(* ---------- facts carried by the boolean invariant ---------- *)
Lemma ids_eqb_eq a b : ids_eqb a b = true -> a = b.
Proof.
  unfold ids_eqb. revert b; induction a as [|x a IH]; intros [|y b]; cbn [list_eqb]; try discriminate; [reflexivity|].
  rewrite andb_true_iff, N.eqb_eq. intros [-> H]. f_equal. apply IH. assumption.
Qed.

Record col_inv (ids : list N) (c : lcol) : Prop :=
  { ci_ids : ia (lc_rowid c) = ids;
    ci_len : List.length (lc_cells c) = List.length ids;
    ci_meta : meta_ok (lc_rowid c) = true }.

Lemma inv_b_facts t :
  inv_b t = true ->
  NoDup (ia (l_rowid t)) /\ meta_ok (l_rowid t) = true /\ max_ok (l_rowid t) = true
  /\ Forall (col_inv (ia (l_rowid t))) (l_cols t)
  /\ Forall (fun ni : string * nat => snd ni < List.length (l_cols t)) (l_names t).
Proof.
  unfold inv_b. rewrite !andb_true_iff. intros [[[[Hnd Hix] _] Hn] Hc].
  unfold index_ok in Hix. apply andb_true_iff in Hix. destruct Hix as [Hm Hx].
  split; [apply nodup_N_NoDup; assumption|]. split; [assumption|]. split; [assumption|]. split.
  - apply Forall_forall. intros c Hin. rewrite forallb_forall in Hc. specialize (Hc c Hin).
    unfold col_ok in Hc. rewrite !andb_true_iff in Hc. destruct Hc as [[[[[Hi Hl] _] _] Hio] _].
    unfold index_ok in Hio. apply andb_true_iff in Hio. constructor.
    + apply ids_eqb_eq. assumption.
    + apply Nat.eqb_eq. assumption.
    + apply Hio.
  - apply Forall_forall. intros [n i] Hin. rewrite forallb_forall in Hn. specialize (Hn _ Hin). cbn [snd].
    apply Nat.ltb_lt. exact Hn.
Qed.

(* ---------- positions_by_id is positional lookup (both lookup algorithms) ---------- *)
Lemma positions_by_id_spec c ids key :
  NoDup ids -> col_inv ids c -> (forall k, In k key -> In k ids) ->
  positions_by_id c key = all_some (map (fun r => pos_of r ids) key).
Proof.
  intros Hnd [Hi Hl Hm] Hin. unfold positions_by_id. destruct (is_mixed c).
  - f_equal. apply map_ext. intros r. rewrite idx_index_pos; [rewrite Hi; reflexivity|assumption|rewrite Hi; assumption].
  - rewrite Hi. f_equal. apply map_ext_in. intros r Hr. apply argsort_searchsorted_pos; [assumption|apply Hin; assumption].
Qed.

Lemma take_pos_pos_of ids key ps :
  all_some (map (fun r => pos_of r ids) key) = Some ps -> take_pos ps ids = Some key.
Proof.
  revert ps; induction key as [|k key IH]; intros ps H; cbn [map all_some] in H.
  - injection H as <-. reflexivity.
  - destruct (pos_of k ids) as [p|] eqn:Ep; [|discriminate].
    destruct (all_some (map (fun r => pos_of r ids) key)) as [ps'|] eqn:E; [|discriminate].
    injection H as <-. unfold take_pos in *. cbn [map all_some]. rewrite (pos_of_nth _ _ _ Ep).
    specialize (IH ps' eq_refl). rewrite IH. reflexivity.
Qed.

Definition slot_of_col (c : lcol) : slot := {| skind := lc_kind c; scells := lc_cells c |}.

Lemma getrowidkey_slot c ids key ps :
  NoDup ids -> col_inv ids c -> (forall k, In k (ia key) -> In k ids) ->
  all_some (map (fun r => pos_of r ids) (ia key)) = Some ps ->
  option_map slot_of_col (getrowidkey c key) =
  match take_pos ps (lc_cells c) with Some cs => Some {| skind := lc_kind c; scells := cs |} | None => None end
  /\ forall c', getrowidkey c key = Some c' -> ia (lc_rowid c') = ia key.
Proof.
  intros Hnd Hc Hin Hps. unfold getrowidkey.
  rewrite (positions_by_id_spec c ids (ia key) Hnd Hc Hin), Hps.
  destruct Hc as [Hi Hl Hm]. rewrite Hi, (take_pos_pos_of ids (ia key) ps Hps).
  destruct (take_pos ps (lc_cells c)) as [cs|]; cbn [option_map]; split; try reflexivity; try discriminate.
  intros c' H. injection H as <-. cbn [lc_rowid]. destruct (is_mixed c); reflexivity.
Qed.

Lemma all_some_map_option_map {A B C} (g : A -> option C) (h : A -> option B) (mk : B -> C) (l : list A) :
  (forall a, In a l -> g a = option_map mk (h a)) ->
  all_some (map g l) = option_map (map mk) (all_some (map h l)).
Proof.
  induction l as [|a l IH]; intros H; [reflexivity|]. cbn [map all_some].
  rewrite (H a (or_introl eq_refl)). destruct (h a) as [b|]; cbn [option_map]; [|reflexivity].
  rewrite IH by (intros x Hx; apply H; right; assumption).
  destruct (all_some (map h l)); reflexivity.
Qed.

(* ---------- DataMatrix._selectrowid refines the positional take ---------- *)
Theorem selectrowid_refines t key r :
  inv_b t = true -> (forall k, In k (ia key) -> In k (ia (l_rowid t))) ->
  selectrowid t key = Some r ->
  exists ps, all_some (map (fun k => pos_of k (ia (l_rowid t))) (ia key)) = Some ps
             /\ take ps (abs t) = Some (abs r).
Proof.
  intros Hinv Hin Hsel. destruct (inv_b_facts t Hinv) as (Hnd & _ & _ & Hcols & Hnames).
  set (tids := ia (l_rowid t)) in *.
  (* every key id is found *)
  assert (Hex : exists ps, all_some (map (fun k => pos_of k tids) (ia key)) = Some ps).
  { clear Hsel. induction (ia key) as [|k ks IH]; [exists []; reflexivity|].
    destruct (pos_of_In k tids (Hin k (or_introl eq_refl))) as [p Hp].
    destruct IH as [ps Hps]; [intros x Hx; apply Hin; right; assumption|].
    exists (p :: ps). cbn [map all_some]. rewrite Hp, Hps. reflexivity. }
  destruct Hex as [ps Hps]. exists ps. split; [assumption|].
  unfold selectrowid in Hsel.
  destruct (all_some (map _ (l_names t))) as [cols|] eqn:Ecols; [|discriminate].
  injection Hsel as <-.
  unfold take. change (Table.ids (abs t)) with tids. rewrite (take_pos_pos_of tids (ia key) ps Hps).
  unfold derive. change (names (abs t)) with (l_names t).
  change (slots (abs t)) with (map slot_of_col (l_cols t)). change (fam (abs t)) with (l_fam t).
  match goal with |- context [all_some (map ?g (l_names t))] =>
    assert (Hg : all_some (map g (l_names t)) = Some (map slot_of_col cols)) end.
  { erewrite all_some_map_option_map with (mk := slot_of_col)
      (h := fun ni : string * nat => let '(_, i) := ni in
                                     match nth_error (l_cols t) i with Some c => getrowidkey c key | None => None end).
    - rewrite Ecols. reflexivity.
    - intros [n i] Hni. rewrite nth_error_map.
      destruct (nth_error (l_cols t) i) as [c|] eqn:Ec; cbn [option_map]; [|reflexivity].
      assert (Hci : col_inv tids c) by (rewrite Forall_forall in Hcols; apply Hcols; eapply nth_error_In; eassumption).
      destruct (getrowidkey_slot c tids key ps Hnd Hci Hin Hps) as [-> _]. reflexivity. }
  rewrite Hg. reflexivity.
Qed.

(* ---------- rows fetched by id in a given order (sort, shuffle, sample) ---------- *)
Lemma pos_of_take_pos ids perm rid :
  NoDup ids -> take_pos perm ids = Some rid -> all_some (map (fun r => pos_of r ids) rid) = Some perm.
Proof.
  intros Hnd H. apply take_pos_spec in H. revert rid H.
  induction perm as [|p perm IH]; intros [|r rid] H; try discriminate; [reflexivity|].
  cbn [map] in H. injection H as Hp H. cbn [map all_some].
  rewrite (pos_of_unique r ids p Hnd Hp), (IH rid H). reflexivity.
Qed.

Lemma take_pos_In {A} ps (l r : list A) x : take_pos ps l = Some r -> In x r -> In x l.
Proof.
  intros H Hx. apply take_pos_spec in H. apply In_nth_error in Hx. destruct Hx as [i Hi].
  assert (E : nth_error (map Some r) i = Some (Some x)) by (rewrite nth_error_map, Hi; reflexivity).
  rewrite <- H, nth_error_map in E. destruct (nth_error ps i) as [p|]; [|discriminate].
  cbn [option_map] in E. injection E as E. eapply nth_error_In; eassumption.
Qed.

Theorem by_position_refines t perm rid r :
  inv_b t = true -> take_pos perm (ia (l_rowid t)) = Some rid ->
  selectrowid t (idx_of_list rid) = Some r -> take perm (abs t) = Some (abs r).
Proof.
  intros Hinv Hrid Hsel. destruct (inv_b_facts t Hinv) as (Hnd & _).
  destruct (selectrowid_refines t (idx_of_list rid) r Hinv) as [ps [Hps Ht]]; [|assumption|].
  - intros k Hk. cbn [ia idx_of_list] in Hk. eapply take_pos_In; eassumption.
  - cbn [ia idx_of_list] in Hps. rewrite (pos_of_take_pos _ _ _ Hnd Hrid) in Hps. injection Hps as <-. assumption.
Qed.

(* ---------- comparison: the ids collected by the zip-filter are the ids at the matching positions ---------- *)
Lemma ia_fold_append hits : forall i, ia (fold_left idx_append hits i) = ia i ++ hits.
Proof.
  induction hits as [|h hits IH]; intros i; cbn [fold_left]; [rewrite app_nil_r; reflexivity|].
  rewrite IH. cbn [idx_append ia]. rewrite <- app_assoc. reflexivity.
Qed.

Lemma hits_take_pos (f : val -> bool) ids cells : forall s,
  List.length ids = List.length cells ->
  map (@Some N) (map fst (filter (fun '(_, cell) => f cell) (combine ids cells)))
  = map (fun p => nth_error ids (p - s)) (positions_where f cells s).
Proof.
  revert cells; induction ids as [|a ids IH]; intros [|c cells] s Hl; try discriminate; [reflexivity|].
  cbn [combine filter positions_where]. cbn [List.length] in Hl.
  destruct (f c); cbn [map fst].
  - f_equal; [replace (s - s) with 0 by lia; reflexivity|].
    rewrite (IH cells (S s)) by lia. apply map_ext_in. intros p Hp. apply positions_where_ge in Hp.
    replace (p - s) with (S (p - S s)) by lia. reflexivity.
  - rewrite (IH cells (S s)) by lia. apply map_ext_in. intros p Hp. apply positions_where_ge in Hp.
    replace (p - s) with (S (p - S s)) by lia. reflexivity.
Qed.

Lemma compare_ids_take c op ref :
  List.length (ia (lc_rowid c)) = List.length (lc_cells c) ->
  take_pos (positions_where (fun cell => py_cmp op cell ref) (lc_cells c) 0) (ia (lc_rowid c))
  = Some (ia (compare_ids c op ref)).
Proof.
  intros Hl. apply take_pos_spec.
  assert (E : ia (compare_ids c op ref)
              = map fst (filter (fun '(_, cell) => py_cmp op cell ref) (combine (ia (lc_rowid c)) (lc_cells c)))).
  { unfold compare_ids. destruct (is_mixed c); [rewrite ia_fold_append|]; reflexivity. }
  rewrite E, (hits_take_pos (fun cell => py_cmp op cell ref) _ _ 0 Hl).
  apply map_ext. intros p. rewrite Nat.sub_0_r. reflexivity.
Qed.

Theorem select_refines t c op ref r :
  inv_b t = true -> In c (l_cols t) ->
  selectrowid t (compare_ids c op ref) = Some r ->
  take (positions_where (fun cell => py_cmp op cell ref) (lc_cells c) 0) (abs t) = Some (abs r).
Proof.
  intros Hinv Hc Hsel. destruct (inv_b_facts t Hinv) as (Hnd & _ & _ & Hcols & _).
  rewrite Forall_forall in Hcols. destruct (Hcols c Hc) as [Hi Hl _].
  assert (Htk := compare_ids_take c op ref ltac:(rewrite Hi; congruence)). rewrite Hi in Htk.
  destruct (selectrowid_refines t (compare_ids c op ref) r Hinv) as [ps [Hps Ht]]; [|assumption|].
  - intros k Hk. eapply take_pos_In; eassumption.
  - rewrite (pos_of_take_pos _ _ _ Hnd Htk) in Hps. injection Hps as <-. assumption.
Qed.

(* ---------- positional slicing (dm[a:b], dm[[i, j]], shrinking) ---------- *)
Theorem slice_refines t ps r : inv_b t = true -> slice_table t ps = Some r -> take ps (abs t) = Some (abs r).
Proof.
  intros Hinv H. destruct (inv_b_facts t Hinv) as (_ & _ & _ & Hcols & _).
  unfold slice_table in H.
  destruct (take_pos ps (ia (l_rowid t))) as [rid|] eqn:Er; [|discriminate].
  destruct (all_some (map _ (l_names t))) as [cols|] eqn:Ecols; [|discriminate]. injection H as <-.
  unfold take. change (Table.ids (abs t)) with (ia (l_rowid t)). rewrite Er.
  unfold derive. change (names (abs t)) with (l_names t).
  change (slots (abs t)) with (map slot_of_col (l_cols t)). change (fam (abs t)) with (l_fam t).
  match goal with |- context [all_some (map ?g (l_names t))] =>
    assert (Hg : all_some (map g (l_names t)) = Some (map slot_of_col cols)) end.
  { erewrite all_some_map_option_map with (mk := slot_of_col)
      (h := fun ni : string * nat => let '(_, i) := ni in
                                     match nth_error (l_cols t) i with Some c => slice_col c ps | None => None end).
    - rewrite Ecols. reflexivity.
    - intros [n i] Hni. rewrite nth_error_map.
      destruct (nth_error (l_cols t) i) as [c|] eqn:Ec; cbn [option_map]; [|reflexivity].
      assert (Hci : col_inv (ia (l_rowid t)) c) by (rewrite Forall_forall in Hcols; apply Hcols; eapply nth_error_In; eassumption).
      destruct Hci as [Hi _ _]. unfold slice_col. rewrite Hi, Er. cbn [slot_of_col scells skind].
      destruct (take_pos ps (lc_cells c)); reflexivity. }
  rewrite Hg. reflexivity.
Qed.

(* ---------- row deletion ---------- *)
Lemma mem_nat_In x l : mem_nat x l = true <-> In x l.
Proof.
  induction l as [|y l IH]; cbn [mem_nat]; [split; [discriminate|intros []]|].
  rewrite orb_true_iff, IH, Nat.eqb_eq. simpl. split; intros [H|H]; auto.
Qed.

Lemma keep_ids_positions ids dead dead_ids : forall s,
  NoDup ids -> take_pos dead ids = Some dead_ids ->
  map (@Some N) (filter (fun r => negb (mem_N r dead_ids)) (skipn s ids))
  = map (nth_error ids) (filter (fun p => negb (mem_nat p dead)) (seq s (List.length ids - s))).
Proof.
  intros s Hnd Hd.
  assert (Hmem : forall p r, nth_error ids p = Some r -> mem_N r dead_ids = mem_nat p dead).
  { intros p r Hp. destruct (mem_nat p dead) eqn:E.
    - apply mem_nat_In in E. apply mem_N_In. apply In_nth_error in E. destruct E as [i Hi].
      rewrite <- (take_pos_nth dead ids dead_ids i p Hd Hi) in Hp. eapply nth_error_In; eassumption.
    - apply mem_N_false. intros Hin. apply In_nth_error in Hin. destruct Hin as [i Hi].
      apply take_pos_spec in Hd.
      assert (E2 : nth_error (map Some dead_ids) i = Some (Some r)) by (rewrite nth_error_map, Hi; reflexivity).
      rewrite <- Hd, nth_error_map in E2. destruct (nth_error dead i) as [q|] eqn:Eq; [|discriminate].
      cbn [option_map] in E2. injection E2 as E2.
      assert (q = p) by (rewrite NoDup_nth_error in Hnd; apply Hnd; [apply nth_error_Some; congruence|congruence]).
      subst q. assert (In p dead) by (eapply nth_error_In; eassumption).
      apply mem_nat_In in H. congruence. }
  remember (List.length ids - s) as k eqn:Ek. revert s Ek.
  induction k as [|k IH]; intros s Ek.
  - cbn [seq filter map]. rewrite skipn_all2 by lia. reflexivity.
  - assert (Hs : s < List.length ids) by lia.
    destruct (nth_error ids s) as [r|] eqn:Er; [|apply nth_error_None in Er; lia].
    assert (Esk : skipn s ids = r :: skipn (S s) ids).
    { clear -Er. revert s Er. induction ids as [|a ids IHi]; intros [|s] Er; cbn [nth_error skipn] in *; try discriminate.
      - injection Er as ->. reflexivity.
      - apply IHi. assumption. }
    rewrite Esk. cbn [seq filter]. rewrite (Hmem s r Er).
    destruct (mem_nat s dead); cbn [negb map]; [|rewrite Er; f_equal]; apply IH; lia.
Qed.

Theorem delrows_refines t dead r :
  inv_b t = true -> delrows t dead = Some r ->
  exists t', take (filter (fun p => negb (mem_nat p dead)) (seq 0 (nrows_l t))) (abs t) = Some t'
             /\ abs r = {| fam := fam (abs t); ids := ids t'; names := names t'; slots := slots t';
                           tsorted := tsorted (abs t); dflt := dflt (abs t) |}.
Proof.
  intros Hinv H. destruct (inv_b_facts t Hinv) as (Hnd & _).
  unfold delrows in H. destruct (take_pos dead (ia (l_rowid t))) as [dead_ids|] eqn:Ed; [|discriminate].
  destruct (selectrowid t _) as [s|] eqn:Es; [|discriminate]. injection H as <-.
  set (keep := filter (fun r => negb (mem_N r dead_ids)) (ia (l_rowid t))) in *.
  assert (Hk : take_pos (filter (fun p => negb (mem_nat p dead)) (seq 0 (nrows_l t))) (ia (l_rowid t)) = Some keep).
  { apply take_pos_spec. pose proof (keep_ids_positions (ia (l_rowid t)) dead dead_ids 0 Hnd Ed) as Hp.
    cbn [skipn] in Hp. rewrite Nat.sub_0_r in Hp. unfold nrows_l. symmetry. exact Hp. }
  exists (abs s). split; [eapply by_position_refines; eassumption|]. reflexivity.
Qed.

(* ---------- resizing: the generated id kernels produce the fresh ids of the reference model ---------- *)
Lemma fresh_map_iota s : (0 <= s)%Z -> forall k a,
  map (fun i => Z.to_N (k_fresh_id (Z.of_nat i) s)) (seq a k) = iotaN (Z.to_N (Z.of_nat a + s)) k.
Proof.
  intros Hs. induction k as [|k IH]; intros a; [reflexivity|]. cbn [seq map iotaN]. unfold k_fresh_id at 1.
  f_equal. rewrite IH. f_equal. lia.
Qed.

Lemma idx_max_spec i : max_ok i = true -> ia i <> [] -> idx_max i = Z.of_N (maxN (ia i)).
Proof.
  unfold max_ok, idx_max. destruct (imax i) as [m|]; [|reflexivity].
  destruct (ia i) as [|x l] eqn:E; [congruence|]. intros H _. apply Z.eqb_eq in H. exact H.
Qed.

Lemma fresh_ids_spec t value :
  max_ok (l_rowid t) = true ->
  fresh_ids t value = iotaN (match ia (l_rowid t) with [] => 0%N | _ => N.succ (maxN (ia (l_rowid t))) end)
                            (Z.to_nat value - nrows_l t).
Proof.
  intros Hm. unfold fresh_ids, k_fresh_count, k_startid, nrows_l.
  set (ids := ia (l_rowid t)) in *.
  replace (Z.to_nat (value - Z.of_nat (List.length ids))) with (Z.to_nat value - List.length ids) by lia.
  destruct ids as [|x l] eqn:E.
  - cbn [List.length]. change (Z.of_nat 0 =? 0)%Z with true. cbn iota.
    rewrite (fresh_map_iota 0 ltac:(lia)). reflexivity.
  - assert (El : (Z.of_nat (List.length (x :: l)) =? 0)%Z = false) by (apply Z.eqb_neq; cbn [List.length]; lia).
    rewrite El. rewrite (idx_max_spec (l_rowid t) Hm) by (fold ids; rewrite E; discriminate).
    fold ids. rewrite E. rewrite fresh_map_iota by lia. f_equal. lia.
Qed.

Theorem setlength_refines (w : world) ti t value r :
  inv_b t = true -> (0 <= value)%Z -> get w ti = Some (abs t) ->
  setlength t value = Some r -> step w (OSetLength ti value) = (put w ti (abs r), OkUnit).
Proof.
  intros Hinv Hv Hg H. destruct (inv_b_facts t Hinv) as (_ & _ & Hmax & _).
  cbn [step]. rewrite Hg. assert (E0 : (value <? 0)%Z = false) by (apply Z.ltb_ge; lia). rewrite E0.
  unfold setlength in H. unfold k_setlength_shrinks in H.
  change (nrows (abs t)) with (nrows_l t).
  destruct (value <? Z.of_nat (nrows_l t))%Z eqn:Es.
  - apply Z.ltb_lt in Es. assert (El : Nat.ltb (Z.to_nat value) (nrows_l t) = true) by (apply Nat.ltb_lt; lia).
    rewrite El. destruct (slice_table t (seq 0 (Z.to_nat value))) as [s|] eqn:Esl; [|discriminate].
    injection H as <-. rewrite (slice_refines t _ s Hinv Esl). reflexivity.
  - apply Z.ltb_ge in Es. assert (El : Nat.ltb (Z.to_nat value) (nrows_l t) = false) by (apply Nat.ltb_ge; lia).
    rewrite El. injection H as <-. f_equal. f_equal. unfold abs.
    cbn [l_fam l_rowid l_names l_cols l_sorted l_dflt fam ids names slots tsorted dflt idx_add idx_of_list ia].
    rewrite (fresh_ids_spec t value Hmax). f_equal.
    rewrite !map_map. apply map_ext. intros c. unfold addrowid. cbn [lc_kind lc_cells skind scells].
    rewrite iotaN_length. reflexivity.
Qed.

(* ---------- step level: whenever the L1 algorithm and the L0 operation both succeed they agree ---------- *)
Definition winv (p : list ltable) : Prop := Forall (fun t => inv_b t = true) p.

Lemma get_abs (w : world) p ti t : pool w = map abs p -> nth_error p ti = Some t -> get w ti = Some (abs t).
Proof. intros Hp H. unfold get. rewrite Hp, nth_error_map, H. reflexivity. Qed.
Lemma winv_nth p ti t : winv p -> nth_error p ti = Some t -> inv_b t = true.
Proof. intros Hw H. unfold winv in Hw. rewrite Forall_forall in Hw. apply Hw. eapply nth_error_In; eassumption. Qed.

Lemma slot_of_abs t n : slot_of (abs t) n = option_map slot_of_col (lcol_of t n).
Proof.
  unfold slot_of, lcol_of. change (names (abs t)) with (l_names t). destruct (lookup n (l_names t)) as [i|]; [|reflexivity].
  change (slots (abs t)) with (map slot_of_col (l_cols t)). apply nth_error_map.
Qed.
Lemma lcol_of_In t n c : lcol_of t n = Some c -> In c (l_cols t).
Proof. unfold lcol_of. destruct (lookup n (l_names t)); [|discriminate]. apply nth_error_In. Qed.

Theorem lstep_new_refines (w : world) p o r :
  pool w = map abs p -> winv p ->
  match o with OMerge _ _ _ => False | _ => True end ->
  lstep p o = LNew r -> snd (step w o) = OkNew -> fst (step w o) = push w (abs r).
Proof.
  intros Hp Hw Hno Hl Hs. destruct o; cbn [lstep] in Hl; try discriminate; try contradiction.
  all: try solve [repeat match type of Hl with context [match ?x with _ => _ end] => destruct x end; discriminate].
  all: cbn [step] in *.
  - (* OSelect *)
    destruct (nth_error p t) as [tb|] eqn:Et; [|discriminate].
    rewrite (get_abs w p t tb Hp Et) in *. rewrite slot_of_abs in *.
    destruct (lcol_of tb name) as [col|] eqn:Ec; [|discriminate]. cbn [option_map] in *.
    change (skind (slot_of_col col)) with (lc_kind col) in *. change (scells (slot_of_col col)) with (lc_cells col) in *.
    destruct (negb (ref_ok (lc_kind col) ref)); [discriminate|].
    destruct (selectrowid tb (compare_ids col c ref)) as [r'|] eqn:Es; [|discriminate]. injection Hl as <-.
    rewrite (select_refines tb col c ref r' (winv_nth _ _ _ Hw Et) (lcol_of_In _ _ _ Ec) Es). reflexivity.
  - (* OSlice *)
    destruct (nth_error p t) as [tb|] eqn:Et; [|discriminate].
    rewrite (get_abs w p t tb Hp Et) in *. change (nrows (abs tb)) with (nrows_l tb) in *.
    destruct (slice_table tb _) as [r'|] eqn:Es; [|discriminate]. injection Hl as <-.
    rewrite (slice_refines tb _ r' (winv_nth _ _ _ Hw Et) Es). reflexivity.
  - (* OGetRows *)
    destruct (nth_error p t) as [tb|] eqn:Et; [|discriminate].
    rewrite (get_abs w p t tb Hp Et) in *. change (nrows (abs tb)) with (nrows_l tb) in *.
    destruct l as [|z l]; [discriminate|].
    destruct (all_some (map (norm_index (nrows_l tb)) (z :: l))) as [ps|]; [|discriminate].
    destruct (nodup_nat ps); [|discriminate].
    destruct (slice_table tb ps) as [r'|] eqn:Es; [|discriminate]. injection Hl as <-.
    rewrite (slice_refines tb _ r' (winv_nth _ _ _ Hw Et) Es). reflexivity.
  - (* OSort *)
    destruct (nth_error p t) as [tb|] eqn:Et; [|discriminate].
    rewrite (get_abs w p t tb Hp Et) in *.
    destruct (take_pos perm (ia (l_rowid tb))) as [rid|] eqn:Er; [|discriminate].
    destruct (selectrowid tb (idx_of_list rid)) as [r'|] eqn:Es; [|discriminate]. injection Hl as <-.
    destruct (slot_of (abs tb) name); [|discriminate].
    match goal with |- context [if ?c then _ else _] => destruct c; [|discriminate] end.
    rewrite (by_position_refines tb perm rid r' (winv_nth _ _ _ Hw Et) Er Es). reflexivity.
  - (* OShuffle *)
    destruct (nth_error p t) as [tb|] eqn:Et; [|discriminate].
    rewrite (get_abs w p t tb Hp Et) in *.
    destruct (take_pos perm (ia (l_rowid tb))) as [rid|] eqn:Er; [|discriminate].
    destruct (selectrowid tb (idx_of_list rid)) as [r'|] eqn:Es; [|discriminate]. injection Hl as <-.
    destruct (is_perm_of_range perm (nrows (abs tb))); [|discriminate].
    rewrite (by_position_refines tb perm rid r' (winv_nth _ _ _ Hw Et) Er Es). reflexivity.
  - (* OSample *)
    destruct (nth_error p t) as [tb|] eqn:Et; [|discriminate].
    rewrite (get_abs w p t tb Hp Et) in *.
    destruct ((k <? 0)%Z || (Z.of_nat (nrows_l tb) <? k)%Z); [discriminate|].
    destruct (take_pos choice (ia (l_rowid tb))) as [rid|] eqn:Er; [|discriminate].
    destruct (selectrowid tb (idx_of_list rid)) as [r'|] eqn:Es; [|discriminate]. injection Hl as <-.
    repeat match goal with |- context [if ?c then _ else _] => destruct c; try discriminate end.
    rewrite (by_position_refines tb choice rid r' (winv_nth _ _ _ Hw Et) Er Es). reflexivity.
Qed.

Theorem lstep_upd_refines (w : world) p o i r :
  pool w = map abs p -> winv p ->
  match o with OSetCell _ _ _ _ | ORename _ _ _ _ | OSetColFromCol _ _ _ _ | OSetColFromSlice _ _ _ _ | OSetCol _ _ _
             | ODelCol _ _ | OSetSorted _ _ | OSetColKind _ _ _ => False | _ => True end ->
  lstep p o = LUpd i r -> snd (step w o) = OkUnit -> fst (step w o) = put w i (abs r).
Proof.
  intros Hp Hw Hno Hl Hs. destruct o; cbn [lstep] in Hl; try discriminate; try contradiction.
  all: try solve [repeat match type of Hl with context [match ?x with _ => _ end] => destruct x end; discriminate].
  - (* OSetLength *)
    destruct (nth_error p t) as [tb|] eqn:Et; [|discriminate].
    destruct (n <? 0)%Z eqn:En; [discriminate|]. apply Z.ltb_ge in En.
    destruct (setlength tb n) as [r'|] eqn:Es; [|discriminate]. injection Hl as <- <-.
    rewrite (setlength_refines w t tb n r' (winv_nth _ _ _ Hw Et) En (get_abs w p t tb Hp Et) Es). reflexivity.
  - (* ODelRows *)
    destruct (nth_error p t) as [tb|] eqn:Et; [|discriminate].
    cbn [step] in *. rewrite (get_abs w p t tb Hp Et) in *. change (nrows (abs tb)) with (nrows_l tb) in *.
    destruct (all_some (map (norm_index (nrows_l tb)) l)) as [dead|]; [|discriminate].
    destruct (delrows tb dead) as [r'|] eqn:Ed; [|discriminate]. injection Hl as <- <-.
    destruct (delrows_refines tb dead r' (winv_nth _ _ _ Hw Et) Ed) as [t' [Ht' Ha]].
    rewrite Ht'. cbn [fst]. f_equal. rewrite Ha. reflexivity.
Qed.

(* ---------- merging: both column algorithms fetch, for every result id, the left cell if the left
   operand holds the row and the right cell otherwise ---------- *)
Definition cell_by_id (ids : list N) (cells : list val) (r : N) : option val :=
  match pos_of r ids with Some p => nth_error cells p | None => None end.
Definition merged_cell (ida idb : list N) (ca cb : list val) (r : N) : option val :=
  match pos_of r ida with
  | Some p => nth_error ca p
  | None => cell_by_id idb cb r
  end.

Lemma combine_In_cell ids cells r v :
  NoDup ids -> List.length ids = List.length cells ->
  (In (r, v) (combine ids cells) <-> cell_by_id ids cells r = Some v).
Proof.
  intros Hnd Hl. unfold cell_by_id. split.
  - intros H. apply In_nth_error in H. destruct H as [p Hp].
    assert (Hr : nth_error ids p = Some r /\ nth_error cells p = Some v).
    { clear Hnd. revert cells p Hl Hp. induction ids as [|a ids IH]; intros [|c cells] p Hl Hp; try discriminate.
      - destruct p; discriminate.
      - destruct p as [|p]; cbn [combine nth_error] in *; [injection Hp as -> ->; split; reflexivity|].
        apply IH; [cbn [List.length] in Hl; lia|assumption]. }
    destruct Hr as [Hr Hv]. rewrite (pos_of_unique r ids p Hnd Hr). assumption.
  - destruct (pos_of r ids) as [p|] eqn:Ep; [|discriminate]. intros Hv. apply pos_of_nth in Ep.
    clear Hnd. revert cells p Hl Ep Hv. induction ids as [|a ids IH]; intros [|c cells] p Hl Ep Hv; try discriminate.
    + destruct p; discriminate.
    + destruct p as [|p]; cbn [combine nth_error] in *.
      * injection Ep as ->. injection Hv as ->. left. reflexivity.
      * right. eapply IH; [cbn [List.length] in Hl; lia|eassumption|assumption].
Qed.

Lemma map_fst_filter_combine (f : N -> bool) ids (cells : list val) :
  List.length ids = List.length cells ->
  map fst (filter (fun '(r, _) => f r) (combine ids cells)) = filter f ids.
Proof.
  revert cells; induction ids as [|a ids IH]; intros [|c cells] Hl; try discriminate; [reflexivity|].
  cbn [combine filter]. cbn [List.length] in Hl. destruct (f a); cbn [map fst]; [f_equal|]; apply IH; lia.
Qed.

Lemma NoDup_map_fst_In {B} (l : list (N * B)) r v v' : NoDup (map fst l) -> In (r, v) l -> In (r, v') l -> v = v'.
Proof.
  induction l as [|[a b] l IH]; intros Hnd H1 H2; [destruct H1|].
  cbn [map fst] in Hnd. inversion Hnd as [|? ? Hnotin Hnd']; subst.
  destruct H1 as [H1|H1], H2 as [H2|H2].
  - congruence.
  - injection H1 as -> ->. exfalso. apply Hnotin. apply in_map_iff. exists (r, v'). split; [reflexivity|assumption].
  - injection H2 as -> ->. exfalso. apply Hnotin. apply in_map_iff. exists (r, v). split; [reflexivity|assumption].
  - apply IH; assumption.
Qed.

Lemma assoc_cell (l : list (N * val)) r v :
  NoDup (map fst l) -> In (r, v) l -> cell_by_id (map fst l) (map snd l) r = Some v.
Proof.
  intros Hnd Hin. apply combine_In_cell; [assumption|rewrite !map_length; reflexivity|].
  assert (E : combine (map fst l) (map snd l) = l).
  { clear. induction l as [|[a b] l IH]; [reflexivity|]. cbn [map combine fst snd]. f_equal. assumption. }
  rewrite E. assumption.
Qed.

Lemma assoc_take (cat : list (N * val)) (f : N -> option val) :
  NoDup (map fst cat) ->
  forall rs ps cells,
    (forall r, In r rs -> exists v, In (r, v) cat /\ f r = Some v) ->
    all_some (map (fun r => pos_of r (map fst cat)) rs) = Some ps ->
    take_pos ps (map snd cat) = Some cells ->
    all_some (map f rs) = Some cells.
Proof.
  intros Hndc. induction rs as [|r rs IHr]; intros ps cells Hmem Eps Ec.
  - cbn [map all_some] in *. injection Eps as <-. unfold take_pos in Ec. cbn in Ec. injection Ec as <-. reflexivity.
  - cbn [map all_some] in Eps. destruct (pos_of r (map fst cat)) as [q|] eqn:Eq; [|discriminate].
    destruct (all_some (map (fun r0 => pos_of r0 (map fst cat)) rs)) as [ps'|] eqn:Eps'; [|discriminate].
    injection Eps as <-. unfold take_pos in Ec. cbn [map all_some] in Ec.
    destruct (nth_error (map snd cat) q) as [v|] eqn:Ev; [|discriminate].
    destruct (all_some (map (fun p => nth_error (map snd cat) p) ps')) as [cells'|] eqn:Ec'; [|discriminate].
    injection Ec as <-. cbn [map all_some].
    destruct (Hmem r (or_introl eq_refl)) as [v0 [Hv0 Hm0]].
    pose proof (assoc_cell cat r v0 Hndc Hv0) as Ha. unfold cell_by_id in Ha. rewrite Eq, Ev in Ha. injection Ha as ->.
    rewrite Hm0. rewrite (IHr ps' cells' (fun x Hx => Hmem x (or_intror Hx)) eq_refl Ec'). reflexivity.
Qed.

(* one merged column *)
Lemma merge_col_cells a b rid ida idb c' :
  NoDup ida -> NoDup idb -> col_inv ida a -> col_inv idb b -> lc_kind a = lc_kind b ->
  (forall r, In r (ia rid) -> In r ida \/ In r idb) ->
  merge_col a b rid = Some c' ->
  lc_kind c' = lc_kind a /\
  all_some (map (merged_cell ida idb (lc_cells a) (lc_cells b)) (ia rid)) = Some (lc_cells c').
Proof.
  intros Hnda Hndb [Hia Hla Hma] [Hib Hlb Hmb] Hk Hcov H. subst ida idb. unfold merge_col in H.
  destruct (is_mixed a) eqn:Emix.
  - (* dict lookups *)
    match type of H with match all_some (map ?g _) with _ => _ end = _ =>
      assert (Eg : forall r, g r = merged_cell (ia (lc_rowid a)) (ia (lc_rowid b)) (lc_cells a) (lc_cells b) r) end.
    { intros r. unfold merged_cell, cell_by_id.
      rewrite !idx_index_pos by assumption.
      destruct (mem_N r (ia (lc_rowid a))) eqn:Em.
      - apply mem_N_In in Em. destruct (pos_of_In r _ Em) as [p ->]. reflexivity.
      - apply mem_N_false in Em. rewrite (pos_of_notin r _ Em). reflexivity. }
    rewrite (map_ext _ _ Eg) in H. destruct (all_some _) as [cells|]; [|discriminate].
    injection H as <-. split; reflexivity.
  - (* masks + concatenate + argsort/searchsorted *)
    set (keep_a := filter (fun '(r, _) => mem_N r (ia rid)) (combine (ia (lc_rowid a)) (lc_cells a))) in *.
    set (keep_b := filter (fun '(r, _) => negb (mem_N r (ia (lc_rowid a))) && mem_N r (ia rid))
                          (combine (ia (lc_rowid b)) (lc_cells b))) in *.
    set (cat := keep_a ++ keep_b) in *.
    set (ida := ia (lc_rowid a)) in *. set (idb := ia (lc_rowid b)) in *.
    assert (Hfa : map fst keep_a = filter (fun r => mem_N r (ia rid)) ida)
      by (apply map_fst_filter_combine; congruence).
    assert (Hfb : map fst keep_b = filter (fun r => negb (mem_N r ida) && mem_N r (ia rid)) idb)
      by (apply map_fst_filter_combine; congruence).
    assert (Hndc : NoDup (map fst cat)).
    { unfold cat. rewrite map_app, Hfa, Hfb. apply NoDup_app_disj; [apply NoDup_filter; assumption .. |].
      intros x. rewrite !filter_In, andb_true_iff, negb_true_iff, mem_N_false, mem_N_In. tauto. }
    assert (Hmem : forall r, In r (ia rid) ->
               exists v, In (r, v) cat /\ merged_cell ida idb (lc_cells a) (lc_cells b) r = Some v).
    { intros r Hr. unfold merged_cell. destruct (pos_of r ida) as [p|] eqn:Ep.
      - assert (Hp := pos_of_nth _ _ _ Ep).
        destruct (nth_error (lc_cells a) p) as [v|] eqn:Ev; [|apply nth_error_None in Ev; apply nth_error_Some_lt in Hp || idtac;
          assert (p < List.length ida) by (apply nth_error_Some; congruence); lia].
        exists v. split; [|reflexivity]. unfold cat, keep_a. apply in_or_app. left. apply filter_In. split.
        + apply (combine_In_cell ida (lc_cells a) r v Hnda ltac:(congruence)). unfold cell_by_id. rewrite Ep. assumption.
        + apply mem_N_In. assumption.
      - assert (Hna : ~ In r ida) by (intros Hin; destruct (pos_of_In r ida Hin) as [q Hq]; congruence).
        destruct (Hcov r Hr) as [Hin|Hin]; [contradiction|].
        destruct (pos_of_In r idb Hin) as [q Hq]. unfold cell_by_id. rewrite Hq.
        assert (Hqn := pos_of_nth _ _ _ Hq).
        destruct (nth_error (lc_cells b) q) as [v|] eqn:Ev;
          [|apply nth_error_None in Ev; assert (q < List.length idb) by (apply nth_error_Some; congruence); lia].
        exists v. split; [|reflexivity]. unfold cat, keep_b. apply in_or_app. right. apply filter_In. split.
        + apply (combine_In_cell idb (lc_cells b) r v Hndb ltac:(congruence)). unfold cell_by_id. rewrite Hq. assumption.
        + apply andb_true_iff. split; [apply negb_true_iff, mem_N_false; assumption|apply mem_N_In; assumption]. }
    (* the concatenated column satisfies the column invariant w.r.t. its own ids *)
    set (cc := {| lc_kind := lc_kind a; lc_rowid := idx_of_list (map fst cat); lc_cells := map snd cat;
                  lc_owner := true; lc_tc := true |}) in *.
    assert (Hcc : col_inv (map fst cat) cc) by (constructor; [reflexivity|cbn [cc lc_cells]; rewrite !map_length; reflexivity|reflexivity]).
    assert (Hin : forall k, In k (ia rid) -> In k (map fst cat)).
    { intros k Hk0. destruct (Hmem k Hk0) as [v [Hv _]]. apply in_map_iff. exists (k, v). split; [reflexivity|assumption]. }
    unfold getrowidkey in H. rewrite (positions_by_id_spec cc (map fst cat) (ia rid) Hndc Hcc Hin) in H.
    destruct (all_some (map (fun r => pos_of r (map fst cat)) (ia rid))) as [ps|] eqn:Eps; [|discriminate].
    change (lc_cells cc) with (map snd cat) in H. change (ia (lc_rowid cc)) with (map fst cat) in H.
    destruct (take_pos ps (map snd cat)) as [cells|] eqn:Ec; [|discriminate].
    destruct (take_pos ps (map fst cat)) as [rid'|]; [|discriminate]. injection H as <-.
    split; [reflexivity|]. cbn [lc_cells].
    exact (assoc_take cat _ Hndc (ia rid) ps cells Hmem Eps Ec).
Qed.

(* ---------- the merged table ---------- *)
Lemma nodup_str_lookup (l : list (string * nat)) n i :
  nodup_str (map fst l) = true -> In (n, i) l -> lookup n l = Some i.
Proof.
  induction l as [|[m j] l IH]; intros Hnd Hin; [destruct Hin|].
  cbn [map fst nodup_str] in Hnd. apply andb_true_iff in Hnd. destruct Hnd as [Hm Hnd].
  cbn [lookup]. destruct Hin as [H|H].
  - injection H as -> ->. rewrite String.eqb_refl. reflexivity.
  - destruct (String.eqb n m) eqn:E; [|apply IH; assumption].
    apply String.eqb_eq in E. subst m. apply negb_true_iff in Hm.
    assert (Hex : existsb (String.eqb n) (map fst l) = true).
    { apply existsb_exists. exists n. split; [apply in_map_iff; exists (n, i); split; [reflexivity|assumption]|apply String.eqb_refl]. }
    congruence.
Qed.

Lemma inv_b_names t : inv_b t = true -> nodup_str (map fst (l_names t)) = true.
Proof. unfold inv_b. rewrite !andb_true_iff. tauto. Qed.

Lemma merge_ids_cover o a b r : In r (merge_ids o a b) -> In r a \/ In r b.
Proof. rewrite merge_ids_In. destruct o; cbn [in_op]; tauto. Qed.

Theorem merge_refines (w : world) o ta tb a b r :
  inv_b a = true -> inv_b b = true ->
  get w ta = Some (abs a) -> get w tb = Some (abs b) ->
  merge_tables o a b = Some r ->
  snd (step w (OMerge o ta tb)) = OkNew -> fst (step w (OMerge o ta tb)) = push w (abs r).
Proof.
  intros Ha Hb Hga Hgb Hm Hs.
  destruct (inv_b_facts a Ha) as (Hnda & _ & _ & Hca & Hna).
  destruct (inv_b_facts b Hb) as (Hndb & _ & _ & Hcb & _).
  cbn [step] in *. rewrite Hga, Hgb in *.
  destruct (negb (Nat.eqb (fam (abs a)) (fam (abs b)))); [discriminate|].
  destruct (negb (forallb _ (view (abs a)))) eqn:Ekind; [discriminate|].
  destruct (negb (forallb _ (names (abs a)))) eqn:Ehas; [discriminate|].
  apply negb_false_iff in Ehas, Ekind. rewrite forallb_forall in Ehas, Ekind.
  unfold merge_tables in Hm.
  set (rid := idx_sorted (idx_of_list _)) in Hm.
  assert (Erid : ia rid = merge_ids o (Table.ids (abs a)) (Table.ids (abs b))) by (destruct o; reflexivity).
  destruct (all_some (map _ (l_names a))) as [cols|] eqn:Ecols; [|discriminate]. injection Hm as <-.
  (* the spec's column list, name by name *)
  match goal with |- context [all_some (map ?G (view (abs a)))] => set (F := G) in * end.
  assert (Hcols : map F (view (abs a)) = map (fun c => Some (slot_of_col c)) cols).
  { unfold view. change (names (abs a)) with (l_names a). rewrite map_map.
    apply all_some_spec in Ecols. 
    assert (Hlen : List.length cols = List.length (l_names a)).
    { apply (f_equal (@List.length _)) in Ecols. rewrite !map_length in Ecols. congruence. }
    revert cols Ecols Hlen. 
    assert (Hsub : forall ni, In ni (l_names a) -> In ni (l_names a)) by auto.
    revert Hsub. generalize (l_names a) at 1 3 4 5 as nm.
    induction nm as [|[n i] nm IH]; intros Hsub cols Ecols Hlen; destruct cols as [|c' cols]; try discriminate; [reflexivity|].
    cbn [map] in Ecols. injection Ecols as Ec Erest. cbn [map]. f_equal.
    - (* one column *)
      assert (Hni : In (n, i) (l_names a)) by (apply Hsub; left; reflexivity).
      destruct (nth_error (l_cols a) i) as [ca|] eqn:Eca; [|discriminate].
      destruct (lcol_of b n) as [cb|] eqn:Ecb; [|discriminate].
      change (slots (abs a)) with (map slot_of_col (l_cols a)). rewrite nth_error_map, Eca. cbn [option_map].
      assert (Hcia : col_inv (ia (l_rowid a)) ca) by (rewrite Forall_forall in Hca; apply Hca; eapply nth_error_In; eassumption).
      assert (Hcib : col_inv (ia (l_rowid b)) cb) by (rewrite Forall_forall in Hcb; apply Hcb; eapply lcol_of_In; eassumption).
      assert (Hk : lc_kind ca = lc_kind cb).
      { specialize (Ekind (n, lc_kind ca, lc_cells ca)).
        assert (Hv : In (n, lc_kind ca, lc_cells ca) (view (abs a))).
        { unfold view. apply in_map_iff. exists (n, i). split; [|exact Hni].
          change (slots (abs a)) with (map slot_of_col (l_cols a)). rewrite nth_error_map, Eca. reflexivity. }
        specialize (Ekind Hv). cbv beta iota in Ekind. rewrite slot_of_abs, Ecb in Ekind. cbn [option_map slot_of_col skind] in Ekind.
        destruct (lc_kind ca), (lc_kind cb); try discriminate; reflexivity. }
      destruct (merge_col_cells ca cb rid (ia (l_rowid a)) (ia (l_rowid b)) c' Hnda Hndb Hcia Hcib Hk) as [Hkc Hcells].
      { intros x Hx. rewrite Erid in Hx. apply merge_ids_cover in Hx. exact Hx. }
      { exact Ec. }
      unfold F. cbn [slot_of_col skind scells].
      assert (Ecell : forall x, (match pos_of x (Table.ids (abs a)) with
                                 | Some p => match slot_of (abs a) n with Some s => nth_error (scells s) p | None => None end
                                 | None => match pos_of x (Table.ids (abs b)) with
                                           | Some p => match slot_of (abs b) n with Some s => nth_error (scells s) p | None => None end
                                           | None => None end
                                 end) = merged_cell (ia (l_rowid a)) (ia (l_rowid b)) (lc_cells ca) (lc_cells cb) x).
      { intros x. unfold merged_cell, cell_by_id. rewrite !slot_of_abs, Ecb.
        unfold lcol_of. rewrite (nodup_str_lookup (l_names a) n i (inv_b_names a Ha) Hni), Eca. reflexivity. }
      rewrite <- Erid. rewrite (map_ext _ _ Ecell), Hcells. unfold slot_of_col. rewrite Hkc. reflexivity.
    - apply IH; [intros ni Hin; apply Hsub; right; assumption|assumption|cbn [List.length] in Hlen; lia]. }
  rewrite Hcols.
  assert (Eall : all_some (map (fun c => Some (slot_of_col c)) cols) = Some (map slot_of_col cols)).
  { clear. induction cols as [|c cols IH]; [reflexivity|]. cbn [map all_some]. rewrite IH. reflexivity. }
  rewrite Eall. cbn [fst]. destruct o; reflexivity.
Qed.

(* ---------- col[selection] = ...: the addressed positions, by either lookup algorithm, are the positions of
   the selection's row ids in the table (this is what makes selection-addressed writes correct for ANY row order) ---------- *)
Theorem sel_positions_refines t c key :
  inv_b t = true -> In c (l_cols t) ->
  (forall k, In k (ia (l_rowid key)) -> In k (ia (l_rowid t))) ->
  sel_positions c key = all_some (map (fun r => pos_of r (ia (l_rowid t))) (ia (l_rowid key))).
Proof.
  intros Hinv Hc Hin. destruct (inv_b_facts t Hinv) as (Hnd & _ & _ & Hcols & _).
  rewrite Forall_forall in Hcols. unfold sel_positions.
  apply positions_by_id_spec; [assumption|apply Hcols; assumption|assumption].
Qed.

(* ---------- rename: the regenerated guard chain decides exactly as the reference model ---------- *)
Lemma set_nth_same_id {A} i (x : A) l : nth_error l i = Some x -> set_nth i x l = l.
Proof.
  revert i; induction l as [|a l IH]; intros [|i] H; cbn [set_nth nth_error] in *; try discriminate.
  - injection H as ->. reflexivity.
  - f_equal. apply IH. assumption.
Qed.

Lemma has_name_abs t n : has_name (abs t) n = match lookup n (l_names t) with Some _ => true | None => false end.
Proof. reflexivity. Qed.

Theorem rename_refines (w : world) p ti old new ident :
  pool w = map abs p ->
  match lstep p (ORename ti old new ident) with
  | LUpd i r => step w (ORename ti old new ident) = (put w i (abs r), OkUnit)
  | LErr => snd (step w (ORename ti old new ident)) = Err ValueError /\ fst (step w (ORename ti old new ident)) = w
  | LSkip => nth_error p ti = None
  | _ => False
  end.
Proof.
  intros Hp. cbn [lstep step]. destruct (nth_error p ti) as [t|] eqn:Et; [|reflexivity].
  rewrite (get_abs w p ti t Hp Et). rewrite !has_name_abs. unfold k_rename_decision.
  destruct (lookup old (l_names t)) as [io|]; cbn [negb]; [|split; reflexivity].
  destruct (String.eqb old new) eqn:Eeq.
  - cbn. f_equal. unfold put. destruct w as [pl nf]. cbn [pool nextfam] in *. f_equal.
    rewrite set_nth_same_id; [reflexivity|]. rewrite Hp, nth_error_map, Et. reflexivity.
  - destruct (lookup new (l_names t)) as [inw|]; [split; reflexivity|].
    destruct ident; cbn [negb orb]; [|split; reflexivity].
    cbn. reflexivity.
Qed.

(* ---------- BaseColumn._tosequence on the generated bounds is the L0 value coercion ---------- *)
Lemma rhs_cells_k_spec k n r : rhs_cells_k k n r = rhs_cells k n r.
Proof.
  destruct r as [v|vs]; [reflexivity|]. unfold rhs_cells_k, rhs_cells, k_toseq_take, k_toseq_badlen.
  replace (Z.to_nat (Z.of_nat n + 1)) with (S n) by lia.
  destruct (coerce_all k (firstn (S n) vs)) as [xs|e]; cbn [bind]; [|reflexivity].
  destruct (Nat.eqb (List.length xs) n) eqn:E.
  - apply Nat.eqb_eq in E. rewrite E, Z.eqb_refl. reflexivity.
  - apply Nat.eqb_neq in E. destruct (Z.eqb_spec (Z.of_nat (List.length xs)) (Z.of_nat n)) as [H|H]; [lia|reflexivity].
Qed.

(* ---------- col[[i, j, ...]] = value: sequential range-checked writes (generated test) ---------- *)
Lemma seqkey_oob_spec i n : k_seqkey_oob i (Z.of_nat n) = ((i <? 0)%Z || (Z.of_nat n <=? i)%Z).
Proof. unfold k_seqkey_oob. rewrite Z.geb_leb. reflexivity. Qed.

Lemma getrow_oob_spec i n : k_getrow_oob i (Z.of_nat n) = match norm_index n i with Some _ => false | None => true end.
Proof.
  unfold k_getrow_oob, norm_index. rewrite Z.geb_leb.
  destruct (0 <=? i)%Z eqn:E1, (i <? Z.of_nat n)%Z eqn:E2, (i <? 0)%Z eqn:E3, (- Z.of_nat n <=? i)%Z eqn:E4,
           (Z.of_nat n <=? i)%Z eqn:E5, (i <? - Z.of_nat n)%Z eqn:E6; cbn; try reflexivity; lia.
Qed.

Lemma write_list_k_spec n l : forall xs cells, write_list_k (Z.of_nat n) l xs cells = write_list n l xs cells.
Proof.
  induction l as [|i l IH]; intros [|x xs] cells; cbn [write_list_k write_list]; try reflexivity.
  rewrite seqkey_oob_spec. destruct ((i <? 0)%Z || (Z.of_nat n <=? i)%Z); [reflexivity|apply IH].
Qed.

Theorem setcell_list_refines (w : world) p ti name l r :
  pool w = map abs p -> winv p ->
  match lstep p (OSetCell ti name (AList l) r) with
  | LUpd i t' => step w (OSetCell ti name (AList l) r) = (put w i (abs t'), OkUnit)
  | LErrUpd i t' => step w (OSetCell ti name (AList l) r) = (put w i (abs t'), Err PlainException)
  | LErr => exists e, snd (step w (OSetCell ti name (AList l) r)) = Err e
  | LSkip => True
  | LNew _ => False
  end.
Proof.
  intros Hp Hw. cbn [lstep]. destruct (nth_error p ti) as [t|] eqn:Et; [|exact I].
  pose proof (winv_nth _ _ _ Hw Et) as Hinv. destruct (inv_b_facts t Hinv) as (_ & _ & _ & Hcols & _).
  cbn [step]. rewrite (get_abs w p ti t Hp Et). unfold set_cells. change (names (abs t)) with (l_names t).
  destruct (lookup name (l_names t)) as [ci|] eqn:El; [|eexists; reflexivity].
  change (slots (abs t)) with (map slot_of_col (l_cols t)). rewrite nth_error_map.
  destruct (nth_error (l_cols t) ci) as [c|] eqn:Ec; cbn [option_map]; [|exact I].
  cbn [address]. change (skind (slot_of_col c)) with (lc_kind c). change (scells (slot_of_col c)) with (lc_cells c).
  rewrite rhs_cells_k_spec.
  destruct (rhs_cells (lc_kind c) (List.length l) r) as [xs|e] eqn:Er; [|eexists; reflexivity].
  assert (Hlen : List.length (lc_cells c) = nrows (abs t)).
  { rewrite Forall_forall in Hcols. destruct (Hcols c (nth_error_In _ _ Ec)) as [_ Hl _]. exact Hl. }
  rewrite Hlen, write_list_k_spec.
  destruct (write_list (nrows (abs t)) l xs (lc_cells c)) as [cells ok] eqn:Ewl.
  assert (Eabs : forall ok' : outcome, (put w ti (set_slot (abs t) ci {| skind := lc_kind c; scells := cells |}), ok')
                 = (put w ti (abs {| l_fam := l_fam t; l_rowid := l_rowid t; l_names := l_names t;
                                    l_cols := set_nth ci {| lc_kind := lc_kind c; lc_rowid := lc_rowid c; lc_cells := cells;
                                                            lc_owner := lc_owner c; lc_tc := lc_tc c |} (l_cols t);
                                    l_sorted := l_sorted t; l_dflt := l_dflt t |}), ok')).
  { intros ok'. f_equal. f_equal. unfold abs, set_slot. cbn [fam ids names slots tsorted dflt l_fam l_rowid l_names l_cols l_sorted l_dflt].
    f_equal. clear. revert ci. generalize (l_cols t) as cols. induction cols as [|a cols IH]; intros [|ci]; cbn [set_nth map]; try reflexivity.
    f_equal. apply IH. }
  destruct ok; apply Eabs.
Qed.

(* ---------- the boolean invariant evaluated on dumped object graphs implies the L0 invariant of the table it denotes,
   so every L0 theorem that assumes twf applies to abs of any dump that passed inv_b ---------- *)
Theorem inv_b_twf t : inv_b t = true -> twf (abs t).
Proof.
  intros H. destruct (inv_b_facts t H) as (Hnd & _ & _ & Hcols & Hnames).
  unfold twf, nrows. change (Table.ids (abs t)) with (ia (l_rowid t)).
  change (slots (abs t)) with (map slot_of_col (l_cols t)). change (names (abs t)) with (l_names t).
  split; [assumption|]. split.
  - apply Forall_forall. intros s Hs. apply in_map_iff in Hs. destruct Hs as [c [<- Hc]].
    rewrite Forall_forall in Hcols. destruct (Hcols c Hc) as [_ Hl _]. exact Hl.
  - rewrite map_length. assumption.
Qed.

Corollary winv_wwf (w : world) p : pool w = map abs p -> winv p -> wwf w.
Proof.
  intros Hp Hw. unfold wwf. rewrite Hp. apply Forall_forall. intros t Ht. apply in_map_iff in Ht.
  destruct Ht as [lt [<- Hin]]. apply inv_b_twf. unfold winv in Hw. rewrite Forall_forall in Hw. apply Hw. assumption.
Qed.
