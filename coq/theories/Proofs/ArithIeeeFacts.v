(* C13, IEEE-754 instance of the scalar arithmetic (Spec/ArithIeee.v on Base/Float64Py.v).
   PROVED for every implementation F of the four basic operations (so nothing here depends on Coq's primitive
   floats): the instance satisfies the two hypotheses of the refinement theorems (x * y = y * x, NaN propagates),
   hence the L1 model of the operator methods refines the element-wise specification under it; int o int is the
   exact instance; an int meeting a float is converted first.
   TESTED by vm_compute on the grid of Spec/ArithIeee.v (not proved for all inputs): wherever exact_op yields a
   binary64 value the IEEE instance yields the same value, for the SpecFloat instance (closed) and for the
   primitive-float instance; the two instances agree bit for bit. *)
From Coq Require Import ZArith List Bool String Lia.
From DM Require Import Base.PyVal Base.Float64Py Spec.Nf Spec.Arith Spec.ArithSeries Spec.ArithIeee
  Gen.KCheck Gen.KArith Model.Store Model.Arith Model.ArithSeries Proofs.ArithFacts Proofs.ArithSeriesFacts.
Import ListNotations.
Open Scope Z_scope.

Lemma fl_same_eq a b : fl_same a b = true -> a = b.
Proof.
  destruct a, b; cbn; try discriminate; try reflexivity.
  - intros H. apply Bool.eqb_prop in H. now subst.
  - intros H. apply Bool.eqb_prop in H. now subst.
  - intros H. apply andb_prop in H as [H He]. apply andb_prop in H as [Hs Hm].
    apply Bool.eqb_prop in Hs. apply Pos.eqb_eq in Hm. apply Z.eqb_eq in He. now subst.
Qed.

Section AnyF.
  Variable F : fops.

  Lemma fl_mul_comm a b : fl_mul F a b = fl_mul F b a.
  Proof.
    unfold fl_mul.
    destruct (fl_same (f_mul F a b) (f_mul F b a)) eqn:E1, (fl_same (f_mul F b a) (f_mul F a b)) eqn:E2; cbn; try reflexivity.
    apply fl_same_eq. exact E1.
  Qed.

  Lemma fl_op_nan o a b : fl_is_nan a || fl_is_nan b = true -> fl_op F o a b = FNan.
  Proof. intros H. unfold fl_op. rewrite H. reflexivity. Qed.

  Lemma fl_op_mul_comm a b : fl_op F FMul a b = fl_op F FMul b a.
  Proof. unfold fl_op. rewrite (orb_comm (fl_is_nan a)). rewrite fl_mul_comm. reflexivity. Qed.

  Lemma ieee_op_mul_comm a b : ieee_op_gen F OMul a b = ieee_op_gen F OMul b a.
  Proof.
    unfold ieee_op_gen. cbn [fop_of].
    destruct a as [x|f], b as [y|g]; try (rewrite fl_op_mul_comm; reflexivity).
    apply exact_op_mul_comm.
  Qed.

  Lemma ieee_op_nan op a b :
    pow_unit op a b = false -> num_is_nan a || num_is_nan b = true -> num_is_nan (ieee_op_gen F op a b) = true.
  Proof.
    intros Hp Hn. unfold ieee_op_gen.
    destruct (fop_of op) as [o|] eqn:Eo.
    - destruct a as [x|f], b as [y|g]; cbn in Hn; try discriminate; cbn [num_is_nan num_to_fl].
      + destruct g; try discriminate. rewrite fl_op_nan; [reflexivity | apply orb_true_r].
      + destruct f; try discriminate. rewrite fl_op_nan; reflexivity.
      + rewrite fl_op_nan; [reflexivity|]. destruct f, g; try discriminate; reflexivity.
    - apply exact_op_nan; assumption.
  Qed.

  (* int o int is exact big-integer arithmetic (every operator but /) *)
  Lemma ieee_op_int_int op x y : op <> OTruediv -> ieee_op_gen F op (NInt x) (NInt y) = exact_op op (NInt x) (NInt y).
  Proof. intros H. unfold ieee_op_gen. destruct op; cbn [fop_of]; try reflexivity. now elim H. Qed.

  (* int / int (non-zero divisor): the exact quotient rounded once *)
  Lemma ieee_op_int_truediv x y : y <> 0 -> ieee_op_gen F OTruediv (NInt x) (NInt y) = NFlt (fl_div_ZZ x y).
  Proof. intros H. unfold ieee_op_gen. cbn [fop_of]. apply Z.eqb_neq in H. rewrite H. reflexivity. Qed.

  (* a float operand: both sides as binary64 values (the int converted by float(int)), then the float operation *)
  Lemma ieee_op_float o op a b :
    fop_of op = Some o -> num_is_int a && num_is_int b = false ->
    ieee_op_gen F op a b = NFlt (fl_op F o (num_to_fl a) (num_to_fl b)).
  Proof.
    intros Ho Hi. unfold ieee_op_gen. rewrite Ho. destruct a, b; try reflexivity. discriminate.
  Qed.

  Theorem operate_refines_ieee fstr d c o r :
    operate (ieee_op_gen F) fstr d c o = Ok r ->
    exists xs, operand_cells (ckind c) o (List.length (ccells c)) = Ok xs /\
               r = Col (ckind c) (cids c) (spec_cells (ieee_op_gen F) fstr (ckind c) (dunder_op d) (dunder_refl d) (ccells c) xs).
  Proof. apply operate_refines. exact ieee_op_mul_comm. Qed.

  Theorem series_refines_ieee d c o :
    series_operate (ieee_op_gen F) d c o = spec_series (ieee_op_gen F) (dunder_op d) (dunder_refl d) c o.
  Proof. apply series_refines. exact ieee_op_mul_comm. Qed.
End AnyF.

(* C fmod is exact: for finite x and finite non-zero y the result is x - trunc(x / y) * y on the common grid 2^e *)
Lemma fl_fmod_exact sx mx ex sy my ey :
  let e := Z.min ex ey in
  let X := Z.pos mx * 2 ^ (ex - e) in let Y := Z.pos my * 2 ^ (ey - e) in
  fl_fmod (FFin sx mx ex) (FFin sy my ey) = mk_fin sx (X - Z.quot X Y * Y) e.
Proof.
  cbn zeta. unfold fl_fmod. f_equal.
  pose proof (Z.quot_rem' (Z.pos mx * 2 ^ (ex - Z.min ex ey)) (Z.pos my * 2 ^ (ey - Z.min ex ey))). lia.
Qed.

