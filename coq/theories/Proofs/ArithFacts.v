(* Proofs for C13: the L1 model of the operator methods (built on the regenerated
   kernels) computes the element-wise specification of Spec/Arith.v, for every
   scalar operation num_op, every column length and every operand; laws of the
   specification (pointwise, shape, operand order, text concatenation, NaN). *)
From Coq Require Import ZArith List Bool String Lia.
From DM Require Import Base.PyVal Base.CsvPy Spec.Nf Spec.Arith Gen.KCheck Gen.KArith Gen.KCsv Model.Store Model.Arith Proofs.NfFacts.
Import ListNotations.
Open Scope Z_scope.

(* ---------- lists *)
Lemma map2_length {A B C} (f : A -> B -> C) l : forall m,
  List.length m = List.length l -> List.length (map2 f l m) = List.length l.
Proof.
  induction l as [|a l IH]; intros [|b m] H; cbn in *; try reflexivity; try discriminate.
  f_equal. apply IH. lia.
Qed.

Lemma map2_nth {A B C} (f : A -> B -> C) l : forall m i da db dc,
  List.length m = List.length l -> (i < List.length l)%nat ->
  nth i (map2 f l m) dc = f (nth i l da) (nth i m db).
Proof.
  induction l as [|a l IH]; intros [|b m] i da db dc H Hi; cbn in *; try lia.
  destruct i as [|i]; [reflexivity|]. apply IH; lia.
Qed.

Lemma map2_ext {A B C} (f g : A -> B -> C) l : forall m,
  (forall a b, f a b = g a b) -> map2 f l m = map2 g l m.
Proof.
  induction l as [|a l IH]; intros [|b m] H; cbn; try reflexivity. rewrite H, (IH m H). reflexivity.
Qed.

Lemma nth_repeat_lt {A} (x d : A) n : forall i, (i < n)%nat -> nth i (repeat x n) d = x.
Proof. induction n as [|n IH]; intros [|i] H; cbn; try lia; try reflexivity. apply IH. lia. Qed.

Lemma all_ok_length {A} (l : list (res A)) : forall xs, all_ok l = Ok xs -> List.length xs = List.length l.
Proof.
  induction l as [|r l IH]; intros xs H; cbn in H.
  - inversion H. reflexivity.
  - destruct r as [x|e]; cbn in H; [|discriminate].
    destruct (all_ok l) as [ys|e]; cbn in H; [|discriminate].
    inversion H; subst. cbn. f_equal. apply IH. reflexivity.
Qed.

Lemma all_ok_map_nth {A B} (g : A -> res B) (l : list A) : forall ys i da db,
  all_ok (map g l) = Ok ys -> (i < List.length l)%nat -> g (nth i l da) = Ok (nth i ys db).
Proof.
  induction l as [|a l IH]; intros ys i da db H Hi; cbn in *; [lia|].
  destruct (g a) as [x|e] eqn:Ea; cbn in H; [|discriminate].
  destruct (all_ok (map g l)) as [zs|e] eqn:El; cbn in H; [|discriminate].
  inversion H; subst. destruct i as [|i]; cbn; [exact Ea|]. apply IH; [reflexivity | lia].
Qed.

Lemma all_ok_map_impl {A B} (g h : A -> res B) (l : list A) : forall ys,
  (forall x y, In x l -> g x = Ok y -> h x = Ok y) ->
  all_ok (map g l) = Ok ys -> all_ok (map h l) = Ok ys.
Proof.
  induction l as [|a l IH]; intros ys Himp H; cbn in *; [exact H|].
  destruct (g a) as [x|e] eqn:Ea; cbn in H; [|discriminate].
  destruct (all_ok (map g l)) as [zs|e] eqn:El; cbn in H; [|discriminate].
  rewrite (Himp a x (or_introl eq_refl) Ea). cbn.
  rewrite (IH zs (fun x y Hin => Himp x y (or_intror Hin)) eq_refl). cbn. exact H.
Qed.

(* outcome of a list conversion up to Python equality of the cells *)
Definition reslist_eqv (a b : res (list val)) : bool :=
  match a, b with
  | Ok x, Ok y => vals_eqv x y
  | Raise e1, Raise e2 => exn_eqb e1 e2
  | _, _ => false
  end.

Lemma exn_eqb_refl e : exn_eqb e e = true.
Proof. destruct e; reflexivity. Qed.

Lemma vals_eqv_refl l : vals_eqv l l = true.
Proof. induction l as [|x l IH]; cbn; [reflexivity|]. rewrite val_eqv_refl, IH. reflexivity. Qed.

Lemma all_ok_eqv {A} (f g : A -> res val) (l : list A) :
  (forall v, In v l -> res_eqv (f v) (g v) = true) ->
  reslist_eqv (all_ok (map f l)) (all_ok (map g l)) = true.
Proof.
  induction l as [|a l IH]; intros H; cbn; [reflexivity|].
  pose proof (H a (or_introl eq_refl)) as Ha.
  specialize (IH (fun v Hin => H v (or_intror Hin))).
  destruct (f a) as [x|e1], (g a) as [y|e2]; cbn in Ha; try discriminate; cbn.
  - destruct (all_ok (map f l)) as [xs|e1], (all_ok (map g l)) as [ys|e2]; cbn in IH; try discriminate; cbn.
    + rewrite Ha, IH. reflexivity.
    + exact IH.
  - exact Ha.
Qed.

Lemma vals_eqv_repeat x y n : val_eqv x y = true -> vals_eqv (repeat x n) (repeat y n) = true.
Proof. intros H. induction n as [|n IH]; cbn; [reflexivity|]. rewrite H, IH. reflexivity. Qed.

Lemma vals_eqv_length a : forall b, vals_eqv a b = true -> List.length a = List.length b.
Proof.
  induction a as [|x a IH]; intros [|y b] H; cbn in *; try reflexivity; try discriminate.
  apply andb_prop in H. f_equal. apply IH, H.
Qed.

(* reading by row id *)
Lemma cell_of_row_nth ids : forall cells i d,
  NoDup ids -> List.length cells = List.length ids -> (i < List.length ids)%nat ->
  cell_of_row ids cells (nth i ids 0%N) = Some (nth i cells d).
Proof.
  induction ids as [|a ids IH]; intros [|c cells] i d Hnd Hlen Hi; cbn in *; try lia.
  inversion Hnd as [|? ? Hnotin Hnd']; subst.
  destruct i as [|i].
  - rewrite N.eqb_refl. reflexivity.
  - destruct (N.eqb a (nth i ids 0%N)) eqn:E.
    + apply N.eqb_eq in E. exfalso. apply Hnotin. rewrite E. apply nth_In. lia.
    + apply IH; [assumption | lia | lia].
Qed.

Section Facts.
  Variable num_op : binop -> num -> num -> num.
  Variable fstr : fl -> string.

  Notation cell_spec := (cell_spec num_op fstr).
  Notation spec_cells := (spec_cells num_op fstr).
  Notation spec_operate := (spec_operate num_op fstr).
  Notation operate := (operate num_op fstr).
  Notation text_of := (text_of fstr).

  (* ---------- L0: shape and pointwise reading of the specification *)
  Lemma spec_operand_length k o n xs : spec_operand k o n = Ok xs -> List.length xs = n.
  Proof.
    destruct o as [v | vs | k2 cells]; cbn [spec_operand]; intros H.
    - destruct (nf k v) as [x|e]; cbn in H; [|discriminate]. inversion H. apply repeat_length.
    - destruct (Nat.eqb (List.length vs) n) eqn:E; [|discriminate]. apply Nat.eqb_eq in E.
      apply all_ok_length in H. rewrite map_length in H. lia.
    - destruct (Nat.eqb (List.length cells) n) eqn:E; [|discriminate]. apply Nat.eqb_eq in E.
      apply all_ok_length in H. rewrite map_length in H. lia.
  Qed.

  Theorem spec_operate_shape op refl c o r :
    spec_operate op refl c o = Ok r ->
    ckind r = ckind c /\ cids r = cids c /\ List.length (ccells r) = List.length (ccells c).
  Proof.
    unfold Spec.Arith.spec_operate. intros H.
    destruct (spec_operand (ckind c) o (List.length (ccells c))) as [xs|e] eqn:E; cbn in H; [|discriminate].
    inversion H; subst; cbn. repeat split. apply map2_length. apply (spec_operand_length _ _ _ _ E).
  Qed.

  Theorem spec_operate_pointwise op refl c o r :
    spec_operate op refl c o = Ok r ->
    exists xs, spec_operand (ckind c) o (List.length (ccells c)) = Ok xs /\
               List.length xs = List.length (ccells c) /\
               forall i d, (i < List.length (ccells c))%nat ->
                 nth i (ccells r) d = cell_spec (ckind c) op refl (nth i (ccells c) d) (nth i xs d).
  Proof.
    unfold Spec.Arith.spec_operate. intros H.
    destruct (spec_operand (ckind c) o (List.length (ccells c))) as [xs|e] eqn:E; cbn in H; [|discriminate].
    exists xs. pose proof (spec_operand_length _ _ _ _ E) as Hl. repeat split; [assumption|].
    intros i d Hi. inversion H; subst; cbn. apply map2_nth; assumption.
  Qed.

  (* each row of the operand is the value converted like an assigned value *)
  Theorem spec_operand_rows k o n xs :
    spec_operand k o n = Ok xs ->
    match o with
    | OScalar v => forall i d, (i < n)%nat -> nf k v = Ok (nth i xs d)
    | OSeq vs => List.length vs = n /\ forall i d, (i < n)%nat -> nf k (nth i vs PNone) = Ok (nth i xs d)
    | OCol _ cells => List.length cells = n /\
                      forall i d, (i < n)%nat -> nf k (pyv_of_val (nth i cells VNone)) = Ok (nth i xs d)
    end.
  Proof.
    destruct o as [v | vs | k2 cells]; cbn [spec_operand]; intros H.
    - destruct (nf k v) as [x|e]; cbn in H; [|discriminate]. inversion H; subst. intros i d Hi.
      f_equal. symmetry. apply nth_repeat_lt, Hi.
    - destruct (Nat.eqb (List.length vs) n) eqn:E; [|discriminate]. apply Nat.eqb_eq in E. split; [exact E|].
      intros i d Hi. apply (all_ok_map_nth (nf k) vs xs i PNone d H). lia.
    - destruct (Nat.eqb (List.length cells) n) eqn:E; [|discriminate]. apply Nat.eqb_eq in E. split; [exact E|].
      intros i d Hi. apply (all_ok_map_nth (fun x => nf k (pyv_of_val x)) cells xs i VNone d H). lia.
  Qed.

  (* assigning the result back: the row with the i-th id of the source reads the i-th specified cell *)
  Theorem spec_operate_row_aligned op refl c o r :
    spec_operate op refl c o = Ok r -> NoDup (cids c) -> List.length (cids c) = List.length (ccells c) ->
    exists xs, spec_operand (ckind c) o (List.length (ccells c)) = Ok xs /\
      forall i d, (i < List.length (ccells c))%nat ->
        cell_of_row (cids r) (ccells r) (nth i (cids c) 0%N) =
        Some (cell_spec (ckind c) op refl (nth i (ccells c) d) (nth i xs d)).
  Proof.
    intros H Hnd Hlen.
    destruct (spec_operate_pointwise _ _ _ _ _ H) as [xs [Hx [Hl Hp]]].
    destruct (spec_operate_shape _ _ _ _ _ H) as [_ [Hids Hlr]].
    exists xs. split; [exact Hx|]. intros i d Hi.
    rewrite Hids. rewrite <- (Hp i d Hi). apply cell_of_row_nth; [assumption | lia | lia].
  Qed.

  (* ---------- L0: what a cell is *)
  Theorem cell_mixed_numbers op c x p q :
    val_num c = Some p -> val_num x = Some q ->
    cell_spec KMixed op false c x = val_of_num (num_op op p q) /\
    cell_spec KMixed op true c x = val_of_num (num_op op q p).
  Proof. intros Hc Hx. cbn. unfold cell_mixed, ordered. rewrite Hc, Hx. split; reflexivity. Qed.

  Theorem cell_mixed_text_order c x :
    val_num c = None \/ val_num x = None ->
    cell_spec KMixed OAdd false c x = VStr (text_of c ++ text_of x) /\
    cell_spec KMixed OAdd true c x = VStr (text_of x ++ text_of c).
  Proof.
    intros H. cbn. unfold cell_mixed, ordered.
    destruct (val_num c), (val_num x); destruct H as [H|H]; try discriminate; split; reflexivity.
  Qed.

  Theorem cell_mixed_unchanged op refl c x :
    val_num c = None \/ val_num x = None -> op <> OAdd -> cell_spec KMixed op refl c x = c.
  Proof.
    intros H Hop. cbn. unfold cell_mixed, ordered.
    destruct refl, (val_num c), (val_num x); destruct H as [H|H]; try discriminate; destruct op; congruence.
  Qed.

  Theorem cell_float_is_float op refl c x : exists f, cell_spec KFloat op refl c x = VFlt f.
  Proof. cbn. unfold cell_float, ordered. destruct refl; eexists; reflexivity. Qed.

  Theorem cell_int_is_int op refl c x : exists z, cell_spec KInt op refl c x = VInt z.
  Proof. cbn. unfold cell_int, ordered. destruct refl; eexists; reflexivity. Qed.

  Theorem cell_float_value op a b :
    cell_spec KFloat op false (VFlt a) (VFlt b) = VFlt (num_fl (num_op op (NFlt a) (NFlt b))) /\
    cell_spec KFloat op true (VFlt a) (VFlt b) = VFlt (num_fl (num_op op (NFlt b) (NFlt a))).
  Proof. split; reflexivity. Qed.

  (* IntColumn: col / x is floor division; every other combination is the operator itself, cast to int *)
  Theorem cell_int_value op a b :
    cell_spec KInt op false (VInt a) (VInt b) =
      VInt (num_int (num_op (match op with OTruediv => OFloordiv | _ => op end) (NInt a) (NInt b))) /\
    cell_spec KInt op true (VInt a) (VInt b) = VInt (num_int (num_op op (NInt b) (NInt a))).
  Proof. split; destruct op; reflexivity. Qed.

  (* NaN propagates in a FloatColumn whenever the scalar operation propagates it *)
  Theorem cell_float_nan op refl c x :
    (forall o a b, pow_unit o a b = false -> num_is_nan a || num_is_nan b = true -> num_is_nan (num_op o a b) = true) ->
    num_is_nan (f64_view c) || num_is_nan (f64_view x) = true ->
    (let '(a, b) := ordered refl (f64_view c) (f64_view x) in pow_unit op a b) = false ->
    cell_spec KFloat op refl c x = VFlt FNan.
  Proof.
    intros Hnan Hcx Hpu. cbn. unfold cell_float. unfold ordered in *.
    destruct refl.
    - specialize (Hnan op (f64_view x) (f64_view c) Hpu). rewrite orb_comm in Hcx. specialize (Hnan Hcx).
      destruct (num_op op (f64_view x) (f64_view c)) as [z|f]; cbn in Hnan; [discriminate|].
      destruct f; cbn in Hnan; try discriminate. reflexivity.
    - specialize (Hnan op (f64_view c) (f64_view x) Hpu Hcx).
      destruct (num_op op (f64_view c) (f64_view x)) as [z|f]; cbn in Hnan; [discriminate|].
      destruct f; cbn in Hnan; try discriminate. reflexivity.
  Qed.

  (* ---------- L1 = L0 on the cells *)
  (* py3compat.safe_decode as regenerated from /repo (Gen/KCsv.v), applied to a cell, never fails and yields the
     specified text: an int with all its digits, an integral float as that int, nan / inf / -inf, str(float) otherwise *)
  Lemma safe_decode_kernel_text v : pyv_text (k_safe_decode fstr (pyv_of_val v)) = Ok (text_of v).
  Proof.
    destruct v as [z | f | s | ]; try reflexivity.
    destruct f as [| neg | neg | neg m e]; try reflexivity; try (destruct neg; reflexivity).
    unfold k_safe_decode, pyv_of_val, text_of.
    cbn -[fl_trunc num_eqb fl_integral show_int dec]. unfold py_eq. cbn -[fl_trunc num_eqb fl_integral show_int dec].
    rewrite trunc_eq_integral. destruct (fl_integral (FFin neg m e)); reflexivity.
  Qed.

  (* the text of a number: every decimal digit of an int (no detour through a float), an integral float as the int
     of the same value, the three non-finite floats by name *)
  Lemma text_of_numbers :
    (forall z, text_of (VInt z) = DecimalString.NilZero.string_of_int (Z.to_int z)) /\
    (forall f, fl_is_finite f && fl_integral f = true -> text_of (VFlt f) = text_of (VInt (fl_trunc f))) /\
    (forall f, fl_is_finite f = true -> fl_integral f = false -> text_of (VFlt f) = fstr f) /\
    text_of (VFlt FNan) = "nan"%string /\ text_of (VFlt (FInf false)) = "inf"%string /\
    text_of (VFlt (FInf true)) = "-inf"%string.
  Proof.
    repeat split; try reflexivity.
    - intros f H. cbn [Spec.Arith.text_of]. rewrite H. reflexivity.
    - intros f H1 H2. cbn [Spec.Arith.text_of]. rewrite H1, H2. destruct f; try discriminate; reflexivity.
  Qed.

  Lemma safe_decode_text v : safe_decode fstr v = text_of v.
  Proof. unfold safe_decode. rewrite safe_decode_kernel_text. reflexivity. Qed.

  Hypothesis mul_comm : forall a b, num_op OMul a b = num_op OMul b a.

  Lemma mixed_cell_refines d c x :
    (let '(op, has_str, flip) := k_base_dunder d in
     k_base_cell (py_number_op num_op op) (concat_op has_str) (safe_decode fstr) flip (k_base_pair flip c x))
    = cell_spec KMixed (dunder_op d) (dunder_refl d) c x.
  Proof.
    cbn [Spec.Arith.cell_spec]. unfold cell_mixed, ordered.
    destruct d; cbn [k_base_dunder dunder_op dunder_refl k_base_pair k_base_cell concat_op];
      unfold py_number_op; rewrite ?safe_decode_text;
      destruct c as [zc|fc|sc|], x as [zx|fx|sx|]; cbn [val_is_number val_num andb]; try reflexivity;
      rewrite mul_comm; reflexivity.
  Qed.

  Lemma float_cell_refines d c x :
    (let '(op, _, flip) := k_base_dunder d in
     val_of_num (k_numeric_cell (fun a b => as_f64 (num_op op a b)) flip (np_f64 c) (np_f64 x)))
    = cell_spec KFloat (dunder_op d) (dunder_refl d) c x.
  Proof.
    cbn [Spec.Arith.cell_spec]. unfold cell_float, ordered, np_f64, as_f64.
    destruct d; cbn [k_base_dunder dunder_op dunder_refl k_numeric_cell val_of_num]; try reflexivity.
    unfold f64_view. rewrite mul_comm. reflexivity.
  Qed.

  Lemma int_cell_refines d c x :
    (let '(op, _, flip) := k_int_dunder d in
     val_of_num (k_int_cell as_i64 (num_op op) flip (np_i64 c) (np_i64 x)))
    = cell_spec KInt (dunder_op d) (dunder_refl d) c x.
  Proof.
    cbn [Spec.Arith.cell_spec]. unfold cell_int, ordered, np_i64, as_i64, int_op.
    destruct d; cbn [k_int_dunder k_base_dunder dunder_op dunder_refl k_int_cell k_numeric_cell val_of_num]; try reflexivity.
    unfold i64_view. rewrite mul_comm. reflexivity.
  Qed.

  Lemma operate_cells_spec k d cells xs out :
    operate_cells num_op fstr k d cells xs = Ok out ->
    out = spec_cells k (dunder_op d) (dunder_refl d) cells xs.
  Proof.
    unfold Spec.Arith.spec_cells. destruct k; cbn [operate_cells].
    - pose proof (fun c x => mixed_cell_refines d c x) as R.
      destruct (k_base_dunder d) as [[op has] flip]. intros H; inversion H; subst. apply map2_ext. exact R.
    - pose proof (fun c x => float_cell_refines d c x) as R.
      destruct (k_base_dunder d) as [[op has] flip]. intros H; inversion H; subst. apply map2_ext. exact R.
    - pose proof (fun c x => int_cell_refines d c x) as R.
      destruct (k_int_dunder d) as [[op has] flip].
      destruct (match op with OPow => existsb is_neg_int (if flip then cells else xs) | _ => false end); [discriminate|].
      intros H; inversion H; subst. apply map2_ext. exact R.
  Qed.

  Lemma result_ids_same k ids : result_ids k ids = ids.
  Proof. destruct k; reflexivity. Qed.

  (* operate_pointwise: the operator method d computes, row by row, cell o x (resp. x o cell) on the converted operand,
     in a column of the same type with the same row ids *)
  Theorem operate_refines d c o r :
    operate d c o = Ok r ->
    exists xs, operand_cells (ckind c) o (List.length (ccells c)) = Ok xs /\
               r = Col (ckind c) (cids c) (spec_cells (ckind c) (dunder_op d) (dunder_refl d) (ccells c) xs).
  Proof.
    unfold Model.Arith.operate. intros H.
    destruct (operand_cells (ckind c) o (List.length (ccells c))) as [xs|e] eqn:E; cbn in H; [|discriminate].
    destruct (operate_cells num_op fstr (ckind c) d (ccells c) xs) as [out|e] eqn:Eo; cbn in H; [|discriminate].
    exists xs. split; [reflexivity|]. inversion H; subst. rewrite result_ids_same.
    rewrite (operate_cells_spec _ _ _ _ _ Eo). reflexivity.
  Qed.
End Facts.

(* ---------- the other operand is converted like an assigned value (C05's normal form), one per row *)
Lemma int_checktype_twice v : bind (k_int_checktype v) (fun v' => store_cell KInt v') = store_cell KInt v.
Proof.
  unfold store_cell, k_int_checktype.
  destruct v as [z | b | f | z | is64 f | s oi of | | ]; cbn -[fl_trunc]; try reflexivity.
  - destruct f; reflexivity.
  - destruct f; reflexivity.
  - destruct oi as [z|]; cbn -[fl_trunc]; [reflexivity|].
    destruct of as [f|]; cbn -[fl_trunc]; [destruct f; reflexivity | reflexivity].
Qed.

Lemma scalar_cell_nf k v : pyv_wf v = true -> res_eqv (scalar_cell k v) (nf k v) = true.
Proof.
  intros Hwf. destruct k; cbn [scalar_cell].
  - apply store_cell_spec, Hwf.
  - apply (path_nf WholeScalar KFloat v Hwf).
  - rewrite int_checktype_twice. apply store_cell_spec, Hwf.
Qed.

Definition operand_wf (o : operand) (n : nat) : Prop :=
  match o with
  | OScalar v => pyv_wf v = true
  | OSeq vs => List.length vs = n /\ forall v, In v vs -> pyv_wf v = true
  | OCol _ cells => List.length cells = n /\ forall x, In x cells -> pyv_wf (pyv_of_val x) = true
  end.

Lemma seq_cells_nf k vs n :
  List.length vs = n -> (forall v, In v vs -> pyv_wf v = true) ->
  reslist_eqv (seq_cells k vs n) (all_ok (map (nf k) vs)) = true.
Proof.
  intros Hl Hwf. unfold seq_cells. rewrite firstn_all2 by lia.
  pose proof (all_ok_eqv (store_cell k) (nf k) vs (fun v Hin => store_cell_spec k v (Hwf v Hin))) as H.
  destruct (all_ok (map (store_cell k) vs)) as [xs|e] eqn:E; cbn [bind].
  - pose proof (all_ok_length _ _ E) as Hx. rewrite map_length in Hx.
    replace (Nat.eqb (List.length xs) n) with true by (symmetry; apply Nat.eqb_eq; lia). exact H.
  - exact H.
Qed.

Theorem operand_cells_nf k o n :
  operand_wf o n -> reslist_eqv (operand_cells k o n) (spec_operand k o n) = true.
Proof.
  destruct o as [v | vs | k2 cells]; cbn [operand_wf operand_cells spec_operand].
  - intros Hwf. pose proof (scalar_cell_nf k v Hwf) as H.
    destruct (scalar_cell k v) as [x|e1], (nf k v) as [y|e2]; cbn in H; try discriminate; cbn.
    + apply vals_eqv_repeat, H.
    + exact H.
  - intros [Hl Hwf]. rewrite Hl, Nat.eqb_refl. apply seq_cells_nf; assumption.
  - intros [Hl Hwf]. rewrite Hl, Nat.eqb_refl.
    destruct (takes_array k k2); cbn [andb].
    + apply all_ok_eqv. intros x Hin. apply from_col_nf, Hwf, Hin.
    + rewrite <- (map_map pyv_of_val (nf k)). apply seq_cells_nf.
      * rewrite map_length. exact Hl.
      * intros v Hin. apply in_map_iff in Hin. destruct Hin as [x [<- Hin]]. apply Hwf, Hin.
Qed.

(* ---------- _map *)
Lemma map_cell_cast k r y : map_cell k r = Ok y -> np_array_cast k r = Ok y.
Proof.
  unfold map_cell, np_array_cast, to_val.
  destruct k; destruct r as [z | b | f | z | is64 f | s oi of | | ]; cbn -[fl_trunc]; intros H;
    try discriminate; try exact H.
  all: try (destruct (fl_is_finite f) eqn:E; [|discriminate]; destruct f; try discriminate; exact H).
Qed.

Lemma map_ids_same k ids : map_ids k ids = ids.
Proof. destruct k; reflexivity. Qed.

(* map_pointwise: wherever f(cell_i) is specified for every row, col @ f / map_(f, col) is that column *)
Theorem map_col_refines f c r : spec_map f c = Ok r -> map_col f c = Ok r.
Proof.
  unfold spec_map, map_col. intros H.
  destruct (all_ok (map (fun x => map_cell (ckind c) (f x)) (ccells c))) as [ys|e] eqn:E; cbn in H; [|discriminate].
  assert (all_ok (map (fun x => np_array_cast (ckind c) (f x)) (ccells c)) = Ok ys) as E'.
  { apply (all_ok_map_impl (fun x => map_cell (ckind c) (f x))); [|exact E].
    intros x y _ Hx. apply map_cell_cast, Hx. }
  rewrite map_ids_same.
  destruct (ckind c); unfold k_base_map, k_numeric_map; rewrite ?map_map; rewrite E'; exact H.
Qed.

Theorem spec_map_pointwise f c r :
  spec_map f c = Ok r ->
  ckind r = ckind c /\ cids r = cids c /\ List.length (ccells r) = List.length (ccells c) /\
  forall i d, (i < List.length (ccells c))%nat -> map_cell (ckind c) (f (nth i (ccells c) d)) = Ok (nth i (ccells r) d).
Proof.
  unfold spec_map. intros H.
  destruct (all_ok (map (fun x => map_cell (ckind c) (f x)) (ccells c))) as [ys|e] eqn:E; cbn in H; [|discriminate].
  inversion H; subst; cbn. repeat split.
  - pose proof (all_ok_length _ _ E) as Hl. rewrite map_length in Hl. exact Hl.
  - intros i d Hi. apply (all_ok_map_nth (fun x => map_cell (ckind c) (f x)) (ccells c) ys i d d E Hi).
Qed.

(* ---------- the executable instance satisfies the hypotheses used above *)
Lemma exact_op_nan op a b :
  pow_unit op a b = false -> num_is_nan a || num_is_nan b = true -> num_is_nan (exact_op op a b) = true.
Proof.
  intros Hp Hn. unfold exact_op, exact_op_opt. destruct (num_promote a b). rewrite Hp, Hn.
  destruct (is_div_op op && is_zero b); reflexivity.
Qed.

Lemma dy_op_mul_comm x y : dy_op OMul x y = dy_op OMul y x.
Proof.
  destruct x as [m1 e1], y as [m2 e2]. unfold dy_op, dy_align. cbn [fst snd].
  rewrite (Z.mul_comm m1 m2), (Z.add_comm e1 e2). reflexivity.
Qed.
Lemma num_promote_swap a b : num_promote b a = (snd (num_promote a b), fst (num_promote a b)).
Proof. destruct a, b; reflexivity. Qed.
Lemma exact_op_mul_comm a b : exact_op OMul a b = exact_op OMul b a.
Proof.
  unfold exact_op, exact_op_opt. rewrite (num_promote_swap a b).
  destruct (num_promote a b) as [a' b']. cbn [fst snd pow_unit].
  rewrite (orb_comm (num_is_nan a)). rewrite (andb_comm (num_is_int a')).
  destruct (num_is_nan b || num_is_nan a); [reflexivity|].
  destruct (num_dy a') as [x|], (num_dy b') as [y|]; try reflexivity.
  rewrite (dy_op_mul_comm x y). reflexivity.
Qed.

(* the whole chain for the executable instance: no hypothesis left *)
Theorem operate_refines_exact fstr d c o r :
  operate exact_op fstr d c o = Ok r ->
  exists xs, operand_cells (ckind c) o (List.length (ccells c)) = Ok xs /\
             r = Col (ckind c) (cids c) (spec_cells exact_op fstr (ckind c) (dunder_op d) (dunder_refl d) (ccells c) xs).
Proof. apply operate_refines. exact exact_op_mul_comm. Qed.
