(* Facts about the L0 operations that the property statements quote. *)
From Coq Require Import ZArith NArith List Bool Lia Arith String Permutation.
From DM Require Import Base.PyVal Spec.Nf Spec.Table Spec.Ops Proofs.ListX Proofs.MergeFacts.
Import ListNotations.
Open Scope nat_scope.

(* ---------- C04: a write changes exactly the addressed cells ---------- *)
Lemma write_at_length ps : forall xs cells, List.length (write_at ps xs cells) = List.length cells.
Proof.
  induction ps as [|p ps IH]; intros [|x xs] cells; cbn [write_at]; try reflexivity.
  rewrite IH, set_nth_length. reflexivity.
Qed.

Lemma write_at_other ps : forall xs cells q,
  ~ In q ps -> nth_error (write_at ps xs cells) q = nth_error cells q.
Proof.
  induction ps as [|p ps IH]; intros [|x xs] cells q Hq; cbn [write_at]; try reflexivity.
  rewrite IH by (intros H; apply Hq; right; exact H).
  apply set_nth_other. intros ->. apply Hq. left; reflexivity.
Qed.

Lemma write_at_hit ps : forall xs cells i p,
  NoDup ps -> List.length xs = List.length ps -> Forall (fun q => q < List.length cells) ps ->
  nth_error ps i = Some p -> nth_error (write_at ps xs cells) p = nth_error xs i.
Proof.
  induction ps as [|p0 ps IH]; intros xs cells i p Hnd Hlen Hrange Hi; [destruct i; discriminate|].
  destruct xs as [|x xs]; [discriminate|]. cbn [write_at].
  inversion Hnd as [|? ? Hnotin Hnd']; subst. inversion Hrange as [|? ? Hp0 Hrange']; subst.
  destruct i as [|i]; cbn [nth_error] in *.
  - injection Hi as ->. rewrite write_at_other by assumption. apply set_nth_same. assumption.
  - apply IH; try assumption.
    + cbn [List.length] in Hlen. lia.
    + rewrite set_nth_length. assumption.
Qed.

(* ---------- C06 / C01: frame -- an operation changes at most its target ---------- *)
Definition target (o : op) : option nat :=
  match o with
  | OSetColKind t _ _ | OSetCol t _ _ | OSetColFromCol t _ _ _ | OSetCell t _ _ _
  | OSetLength t _ | ODelRows t _ | ODelCol t _ | ORename t _ _ _ | OSetSorted t _
  | OSetColFromSlice t _ _ _ => Some t
  | _ => None
  end.

Lemma get_put_other w i t j : i <> j -> get (put w i t) j = get w j.
Proof. intros H. unfold get, put. cbn [pool]. apply set_nth_other. assumption. Qed.
Lemma get_push_old w t j : j < List.length (pool w) -> get (push w t) j = get w j.
Proof. intros H. unfold get, push. cbn [pool]. apply nth_error_app1. assumption. Qed.
Lemma pool_put_length w i t : List.length (pool (put w i t)) = List.length (pool w).
Proof. unfold put. cbn [pool]. apply set_nth_length. Qed.

Lemma set_cells_frame w ti t name a r j :
  j < List.length (pool w) -> ti <> j -> get (fst (set_cells w ti t name a r)) j = get w j.
Proof.
  intros Hj Hne. unfold set_cells.
  repeat match goal with
         | |- context [match ?x with _ => _ end] => destruct x
         end; cbn [fst]; try reflexivity; apply get_put_other; assumption.
Qed.

Theorem step_frame w o j :
  j < List.length (pool w) -> target o <> Some j -> get (fst (step w o)) j = get w j.
Proof.
  intros Hj Ht.
  destruct o; cbn [target] in Ht; cbn [step];
    try (assert (Hne : t <> j) by congruence).
  all: try solve [
    unfold push_opt;
    repeat match goal with
           | |- context [match ?x with _ => _ end] => destruct x
           end; cbn [fst push_opt];
    try reflexivity;
    try (apply get_put_other; assumption);
    try (apply get_push_old; assumption);
    try (unfold get, push; cbn [pool]; apply nth_error_app1; assumption) ].
  - (* OSetCell *)
    destruct (get w t) as [tb|]; [|reflexivity].
    destruct a; try (apply set_cells_frame; assumption).
    destruct (norm_index (nrows tb) i); [|reflexivity].
    match goal with |- context [set_cells ?w1 ?a ?b ?c ?d ?e] => destruct (set_cells w1 a b c d e) as [w2 out] eqn:E end.
    cbn [fst].
    match type of E with set_cells ?w1 _ _ _ _ _ = _ =>
      assert (H1 : get (fst (set_cells w1 t (if has_name tb name then tb else fresh_col tb name (dflt tb)) name (ARow i) r)) j = get w1 j)
        by (apply set_cells_frame; [rewrite pool_put_length; assumption | assumption]) end.
    rewrite E in H1. cbn [fst] in H1. rewrite H1. apply get_put_other. assumption.
Qed.

(* ---------- C01: the structural invariant of L0 tables, preserved by every operation ----------
   row ids are duplicate-free, every slot has exactly one cell per row, every name points at a slot *)
Definition twf (t : table) : Prop :=
  NoDup (ids t)
  /\ Forall (fun s => List.length (scells s) = nrows t) (slots t)
  /\ Forall (fun ni => snd ni < List.length (slots t)) (names t).
Definition wwf (w : world) : Prop := Forall twf (pool w).

Lemma combine_seq_bound {A} (l : list A) n k :
  Forall (fun ni : A * nat => snd ni < n + k) (combine l (seq n k)).
Proof.
  revert n l; induction k as [|k IH]; intros n l; destruct l as [|a l]; cbn [seq combine]; constructor.
  - cbn [snd]. lia.
  - replace (n + S k) with (S n + k) by lia. apply IH.
Qed.

Lemma derive_wf t f newids t' :
  derive t f newids = Some t' -> NoDup newids ->
  (forall s s', f s = Some s' -> List.length (scells s') = List.length newids) -> twf t'.
Proof.
  unfold derive. intros H Hnd Hf.
  destruct (all_some _) as [ss|] eqn:E; [|discriminate]. injection H as <-.
  unfold twf, nrows. cbn [ids slots names]. split; [assumption|]. split.
  - apply all_some_spec in E. apply Forall_forall. intros s Hs.
    assert (Hin : In (Some s) (map Some ss)) by (apply in_map; assumption).
    rewrite <- E in Hin. apply in_map_iff in Hin. destruct Hin as [[n i] [Hx _]].
    destruct (nth_error (slots t) i) as [s0|]; [|discriminate]. eapply Hf. eassumption.
  - apply all_some_length in E. rewrite map_length in E. rewrite E.
    exact (combine_seq_bound (map fst (names t)) 0 (List.length (names t))).
Qed.

Lemma take_wf t ps t' : twf t -> take ps t = Some t' -> NoDup ps -> twf t'.
Proof.
  intros [Hnd _] H Hps. unfold take in H.
  destruct (take_pos ps (ids t)) as [newids|] eqn:E; [|discriminate].
  eapply derive_wf; [eassumption| eapply take_pos_NoDup; eassumption|].
  intros s s' Hs. cbv beta in Hs. destruct (take_pos ps (scells s)) as [cs|] eqn:Ec; [|discriminate].
  injection Hs as <-. cbn [scells]. apply take_pos_length in Ec. apply take_pos_length in E. lia.
Qed.

Lemma wwf_put w i t : wwf w -> twf t -> wwf (put w i t).
Proof.
  unfold wwf, put. cbn [pool]. intros Hw Ht. apply Forall_forall. intros x Hx.
  apply In_nth_error in Hx. destruct Hx as [j Hj].
  destruct (Nat.eq_dec i j) as [->|Hne].
  - destruct (Nat.lt_ge_cases j (List.length (pool w))) as [Hlt|Hge].
    + rewrite set_nth_same in Hj by assumption. congruence.
    + assert (nth_error (set_nth j t (pool w)) j = None) by (apply nth_error_None; rewrite set_nth_length; lia). congruence.
  - rewrite set_nth_other in Hj by assumption. rewrite Forall_forall in Hw. apply Hw. eapply nth_error_In; eassumption.
Qed.
Lemma wwf_push w t : wwf w -> twf t -> wwf (push w t).
Proof. unfold wwf, push. cbn [pool]. intros. apply Forall_app. split; [assumption|constructor; [assumption|constructor]]. Qed.
Lemma wwf_get w i t : wwf w -> get w i = Some t -> twf t.
Proof. unfold wwf, get. intros Hw H. rewrite Forall_forall in Hw. apply Hw. eapply nth_error_In; eassumption. Qed.

Lemma lookup_In {A} n (l : list (string * A)) a : lookup n l = Some a -> In (n, a) l.
Proof.
  induction l as [|[m x] l IH]; cbn [lookup]; [discriminate|].
  destruct (String.eqb n m) eqn:E; [apply String.eqb_eq in E; subst; intros H; injection H as ->; left; reflexivity|].
  intros H. right. apply IH. assumption.
Qed.

Lemma twf_name_bound t n i : twf t -> lookup n (names t) = Some i -> i < List.length (slots t).
Proof.
  intros (_ & _ & Hn) H. apply lookup_In in H. rewrite Forall_forall in Hn. exact (Hn _ H).
Qed.
Lemma twf_slot_len t i s : twf t -> nth_error (slots t) i = Some s -> List.length (scells s) = nrows t.
Proof. intros (_ & Hs & _) H. rewrite Forall_forall in Hs. apply Hs. eapply nth_error_In; eassumption. Qed.

Lemma replace_name_bound {A} (P : A -> Prop) n a (l : list (string * A)) :
  Forall (fun ni => P (snd ni)) l -> P a -> Forall (fun ni => P (snd ni)) (replace_name n a l).
Proof.
  induction l as [|[m x] l IH]; intros H Ha; cbn [replace_name]; [constructor|].
  inversion H as [|? ? Hx Hl]; subst. destruct (String.eqb n m); constructor; auto.
Qed.

Lemma bind_name_wf t n i : twf t -> i < List.length (slots t) -> twf (bind_name t n i).
Proof.
  intros (H1 & H2 & H3) Hi. unfold twf, bind_name, nrows. cbn [ids slots names]. repeat split; try assumption.
  destruct (has_name t n).
  - apply (replace_name_bound (fun j => j < List.length (slots t))); assumption.
  - apply Forall_app. split; [assumption|constructor; [assumption|constructor]].
Qed.

Lemma add_slot_wf t s : twf t -> List.length (scells s) = nrows t ->
  twf (fst (add_slot t s)) /\ snd (add_slot t s) < List.length (slots (fst (add_slot t s)))
  /\ nrows (fst (add_slot t s)) = nrows t.
Proof.
  intros (H1 & H2 & H3) Hs. unfold add_slot. cbn [fst snd]. unfold twf, nrows. cbn [ids slots names].
  rewrite app_length. cbn [List.length]. repeat split; try assumption; try lia.
  - apply Forall_app. split; [assumption|constructor; [assumption|constructor]].
  - eapply Forall_impl; [|eassumption]. intros a Ha. cbv beta in *. lia.
Qed.

Lemma fresh_col_wf t n k : twf t -> twf (fresh_col t n k) /\ nrows (fresh_col t n k) = nrows t.
Proof.
  intros Ht. unfold fresh_col.
  pose proof (add_slot_wf t {| skind := k; scells := repeat (default_cell k) (nrows t) |} Ht) as Ha.
  cbn [scells] in Ha. rewrite repeat_length in Ha. specialize (Ha eq_refl). destruct Ha as (Hw & Hb & Hn).
  destruct (add_slot t _) as [t1 i] eqn:E. cbn [fst snd] in *. split; [apply bind_name_wf; assumption|].
  unfold bind_name, nrows in *. cbn [ids]. assumption.
Qed.

Lemma set_slot_wf t i s : twf t -> List.length (scells s) = nrows t -> twf (set_slot t i s).
Proof.
  intros (H1 & H2 & H3) Hs. unfold twf, set_slot, nrows in *. cbn [ids slots names]. rewrite set_nth_length.
  repeat split; try assumption.
  apply Forall_forall. intros x Hx. apply In_nth_error in Hx. destruct Hx as [j Hj].
  destruct (Nat.eq_dec i j) as [->|Hne].
  - destruct (Nat.lt_ge_cases j (List.length (slots t))) as [Hlt|Hge].
    + rewrite set_nth_same in Hj by assumption. injection Hj as <-. assumption.
    + assert (nth_error (set_nth j s (slots t)) j = None) by (apply nth_error_None; rewrite set_nth_length; lia). congruence.
  - rewrite set_nth_other in Hj by assumption. rewrite Forall_forall in H2. apply H2. eapply nth_error_In; eassumption.
Qed.

Lemma coerce_all_length k vs xs : coerce_all k vs = Ok xs -> List.length xs = List.length vs.
Proof.
  revert xs; induction vs as [|v vs IH]; intros xs; cbn [coerce_all]; [intros H; injection H as <-; reflexivity|].
  destruct (nf k v) as [x|e]; cbn [bind]; [|discriminate].
  destruct (coerce_all k vs) as [ys|e]; cbn [bind]; [|discriminate].
  intros H; injection H as <-. cbn [List.length]. f_equal. apply IH. reflexivity.
Qed.
Lemma rhs_cells_length k n r xs : rhs_cells k n r = Ok xs -> List.length xs = n.
Proof.
  destruct r as [v|vs]; cbn [rhs_cells].
  - destruct (nf k v); cbn [bind]; [|discriminate]. intros H; injection H as <-. apply repeat_length.
  - destruct (coerce_all k (firstn (S n) vs)) as [ys|e]; cbn [bind]; [|discriminate].
    destruct (Nat.eqb (List.length ys) n) eqn:E; [|discriminate]. intros H; injection H as <-. apply Nat.eqb_eq. assumption.
Qed.
Lemma write_list_length n l : forall xs cells, List.length (fst (write_list n l xs cells)) = List.length cells.
Proof.
  induction l as [|i l IH]; intros [|x xs] cells; cbn [write_list fst]; try reflexivity.
  destruct ((i <? 0)%Z || (Z.of_nat n <=? i)%Z); cbn [fst]; [reflexivity|]. rewrite IH, set_nth_length. reflexivity.
Qed.

Lemma set_cells_wf w ti t name a r :
  wwf w -> twf t -> wwf (fst (set_cells w ti t name a r)).
Proof.
  intros Hw Ht. unfold set_cells.
  destruct (lookup name (names t)) as [si|] eqn:El; [|assumption].
  destruct (nth_error (slots t) si) as [s|] eqn:Es; [|assumption].
  pose proof (twf_slot_len _ _ _ Ht Es) as Hlen.
  destruct a; destruct (address w t _) as [ps|e|] eqn:Ea; cbn [fst]; try assumption;
    repeat match goal with
           | |- context [match ?x with _ => _ end] => destruct x eqn:?
           end; cbn [fst]; try assumption;
    apply wwf_put; try assumption; apply set_slot_wf; try assumption; cbn [scells];
    rewrite ?write_at_length; try assumption.
  all: match goal with
       | H : write_list ?n ?l ?xs ?cs = (?c, _) |- List.length ?c = _ =>
           let H' := fresh in pose proof (write_list_length n l xs cs) as H'; rewrite H in H'; cbn [fst] in H'; lia
       end.
Qed.

Lemma positions_where_ge f cells i p : In p (positions_where f cells i) -> i <= p.
Proof.
  revert i; induction cells as [|c cells IH]; intros i H; cbn [positions_where] in H; [destruct H|].
  destruct (f c); [destruct H as [<-|H]; [lia|]|]; specialize (IH _ H); lia.
Qed.
Lemma positions_where_NoDup f cells i : NoDup (positions_where f cells i).
Proof.
  revert i; induction cells as [|c cells IH]; intros i; cbn [positions_where]; [constructor|].
  destruct (f c); [constructor; [|apply IH]|apply IH].
  intros H. apply positions_where_ge in H. lia.
Qed.
Lemma slice_pos_NoDup n a b : NoDup (slice_pos n a b).
Proof.
  unfold slice_pos. apply FinFun.Injective_map_NoDup; [|apply seq_NoDup]. intros x y H. lia.
Qed.
Lemma filter_seq_NoDup f n : NoDup (filter f (seq 0 n)).
Proof.
  generalize 0. induction n as [|n IH]; intros s; cbn [seq filter]; [constructor|].
  destruct (f s); [constructor|]; try apply IH.
  rewrite filter_In, in_seq. lia.
Qed.

Lemma grow_ids_NoDup l extra :
  NoDup l -> NoDup (l ++ iotaN (match l with [] => 0%N | _ => N.succ (maxN l) end) extra).
Proof.
  intros H. destruct l as [|x l]; [apply iotaN_NoDup|].
  apply MergeFacts.NoDup_app_disj; [assumption|apply iotaN_NoDup|].
  intros y Hy. rewrite iotaN_In. apply maxN_ge in Hy. lia.
Qed.

(* every view entry of a well-formed table has one cell per row *)
Lemma view_len t n k c : twf t -> In (n, k, c) (view t) -> List.length c = nrows t.
Proof.
  intros Ht H. unfold view in H. apply in_map_iff in H. destruct H as [[m i] [E Hin]].
  destruct Ht as (_ & Hs & Hn). rewrite Forall_forall in Hn. specialize (Hn _ Hin). cbn [snd] in Hn.
  destruct (nth_error (slots t) i) as [s|] eqn:Es; [|apply nth_error_None in Es; lia].
  injection E as _ _ <-. rewrite Forall_forall in Hs. apply Hs. eapply nth_error_In; eassumption.
Qed.

Lemma concat_wf a b nf t : twf a -> twf b -> concat_tables a b nf = Ok t -> twf t.
Proof.
  intros Ha Hb. unfold concat_tables.
  match goal with |- context [if ?c then _ else _] => destruct c end; [discriminate|].
  intros H. injection H as <-. unfold twf, nrows. cbn [ids slots names].
  rewrite iotaN_length. split; [apply iotaN_NoDup|]. split.
  - rewrite map_app. apply Forall_app. split; apply Forall_forall; intros s Hs; apply in_map_iff in Hs;
      destruct Hs as [[n s0] [<- Hin]]; cbn [snd].
    + apply in_map_iff in Hin. destruct Hin as [[[m k] c] [E Hv]]. injection E as _ <-. cbn [scells].
      rewrite app_length. rewrite (view_len a m k c Ha Hv). f_equal.
      destruct (lookup m _) as [[k2 c2]|] eqn:El; [|apply repeat_length].
      apply lookup_In in El. apply in_map_iff in El. destruct El as [[[m' k'] c'] [E2 Hv2]].
      injection E2 as -> -> ->. exact (view_len b _ _ _ Hb Hv2).
    + apply in_flat_map in Hin. destruct Hin as [[[m k] c] [Hv Hin]].
      destruct (lookup m _); [destruct Hin|]. destruct Hin as [E|[]]. injection E as _ <-. cbn [scells].
      rewrite app_length, repeat_length. f_equal. exact (view_len b _ _ _ Hb Hv).
  - rewrite map_length.
    match goal with |- Forall _ (combine ?l (seq 0 ?n)) => exact (combine_seq_bound l 0 n) end.
Qed.

Lemma is_perm_NoDup ps n : is_perm_of_range ps n = true -> NoDup ps.
Proof. unfold is_perm_of_range. rewrite !andb_true_iff. intros [[_ H] _]. apply nodup_nat_NoDup. assumption. Qed.

Lemma push_opt_wf w o : wwf w -> (forall t, o = Some t -> twf t) -> wwf (fst (push_opt w o)).
Proof. intros Hw H. destruct o as [t|]; cbn [push_opt fst]; [apply wwf_push; auto|assumption]. Qed.

Lemma rewrap_wf t t' b k : twf t' ->
  twf {| fam := fam t; ids := ids t'; names := names t'; slots := slots t'; tsorted := b; dflt := k |}.
Proof. intros H. exact H. Qed.

(* Every operation of the alphabet preserves the invariant: by induction, every
   table of every reachable pool has duplicate-free row ids and exactly one cell
   per row in every column. *)
Theorem step_wf w o : wwf w -> wwf (fst (step w o)).
Proof.
  intros Hw. destruct o; cbn [step].
  - (* ONew *) cbn [fst]. apply (wwf_push {| pool := pool w; nextfam := S (nextfam w) |}); [exact Hw|].
    unfold twf, nrows. cbn [ids slots names]. split; [apply iotaN_NoDup|split; constructor].
  - (* OSetColKind *)
    destruct (get w t) as [tb|] eqn:E; cbn [fst]; [|assumption].
    apply wwf_put; [assumption|]. apply fresh_col_wf. eapply wwf_get; eassumption.
  - (* OSetCol *)
    destruct (get w t) as [tb|] eqn:E; cbn [fst]; [|assumption].
    assert (Ht : twf tb) by (eapply wwf_get; eassumption).
    set (t1 := if has_name tb name then tb else fresh_col tb name (dflt tb)).
    assert (Ht1 : twf t1 /\ nrows t1 = nrows tb).
    { unfold t1. destruct (has_name tb name); [split; [assumption|reflexivity]|apply fresh_col_wf; assumption]. }
    destruct Ht1 as [Ht1 Hn].
    destruct (lookup name (names t1)) as [si|]; cbn [fst]; [|assumption].
    destruct (nth_error (slots t1) si) as [s|]; cbn [fst]; [|assumption].
    destruct (rhs_cells (skind s) (nrows t1) r) as [xs|e] eqn:Er; cbn [fst].
    + apply wwf_put; [assumption|]. apply set_slot_wf; [assumption|]. cbn [scells]. eapply rhs_cells_length; eassumption.
    + apply wwf_put; assumption.
  - (* OSetColFromCol *)
    destruct (get w t) as [tb|] eqn:E; cbn [fst]; [|assumption].
    destruct (get w t2) as [tb2|] eqn:E2; cbn [fst]; [|assumption].
    assert (Ht : twf tb) by (eapply wwf_get; eassumption).
    assert (Ht2 : twf tb2) by (eapply wwf_get; eassumption).
    destruct (lookup name2 (names tb2)) as [s2i|] eqn:El; cbn [fst]; [|assumption].
    destruct (Nat.eqb t t2) eqn:Eq; cbn [fst].
    + apply Nat.eqb_eq in Eq. subst t2. rewrite E in E2. injection E2 as <-.
      apply wwf_put; [assumption|]. apply bind_name_wf; [assumption|]. eapply twf_name_bound; eassumption.
    + destruct (nth_error (slots tb2) s2i) as [s2|] eqn:Es; cbn [fst]; [|assumption].
      destruct (negb (Nat.eqb (nrows tb) (nrows tb2))) eqn:En; cbn [fst]; [assumption|].
      apply negb_false_iff, Nat.eqb_eq in En.
      pose proof (add_slot_wf tb {| skind := skind s2; scells := scells s2 |} Ht) as Ha. cbn [scells] in Ha.
      rewrite (twf_slot_len _ _ _ Ht2 Es) in Ha. specialize (Ha (eq_sym En)). destruct Ha as (Hw1 & Hb & _).
      destruct (add_slot tb _) as [t1 i]. cbn [fst snd] in *.
      apply wwf_put; [assumption|]. apply bind_name_wf; assumption.
  - (* OSetCell *)
    destruct (get w t) as [tb|] eqn:E; cbn [fst]; [|assumption].
    assert (Ht : twf tb) by (eapply wwf_get; eassumption).
    destruct a; try (apply set_cells_wf; assumption).
    destruct (norm_index (nrows tb) i); cbn [fst]; [|assumption].
    match goal with |- context [set_cells ?w1 ?a ?b ?c ?d ?e] =>
      pose proof (set_cells_wf w1 a b c d e) as Hs; destruct (set_cells w1 a b c d e) as [w2 out] end.
    cbn [fst] in *. apply Hs.
    + apply wwf_put; [assumption|]. destruct (has_name tb name); [assumption|apply fresh_col_wf; assumption].
    + destruct (has_name tb name); [assumption|apply fresh_col_wf; assumption].
  - (* OSelect *)
    destruct (get w t) as [tb|] eqn:E; cbn [fst]; [|assumption].
    destruct (slot_of tb name) as [s|]; cbn [fst]; [|assumption].
    destruct (negb (ref_ok (skind s) ref)); cbn [fst]; [assumption|].
    apply push_opt_wf; [assumption|]. intros t' Ht'. eapply take_wf; [eapply wwf_get; eassumption|eassumption|].
    apply positions_where_NoDup.
  - (* OMerge *)
    destruct (get w t) as [a|] eqn:E; cbn [fst]; [|assumption].
    destruct (get w t2) as [b|] eqn:E2; cbn [fst]; [|assumption].
    repeat match goal with |- context [if ?c then _ else _] => destruct c; cbn [fst]; [assumption|] end.
    match goal with |- context [all_some ?l] => destruct (all_some l) as [ss|] eqn:Ea end; cbn [fst]; [|assumption].
    apply wwf_push; [assumption|].
    assert (Hta : twf a) by (eapply wwf_get; eassumption).
    assert (Htb : twf b) by (eapply wwf_get; eassumption).
    unfold twf, nrows. cbn [ids slots names]. split; [apply merge_ids_NoDup; [apply Hta|apply Htb]|]. split.
    + apply all_some_spec in Ea. apply Forall_forall. intros s Hs.
      assert (Hin : In (Some s) (map Some ss)) by (apply in_map; assumption).
      rewrite <- Ea in Hin. apply in_map_iff in Hin. destruct Hin as [[[n k] c] [Hx _]].
      match type of Hx with match all_some ?l with _ => _ end = _ => destruct (all_some l) as [cs|] eqn:Ec end; [|discriminate].
      injection Hx as <-. cbn [scells]. apply all_some_length in Ec. rewrite map_length in Ec. assumption.
    + apply all_some_length in Ea. rewrite map_length in Ea. unfold view in Ea. rewrite map_length in Ea. rewrite Ea.
      exact (combine_seq_bound (map fst (names a)) 0 (List.length (names a))).
  - (* OSlice *)
    destruct (get w t) as [tb|] eqn:E; cbn [fst]; [|assumption].
    apply push_opt_wf; [assumption|]. intros t' Ht'. eapply take_wf; [eapply wwf_get; eassumption|eassumption|].
    apply slice_pos_NoDup.
  - (* OGetRows *)
    destruct (get w t) as [tb|] eqn:E; cbn [fst]; [|assumption].
    destruct l as [|z l]; cbn [fst]; [assumption|].
    destruct (all_some _) as [ps|]; cbn [fst]; [|assumption].
    destruct (nodup_nat ps) eqn:En; cbn [fst]; [|assumption].
    apply push_opt_wf; [assumption|]. intros t' Ht'. eapply take_wf; [eapply wwf_get; eassumption|eassumption|].
    apply nodup_nat_NoDup. assumption.
  - (* OSort *)
    destruct (get w t) as [tb|] eqn:E; cbn [fst]; [|assumption].
    destruct (slot_of tb name) as [s|]; cbn [fst]; [|assumption].
    match goal with |- context [if ?c then _ else _] => destruct c eqn:Ec end; cbn [fst]; [|assumption].
    apply andb_true_iff in Ec. destruct Ec as [Ep _].
    apply push_opt_wf; [assumption|]. intros t' Ht'. eapply take_wf; [eapply wwf_get; eassumption|eassumption|].
    eapply is_perm_NoDup; eassumption.
  - (* OShuffle *)
    destruct (get w t) as [tb|] eqn:E; cbn [fst]; [|assumption].
    destruct (is_perm_of_range perm (nrows tb)) eqn:Ep; cbn [fst]; [|assumption].
    apply push_opt_wf; [assumption|]. intros t' Ht'. eapply take_wf; [eapply wwf_get; eassumption|eassumption|].
    eapply is_perm_NoDup; eassumption.
  - (* OSample *)
    destruct (get w t) as [tb|] eqn:E; cbn [fst]; [|assumption].
    repeat match goal with |- context [if ?c then _ else _] => destruct c eqn:?; cbn [fst]; try assumption end.
    apply push_opt_wf; [assumption|]. intros t' Ht'. eapply take_wf; [eapply wwf_get; eassumption|eassumption|].
    match goal with H : _ && nodup_nat choice && _ = true |- _ => apply andb_true_iff in H; destruct H as [H _];
      apply andb_true_iff in H; destruct H as [_ H]; apply nodup_nat_NoDup; exact H end.
  - (* OSetLength *)
    destruct (get w t) as [tb|] eqn:E; cbn [fst]; [|assumption].
    assert (Ht : twf tb) by (eapply wwf_get; eassumption).
    destruct (n <? 0)%Z; cbn [fst]; [assumption|].
    destruct (Nat.ltb (Z.to_nat n) (nrows tb)); cbn [fst].
    + destruct (take (seq 0 (Z.to_nat n)) tb) as [t'|] eqn:Et; cbn [fst]; [|assumption].
      apply wwf_put; [assumption|]. apply rewrap_wf. eapply take_wf; [eassumption|eassumption|apply seq_NoDup].
    + apply wwf_put; [assumption|]. destruct Ht as (H1 & H2 & H3). unfold twf, nrows. cbn [ids slots names].
      split; [apply grow_ids_NoDup; assumption|]. split.
      * apply Forall_forall. intros s Hs. apply in_map_iff in Hs. destruct Hs as [s0 [<- Hin]]. cbn [scells].
        rewrite !app_length, repeat_length, iotaN_length. f_equal.
        rewrite Forall_forall in H2. apply H2. assumption.
      * rewrite map_length. assumption.
  - (* ODelRows *)
    destruct (get w t) as [tb|] eqn:E; cbn [fst]; [|assumption].
    destruct (all_some _) as [dead|]; cbn [fst]; [|assumption].
    match goal with |- context [take ?ps tb] => destruct (take ps tb) as [t'|] eqn:Et end; cbn [fst]; [|assumption].
    apply wwf_put; [assumption|]. apply rewrap_wf. eapply take_wf; [eapply wwf_get; eassumption|eassumption|].
    apply filter_seq_NoDup.
  - (* ODelCol *)
    destruct (get w t) as [tb|] eqn:E; cbn [fst]; [|assumption].
    destruct (has_name tb name); cbn [fst]; [|assumption].
    apply wwf_put; [assumption|]. pose proof (wwf_get _ _ _ Hw E) as (H1 & H2 & H3).
    unfold twf, nrows. cbn [ids slots names]. repeat split; try assumption.
    apply Forall_forall. intros x Hx. apply filter_In in Hx. rewrite Forall_forall in H3. apply H3. tauto.
  - (* ORename *)
    destruct (get w t) as [tb|] eqn:E; cbn [fst]; [|assumption].
    repeat match goal with |- context [if ?c then _ else _] => destruct c; cbn [fst]; [assumption|] end.
    apply wwf_put; [assumption|]. pose proof (wwf_get _ _ _ Hw E) as (H1 & H2 & H3).
    unfold twf, nrows. cbn [ids slots names]. repeat split; try assumption.
    apply Forall_forall. intros x Hx. apply in_map_iff in Hx. destruct Hx as [[m i] [<- Hin]].
    rewrite Forall_forall in H3. specialize (H3 _ Hin). destruct (String.eqb m old); exact H3.
  - (* OConcat *)
    destruct (get w t) as [a|] eqn:E; cbn [fst]; [|assumption].
    destruct (get w t2) as [b|] eqn:E2; cbn [fst]; [|assumption].
    destruct (concat_tables a b (nextfam w)) as [tc|e] eqn:Ec; cbn [fst]; [|assumption].
    apply (wwf_push {| pool := pool w; nextfam := S (nextfam w) |}); [exact Hw|].
    eapply concat_wf; [| |eassumption]; eapply wwf_get; eassumption.
  - (* OSetSorted *)
    destruct (get w t) as [tb|] eqn:E; cbn [fst]; [|assumption].
    apply wwf_put; [assumption|]. exact (wwf_get _ _ _ Hw E).
  - (* OSetColFromSlice *)
    destruct (get w t) as [tb|] eqn:E; cbn [fst]; [|assumption].
    assert (Ht : twf tb) by (eapply wwf_get; eassumption).
    destruct (slot_of tb name2) as [s|]; cbn [fst]; [|assumption].
    destruct (all_some (map (norm_index (nrows tb)) l)) as [ps|]; cbn [fst]; [|assumption].
    destruct (negb (Nat.eqb (List.length ps) (nrows tb))) eqn:En; cbn [fst]; [assumption|].
    apply negb_false_iff, Nat.eqb_eq in En.
    destruct (take_pos ps (scells s)) as [cs|] eqn:Ec; cbn [fst]; [|assumption].
    pose proof (add_slot_wf tb {| skind := skind s; scells := cs |} Ht) as Ha. cbn [scells] in Ha.
    rewrite (take_pos_length _ _ _ Ec) in Ha. specialize (Ha En). destruct Ha as (Hw1 & Hb & _).
    destruct (add_slot tb _) as [t1 i]. cbn [fst snd] in *.
    apply wwf_put; [assumption|]. apply bind_name_wf; assumption.
Qed.

Theorem run_wf ops : forall w, wwf w -> wwf (run ops w).
Proof.
  unfold run. induction ops as [|o ops IH]; intros w Hw; cbn [fold_left]; [assumption|].
  apply IH. apply step_wf. assumption.
Qed.

Corollary run_wf0 ops : wwf (run ops w0).
Proof. apply run_wf. constructor. Qed.
