(* Proofs for Model/StatsOp.v: after the cast of IntColumn._operate the statistics of the result object are the
   statistics of its cells (Model/Stats.v i_stat, proved equal to the textbook ones in Proofs/StatsRefine.v). *)
From Coq Require Import ZArith QArith Qcanon List Bool Lia.
From DM Require Import Base.PyVal Base.QcPy Spec.Nf Spec.Stats Model.Stats Model.StatsOp.
Import ListNotations.

Lemma zlen_map : forall A B (f : A -> B) l, zlen (map f l) = zlen l.
Proof. intros. unfold zlen. rewrite map_length. reflexivity. Qed.

Lemma qtrunc_qz : forall z, qtrunc (qz z) = z.
Proof.
  intro z. unfold qtrunc, qz, Q2Qc. cbn [this].
  rewrite Qred_identity by (simpl; apply Z.gcd_1_r).
  simpl. apply Z.quot_1_r.
Qed.

(* the statistics of the result object are the statistics of the cells read from it *)
Lemma int_result_stat : forall s buf, buf_stat s (int_cast buf) = i_stat s (int_cells buf).
Proof.
  intros. unfold buf_stat, i_stat, int_cast, int_cells.
  rewrite !zlen_map, map_map. reflexivity.
Qed.

(* the cast does not change what the cells are *)
Lemma int_cells_cast : forall buf, int_cells (int_cast buf) = int_cells buf.
Proof.
  intros. unfold int_cells, int_cast. rewrite map_map.
  apply map_ext. intro q. apply qtrunc_qz.
Qed.

Lemma i_vals_map_VInt : forall zs, i_vals (map VInt zs) = Some zs.
Proof. induction zs as [|z r IH]; simpl; [reflexivity|]. rewrite IH. reflexivity. Qed.

(* ... and those of a fresh IntColumn holding these cells *)
Lemma int_result_as_fresh_column :
  forall s buf, buf_stat s (int_cast buf) = l1_stat KInt s (map VInt (int_cells buf)).
Proof. intros. simpl. rewrite i_vals_map_VInt. apply int_result_stat. Qed.

(* a buffer of whole numbers needs no cast *)
Lemma int_cast_whole : forall zs, int_cast (map qz zs) = map qz zs.
Proof.
  intros. unfold int_cast. rewrite map_map. apply map_ext. intro z. rewrite qtrunc_qz. reflexivity.
Qed.
