(* C15, keep_only / dm[...] with columns passed as OBJECTS: BaseColumn.name (a walk over the columns of the
   object's own DataMatrix, kernel k_name_keep / k_name_none / k_name_single) and the dispatch of _colname
   (kernel k_colname) are inside the L1 model (Model.OpsMisc.keep_model_obj).  Here: that model refines the
   name-level model, and -- for arguments that are names or columns of the table itself, no column aliased --
   it returns exactly the columns named or passed (Spec.OpsMisc.keep_by_identity). *)
From Coq Require Import ZArith List Bool String Lia.
From DM Require Import Base.PyVal Spec.Nf Spec.OpsMisc Gen.KOpsMisc Model.OpsMisc Proofs.OpsMiscFacts.
Import ListNotations.
Open Scope Z_scope.

(* ---- kernels through their characterisations only *)
Lemma k_name_keep_spec b : k_name_keep b = b.
Proof. destruct b; reflexivity. Qed.
Lemma k_name_none_spec n : k_name_none n = (n =? 0).
Proof. unfold k_name_none. destruct (n =? 0); reflexivity. Qed.
(* _colname on the three disjoint classes of arguments (a reordering of the two isinstance tests still proves) *)
Lemma k_colname_str (A : Type) (x y : A) : k_colname true false x y = Ok x.
Proof. reflexivity. Qed.
Lemma k_colname_column (A : Type) (x y : A) : k_colname false true x y = Ok y.
Proof. reflexivity. Qed.
Lemma k_colname_other (A : Type) (x y : A) : k_colname false false x y = Raise ValueError.
Proof. reflexivity. Qed.

Lemma names_of_eq self owner : names_of self owner = map fst (filter (fun nc => Nat.eqb (snd nc) self) owner).
Proof. unfold names_of. apply (f_equal (map fst)). apply filter_ext. intros a. apply k_name_keep_spec. Qed.

(* ---- the object-level model refines the name-level one: a column object stands for the names it has *)
Definition resolve (a : oarg) : karg :=
  match a with OStr s => AName s | OColumn self owner => AObj (names_of self owner) | OOther => AOther end.

Lemma colname_obj_resolve a : colname_obj a = colname (resolve a).
Proof.
  unfold colname_obj. destruct a as [s|self owner|];
    [rewrite k_colname_str; reflexivity | rewrite k_colname_column | rewrite k_colname_other; reflexivity].
  cbn [resolve colname]. unfold name_prop. rewrite k_name_none_spec.
  destruct (names_of self owner) as [|n r]; [reflexivity|].
  replace (zlen (n :: r) =? 0) with false; [reflexivity|].
  symmetry. apply Z.eqb_neq. unfold zlen. cbn [List.length]. lia.
Qed.

Lemma map_res_map {A B C} (f : B -> res C) (g : A -> B) l : map_res f (map g l) = map_res (fun x => f (g x)) l.
Proof. induction l; simpl; [reflexivity|]. rewrite IHl. reflexivity. Qed.

Theorem keep_obj_refines t wrapped args : keep_model_obj t wrapped args = keep_model t wrapped (map resolve args).
Proof.
  unfold keep_model_obj, keep_model, keep_gen.
  assert ((if wrapped then if k_keep_unwrap 1 true then map resolve args else [AOther]
           else if k_keep_unwrap (zlen (map resolve args)) false then [] else map resolve args)
          = map resolve (if wrapped then if k_keep_unwrap 1 true then args else [OOther]
                         else if k_keep_unwrap (zlen args) false then [] else args)) as E.
  { unfold zlen. rewrite map_length. destruct wrapped.
    - destruct (k_keep_unwrap 1 true); reflexivity.
    - destruct (k_keep_unwrap (Z.of_nat (List.length args)) false); reflexivity. }
  rewrite E, map_res_map. f_equal. apply map_res_ext. intros a _. apply colname_obj_resolve.
Qed.

(* ---- boolean premises *)
Fixpoint nodup_nat_b (l : list nat) : bool :=
  match l with [] => true | x :: r => negb (existsb (Nat.eqb x) r) && nodup_nat_b r end.
Fixpoint nodup_str_b (l : list string) : bool :=
  match l with [] => true | x :: r => negb (mem_str x r) && nodup_str_b r end.
Fixpoint owner_eqb (a b : list (string * nat)) : bool :=
  match a, b with
  | [], [] => true
  | (n, i) :: a', (m, j) :: b' => String.eqb n m && Nat.eqb i j && owner_eqb a' b'
  | _, _ => false
  end.
(* the argument is a name, or a column object held by the table `owner` itself *)
Definition own_arg_b (owner : list (string * nat)) (a : oarg) : bool :=
  match a with
  | OStr _ => true
  | OColumn self ow => owner_eqb ow owner && existsb (Nat.eqb self) (map snd owner)
  | OOther => false
  end.
(* ids gives every column of t its object identity; no object is held under two names (no alias), names are
   unique (they are dict keys), every argument is a name or one of t's own column objects *)
Definition own_args_b (t : tbl) (ids : list nat) (args : list oarg) : bool :=
  Nat.eqb (List.length ids) (List.length (tcols t)) && nodup_nat_b ids && nodup_str_b (map cname (tcols t))
  && forallb (own_arg_b (own_table t ids)) args.

Lemma existsb_nat_In x l : existsb (Nat.eqb x) l = true <-> In x l.
Proof.
  rewrite existsb_exists. split.
  - intros [y [Hy E]]. apply Nat.eqb_eq in E. subst. exact Hy.
  - intros H. exists x. split; [exact H|apply Nat.eqb_refl].
Qed.
Lemma mem_str_In x l : mem_str x l = true <-> In x l.
Proof.
  induction l as [|y r IH]; simpl; [split; [discriminate|tauto]|].
  rewrite orb_true_iff, IH, String.eqb_eq. split; intros [H|H]; auto.
Qed.
Lemma nodup_nat_b_sound l : nodup_nat_b l = true -> NoDup l.
Proof.
  induction l as [|x r IH]; simpl; intros H; [constructor|].
  apply andb_true_iff in H. destruct H as [H1 H2]. constructor; [|auto].
  intros Hin. apply existsb_nat_In in Hin. rewrite Hin in H1. discriminate.
Qed.
Lemma nodup_str_b_sound l : nodup_str_b l = true -> NoDup l.
Proof.
  induction l as [|x r IH]; simpl; intros H; [constructor|].
  apply andb_true_iff in H. destruct H as [H1 H2]. constructor; [|auto].
  intros Hin. apply mem_str_In in Hin. rewrite Hin in H1. discriminate.
Qed.
Lemma owner_eqb_eq a : forall b, owner_eqb a b = true -> a = b.
Proof.
  induction a as [|[n i] a IH]; intros [|[m j] b]; simpl; intros H; try discriminate; [reflexivity|].
  apply andb_true_iff in H. destruct H as [H H3]. apply andb_true_iff in H. destruct H as [H1 H2].
  apply String.eqb_eq in H1. apply Nat.eqb_eq in H2. subst. f_equal. auto.
Qed.

(* ---- lists paired position by position *)
Lemma map_snd_combine {A B} (l : list A) : forall (m : list B), List.length l = List.length m -> map snd (combine l m) = m.
Proof. induction l; intros [|b m]; simpl; intros H; try discriminate; [reflexivity|]. f_equal. auto. Qed.
Lemma in_combine_map {A B C} (f : A -> C) (l : list A) : forall (m : list B) x i,
  In (x, i) (combine l m) -> In (f x, i) (combine (map f l) m).
Proof.
  induction l; intros [|b m] x i; simpl; try tauto.
  intros [E|H]; [inversion E; subst; auto|right; auto].
Qed.
(* in two duplicate-free lists paired by position, equal first components go with equal second components *)
Lemma combine_nodup {A B} (l : list A) : forall (m : list B) x1 i1 x2 i2, NoDup l -> NoDup m ->
  In (x1, i1) (combine l m) -> In (x2, i2) (combine l m) -> (x1 = x2 <-> i1 = i2).
Proof.
  induction l as [|a l IH]; intros [|b m] x1 i1 x2 i2 Hl Hm; simpl; try tauto.
  inversion Hl; subst. inversion Hm; subst.
  intros [E1|J1] [E2|J2].
  - inversion E1; inversion E2; subst. tauto.
  - inversion E1; subst. pose proof (in_combine_l _ _ _ _ J2). pose proof (in_combine_r _ _ _ _ J2).
    split; intros; subst; contradiction.
  - inversion E2; subst. pose proof (in_combine_l _ _ _ _ J1). pose proof (in_combine_r _ _ _ _ J1).
    split; intros; subst; contradiction.
  - eapply IH; eauto.
Qed.
Lemma filter_combine {A B} (f : A -> bool) (g : A * B -> bool) (l : list A) : forall (m : list B),
  List.length l = List.length m -> (forall x, In x (combine l m) -> f (fst x) = g x) ->
  filter f l = map fst (filter g (combine l m)).
Proof.
  induction l as [|a l IH]; intros [|b m]; simpl; intros Hlen H; try discriminate; [reflexivity|].
  rewrite <- (H (a, b)) by auto. cbn [fst]. destruct (f a); cbn [map fst]; [f_equal|]; apply IH; auto.
Qed.

(* ---- BaseColumn.name of an unaliased column of the table: its one name *)
Lemma filter_absent (names : list string) self : forall ids, ~ In self ids ->
  filter (fun nc : string * nat => Nat.eqb (snd nc) self) (combine names ids) = [].
Proof.
  induction names as [|n names IH]; intros [|i ids]; simpl; intros H; try reflexivity.
  destruct (Nat.eqb_spec i self) as [E|E]; [exfalso; apply H; auto|]. apply IH. tauto.
Qed.
Lemma names_of_single (names : list string) self : forall ids,
  List.length names = List.length ids -> NoDup ids -> In self ids ->
  exists n, names_of self (combine names ids) = [n] /\ In (n, self) (combine names ids).
Proof.
  induction names as [|n names IH]; intros [|i ids]; simpl; intros Hlen Hnd Hin; try discriminate; try tauto.
  inversion Hnd; subst. rewrite names_of_eq. cbn [filter snd]. destruct (Nat.eqb_spec i self) as [E|E].
  - subst. exists n. rewrite filter_absent by assumption. split; [reflexivity|auto].
  - destruct Hin as [Hin|Hin]; [congruence|].
    destruct (IH ids) as [n' [Hn Hi]]; auto. rewrite names_of_eq in Hn. exists n'. split; [exact Hn|auto].
Qed.

Definition arg_name (a : oarg) : string :=
  match a with OStr s => s | OColumn self ow => hd EmptyString (names_of self ow) | OOther => EmptyString end.

Lemma plain_resolve (names : list string) ids args :
  List.length names = List.length ids -> NoDup ids ->
  forallb (own_arg_b (combine names ids)) args = true ->
  plain_args (map resolve args) = Some (map arg_name args).
Proof.
  intros Hlen Hnd. induction args as [|a r IH]; simpl; intros H; [reflexivity|].
  apply andb_true_iff in H. destruct H as [Ha Hr]. rewrite (IH Hr).
  destruct a as [s|self ow|]; simpl in *; try reflexivity; try discriminate.
  apply andb_true_iff in Ha. destruct Ha as [Ho Hs]. apply owner_eqb_eq in Ho. subst ow.
  apply existsb_nat_In in Hs. rewrite map_snd_combine in Hs by assumption.
  destruct (names_of_single names self ids Hlen Hnd Hs) as [n [Hn _]]. rewrite Hn. reflexivity.
Qed.

Lemma mem_str_map {A} n (f : A -> string) l : mem_str n (map f l) = existsb (fun a => String.eqb n (f a)) l.
Proof. induction l; simpl; [reflexivity|]. rewrite IHl. reflexivity. Qed.
Lemma existsb_ext_in {A} (f g : A -> bool) l : (forall a, In a l -> f a = g a) -> existsb f l = existsb g l.
Proof. induction l; simpl; intros H; [reflexivity|]. rewrite (H a) by auto. rewrite IHl by auto. reflexivity. Qed.

(* keep_only(dm, ...), keep_only(dm, [...]) and dm[...] with names and / or column OBJECTS of dm: all rows, and
   exactly the columns that are named or are one of the objects passed -- whatever the current names of those
   objects are and however they got them (the names are looked up in the table, not remembered) *)
Theorem keep_by_object_exact t ids wrapped args :
  own_args_b t ids args = true -> keep_model_obj t wrapped args = Ok (keep_by_identity t ids args).
Proof.
  unfold own_args_b. intros H.
  apply andb_true_iff in H. destruct H as [H Hargs]. apply andb_true_iff in H. destruct H as [H Hns].
  apply andb_true_iff in H. destruct H as [Hlen Hni].
  apply Nat.eqb_eq in Hlen. apply nodup_nat_b_sound in Hni. apply nodup_str_b_sound in Hns.
  assert (List.length (map cname (tcols t)) = List.length ids) as Hlen' by (rewrite map_length; auto).
  unfold own_table in Hargs.
  rewrite keep_obj_refines.
  rewrite (keep_only_exact t wrapped _ _ (plain_resolve _ _ _ Hlen' Hni Hargs)).
  unfold keep_spec, keep_by_identity. f_equal. f_equal.
  apply filter_combine; [auto|]. intros [c i] Hci. cbn [fst snd].
  rewrite mem_str_map. apply existsb_ext_in. intros a Ha.
  rewrite forallb_forall in Hargs. specialize (Hargs a Ha).
  destruct a as [s|self ow|]; simpl in *; try reflexivity; try discriminate.
  apply andb_true_iff in Hargs. destruct Hargs as [Ho Hs]. apply owner_eqb_eq in Ho. subst ow.
  apply existsb_nat_In in Hs. rewrite map_snd_combine in Hs by assumption.
  destruct (names_of_single _ self ids Hlen' Hni Hs) as [n [Hn Hin]]. rewrite Hn. cbn [hd].
  pose proof (combine_nodup _ _ _ _ _ _ Hns Hni (in_combine_map cname _ _ _ _ Hci) Hin) as Hiff.
  destruct (String.eqb_spec (cname c) n) as [E|E], (Nat.eqb_spec i self) as [F|F]; try reflexivity; tauto.
Qed.

(* a column object that belongs to another DataMatrix selects by the name it has THERE; an object its owner no
   longer holds (no name) selects nothing; both are outside the property's quantifier and only described *)
Theorem keep_foreign_by_its_name t wrapped self owner n rest ss :
  names_of self owner = [n] -> plain_args (map resolve rest) = Some ss ->
  keep_model_obj t wrapped (OColumn self owner :: rest) = Ok (keep_spec t (n :: ss)).
Proof.
  intros Hn Hr. rewrite keep_obj_refines. apply keep_only_exact. simpl. rewrite Hn, Hr. reflexivity.
Qed.
