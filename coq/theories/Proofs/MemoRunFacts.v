(* C20: the concrete oracle used by the generated cases (Run/SC20.v) accepts
   every trace of the concrete model used by the generated cases (Run/RC20.v). *)
From Coq Require Import ZArith List Bool Lia.
From DM Require Import Gen.KMemo Spec.Memo Model.Memo Proofs.MemoFacts Proofs.MemoSerialFacts Run.SC20 Run.RC20.
Import ListNotations.
Open Scope Z_scope.

Lemma ckey_inj : forall a b, ckey a = ckey b -> cf a = cf b.
Proof. intros a b H. apply Nat2Z.inj in H. subst. reflexivity. Qed.

Lemma oracle_accepts_model : forall sizes ops,
  Forall (new_ok nat Z Z ckey) ops -> oracle sizes (model_trace sizes ops) = true.
Proof.
  intros sizes ops H. unfold oracle, model_trace.
  rewrite (serial_trace_w0 nat Z Z Z Z cf ckey cthunks (fun v => v) (fun p => p) (csize sizes) Z.eqb Z.eqb
             (fun v => eq_refl)).
  exact (model_accepted_w0 nat Z Z Z cf ckey cthunks (csize sizes) Z.eqb Z.eqb Z.eqb
           Z.eqb_eq Z.eqb_eq Z.eqb_refl ckey_inj ops H).
Qed.
