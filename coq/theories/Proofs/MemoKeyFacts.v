(* Proofs about the key derivation of memoize (C20): Model/MemoKey.v against Spec/MemoKey.v.
   The generated kernels are used through their characterising lemmas only (k_*_spec). *)
From Coq Require Import ZArith NArith List Bool String Ascii DecimalString DecimalZ Lia Permutation Sorting.Sorted.
From DM Require Import Base.PyVal Gen.KMemo Spec.MemoKey Model.MemoKey.
Import ListNotations.
Open Scope N_scope.

(* ---------- characters and texts ---------- *)
Lemma code_inj : forall a b, code a = code b -> a = b.
Proof.
  intros a b H. unfold code in H. rewrite <- (ascii_N_embedding a), <- (ascii_N_embedding b), H. reflexivity.
Qed.
Lemma tx_inj : forall a b, tx a = tx b -> a = b.
Proof.
  intros a b H. unfold tx in H.
  rewrite <- (string_of_list_ascii_of_string a), <- (string_of_list_ascii_of_string b), H. reflexivity.
Qed.
Lemma text_eqb_eq : forall a b, text_eqb a b = true <-> a = b.
Proof.
  induction a as [|x a IH]; destruct b as [|y b]; simpl; split; intros H; try discriminate; auto.
  - apply andb_true_iff in H. destruct H as [H1 H2]. apply Ascii.eqb_eq in H1. apply IH in H2. subst. reflexivity.
  - injection H as -> ->. rewrite Ascii.eqb_refl. apply IH. reflexivity.
Qed.

(* a text without the character q, followed by q, is delimited by it *)
Lemma delim_inj : forall (q : ascii) s s' r r',
  ~ In q s -> ~ In q s' -> s ++ q :: r = s' ++ q :: r' -> s = s' /\ r = r'.
Proof.
  intros q. induction s as [|c s IH]; destruct s' as [|c' s']; simpl; intros r r' H H' E.
  - injection E as E. auto.
  - injection E as E1 E2. exfalso. apply H'. left. auto.
  - injection E as E1 E2. exfalso. apply H. left. auto.
  - injection E as E1 E2. subst c'.
    destruct (IH s' r r') as [A B]; auto. subst. auto.
Qed.

(* ---------- escaping: a backslash before the backslash and before the quote character ---------- *)
Lemma in_range_spec : forall lo hi c, in_range lo hi c = true <-> lo <= code c <= hi.
Proof.
  intros. unfold in_range. rewrite andb_true_iff, !N.leb_le. tauto.
Qed.
Lemma pr_spec : forall c, pr c = true <-> 32 <= code c <= 126.
Proof. intros c. apply in_range_spec. Qed.

Definition esc2 (q c : ascii) : text :=
  if Ascii.eqb c bsl then [bsl; bsl] else if Ascii.eqb c q then [bsl; q] else [c].

(* an escaped text followed by the unescaped quote character is delimited by it, and determines the text *)
Lemma esc2_delim : forall q, q <> bsl -> forall s s' r r',
  flat_map (esc2 q) s ++ q :: r = flat_map (esc2 q) s' ++ q :: r' -> s = s' /\ r = r'.
Proof.
  intros q Hq. induction s as [|c s IH]; destruct s' as [|c' s']; intros r r' E.
  - simpl in E. injection E as E. auto.
  - exfalso. cbn [flat_map app] in E. unfold esc2 in E.
    destruct (Ascii.eqb_spec c' bsl) as [->|N1]; [simpl in E; inversion E; congruence|].
    destruct (Ascii.eqb_spec c' q) as [->|N2]; simpl in E; inversion E; congruence.
  - exfalso. cbn [flat_map app] in E. unfold esc2 in E.
    destruct (Ascii.eqb_spec c bsl) as [->|N1]; [simpl in E; inversion E; congruence|].
    destruct (Ascii.eqb_spec c q) as [->|N2]; simpl in E; inversion E; congruence.
  - cbn [flat_map] in E. rewrite <- !app_assoc in E. unfold esc2 in E at 1 3.
    destruct (Ascii.eqb_spec c bsl) as [->|N1]; destruct (Ascii.eqb_spec c' bsl) as [->|N1'].
    + simpl in E. inversion E as [E']. destruct (IH s' r r' E') as [-> ->]. auto.
    + exfalso. destruct (Ascii.eqb_spec c' q) as [->|N2']; simpl in E; inversion E; congruence.
    + exfalso. destruct (Ascii.eqb_spec c q) as [->|N2]; simpl in E; inversion E; congruence.
    + destruct (Ascii.eqb_spec c q) as [->|N2]; destruct (Ascii.eqb_spec c' q) as [->|N2'].
      * simpl in E. inversion E as [E']. destruct (IH s' r r' E') as [-> ->]. auto.
      * exfalso. simpl in E. inversion E; congruence.
      * exfalso. simpl in E. inversion E; congruence.
      * simpl in E. inversion E as [[Ec E']]. subst c'. destruct (IH s' r r' E') as [-> ->]. auto.
Qed.

Lemma esc2_pr : forall q c, pr q = true -> pr c = true -> forallb pr (esc2 q c) = true.
Proof.
  intros q c Hq Hc. unfold esc2. assert (B : pr bsl = true) by reflexivity.
  destruct (Ascii.eqb c bsl); [reflexivity|].
  destruct (Ascii.eqb c q); cbn [forallb]; rewrite ?B, ?Hq, ?Hc; reflexivity.
Qed.
Lemma flat_esc2_pr : forall q s, pr q = true -> forallb pr s = true -> forallb pr (flat_map (esc2 q) s) = true.
Proof.
  intros q s Hq. induction s as [|c s IH]; simpl; auto. intros H. apply andb_true_iff in H. destruct H as [Hc Hs].
  rewrite forallb_app, (esc2_pr q c Hq Hc), IH; auto.
Qed.

(* ---------- repr of a printable string ---------- *)
Lemma repr_quote_cases : forall s, repr_quote s = q1 \/ repr_quote s = q2.
Proof. intros s. unfold repr_quote. destruct (has q1 s && negb (has q2 s)); auto. Qed.
Lemma repr_str_cons : forall s,
  repr_str s = repr_quote s :: (flat_map (repr_esc (repr_quote s)) s ++ [repr_quote s]).
Proof. reflexivity. Qed.
Lemma repr_esc_pr : forall q c, pr c = true -> repr_esc q c = esc2 q c.
Proof.
  intros q c H. apply pr_spec in H. unfold repr_esc, esc2.
  destruct (Ascii.eqb c bsl); auto. destruct (Ascii.eqb c q); auto.
  destruct (N.eqb_spec (code c) 9); [lia|]. destruct (N.eqb_spec (code c) 10); [lia|].
  destruct (N.eqb_spec (code c) 13); [lia|].
  destruct (N.ltb_spec (code c) 32); [lia|]. destruct (N.eqb_spec (code c) 127); [lia|]. reflexivity.
Qed.
Lemma repr_str_pr : forall s, forallb pr s = true ->
  repr_str s = repr_quote s :: flat_map (esc2 (repr_quote s)) s ++ [repr_quote s].
Proof.
  intros s H. rewrite repr_str_cons. f_equal. f_equal. generalize (repr_quote s). intros q.
  induction s as [|c s IH]; simpl; auto.
  simpl in H. apply andb_true_iff in H. destruct H as [Hc Hs]. rewrite (repr_esc_pr q c Hc), IH; auto.
Qed.
Lemma quote_not_bsl : forall s, repr_quote s <> bsl.
Proof. intros s. destruct (repr_quote_cases s) as [-> | ->]; discriminate. Qed.
Lemma quote_pr : forall s, pr (repr_quote s) = true.
Proof. intros s. destruct (repr_quote_cases s) as [-> | ->]; reflexivity. Qed.
Lemma repr_str_chars : forall s, forallb pr s = true -> forallb pr (repr_str s) = true.
Proof.
  intros s H. rewrite (repr_str_pr s H). cbn [forallb]. rewrite forallb_app. cbn [forallb].
  rewrite (quote_pr s), (flat_esc2_pr _ s (quote_pr s) H). reflexivity.
Qed.

(* ---------- the serialised structure ---------- *)
Section SerInd.
  Variable P : ser -> Prop.
  Hypothesis HS : forall s, P (SStr s).
  Hypothesis HL : forall l, Forall P l -> P (SList l).
  Hypothesis HD : forall d, Forall (fun kv => P (snd kv)) d -> P (SDict d).
  Fixpoint ser_ind' (x : ser) : P x :=
    match x with
    | SStr s => HS s
    | SList l => HL l ((fix go (l : list ser) : Forall P l :=
                          match l with [] => Forall_nil _ | y :: r => Forall_cons y (ser_ind' y) (go r) end) l)
    | SDict d => HD d ((fix go (d : list (text * ser)) : Forall (fun kv => P (snd kv)) d :=
                          match d with [] => Forall_nil _ | kv :: r => Forall_cons kv (ser_ind' (snd kv)) (go r) end) d)
    end.
End SerInd.

(* every string in it is printable ASCII *)
Fixpoint ser_okb (x : ser) : bool :=
  match x with
  | SStr s => forallb pr s
  | SList l => forallb ser_okb l
  | SDict d => forallb (fun kv => forallb pr (fst kv) && ser_okb (snd kv)) d
  end.

Definition opener (c : ascii) : Prop := c = q1 \/ c = q2 \/ c = "["%char \/ c = "{"%char.
Lemma repr_ser_head : forall x, ser_okb x = true -> exists c r, repr_ser x = c :: r /\ opener c.
Proof.
  intros [s|l|d] H; simpl in *.
  - rewrite repr_str_cons. eexists _, _. split; [reflexivity|].
    destruct (repr_quote_cases s) as [-> | ->]; [left|right; left]; auto.
  - eexists _, _. split; [reflexivity|]. right; right; left; auto.
  - eexists _, _. split; [reflexivity|]. right; right; right; auto.
Qed.

(* items printed by a self-delimiting printer, separated by ", " and closed by c *)
Section Bracket.
  Variable X : Type.
  Variable p : X -> text.
  Variable ok : X -> Prop.
  Variable c : ascii.
  Hypothesis c_not_comma : c <> ","%char.
  Definition selfdelim (x : X) : Prop :=
    forall y r r', ok y -> p x ++ r = p y ++ r' -> x = y /\ r = r'.
  Definition starts_other (x : X) : Prop := exists h t, p x = h :: t /\ h <> c.

  Lemma join_tail_inj : forall xs ys r r',
    Forall selfdelim xs -> Forall ok ys ->
    join_tail (map p xs) ++ c :: r = join_tail (map p ys) ++ c :: r' -> xs = ys /\ r = r'.
  Proof.
    induction xs as [|x xs IH]; destruct ys as [|y ys]; simpl; intros r r' Hx Hy E.
    - injection E as E. auto.
    - injection E as E1 E2. contradiction.
    - injection E as E1 E2. exfalso. apply c_not_comma. auto.
    - injection E as E. rewrite <- !app_assoc in E.
      inversion Hx as [|? ? Hx1 Hx2]. inversion Hy as [|? ? Hy1 Hy2]. subst.
      destruct (Hx1 y _ _ Hy1 E) as [A B]. subst y.
      destruct (IH ys r r' Hx2 Hy2 B) as [C D]. subst. auto.
  Qed.

  Lemma join_inj : forall xs ys r r',
    Forall selfdelim xs -> Forall ok ys -> Forall starts_other xs -> Forall starts_other ys ->
    join (map p xs) ++ c :: r = join (map p ys) ++ c :: r' -> xs = ys /\ r = r'.
  Proof.
    intros [|x xs] [|y ys] r r' Hx Hy Sx Sy E; simpl in E.
    - injection E as E. auto.
    - inversion Sy as [|? ? (h & t & Eh & Nh) _]. subst. rewrite <- app_assoc, Eh in E. simpl in E.
      injection E as E1 E2. exfalso. apply Nh. auto.
    - inversion Sx as [|? ? (h & t & Eh & Nh) _]. subst. rewrite <- app_assoc, Eh in E. simpl in E.
      injection E as E1 E2. exfalso. apply Nh. auto.
    - rewrite <- !app_assoc in E.
      inversion Hx as [|? ? Hx1 Hx2]. inversion Hy as [|? ? Hy1 Hy2]. subst.
      destruct (Hx1 y _ _ Hy1 E) as [A B]. subst y.
      destruct (join_tail_inj xs ys r r' Hx2 Hy2 B) as [C D]. subst. auto.
  Qed.
End Bracket.

Definition ser_selfdelim (x : ser) : Prop :=
  ser_okb x = true ->
  forall y r r', ser_okb y = true -> repr_ser x ++ r = repr_ser y ++ r' -> x = y /\ r = r'.

Lemma opener_neq : forall c d, opener c -> d <> q1 -> d <> q2 -> d <> "["%char -> d <> "{"%char -> c <> d.
Proof. intros c d [->|[->|[->| ->]]] A A2 B C E; subst; contradiction. Qed.

Lemma repr_str_delim : forall k k' r r', forallb pr k = true -> forallb pr k' = true ->
  repr_str k ++ r = repr_str k' ++ r' -> k = k' /\ r = r'.
Proof.
  intros k k' r r' H H' E. rewrite (repr_str_pr k H), (repr_str_pr k' H') in E.
  cbn [app] in E. injection E as Eq E. rewrite <- Eq in E. rewrite <- !app_assoc in E. cbn [app] in E.
  apply (esc2_delim _ (quote_not_bsl k)) in E. exact E.
Qed.
Lemma repr_str_not : forall s r c t, c <> q1 -> c <> q2 -> repr_str s ++ r <> c :: t.
Proof.
  intros s r c t A B E. rewrite repr_str_cons in E. cbn [app] in E. injection E as E _.
  destruct (repr_quote_cases s) as [Q|Q]; rewrite Q in E; subst; contradiction.
Qed.

Lemma repr_ser_selfdelim : forall x, ser_selfdelim x.
Proof.
  induction x as [s|l IH|d IH] using ser_ind'; intros Hx y r r' Hy E.
  - (* a string *)
    destruct y as [s'|l'|d']; simpl in Hx, Hy.
    + cbn [repr_ser app] in E. destruct (repr_str_delim s s' r r' Hx Hy E) as [A B]. subst. auto.
    + cbn [repr_ser app] in E. exfalso. revert E. apply repr_str_not; discriminate.
    + cbn [repr_ser app] in E. exfalso. revert E. apply repr_str_not; discriminate.
  - (* a list *)
    destruct y as [s'|l'|d']; simpl in Hx, Hy.
    + cbn [repr_ser app] in E. exfalso. symmetry in E. revert E. apply repr_str_not; discriminate.
    + cbn [repr_ser app] in E. injection E as E. rewrite <- !app_assoc in E. cbn [repr_ser app] in E.
      rewrite forallb_forall in Hx, Hy.
      assert (S : forall z, ser_okb z = true -> starts_other ser repr_ser "]"%char z).
      { intros z Hz. destruct (repr_ser_head z Hz) as (h & t & Eh & Oh). exists h, t. split; auto.
        apply (opener_neq h _ Oh); discriminate. }
      destruct (join_inj ser repr_ser (fun z => ser_okb z = true) "]"%char ltac:(discriminate) l l' r r') as [A B]; auto.
      * rewrite Forall_forall in *. intros z Hz. intros y' r1 r2 Hy' E'. apply (IH z Hz (Hx z Hz) y' r1 r2 Hy' E').
      * apply Forall_forall. intros z Hz. auto.
      * apply Forall_forall. intros z Hz. auto.
      * apply Forall_forall. intros z Hz. auto.
      * subst. auto.
    + cbn [repr_ser app] in E. discriminate E.
  - (* a dict *)
    destruct y as [s'|l'|d']; simpl in Hx, Hy.
    + cbn [repr_ser app] in E. exfalso. symmetry in E. revert E. apply repr_str_not; discriminate.
    + cbn [repr_ser app] in E. discriminate E.
    + cbn [repr_ser app] in E. injection E as E. rewrite <- !app_assoc in E. cbn [repr_ser app] in E.
      rewrite forallb_forall in Hx, Hy.
      set (p := fun kv : text * ser => let '(k, v) := kv in repr_str k ++ ":"%char :: " "%char :: repr_ser v) in *.
      set (okp := fun kv : text * ser => forallb pr (fst kv) && ser_okb (snd kv) = true).
      assert (S : forall z, okp z -> starts_other (text * ser) p "}"%char z).
      { intros [k v] Hz. unfold okp in Hz. simpl in Hz. apply andb_true_iff in Hz. destruct Hz as [Hk Hv].
        unfold starts_other, p. cbv beta iota. rewrite repr_str_cons. eexists _, _. split; [reflexivity|].
        destruct (repr_quote_cases k) as [-> | ->]; discriminate. }
      destruct (join_inj (text * ser) p okp "}"%char ltac:(discriminate) d d' r r') as [A B]; auto.
      * rewrite Forall_forall in *. intros [k v] Hz [k' v'] r1 r2 Hy' E'.
        pose proof (Hx _ Hz) as Hkv. simpl in Hkv. apply andb_true_iff in Hkv. destruct Hkv as [Hk Hv].
        unfold okp in Hy'. simpl in Hy'. apply andb_true_iff in Hy'. destruct Hy' as [Hk' Hv'].
        unfold p in E'. rewrite <- !app_assoc in E'.
        destruct (repr_str_delim k k' _ _ Hk Hk' E') as [A B]. subst k'. simpl in B. injection B as B.
        destruct (IH (k, v) Hz Hv v' r1 r2 Hv' B) as [C D]. subst. auto.
      * apply Forall_forall. intros z Hz. apply (Hy z Hz).
      * apply Forall_forall. intros z Hz. apply S. apply (Hx z Hz).
      * apply Forall_forall. intros z Hz. apply S. apply (Hy z Hz).
      * subst. auto.
Qed.

Lemma repr_ser_inj : forall x y, ser_okb x = true -> ser_okb y = true -> repr_ser x = repr_ser y -> x = y.
Proof.
  intros x y Hx Hy E.
  destruct (repr_ser_selfdelim x Hx y [] [] Hy) as [A _]; auto. rewrite !app_nil_r. exact E.
Qed.

(* ---------- sorted(items, key=...) ---------- *)
Lemma text_leb_total : forall a b, text_leb a b = true \/ text_leb b a = true.
Proof.
  induction a as [|x a IH]; destruct b as [|y b]; simpl; auto.
  destruct (N.ltb_spec (code x) (code y)); auto.
  destruct (N.ltb_spec (code y) (code x)); auto.
Qed.
Lemma text_leb_trans : forall a b c, text_leb a b = true -> text_leb b c = true -> text_leb a c = true.
Proof.
  induction a as [|x a IH]; destruct b as [|y b]; destruct c as [|z c]; simpl; auto; try discriminate.
  destruct (N.ltb_spec (code x) (code y)); destruct (N.ltb_spec (code y) (code z));
    destruct (N.ltb_spec (code x) (code z)); auto; try lia;
    destruct (N.ltb_spec (code y) (code x)); destruct (N.ltb_spec (code z) (code y));
    destruct (N.ltb_spec (code z) (code x)); auto; try lia; try discriminate.
  apply IH.
Qed.
Lemma text_leb_antisym : forall a b, text_leb a b = true -> text_leb b a = true -> a = b.
Proof.
  induction a as [|x a IH]; destruct b as [|y b]; simpl; auto; try discriminate.
  destruct (N.ltb_spec (code x) (code y)); destruct (N.ltb_spec (code y) (code x)); try lia; try discriminate.
  intros H1 H2. assert (E : code x = code y) by lia. apply code_inj in E. subst. f_equal. auto.
Qed.

Section SortFacts.
  Variable X : Type.
  Variable key : X -> text.
  Definition kle (x y : X) : Prop := text_leb (key x) (key y) = true.

  Lemma insert_perm : forall x l, Permutation (insert_by key x l) (x :: l).
  Proof.
    intros x. induction l as [|y r IH]; simpl; auto.
    destruct (text_leb (key x) (key y)); auto.
    eapply perm_trans; [apply perm_skip; exact IH|apply perm_swap].
  Qed.
  Lemma sort_perm : forall l, Permutation (sort_by key l) l.
  Proof.
    induction l as [|x l IH]; simpl; auto.
    eapply perm_trans; [apply insert_perm|apply perm_skip; exact IH].
  Qed.
  Lemma insert_sorted : forall x l, StronglySorted kle l -> StronglySorted kle (insert_by key x l).
  Proof.
    intros x. induction l as [|y r IH]; simpl; intros H.
    - constructor; constructor.
    - inversion H as [|? ? Hr Hy]. subst. destruct (text_leb (key x) (key y)) eqn:E.
      + constructor; auto. constructor; auto.
        eapply Forall_impl; [|exact Hy]. intros z Hz. unfold kle in *. eapply text_leb_trans; eauto.
      + constructor; auto. apply Forall_forall. intros z Hz.
        apply (Permutation_in _ (insert_perm x r)) in Hz. destruct Hz as [<-|Hz].
        * unfold kle. destruct (text_leb_total (key x) (key y)); congruence.
        * rewrite Forall_forall in Hy. auto.
  Qed.
  Lemma sort_sorted : forall l, StronglySorted kle (sort_by key l).
  Proof. induction l as [|x l IH]; simpl; [constructor|apply insert_sorted; exact IH]. Qed.

  Lemma sorted_unique : forall l l', StronglySorted kle l -> StronglySorted kle l' -> Permutation l l' ->
    (forall x y, In x l -> In y l -> key x = key y -> x = y) -> l = l'.
  Proof.
    induction l as [|x r IH]; intros l' S S' Pm D.
    - apply Permutation_nil in Pm. auto.
    - destruct l' as [|y r']; [apply Permutation_sym, Permutation_nil in Pm; discriminate|].
      inversion S as [|? ? Sr Hx]. inversion S' as [|? ? Sr' Hy]. subst.
      assert (E : x = y).
      { assert (Hx' : In x (y :: r')) by (apply (Permutation_in _ Pm); left; auto).
        assert (Hy' : In y (x :: r)) by (apply (Permutation_in _ (Permutation_sym Pm)); left; auto).
        destruct Hx' as [Hx'|Hx']; auto. destruct Hy' as [Hy'|Hy']; auto.
        rewrite Forall_forall in Hx, Hy. apply D; [left; auto|right; auto|].
        apply text_leb_antisym; [apply (Hx y Hy')|apply (Hy x Hx')]. }
      subst y. f_equal. apply IH; auto.
      + eapply Permutation_cons_inv; eauto.
      + intros a b Ha Hb. apply D; right; auto.
  Qed.

  Lemma sort_perm_eq : forall l l', Permutation l l' ->
    (forall x y, In x l -> In y l -> key x = key y -> x = y) -> sort_by key l = sort_by key l'.
  Proof.
    intros l l' Pm D. apply sorted_unique; auto using sort_sorted.
    - eapply perm_trans; [apply sort_perm|]. eapply perm_trans; [exact Pm|apply Permutation_sym, sort_perm].
    - intros x y Hx Hy. apply D; apply (Permutation_in _ (sort_perm l)); auto.
  Qed.
End SortFacts.

(* ---------- the generated kernels, characterised ---------- *)
(* the dispatch chain on the answers the tests give for the objects of the alphabet (only those: the chain may
   test in any order that routes these eight kinds of object alike) *)
Lemma k_serialize_obj_classes :
  k_serialize_obj false false false false false false false = BDumps            (* int, float, bool, None *)
  /\ k_serialize_obj false false false false true true false = BDumps          (* str: a Sequence, but a basestring *)
  /\ k_serialize_obj false false false false true false false = BArgs          (* list, tuple *)
  /\ k_serialize_obj false false false true false false false = BKwargs        (* dict *)
  /\ k_serialize_obj false false false false false false true = BToJson        (* DataMatrix *)
  /\ k_serialize_obj false true true false false false false = BName           (* callable with a name *)
  /\ k_serialize_obj false true false false false false false = BLit "__nameless__".   (* callable without *)
Proof. repeat split; reflexivity. Qed.
(* a number that is also callable (CallableFloat: what col.mean, col.max ... return) takes the branch of the numbers,
   whatever hasattr(obj, '__name__') answers *)
Lemma k_serialize_obj_callable_value : forall hn, k_serialize_obj true true hn false false false false = BDumps.
Proof. intros [|]; reflexivity. Qed.
Lemma k_kwsort_key_spec : forall (Kt Vt T : Type) (repr : Kt -> T) (kv : Kt * Vt),
  k_kwsort_key repr kv = repr (fst kv).
Proof. reflexivity. Qed.
Lemma k_memkey_parts_spec : forall (T : Type) (a b c : T), k_memkey_parts a b c = [a; b; c].
Proof. reflexivity. Qed.

(* ---------- scalars ---------- *)
Lemma forallb_impl : forall (X : Type) (p q : X -> bool) l,
  (forall x, p x = true -> q x = true) -> forallb p l = true -> forallb q l = true.
Proof.
  intros X p q l H. induction l as [|x l IH]; simpl; auto. intros E. apply andb_true_iff in E.
  destruct E as [E1 E2]. rewrite (H x E1), (IH E2). reflexivity.
Qed.

Definition dm_char (c : ascii) : bool := is_digit c || is_minus c.
Lemma pr_intro : forall c, 32 <= code c <= 126 -> pr c = true.
Proof. intros c R. apply pr_spec. exact R. Qed.
Lemma dm_char_spec : forall c, dm_char c = true -> 48 <= code c <= 57 \/ code c = 45.
Proof.
  intros c H. unfold dm_char, is_digit, is_minus in H. apply orb_true_iff in H. destruct H as [H|H].
  - left. apply in_range_spec. exact H.
  - right. apply N.eqb_eq. exact H.
Qed.
Lemma dm_char_pr : forall c, dm_char c = true -> pr c = true.
Proof. intros c H. apply dm_char_spec in H. apply pr_intro; lia. Qed.

Lemma uint_chars : forall d, forallb dm_char (tx (NilEmpty.string_of_uint d)) = true.
Proof. induction d; simpl; auto. Qed.
Lemma json_int_chars : forall z, forallb dm_char (json_int z) = true.
Proof.
  intros z. unfold json_int. destruct (Z.to_int z) as [d|d]; simpl; apply uint_chars.
Qed.
Lemma json_int_inj : forall a b, json_int a = json_int b -> a = b.
Proof.
  intros a b H. unfold json_int in H. apply tx_inj in H.
  assert (E : Some (Z.to_int a) = Some (Z.to_int b)) by (rewrite <- !NilEmpty.isi, H; reflexivity).
  injection E as E. rewrite <- (DecimalZ.of_to a), <- (DecimalZ.of_to b), E. reflexivity.
Qed.

Lemma utf8_ascii : forall t, Forall (fun n => n < 128) t -> utf8_decode t = t.
Proof.
  induction t as [|b t IH]; intros H; simpl; auto. inversion H as [|? ? Hb Ht]. subst.
  destruct (N.ltb_spec b 128); [|lia]. rewrite IH; auto.
Qed.
Lemma json_esc_pr : forall c, pr c = true -> json_esc (code c) = esc2 q2 c.
Proof.
  intros c H. apply pr_spec in H. unfold esc2.
  destruct (Ascii.eqb_spec c bsl) as [->|N1]; [reflexivity|].
  destruct (Ascii.eqb_spec c q2) as [->|N2]; [reflexivity|].
  assert (A : code c <> 92) by (intros E; apply N1; apply code_inj; exact E).
  assert (B : code c <> 34) by (intros E; apply N2; apply code_inj; exact E).
  unfold json_esc.
  repeat match goal with |- context [N.eqb (code c) ?k] => destruct (N.eqb_spec (code c) k); [lia|] end.
  destruct (N.leb_spec 32 (code c)); [|lia]. destruct (N.leb_spec (code c) 126); [|lia]. simpl.
  unfold chr, code. rewrite ascii_N_embedding. reflexivity.
Qed.
Lemma json_str_pr : forall s, forallb pr (tx s) = true -> json_str s = q2 :: flat_map (esc2 q2) (tx s) ++ [q2].
Proof.
  intros s H. unfold json_str. f_equal. f_equal.
  rewrite utf8_ascii.
  - induction (tx s) as [|c t IH]; simpl; auto. simpl in H. apply andb_true_iff in H. destruct H as [Hc Ht].
    rewrite (json_esc_pr c Hc), IH; auto.
  - apply Forall_forall. intros n Hn. apply in_map_iff in Hn. destruct Hn as (c & <- & Hc).
    rewrite forallb_forall in H. apply H, pr_spec in Hc. lia.
Qed.
Lemma json_str_inj : forall s s', forallb pr (tx s) = true -> forallb pr (tx s') = true ->
  json_str s = json_str s' -> s = s'.
Proof.
  intros s s' H H' E. rewrite (json_str_pr s H), (json_str_pr s' H') in E. injection E as E.
  apply (esc2_delim q2 ltac:(discriminate)) in E. destruct E as [E _]. apply tx_inj. exact E.
Qed.
Lemma json_str_chars : forall s, forallb pr (tx s) = true -> forallb pr (json_str s) = true.
Proof.
  intros s H. rewrite (json_str_pr s H). cbn [forallb]. rewrite forallb_app. cbn [forallb].
  assert (P2 : pr q2 = true) by reflexivity. rewrite P2, (flat_esc2_pr q2 _ P2 H). reflexivity.
Qed.

(* which kind of object wrote a string of the serialisation: read off the text *)
Inductive kind := KInt | KFloat | KBool | KStr | KNone | KDM | KFun.
Definition classify (t : text) : kind :=
  match t with
  | [] => KInt
  | c :: _ =>
      if code c =? 34 then KStr
      else if code c =? 123 then KDM
      else if dm_char c then (if forallb dm_char t then KInt else KFloat)
      else if text_eqb t (tx "true") || text_eqb t (tx "false") then KBool
      else if text_eqb t (tx "null") then KNone
      else KFun
  end.

Definition leaf (a : arg) : bool :=
  match a with AList _ | ATuple _ | ADict _ => false | _ => true end.
Definition kind_of (a : arg) : kind :=
  match a with
  | AInt _ => KInt | AFloat _ => KFloat | ABool _ => KBool | AStr _ => KStr | ANone => KNone
  | ADM _ => KDM | _ => KFun
  end.

Section ArgInd.
  Variable P : arg -> Prop.
  Hypothesis Hint : forall z, P (AInt z).
  Hypothesis Hfloat : forall f, P (AFloat f).
  Hypothesis Hbool : forall b, P (ABool b).
  Hypothesis Hstr : forall s, P (AStr s).
  Hypothesis Hnone : P ANone.
  Hypothesis Hlist : forall l, Forall P l -> P (AList l).
  Hypothesis Htuple : forall l, Forall P l -> P (ATuple l).
  Hypothesis Hdict : forall d, Forall (fun kv => P (snd kv)) d -> P (ADict d).
  Hypothesis Hdm : forall j, P (ADM j).
  Hypothesis Hfun : forall n, P (AFun n).
  Fixpoint arg_ind' (a : arg) : P a :=
    match a with
    | AInt z => Hint z | AFloat f => Hfloat f | ABool b => Hbool b | AStr s => Hstr s | ANone => Hnone
    | AList l => Hlist l ((fix go (l : list arg) : Forall P l :=
                             match l with [] => Forall_nil _ | y :: r => Forall_cons y (arg_ind' y) (go r) end) l)
    | ATuple l => Htuple l ((fix go (l : list arg) : Forall P l :=
                             match l with [] => Forall_nil _ | y :: r => Forall_cons y (arg_ind' y) (go r) end) l)
    | ADict d => Hdict d ((fix go (d : list (string * arg)) : Forall (fun kv => P (snd kv)) d :=
                             match d with [] => Forall_nil _ | kv :: r => Forall_cons kv (arg_ind' (snd kv)) (go r) end) d)
    | ADM j => Hdm j | AFun n => Hfun n
    end.
End ArgInd.

(* the two inner loops of arg_eqvb, named *)
Fixpoint seq_eqvb (l l' : list arg) : bool :=
  match l, l' with
  | [], [] => true
  | x :: r, y :: r' => arg_eqvb x y && seq_eqvb r r'
  | _, _ => false
  end.
Fixpoint dict_sub (d d' : list (string * arg)) : bool :=
  match d with
  | [] => true
  | (k, v) :: r => match alookup k d' with Some v' => arg_eqvb v v' | None => false end && dict_sub r d'
  end.
Lemma arg_eqvb_seq : forall l l', 
  (arg_eqvb (AList l) (AList l') = seq_eqvb l l') /\ (arg_eqvb (AList l) (ATuple l') = seq_eqvb l l') /\
  (arg_eqvb (ATuple l) (AList l') = seq_eqvb l l') /\ (arg_eqvb (ATuple l) (ATuple l') = seq_eqvb l l').
Proof.
  assert (H : forall l l', (fix go (l l' : list arg) : bool :=
             match l, l' with
             | [], [] => true
             | x :: r, y :: r' => arg_eqvb x y && go r r'
             | _, _ => false
             end) l l' = seq_eqvb l l').
  { induction l as [|x l IH]; destruct l' as [|y l']; simpl; auto; try (rewrite IH; reflexivity). }
  intros l l'. simpl. rewrite !H. auto.
Qed.
Lemma arg_eqvb_dict : forall d d',
  arg_eqvb (ADict d) (ADict d') = Nat.eqb (List.length d) (List.length d') && dict_sub d d'.
Proof.
  intros d d'. simpl. f_equal. induction d as [|[k v] r IH]; simpl; auto. rewrite IH. reflexivity.
Qed.

Lemma alookup_In : forall X k (d : list (string * X)) v, alookup k d = Some v -> In (k, v) d.
Proof.
  intros X k. induction d as [|[k' v'] r IH]; simpl; intros v H; [discriminate|].
  destruct (String.eqb_spec k k') as [->|N].
  - injection H as ->. left; auto.
  - right. auto.
Qed.
Lemma alookup_None : forall X k (d : list (string * X)) v, alookup k d = None -> ~ In (k, v) d.
Proof.
  intros X k. induction d as [|[k' v'] r IH]; simpl; intros v H; [tauto|].
  destruct (String.eqb_spec k k') as [->|N]; [discriminate|].
  intros [E|E]; [injection E as E1 E2; subst; contradiction|]. apply (IH v H E).
Qed.
Lemma alookup_distinct : forall X (d : list (string * X)) k v,
  keys_distinct d = true -> In (k, v) d -> alookup k d = Some v.
Proof.
  intros X. induction d as [|[k' v'] r IH]; simpl; intros k v H Hin; [contradiction|].
  destruct (alookup k' r) eqn:E; [discriminate|].
  destruct Hin as [Hin|Hin].
  - injection Hin as -> ->. rewrite String.eqb_refl. reflexivity.
  - destruct (String.eqb_spec k k') as [->|N].
    + exfalso. apply (alookup_None _ _ _ v E). exact Hin.
    + apply IH; auto.
Qed.
Lemma dict_sub_spec : forall d d',
  dict_sub d d' = true <->
  (forall k v, In (k, v) d -> exists v', alookup k d' = Some v' /\ arg_eqvb v v' = true).
Proof.
  induction d as [|[k v] r IH]; intros d'; simpl.
  - split; auto. intros _ k v [].
  - rewrite andb_true_iff, IH. split.
    + intros [H1 H2] k0 v0 [E|Hin]; [|apply H2; auto]. injection E as <- <-.
      destruct (alookup k d'); [|discriminate]. eauto.
    + intros H. split.
      * destruct (H k v (or_introl eq_refl)) as (v' & E & Hv). rewrite E. exact Hv.
      * intros k0 v0 Hin. apply H. right; auto.
Qed.

Lemma keys_distinct_NoDup : forall X (d : list (string * X)), keys_distinct d = true -> NoDup d.
Proof.
  intros X. induction d as [|[k v] r IH]; simpl; intros H; [constructor|].
  destruct (alookup k r) eqn:E; [discriminate|]. constructor; auto. apply (alookup_None _ _ _ v E).
Qed.

Lemma fl_same_eq : forall f g, fl_same f g = true <-> f = g.
Proof.
  intros f g. split.
  - destruct f, g; simpl; intros H; try discriminate; auto.
    + apply Bool.eqb_prop in H. subst. auto.
    + apply Bool.eqb_prop in H. subst. auto.
    + apply andb_true_iff in H. destruct H as [H H3]. apply andb_true_iff in H. destruct H as [H1 H2].
      apply Bool.eqb_prop in H1. apply Pos.eqb_eq in H2. apply Z.eqb_eq in H3. subst. auto.
  - intros <-. destruct f; simpl; auto using Bool.eqb_reflx.
    rewrite Bool.eqb_reflx, Pos.eqb_refl, Z.eqb_refl. reflexivity.
Qed.

Section KeyFacts.
  Variable float_repr : fl -> text.
  Hypothesis float_repr_inj : forall f g,
    float_okb f = true -> float_okb g = true -> float_repr f = float_repr g -> f = g.
  Hypothesis float_repr_shape : forall f, float_okb f = true -> float_textb (float_repr f) = true.

  Notation ser_arg := (ser_arg float_repr).
  Notation ser_args := (ser_args float_repr).
  Notation ser_kwargs := (ser_kwargs float_repr).

  Definition leaf_text (a : arg) : text :=
    match a with
    | AInt z => json_int z | AFloat f => float_repr f | ABool b => json_bool b | AStr s => json_str s
    | ANone => json_null | ADM j => tx j | AFun (Some n) => tx n | AFun None => tx "__nameless__"
    | _ => []
    end.
  (* the dispatch chain routes every kind of object to its branch *)
  Lemma ser_arg_leaf : forall a, leaf a = true -> ser_arg a = SStr (leaf_text a).
  Proof.
    destruct k_serialize_obj_classes as (C1 & C2 & _ & _ & C5 & C6 & C7).
    intros a H. destruct a as [z|f|b|s| |l|l|d|j|[n|]]; try discriminate H;
      cbn [MemoKey.ser_arg is_callable has_name is_dict is_seq is_str is_dm];
      rewrite ?C1, ?C2, ?C5, ?C6, ?C7; reflexivity.
  Qed.
  Lemma ser_arg_list : forall l, ser_arg (AList l) = ser_args l.
  Proof.
    destruct k_serialize_obj_classes as (_ & _ & C3 & _).
    intros l. cbn [MemoKey.ser_arg is_callable has_name is_dict is_seq is_str is_dm]. rewrite C3. reflexivity.
  Qed.
  Lemma ser_arg_tuple : forall l, ser_arg (ATuple l) = ser_args l.
  Proof.
    destruct k_serialize_obj_classes as (_ & _ & C3 & _).
    intros l. cbn [MemoKey.ser_arg is_callable has_name is_dict is_seq is_str is_dm]. rewrite C3. reflexivity.
  Qed.
  Lemma ser_arg_dict : forall d, ser_arg (ADict d) = ser_kwargs d.
  Proof.
    destruct k_serialize_obj_classes as (_ & _ & _ & C4 & _).
    intros d. cbn [MemoKey.ser_arg is_callable has_name is_dict is_seq is_str is_dm]. rewrite C4. reflexivity.
  Qed.

  Lemma float_text_facts : forall f, float_okb f = true ->
    forallb pr (float_repr f) = true /\ classify (float_repr f) = KFloat.
  Proof.
    intros f H. apply float_repr_shape in H. unfold float_textb in H.
    apply andb_true_iff in H. destruct H as [H H3]. apply andb_true_iff in H. destruct H as [H1 H2]. split.
    - eapply forallb_impl; [|exact H1]. intros c Hc. unfold float_char, is_digit, is_minus in Hc.
      repeat (apply orb_true_iff in Hc; destruct Hc as [Hc|Hc]);
        try (apply in_range_spec in Hc); try (apply N.eqb_eq in Hc); apply pr_intro; lia.
    - destruct (float_repr f) as [|c t] eqn:E; [discriminate|]. unfold classify.
      fold (dm_char c) in H2. pose proof (dm_char_spec c H2) as R.
      destruct (N.eqb_spec (code c) 34); [lia|]. destruct (N.eqb_spec (code c) 123); [lia|]. rewrite H2.
      destruct (forallb dm_char (c :: t)) eqn:F; auto. exfalso.
      apply existsb_exists in H3. destruct H3 as (x & Hin & Hx). rewrite forallb_forall in F.
      apply F, dm_char_spec in Hin. apply orb_true_iff in Hx. destruct Hx as [Hx|Hx]; apply N.eqb_eq in Hx; lia.
  Qed.

  Lemma name_facts : forall t, name_okb t = true -> forallb pr t = true /\ classify t = KFun /\ reserved t = false.
  Proof.
    intros t H. unfold name_okb in H. apply andb_true_iff in H. destruct H as [H R].
    apply negb_true_iff in R. destruct t as [|c r]; [discriminate|]. apply andb_true_iff in H. destruct H as [Hc Hr].
    assert (S : forall x, ident_start x = true -> (65 <= code x <= 90 \/ 97 <= code x <= 122 \/ code x = 95)).
    { intros x Hx. unfold ident_start in Hx. repeat (apply orb_true_iff in Hx; destruct Hx as [Hx|Hx]);
        try (apply in_range_spec in Hx); try (apply N.eqb_eq in Hx); auto. }
    split; [|split; auto].
    - simpl. rewrite (pr_intro c) by (apply S in Hc; lia). simpl.
      eapply forallb_impl; [|exact Hr]. intros x Hx. unfold ident_char in Hx. apply orb_true_iff in Hx.
      destruct Hx as [Hx|Hx]; [apply S in Hx|apply in_range_spec in Hx]; apply pr_intro; lia.
    - unfold classify. apply S in Hc.
      destruct (N.eqb_spec (code c) 34); [lia|]. destruct (N.eqb_spec (code c) 123); [lia|].
      destruct (dm_char c) eqn:D; [apply dm_char_spec in D; lia|].
      unfold reserved in R. apply orb_false_iff in R. destruct R as [R _]. apply orb_false_iff in R.
      destruct R as [R R3]. apply orb_false_iff in R. destruct R as [R1 R2]. rewrite R1, R2, R3. reflexivity.
  Qed.

  Lemma dm_facts : forall t, dm_okb t = true -> forallb pr t = true /\ classify t = KDM.
  Proof.
    intros t H. unfold dm_okb in H. apply andb_true_iff in H. destruct H as [H1 H2]. split; auto.
    destruct t as [|c r]; [discriminate|]. unfold classify. apply N.eqb_eq in H1.
    destruct (N.eqb_spec (code c) 34); [lia|]. destruct (N.eqb_spec (code c) 123); [|lia]. reflexivity.
  Qed.

  Lemma leaf_facts : forall a, leaf a = true -> arg_okb a = true ->
    forallb pr (leaf_text a) = true /\ classify (leaf_text a) = kind_of a.
  Proof.
    intros a L H. destruct a as [z|f|b|s| |l|l|d|j|[n|]]; try discriminate L; simpl in H; cbn [leaf_text kind_of].
    - pose proof (json_int_chars z) as C. split; [eapply forallb_impl; [apply dm_char_pr|exact C]|].
      destruct (json_int z) as [|c t] eqn:E; [reflexivity|]. unfold classify.
      assert (D : dm_char c = true) by (simpl in C; apply andb_true_iff in C; tauto).
      pose proof (dm_char_spec c D). destruct (N.eqb_spec (code c) 34); [lia|]. destruct (N.eqb_spec (code c) 123); [lia|].
      rewrite D, C. reflexivity.
    - apply float_text_facts. exact H.
    - destruct b; split; reflexivity.
    - split; [apply json_str_chars; exact H|]. rewrite (json_str_pr s H). reflexivity.
    - split; reflexivity.
    - apply dm_facts. exact H.
    - destruct (name_facts (tx n) H) as (A & B & _). auto.
    - split; reflexivity.
  Qed.

  Lemma leaf_inj : forall a b, leaf a = true -> leaf b = true -> arg_okb a = true -> arg_okb b = true ->
    leaf_text a = leaf_text b -> arg_eqvb a b = true.
  Proof.
    intros a b La Lb Ha Hb E.
    pose proof (proj2 (leaf_facts a La Ha)) as Ka. pose proof (proj2 (leaf_facts b Lb Hb)) as Kb.
    rewrite E, Kb in Ka. clear Kb.
    destruct a as [z|f|x|s| |l|l|d|j|n]; try discriminate La;
      destruct b as [z'|f'|x'|s'| |l'|l'|d'|j'|n']; try discriminate Lb; try discriminate Ka;
      cbn [leaf_text] in E; cbn [arg_eqvb].
    - apply json_int_inj in E. subst. apply Z.eqb_refl.
    - simpl in Ha, Hb. apply (float_repr_inj _ _ Ha Hb) in E. subst. apply fl_same_eq. reflexivity.
    - destruct x, x'; try discriminate E; reflexivity.
    - simpl in Ha, Hb. apply (json_str_inj s s' Ha Hb) in E. subst. apply String.eqb_refl.
    - reflexivity.
    - apply tx_inj in E. subst. apply String.eqb_refl.
    - destruct n as [n|], n' as [n'|]; simpl in Ha, Hb; simpl.
      + apply tx_inj in E. subst. apply String.eqb_refl.
      + destruct (name_facts _ Ha) as (_ & _ & R). rewrite E in R. discriminate R.
      + destruct (name_facts _ Hb) as (_ & _ & R). rewrite <- E in R. discriminate R.
      + reflexivity.
  Qed.

  Definition items (d : list (string * arg)) : list (text * ser) :=
    map (fun kv : string * arg => let '(k, v) := kv in (tx k, ser_arg v)) d.
  Lemma ser_kwargs_eq : forall d, ser_kwargs d = SDict (sort_items (items d)).
  Proof. reflexivity. Qed.
  Lemma sort_items_perm : forall E, Permutation (sort_items E) E.
  Proof. intros E. apply sort_perm. Qed.
  Lemma in_items : forall d ks, In ks (items d) <-> exists k v, In (k, v) d /\ ks = (tx k, ser_arg v).
  Proof.
    intros d ks. unfold items. rewrite in_map_iff. split.
    - intros ([k v] & E & Hin). exists k, v. auto.
    - intros (k & v & Hin & E). exists (k, v). auto.
  Qed.

  (* every string of the serialisation of an argument of the alphabet is printable ASCII *)
  Lemma ser_ok : forall a, arg_okb a = true -> ser_okb (ser_arg a) = true.
  Proof.
    assert (L : forall a, leaf a = true -> arg_okb a = true -> ser_okb (ser_arg a) = true).
    { intros a La Ha. rewrite (ser_arg_leaf a La). simpl. apply (leaf_facts a La Ha). }
    assert (S : forall l, Forall (fun a => arg_okb a = true -> ser_okb (ser_arg a) = true) l ->
                forallb arg_okb l = true -> ser_okb (ser_args l) = true).
    { intros l IH H. unfold MemoKey.ser_args. simpl. apply forallb_forall. intros s Hs.
      apply in_map_iff in Hs. destruct Hs as (a & <- & Hin). rewrite Forall_forall in IH.
      rewrite forallb_forall in H. auto. }
    induction a using arg_ind'; intros Hok; try (apply L; [reflexivity|exact Hok]).
    - rewrite ser_arg_list. apply S; auto.
    - rewrite ser_arg_tuple. apply S; auto.
    - rename H into IH. rewrite ser_arg_dict, ser_kwargs_eq. simpl. apply forallb_forall. intros ks Hks.
      apply (Permutation_in _ (sort_items_perm _)) in Hks. apply in_items in Hks.
      destruct Hks as (k & v & Hin & ->). simpl in Hok. rewrite forallb_forall in Hok. pose proof (Hok _ Hin) as Hkv.
      simpl in Hkv. apply andb_true_iff in Hkv. destruct Hkv as [Hk Hv]. simpl. rewrite Hk. simpl.
      rewrite Forall_forall in IH. apply (IH _ Hin). exact Hv.
  Qed.

  Lemma repr_key_inj : forall k k', forallb pr k = true -> forallb pr k' = true -> repr_str k = repr_str k' -> k = k'.
  Proof.
    intros k k' H H' E. destruct (repr_str_delim k k' [] [] H H') as [A _]; auto. rewrite E. reflexivity.
  Qed.

  Definition inj_at (a : arg) : Prop :=
    arg_okb a = true -> arg_wfb a = true ->
    forall b, arg_okb b = true -> arg_wfb b = true -> ser_arg a = ser_arg b -> arg_eqvb a b = true.

  Lemma ser_shape : forall b, (leaf b = true /\ exists t, ser_arg b = SStr t)
                              \/ (exists l, (b = AList l \/ b = ATuple l) /\ ser_arg b = SList (map ser_arg l))
                              \/ (exists d, b = ADict d /\ ser_arg b = SDict (sort_items (items d))).
  Proof.
    intros b. destruct b as [z|f|x|s| |l|l|d|j|n];
      try (left; split; [reflexivity|]; eexists; apply ser_arg_leaf; reflexivity).
    - right; left. exists l. split; [auto|]. apply ser_arg_list.
    - right; left. exists l. split; [auto|]. apply ser_arg_tuple.
    - right; right. exists d. split; [auto|]. apply ser_arg_dict.
  Qed.

  Lemma inj_leaf : forall a, leaf a = true -> inj_at a.
  Proof.
    intros a La Ha _ b Hb _ E. destruct (ser_shape b) as [[Lb _]|[(l & _ & Eb)|(d & _ & Eb)]].
    - rewrite (ser_arg_leaf a La), (ser_arg_leaf b Lb) in E. injection E as E. apply leaf_inj; auto.
    - rewrite (ser_arg_leaf a La), Eb in E. discriminate E.
    - rewrite (ser_arg_leaf a La), Eb in E. discriminate E.
  Qed.

  Lemma inj_seq : forall l l', Forall inj_at l ->
    forallb arg_okb l = true -> forallb arg_wfb l = true -> forallb arg_okb l' = true -> forallb arg_wfb l' = true ->
    map ser_arg l = map ser_arg l' -> seq_eqvb l l' = true.
  Proof.
    induction l as [|x l IH]; destruct l' as [|y l']; simpl; intros F O W O' W' E; try discriminate; auto.
    injection E as E1 E2. inversion F as [|? ? F1 F2]. subst.
    apply andb_true_iff in O, W, O', W'. destruct O as [O1 O2], W as [W1 W2], O' as [O1' O2'], W' as [W1' W2'].
    rewrite (F1 O1 W1 y O1' W1' E1). simpl. apply IH; auto.
  Qed.

  Lemma inj_dict : forall d, Forall (fun kv => inj_at (snd kv)) d -> inj_at (ADict d).
  Proof.
    intros d IH Ha Wa b Hb Wb E. destruct (ser_shape b) as [[Lb (t & Eb)]|[(l & _ & Eb)|(d' & -> & Eb)]].
    - rewrite ser_arg_dict, ser_kwargs_eq, Eb in E. discriminate E.
    - rewrite ser_arg_dict, ser_kwargs_eq, Eb in E. discriminate E.
    - rewrite ser_arg_dict, ser_kwargs_eq, Eb in E. injection E as E.
      assert (Pm : Permutation (items d) (items d')).
      { eapply perm_trans; [apply Permutation_sym, sort_items_perm|]. rewrite E. apply sort_items_perm. }
      rewrite arg_eqvb_dict. apply andb_true_iff. split.
      + apply Nat.eqb_eq. apply Permutation_length in Pm. unfold items in Pm. rewrite !map_length in Pm. exact Pm.
      + apply dict_sub_spec. intros k v Hin.
        assert (Hks : In (tx k, ser_arg v) (items d')).
        { apply (Permutation_in _ Pm). apply in_items. eauto. }
        apply in_items in Hks. destruct Hks as (k' & v' & Hin' & Ekv). injection Ekv as Ek Ev. apply tx_inj in Ek. subst k'.
        simpl in Ha, Wa, Hb, Wb. apply andb_true_iff in Wa, Wb. destruct Wa as [Da Wa], Wb as [Db Wb].
        rewrite forallb_forall in Ha, Wa, Hb, Wb.
        pose proof (Ha _ Hin) as Hv. pose proof (Hb _ Hin') as Hv'. simpl in Hv, Hv'.
        apply andb_true_iff in Hv, Hv'. destruct Hv as [_ Hv], Hv' as [_ Hv'].
        exists v'. split; [apply alookup_distinct; auto|].
        rewrite Forall_forall in IH. apply (IH _ Hin Hv (Wa _ Hin) v' Hv' (Wb _ Hin') Ev).
  Qed.

  Lemma ser_arg_inj : forall a, inj_at a.
  Proof.
    induction a using arg_ind'; try (apply inj_leaf; reflexivity).
    - intros Ha Wa b Hb Wb E. destruct (ser_shape b) as [[Lb (t & Eb)]|[(l' & Hl & Eb)|(d' & _ & Eb)]].
      + rewrite ser_arg_list, Eb in E. discriminate E.
      + rewrite ser_arg_list, Eb in E. injection E as E.
        assert (S : seq_eqvb l l' = true) by (destruct Hl; subst b; apply inj_seq; auto).
        destruct (arg_eqvb_seq l l') as (A & B & _). destruct Hl; subst b; congruence.
      + rewrite ser_arg_list, Eb in E. discriminate E.
    - intros Ha Wa b Hb Wb E. destruct (ser_shape b) as [[Lb (t & Eb)]|[(l' & Hl & Eb)|(d' & _ & Eb)]].
      + rewrite ser_arg_tuple, Eb in E. discriminate E.
      + rewrite ser_arg_tuple, Eb in E. injection E as E.
        assert (S : seq_eqvb l l' = true) by (destruct Hl; subst b; apply inj_seq; auto).
        destruct (arg_eqvb_seq l l') as (_ & _ & A & B). destruct Hl; subst b; congruence.
      + rewrite ser_arg_tuple, Eb in E. discriminate E.
    - apply inj_dict. assumption.
  Qed.

  (* ---------- completeness: equivalent arguments are serialised alike ---------- *)
  Lemma leaf_eqv_eq : forall a b, leaf a = true -> arg_eqvb a b = true -> a = b.
  Proof.
    intros a b La E. destruct a as [z|f|x|s| |l|l|d|j|n]; try discriminate La; destruct b; simpl in E; try discriminate E.
    - apply Z.eqb_eq in E. subst. reflexivity.
    - apply fl_same_eq in E. subst. reflexivity.
    - apply Bool.eqb_prop in E. subst. reflexivity.
    - apply String.eqb_eq in E. subst. reflexivity.
    - reflexivity.
    - apply String.eqb_eq in E. subst. reflexivity.
    - destruct n as [n|], name as [m|]; simpl in E; try discriminate E; auto.
      apply String.eqb_eq in E. subst. reflexivity.
  Qed.

  Definition compl_at (a : arg) : Prop :=
    arg_okb a = true -> arg_wfb a = true ->
    forall b, arg_okb b = true -> arg_wfb b = true -> arg_eqvb a b = true -> ser_arg a = ser_arg b.

  Lemma compl_seq : forall l l', Forall compl_at l ->
    forallb arg_okb l = true -> forallb arg_wfb l = true -> forallb arg_okb l' = true -> forallb arg_wfb l' = true ->
    seq_eqvb l l' = true -> map ser_arg l = map ser_arg l'.
  Proof.
    induction l as [|x l IH]; destruct l' as [|y l']; simpl; intros F O W O' W' E; try discriminate; auto.
    inversion F as [|? ? F1 F2]. subst.
    apply andb_true_iff in O, W, O', W', E.
    destruct O as [O1 O2], W as [W1 W2], O' as [O1' O2'], W' as [W1' W2'], E as [E1 E2].
    rewrite (F1 O1 W1 y O1' W1' E1). f_equal. apply IH; auto.
  Qed.

  Lemma items_NoDup : forall d, keys_distinct d = true -> NoDup (items d).
  Proof.
    induction d as [|[k v] r IH]; simpl; intros H; [constructor|].
    destruct (alookup k r) eqn:E; [discriminate|]. constructor; auto.
    intros Hin. apply in_items in Hin. destruct Hin as (k' & v' & Hin & Ekv). injection Ekv as Ek _.
    apply tx_inj in Ek. subst k'. apply (alookup_None _ _ _ v' E). exact Hin.
  Qed.

  Lemma compl_dict : forall d, Forall (fun kv => compl_at (snd kv)) d -> compl_at (ADict d).
  Proof.
    intros d IH Ha Wa b Hb Wb E. destruct b as [| | | | | | |d'| |]; try discriminate E.
    rewrite arg_eqvb_dict in E. apply andb_true_iff in E. destruct E as [El Es]. apply Nat.eqb_eq in El.
    rewrite !ser_arg_dict, !ser_kwargs_eq. f_equal.
    simpl in Ha, Wa, Hb, Wb. apply andb_true_iff in Wa, Wb. destruct Wa as [Da Wa], Wb as [Db Wb].
    rewrite forallb_forall in Ha, Wa, Hb, Wb. rewrite Forall_forall in IH.
    pose proof (proj1 (dict_sub_spec d d') Es) as Sub.
    unfold sort_items. apply sort_perm_eq.
    - apply NoDup_Permutation_bis.
      + apply items_NoDup. exact Da.
      + unfold items. rewrite !map_length. lia.
      + intros ks Hks. apply in_items in Hks. destruct Hks as (k & v & Hin & ->).
        destruct (Sub k v Hin) as (v' & Ev' & Evv). apply alookup_In in Ev'.
        pose proof (Ha _ Hin) as Hv. pose proof (Hb _ Ev') as Hv'. simpl in Hv, Hv'.
        apply andb_true_iff in Hv, Hv'. destruct Hv as [_ Hv], Hv' as [_ Hv'].
        pose proof (IH _ Hin Hv (Wa _ Hin) v' Hv' (Wb _ Ev') Evv) as R. simpl in R. rewrite R. apply in_items. eauto.
    - intros x y Hx Hy Ek. rewrite !k_kwsort_key_spec in Ek.
      apply in_items in Hx, Hy. destruct Hx as (k & v & Hin & ->), Hy as (k2 & v2 & Hin2 & ->). simpl in Ek.
      pose proof (Ha _ Hin) as Hv. pose proof (Ha _ Hin2) as Hv2. simpl in Hv, Hv2.
      apply andb_true_iff in Hv, Hv2. destruct Hv as [Hk _], Hv2 as [Hk2 _].
      apply (repr_key_inj _ _ Hk Hk2), tx_inj in Ek. subst k2.
      pose proof (alookup_distinct _ d k v Da Hin) as L1. pose proof (alookup_distinct _ d k v2 Da Hin2) as L2.
      rewrite L1 in L2. injection L2 as ->. reflexivity.
  Qed.

  Lemma ser_arg_complete : forall a, compl_at a.
  Proof.
    assert (L : forall a, leaf a = true -> compl_at a).
    { intros a La _ _ b _ _ E. apply (leaf_eqv_eq a b La) in E. subst. reflexivity. }
    induction a using arg_ind'; try (apply L; reflexivity).
    - intros Ha Wa b Hb Wb E. destruct b as [| | | | |l'|l'| | |]; try discriminate E.
      + rewrite (proj1 (arg_eqvb_seq l l')) in E. rewrite !ser_arg_list. unfold MemoKey.ser_args. f_equal. apply compl_seq; auto.
      + rewrite (proj1 (proj2 (arg_eqvb_seq l l'))) in E. rewrite ser_arg_list, ser_arg_tuple. unfold MemoKey.ser_args. f_equal.
        apply compl_seq; auto.
    - intros Ha Wa b Hb Wb E. destruct b as [| | | | |l'|l'| | |]; try discriminate E.
      + rewrite (proj1 (proj2 (proj2 (arg_eqvb_seq l l')))) in E. rewrite ser_arg_list, ser_arg_tuple.
        unfold MemoKey.ser_args. f_equal. apply compl_seq; auto.
      + rewrite (proj2 (proj2 (proj2 (arg_eqvb_seq l l')))) in E. rewrite !ser_arg_tuple. unfold MemoKey.ser_args. f_equal.
        apply compl_seq; auto.
    - apply compl_dict. assumption.
  Qed.

  (* ---------- the hashed text ---------- *)
  Notation memkey_text := (memkey_text float_repr).
  Lemma memkey_text_eq : forall name c,
    memkey_text name c = repr_ser (SList [SStr (tx name); ser_args (c_args c); ser_kwargs (c_kwargs c)]).
  Proof. intros. unfold MemoKey.memkey_text. rewrite k_memkey_parts_spec. reflexivity. Qed.

  Lemma call_okb_parts : forall name c, call_okb name c = true ->
    forallb pr (tx name) = true /\ arg_okb (ATuple (c_args c)) = true /\ arg_okb (ADict (c_kwargs c)) = true
    /\ arg_wfb (ATuple (c_args c)) = true /\ arg_wfb (ADict (c_kwargs c)) = true.
  Proof.
    intros name c H. unfold call_okb, call_wfb in H.
    apply andb_true_iff in H. destruct H as [H W]. apply andb_true_iff in W. destruct W as [W1 W2].
    apply andb_true_iff in H. destruct H as [H H3]. apply andb_true_iff in H. destruct H as [H1 H2].
    repeat split; assumption.
  Qed.
  Lemma call_ser_ok : forall name c, call_okb name c = true ->
    ser_okb (SList [SStr (tx name); ser_args (c_args c); ser_kwargs (c_kwargs c)]) = true.
  Proof.
    intros name c H. destruct (call_okb_parts name c H) as (Hn & Ha & Hk & _ & _).
    pose proof (ser_ok _ Ha) as Sa. pose proof (ser_ok _ Hk) as Sk. rewrite ser_arg_tuple in Sa. rewrite ser_arg_dict in Sk.
    cbn [ser_okb forallb]. rewrite Sa, Sk. cbn [ser_okb] in *. rewrite Hn. reflexivity.
  Qed.

  Lemma key_text_injective : forall name name' c c',
    call_okb name c = true -> call_okb name' c' = true ->
    memkey_text name c = memkey_text name' c' -> name = name' /\ call_eqvb c c' = true.
  Proof.
    intros name name' c c' H H' E. rewrite !memkey_text_eq in E.
    apply repr_ser_inj in E; auto using call_ser_ok. injection E as En Ea Ek. apply tx_inj in En. split; auto.
    destruct (call_okb_parts name c H) as (_ & Ha & Hk & Wa & Wk).
    destruct (call_okb_parts name' c' H') as (_ & Ha' & Hk' & Wa' & Wk').
    unfold call_eqvb. apply andb_true_iff. split.
    - apply (ser_arg_inj _ Ha Wa _ Ha' Wa'). rewrite !ser_arg_tuple. unfold MemoKey.ser_args. f_equal. exact Ea.
    - apply (ser_arg_inj _ Hk Wk _ Hk' Wk'). rewrite !ser_arg_dict. unfold MemoKey.ser_kwargs. f_equal. exact Ek.
  Qed.

  Lemma key_text_complete : forall name c c',
    call_okb name c = true -> call_okb name c' = true -> call_eqvb c c' = true ->
    memkey_text name c = memkey_text name c'.
  Proof.
    intros name c c' H H' E. rewrite !memkey_text_eq.
    destruct (call_okb_parts name c H) as (_ & Ha & Hk & Wa & Wk).
    destruct (call_okb_parts name c' H') as (_ & Ha' & Hk' & Wa' & Wk').
    unfold call_eqvb in E. apply andb_true_iff in E. destruct E as [Ea Ek].
    pose proof (ser_arg_complete _ Ha Wa _ Ha' Wa' Ea) as Ra. rewrite !ser_arg_tuple in Ra.
    pose proof (ser_arg_complete _ Hk Wk _ Hk' Wk' Ek) as Rk. rewrite !ser_arg_dict in Rk.
    rewrite Ra, Rk. reflexivity.
  Qed.

  (* ---------- the key: md5 of the text, md5 taken as injective on the texts ---------- *)
  Section MD5.
    Variable K : Type.
    Variable md5 : text -> K.
    Hypothesis md5_injective : forall a b, md5 a = md5 b -> a = b.

    Lemma key_injective : forall name name' c c',
      call_okb name c = true -> call_okb name' c' = true ->
      memkey_md5 float_repr md5 name c = memkey_md5 float_repr md5 name' c' -> name = name' /\ call_eqvb c c' = true.
    Proof.
      intros name name' c c' H H' E. unfold memkey_md5 in E. apply md5_injective in E.
      apply key_text_injective; auto.
    Qed.
    Lemma key_complete : forall name c c',
      call_okb name c = true -> call_okb name c' = true -> call_eqvb c c' = true ->
      memkey_md5 float_repr md5 name c = memkey_md5 float_repr md5 name c'.
    Proof.
      intros name c c' H H' E. unfold memkey_md5. f_equal. apply key_text_complete; auto.
    Qed.
  End MD5.
End KeyFacts.

(* ---------- the hypotheses about the float printer are satisfiable ----------
   a printer of the required shape that is injective on finite floats (NOT CPython's: sign, then "0.0" for a
   zero, "1." followed by the odd mantissa, "e" and the binary exponent otherwise) *)
Definition demo_float_repr (f : fl) : text :=
  match f with
  | FZero neg => (if neg then tx "-" else []) ++ tx "0.0"
  | FFin neg m e => (if neg then tx "-" else []) ++ tx "1." ++ json_int (Z.pos m) ++ "e"%char :: json_int e
  | _ => tx "nan"
  end.

Lemma dm_chars_no_e : forall t, forallb dm_char t = true -> ~ In "e"%char t.
Proof.
  intros t H Hin. rewrite forallb_forall in H. apply H, dm_char_spec in Hin. change (code "e"%char) with 101 in Hin. lia.
Qed.

Lemma demo_float_repr_inj : forall f g,
  float_okb f = true -> float_okb g = true -> demo_float_repr f = demo_float_repr g -> f = g.
Proof.
  assert (B : forall m e m' e', json_int (Z.pos m) ++ "e"%char :: json_int e = json_int (Z.pos m') ++ "e"%char :: json_int e' ->
              m = m' /\ e = e').
  { intros m e m' e' E. apply delim_inj in E; auto using dm_chars_no_e, json_int_chars.
    destruct E as [E1 E2]. apply json_int_inj in E1, E2. injection E1 as ->. auto. }
  intros f g Hf Hg E. destruct f as [|nf|nf|nf m e]; try discriminate Hf; destruct g as [|ng|ng|ng m' e']; try discriminate Hg.
  - destruct nf, ng; try discriminate E; reflexivity.
  - destruct nf, ng; discriminate E.
  - destruct nf, ng; discriminate E.
  - destruct nf, ng; cbn [demo_float_repr] in E.
    + apply app_inv_head, app_inv_head in E. destruct (B _ _ _ _ E) as [-> ->]. reflexivity.
    + discriminate E.
    + discriminate E.
    + apply app_inv_head, app_inv_head in E. destruct (B _ _ _ _ E) as [-> ->]. reflexivity.
Qed.

Lemma demo_float_repr_shape : forall f, float_okb f = true -> float_textb (demo_float_repr f) = true.
Proof.
  assert (D : forall t, forallb dm_char t = true -> forallb float_char t = true).
  { intros t. apply forallb_impl. intros c Hc. unfold float_char. unfold dm_char in Hc.
    apply orb_true_iff in Hc. destruct Hc as [Hc|Hc]; rewrite Hc; destruct (is_digit c); reflexivity. }
  intros f Hf. destruct f as [|nf|nf|nf m e]; try discriminate Hf.
  - destruct nf; reflexivity.
  - unfold float_textb, demo_float_repr.
    assert (C : forallb float_char (json_int (Z.pos m) ++ "e"%char :: json_int e) = true).
    { rewrite forallb_app. rewrite (D _ (json_int_chars _)). cbn [forallb]. rewrite (D _ (json_int_chars _)). reflexivity. }
    destruct nf; cbn [tx list_ascii_of_string app forallb existsb]; rewrite C; reflexivity.
Qed.
