(* Proofs for C20, calls that raise: the L1 call in closed form, "a raising call that follows clear() uses the clear()
   up and leaves every other entry in place", L1 refines the L0 acceptor with raising calls (single calls and whole
   histories), and the extended acceptor is conservative over Spec.Memo.accept. *)
From Coq Require Import ZArith List Bool Lia.
From DM Require Import Gen.KMemo Spec.Memo Spec.MemoExn Model.Memo Model.MemoExn Proofs.MemoFacts.
Import ListNotations.
Open Scope Z_scope.

Section MemoExnFacts.
  Variables (A K V F : Type).
  Variable f : A -> V.
  Variable exn : A -> option bool.
  Variable key_of : A -> K.
  Variable thunks : A -> nat.
  Variable size : V -> Z.
  Variables (keqb : K -> K -> bool) (veqb : V -> V -> bool) (feqb : F -> F -> bool).
  Hypothesis keqb_spec : forall a b, keqb a b = true <-> a = b.
  Hypothesis feqb_spec : forall a b, feqb a b = true <-> a = b.
  Hypothesis veqb_refl : forall v, veqb v v = true.

  Notation opts := (opts K F).
  Notation inst := (inst K V).
  Notation world := (world K V F).
  Notation lookup := (lookup K V keqb).
  Notation remove := (remove K V keqb).
  Notation dlookup := (dlookup K V F keqb feqb).
  Notation dremove := (dremove K V F keqb feqb).
  Notation dkeys := (dkeys K V F feqb).
  Notation total := (total K V size).
  Notation key := (key A K F key_of).
  Notation icall := (icall A K V F f key_of thunks size keqb feqb).
  Notation icall_x := (icall_x A K V F f exn key_of thunks size keqb feqb).
  Notation mk_event := (mk_event K V F size feqb).
  Notation wrun := (wrun A K V F f key_of thunks size keqb feqb).
  Notation wrun_x := (wrun_x A K V F f exn key_of thunks size keqb feqb).
  Notation wstep_x := (wstep_x A K V F f exn key_of thunks size keqb feqb).
  Notation accept := (accept A K V F f key_of thunks size keqb veqb feqb).
  Notation accept_x := (accept_x A K V F f exn key_of thunks size keqb veqb feqb).
  Notation spec_call := (spec_call A K V F f key_of thunks size keqb veqb feqb).
  Notation spec_raise := (spec_raise A K V F exn key_of thunks size keqb feqb).
  Notation raises_at := (raises_at A K F exn).
  Notation raises1 := (raises1 A K F exn).
  Notation forget := (forget A K V F key_of keqb).
  Notation dforget := (dforget A K V F key_of keqb feqb).
  Notation stored := (stored K V F keqb feqb).
  Notation memkey := (memkey A K F key_of).
  Notation read_cache := (read_cache K V F keqb feqb).

  Lemma raises1_spec : forall o a, raises1 o a = raises_at o a.
  Proof. intros o a. unfold Model.MemoExn.raises1, Spec.MemoExn.raises_at. rewrite k_lazy_test_spec. reflexivity. Qed.

  (* _read_cache in closed form: the entry of this call's key is forgotten when clear() is pending, the flag is reset
     by the lookup itself, and the answer is what is stored after that *)
  Lemma read_cache_eq : forall o st d a,
    read_cache o st d (key o a)
    = (stored o (forget o st a) (dforget o st d a) (key o a), {| cache := forget o st a; ign := false |},
       dforget o st d a).
  Proof.
    intros o [c ig] d a. unfold Model.Memo.read_cache. rewrite k_read_cache_spec.
    unfold MemoFacts.stored, MemoFacts.forget, MemoFacts.dforget. cbn [cache ign]. destruct ig.
    - cbn [r_hit r_reset r_delmem r_deldisk cache ign].
      destruct (persistent o).
      + rewrite (dlookup_dremove_same K V F keqb feqb). reflexivity.
      + rewrite (lookup_remove_same K V keqb). reflexivity.
    - destruct (persistent o).
      + destruct (dlookup (folder o) (key o a) d) eqn:L; cbn [Model.Memo.is_some r_hit r_reset r_delmem r_deldisk cache ign];
          rewrite ?L; reflexivity.
      + destruct (lookup (key o a) c) eqn:L; cbn [Model.Memo.is_some r_hit r_reset r_delmem r_deldisk cache ign];
          rewrite ?L; reflexivity.
  Qed.

  (* a call that does not raise is the call of Model/Memo.v *)
  Lemma icall_x_returns : forall o st d a, raises_at o a = None ->
    icall_x o st d a = (let '(ev, st1, d1) := icall o st d a in (inl ev, st1, d1)).
  Proof.
    intros o st d a H. unfold Model.MemoExn.icall_x, Model.Memo.icall.
    destruct (read_cache o st d (memkey o a)) as [[hit st1] d1]. destruct hit; [reflexivity|].
    rewrite raises1_spec, H.
    destruct (write_cache K V F size keqb feqb o st1 d1 (memkey o a) (f a)). reflexivity.
  Qed.

  (* a call that raised: its key was not stored (after the clear() was applied), the body / the callables ran as
     the outcome says, and the state is the one the lookup left: this call's entry forgotten if clear() was pending,
     the flag reset, everything else in place *)
  Lemma icall_x_raise : forall o st d a x st1 d1, icall_x o st d a = (inr x, st1, d1) ->
    exists b, raises_at o a = Some b /\ x_ran x = b /\ x_forced x = (if lazy o then thunks a else 0%nat)
      /\ stored o (forget o st a) (dforget o st d a) (key o a) = None
      /\ st1 = {| cache := forget o st a; ign := false |} /\ d1 = dforget o st d a
      /\ x_keys x = map fst (forget o st a) /\ x_csize x = total (forget o st a)
      /\ x_files x = dkeys (folder o) (dforget o st d a).
  Proof.
    intros o st d a x st1 d1. unfold Model.MemoExn.icall_x. rewrite memkey_key, read_cache_eq.
    destruct (stored o (forget o st a) (dforget o st d a) (key o a)) eqn:S; [discriminate|].
    rewrite raises1_spec, k_lazy_test_spec. destruct (raises_at o a) as [b|] eqn:R.
    - intros H. injection H as <- <- <-. exists b. cbn. auto 12.
    - destruct (write_cache K V F size keqb feqb o _ _ (key o a) (f a)). discriminate.
  Qed.

  (* L1 refines L0 on a raising call *)
  Lemma spec_accepts_raise : forall o st d a x st1 d1, icall_x o st d a = (inr x, st1, d1) ->
    spec_raise o st d a x = Some (st1, d1).
  Proof.
    intros o st d a x st1 d1 H.
    destruct (icall_x_raise _ _ _ _ _ _ _ H) as (b & R & Hr & Hf & S & -> & -> & Hk & Hc & Hfi).
    unfold Spec.MemoExn.spec_raise. fold (forget o st a). fold (dforget o st d a).
    fold (stored o (forget o st a) (dforget o st d a) (key o a)). rewrite S, R, Hr, Hf, Hk, Hc, Hfi.
    rewrite eqb_reflx, (keys_eqb_refl K keqb keqb_spec), Z.eqb_refl, (same_keys_refl K keqb keqb_spec).
    assert (Hb : (if b then Nat.eqb (if lazy o then thunks a else 0%nat) (if lazy o then thunks a else 0%nat)
                  else Nat.leb (if lazy o then thunks a else 0%nat) (thunks a)) = true).
    { destruct b; [apply Nat.eqb_refl|]. apply Nat.leb_le. destruct (lazy o); lia. }
    rewrite Hb. reflexivity.
  Qed.

  (* C20 / clear with a raising next call: the call right after clear() is the one that re-executes -- also when it
     raises.  It uses the clear() up (the flag is reset), stores nothing, and every result stored for ANOTHER key is
     still served from the store by the call after it: the body does not run again for it. *)
  Lemma stored_forget_other : forall o st d a b, key o b <> key o a ->
    stored o (forget o st a) (dforget o st d a) (key o b) = stored o (cache st) d (key o b).
  Proof.
    intros o st d a b N. unfold MemoFacts.stored, MemoFacts.forget, MemoFacts.dforget.
    destruct (ign st); [|reflexivity]. destruct (persistent o).
    - apply (dlookup_dremove_other K V F keqb feqb keqb_spec feqb_spec). intros E. injection E as E. contradiction.
    - apply (lookup_remove_other K V keqb keqb_spec). exact N.
  Qed.

  Lemma memo_raise_consumes_clear : forall o st d a x st1 d1,
    icall_x o (iclear K V st) d a = (inr x, st1, d1) ->
    ign st1 = false
    /\ stored o (cache st1) d1 (key o a) = None
    /\ forall b v, key o b <> key o a -> stored o (cache st) d (key o b) = Some v ->
         exists ev st2, icall o st1 d1 b = (ev, st2, d1) /\ e_ran ev = false /\ e_ret ev = v /\ e_forced ev = 0%nat.
  Proof.
    intros o st d a x st1 d1 H.
    destruct (icall_x_raise _ _ _ _ _ _ _ H) as (b0 & _ & _ & _ & S & -> & -> & _).
    cbn [cache ign]. split; [reflexivity|]. split; [exact S|].
    intros b v N Sb.
    assert (S' : stored o (cache {| cache := forget o (iclear K V st) a; ign := false |})
                        (dforget o (iclear K V st) d a) (key o b) = Some v).
    { cbn [cache]. rewrite stored_forget_other by exact N. exact Sb. }
    destruct (icall_hit A K V F f key_of thunks size keqb feqb o {| cache := forget o (iclear K V st) a; ign := false |} _ b v eq_refl S')
      as (ev & st2 & E & R & Rv & Fo & _).
    exists ev, st2. auto.
  Qed.

  (* the same for a raising call that does NOT follow clear(): nothing changes at all *)
  Lemma memo_raise_changes_nothing : forall o st d a x st1 d1, ign st = false ->
    icall_x o st d a = (inr x, st1, d1) -> cache st1 = cache st /\ d1 = d /\ ign st1 = false.
  Proof.
    intros o st d a x st1 d1 I H.
    destruct (icall_x_raise _ _ _ _ _ _ _ H) as (b0 & _ & _ & _ & _ & -> & -> & _).
    unfold MemoFacts.forget, MemoFacts.dforget. rewrite I. auto.
  Qed.

  (* ---------- the extended acceptor is conservative ---------- *)
  Lemma accept_x_conservative : (forall a, exn a = None) ->
    forall tr w, accept_x w (map XT tr) = accept w tr.
  Proof.
    intros Hn. induction tr as [|t r IH]; intros w; [reflexivity|].
    destruct t as [o|i|i a ob]; cbn [map Spec.MemoExn.accept_x Spec.Memo.accept].
    - apply IH.
    - destruct (nth_error (insts w) i) as [[o st]|]; apply IH.
    - destruct (nth_error (insts w) i) as [[o st]|]; [|apply IH].
      destruct (spec_call o st (disk w) a ob) as [[st' d']|]; [|reflexivity].
      unfold Spec.MemoExn.raises_at. rewrite Hn. cbn. rewrite andb_false_r. apply IH.
  Qed.

  (* ---------- L1 refines L0 on whole histories with raising calls ---------- *)
  Hypothesis key_inj : forall a b, key_of a = key_of b -> f a = f b.
  Notation PI_all := (PI_all A K V F f key_of).
  Notation PD_tr := (PD_tr A K V F f key_of).
  Notation new_ok := (new_ok A K F key_of).

  Lemma PI_forget : forall o st a, PI_all o st -> PI_all o {| cache := forget o st a; ign := false |}.
  Proof.
    intros o st a [[Ho Hc] Hm]. split; [|exact Hm]. split; [exact Ho|]. intros X k v Hin. apply (Hc X).
    cbn [cache] in Hin. unfold MemoFacts.forget in Hin. destruct (ign st); auto.
    eapply (In_remove K V size keqb); eauto.
  Qed.
  Lemma PD_dforget : forall o st d a, PD_tr d -> PD_tr (dforget o st d a).
  Proof.
    intros o st d a Hd fo k v Hin. apply (Hd fo). unfold MemoFacts.dforget in Hin. destruct (ign st); auto.
    eapply (In_dremove K V F size keqb feqb); eauto.
  Qed.

  Lemma model_x_accepted : forall ops w, WI K V F PI_all PD_tr w -> Forall new_ok ops ->
    accept_x w (snd (wrun_x w ops)) = true.
  Proof.
    induction ops as [|p r IH]; intros w [HI HD] Hops; [reflexivity|].
    inversion Hops as [|? ? Hp Hr]. subst. cbn [Model.MemoExn.wrun_x].
    destruct p as [o|i a|i]; cbn [Model.MemoExn.wstep_x].
    - set (w1 := {| insts := insts w ++ [(o, fresh)]; disk := disk w |}).
      assert (Hw1 : WI K V F PI_all PD_tr w1).
      { split; auto. simpl. apply Forall_app. split; auto. constructor; [|constructor].
        destruct Hp as [Ho Hm]. split; auto. split; auto. intros _ k v []. }
      specialize (IH w1 Hw1 Hr). destruct (wrun_x w1 r) as [w2 tr]. cbn [snd Spec.MemoExn.accept_x] in *. exact IH.
    - destruct (nth_error (insts w) i) as [[o st]|] eqn:E.
      + pose proof (nth_error_Forall _ _ _ _ _ HI E) as [Hst Hm]. cbn [fst snd] in Hst, Hm.
        destruct (raises_at o a) as [b|] eqn:R.
        * (* the call raises unless it is served from the store *)
          destruct (icall_x o st (disk w) a) as [[[ev|x] st1] d1] eqn:H.
          -- (* served from the store: an ordinary hit *)
             assert (Hhit : icall o st (disk w) a = (ev, st1, d1) /\ e_ran ev = false).
             { revert H. unfold Model.MemoExn.icall_x, Model.Memo.icall.
               destruct (read_cache o st (disk w) (memkey o a)) as [[hit st0] d0]. destruct hit.
               - intros H. injection H as <- <- <-. split; reflexivity.
               - rewrite raises1_spec, R. discriminate. }
             destruct Hhit as [H' Hran].
             destruct (tr_call A K V F f key_of thunks size keqb feqb keqb_spec feqb_spec key_inj
                         _ _ _ _ _ _ _ Hst HD H') as (H1 & H2 & H3).
             set (w1 := upd K V F w i o st1 d1).
             assert (Hw1 : WI K V F PI_all PD_tr w1).
             { split; [|exact H2]. simpl. apply Forall_set_nth; auto. split; auto. }
             specialize (IH w1 Hw1 Hr). destruct (wrun_x w1 r) as [w2 tr]. cbn [snd Spec.MemoExn.accept_x] in *.
             rewrite E.
             rewrite (spec_accepts_icall A K V F f key_of thunks size keqb veqb feqb keqb_spec veqb_refl
                        _ _ _ _ _ _ _ Hm H' H3).
             rewrite Hran. cbn [andb]. exact IH.
          -- destruct (icall_x_raise _ _ _ _ _ _ _ H) as (b0 & _ & _ & _ & _ & Es & Ed & _).
             set (w1 := upd K V F w i o st1 d1).
             assert (Hw1 : WI K V F PI_all PD_tr w1).
             { split; [|simpl; rewrite Ed; apply PD_dforget; exact HD]. simpl. apply Forall_set_nth; auto.
               cbn [fst snd]. rewrite Es. apply PI_forget. split; auto. }
             specialize (IH w1 Hw1 Hr). destruct (wrun_x w1 r) as [w2 tr]. cbn [snd Spec.MemoExn.accept_x] in *.
             rewrite E, (spec_accepts_raise _ _ _ _ _ _ _ H). exact IH.
        * rewrite (icall_x_returns _ _ _ _ R).
          destruct (icall o st (disk w) a) as [[ev st1] d1] eqn:H.
          destruct (tr_call A K V F f key_of thunks size keqb feqb keqb_spec feqb_spec key_inj
                      _ _ _ _ _ _ _ Hst HD H) as (H1 & H2 & H3).
          set (w1 := upd K V F w i o st1 d1).
          assert (Hw1 : WI K V F PI_all PD_tr w1).
          { split; [|exact H2]. simpl. apply Forall_set_nth; auto. split; auto. }
          specialize (IH w1 Hw1 Hr). destruct (wrun_x w1 r) as [w2 tr]. cbn [snd Spec.MemoExn.accept_x] in *.
          rewrite E.
          rewrite (spec_accepts_icall A K V F f key_of thunks size keqb veqb feqb keqb_spec veqb_refl
                     _ _ _ _ _ _ _ Hm H H3).
          rewrite R. cbn. rewrite andb_false_r. exact IH.
      + specialize (IH w (conj HI HD) Hr). destruct (wrun_x w r) as [w2 tr]. cbn [snd Spec.MemoExn.accept_x] in *.
        rewrite E. exact IH.
    - destruct (nth_error (insts w) i) as [[o st]|] eqn:E.
      + pose proof (nth_error_Forall _ _ _ _ _ HI E) as Hst. cbn [fst snd] in Hst.
        set (w1 := upd K V F w i o (iclear K V st) (disk w)).
        assert (Hw1 : WI K V F PI_all PD_tr w1).
        { split; [|exact HD]. simpl. apply Forall_set_nth; auto. }
        specialize (IH w1 Hw1 Hr). destruct (wrun_x w1 r) as [w2 tr]. cbn [snd Spec.MemoExn.accept_x] in *.
        rewrite E. exact IH.
      + specialize (IH w (conj HI HD) Hr). destruct (wrun_x w r) as [w2 tr]. cbn [snd Spec.MemoExn.accept_x] in *.
        rewrite E. exact IH.
  Qed.

  Lemma model_x_accepted_w0 : forall ops, Forall new_ok ops -> accept_x w0 (snd (wrun_x w0 ops)) = true.
  Proof.
    intros ops H. apply model_x_accepted; [|exact H].
    exact (WI_all_w0 A K V F f key_of).
  Qed.
End MemoExnFacts.
