(* Proofs for C17 on tables with SeriesColumns: unpickling, the JSON round trip
   and injectivity, and to_pandas' payload.  Method: `shadow` commutes with
   every operation, so the theorems about ltable (PersistFacts, PersistJsonFacts)
   apply to the shadow; what the shadow forgets (depth, defaultnan, rows) is
   carried through positionally. *)
From Coq Require Import ZArith NArith List Bool String Ascii Permutation Lia.
From DM Require Import Base.PyVal Base.PersistPy Spec.Nf Spec.Table Model.LTable Spec.Persist Gen.KPersist Model.Persist
  Model.XTable Model.PersistSeries Proofs.PersistFacts Proofs.PersistJsonFacts.
Import ListNotations.
Open Scope string_scope.

(* ---------- the attribute names of a series column: the substring test drops exactly _datamatrix *)
Lemma ser_names_coincide : forall k, In k ser_attr_names -> k_skip k k_ignore_col = String.eqb k "_datamatrix".
Proof. simpl. intros k H. repeat (destruct H as [H|H]; [subst; reflexivity|]). destruct H. Qed.
Lemma ser_dict_names s : map fst (ser_dict s) = ser_attr_names.
Proof. reflexivity. Qed.
Lemma ser_getstate_drops_exactly s : ser_getstate s = getstate_eq "_datamatrix" (ser_dict s).
Proof. apply getstate_coincide. rewrite ser_dict_names. apply ser_names_coincide. Qed.

(* ---------- objects *)
Lemma ser_roundtrip s : ser_setstate (ser_getstate s) = Some (restore_scol false s).
Proof. destruct s. reflexivity. Qed.
Lemma xcol_roundtrip c : xcol_setstate (xcol_getstate c) = Some (restore_xcol false c).
Proof. destruct c as [c|s]; unfold xcol_setstate, xcol_getstate; [rewrite col_roundtrip | rewrite ser_roundtrip]; reflexivity. Qed.

Lemma xreattach_closed listed names cols :
  Permutation listed names ->
  xreattach listed (map (restore_xcol false) cols)
  = map (fun ic => restore_xcol (mem_nat (fst ic) (map snd names)) (snd ic)) (combine (seq 0 (List.length cols)) cols).
Proof.
  intro p. unfold xreattach. rewrite map_length, combine_map_r, map_map. apply map_ext. intros [i c]. simpl.
  rewrite (mem_nat_perm i _ _ (Permutation_map snd p)).
  destruct (mem_nat i (map snd names)); destruct c; reflexivity.
Qed.

Lemma xdm_lookup x n :
  let d := dict_set "_id" (XvId n) (setstate (xdm_getstate x)) in
  lookup "_cols" d = Some (XvCols (x_names x) (map xcol_getstate (x_cols x)))
  /\ lookup "_rowid" d = Some (XvRowid (index_getstate (x_rowid x)))
  /\ lookup "_default_col_type" d = Some (XvDflt (x_dflt x))
  /\ lookup "_id" d = Some (XvId n)
  /\ lookup "_sorted" d = Some (XvSorted (x_sorted x)).
Proof. cbv zeta. repeat split; reflexivity. Qed.

Theorem unpickle_x_eq n x : exists n', unpickle_x n x = Some (restore_x n x, n') /\ (n < n')%nat /\ n' = snd (setstate_ids n).
Proof.
  destruct (setstate_ids_spec n) as [Hf Hlt].
  exists (snd (setstate_ids n)). split; [|split; [exact Hlt | reflexivity]].
  unfold unpickle_x, xdm_setstate. cbv zeta. rewrite Hf.
  destruct (xdm_lookup x n) as (H1 & H2 & H3 & H4 & H5). cbv zeta in H1, H2, H3, H4, H5.
  rewrite H1, H2, H3, H4, H5.
  rewrite map_map. rewrite (all_some_map _ (restore_xcol false)) by (intro; apply xcol_roundtrip).
  rewrite index_roundtrip.
  rewrite (xreattach_closed _ (x_names x)) by apply to_list_perm.
  reflexivity.
Qed.

(* ---------- the shadow commutes with restoring *)
Lemma shadow_restore f x : shadow (restore_x f x) = restore f (shadow x).
Proof.
  unfold shadow, restore_x, restore. simpl. f_equal.
  rewrite map_length, combine_map_r, !map_map. apply map_ext. intros [i c]. simpl.
  destruct c as [c|s]; reflexivity.
Qed.
Lemma payload_restore f x : map ser_payload (x_cols (restore_x f x)) = map ser_payload (x_cols x).
Proof.
  unfold restore_x. simpl. rewrite map_map.
  transitivity (map ser_payload (map snd (combine (seq 0 (List.length (x_cols x))) (x_cols x)))).
  - rewrite map_map. apply map_ext. intros [i c]. destruct c; reflexivity.
  - rewrite map_snd_combine by apply seq_length. reflexivity.
Qed.
Lemma ser_ok_restore o c : ser_ok (restore_xcol o c) = ser_ok c.
Proof. destruct c; reflexivity. Qed.

(* unpickling a table with series = unpickling its shadow, and the payloads are untouched *)
Theorem unpickle_x_shadow n x r n' :
  unpickle_x n x = Some (r, n') ->
  unpickle n (shadow x) = Some (shadow r, n') /\ map ser_payload (x_cols r) = map ser_payload (x_cols x)
  /\ x_names r = x_names x.
Proof.
  intro H. destruct (unpickle_x_eq n x) as [m (H' & _ & Hm)]. rewrite H' in H. inversion H; subst r n'. clear H.
  split; [|split; [apply payload_restore | reflexivity]].
  destruct (unpickle_eq n (shadow x)) as [m' [H2 _]]. rewrite H2, shadow_restore. f_equal. f_equal.
  destruct (unpickle_counter _ _ _ _ H2) as [_ Hc]. congruence.
Qed.

Lemma xabs_restore n x :
  xabs (restore_x n x) = {| xs_table := with_fam n (xs_table (xabs x)); xs_series := xs_series (xabs x) |}.
Proof.
  unfold xabs. rewrite shadow_restore, abs_restore. f_equal.
  unfold restore_x. simpl. rewrite map_map.
  transitivity (map (fun c => match c with XP _ => None | XS s => Some (sc_depth s, sc_cells s) end)
                    (map snd (combine (seq 0 (List.length (x_cols x))) (x_cols x)))).
  - rewrite map_map. apply map_ext. intros [i c]. destruct c; reflexivity.
  - rewrite map_snd_combine by apply seq_length. reflexivity.
Qed.

Theorem unpickle_x_abs n x :
  exists r n', unpickle_x n x = Some (r, n')
    /\ xs_table (xabs r) = with_fam n (xs_table (xabs x)) /\ xs_series (xabs r) = xs_series (xabs x)
    /\ map ser_payload (x_cols r) = map ser_payload (x_cols x).
Proof.
  destruct (unpickle_x_eq n x) as [n' (H & _ & _)]. exists (restore_x n x), n'. split; auto.
  rewrite xabs_restore. split; [reflexivity|]. split; [reflexivity|]. exact (payload_restore n x).
Qed.

Theorem unpickle_x_inv n x :
  xinv_b x = true -> cols_referenced (shadow x) = true ->
  exists r n', unpickle_x n x = Some (r, n') /\ xinv_b r = true.
Proof.
  intros Hinv Href. destruct (unpickle_x_eq n x) as [n' (H & _ & _)]. exists (restore_x n x), n'. split; auto.
  unfold xinv_b in *. apply andb_true_iff in Hinv. destruct Hinv as [Hi Hs]. apply andb_true_iff. split.
  - rewrite shadow_restore. destruct (unpickle_inv n (shadow x) Hi Href) as [r [m [Hu Hr]]].
    destruct (unpickle_eq n (shadow x)) as [m' [Hu' _]]. rewrite Hu' in Hu. inversion Hu; subst. exact Hr.
  - apply forallb_forall. intros c Hc. unfold restore_x in Hc. simpl in Hc. apply in_map_iff in Hc.
    destruct Hc as [[i c0] [Hc Hin]]. subst c. rewrite ser_ok_restore. simpl.
    rewrite forallb_forall in Hs. apply Hs. eapply in_combine_r; eauto.
Qed.

(* reflexivity of the L0 comparisons *)
Lemma list_eqb_refl_in {A} (e : A -> A -> bool) l : (forall x, In x l -> e x x = true) -> list_eqb e l l = true.
Proof. induction l; simpl; intro H; auto. rewrite H, IHl; auto. Qed.
Lemma rows_eqv_refl r : rows_eqv r r = true.
Proof. apply list_eqb_refl. intro. apply list_eqb_refl, fl_eqv_refl. Qed.
Lemma spayload_eqv_refl p : spayload_eqv p p = true.
Proof. destruct p as [[d r]|]; simpl; auto. rewrite Nat.eqb_refl, rows_eqv_refl. reflexivity. Qed.
Lemma series_view_eqb_refl v : series_view_eqb v v = true.
Proof. apply list_eqb_refl. intros [n p]. rewrite String.eqb_refl, spayload_eqv_refl. reflexivity. Qed.

(* L1 refines L0 *)
Theorem unpickle_x_refines_spec n x used :
  (forall f, In f used -> (f < n)%nat) ->
  exists r n', unpickle_x n x = Some (r, n')
               /\ xrestored_like (xabs x) (xabs r) = true /\ fresh_fam used (xs_table (xabs r)) = true.
Proof.
  intro Hu. destruct (unpickle_x_eq n x) as [n' (H & _ & _)]. exists (restore_x n x), n'. split; auto.
  rewrite xabs_restore. split.
  - unfold xrestored_like. simpl. apply andb_true_iff. split.
    + unfold restored_like. rewrite with_fam_back. apply table_eqb_refl.
    + unfold series_view. simpl. apply series_view_eqb_refl.
  - unfold fresh_fam. simpl. destruct (mem_nat n used) eqn:E; auto.
    apply mem_nat_In in E. apply Hu in E. lia.
Qed.

(* unpickling a table with series is the EvRestore event of the counter machine, too *)
Theorem unpickle_x_counter n x r n' :
  unpickle_x n x = Some (r, n') -> x_fam r = fst (setstate_ids n) /\ n' = snd (setstate_ids n).
Proof.
  intro H. destruct (unpickle_x_eq n x) as [m (H' & _ & Hm)]. rewrite H' in H. inversion H; subst.
  destruct (setstate_ids_spec n) as [Hf _]. simpl. auto.
Qed.

(* ---------- JSON *)
Definition shadow_jcol (jc : xjcol) : jcol :=
  match snd (snd jc) with
  | JList c => (fst jc, (fst (snd jc), c))
  | JArr _ _ rows => (fst jc, (typename KFloat, nan_cells rows))
  end.
Definition shadow_doc (d : xjdoc) : jdoc := (fst d, map shadow_jcol (snd d)).

Lemma jcol_of_shadow x ni : jcol_of (shadow x) ni = shadow_jcol (xjcol_of x ni).
Proof.
  unfold jcol_of, xjcol_of, shadow. simpl. rewrite nth_error_map.
  destruct (nth_error (x_cols x) (snd ni)) as [[c|s]|]; reflexivity.
Qed.
Lemma json_doc_shadow x : json_doc (shadow x) = shadow_doc (json_doc_x x).
Proof.
  unfold json_doc, json_doc_x, shadow_doc. simpl. f_equal. rewrite map_map. apply map_ext. intro. apply jcol_of_shadow.
Qed.
Lemma fst_xjcol_of x ni : fst (xjcol_of x ni) = fst ni.
Proof. unfold xjcol_of. destruct (nth_error (x_cols x) (snd ni)) as [[c|s]|]; reflexivity. Qed.

(* the column object from_json builds for one listed column *)
Definition jimg_x (x : xtable) (n : nat) (ni : string * nat) : xcol :=
  match nth_error (x_cols x) (snd ni) with
  | Some (XS s) => XS {| sc_depth := sc_depth s; sc_dnan := true; sc_rowid := iotaN 0 n; sc_cells := sc_cells s;
                         sc_owner := true; sc_tc := true |}
  | _ => XP (jimg (shadow x) n ni)
  end.
Lemma typename_not_series k : String.eqb (typename k) series_typename = false.
Proof. destruct k; reflexivity. Qed.
Lemma json_col_x_of x n ni : json_col_x n (xjcol_of x ni) = Some (jimg_x x n ni).
Proof.
  unfold json_col_x, xjcol_of, jimg_x.
  destruct (nth_error (x_cols x) (snd ni)) as [[c|s]|] eqn:E; cbn [fst snd].
  - rewrite typename_not_series. unfold json_col. cbn [fst snd]. rewrite kind_of_typename_typename.
    unfold jimg, shadow. cbn [l_cols]. rewrite nth_error_map, E. reflexivity.
  - reflexivity.
  - rewrite typename_not_series. unfold json_col. cbn [fst snd]. rewrite kind_of_typename_typename.
    unfold jimg, shadow. cbn [l_cols]. rewrite nth_error_map, E. reflexivity.
Qed.

Definition json_image_x (nextid : nat) (x : xtable) : xtable :=
  let L := to_list (x_sorted x) (x_names x) in
  let n := List.length (ia (x_rowid x)) in
  {| x_fam := nextid; x_rowid := fresh_index n;
     x_names := combine (map fst L) (seq 0 (List.length L));
     x_cols := map (jimg_x x n) L; x_sorted := true; x_dflt := KMixed |}.

Lemma from_json_doc_x_eq nextid x :
  nodup_str (map fst (x_names x)) = true ->
  from_json_doc_x nextid (json_doc_x x) = Some (json_image_x nextid x).
Proof.
  intro nd. unfold from_json_doc_x, json_doc_x. simpl.
  set (L := to_list (x_sorted x) (x_names x)).
  assert (Hf : map fst (map (xjcol_of x) L) = map fst L).
  { rewrite map_map. apply map_ext. intro. apply fst_xjcol_of. }
  rewrite Hf.
  assert (Hnd : nodup_str (map fst L) = true).
  { apply nodup_str_NoDup. apply nodup_str_NoDup in nd.
    eapply Permutation_NoDup; [apply Permutation_map, Permutation_sym, to_list_perm | exact nd]. }
  rewrite Hnd. rewrite map_map.
  rewrite (all_some_map _ (jimg_x x (List.length (ia (x_rowid x))))) by (intro; apply json_col_x_of).
  rewrite map_length. reflexivity.
Qed.

Lemma shadow_jimg_x x n ni : shadow_col (jimg_x x n ni) = jimg (shadow x) n ni.
Proof.
  unfold jimg_x. destruct (nth_error (x_cols x) (snd ni)) as [[c|s]|] eqn:E; try reflexivity.
  unfold jimg, shadow. simpl. rewrite nth_error_map, E. reflexivity.
Qed.
Lemma shadow_json_image nextid x : shadow (json_image_x nextid x) = json_image nextid (shadow x).
Proof.
  unfold shadow at 1, json_image_x, json_image. simpl. f_equal.
  rewrite map_map. apply map_ext. intro. apply shadow_jimg_x.
Qed.

(* the series of the image, in listing order: depth and rows of the listed column, defaultnan back to True *)
Definition listed_payload (x : xtable) (ni : string * nat) : option (nat * bool * list (list fl)) :=
  match nth_error (x_cols x) (snd ni) with Some (XS s) => Some (sc_depth s, true, sc_cells s) | _ => None end.
Lemma payload_json_image nextid x :
  map ser_payload (x_cols (json_image_x nextid x)) = map (listed_payload x) (to_list (x_sorted x) (x_names x)).
Proof.
  unfold json_image_x. simpl. rewrite map_map. apply map_ext. intro ni. unfold jimg_x, listed_payload.
  destruct (nth_error (x_cols x) (snd ni)) as [[c|s]|]; reflexivity.
Qed.

Lemma xinv_names_lt x n i : xinv_b x = true -> In (n, i) (x_names x) -> (i < List.length (x_cols x))%nat.
Proof.
  unfold xinv_b. rewrite andb_true_iff. intros [H _] Hin.
  pose proof (inv_names_lt (shadow x) n i H Hin) as L. unfold shadow in L. simpl in L. rewrite map_length in L. exact L.
Qed.

Lemma xinv_json_image nextid x : xinv_b x = true -> xinv_b (json_image_x nextid x) = true.
Proof.
  intro Hinv. pose proof Hinv as Hinv0. unfold xinv_b in Hinv. apply andb_true_iff in Hinv. destruct Hinv as [Hi Hs].
  unfold xinv_b. apply andb_true_iff. split.
  - rewrite shadow_json_image. apply inv_json_image, Hi.
  - apply forallb_forall. intros c Hc. unfold json_image_x in Hc. simpl in Hc. apply in_map_iff in Hc.
    destruct Hc as [[n i] [Hc Hin]]. subst c. unfold jimg_x. simpl.
    destruct (nth_error (x_cols x) i) as [[c|s]|] eqn:E; try reflexivity.
    rewrite forallb_forall in Hs. apply (Hs (XS s)). eapply nth_error_In; eauto.
Qed.

Section JsonXFacts.
  Variable text : Type.
  Variable dumps : xjdoc -> text.
  Variable loads : text -> xjdoc.
  Hypothesis loads_dumps : forall x, loads (dumps x) = x.

  Lemma dumps_x_inj a b : dumps a = dumps b -> a = b.
  Proof. intro H. rewrite <- (loads_dumps a), <- (loads_dumps b), H. reflexivity. Qed.

  (* from_json (to_json x): the listing (names, kinds, cells) on row ids 0..n-1 with a fresh family, every series
     with its depth and rows (defaultnan = True), and the representation invariant holds *)
  Theorem json_roundtrip_x nextid x :
    xinv_b x = true ->
    exists r, from_json_x text loads nextid (to_json_x text dumps x) = Some r
              /\ x_fam r = nextid
              /\ ids (abs (shadow r)) = iotaN 0 (nrows (abs (shadow x)))
              /\ view (abs (shadow r)) = listing (abs (shadow x))
              /\ map ser_payload (x_cols r) = map (listed_payload x) (to_list (x_sorted x) (x_names x))
              /\ x_names r = combine (map fst (to_list (x_sorted x) (x_names x)))
                                     (seq 0 (List.length (to_list (x_sorted x) (x_names x))))
              /\ x_sorted r = true /\ x_dflt r = KMixed
              /\ xinv_b r = true.
  Proof.
    intro Hinv. exists (json_image_x nextid x). unfold from_json_x, to_json_x. rewrite loads_dumps.
    assert (Hnd : nodup_str (map fst (x_names x)) = true).
    { unfold xinv_b in Hinv. apply andb_true_iff in Hinv. destruct Hinv as [Hi _]. apply (inv_nodup_names (shadow x) Hi). }
    rewrite from_json_doc_x_eq by exact Hnd.
    repeat split; auto using payload_json_image, xinv_json_image.
    rewrite shadow_json_image. apply view_json_image.
  Qed.

  (* decoding a series by name from the document *)
  Definition decode_ser (p : string * xjpay) : option (nat * list (list fl)) :=
    if String.eqb (fst p) series_typename then
      match snd p with JArr _ d rows => Some (d, rows) | JList _ => None end
    else None.
  Lemma lookup_map_xjcol x n L :
    lookup n (map (xjcol_of x) L) = option_map (fun i => snd (xjcol_of x (n, i))) (lookup n L).
  Proof.
    induction L as [|[m i] r IH]; simpl; auto.
    rewrite (surjective_pairing (xjcol_of x (m, i))), fst_xjcol_of. simpl.
    destruct (String.eqb n m) eqn:En; auto.
    apply String.eqb_eq in En; subst. simpl. unfold xjcol_of. simpl.
    destruct (nth_error (x_cols x) i) as [[c|s]|]; reflexivity.
  Qed.
  Lemma xser_view_decode x n :
    nodup_str (map fst (x_names x)) = true ->
    xser_view x n = match lookup n (map (xjcol_of x) (to_list (x_sorted x) (x_names x))) with
                    | Some p => decode_ser p | None => None end.
  Proof.
    intro Hnd. rewrite lookup_map_xjcol.
    assert (Hl : lookup n (to_list (x_sorted x) (x_names x)) = lookup n (x_names x)).
    { symmetry. apply lookup_perm. apply Permutation_sym, to_list_perm. apply nodup_str_NoDup, Hnd. }
    rewrite Hl. unfold xser_view. destruct (lookup n (x_names x)) as [i|]; simpl; auto.
    unfold xjcol_of. simpl. destruct (nth_error (x_cols x) i) as [[c|s]|]; simpl; unfold decode_ser; simpl.
    - rewrite typename_not_series. reflexivity.
    - reflexivity.
    - reflexivity.
  Qed.

  (* equal text -> same row ids in the same order, same listed names, every name denotes the same kind and cells,
     and every series has the same depth and the same rows *)
  Theorem json_injective_x d1 d2 :
    xinv_b d1 = true -> xinv_b d2 = true ->
    to_json_x text dumps d1 = to_json_x text dumps d2 ->
    ids (abs (shadow d1)) = ids (abs (shadow d2))
    /\ map (fun v : vcol => fst (fst v)) (listing (abs (shadow d1))) = map (fun v : vcol => fst (fst v)) (listing (abs (shadow d2)))
    /\ (forall n, col_view (abs (shadow d1)) n = col_view (abs (shadow d2)) n)
    /\ (forall n, xser_view d1 n = xser_view d2 n).
  Proof.
    intros H1 H2 H. apply dumps_x_inj in H.
    unfold xinv_b in H1, H2. apply andb_true_iff in H1, H2. destruct H1 as [I1 _], H2 as [I2 _].
    assert (Hs : to_json jdoc (fun d => d) (shadow d1) = to_json jdoc (fun d => d) (shadow d2)).
    { unfold to_json. rewrite !json_doc_shadow, H. reflexivity. }
    destruct (json_injective jdoc (fun d => d) (fun d => d) (fun x => eq_refl) (shadow d1) (shadow d2) I1 I2 Hs)
      as (Ha & Hb & Hc).
    repeat split; auto.
    intro n. rewrite (xser_view_decode d1 n), (xser_view_decode d2 n)
      by (first [apply (inv_nodup_names (shadow d1) I1) | apply (inv_nodup_names (shadow d2) I2)]).
    unfold json_doc_x in H. inversion H as [[Hi Hcols]]. rewrite Hcols. reflexivity.
  Qed.
End JsonXFacts.

(* ---------- L1 refines L0 for the JSON round trip of tables with series *)
Definition pay_of (x : xtable) (i : nat) : spayload :=
  match nth_error (x_cols x) i with Some (XS s) => Some (sc_depth s, sc_cells s) | _ => None end.
Lemma xs_series_nth x i :
  match nth_error (xs_series (xabs x)) i with Some p => p | None => None end = pay_of x i.
Proof.
  unfold xabs, pay_of. simpl. rewrite nth_error_map. destruct (nth_error (x_cols x) i) as [[c|s]|]; reflexivity.
Qed.
Lemma series_view_xabs x : series_view (xabs x) = map (fun ni : string * nat => (fst ni, pay_of x (snd ni))) (x_names x).
Proof.
  unfold series_view. change (names (xs_table (xabs x))) with (x_names x).
  apply map_ext. intros [n i]. rewrite xs_series_nth. reflexivity.
Qed.
Lemma numbered_payloads (ns : list string) : forall (ps pre : list spayload),
  List.length ns = List.length ps ->
  map (fun ni : string * nat => let (n, i) := ni in
         (n, match nth_error (pre ++ ps) i with Some p => p | None => None end))
      (combine ns (seq (List.length pre) (List.length ps)))
  = combine ns ps.
Proof.
  induction ns as [|n ns IH]; intros ps pre Hlen; destruct ps as [|p ps]; simpl in *; try discriminate; auto.
  f_equal.
  - rewrite nth_error_app2 by lia. rewrite Nat.sub_diag. reflexivity.
  - specialize (IH ps (pre ++ [p])%list). rewrite <- app_assoc in IH. simpl in IH.
    rewrite app_length in IH. simpl in IH. rewrite Nat.add_1_r in IH. apply IH. lia.
Qed.
Lemma lookup_map_names {B} (g : string * nat -> B) n i (l : list (string * nat)) :
  NoDup (map fst l) -> In (n, i) l -> lookup n (map (fun ni => (fst ni, g ni)) l) = Some (g (n, i)).
Proof.
  induction l as [|[m j] r IH]; simpl; intros nd Hin; [destruct Hin|].
  inversion nd; subst. destruct Hin as [Hin|Hin].
  - inversion Hin; subst. rewrite String.eqb_refl. reflexivity.
  - destruct (String.eqb n m) eqn:E.
    + apply String.eqb_eq in E. subst. exfalso. apply H1. apply in_map_iff. exists (m, i). auto.
    + apply IH; auto.
Qed.

Lemma series_view_json_image nextid x :
  series_view (xabs (json_image_x nextid x))
  = map (fun ni : string * nat => (fst ni, pay_of x (snd ni))) (to_list (x_sorted x) (x_names x)).
Proof.
  set (L := to_list (x_sorted x) (x_names x)).
  unfold series_view. change (names (xs_table (xabs (json_image_x nextid x)))) with (combine (map fst L) (seq 0 (List.length L))).
  set (ps := xs_series (xabs (json_image_x nextid x))).
  assert (Hps : ps = map (fun ni : string * nat => pay_of x (snd ni)) L).
  { unfold ps, xabs, json_image_x. simpl. fold L. rewrite map_map. apply map_ext. intros [n i]. unfold jimg_x, pay_of. simpl.
    destruct (nth_error (x_cols x) i) as [[c|s]|]; reflexivity. }
  assert (Hl : List.length L = List.length ps) by (rewrite Hps, map_length; reflexivity).
  rewrite Hl. pose proof (numbered_payloads (map fst L) ps []) as H. simpl in H.
  rewrite H by (rewrite map_length; exact Hl).
  rewrite Hps, combine_map_both. reflexivity.
Qed.

Lemma xlisting_series_xabs x :
  nodup_str (map fst (x_names x)) = true ->
  xlisting_series (xabs x) = map (fun ni : string * nat => (fst ni, pay_of x (snd ni))) (to_list (x_sorted x) (x_names x)).
Proof.
  intro Hnd. unfold xlisting_series. change (xs_table (xabs x)) with (abs (shadow x)).
  rewrite listing_abs, map_map. change (to_list (l_sorted (shadow x)) (l_names (shadow x))) with (to_list (x_sorted x) (x_names x)).
  apply map_ext_in. intros [n i] Hin. rewrite fst_vimg. simpl. f_equal.
  unfold series_of. rewrite series_view_xabs.
  rewrite (lookup_map_names (fun ni => pay_of x (snd ni)) n i).
  - reflexivity.
  - apply nodup_str_NoDup, Hnd.
  - eapply Permutation_in; [apply to_list_perm | exact Hin].
Qed.

Theorem json_roundtrip_x_spec (text : Type) (dumps : xjdoc -> text) (loads : text -> xjdoc) :
  (forall d, loads (dumps d) = d) ->
  forall nextid x used, xinv_b x = true -> (forall f, In f used -> (f < nextid)%nat) ->
    exists r, from_json_x text loads nextid (to_json_x text dumps x) = Some r
              /\ xjson_image_ok (xabs x) (xabs r) = true /\ fresh_fam used (xs_table (xabs r)) = true /\ xinv_b r = true.
Proof.
  intros LD nextid x used Hinv Hu. exists (json_image_x nextid x). unfold from_json_x, to_json_x. rewrite LD.
  pose proof Hinv as Hinv0. unfold xinv_b in Hinv. apply andb_true_iff in Hinv. destruct Hinv as [Hi _].
  pose proof (inv_nodup_names (shadow x) Hi) as Hnd. change (l_names (shadow x)) with (x_names x) in Hnd.
  rewrite from_json_doc_x_eq by exact Hnd.
  destruct (json_roundtrip_spec jdoc (fun d => d) (fun d => d) (fun d => eq_refl) nextid (shadow x) used Hi Hu)
    as [r' (Hr' & Hok & Hfr & _)].
  unfold from_json, to_json in Hr'. rewrite from_json_doc_eq in Hr' by exact (inv_nodup_names (shadow x) Hi).
  inversion Hr'; subst r'. clear Hr'.
  split; [reflexivity|]. split; [|split].
  - unfold xjson_image_ok. apply andb_true_iff. split.
    + change (xs_table (xabs (json_image_x nextid x))) with (abs (shadow (json_image_x nextid x))).
      rewrite shadow_json_image. exact Hok.
    + rewrite series_view_json_image, xlisting_series_xabs by exact Hnd. apply series_view_eqb_refl.
  - change (xs_table (xabs (json_image_x nextid x))) with (abs (shadow (json_image_x nextid x))).
    rewrite shadow_json_image. exact Hfr.
  - apply xinv_json_image, Hinv0.
Qed.

(* ---------- pandas: what is handed to pandas is the listing, a series column as its rows of numbers,
   whatever the depth.  All the proof knows about to_pandas' choice of list: *)
Lemma pandas_src_spec : k_pandas_src_dm = SrcList /\ k_pandas_src_col = SrcList.
Proof. split; reflexivity. Qed.
Lemma cells_of_list c : cells_of SrcList c = true_cells c.
Proof. destruct c; reflexivity. Qed.
Theorem to_pandas_payload_x x :
  pandas_payload_x x = map (fun ni => match nth_error (x_cols x) (snd ni) with
                                      | Some c => (fst ni, true_cells c)
                                      | None => (fst ni, PcVals [])
                                      end) (to_list (x_sorted x) (x_names x))
  /\ forall c, pandas_series_x c = true_cells c.
Proof.
  destruct pandas_src_spec as [Hd Hc]. unfold pandas_payload_x, pandas_series_x. rewrite Hd, Hc. split.
  - apply map_ext. intro ni. destruct (nth_error (x_cols x) (snd ni)) as [c|]; [rewrite cells_of_list|]; reflexivity.
  - intro c. apply cells_of_list.
Qed.
(* on tables without series this is the payload of Model/Persist.v *)
Lemma pandas_payload_x_plain t :
  map (fun p => match snd p with PcVals l => (fst p, l) | _ => (fst p, []) end) (pandas_payload_x (of_ltable t))
  = pandas_payload t.
Proof.
  unfold pandas_payload_x, pandas_payload, of_ltable. simpl. rewrite map_map. apply map_ext. intro ni.
  rewrite nth_error_map. destruct (nth_error (l_cols t) (snd ni)); reflexivity.
Qed.
