(* Cell and whole-column assignments of plain values: the L1 steps on BaseColumn._tosequence's regenerated
   bounds (Gen/KCore.v: k_toseq_take, k_toseq_badlen) refine the L0 operations. *)
From Coq Require Import ZArith NArith List Bool String Lia.
From DM Require Import Base.PyVal Spec.Nf Spec.Table Spec.Ops Model.LTable Gen.KCore Model.Core.
From DM Require Import Proofs.ListX Proofs.TableFacts Proofs.MergeFacts Proofs.CoreRefine.
Import ListNotations.

Lemma map_set_nth {A B} (f : A -> B) ci x : forall l, map f (set_nth ci x l) = set_nth ci (f x) (map f l).
Proof. revert ci. induction ci as [|ci IH]; intros [|a l]; cbn [set_nth map]; try reflexivity. f_equal. apply IH. Qed.

Lemma abs_with_cells t ci c cells :
  abs (with_cells t ci c cells) = set_slot (abs t) ci {| skind := lc_kind c; scells := cells |}.
Proof.
  unfold abs, with_cells, set_slot. cbn [fam ids names slots tsorted dflt l_fam l_rowid l_names l_cols l_sorted l_dflt].
  f_equal. rewrite map_set_nth. reflexivity.
Qed.

Theorem setcell_slice_refines (w : world) p ti name a b r :
  pool w = map abs p -> winv p ->
  match lstep p (OSetCell ti name (ASlice a b) r) with
  | LUpd i t' => step w (OSetCell ti name (ASlice a b) r) = (put w i (abs t'), OkUnit)
  | LErr => exists e, snd (step w (OSetCell ti name (ASlice a b) r)) = Err e
                      /\ fst (step w (OSetCell ti name (ASlice a b) r)) = w
  | LSkip => True
  | _ => False
  end.
Proof.
  intros Hp Hw. cbn [lstep]. destruct (nth_error p ti) as [t|] eqn:Et; [|exact I].
  cbn [step]. rewrite (get_abs w p ti t Hp Et). unfold set_cells. change (names (abs t)) with (l_names t).
  destruct (lookup name (l_names t)) as [ci|] eqn:El; [|eexists; split; reflexivity].
  change (slots (abs t)) with (map slot_of_col (l_cols t)). rewrite nth_error_map.
  destruct (nth_error (l_cols t) ci) as [c|] eqn:Ec; cbn [option_map]; [|exact I].
  cbn [address]. change (skind (slot_of_col c)) with (lc_kind c). change (scells (slot_of_col c)) with (lc_cells c).
  change (nrows (abs t)) with (nrows_l t). rewrite rhs_cells_k_spec.
  destruct (rhs_cells (lc_kind c) (List.length (slice_pos (nrows_l t) a b)) r) as [xs|e]; [|eexists; split; reflexivity].
  rewrite abs_with_cells. reflexivity.
Qed.

Theorem setcell_int_refines (w : world) p ti name i v :
  pool w = map abs p -> winv p ->
  match lstep p (OSetCell ti name (AInt i) (RScalar v)) with
  | LUpd j t' => step w (OSetCell ti name (AInt i) (RScalar v)) = (put w j (abs t'), OkUnit)
  | LErr => exists e, snd (step w (OSetCell ti name (AInt i) (RScalar v))) = Err e
                      /\ fst (step w (OSetCell ti name (AInt i) (RScalar v))) = w
  | LSkip => True
  | _ => False
  end.
Proof.
  intros Hp Hw. cbn [lstep]. destruct (nth_error p ti) as [t|] eqn:Et; [|exact I].
  cbn [step]. rewrite (get_abs w p ti t Hp Et). unfold set_cells. change (names (abs t)) with (l_names t).
  destruct (lookup name (l_names t)) as [ci|] eqn:El; [|eexists; split; reflexivity].
  change (slots (abs t)) with (map slot_of_col (l_cols t)). rewrite nth_error_map.
  destruct (nth_error (l_cols t) ci) as [c|] eqn:Ec; cbn [option_map]; [|exact I].
  cbn [address]. change (skind (slot_of_col c)) with (lc_kind c). change (scells (slot_of_col c)) with (lc_cells c).
  change (nrows (abs t)) with (nrows_l t).
  destruct (nf (lc_kind c) v) as [x|e] eqn:En.
  - destruct (norm_index (nrows_l t) i) as [q|]; [|eexists; split; reflexivity].
    rewrite abs_with_cells. reflexivity.
  - destruct (norm_index (nrows_l t) i) as [q|]; eexists; split; reflexivity.
Qed.

(* dm[name] = value on an existing column: the whole column through _tosequence; a value that cannot be coerced
   raises and leaves the table as it was *)
Theorem setcol_existing_refines (w : world) p ti name r :
  pool w = map abs p -> winv p ->
  match lstep p (OSetCol ti name r) with
  | LUpd i t' => step w (OSetCol ti name r) = (put w i (abs t'), OkUnit)
  | LErrUpd i t' => exists e, step w (OSetCol ti name r) = (put w i (abs t'), Err e)
  | LSkip => True
  | _ => False
  end.
Proof.
  intros Hp Hw. cbn [lstep]. destruct (nth_error p ti) as [t|] eqn:Et; [|exact I].
  cbn [step]. rewrite (get_abs w p ti t Hp Et). unfold has_name. change (names (abs t)) with (l_names t).
  destruct (lookup name (l_names t)) as [ci|] eqn:El; [|exact I].
  change (names (abs t)) with (l_names t). rewrite El.
  change (slots (abs t)) with (map slot_of_col (l_cols t)). rewrite nth_error_map.
  destruct (nth_error (l_cols t) ci) as [c|] eqn:Ec; cbn [option_map]; [|exact I].
  change (skind (slot_of_col c)) with (lc_kind c). change (nrows (abs t)) with (nrows_l t).
  rewrite rhs_cells_k_spec.
  destruct (rhs_cells (lc_kind c) (nrows_l t) r) as [xs|e].
  - rewrite abs_with_cells. reflexivity.
  - eexists. reflexivity.
Qed.

(* ---------- column deletion, the sorted flag, column creation by type ---------- *)
Theorem delcol_refines (w : world) p ti name :
  pool w = map abs p ->
  match lstep p (ODelCol ti name) with
  | LUpd i t' => step w (ODelCol ti name) = (put w i (abs t'), OkUnit)
  | LErr => step w (ODelCol ti name) = (w, Err ValueError)
  | LSkip => True
  | _ => False
  end.
Proof.
  intros Hp. cbn [lstep]. destruct (nth_error p ti) as [t|] eqn:Et; [|exact I].
  cbn [step]. rewrite (get_abs w p ti t Hp Et). unfold has_name. change (names (abs t)) with (l_names t).
  destruct (lookup name (l_names t)); reflexivity.
Qed.

Theorem setsorted_refines (w : world) p ti b :
  pool w = map abs p ->
  match lstep p (OSetSorted ti b) with
  | LUpd i t' => step w (OSetSorted ti b) = (put w i (abs t'), OkUnit)
  | LSkip => True
  | _ => False
  end.
Proof.
  intros Hp. cbn [lstep]. destruct (nth_error p ti) as [t|] eqn:Et; [|exact I].
  cbn [step]. rewrite (get_abs w p ti t Hp Et). reflexivity.
Qed.

Theorem setcolkind_refines (w : world) p ti name k :
  pool w = map abs p ->
  match lstep p (OSetColKind ti name k) with
  | LUpd i t' => step w (OSetColKind ti name k) = (put w i (abs t'), OkUnit)
  | LSkip => True
  | _ => False
  end.
Proof.
  intros Hp. cbn [lstep]. destruct (nth_error p ti) as [t|] eqn:Et; [|exact I].
  cbn [step]. rewrite (get_abs w p ti t Hp Et). f_equal. f_equal.
  unfold fresh_col, add_slot, abs, lbind, bind_name, has_name, nrows.
  cbn [fst snd l_fam l_rowid l_names l_cols l_sorted l_dflt fam ids names slots tsorted dflt].
  rewrite map_app, map_length. cbn [map lc_kind lc_cells]. unfold nrows_l.
  destruct (lookup name (l_names t)); reflexivity.
Qed.

(* ---------- dm[i].name = value ---------- *)
Lemma abs_fresh_col t name k :
  abs (lbind t name (List.length (l_cols t))
             (l_cols t ++ [{| lc_kind := k; lc_rowid := idx_of_list (ia (l_rowid t));
                              lc_cells := repeat (default_cell k) (nrows_l t); lc_owner := true; lc_tc := true |}]))
  = fresh_col (abs t) name k.
Proof.
  unfold fresh_col, add_slot, abs, lbind, bind_name, has_name, nrows.
  cbn [fst snd l_fam l_rowid l_names l_cols l_sorted l_dflt fam ids names slots tsorted dflt].
  rewrite map_app, map_length. cbn [map lc_kind lc_cells]. unfold nrows_l.
  destruct (lookup name (l_names t)); reflexivity.
Qed.

Lemma put_put w i a b : put (put w i a) i b = put w i b.
Proof.
  unfold put. cbn [pool nextfam]. f_equal.
  generalize (pool w). clear. induction i as [|i IH]; intros [|x l]; cbn [set_nth]; try reflexivity. f_equal. apply IH.
Qed.

Lemma put_same w i t : get w i = Some t -> put w i t = w.
Proof.
  unfold get, put. destruct w as [pl nf]. cbn [pool nextfam]. intros H. f_equal.
  revert i H. induction pl as [|x l IH]; intros [|i] H; cbn [set_nth nth_error] in *; try discriminate; try reflexivity.
  - injection H as ->. reflexivity.
  - f_equal. apply IH. exact H.
Qed.

Theorem setcell_row_refines (w : world) p ti name i v :
  pool w = map abs p -> winv p ->
  match lstep p (OSetCell ti name (ARow i) (RScalar v)) with
  | LUpd j t' => step w (OSetCell ti name (ARow i) (RScalar v)) = (put w j (abs t'), OkUnit)
  | LErrUpd j t' => exists e, step w (OSetCell ti name (ARow i) (RScalar v)) = (put w j (abs t'), Err e)
  | LErr => step w (OSetCell ti name (ARow i) (RScalar v)) = (w, Err IndexError)
  | LSkip => True
  | LNew _ => False
  end.
Proof.
  intros Hp Hw. cbn [lstep]. destruct (nth_error p ti) as [t|] eqn:Et; [|exact I].
  cbn [step]. rewrite (get_abs w p ti t Hp Et). change (nrows (abs t)) with (nrows_l t).
  rewrite getrow_oob_spec.
  destruct (norm_index (nrows_l t) i) as [q|] eqn:En; [|reflexivity].
  unfold has_name. change (names (abs t)) with (l_names t). change (dflt (abs t)) with (l_dflt t).
  set (t1 := match lookup name (l_names t) with
             | Some _ => t
             | None => lbind t name (List.length (l_cols t))
                             (l_cols t ++ [{| lc_kind := l_dflt t; lc_rowid := idx_of_list (ia (l_rowid t));
                                              lc_cells := repeat (default_cell (l_dflt t)) (nrows_l t);
                                              lc_owner := true; lc_tc := true |}])
             end).
  assert (Ht1 : (if match lookup name (l_names t) with Some _ => true | None => false end
                 then abs t else fresh_col (abs t) name (l_dflt t)) = abs t1).
  { unfold t1. destruct (lookup name (l_names t)); [reflexivity|]. symmetry. apply abs_fresh_col. }
  rewrite Ht1.
  assert (Hn1 : nrows_l t1 = nrows_l t) by (unfold t1; destruct (lookup name (l_names t)); reflexivity).
  unfold set_cells. change (names (abs t1)) with (l_names t1).
  destruct (lookup name (l_names t1)) as [ci|] eqn:El.
  2: { exact I. }
  change (slots (abs t1)) with (map slot_of_col (l_cols t1)). rewrite nth_error_map.
  destruct (nth_error (l_cols t1) ci) as [c|] eqn:Ec; cbn [option_map]; [|exact I].
  cbn [address]. change (nrows (abs t1)) with (nrows_l t1). rewrite Hn1, En.
  change (skind (slot_of_col c)) with (lc_kind c). change (scells (slot_of_col c)) with (lc_cells c).
  destruct (nf (lc_kind c) v) as [x|e].
  - rewrite put_put, abs_with_cells. reflexivity.
  - eexists. reflexivity.
Qed.

(* ---------- col[selection] = value: positions of the selection's row ids (by either lookup algorithm), then the
   same coercion and ordered write as for a slice; a selection of another family is ValueError, a relative holding a
   row the table lacks is KeyError (Index.index / the exactness test after searchsorted), and nothing is written ---------- *)
Lemma all_some_none_in {A B} (g : A -> option B) l x : In x l -> g x = None -> all_some (map g l) = None.
Proof.
  induction l as [|a l IH]; intros Hin Hg; [destruct Hin|]. cbn [map all_some].
  destruct Hin as [->|Hin].
  - rewrite Hg. reflexivity.
  - destruct (g a); [|reflexivity]. rewrite (IH Hin Hg). reflexivity.
Qed.

Theorem setcell_sel_refines (w : world) p ti name t2 r :
  pool w = map abs p -> winv p ->
  match lstep p (OSetCell ti name (ASel t2) r) with
  | LUpd i t' => step w (OSetCell ti name (ASel t2) r) = (put w i (abs t'), OkUnit)
  | LErr => exists e, snd (step w (OSetCell ti name (ASel t2) r)) = Err e
                      /\ fst (step w (OSetCell ti name (ASel t2) r)) = w
  | LSkip => True
  | _ => False
  end.
Proof.
  intros Hp Hw. cbn [lstep]. destruct (nth_error p ti) as [t|] eqn:Et; [|exact I].
  destruct (nth_error p t2) as [k|] eqn:Ek; [|exact I].
  pose proof (winv_nth _ _ _ Hw Et) as Hinv.
  cbn [step]. rewrite (get_abs w p ti t Hp Et). unfold set_cells. change (names (abs t)) with (l_names t).
  destruct (lookup name (l_names t)) as [ci|] eqn:El; [|eexists; split; reflexivity].
  change (slots (abs t)) with (map slot_of_col (l_cols t)). rewrite nth_error_map.
  destruct (nth_error (l_cols t) ci) as [c|] eqn:Ec; cbn [option_map]; [|exact I].
  cbn [address]. rewrite (get_abs w p t2 k Hp Ek).
  change (fam (abs k)) with (l_fam k). change (fam (abs t)) with (l_fam t).
  change (Table.ids (abs k)) with (ia (l_rowid k)). change (Table.ids (abs t)) with (ia (l_rowid t)).
  destruct (negb (Nat.eqb (l_fam k) (l_fam t))); [eexists; split; reflexivity|].
  destruct (forallb (fun x => mem_N x (ia (l_rowid t))) (ia (l_rowid k))) eqn:Eall; cbn [negb].
  - assert (Hsub : forall x, In x (ia (l_rowid k)) -> In x (ia (l_rowid t))).
    { intros x Hx. rewrite forallb_forall in Eall. apply MergeFacts.mem_N_In. apply Eall. exact Hx. }
    rewrite (sel_positions_refines t c k Hinv (nth_error_In _ _ Ec) Hsub).
    destruct (all_some (map (fun r0 => pos_of r0 (ia (l_rowid t))) (ia (l_rowid k)))) as [ps|];
      [|eexists; split; reflexivity].
    change (skind (slot_of_col c)) with (lc_kind c). change (scells (slot_of_col c)) with (lc_cells c).
    rewrite rhs_cells_k_spec.
    destruct (rhs_cells (lc_kind c) (List.length ps) r) as [xs|e]; [|eexists; split; reflexivity].
    f_equal. f_equal. symmetry. apply (abs_with_cells t ci c).
  - assert (Hex : exists x, In x (ia (l_rowid k)) /\ ~ In x (ia (l_rowid t))).
    { clear -Eall. induction (ia (l_rowid k)) as [|a l IH]; [discriminate|]. cbn [forallb] in Eall.
      destruct (mem_N a (ia (l_rowid t))) eqn:Em.
      - cbn [andb] in Eall. destruct (IH Eall) as [x [H1 H2]]. exists x. split; [right; exact H1|exact H2].
      - exists a. split; [left; reflexivity|]. apply MergeFacts.mem_N_false. exact Em. }
    destruct Hex as [x [Hx Hnx]].
    rewrite (all_some_none_in (fun r0 => pos_of r0 (ia (l_rowid t))) _ x Hx (pos_of_notin _ _ Hnx)).
    eexists; split; reflexivity.
Qed.
