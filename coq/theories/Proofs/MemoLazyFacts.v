(* C20, lazy clause: the walk of _lazy_evaluation_obj (Model/MemoLazy.v, on the regenerated dispatch chain k_lazy_obj)
   evaluates every callable of an argument, at any depth, exactly once; what it hands to the body holds no callable and is
   the argument list of Spec/MemoLazy.v (every callable replaced by its value) up to the property's argument equivalence. *)
From Coq Require Import ZArith List Bool String Lia.
From DM Require Import Base.PyVal Gen.KMemo Spec.MemoKey Model.MemoKey Spec.MemoLazy Model.MemoLazy Proofs.MemoKeyFacts.
Import ListNotations.
Local Open Scope nat_scope.

(* the kernel, characterised *)
Lemma k_lazy_obj_spec : forall c d s st,
  k_lazy_obj c d s st = if c then LCall else if d then LKwargs else if s && negb st then LArgs else LSelf.
Proof. intros [] [] [] []; reflexivity. Qed.
Lemma k_lazy_test_spec : forall l, k_lazy_test l = l.
Proof. reflexivity. Qed.

Section LazyFacts.
  Variable value_of : option string -> arg.

  Lemma lazy_obj_fun : forall n, lazy_obj value_of (AFun n) = value_of n.
  Proof. reflexivity. Qed.
  Lemma lazy_obj_list : forall l, lazy_obj value_of (AList l) = AList (map (lazy_obj value_of) l).
  Proof. reflexivity. Qed.
  Lemma lazy_obj_tuple : forall l, lazy_obj value_of (ATuple l) = AList (map (lazy_obj value_of) l).
  Proof. reflexivity. Qed.
  Lemma lazy_obj_dict : forall d,
    lazy_obj value_of (ADict d) = ADict (map (fun kv => let '(k, v) := kv in (k, lazy_obj value_of v)) d).
  Proof. reflexivity. Qed.

  (* every callable, at any depth, is evaluated exactly once *)
  Lemma lazy_forced_all : forall a, lazy_forced a = nfuns a.
  Proof.
    induction a using arg_ind'; try reflexivity.
    - change (fold_right (fun x s => lazy_forced x + s) 0 l = fold_right (fun x s => nfuns x + s) 0 l).
      induction H as [|x r Hx _ IH]; simpl; [reflexivity|]. rewrite Hx, IH. reflexivity.
    - change (fold_right (fun x s => lazy_forced x + s) 0 l = fold_right (fun x s => nfuns x + s) 0 l).
      induction H as [|x r Hx _ IH]; simpl; [reflexivity|]. rewrite Hx, IH. reflexivity.
    - change (fold_right (fun kv s => (let '(_, v) := kv in lazy_forced v) + s) 0 d
              = fold_right (fun kv s => (let '(_, v) := kv in nfuns v) + s) 0 d).
      induction H as [|[k v] r Hx _ IH]; simpl; [reflexivity|]. simpl in Hx. rewrite Hx, IH. reflexivity.
  Qed.

  (* the body receives no callable (the values of the callables hold none) *)
  Lemma lazy_obj_no_callable : (forall n, nfuns (value_of n) = 0) -> forall a, nfuns (lazy_obj value_of a) = 0.
  Proof.
    intros Hv. induction a using arg_ind'; try reflexivity.
    - rewrite lazy_obj_list. simpl. induction H as [|x r Hx _ IH]; simpl; [reflexivity|]. rewrite Hx, IH. reflexivity.
    - rewrite lazy_obj_tuple. simpl. induction H as [|x r Hx _ IH]; simpl; [reflexivity|]. rewrite Hx, IH. reflexivity.
    - rewrite lazy_obj_dict. simpl. induction H as [|[k v] r Hx _ IH]; simpl; [reflexivity|].
      simpl in Hx. rewrite Hx, IH. reflexivity.
    - rewrite lazy_obj_fun. apply Hv.
  Qed.

  Lemma alookup_map : forall (h : arg -> arg) k (d : list (string * arg)),
    alookup k (map (fun kv => let '(k, v) := kv in (k, h v)) d) = option_map h (alookup k d).
  Proof.
    intros h k. induction d as [|[k' v'] r IH]; simpl; [reflexivity|].
    destruct (String.eqb k k'); [reflexivity|exact IH].
  Qed.

  (* what the body receives is the argument with every callable replaced by its value (a tuple may have become a list) *)
  Lemma lazy_obj_refines : (forall n, arg_eqvb (value_of n) (value_of n) = true) ->
    forall a, arg_wfb a = true -> arg_eqvb (lazy_obj value_of a) (eval_all value_of a) = true.
  Proof.
    intros Hv.
    assert (SEQ : forall l, Forall (fun a => arg_wfb a = true ->
                                     arg_eqvb (lazy_obj value_of a) (eval_all value_of a) = true) l ->
                  forallb arg_wfb l = true ->
                  seq_eqvb (map (lazy_obj value_of) l) (map (eval_all value_of) l) = true).
    { intros l H. induction H as [|x r Hx _ IH]; simpl; intros W; [reflexivity|].
      apply andb_true_iff in W. destruct W as [W1 W2]. rewrite (Hx W1), (IH W2). reflexivity. }
    induction a using arg_ind'; intros W.
    - simpl. apply Z.eqb_refl.
    - simpl. apply fl_same_eq. reflexivity.
    - simpl. destruct b; reflexivity.
    - simpl. apply String.eqb_refl.
    - reflexivity.
    - rewrite lazy_obj_list. change (eval_all value_of (AList l)) with (AList (map (eval_all value_of) l)).
      rewrite (proj1 (arg_eqvb_seq _ _)). apply SEQ; assumption.
    - rewrite lazy_obj_tuple. change (eval_all value_of (ATuple l)) with (ATuple (map (eval_all value_of) l)).
      rewrite (proj1 (proj2 (arg_eqvb_seq _ _))). apply SEQ; assumption.
    - rewrite lazy_obj_dict.
      change (eval_all value_of (ADict d))
        with (ADict (map (fun kv => let '(k, v) := kv in (k, eval_all value_of v)) d)).
      rewrite arg_eqvb_dict, !map_length, Nat.eqb_refl. simpl.
      simpl in W. apply andb_true_iff in W. destruct W as [Wk Wv].
      apply dict_sub_spec. intros k v Hin.
      apply in_map_iff in Hin. destruct Hin as ([k0 v0] & E & Hin). injection E as <- <-.
      exists (eval_all value_of v0). split.
      + rewrite alookup_map, (alookup_distinct _ d k0 v0 Wk Hin). reflexivity.
      + rewrite Forall_forall in H. apply (H (k0, v0) Hin).
        rewrite forallb_forall in Wv. apply (Wv (k0, v0) Hin).
    - simpl. apply String.eqb_refl.
    - rewrite lazy_obj_fun. apply Hv.
  Qed.

  (* ---- the argument list of a call ---- *)
  Lemma lazy_call_off : forall c, lazy_call value_of false c = c /\ lazy_call_forced false c = 0.
  Proof. intros c. split; reflexivity. Qed.

  Lemma lazy_call_forced_all : forall c, lazy_call_forced true c = nfuns_call c.
  Proof.
    intros c. unfold lazy_call_forced, nfuns_call. rewrite k_lazy_test_spec.
    rewrite <- (lazy_forced_all (ATuple (c_args c))), <- (lazy_forced_all (ADict (c_kwargs c))). reflexivity.
  Qed.

  Lemma lazy_call_no_callable : (forall n, nfuns (value_of n) = 0) ->
    forall c, nfuns_call (lazy_call value_of true c) = 0.
  Proof.
    intros Hv c. unfold nfuns_call, lazy_call. rewrite k_lazy_test_spec. cbn [c_args c_kwargs].
    pose proof (lazy_obj_no_callable Hv (AList (c_args c))) as A.
    pose proof (lazy_obj_no_callable Hv (ADict (c_kwargs c))) as B.
    rewrite lazy_obj_list in A. rewrite lazy_obj_dict in B.
    change (nfuns (ATuple (map (lazy_obj value_of) (c_args c)))) with (nfuns (AList (map (lazy_obj value_of) (c_args c)))).
    rewrite A, B. reflexivity.
  Qed.

  Lemma lazy_call_refines : (forall n, arg_eqvb (value_of n) (value_of n) = true) ->
    forall c, call_wfb c = true -> call_eqvb (lazy_call value_of true c) (eval_call value_of c) = true.
  Proof.
    intros Hv c W. unfold call_wfb in W. apply andb_true_iff in W. destruct W as [Wa Wk].
    unfold call_eqvb, lazy_call, eval_call. rewrite k_lazy_test_spec. cbn [c_args c_kwargs].
    pose proof (lazy_obj_refines Hv (ATuple (c_args c)) Wa) as A.
    pose proof (lazy_obj_refines Hv (ADict (c_kwargs c)) Wk) as B.
    rewrite lazy_obj_tuple in A. rewrite lazy_obj_dict in B.
    change (eval_all value_of (ATuple (c_args c))) with (ATuple (map (eval_all value_of) (c_args c))) in A.
    rewrite (proj1 (proj2 (arg_eqvb_seq _ _))) in A.
    rewrite (proj2 (proj2 (proj2 (arg_eqvb_seq _ _)))), A. exact B.
  Qed.
End LazyFacts.
