(* Proofs for C17, the global family-id counter: for every interleaving of
   constructions, restores, derivations and mutations the ids in use stay
   below the counter, hence every construction and every restore hands out a
   family that no earlier and no later object of another origin has. *)
From Coq Require Import ZArith NArith List Bool String Permutation Lia.
From DM Require Import Base.PyVal Base.PersistPy Spec.Nf Spec.Table Model.LTable Spec.Persist Gen.KPersist Model.Persist
  Model.PersistIds Proofs.PersistFacts.
Import ListNotations.

Lemma ids_below_iff w : ids_below w = true <-> forall f, In f (fams w) -> (f < ctr w)%nat.
Proof.
  unfold ids_below. rewrite forallb_forall. split; intros H f Hf.
  - apply Nat.ltb_lt, H, Hf.
  - apply Nat.ltb_lt, H, Hf.
Qed.

Lemma In_set_nth {A} (x y : A) : forall l i, In y (set_nth i x l) -> y = x \/ In y l.
Proof.
  induction l as [|a r IH]; intros i H; [destruct i; destruct H|].
  destruct i; simpl in H.
  - destruct H as [H|H]; [left; auto | right; right; exact H].
  - destruct H as [H|H]; [right; left; exact H|]. destruct (IH _ H); [left | right; right]; assumption.
Qed.

Lemma id_step_mono w e : (ctr w <= ctr (id_step w e))%nat.
Proof.
  destruct e; unfold id_step; cbv zeta.
  - cbn [ctr]. destruct (init_ids_spec (ctr w)). lia.
  - cbn [ctr]. destruct (setstate_ids_spec (ctr w)). lia.
  - destruct (nth_error (fams w) i); cbn [ctr]; auto. destruct (init_ids_spec (ctr w)). lia.
  - destruct (nth_error (fams w) i); cbn [ctr]; auto. destruct (mutate_ids_spec n (ctr w)). lia.
Qed.

Lemma id_step_below w e : ids_below w = true -> ids_below (id_step w e) = true.
Proof.
  rewrite !ids_below_iff. intros H f Hf. destruct e; unfold id_step in *; cbv zeta in *.
  - cbn [ctr fams] in *. destruct (init_ids_spec (ctr w)) as [E L]. destruct Hf as [Hf|Hf]; [lia|]. apply H in Hf. lia.
  - cbn [ctr fams] in *. destruct (setstate_ids_spec (ctr w)) as [E L]. destruct Hf as [Hf|Hf]; [lia|]. apply H in Hf. lia.
  - destruct (nth_error (fams w) i) eqn:En; cbn [ctr fams] in *; auto.
    destruct (init_ids_spec (ctr w)) as [E L].
    destruct Hf as [Hf|Hf]; [subst; apply nth_error_In, H in En; lia | apply H in Hf; lia].
  - destruct (nth_error (fams w) i) eqn:En; cbn [ctr fams] in *; auto.
    destruct (mutate_ids_spec n (ctr w)) as [E L].
    apply In_set_nth in Hf. destruct Hf as [Hf|Hf].
    + subst f. apply nth_error_In, H in En. lia.
    + apply H in Hf. lia.
Qed.

Theorem id_run_below evs : forall w, ids_below w = true -> ids_below (id_run evs w) = true.
Proof. induction evs as [|e r IH]; intros w H; simpl; auto. apply IH, id_step_below, H. Qed.

Lemma id_root_is_counter w e f : id_root w e = Some f -> f = ctr w /\ (ctr w < ctr (id_step w e))%nat.
Proof.
  destruct e; unfold id_root, id_step; cbv zeta; cbn [ctr fams]; intro H; try discriminate; inversion H; subst.
  - destruct (init_ids_spec (ctr w)). split; auto.
  - destruct (setstate_ids_spec (ctr w)). split; auto.
Qed.

Lemma id_roots_ge evs : forall w f, In f (id_roots w evs) -> (ctr w <= f)%nat.
Proof.
  induction evs as [|e r IH]; intros w f H; simpl in H; [destruct H|].
  apply in_app_or in H. destruct H as [H|H].
  - destruct (id_root w e) eqn:E; simpl in H; [|destruct H]. destruct H as [H|[]]. subst.
    apply id_root_is_counter in E. lia.
  - apply IH in H. pose proof (id_step_mono w e). lia.
Qed.

(* every construction and every restore gets a family of its own *)
Theorem id_roots_fresh evs : forall w, ids_below w = true ->
  NoDup (id_roots w evs) /\ (forall f, In f (id_roots w evs) -> ~ In f (fams w)).
Proof.
  intros w Hb. split.
  - revert w Hb. induction evs as [|e r IH]; intros w Hb; simpl; [constructor|].
    destruct (id_root w e) eqn:E; simpl.
    + constructor; [|apply IH, id_step_below, Hb].
      intro Hin. apply id_roots_ge in Hin. apply id_root_is_counter in E. lia.
    + apply IH, id_step_below, Hb.
  - intros f Hin Hold. apply id_roots_ge in Hin. apply ids_below_iff with (f := f) in Hb; auto. lia.
Qed.

Lemma nodup_nat_NoDup l : nodup_nat l = true <-> NoDup l.
Proof.
  induction l as [|x r IH]; simpl.
  - split; auto. constructor.
  - rewrite andb_true_iff, negb_true_iff, IH. split.
    + intros [H1 H2]. constructor; auto. intro Hin. apply mem_nat_In in Hin. congruence.
    + intro H. inversion H; subst. split; auto.
      destruct (mem_nat x r) eqn:E; auto. apply mem_nat_In in E. contradiction.
Qed.

(* L1 refines L0 (Spec/Persist.fresh_roots) *)
Theorem id_roots_refine_spec evs w : ids_below w = true -> fresh_roots (fams w) (id_roots w evs) = true.
Proof.
  intro Hb. destruct (id_roots_fresh evs w Hb) as [Hnd Hfr]. unfold fresh_roots. apply andb_true_iff. split.
  - apply nodup_nat_NoDup, Hnd.
  - apply forallb_forall. intros f Hf. apply negb_true_iff.
    destruct (mem_nat f (fams w)) eqn:E; auto. apply mem_nat_In in E. exfalso. eapply Hfr; eauto.
Qed.

(* the restored table is a family of its own, now and for every continuation *)
Theorem restored_family_unique w t :
  ids_below w = true ->
  exists r n', unpickle (ctr w) t = Some (r, n')
    /\ ~ In (l_fam r) (fams w)
    /\ id_step w EvRestore = {| ctr := n'; fams := l_fam r :: fams w |}
    /\ forall later, ~ In (l_fam r) (id_roots (id_step w EvRestore) later).
Proof.
  intro Hb. destruct (unpickle_eq (ctr w) t) as [n' [H Hlt]]. exists (restore (ctr w) t), n'.
  destruct (unpickle_counter _ _ _ _ H) as [Hf Hn]. simpl in Hf.
  destruct (setstate_ids_spec (ctr w)) as [Hs Hl].
  split; [exact H|]. split; [|split].
  - cbn [l_fam restore]. intro Hin. apply ids_below_iff with (f := ctr w) in Hb; auto. lia.
  - unfold id_step. cbv zeta. rewrite Hs, <- Hn. reflexivity.
  - intros later Hin. apply id_roots_ge in Hin. unfold id_step in Hin. cbv zeta in Hin. cbn [ctr l_fam restore] in Hin. lia.
Qed.
