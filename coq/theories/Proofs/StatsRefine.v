(* C12, part 2: the L1 model (Model/Stats.v, built on the regenerated kernels Gen/KStats.v and Gen/KCheck.v)
   computes the textbook statistics of Spec/Stats.v; the three column types agree; unique / count.
   The kernels are consumed only through the characterising lemmas at the top. *)
From Coq Require Import ZArith QArith Qcanon List Bool String Permutation Sorted Lia Arith.
From DM Require Import Base.PyVal Base.QcPy Spec.Nf Spec.Stats Gen.KCheck Gen.KStats Model.Stats Proofs.StatsFacts.
Import ListNotations.
Open Scope Qc_scope.

Definition lift (o : option Qc) : mres := match o with Some q => MVal q | None => MNan end.
Lemma mres_eqb_eq : forall a b, mres_eqb a b = true <-> a = b.
Proof.
  destruct a, b; simpl; split; intros H; try discriminate; try reflexivity.
  - apply Qceqb_true in H. congruence.
  - inversion H. apply Qceqb_true. reflexivity.
Qed.

(* ------------------------------------------------------------------ characterising lemmas of the generated kernels *)
Lemma zlen_nonneg : forall A (l : list A), (0 <= zlen l)%Z.
Proof. intros. unfold zlen. lia. Qed.
Lemma zlen_zero : forall A (l : list A), zlen l = 0%Z <-> l = [].
Proof. intros. unfold zlen. destruct l; simpl; split; intros; try reflexivity; try discriminate; lia. Qed.

Ltac guard_empty k :=
  intros ? l; unfold k; rewrite ?negb_involutive; destruct l; [reflexivity|];
  simpl nonempty; simpl negb; apply Z.eqb_neq; unfold zlen; simpl List.length; lia.
Lemma k_mean_isempty_spec : forall A (l : list A), k_mean_isempty (zlen l) = negb (nonempty l).
Proof. guard_empty k_mean_isempty. Qed.
Lemma k_median_isempty_spec : forall A (l : list A), k_median_isempty (zlen l) = negb (nonempty l).
Proof. guard_empty k_median_isempty. Qed.
Lemma k_max_isempty_spec : forall A (l : list A), k_max_isempty (zlen l) = negb (nonempty l).
Proof. guard_empty k_max_isempty. Qed.
Lemma k_min_isempty_spec : forall A (l : list A), k_min_isempty (zlen l) = negb (nonempty l).
Proof. guard_empty k_min_isempty. Qed.
Lemma k_sum_isempty_spec : forall A (l : list A), k_sum_isempty (zlen l) = negb (nonempty l).
Proof. guard_empty k_sum_isempty. Qed.
Lemma k_np_max_isempty_spec : forall A (l : list A), k_np_max_isempty (zlen l) = negb (nonempty l).
Proof. guard_empty k_np_max_isempty. Qed.
Lemma k_np_min_isempty_spec : forall A (l : list A), k_np_min_isempty (zlen l) = negb (nonempty l).
Proof. guard_empty k_np_min_isempty. Qed.
Lemma k_np_sum_isempty_spec : forall A (l : list A), k_np_sum_isempty (zlen l) = negb (nonempty l).
Proof. guard_empty k_np_sum_isempty. Qed.

Lemma k_mean_val_spec : forall l, k_mean_val (qsum l) (zlen l) = mean l.
Proof. intros. unfold k_mean_val, mean, qlen. reflexivity. Qed.

Lemma k_std_few_spec : forall A (l : list A), k_std_few (zlen l) = negb (2 <=? List.length l)%nat.
Proof.
  intros. unfold k_std_few, zlen. destruct (Nat.leb_spec 2 (List.length l)); simpl.
  - apply Z.leb_gt. lia.
  - apply Z.leb_le. lia.
Qed.
Lemma k_std_term_spec : forall x m, k_std_term x m = sqdev m x.
Proof. intros. unfold k_std_term, sqdev, qpow. simpl. ring. Qed.
Lemma k_std_var_spec : forall ss l, k_std_var ss (zlen l) = ss / (qlen l - 1).
Proof. intros. unfold k_std_var, qlen. rewrite qz_minus, qz_1. reflexivity. Qed.
Lemma k_np_ddof_spec : forall l : list Qc, qz (zlen l - k_np_ddof) = qlen l - 1.
Proof. intros. unfold k_np_ddof, qlen. rewrite qz_minus, qz_1. reflexivity. Qed.
Lemma k_np_dof_guard : forall l : list Qc, (zlen l - k_np_ddof <=? 0)%Z = negb (2 <=? List.length l)%nat.
Proof.
  intros. unfold k_np_ddof, zlen. destruct (Nat.leb_spec 2 (List.length l)); simpl.
  - apply Z.leb_gt. lia.
  - apply Z.leb_le. lia.
Qed.

(* median index, parity, weights *)
Lemma k_median_i_bounds : forall n, (0 <= n)%Z -> (2 * k_median_i n <= n < 2 * k_median_i n + 2)%Z.
Proof.
  intros n H. unfold k_median_i. try rewrite Z.quot_div_nonneg by lia. Z.div_mod_to_equations. lia.
Qed.
Lemma k_median_i_spec : forall n : nat, Z.to_nat (k_median_i (Z.of_nat n)) = Nat.div2 n.
Proof.
  intros n. pose proof (k_median_i_bounds (Z.of_nat n) ltac:(lia)) as B.
  pose proof (Nat.div2_odd n) as D. destruct (Nat.odd n); simpl Nat.b2n in D; lia.
Qed.
Lemma k_median_i_nonneg : forall n, (0 <= n)%Z -> (0 <= k_median_i n)%Z.
Proof. intros n H. pose proof (k_median_i_bounds n H). lia. Qed.
Lemma k_median_isodd_spec : forall n : nat, k_median_isodd (Z.of_nat n) = Nat.odd n.
Proof.
  intros n. unfold k_median_isodd. pose proof (Nat.div2_odd n) as D.
  destruct (Nat.odd n); simpl Nat.b2n in D; [apply Z.eqb_eq | apply Z.eqb_neq]; Z.div_mod_to_equations; lia.
Qed.
Lemma k_median_odd_idx_spec : forall n i, k_median_odd_idx n i = i.
Proof. intros. unfold k_median_odd_idx. lia. Qed.
Lemma qnth_nonneg : forall l i, (0 <= i)%Z -> qnth l i = nth (Z.to_nat i) l 0.
Proof. intros. unfold qnth. destruct (Z.ltb_spec i 0). lia. reflexivity. Qed.
Lemma k_median_even_spec : forall l len i, (1 <= i)%Z ->
  k_median_even l len i = (nth (Z.to_nat i - 1) l 0 + nth (Z.to_nat i) l 0) / qz 2.
Proof.
  intros. unfold k_median_even. rewrite !qnth_nonneg by lia.
  replace (Z.to_nat (i - 1)) with (Z.to_nat i - 1)%nat by lia.
  unfold Qcdiv. rewrite half_qz2. ring.
Qed.

(* ------------------------------------------------------------------ BaseColumn statistics on n = self._numbers *)
Lemma b_mean_spec : forall n, b_mean n = lift (textbook Mean n).
Proof.
  intros. unfold b_mean. rewrite k_mean_isempty_spec, py_sum_qsum, k_mean_val_spec. simpl.
  destruct (nonempty n); reflexivity.
Qed.
Lemma nonempty_qsort : forall n, nonempty (qsort n) = nonempty n.
Proof.
  intros n. pose proof (qsort_length n) as H. destruct n; destruct (qsort _); simpl in *; auto; discriminate.
Qed.
Lemma b_median_spec : forall n, b_median n = lift (textbook Median n).
Proof.
  intros n. unfold b_median. rewrite k_median_isempty_spec. simpl textbook. rewrite nonempty_qsort.
  destruct (nonempty n) eqn:NE; simpl; auto.
  unfold median. unfold zlen. rewrite k_median_isodd_spec.
  pose proof (k_median_i_spec (List.length (qsort n))) as HI.
  pose proof (k_median_i_nonneg (Z.of_nat (List.length (qsort n))) ltac:(lia)) as HP.
  destruct (Nat.odd (List.length (qsort n))) eqn:O.
  - rewrite k_median_odd_idx_spec, qnth_nonneg by auto. rewrite HI. reflexivity.
  - assert (1 <= k_median_i (Z.of_nat (List.length (qsort n))))%Z.
    { pose proof (Nat.div2_odd (List.length (qsort n))) as D. rewrite O in D. simpl Nat.b2n in D.
      assert (0 < List.length (qsort n))%nat. { rewrite qsort_length. destruct n; simpl in *; [discriminate|lia]. }
      lia. }
    rewrite k_median_even_spec by auto. rewrite HI. reflexivity.
Qed.
Lemma b_var_spec : forall n, b_var n = lift (textbook Var n).
Proof.
  intros n. unfold b_var. rewrite k_std_few_spec, b_mean_spec. unfold textbook.
  destruct (2 <=? List.length n)%nat eqn:E; simpl negb; cbv iota; auto.
  assert (nonempty n = true) by (destruct n; simpl in *; auto; discriminate).
  rewrite H. unfold lift. rewrite py_sum_qsum, k_std_var_spec. unfold var.
  rewrite (map_ext _ (sqdev (mean n))) by (intros; apply k_std_term_spec). reflexivity.
Qed.
Lemma base_stat_spec : forall s n,
  base_stat s n = match s, n with Sum, [] => MNan | _, _ => lift (textbook s n) end.
Proof.
  intros s n. destruct s; simpl base_stat.
  - rewrite b_mean_spec. destruct n; reflexivity.
  - rewrite b_median_spec. destruct n; reflexivity.
  - rewrite b_var_spec. destruct n; reflexivity.
  - unfold b_min. rewrite k_min_isempty_spec, py_min_qmin. destruct n; reflexivity.
  - unfold b_max. rewrite k_max_isempty_spec, py_max_qmax. destruct n; reflexivity.
  - unfold b_sum. rewrite k_sum_isempty_spec, py_sum_qsum. destruct n; reflexivity.
Qed.

(* ------------------------------------------------------------------ NumericColumn statistics on the non-NaN elements *)
Lemma num_stat_spec : forall s (cells : list fl) n, (cells = [] -> n = []) ->
  num_stat s (zlen cells) n =
    match s, n with
    | Sum, [] => if nonempty cells then MVal 0 else MNan
    | _, _ => lift (textbook s n)
    end.
Proof.
  intros s cells n Hc. destruct s; unfold num_stat.
  - destruct n; reflexivity.
  - destruct n; reflexivity.
  - unfold np_var, textbook. rewrite k_np_dof_guard, k_np_ddof_spec.
    destruct (2 <=? List.length n)%nat eqn:E; destruct n; simpl in *; try reflexivity; discriminate.
  - rewrite k_np_min_isempty_spec. destruct cells; simpl.
    + rewrite Hc; auto.
    + destruct n; reflexivity.
  - rewrite k_np_max_isempty_spec. destruct cells; simpl.
    + rewrite Hc; auto.
    + destruct n; reflexivity.
  - rewrite k_np_sum_isempty_spec. destruct cells; simpl.
    + rewrite Hc; auto.
    + destruct n; reflexivity.
Qed.

(* ------------------------------------------------------------------ float() of an int *)
Definition fcast (v : val) : val := match v with VInt z => VFlt (round53 z) | _ => v end.
Definition int_exact (v : val) : Prop := match v with VInt z => (Z.abs z < 2 ^ 53)%Z | _ => True end.

Lemma pos_norm_spec : forall p e, (0 <= e)%Z ->
  (0 <= snd (pos_norm p e))%Z /\ (Z.pos (fst (pos_norm p e)) * 2 ^ snd (pos_norm p e) = Z.pos p * 2 ^ e)%Z.
Proof.
  induction p; intros e He; cbn [pos_norm]; try (cbn [fst snd]; split; [auto|reflexivity]).
  destruct (IHp (e + 1)%Z ltac:(lia)) as [H1 H2]. split; auto.
  rewrite H2. rewrite Z.pow_add_r by lia. change (Z.pos p~0) with (2 * Z.pos p)%Z. lia.
Qed.
Lemma mk_fin_q : forall neg a, (0 <= a)%Z -> fl_q (mk_fin neg a 0) = Some (qz (if neg then - a else a)).
Proof.
  intros neg a Ha. unfold mk_fin. destruct a as [|p|p]; try lia.
  - simpl. destruct neg; reflexivity.
  - destruct (pos_norm_spec p 0 ltac:(lia)) as [H1 H2]. destruct (pos_norm p 0) as [m e'] eqn:E.
    cbn [fst snd] in H1, H2. rewrite Z.pow_0_r in H2.
    unfold fl_q, fl_dy, option_map, dy_q.
    destruct (Z.leb_spec 0 e'); [|lia]. f_equal. f_equal.
    destruct neg.
    + change (Z.neg m) with (- Z.pos m)%Z. rewrite Z.mul_opp_l, H2. lia.
    + rewrite H2. lia.
Qed.
Lemma round53_exact : forall z, (Z.abs z < 2 ^ 53)%Z -> fl_q (round53 z) = Some (qz z).
Proof.
  intros z H. unfold round53. destruct (Z.eqb_spec (Z.abs z) 0).
  - assert (z = 0%Z) by lia. subst. reflexivity.
  - assert (L : (Z.log2 (Z.abs z) + 1 <=? 53)%Z = true).
    { apply Z.leb_le. assert (Z.log2 (Z.abs z) < 53)%Z; [|lia]. apply Z.log2_lt_pow2; lia. }
    rewrite L. rewrite mk_fin_q by lia. f_equal. f_equal. destruct (Z.ltb_spec z 0); lia.
Qed.
Lemma round53_finite : forall z, fl_is_finite (round53 z) = true.
Proof.
  intros z. unfold round53. destruct (Z.abs z =? 0)%Z; auto.
  assert (M : forall neg a e, fl_is_finite (mk_fin neg a e) = true).
  { intros. unfold mk_fin. destruct a; auto. destruct (pos_norm p e); auto. }
  destruct (_ <=? 53)%Z; apply M.
Qed.
Lemma finite_fl_q : forall f, fl_is_finite f = true -> exists q, fl_q f = Some q.
Proof. destruct f; simpl; intros; try discriminate; eexists; reflexivity. Qed.

Lemma nums_fcast_exact : forall cells, Forall int_exact cells -> nums (map fcast cells) = nums cells.
Proof.
  induction 1; simpl; auto. destruct x; simpl in *; rewrite ?IHForall; auto.
  rewrite round53_exact by auto. reflexivity.
Qed.

(* ------------------------------------------------------------------ BaseColumn._numbers through the generated kernels *)
Lemma dy_cmp_refl : forall d, dy_cmp d d = Eq.
Proof. intros [m e]. unfold dy_cmp. apply Z.compare_refl. Qed.

Lemma py_eq_int_refl : forall z, py_eq (PInt z) (PInt z) = true.
Proof. intros. unfold py_eq, pyv_num, num_eqb, num_cmp. rewrite dy_cmp_refl. reflexivity. Qed.
Lemma py_eq_fin_refl : forall b m e, py_eq (PFloat (FFin b m e)) (PFloat (FFin b m e)) = true.
Proof. intros. unfold py_eq, pyv_num, num_eqb, num_cmp, fl_dy. rewrite dy_cmp_refl. reflexivity. Qed.
Lemma py_eq_zero_refl : forall b, py_eq (PFloat (FZero b)) (PFloat (FZero b)) = true.
Proof. intros. reflexivity. Qed.
Lemma py_eq_int_inf : forall z, py_eq (PInt z) (PFloat (FInf false)) = false.
Proof. intros. reflexivity. Qed.
Lemma py_eq_fin_inf : forall b m e, py_eq (PFloat (FFin b m e)) (PFloat (FInf false)) = false.
Proof. intros. reflexivity. Qed.
Lemma py_eq_zero_inf : forall b, py_eq (PFloat (FZero b)) (PFloat (FInf false)) = false.
Proof. intros. reflexivity. Qed.

(* what the kernels do with one stored cell *)
Lemma numbers_cell : forall v, cell_inf v = false ->
  match cell_q (fcast v) with
  | Some q => k_numbers_keep (pyv_of_val v) = Ok true /\
              exists f, k_numbers_conv (pyv_of_val v) = Ok (PFloat f) /\ fl_q f = Some q
  | None => k_numbers_keep (pyv_of_val v) = Ok false
  end.
Proof.
  intros v Hinf. destruct v as [z|f|s|]; simpl fcast.
  - simpl cell_q. destruct (finite_fl_q _ (round53_finite z)) as [q Hq]. rewrite Hq. split.
    + unfold k_numbers_keep, k_nanorinf. simpl pyv_of_val. simpl is_Number. simpl bind.
      rewrite py_eq_int_refl, py_eq_int_inf. reflexivity.
    + exists (round53 z). split; auto.
  - destruct f as [|b|b|b m e]; simpl in Hinf; try discriminate; simpl cell_q.
    + reflexivity.
    + split. reflexivity. exists (FZero b). split; reflexivity.
    + unfold fl_q at 1. simpl fl_dy. simpl option_map. split.
      * unfold k_numbers_keep, k_nanorinf. simpl pyv_of_val. simpl is_Number. simpl bind.
        rewrite py_eq_fin_refl, py_eq_fin_inf. reflexivity.
      * exists (FFin b m e). split; reflexivity.
  - reflexivity.
  - reflexivity.
Qed.

Theorem m_nums_spec : forall cells, in_scope cells = true -> m_nums cells = Some (nums (map fcast cells)).
Proof.
  unfold in_scope, m_nums. induction cells as [|v r IH]; intros H; simpl in H.
  - reflexivity.
  - rewrite negb_orb in H. apply andb_prop in H. destruct H as [Hv Hr]. apply negb_true_iff in Hv.
    specialize (IH Hr). pose proof (numbers_cell v Hv) as C.
    simpl m_numbers. simpl map. simpl nums. destruct (cell_q (fcast v)) as [q|].
    + destruct C as [K [f [Cv Fq]]]. rewrite K. simpl. rewrite Cv. simpl.
      destruct (m_numbers r) as [t|e]; simpl in *; [|discriminate]. rewrite Fq, IH. reflexivity.
    + rewrite C. simpl. exact IH.
Qed.

(* statistics of a MixedColumn = the textbook statistic of its finite numeric cells (ints seen through float()) *)
Theorem m_stat_spec : forall s cells, in_scope cells = true ->
  m_stat s cells = match s, nums (map fcast cells) with
                   | Sum, [] => MNan
                   | _, _ => lift (col_stat s (map fcast cells))
                   end.
Proof. intros. unfold m_stat. rewrite m_nums_spec by auto. simpl. apply base_stat_spec. Qed.
Theorem m_stat_ignores_non_numeric : forall s cells, in_scope cells = true -> Forall int_exact cells ->
  m_stat s cells = match s, nums cells with Sum, [] => MNan | _, _ => lift (col_stat s cells) end.
Proof.
  intros. rewrite m_stat_spec by auto. unfold col_stat. rewrite nums_fcast_exact by auto. reflexivity.
Qed.

(* ------------------------------------------------------------------ FloatColumn / IntColumn *)
Definition fl_inf (f : fl) : bool := match f with FInf _ => true | _ => false end.
Lemma np_nums_spec : forall fs, existsb fl_inf fs = false -> np_nums fs = Some (nums (map VFlt fs)).
Proof.
  induction fs as [|f r IH]; intros H; simpl in *. reflexivity.
  apply orb_false_iff in H. destruct H as [Hf Hr]. specialize (IH Hr).
  destruct f; simpl in *; try discriminate; rewrite IH; reflexivity.
Qed.
Lemma np_nums_nil : forall fs n, fs = [] -> np_nums fs = Some n -> n = [].
Proof. intros. subst. simpl in H0. congruence. Qed.
Theorem f_stat_spec : forall s fs, existsb fl_inf fs = false ->
  f_stat s fs = match s, nums (map VFlt fs) with
                | Sum, [] => if nonempty fs then MVal 0 else MNan
                | _, _ => lift (col_stat s (map VFlt fs))
                end.
Proof.
  intros. unfold f_stat. rewrite np_nums_spec by auto. simpl. apply num_stat_spec.
  intros ->. reflexivity.
Qed.
Lemma nums_ints : forall zs, nums (map VInt zs) = map qz zs.
Proof. induction zs; simpl; congruence. Qed.
Theorem i_stat_spec : forall s zs,
  i_stat s zs = match s, zs with Sum, [] => MNan | _, _ => lift (col_stat s (map VInt zs)) end.
Proof.
  intros. unfold i_stat, col_stat. rewrite nums_ints.
  replace (zlen zs) with (zlen (map (fun _ : Z => FNan) zs)) by (unfold zlen; rewrite map_length; auto).
  rewrite num_stat_spec by (destruct zs; simpl; intros; [auto|discriminate]).
  destruct s, zs; reflexivity.
Qed.

(* ------------------------------------------------------------------ the three column types agree *)
Definition to_fl (v : val) : fl := match v with VInt z => round53 z | VFlt f => f | _ => FNan end.
Lemma nums_to_fl : forall cells, nums (map VFlt (map to_fl cells)) = nums (map fcast cells).
Proof. induction cells as [|v r IH]; simpl; auto. destruct v; simpl; rewrite IH; reflexivity. Qed.
Lemma to_fl_inf : forall cells, in_scope cells = true -> existsb fl_inf (map to_fl cells) = false.
Proof.
  unfold in_scope. induction cells as [|v r IH]; simpl; intros H; auto.
  rewrite negb_orb in H. apply andb_prop in H. destruct H as [Hv Hr]. rewrite IH by auto.
  destruct v as [z|f| |]; simpl in *; auto.
  - pose proof (round53_finite z). destruct (round53 z); simpl in *; auto; discriminate.
  - destruct f; simpl in *; auto; discriminate.
Qed.
(* a MixedColumn and the FloatColumn holding the same cells (strings / None stored as NaN, ints as floats) *)
Theorem mixed_float_agree : forall s cells, in_scope cells = true ->
  (s <> Sum \/ nums (map fcast cells) <> []) ->
  m_stat s cells = f_stat s (map to_fl cells).
Proof.
  intros s cells H NS. rewrite m_stat_spec by auto. rewrite f_stat_spec by (apply to_fl_inf; auto).
  unfold col_stat. rewrite nums_to_fl.
  destruct s; try reflexivity. destruct (nums (map fcast cells)); try reflexivity.
  destruct NS; congruence.
Qed.
(* an IntColumn and the MixedColumn / FloatColumn holding the same ints *)
Lemma ints_in_scope : forall zs, in_scope (map VInt zs) = true.
Proof. unfold in_scope. induction zs; simpl; auto. Qed.
Theorem int_mixed_agree : forall s zs, Forall (fun z => (Z.abs z < 2 ^ 53)%Z) zs ->
  i_stat s zs = m_stat s (map VInt zs).
Proof.
  intros s zs H. rewrite i_stat_spec. rewrite m_stat_ignores_non_numeric.
  - rewrite nums_ints. destruct s, zs; reflexivity.
  - apply ints_in_scope.
  - apply Forall_forall. intros v Hv. apply in_map_iff in Hv. destruct Hv as [z [<- Hz]].
    rewrite Forall_forall in H. simpl. auto.
Qed.
Theorem int_float_agree : forall s zs, Forall (fun z => (Z.abs z < 2 ^ 53)%Z) zs -> zs <> [] ->
  i_stat s zs = f_stat s (map round53 zs).
Proof.
  intros s zs H NE. rewrite (int_mixed_agree s zs H).
  replace (map round53 zs) with (map to_fl (map VInt zs)) by (rewrite map_map; reflexivity).
  apply mixed_float_agree. apply ints_in_scope.
  right. rewrite nums_fcast_exact.
  - rewrite nums_ints. destruct zs; simpl; congruence.
  - apply Forall_forall. intros v Hv. apply in_map_iff in Hv. destruct Hv as [z [<- Hz]].
    rewrite Forall_forall in H. simpl. auto.
Qed.

(* ------------------------------------------------------------------ no numbers => NaN, fewer than two => std NaN *)
Theorem empty_is_nan : forall k s cells, in_scope cells = true -> nums (map fcast cells) = [] ->
  s <> Sum -> l1_stat k s cells = MNan \/ l1_stat k s cells = MOut.
Proof.
  intros k s cells H E NS. destruct k; simpl.
  - left. rewrite m_stat_spec by auto. unfold col_stat. rewrite E. destruct s; try reflexivity; try congruence.
  - destruct (f_vals cells) as [fs|] eqn:F; auto. left.
    assert (cells = map VFlt fs).
    { clear -F. revert fs F. induction cells as [|v r IH]; intros fs F; simpl in F.
      - inversion F. reflexivity.
      - destruct v; try discriminate. destruct (f_vals r); simpl in F; try discriminate.
        inversion F. simpl. f_equal. apply IH. reflexivity. }
    subst cells.
    assert (existsb fl_inf fs = false).
    { clear -H. unfold in_scope in H. induction fs as [|f r IH]; simpl in *; auto.
      rewrite negb_orb in H. apply andb_prop in H. destruct H. rewrite IH by auto.
      destruct f; simpl in *; auto; discriminate. }
    rewrite f_stat_spec by auto. unfold col_stat.
    assert (E2 : nums (map VFlt fs) = []).
    { rewrite <- E. clear. induction fs; simpl; auto. rewrite IHfs. reflexivity. }
    rewrite E2. destruct s; try reflexivity; try congruence.
  - destruct (i_vals cells) as [zs|] eqn:F; auto. left.
    assert (cells = map VInt zs).
    { clear -F. revert zs F. induction cells as [|v r IH]; intros zs F; simpl in F.
      - inversion F. reflexivity.
      - destruct v; try discriminate. destruct (i_vals r); simpl in F; try discriminate.
        inversion F. simpl. f_equal. apply IH. reflexivity. }
    subst cells. destruct zs as [|z zs].
    + rewrite i_stat_spec. destruct s; try reflexivity; try congruence.
    + exfalso. simpl in E. destruct (finite_fl_q _ (round53_finite z)) as [q Hq]. rewrite Hq in E. discriminate.
Qed.

(* ------------------------------------------------------------------ one statement for the three column types *)
Definition seen (k : kind) (cells : list val) : list val :=
  match k with KMixed => map fcast cells | _ => cells end.
Lemma f_vals_map : forall cells fs, f_vals cells = Some fs -> cells = map VFlt fs.
Proof.
  induction cells as [|v r IH]; intros fs F; simpl in F.
  - inversion F. reflexivity.
  - destruct v; try discriminate. destruct (f_vals r); simpl in F; try discriminate.
    inversion F. simpl. f_equal. apply IH. reflexivity.
Qed.
Lemma i_vals_map : forall cells zs, i_vals cells = Some zs -> cells = map VInt zs.
Proof.
  induction cells as [|v r IH]; intros zs F; simpl in F.
  - inversion F. reflexivity.
  - destruct v; try discriminate. destruct (i_vals r); simpl in F; try discriminate.
    inversion F. simpl. f_equal. apply IH. reflexivity.
Qed.
Lemma in_scope_flts : forall fs, in_scope (map VFlt fs) = true -> existsb fl_inf fs = false.
Proof.
  unfold in_scope. induction fs as [|f r IH]; simpl in *; auto. intros H.
  rewrite negb_orb in H. apply andb_prop in H. destruct H. rewrite IH by auto.
  destruct f; simpl in *; auto; discriminate.
Qed.
Theorem l1_stat_spec : forall k s cells, in_scope cells = true ->
  l1_stat k s cells = MOut \/
  l1_stat k s cells =
    match s, nums (seen k cells) with
    | Sum, [] => match k, cells with KFloat, _ :: _ => MVal 0 | _, _ => MNan end
    | _, _ => lift (col_stat s (seen k cells))
    end.
Proof.
  intros k s cells H. destruct k; simpl l1_stat; simpl seen.
  - right. rewrite m_stat_spec by auto. destruct s; try reflexivity; destruct (nums (map fcast cells)); reflexivity.
  - destruct (f_vals cells) as [fs|] eqn:F; auto. right.
    apply f_vals_map in F. subst cells. rewrite f_stat_spec by (apply in_scope_flts; auto).
    destruct s; try reflexivity; destruct (nums (map VFlt fs)); try reflexivity; destruct fs; reflexivity.
  - destruct (i_vals cells) as [zs|] eqn:F; auto. right.
    apply i_vals_map in F. subst cells. rewrite i_stat_spec.
    rewrite nums_ints. destruct s; try reflexivity; destruct zs; reflexivity.
Qed.
Theorem empty_is_nan' : forall k s cells, in_scope cells = true -> nums (seen k cells) = [] -> s <> Sum ->
  l1_stat k s cells = MNan \/ l1_stat k s cells = MOut.
Proof.
  intros k s cells H E NS. destruct (l1_stat_spec k s cells H) as [O|R]; auto. left. rewrite R.
  unfold col_stat. rewrite E. destruct s; try reflexivity; congruence.
Qed.
Theorem std_lt2_is_nan : forall k cells, in_scope cells = true -> (List.length (nums (seen k cells)) < 2)%nat ->
  l1_stat k Var cells = MNan \/ l1_stat k Var cells = MOut.
Proof.
  intros k cells H L. destruct (l1_stat_spec k Var cells H) as [O|R]; auto. left. rewrite R.
  unfold col_stat, textbook. destruct (Nat.leb_spec 2 (List.length (nums (seen k cells)))); [lia|reflexivity].
Qed.

(* ------------------------------------------------------------------ unique / count *)
Lemma key_eqb_eq : forall a b, key_eqb a b = true <-> a = b.
Proof.
  destruct a, b; simpl; split; intros H; try discriminate; try reflexivity.
  - apply Qceqb_true in H. congruence.
  - inversion H. apply Qceqb_true. reflexivity.
  - apply Bool.eqb_prop in H. congruence.
  - inversion H. apply Bool.eqb_reflx.
  - apply String.eqb_eq in H. congruence.
  - inversion H. apply String.eqb_refl.
Qed.
Lemma kmem_In : forall k l, kmem k l = true <-> In k l.
Proof.
  intros. unfold kmem. rewrite existsb_exists. split.
  - intros [x [I E]]. apply key_eqb_eq in E. subst. auto.
  - intros I. exists k. split; auto. apply key_eqb_eq. reflexivity.
Qed.
Lemma knodup_NoDup : forall l, knodup l = true <-> NoDup l.
Proof.
  induction l; simpl.
  - split; auto. constructor.
  - rewrite andb_true_iff, negb_true_iff, IHl. split.
    + intros [M N]. constructor; auto. intro I. apply kmem_In in I. congruence.
    + intros N. inversion N; subst. split; auto. destruct (kmem a l) eqn:E; auto. apply kmem_In in E. contradiction.
Qed.
Theorem unique_ok_spec : forall cells u, unique_ok cells u = true <-> unique_spec cells u.
Proof.
  intros. unfold unique_ok, unique_spec. rewrite !andb_true_iff, knodup_NoDup, !forallb_forall. split.
  - intros [[N S1] S2]. split; auto. intros k. split; intros I.
    + apply kmem_In. auto.
    + apply kmem_In. auto.
  - intros [N S]. repeat split; auto; intros k I; apply kmem_In; apply S; auto.
Qed.

Lemma kdistinct_In : forall l k, In k (kdistinct l) <-> In k l.
Proof.
  induction l; simpl; intros k. tauto.
  rewrite filter_In, IHl, negb_true_iff. split.
  - intros [->|[I _]]; auto.
  - intros [->|I]; auto. destruct (key_eqb a k) eqn:E.
    + apply key_eqb_eq in E. auto.
    + right. auto.
Qed.
Lemma NoDup_filter' : forall A (f : A -> bool) l, NoDup l -> NoDup (filter f l).
Proof.
  induction 1; simpl. constructor. destruct (f x); auto. constructor; auto.
  intro I. apply filter_In in I. tauto.
Qed.
Lemma kdistinct_NoDup : forall l, NoDup (kdistinct l).
Proof.
  induction l; simpl. constructor. constructor.
  - intro I. apply filter_In in I. destruct I as [_ E]. apply negb_true_iff in E.
    assert (key_eqb a a = true) by (apply key_eqb_eq; reflexivity). congruence.
  - apply NoDup_filter'. auto.
Qed.
(* the distinct non-NaN values: each exactly once, none missing, none invented *)
Theorem distinct_nodup : forall cells, NoDup (distinct cells).
Proof. intros. apply kdistinct_NoDup. Qed.
Theorem distinct_complete : forall cells k, In k (distinct cells) <-> In k (keys cells).
Proof. intros. apply kdistinct_In. Qed.

Lemma keys_perm : forall c c', Permutation c c' -> Permutation (keys c) (keys c').
Proof.
  induction 1; simpl; auto.
  - destruct (cell_key x); auto.
  - destruct (cell_key x), (cell_key y); auto. apply perm_swap.
  - eapply perm_trans; eauto.
Qed.
Theorem distinct_perm : forall c c', Permutation c c' -> Permutation (distinct c) (distinct c').
Proof.
  intros c c' P. apply NoDup_Permutation; try apply distinct_nodup.
  intros k. rewrite !distinct_complete. split; apply Permutation_in; [|apply Permutation_sym]; apply keys_perm; auto.
Qed.
Theorem count_perm : forall c c', Permutation c c' -> List.length (distinct c) = List.length (distinct c').
Proof. intros. apply Permutation_length, distinct_perm; auto. Qed.
(* any two answers satisfying the specification have the same length: count is determined *)
Theorem unique_spec_count : forall cells u, unique_spec cells u -> List.length (keys u) = List.length (distinct cells).
Proof.
  intros cells u [N S]. apply Permutation_length. apply NoDup_Permutation; auto. apply distinct_nodup.
  intros k. rewrite S, distinct_complete. tauto.
Qed.
Theorem unique_spec_perm : forall c c' u, Permutation c c' -> unique_spec c u -> unique_spec c' u.
Proof.
  intros c c' u P [N S]. split; auto. intros k. rewrite S. split; apply Permutation_in; [|apply Permutation_sym]; apply keys_perm; auto.
Qed.

(* the L1 model of unique lists exactly the distinct values *)
Definition umodel_list (m : umodel) : list key := match m with UOrdered l | UAnyOrder l => l end.
Lemma all_some_map : forall d qs, all_some (map key_q d) = Some qs -> d = map KNum qs.
Proof.
  induction d as [|k r IH]; simpl; intros qs H.
  - inversion H. reflexivity.
  - destruct k; simpl in H; try discriminate. destruct (all_some (map key_q r)); simpl in H; try discriminate.
    inversion H. simpl. f_equal. apply IH. reflexivity.
Qed.
Theorem l1_unique_perm : forall k cells, Permutation (umodel_list (l1_unique k cells)) (distinct cells).
Proof.
  intros. unfold l1_unique. destruct (all_some (map key_q (distinct cells))) as [qs|] eqn:E; simpl; auto.
  apply all_some_map in E.
  assert (P : Permutation (map KNum (qsort qs)) (distinct cells)).
  { rewrite E. apply Permutation_map, qsort_perm. }
  destruct k; try destruct (has_nan cells); simpl; auto.
Qed.
Theorem l1_unique_nodup : forall k cells, NoDup (umodel_list (l1_unique k cells)).
Proof.
  intros. eapply Permutation_NoDup. apply Permutation_sym, l1_unique_perm. apply distinct_nodup.
Qed.
Theorem l1_unique_complete : forall k cells x, In x (umodel_list (l1_unique k cells)) <-> In x (keys cells).
Proof.
  intros. rewrite <- distinct_complete. split; apply Permutation_in; [|apply Permutation_sym]; apply l1_unique_perm.
Qed.
Theorem l1_count_length : forall k cells u,
  l1_count k cells u = match k with
                       | KMixed => zlen u
                       | _ => (zlen (umodel_list (l1_unique k cells)) + (if has_nan cells then 1 else 0))%Z
                       end.
Proof.
  intros. destruct k; simpl; auto; unfold zlen; rewrite (Permutation_length (l1_unique_perm _ cells)); reflexivity.
Qed.
