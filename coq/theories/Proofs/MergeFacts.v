(* Set algebra on row identity (C03): merge_ids is the ascending, duplicate-free
   enumeration of the set operation, hence independent of operand order and of
   the enumeration order of Python's set; the laws follow from
   "strictly sorted lists with the same members are equal". *)
From Coq Require Import ZArith NArith List Bool Lia Sorting.Sorted.
From DM Require Import Spec.Table.
Import ListNotations.

Lemma mem_N_In x l : mem_N x l = true <-> In x l.
Proof.
  induction l as [|y l IH]; cbn [mem_N]; [split; [discriminate|intros []]|].
  rewrite orb_true_iff, IH, N.eqb_eq. simpl. split; intros [H|H]; auto.
Qed.
Lemma mem_N_false x l : mem_N x l = false <-> ~ In x l.
Proof. rewrite <- mem_N_In. destruct (mem_N x l); split; congruence. Qed.

Lemma nodup_N_NoDup l : nodup_N l = true <-> NoDup l.
Proof.
  induction l as [|x l IH]; cbn [nodup_N]; [split; [constructor|reflexivity]|].
  rewrite andb_true_iff, negb_true_iff, mem_N_false, IH. split.
  - intros [H1 H2]. constructor; assumption.
  - intros H. inversion H; subst. split; assumption.
Qed.

(* strictly increasing lists *)
Inductive ssorted : list N -> Prop :=
  | ss_nil : ssorted []
  | ss_one x : ssorted [x]
  | ss_cons x y l : (x < y)%N -> ssorted (y :: l) -> ssorted (x :: y :: l).

Lemma ssorted_tail x l : ssorted (x :: l) -> ssorted l.
Proof. intros H; inversion H; subst; [constructor|assumption]. Qed.
Lemma ssorted_lt x l y : ssorted (x :: l) -> In y l -> (x < y)%N.
Proof.
  revert x; induction l as [|z l IH]; intros x H Hy; [destruct Hy|].
  inversion H; subst. destruct Hy as [->|Hy]; [assumption|].
  specialize (IH z H4 Hy). lia.
Qed.
Lemma ssorted_NoDup l : ssorted l -> NoDup l.
Proof.
  induction l as [|x l IH]; intros H; constructor.
  - intros Hin. pose proof (ssorted_lt _ _ _ H Hin). lia.
  - apply IH. eapply ssorted_tail; eassumption.
Qed.

(* extensionality: same members + strictly sorted => equal *)
Lemma ssorted_ext l1 : forall l2, ssorted l1 -> ssorted l2 -> (forall x, In x l1 <-> In x l2) -> l1 = l2.
Proof.
  induction l1 as [|a l1 IH]; intros l2 H1 H2 Hm.
  - destruct l2 as [|b l2]; [reflexivity|]. exfalso. apply (proj2 (Hm b)). left; reflexivity.
  - destruct l2 as [|b l2]; [exfalso; apply (proj1 (Hm a)); left; reflexivity|].
    assert (a = b).
    { destruct (proj1 (Hm a) (or_introl eq_refl)) as [E|Hin]; [congruence|].
      destruct (proj2 (Hm b) (or_introl eq_refl)) as [E|Hin2]; [congruence|].
      pose proof (ssorted_lt _ _ _ H2 Hin). pose proof (ssorted_lt _ _ _ H1 Hin2). lia. }
    subst b. f_equal. apply IH; [eapply ssorted_tail; eassumption .. |].
    intros x. split; intros Hx.
    + destruct (proj1 (Hm x) (or_intror Hx)) as [E|?]; [|assumption].
      subst x. pose proof (ssorted_lt _ _ _ H1 Hx). lia.
    + destruct (proj2 (Hm x) (or_intror Hx)) as [E|?]; [|assumption].
      subst x. pose proof (ssorted_lt _ _ _ H2 Hx). lia.
Qed.

(* insertion sort on ids: with distinct members it is strictly sorted and keeps the members *)
Lemma insert_N_In x y l : In y (insert_N x l) <-> y = x \/ In y l.
Proof.
  induction l as [|z l IH]; cbn [insert_N]; [simpl; intuition|].
  destruct (N.leb x z); simpl; [intuition|]. rewrite IH. intuition.
Qed.
Lemma sort_N_In y l : In y (sort_N l) <-> In y l.
Proof.
  unfold sort_N. induction l as [|x l IH]; cbn [fold_right]; [reflexivity|].
  rewrite insert_N_In, IH. simpl. intuition.
Qed.
Lemma insert_N_ssorted x l : ssorted l -> ~ In x l -> ssorted (insert_N x l).
Proof.
  induction l as [|z l IH]; intros Hs Hn; cbn [insert_N]; [constructor|].
  destruct (N.leb x z) eqn:E.
  - apply N.leb_le in E. constructor; [|assumption]. assert (x <> z) by (intros ->; apply Hn; left; reflexivity). lia.
  - apply N.leb_gt in E. assert (Hs' := ssorted_tail _ _ Hs).
    assert (Hn' : ~ In x l) by (intros H; apply Hn; right; assumption).
    specialize (IH Hs' Hn').
    destruct l as [|w l]; cbn [insert_N] in *; [constructor; [assumption|constructor]|].
    destruct (N.leb x w) eqn:E2.
    + constructor; assumption.
    + constructor; [|assumption]. inversion Hs; subst; assumption.
Qed.
Lemma sort_N_ssorted l : NoDup l -> ssorted (sort_N l).
Proof.
  unfold sort_N. induction l as [|x l IH]; intros H; cbn [fold_right]; [constructor|].
  inversion H; subst. apply insert_N_ssorted; [apply IH; assumption|].
  fold (sort_N l). rewrite sort_N_In. assumption.
Qed.

(* ---- membership of the three operators ---- *)
Lemma NoDup_filter {A} (f : A -> bool) l : NoDup l -> NoDup (filter f l).
Proof.
  induction l as [|x l IH]; intros H; cbn [filter]; [constructor|]. inversion H; subst.
  destruct (f x); [constructor; [rewrite filter_In; tauto|]|]; apply IH; assumption.
Qed.
Lemma NoDup_app_disj {A} (l1 l2 : list A) :
  NoDup l1 -> NoDup l2 -> (forall x, In x l1 -> ~ In x l2) -> NoDup (l1 ++ l2).
Proof.
  induction l1 as [|x l1 IH]; intros H1 H2 Hd; [assumption|]. inversion H1; subst. cbn [app]. constructor.
  - rewrite in_app_iff. intros [H|H]; [contradiction|]. apply (Hd x); [left; reflexivity|assumption].
  - apply IH; [assumption..|]. intros y Hy. apply Hd. right; assumption.
Qed.

Definition in_op (o : mergeop) (a b : list N) (x : N) : Prop :=
  match o with
  | MAnd => In x a /\ In x b
  | MOr => In x a \/ In x b
  | MXor => (In x a /\ ~ In x b) \/ (In x b /\ ~ In x a)
  end.

Theorem merge_ids_In o a b x : In x (merge_ids o a b) <-> in_op o a b x.
Proof.
  unfold merge_ids. rewrite sort_N_In. destruct o; cbn [in_op];
    rewrite ?in_app_iff, ?filter_In, ?negb_true_iff, ?mem_N_In, ?mem_N_false.
  - tauto.
  - destruct (in_dec N.eq_dec x a); tauto.
  - tauto.
Qed.

Theorem merge_ids_ssorted o a b : NoDup a -> NoDup b -> ssorted (merge_ids o a b).
Proof.
  intros Ha Hb. unfold merge_ids. apply sort_N_ssorted. destruct o.
  - apply NoDup_filter; assumption.
  - apply NoDup_app_disj; [assumption|apply NoDup_filter; assumption|].
    intros x Hx. rewrite filter_In, negb_true_iff, mem_N_false. tauto.
  - apply NoDup_app_disj; [apply NoDup_filter; assumption .. |].
    intros x. rewrite !filter_In, !negb_true_iff, !mem_N_false. tauto.
Qed.

Corollary merge_ids_NoDup o a b : NoDup a -> NoDup b -> NoDup (merge_ids o a b).
Proof. intros; apply ssorted_NoDup, merge_ids_ssorted; assumption. Qed.

(* the result depends only on the two id *sets*: any re-enumeration (Python's
   set iteration order, a reordered operand) gives the same list *)
Theorem merge_ids_ext o a b a' b' :
  NoDup a -> NoDup b -> NoDup a' -> NoDup b' ->
  (forall x, In x a <-> In x a') -> (forall x, In x b <-> In x b') ->
  merge_ids o a b = merge_ids o a' b'.
Proof.
  intros Ha Hb Ha' Hb' E1 E2. apply ssorted_ext; try (apply merge_ids_ssorted; assumption).
  intros x. rewrite !merge_ids_In. destruct o; cbn [in_op]; rewrite ?E1, ?E2; tauto.
Qed.

Ltac law := intros; apply ssorted_ext;
  [repeat (apply merge_ids_ssorted || apply merge_ids_NoDup); assumption ..
  | intros x; repeat (rewrite !merge_ids_In; cbn [in_op]) ].

Theorem merge_comm o a b : NoDup a -> NoDup b -> merge_ids o a b = merge_ids o b a.
Proof. law. destruct o; cbn [in_op]; tauto. Qed.

Theorem and_assoc a b c : NoDup a -> NoDup b -> NoDup c ->
  merge_ids MAnd (merge_ids MAnd a b) c = merge_ids MAnd a (merge_ids MAnd b c).
Proof. law. tauto. Qed.
Theorem or_assoc a b c : NoDup a -> NoDup b -> NoDup c ->
  merge_ids MOr (merge_ids MOr a b) c = merge_ids MOr a (merge_ids MOr b c).
Proof. law. tauto. Qed.
Theorem xor_assoc a b c : NoDup a -> NoDup b -> NoDup c ->
  merge_ids MXor (merge_ids MXor a b) c = merge_ids MXor a (merge_ids MXor b c).
Proof.
  law. destruct (in_dec N.eq_dec x a), (in_dec N.eq_dec x b), (in_dec N.eq_dec x c); tauto.
Qed.
Theorem and_idem a : NoDup a -> merge_ids MAnd a a = sort_N a.
Proof.
  intros Ha. apply ssorted_ext; [apply merge_ids_ssorted; assumption | apply sort_N_ssorted; assumption|].
  intros x. rewrite merge_ids_In, sort_N_In. cbn [in_op]. tauto.
Qed.
Theorem or_idem a : NoDup a -> merge_ids MOr a a = sort_N a.
Proof.
  intros Ha. apply ssorted_ext; [apply merge_ids_ssorted; assumption | apply sort_N_ssorted; assumption|].
  intros x. rewrite merge_ids_In, sort_N_In. cbn [in_op]. tauto.
Qed.
Theorem xor_self a : merge_ids MXor a a = [].
Proof.
  destruct (merge_ids MXor a a) as [|x l] eqn:E; [reflexivity|].
  assert (H : In x (merge_ids MXor a a)) by (rewrite E; left; reflexivity).
  rewrite merge_ids_In in H. cbn [in_op] in H. tauto.
Qed.
