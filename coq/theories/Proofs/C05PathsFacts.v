(* C05: the write-path skeletons on the regenerated dispatch kernels store the normal form.
   The kernels are consumed by case analysis on the exit they select (computed per constructor of the
   classified value), so a rewrite that selects an equivalent exit still proves, while an exit that skips a
   needed _checktype, or a fast path that opens with type checking on, leaves an unprovable goal. *)
From Coq Require Import ZArith List Bool String Lia.
From DM Require Import Base.PyVal Spec.Nf Gen.KCheck Gen.KC05Paths Model.Store Model.C05Paths Proofs.NfFacts.
Import ListNotations.
Open Scope Z_scope.

(* ---- the guard of BaseColumn._setslicekey ---- *)

(* with type checking on, _setslicekey never copies raw storage *)
Lemma setslice_fast_on (same : bool) : k_setslice_fast true same = false.
Proof. destruct same; reflexivity. Qed.

(* the raw copy is confined to: type checking off and a value of exactly the same column type *)
Lemma setslice_fast_only (tc same : bool) : k_setslice_fast tc same = true -> tc = false /\ same = true.
Proof. destruct tc, same; vm_compute; intros H; try discriminate H; auto. Qed.

(* ---- NumPy buffer stores of numbers are the FloatColumn normal form ---- *)

Lemma np_to_float_nf (v : pyv) : is_Number v = true -> res_eqv (np_to_float v) (nf_float v) = true.
Proof.
  destruct v as [z | b | f | z | is64 f | s oi of | | ]; intros H; try discriminate H;
    cbn -[round53 fl_eqv]; try apply fl_eqv_refl. destruct b; reflexivity.
Qed.

(* ---- scalar values handed to column._tosequence ---- *)

Lemma base_toseq_scalar_nf (k : kind) (v : pyv) :
  pyv_wf v = true -> res_eqv (base_toseq_scalar k v) (nf k v) = true.
Proof.
  intros Hwf. unfold base_toseq_scalar. destruct (k_base_toseq_scalar v) eqn:S; [apply store_cell_spec, Hwf|].
  (* not broadcast: iter(value) must fail, and the normal form must be TypeError too *)
  destruct v as [z | b | f | z | is64 f | s oi of | | ]; vm_compute in S; try discriminate S; destruct k; reflexivity.
Qed.

Lemma toseq_scalar_float_nf (v : pyv) : pyv_wf v = true -> res_eqv (toseq_scalar KFloat v) (nf KFloat v) = true.
Proof.
  intros Hwf. unfold toseq_scalar. destruct (numeric_exit false false v) eqn:E.
  - apply (store_cell_spec KFloat), Hwf.
  - (* a[:] = value without _checktype: only numbers may get here *)
    apply np_to_float_nf.
    destruct v as [z | b | f | z | [|] f | s oi of | | ]; vm_compute in E; try discriminate E; reflexivity.
  - destruct v as [z | b | f | z | [|] f | s oi of | | ]; vm_compute in E; discriminate E.
  - apply (base_toseq_scalar_nf KFloat), Hwf.
  - destruct v as [z | b | f | z | [|] f | s oi of | | ]; vm_compute in E; discriminate E.
Qed.

(* IntColumn._checktype hands back a Python int (or bool) *)
Lemma int_checktype_result (v v' : pyv) : k_int_checktype v = Ok v' -> is_int v' = true.
Proof.
  unfold k_int_checktype.
  destruct v as [z | b | f | z | is64 f | s oi of | | ]; cbn -[fl_trunc]; intros H; try discriminate H;
    try (inversion H; reflexivity).
  - destruct f; cbn -[fl_trunc] in H; try discriminate H; inversion H; reflexivity.
  - destruct f; cbn -[fl_trunc] in H; try discriminate H; inversion H; reflexivity.
  - destruct oi as [z|]; cbn -[fl_trunc] in H; [inversion H; reflexivity|].
    destruct of as [f|]; cbn -[fl_trunc] in H; [|discriminate H].
    destruct f; cbn -[fl_trunc] in H; try discriminate H; inversion H; reflexivity.
Qed.

Lemma base_toseq_scalar_int (v' : pyv) : is_int v' = true -> base_toseq_scalar KInt v' = np_to_int v'.
Proof. destruct v' as [z | b | f | z | is64 f | s oi of | | ]; intros H; try discriminate H; reflexivity. Qed.

Lemma toseq_scalar_int_nf (v : pyv) : res_eqv (toseq_scalar KInt v) (nf KInt v) = true.
Proof.
  cbn [nf]. rewrite <- store_int_spec. unfold toseq_scalar, store_cell.
  destruct (k_int_checktype v) as [v'|e] eqn:E; cbn [bind]; [|apply res_eqv_refl].
  rewrite (base_toseq_scalar_int v' (int_checktype_result v v' E)). apply res_eqv_refl.
Qed.

Theorem toseq_scalar_nf (k : kind) (v : pyv) : pyv_wf v = true -> res_eqv (toseq_scalar k v) (nf k v) = true.
Proof.
  intros Hwf. destruct k.
  - apply (base_toseq_scalar_nf KMixed), Hwf.
  - apply toseq_scalar_float_nf, Hwf.
  - apply toseq_scalar_int_nf.
Qed.

Theorem path_k_nf (p : path) (k : kind) (v : pyv) : pyv_wf v = true -> res_eqv (store_k p k v) (nf k v) = true.
Proof.
  intros Hwf. unfold store_k. destruct (scalar_path p); [apply toseq_scalar_nf, Hwf | apply store_cell_spec, Hwf].
Qed.

(* ---- a column object as value ---- *)

Lemma toseq_col_nf (k k2 : kind) (raw : pyv) :
  pyv_wf raw = true -> raw_ok k2 raw = true -> res_eqv (toseq_col k k2 raw) (nf k raw) = true.
Proof.
  intros Hwf Hok. destruct k; unfold toseq_col.
  - destruct (k_base_toseq_scalar POther) eqn:S; [vm_compute in S; discriminate S|].
    apply (store_cell_spec KMixed), Hwf.
  - destruct (numeric_exit (is_numeric_kind k2) true POther) eqn:E;
      try (destruct k2; vm_compute in E; discriminate E).
    + (* value.array: only a numeric column may be taken as an array *)
      apply np_to_float_nf. destruct k2; vm_compute in E; try discriminate E; exact Hok.
    + destruct (k_base_toseq_scalar POther) eqn:S; [vm_compute in S; discriminate S|].
      apply (store_cell_spec KFloat), Hwf.
  - apply (store_cell_spec KInt), Hwf.
Qed.

(* every way of assigning a column object stores the normal form of the cell it hands out, as long as type
   checking is on (which the pin on _typechecking guarantees outside DataMatrix.__lshift__) *)
Theorem colval_nf (f : colform) (k k2 : kind) (raw : pyv) :
  pyv_wf raw = true -> raw_ok k2 raw = true ->
  res_eqv (store_colval true f k k2 raw) (nf (result_kind f k k2) raw) = true.
Proof.
  intros Hwf Hok. destruct f; cbn [store_colval result_kind]; unfold setslice_col; rewrite ?setslice_fast_on;
    apply toseq_col_nf; assumption.
Qed.

(* the index-list / selection forms never look at the flag *)
Theorem colval_seqkey_flag (tc : bool) (k k2 : kind) (raw : pyv) :
  store_colval tc FSeqKey k k2 raw = store_colval true FSeqKey k k2 raw.
Proof. reflexivity. Qed.

(* with the flag off, a column of another type is still checked cell by cell *)
Theorem colval_other_type_flag (k k2 : kind) (raw : pyv) :
  kind_eqb k k2 = false -> store_colval false FSlice k k2 raw = store_colval true FSlice k k2 raw.
Proof.
  intros H. cbn [store_colval]. unfold setslice_col. rewrite H.
  destruct (k_setslice_fast false false) eqn:E; [apply setslice_fast_only in E; destruct E; discriminate|].
  rewrite setslice_fast_on. reflexivity.
Qed.

(* ---- whole-column assignment of a column object (DataMatrix._set_col) ---- *)

(* only a column that is one of the table's own columns (and row-aligned) is entered by reference *)
Lemma setcol_by_reference_only (so own sl si : bool) :
  k_setcol_by_reference so own sl si = true -> so = true /\ own = true /\ sl = true /\ si = true.
Proof. destruct so, own, sl, si; vm_compute; intros H; try discriminate H; auto. Qed.

(* a column value that is not one of the table's own columns (derived by arithmetic, @, slicing, or owned by
   another table) is always stored through the normal form of its type *)
Theorem setcol_not_own_nf (so sl si : bool) (k2 : kind) (raw : pyv) :
  pyv_wf raw = true -> raw_ok k2 raw = true -> sl = true ->
  res_eqv (store_setcol so false sl si k2 raw) (nf k2 raw) = true.
Proof.
  intros Hwf Hok ->. unfold store_setcol.
  destruct (k_setcol_by_reference so false true si) eqn:E.
  - apply setcol_by_reference_only in E. destruct E as (_ & E & _). discriminate E.
  - cbn [negb]. exact (colval_nf FSetCol k2 k2 raw Hwf Hok).
Qed.

(* a column of another length is refused, whatever it holds *)
Theorem setcol_length (so own si : bool) (k2 : kind) (raw : pyv) :
  store_setcol so own false si k2 raw = Raise ValueError.
Proof.
  unfold store_setcol. destruct (k_setcol_by_reference so own false si) eqn:E; [|reflexivity].
  apply setcol_by_reference_only in E. destruct E as (_ & _ & E & _). discriminate E.
Qed.

(* ---- a scalar written to n addressed cells, n = 0 included ---- *)
From DM Require Import Spec.Table.

(* the L1 scalar write refines the L0 right-hand side (Spec/Table.rhs_cells) for every number of addressed cells:
   the same exception, or n copies of Python-equal values *)
Theorem scalar_n_refines (k : kind) (n : nat) (v : pyv) : pyv_wf v = true ->
  match store_scalar_n k n v, rhs_cells k n (RScalar v) with
  | Ok xs, Ok ys => exists x y, xs = repeat x n /\ ys = repeat y n /\ val_eqv x y = true
  | Raise e1, Raise e2 => e1 = e2
  | _, _ => False
  end.
Proof.
  intros Hwf. pose proof (toseq_scalar_nf k v Hwf) as H. unfold store_scalar_n, rhs_cells.
  destruct (toseq_scalar k v) as [x|e1], (nf k v) as [y|e2]; cbn [bind res_eqv] in *; try discriminate H.
  - exists x, y. auto.
  - destruct e1, e2; try discriminate H; reflexivity.
Qed.

(* the accept / reject verdict of a scalar write does not depend on how many cells are addressed *)
Theorem scalar_verdict_any_n (k : kind) (n m : nat) (v : pyv) :
  match store_scalar_n k n v, store_scalar_n k m v with
  | Ok _, Ok _ => True
  | Raise e1, Raise e2 => e1 = e2
  | _, _ => False
  end.
Proof. unfold store_scalar_n. destruct (toseq_scalar k v); cbn [bind]; auto. Qed.

(* a write that addresses no cell: nothing is stored, and it raises exactly when the normal form raises *)
Theorem scalar_zero_cells (k : kind) (v : pyv) : pyv_wf v = true ->
  match store_scalar_n k 0 v, nf k v with
  | Ok xs, Ok _ => xs = []
  | Raise e1, Raise e2 => e1 = e2
  | _, _ => False
  end.
Proof.
  intros Hwf. pose proof (toseq_scalar_nf k v Hwf) as H. unfold store_scalar_n.
  destruct (toseq_scalar k v) as [x|e1], (nf k v) as [y|e2]; cbn [bind res_eqv repeat] in *; try discriminate H; auto.
  destruct e1, e2; try discriminate H; reflexivity.
Qed.
