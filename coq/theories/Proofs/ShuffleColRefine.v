(* L1 = L0 for the column variants of C11: the algorithms of operations.py (Model/ShuffleCol.v, on the regenerated
   kernels) compute, on every object graph satisfying inv_b, exactly the positional operations of
   Spec/ShuffleCol.v -- results and exception classes alike. *)
From Coq Require Import ZArith NArith List Bool Lia Arith String Permutation.
From DM Require Import Base.PyVal Spec.Nf Spec.Table Spec.Ops Spec.ShuffleCol Model.LTable Model.ShuffleColAbs
  Gen.KCore Model.Core Gen.KOpsMisc Gen.KShuffle Model.ShuffleCol
  Proofs.ListX Proofs.TableFacts Proofs.TakeFacts Proofs.CoreRefine Proofs.ShuffleColFacts.
Import ListNotations.
Open Scope nat_scope.

(* ---------- the kernels, through their characterising lemmas ---------- *)
Lemma k_shuffle_is_table_spec b : k_shuffle_is_table b = b.
Proof. destruct b; reflexivity. Qed.
Lemma k_sample_is_table_spec b : k_sample_is_table b = b.
Proof. destruct b; reflexivity. Qed.
Lemma k_horiz_expand_spec n b : k_horiz_expand (Z.of_nat n) b = Nat.eqb n 1 && b.
Proof.
  unfold k_horiz_expand. destruct b; rewrite ?andb_true_r, ?andb_false_r; [|reflexivity].
  destruct (Nat.eqb n 1) eqn:E; [apply Nat.eqb_eq in E; subst; reflexivity|].
  apply Nat.eqb_neq in E. apply Z.eqb_neq. lia.
Qed.
Lemma k_horiz_nonempty_spec n : k_horiz_nonempty (Z.of_nat n) = negb (Nat.eqb n 0).
Proof.
  unfold k_horiz_nonempty. destruct n as [|n]; [reflexivity|]. cbn [Nat.eqb negb].
  apply Z.gtb_lt. lia.
Qed.
Lemma k_horiz_is_column_spec b : k_horiz_is_column b = b.
Proof. destruct b; reflexivity. Qed.
Lemma k_horiz_same_dm_spec b : k_horiz_same_dm b = b.
Proof. destruct b; reflexivity. Qed.
Lemma k_row_key_is_position_spec b : k_row_key_is_position b = b.
Proof. destruct b; reflexivity. Qed.
Lemma k_keep_delete_spec b : k_keep_delete b = negb b.
Proof. reflexivity. Qed.
Lemma k_name_keep_spec b : k_name_keep b = b.
Proof. reflexivity. Qed.
Lemma k_name_single_spec n : k_name_single (Z.of_nat n) = Nat.eqb n 1.
Proof.
  unfold k_name_single. destruct (Nat.eqb n 1) eqn:E; [apply Nat.eqb_eq in E; subst; reflexivity|].
  apply Nat.eqb_neq in E. apply Z.eqb_neq. lia.
Qed.
Lemma k_colname_column {A} (a b : A) : k_colname false true a b = Ok b.
Proof. reflexivity. Qed.

(* ---------- a column of a table satisfying inv_b denotes the position-aligned L0 column ---------- *)
Lemma col_of_abs t name c :
  inv_b t = true -> lcol_of t name = Some c -> col_of (abs t) name = Some (abs_col c).
Proof.
  intros Hinv Hc. destruct (inv_b_facts t Hinv) as (_ & _ & _ & Hcols & _).
  unfold col_of. rewrite slot_of_abs, Hc. cbn [option_map slot_of_col skind scells].
  assert (Hci : col_inv (ia (l_rowid t)) c)
    by (rewrite Forall_forall in Hcols; apply Hcols; eapply lcol_of_In; eassumption).
  destruct Hci as [Hi _ _]. unfold abs_col. rewrite Hi. reflexivity.
Qed.

Lemma ia_index_ctor c : ia (index_ctor c) = ia (lc_rowid c).
Proof. unfold index_ctor. destruct (is_mixed c); reflexivity. Qed.

Lemma is_perm_in_range perm n : is_perm_of_range perm n = true -> Forall (fun p => p < n) perm.
Proof.
  unfold is_perm_of_range. rewrite !andb_true_iff, forallb_forall. intros [_ H].
  apply Forall_forall. intros p Hp. apply Nat.ltb_lt. apply H. assumption.
Qed.

(* fetching by id in the order of ids taken at positions ps = taking the cells at ps *)
Lemma getrowidkey_positions c ids key ps :
  NoDup ids -> col_inv ids c -> take_pos ps ids = Some (ia key) ->
  exists col cs, getrowidkey c key = Some col /\ take_pos ps (lc_cells c) = Some cs
                 /\ lc_kind col = lc_kind c /\ lc_cells col = cs /\ ia (lc_rowid col) = ia key
                 /\ lc_owner col = true /\ lc_tc col = true.
Proof.
  intros Hnd Hci Ht.
  assert (Hin : forall k, In k (ia key) -> In k ids) by (intros k Hk; eapply take_pos_In; eassumption).
  pose proof (pos_of_take_pos ids ps (ia key) Hnd Ht) as Hps.
  destruct (getrowidkey_slot c ids key ps Hnd Hci Hin Hps) as [Hslot Hids].
  assert (Hlen : Forall (fun p => p < List.length (lc_cells c)) ps).
  { destruct Hci as [_ Hl _]. rewrite Hl. apply Forall_forall. intros p Hp.
    apply take_pos_spec in Ht. apply In_nth_error in Hp. destruct Hp as [i Hi].
    assert (E : nth_error (map (nth_error ids) ps) i = Some (nth_error ids p)) by (rewrite nth_error_map, Hi; reflexivity).
    rewrite Ht, nth_error_map in E. destruct (nth_error (ia key) i); [|discriminate]. cbn [option_map] in E.
    apply nth_error_Some. congruence. }
  destruct (take_pos_total ps (lc_cells c) Hlen) as [cs Hcs]. rewrite Hcs in Hslot.
  destruct (getrowidkey c key) as [col|] eqn:Eg; [|discriminate]. cbn [option_map] in Hslot.
  exists col, cs. split; [reflexivity|]. split; [exact Hcs|].
  unfold slot_of_col in Hslot. injection Hslot as Hk Hc.
  split; [assumption|]. split; [assumption|]. split; [apply Hids; reflexivity|].
  unfold getrowidkey in Eg. destruct (positions_by_id c (ia key)); [|discriminate].
  destruct (take_pos l (lc_cells c)); [|discriminate]. destruct (take_pos l (ia (lc_rowid c))); [|discriminate].
  injection Eg as <-. split; reflexivity.
Qed.

(* ---------- ops.shuffle(col) ---------- *)
Theorem l_shuffle_col_refines ids c perm :
  NoDup ids -> col_inv ids c ->
  map_res abs_col (l_shuffle_col c perm) = shuffle_col perm (abs_col c).
Proof.
  intros Hnd Hci. pose proof Hci as [Hi Hl Hm]. unfold l_shuffle_col, shuffle_col.
  rewrite k_shuffle_is_table_spec. cbn [abs_col c_cells c_ids c_kind].
  rewrite Hi, Hl. destruct (is_perm_of_range perm (List.length ids)) eqn:Hp; cbn [negb]; [|reflexivity].
  pose proof (is_perm_in_range _ _ Hp) as Hr.
  destruct (take_pos_total perm ids Hr) as [a Ha].
  unfold index_shuffled. rewrite !ia_index_ctor. rewrite ?Hi. rewrite Ha.
  set (key := if Nat.ltb 1 (List.length ids) then idx_of_list a
              else {| ia := a; imeta := imeta (index_ctor c); imax := imax (index_ctor c) |}).
  assert (Hk : ia key = a) by (unfold key; destruct (Nat.ltb 1 (List.length ids)); reflexivity).
  rewrite <- Hk in Ha.
  destruct (getrowidkey_positions c ids key perm Hnd Hci Ha) as (col & cs & Hg & Hcs & Hkind & Hcells & _).
  rewrite Hg, Hcs. cbn [map_res abs_col lc_kind lc_rowid lc_cells]. rewrite Hkind, Hcells. unfold abs_col. cbn [lc_kind lc_rowid lc_cells]. rewrite ?Hi. reflexivity.
Qed.

(* ---------- ops.random_sample(col, k) ---------- *)
Theorem l_sample_col_refines ids c k choice :
  NoDup ids -> col_inv ids c ->
  map_res abs_col (l_sample_col c k choice) = sample_col k choice (abs_col c).
Proof.
  intros Hnd Hci. pose proof Hci as [Hi Hl Hm]. unfold l_sample_col, sample_col.
  rewrite k_sample_is_table_spec, ia_index_ctor. cbn [abs_col c_cells c_ids c_kind].
  rewrite Hi, Hl.
  destruct ((k <? 0)%Z || (Z.of_nat (List.length ids) <? k)%Z); [reflexivity|].
  destruct (valid_choice choice k (List.length ids)) eqn:Hv; cbn [negb]; [|reflexivity].
  assert (Hr : Forall (fun p => p < List.length ids) choice).
  { unfold valid_choice in Hv. rewrite !andb_true_iff, forallb_forall in Hv. destruct Hv as [_ H].
    apply Forall_forall. intros p Hp. apply Nat.ltb_lt. apply H. assumption. }
  destruct (take_pos_total choice ids Hr) as [rid Hrid]. rewrite Hrid.
  destruct (getrowidkey_positions c ids (idx_of_list rid) choice Hnd Hci Hrid)
    as (col & cs & Hg & Hcs & Hkind & Hcells & Hids & _).
  rewrite Hg, Hcs. cbn [map_res abs_col]. unfold abs_col. rewrite Hkind, Hcells, Hids. reflexivity.
Qed.

(* ================= ops.shuffle_horiz ================= *)

(* ---------- small list facts ---------- *)
Lemma forallb_ext_in {A} (f g : A -> bool) l : (forall x, In x l -> f x = g x) -> forallb f l = forallb g l.
Proof.
  induction l as [|a l IH]; intros H; [reflexivity|]. cbn [forallb].
  rewrite (H a (or_introl eq_refl)), IH; [reflexivity|]. intros x Hx. apply H. right. assumption.
Qed.
Lemma existsb_negb_forallb {A} (f : A -> bool) l : existsb (fun x => negb (f x)) l = negb (forallb f l).
Proof. induction l as [|a l IH]; [reflexivity|]. cbn [existsb forallb]. rewrite IH. destruct (f a); reflexivity. Qed.
Lemma forallb_map' {A B} (f : A -> B) (p : B -> bool) l : forallb p (map f l) = forallb (fun x => p (f x)) l.
Proof. induction l as [|a l IH]; [reflexivity|]. cbn [map forallb]. rewrite IH. reflexivity. Qed.
Lemma all_some_total {A B} (f : A -> option B) l :
  (forall x, In x l -> exists y, f x = Some y) -> exists r, all_some (map f l) = Some r.
Proof.
  induction l as [|a l IH]; intros H; [exists []; reflexivity|].
  destruct (H a (or_introl eq_refl)) as [y Hy]. destruct IH as [r Hr]; [intros x Hx; apply H; right; assumption|].
  exists (y :: r). cbn [map all_some]. rewrite Hy, Hr. reflexivity.
Qed.
Lemma take_pos_full {A} (l : list A) : take_pos (seq 0 (List.length l)) l = Some l.
Proof. rewrite take_pos_seq_firstn by lia. rewrite firstn_all. reflexivity. Qed.
Lemma slice_pos_full n : slice_pos n None None = seq 0 n.
Proof.
  unfold slice_pos, clamp. rewrite Z.sub_0_r, Nat2Z.id. cbn [Z.to_nat].
  rewrite <- (map_id (seq 0 n)) at 2. apply map_ext. intros k. reflexivity.
Qed.
Lemma map_fst_filter_fst {B} (f : string -> bool) (l : list (string * B)) :
  map fst (filter (fun ni => f (fst ni)) l) = filter f (map fst l).
Proof. induction l as [|[n b] l IH]; [reflexivity|]. cbn [filter map fst]. destruct (f n); cbn [map fst]; rewrite IH; reflexivity. Qed.

(* ---------- dm[:] is a copy: same rows in the same order, every name its own new column object ---------- *)
Definition copy_col (ids : list N) (c : lcol) : lcol :=
  {| lc_kind := lc_kind c; lc_rowid := idx_of_list ids; lc_cells := lc_cells c; lc_owner := true; lc_tc := true |}.
Definition gcopy (t : ltable) (ni : string * nat) : option lcol :=
  option_map (copy_col (ia (l_rowid t))) (nth_error (l_cols t) (snd ni)).
Definition mk_copy (t : ltable) (cols : list lcol) : ltable :=
  {| l_fam := l_fam t; l_rowid := idx_of_list (ia (l_rowid t));
     l_names := combine (map fst (l_names t)) (seq 0 (List.length (l_names t)));
     l_cols := cols; l_sorted := true; l_dflt := KMixed |}.
(* the part of inv_b a copy needs and keeps *)
Definition lshape (t : ltable) : Prop :=
  Forall (fun ni : string * nat => snd ni < List.length (l_cols t)) (l_names t)
  /\ Forall (fun c => ia (lc_rowid c) = ia (l_rowid t)
                      /\ List.length (lc_cells c) = List.length (ia (l_rowid t))) (l_cols t).

Lemma inv_b_lshape t : inv_b t = true -> lshape t.
Proof.
  intros H. destruct (inv_b_facts t H) as (_ & _ & _ & Hcols & Hnames). split; [assumption|].
  apply Forall_forall. intros c Hc. rewrite Forall_forall in Hcols. destruct (Hcols c Hc) as [Hi Hl _]. split; assumption.
Qed.

Lemma slice_full t :
  lshape t ->
  exists cols, slice_table t (slice_pos (nrows_l t) None None) = Some (mk_copy t cols)
               /\ all_some (map (gcopy t) (l_names t)) = Some cols
               /\ lshape (mk_copy t cols).
Proof.
  intros [Hnames Hcols]. rewrite slice_pos_full. unfold nrows_l.
  destruct (all_some_total (gcopy t) (l_names t)) as [cols Hc].
  { intros [n i] Hin. rewrite Forall_forall in Hnames. specialize (Hnames _ Hin). cbn [snd] in Hnames.
    unfold gcopy. cbn [snd]. destruct (nth_error (l_cols t) i) eqn:E; [eexists; reflexivity|].
    apply nth_error_None in E. lia. }
  exists cols. split; [|split; [assumption|]].
  - unfold slice_table. rewrite take_pos_full.
    assert (E : map (fun '(_, i) => match nth_error (l_cols t) i with
                                    | Some c => slice_col c (seq 0 (List.length (ia (l_rowid t)))) | None => None end)
                    (l_names t) = map (gcopy t) (l_names t)).
    { apply map_ext_in. intros [n i] Hin. unfold gcopy. cbn [snd].
      destruct (nth_error (l_cols t) i) as [c|] eqn:E; [|reflexivity]. cbn [option_map].
      rewrite Forall_forall in Hcols. destruct (Hcols c (nth_error_In _ _ E)) as [Hi Hl].
      unfold slice_col. rewrite <- Hl at 1. rewrite take_pos_full. rewrite Hi, take_pos_full. reflexivity. }
    rewrite E, Hc. reflexivity.
  - split; cbn [mk_copy l_names l_cols l_rowid].
    + apply all_some_length in Hc. rewrite map_length in Hc. rewrite Hc.
      exact (combine_seq_bound (map fst (l_names t)) 0 (List.length (l_names t))).
    + apply all_some_spec in Hc. apply Forall_forall. intros c Hin.
      assert (Hs : In (Some c) (map Some cols)) by (apply in_map; assumption).
      rewrite <- Hc in Hs. apply in_map_iff in Hs. destruct Hs as [[n i] [Hx _]]. unfold gcopy in Hx. cbn [snd] in Hx.
      destruct (nth_error (l_cols t) i) as [c0|] eqn:E0; [|discriminate]. injection Hx as <-.
      cbn [copy_col lc_rowid lc_cells idx_of_list ia]. split; [reflexivity|].
      rewrite Forall_forall in Hcols. apply (Hcols c0 (nth_error_In _ _ E0)).
Qed.

Lemma lcol_of_copy t cols n :
  all_some (map (gcopy t) (l_names t)) = Some cols ->
  lcol_of (mk_copy t cols) n = match lookup n (l_names t) with Some i => gcopy t (n, i) | None => None end.
Proof.
  intros Hc. unfold lcol_of. cbn [mk_copy l_names l_cols].
  apply (lookup_rebuilt (gcopy t) cols (l_names t) cols 0 Hc eq_refl).
Qed.

(* ---------- the argument check chain and the naming of the chosen columns ---------- *)
Definition names_check (t : table) (ns : list string) : res (list string) :=
  if forallb (has_name t) ns
  then if forallb (fun n => Nat.eqb (List.length (aliases t n)) 1) ns then Ok ns else Raise TypeError
  else Raise OtherError.

Lemma l_horiz_args_spec t args :
  chosen_names (abs t) args = bind (l_horiz_args t args) (fun args' => names_check (abs t) (hcol_names args'))
  /\ forall args', l_horiz_args t args = Ok args' -> forallb is_hcol args' = true.
Proof.
  unfold chosen_names, l_horiz_args. change (names (abs t)) with (l_names t).
  set (first_is_dm := match args with a :: _ => harg_is_table a | [] => false end).
  assert (E : (if k_horiz_expand (Z.of_nat (List.length args)) first_is_dm
               then map (fun ni : string * nat => HCol (fst ni)) (l_names t) else args)
              = match args with [HTable] => map (fun ni : string * nat => HCol (fst ni)) (l_names t) | _ => args end).
  { rewrite k_horiz_expand_spec. unfold first_is_dm. destruct args as [|a [|b r]]; [reflexivity| |].
    - destruct a; reflexivity.
    - cbn [List.length Nat.eqb andb]. destruct a; reflexivity. }
  rewrite E. clear E first_is_dm.
  set (args' := match args with [HTable] => map (fun ni : string * nat => HCol (fst ni)) (l_names t) | _ => args end).
  rewrite k_horiz_nonempty_spec.
  rewrite (forallb_ext_in (fun a => k_horiz_is_column (harg_is_column a)) harg_is_column args')
    by (intros; apply k_horiz_is_column_spec).
  destruct args' as [|first rest]; [split; [reflexivity|discriminate]|].
  cbn [List.length Nat.eqb negb].
  destruct (forallb harg_is_column (first :: rest)) eqn:Hc; cbn [negb]; [|split; [reflexivity|discriminate]].
  destruct first as [n| | |]; try (cbn [forallb harg_is_column andb] in Hc; discriminate); [|split; [reflexivity|discriminate]].
  rewrite (forallb_ext_in (fun a => k_horiz_same_dm (harg_same_family (HCol n) a)) is_hcol (HCol n :: rest))
    by (intros a _; rewrite k_horiz_same_dm_spec; destruct a; reflexivity).
  destruct (forallb is_hcol (HCol n :: rest)) eqn:Hh; cbn [negb bind]; split; try reflexivity; try discriminate.
  intros a' H. injection H as <-. assumption.
Qed.

Lemma has_name_abs' t n : has_name (abs t) n = match lookup n (l_names t) with Some _ => true | None => false end.
Proof. reflexivity. Qed.

Lemma l_colnames_spec t args' :
  forallb is_hcol args' = true ->
  l_colnames t args' = if forallb (has_name (abs t)) (hcol_names args')
                       then Ok (map (aliases (abs t)) (hcol_names args')) else Raise OtherError.
Proof.
  induction args' as [|a r IH]; intros H; [reflexivity|].
  cbn [forallb] in H. apply andb_true_iff in H. destruct H as [Ha Hr]. destruct a as [n| | |]; try discriminate.
  cbn [l_colnames l_colname hcol_names flat_map app forallb map]. rewrite has_name_abs'.
  unfold aliases at 1. change (names (abs t)) with (l_names t).
  destruct (lookup n (l_names t)) as [ci|]; [|reflexivity].
  rewrite k_colname_column. cbn [bind]. rewrite (IH Hr). change (flat_map _ r) with (hcol_names r).
  destruct (forallb (has_name (abs t)) (hcol_names r)); cbn [bind andb]; [|reflexivity].
  do 3 f_equal; try (apply filter_ext; intros ni; apply k_name_keep_spec).
Qed.

Lemma aliases_single t n :
  has_name t n = true -> List.length (aliases t n) = 1 -> aliases t n = [n].
Proof.
  unfold has_name, aliases. destruct (lookup n (names t)) as [i|] eqn:E; [|discriminate]. intros _ Hl.
  assert (Hin : In n (map fst (filter (fun ni : string * nat => Nat.eqb (snd ni) i) (names t)))).
  { apply in_map_iff. exists (n, i). split; [reflexivity|]. apply filter_In. split; [apply lookup_In; assumption|].
    cbn [snd]. apply Nat.eqb_refl. }
  destruct (map fst (filter _ (names t))) as [|x [|y l]]; try discriminate.
  destruct Hin as [->|[]]. reflexivity.
Qed.

Lemma l_keep_names_spec t args' :
  forallb is_hcol args' = true -> l_keep_names t args' = names_check (abs t) (hcol_names args').
Proof.
  intros H. unfold l_keep_names, names_check. rewrite (l_colnames_spec t args' H).
  set (ns := hcol_names args').
  destruct (forallb (has_name (abs t)) ns) eqn:Hh; cbn [bind]; [|reflexivity].
  rewrite (existsb_negb_forallb (fun l => k_name_single (Z.of_nat (List.length l)))).
  rewrite forallb_map'.
  rewrite (forallb_ext_in (fun n => k_name_single (Z.of_nat (List.length (aliases (abs t) n))))
                          (fun n => Nat.eqb (List.length (aliases (abs t) n)) 1) ns)
    by (intros; apply k_name_single_spec).
  destruct (forallb (fun n => Nat.eqb (List.length (aliases (abs t) n)) 1) ns) eqn:Hs; cbn [negb]; [|reflexivity].
  f_equal. rewrite forallb_forall in Hh, Hs. clear -Hh Hs. induction ns as [|n ns IH]; [reflexivity|].
  cbn [map List.concat]. rewrite (aliases_single (abs t) n); [|apply Hh; left; reflexivity|apply Nat.eqb_eq; apply Hs; left; reflexivity].
  cbn [app]. f_equal. apply IH; intros x Hx; [apply Hh|apply Hs]; right; assumption.
Qed.

(* ---------- the row loop: sequential write-back by column position = the row-wise description ---------- *)
Definition put_row (i : nat) (xs : list val) (cellss : list (list val)) : list (list val) :=
  map (fun xc : val * list val => set_nth i (fst xc) (snd xc)) (combine xs cellss).
Fixpoint put_rows (i : nat) (rows : list (list val)) (cellss : list (list val)) : list (list val) :=
  match rows with [] => cellss | r :: rs => put_rows (S i) rs (put_row i r cellss) end.

Lemma write_row_spec i kinds : forall vals cellss,
  List.length kinds = List.length vals -> List.length vals = List.length cellss ->
  write_row i kinds vals cellss = bind (coerce_row kinds vals) (fun xs => Ok (put_row i xs cellss)).
Proof.
  induction kinds as [|k ks IH]; intros [|v vs] [|c cs] H1 H2; try discriminate; [reflexivity|].
  cbn [write_row coerce_row]. destruct (nf k (pyv_of_val v)) as [x|e]; cbn [bind]; [|reflexivity].
  cbn [List.length] in H1, H2. rewrite (IH vs cs) by lia.
  destruct (coerce_row ks vs) as [r|e]; cbn [bind]; reflexivity.
Qed.

Lemma nth_set_nth_same {A} i (x d : A) l : i < List.length l -> nth i (set_nth i x l) d = x.
Proof. revert i; induction l as [|a l IH]; intros [|i] H; cbn [List.length set_nth nth] in *; try lia; [reflexivity|apply IH; lia]. Qed.
Lemma nth_set_nth_other {A} i j (x d : A) l : i <> j -> nth j (set_nth i x l) d = nth j l d.
Proof. revert i j; induction l as [|a l IH]; intros [|i] [|j] H; cbn [set_nth nth]; try reflexivity; try lia. apply IH. lia. Qed.

Lemma put_row_length i xs cellss : List.length xs = List.length cellss -> List.length (put_row i xs cellss) = List.length cellss.
Proof. intros H. unfold put_row. rewrite map_length, combine_length. lia. Qed.

Lemma put_row_cols i xs cellss n :
  Forall (fun c => List.length c = n) cellss -> Forall (fun c => List.length c = n) (put_row i xs cellss).
Proof.
  intros H. unfold put_row. apply Forall_forall. intros c Hc. apply in_map_iff in Hc. destruct Hc as [[x c0] [<- Hin]].
  cbn [fst snd]. rewrite set_nth_length. apply in_combine_r in Hin. rewrite Forall_forall in H. apply H. assumption.
Qed.

Lemma row_at_put_row_other i i' xs cellss : i <> i' -> List.length xs = List.length cellss ->
  row_at i' (put_row i xs cellss) = row_at i' cellss.
Proof.
  intros Hne. unfold row_at, put_row. revert cellss; induction xs as [|x xs IH]; intros [|c cs] Hl; try discriminate; [reflexivity|].
  cbn [combine map fst snd]. rewrite nth_set_nth_other by assumption. f_equal. apply IH. cbn [List.length] in Hl. lia.
Qed.

Lemma row_at_put_row_same i xs cellss : List.length xs = List.length cellss ->
  Forall (fun c => i < List.length c) cellss -> row_at i (put_row i xs cellss) = xs.
Proof.
  unfold row_at, put_row. revert cellss; induction xs as [|x xs IH]; intros [|c cs] Hl Hc; try discriminate; [reflexivity|].
  inversion Hc as [|? ? Hc1 Hc2]; subst. cbn [combine map fst snd]. rewrite nth_set_nth_same by assumption.
  f_equal. apply IH; [cbn [List.length] in Hl; lia|assumption].
Qed.

Lemma shuffle_rows_spec kinds : forall perms i cellss,
  List.length kinds = List.length cellss ->
  shuffle_rows i perms kinds cellss
  = bind (hrows kinds perms (map (fun i' => row_at i' cellss) (seq i (List.length perms))))
         (fun rows' => Ok (put_rows i rows' cellss)).
Proof.
  induction perms as [|p ps IH]; intros i cellss Hk; [reflexivity|].
  cbn [shuffle_rows List.length seq map hrows]. unfold hrow.
  destruct (is_perm_of_range p (List.length (row_at i cellss))) eqn:Hp; cbn [negb bind]; [|reflexivity].
  destruct (take_pos p (row_at i cellss)) as [shuffled|] eqn:Ht; cbn [bind]; [|reflexivity].
  assert (Ls : List.length shuffled = List.length cellss).
  { rewrite (take_pos_length _ _ _ Ht). unfold is_perm_of_range in Hp. rewrite !andb_true_iff, Nat.eqb_eq in Hp.
    destruct Hp as [[Hl _] _]. rewrite Hl. unfold row_at. apply map_length. }
  rewrite (write_row_spec i kinds shuffled cellss) by lia.
  destruct (coerce_row kinds shuffled) as [xs|e] eqn:Ec; cbn [bind]; [|reflexivity].
  assert (Lx : List.length xs = List.length cellss) by (rewrite (coerce_row_length _ _ _ Ec); lia).
  rewrite (IH (S i) (put_row i xs cellss)) by (rewrite put_row_length; assumption).
  assert (E : map (fun i' => row_at i' (put_row i xs cellss)) (seq (S i) (List.length ps))
              = map (fun i' => row_at i' cellss) (seq (S i) (List.length ps))).
  { apply map_ext_in. intros i' Hi'. apply in_seq in Hi'. apply row_at_put_row_other; [lia|assumption]. }
  rewrite E. destruct (hrows kinds ps _) as [rows'|e]; reflexivity.
Qed.

(* the rows of the columns after the loop *)
Lemma put_rows_shape rows : forall i cellss n,
  Forall (fun r => List.length r = List.length cellss) rows -> Forall (fun c => List.length c = n) cellss ->
  List.length (put_rows i rows cellss) = List.length cellss
  /\ Forall (fun c => List.length c = n) (put_rows i rows cellss).
Proof.
  induction rows as [|r rs IH]; intros i cellss n Hr Hc; [split; [reflexivity|assumption]|].
  inversion Hr as [|? ? Hr1 Hr2]; subst. cbn [put_rows].
  destruct (IH (S i) (put_row i r cellss) n) as [L F].
  - rewrite put_row_length by assumption. assumption.
  - apply put_row_cols. assumption.
  - rewrite put_row_length in L by assumption. split; assumption.
Qed.

Lemma put_rows_row rows : forall i cellss n i',
  Forall (fun r => List.length r = List.length cellss) rows -> Forall (fun c => List.length c = n) cellss ->
  i + List.length rows <= n ->
  row_at i' (put_rows i rows cellss)
  = if (i <=? i') && (i' <? i + List.length rows) then nth (i' - i) rows [] else row_at i' cellss.
Proof.
  induction rows as [|r rs IH]; intros i cellss n i' Hr Hc Hn.
  - cbn [put_rows List.length]. replace (i' <? i + 0) with (i' <? i) by (f_equal; lia).
    destruct (i <=? i') eqn:E1, (i' <? i) eqn:E2; try reflexivity.
    apply Nat.leb_le in E1. apply Nat.ltb_lt in E2. lia.
  - inversion Hr as [|? ? Hr1 Hr2]; subst. cbn [put_rows List.length] in *.
    rewrite (IH (S i) (put_row i r cellss) n i').
    + destruct (Nat.eq_dec i' i) as [->|Hne].
      * replace (S i <=? i) with false by (symmetry; apply Nat.leb_gt; lia). cbn [andb].
        rewrite Nat.leb_refl. replace (i <? i + S (List.length rs)) with true by (symmetry; apply Nat.ltb_lt; lia).
        cbn [andb]. rewrite Nat.sub_diag. cbn [nth]. apply row_at_put_row_same; [assumption|].
        apply Forall_forall. intros c Hin. rewrite Forall_forall in Hc. rewrite (Hc c Hin). lia.
      * rewrite row_at_put_row_other by (try assumption; lia).
        destruct (S i <=? i') eqn:E1.
        -- apply Nat.leb_le in E1. replace (i <=? i') with true by (symmetry; apply Nat.leb_le; lia).
           replace (i' <? i + S (List.length rs)) with (i' <? S i + List.length rs) by (f_equal; lia).
           cbn [andb]. destruct (i' <? S i + List.length rs); [|reflexivity].
           replace (i' - i) with (S (i' - S i)) by lia. reflexivity.
        -- apply Nat.leb_gt in E1. cbn [andb]. replace (i <=? i') with false by (symmetry; apply Nat.leb_gt; lia).
           reflexivity.
    + rewrite put_row_length by assumption. assumption.
    + apply put_row_cols. assumption.
    + lia.
Qed.

Lemma cols_eq_by_rows n : forall a b : list (list val),
  List.length a = List.length b ->
  Forall (fun c => List.length c = n) a -> Forall (fun c => List.length c = n) b ->
  (forall i, i < n -> row_at i a = row_at i b) -> a = b.
Proof.
  induction a as [|c a IH]; intros [|d b] Hl Ha Hb H; try discriminate; [reflexivity|].
  inversion Ha as [|? ? Ha1 Ha2]; subst. inversion Hb as [|? ? Hb1 Hb2]; subst. f_equal.
  - apply (list_eq_nth VNone); [lia|]. intros j Hj. specialize (H j Hj). unfold row_at in H. cbn [map] in H. congruence.
  - apply IH; [cbn [List.length] in Hl; lia|assumption|assumption|].
    intros i Hi. specialize (H i Hi). unfold row_at in *. cbn [map] in H. congruence.
Qed.

Lemma map_nth_seq (l : list val) : map (fun j => nth j l VNone) (seq 0 (List.length l)) = l.
Proof.
  induction l as [|a l IH]; [reflexivity|]. cbn [List.length seq map nth]. f_equal.
  rewrite <- seq_shift, map_map. exact IH.
Qed.

Lemma put_rows_all rows cellss n :
  List.length rows = n ->
  Forall (fun r => List.length r = List.length cellss) rows -> Forall (fun c => List.length c = n) cellss ->
  put_rows 0 rows cellss = map (fun j => col_from j rows) (seq 0 (List.length cellss)).
Proof.
  intros Ln Hr Hc. destruct (put_rows_shape rows 0 cellss n Hr Hc) as [L F].
  apply (cols_eq_by_rows n); [rewrite L, map_length, seq_length; reflexivity|assumption| |].
  - apply Forall_forall. intros c Hin. apply in_map_iff in Hin. destruct Hin as [j [<- _]].
    unfold col_from. rewrite map_length. assumption.
  - intros i Hi. rewrite (put_rows_row rows 0 cellss n i Hr Hc) by lia.
    cbn [Nat.leb andb Nat.add]. replace (i <? List.length rows) with true by (symmetry; apply Nat.ltb_lt; lia).
    rewrite Nat.sub_0_r. unfold row_at. rewrite map_map.
    assert (Hri : List.length (nth i rows []) = List.length cellss).
    { rewrite Forall_forall in Hr. apply Hr. apply nth_In. lia. }
    rewrite <- Hri. rewrite <- (map_nth_seq (nth i rows [])) at 1.
    apply map_ext. intros j. symmetry. apply nth_col_from. lia.
Qed.

(* ---------- re-attaching the shuffled columns to the copy ---------- *)
Lemma lcol_of_copy' t cols n :
  all_some (map (gcopy t) (l_names t)) = Some cols ->
  lcol_of (mk_copy t cols) n = option_map (copy_col (ia (l_rowid t))) (lcol_of t n).
Proof.
  intros Hc. rewrite (lcol_of_copy t cols n Hc). unfold lcol_of, gcopy.
  destruct (lookup n (l_names t)); reflexivity.
Qed.

Lemma lookup_combine_index_of {B} (order : list string) : forall (xs : list B) n,
  List.length xs = List.length order ->
  lookup n (combine order xs) = match index_of n order with Some j => nth_error xs j | None => None end.
Proof.
  induction order as [|y o IH]; intros [|x xs] n Hl; try discriminate; [reflexivity|].
  cbn [combine lookup index_of]. destruct (String.eqb n y); [reflexivity|].
  rewrite IH by (cbn [List.length] in Hl; lia). destruct (index_of n o); reflexivity.
Qed.

Lemma nth_error_combine {A B} (l : list A) (m : list B) j a b :
  nth_error l j = Some a -> nth_error m j = Some b -> nth_error (combine l m) j = Some (a, b).
Proof.
  revert m j; induction l as [|x l IH]; intros [|y m] [|j] H1 H2; try discriminate; cbn [nth_error combine] in *; [congruence|].
  apply IH; assumption.
Qed.

Section Assemble.
  Variable t : ltable.
  Variable F' : string -> option lcol -> option lcol.
  Variable G' : string -> option lcol -> option slot.
  Variable cols1 : list lcol.

  Lemma assemble : forall nm cs off,
    all_some (map (gcopy t) nm) = Some cs -> skipn off cols1 = cs ->
    (forall n i c0, In (n, i) nm -> nth_error (l_cols t) i = Some c0 ->
       option_map slot_of_col (F' n (Some (copy_col (ia (l_rowid t)) c0))) = G' n (Some c0)) ->
    option_map (map slot_of_col)
      (all_some (map (fun ni : string * nat => F' (fst ni) (nth_error cols1 (snd ni)))
                     (combine (map fst nm) (seq off (List.length nm)))))
    = all_some (map (fun ni : string * nat => G' (fst ni) (nth_error (l_cols t) (snd ni))) nm).
  Proof.
    induction nm as [|[n i] nm IH]; intros cs off Ha Hs Hp; [reflexivity|].
    cbn [map all_some] in Ha. unfold gcopy at 1 in Ha. cbn [snd] in Ha.
    destruct (nth_error (l_cols t) i) as [c0|] eqn:E0; [|discriminate]. cbn [option_map] in Ha.
    destruct (all_some (map (gcopy t) nm)) as [cs'|] eqn:Ea; [|discriminate]. injection Ha as <-.
    apply skipn_cons_nth in Hs. destruct Hs as [Hn Hs].
    cbn [map fst List.length seq combine all_some snd]. rewrite Hn, E0.
    specialize (IH cs' (S off) eq_refl Hs (fun n' i' c' Hin => Hp n' i' c' (or_intror Hin))).
    rewrite <- (Hp n i c0 (or_introl eq_refl) E0).
    destruct (F' n (Some (copy_col (ia (l_rowid t)) c0))) as [x|]; cbn [option_map]; [|reflexivity].
    rewrite <- IH.
    destruct (all_some (map _ (combine (map fst nm) (seq (S off) (List.length nm))))); reflexivity.
  Qed.
End Assemble.

Lemma map_ext_in_opt {A B} (f g : A -> B) l : (forall a, In a l -> f a = g a) -> map f l = map g l.
Proof. apply map_ext_in. Qed.

(* ---------- ops.shuffle_horiz: L1 = L0 ---------- *)
Theorem l_shuffle_horiz_refines t args perms :
  inv_b t = true ->
  map_res abs (l_shuffle_horiz t args perms) = shuffle_horiz (abs t) args perms.
Proof.
  intros Hinv.
  destruct (inv_b_facts t Hinv) as (Hnd & _ & _ & Hcolinv & Hnamesb).
  pose proof (inv_b_names t Hinv) as Hnn.
  pose proof (inv_b_lshape t Hinv) as Hsh.
  destruct (l_horiz_args_spec t args) as [Hcn Hhc].
  unfold l_shuffle_horiz, shuffle_horiz. rewrite Hcn.
  destruct (l_horiz_args t args) as [args'|e]; cbn [bind map_res]; [|reflexivity].
  specialize (Hhc args' eq_refl).
  destruct (slice_full t Hsh) as (cols1 & Hs1 & Hc1 & Hsh1). rewrite Hs1.
  rewrite (l_keep_names_spec t args' Hhc).
  destruct (names_check (abs t) (hcol_names args')) as [ns|e]; cbn [bind map_res]; [|reflexivity].
  set (d1 := mk_copy t cols1) in *.
  destruct (slice_full d1 Hsh1) as (cols2 & Hs2 & Hc2 & Hsh2). rewrite Hs2.
  set (d2 := mk_copy d1 cols2) in *.
  set (ids := ia (l_rowid t)) in *.
  assert (Hids1 : ia (l_rowid d1) = ids) by reflexivity.
  (* the chosen columns, in the order a row is read and written *)
  assert (Hfst1 : map fst (l_names d1) = map fst (l_names t)).
  { unfold d1. cbn [mk_copy l_names]. rewrite <- (map_length fst (l_names t)). apply map_fst_combine_seq'. }
  assert (Hfst2 : map fst (l_names d2) = map fst (l_names t)).
  { unfold d2. cbn [mk_copy l_names]. rewrite <- (map_length fst (l_names d1)), map_fst_combine_seq'. exact Hfst1. }
  assert (Hord : fold_right insert_str []
                   (map fst (filter (fun ni : string * nat => negb (k_keep_delete (mem_str (fst ni) ns))) (l_names d2)))
                 = chosen_order (abs t) ns).
  { unfold chosen_order. change (names (abs t)) with (l_names t). f_equal.
    assert (Ef : forall l : list (string * nat),
                 filter (fun ni => negb (k_keep_delete (mem_str (fst ni) ns))) l = filter (fun ni => mem_str (fst ni) ns) l)
      by (intros l; apply filter_ext; intros ni; destruct (mem_str (fst ni) ns); reflexivity).
    rewrite Ef.
    rewrite (map_fst_filter_fst (fun n => mem_str n ns)), Hfst2. reflexivity. }
  rewrite Hord. set (order := chosen_order (abs t) ns) in *.
  (* the chosen column objects of the copy of the copy, and what they denote *)
  set (cc := fun c => copy_col ids (copy_col ids c)).
  assert (Hl2 : forall n, lcol_of d2 n = option_map cc (lcol_of t n)).
  { intros n. unfold d2. rewrite (lcol_of_copy' d1 cols2 n Hc2). unfold d1 at 2. rewrite (lcol_of_copy' t cols1 n Hc1).
    destruct (lcol_of t n); reflexivity. }
  assert (E1 : all_some (map (lcol_of d2) order) = option_map (map cc) (all_some (map (lcol_of t) order)))
    by (apply all_some_map_option_map; intros; apply Hl2).
  assert (E2 : all_some (map (slot_of (abs t)) order) = option_map (map slot_of_col) (all_some (map (lcol_of t) order)))
    by (apply all_some_map_option_map; intros; apply slot_of_abs).
  rewrite E1, E2.
  destruct (all_some (map (lcol_of t) order)) as [cs0|] eqn:Ecs0; cbn [option_map map_res]; [|reflexivity].
  assert (Hn2 : nrows_l d2 = nrows (abs t)) by reflexivity. rewrite Hn2.
  destruct (Nat.eqb (List.length perms) (nrows (abs t))) eqn:Epl; cbn [negb map_res]; [|reflexivity].
  apply Nat.eqb_eq in Epl.
  rewrite k_row_key_is_position_spec. cbn [negb].
  rewrite !map_map. cbn [cc copy_col lc_kind lc_cells slot_of_col skind scells].
  set (kinds := map (fun x : lcol => lc_kind x) cs0).
  set (cellss := map (fun x : lcol => lc_cells x) cs0).
  assert (Lcs0 : List.length cs0 = List.length order).
  { apply all_some_length in Ecs0. rewrite map_length in Ecs0. exact Ecs0. }
  rewrite (shuffle_rows_spec kinds perms 0 cellss) by (unfold kinds, cellss; rewrite !map_length; reflexivity).
  rewrite Epl.
  destruct (hrows kinds perms (map (fun i' => row_at i' cellss) (seq 0 (nrows (abs t))))) as [rows'|e] eqn:Er;
    cbn [bind map_res]; [|reflexivity].
  (* the columns after the loop *)
  assert (Hcs0 : forall c, In c cs0 -> In c (l_cols t)).
  { intros c Hin. apply all_some_spec in Ecs0.
    assert (Hs : In (Some c) (map Some cs0)) by (apply in_map; assumption).
    rewrite <- Ecs0 in Hs. apply in_map_iff in Hs. destruct Hs as [n [Hx _]]. eapply lcol_of_In. eassumption. }
  assert (Hcolsn : Forall (fun c => List.length c = nrows (abs t)) cellss).
  { apply Forall_forall. intros c Hin. unfold cellss in Hin. apply in_map_iff in Hin. destruct Hin as [c0 [<- Hc0]].
    rewrite Forall_forall in Hcolinv. destruct (Hcolinv c0 (Hcs0 c0 Hc0)) as [_ Hl _]. exact Hl. }
  destruct (hrows_spec _ _ _ _ Er) as (Lr & _ & Hrows). rewrite map_length, seq_length in Lr.
  assert (Hrl : Forall (fun r => List.length r = List.length cellss) rows').
  { apply Forall_forall. intros r Hin. apply In_nth_error in Hin. destruct Hin as [i Hi].
    assert (Hlt : i < nrows (abs t)) by (rewrite <- Lr; apply nth_error_Some; congruence).
    destruct (Hrows i (row_at i cellss)) as (p & r' & _ & Hr' & Hh).
    { rewrite nth_error_map, (nth_error_seq' 0 _ i Hlt). reflexivity. }
    rewrite Hi in Hr'. injection Hr' as <-.
    destruct (hrow_spec _ _ _ _ Hh) as (moved & Hperm & _ & Hc).
    assert (Lm : List.length moved = List.length cellss)
      by (rewrite <- (Permutation_length Hperm); unfold row_at; apply map_length).
    rewrite (coerce_row_length _ _ _ Hc); [exact Lm|]. unfold kinds, cellss in *. rewrite !map_length in *. lia. }
  rewrite (put_rows_all rows' cellss (nrows (abs t)) Lr Hrl Hcolsn).
  (* re-attaching *)
  set (newcells := map (fun j => col_from j rows') (seq 0 (List.length cellss))).
  set (newcols := combine order (combine (map cc cs0) newcells)).
  set (F' := fun (n : string) (oc : option lcol) =>
               match lookup n newcols, oc with
               | Some (c, cells), _ => Some {| lc_kind := lc_kind c; lc_rowid := lc_rowid c; lc_cells := cells;
                                               lc_owner := true; lc_tc := lc_tc c |}
               | None, Some c => Some c
               | None, None => None
               end).
  set (G' := fun (n : string) (oc : option lcol) =>
               match option_map slot_of_col oc with
               | Some s => Some {| skind := skind s;
                                   scells := match index_of n order with
                                             | Some j => col_from j rows' | None => scells s end |}
               | None => None
               end).
  assert (EF : map (fun ni : string * nat =>
                      match lookup (fst ni) newcols, nth_error (l_cols d1) (snd ni) with
                      | Some (c, cells), _ => Some {| lc_kind := lc_kind c; lc_rowid := lc_rowid c; lc_cells := cells;
                                                      lc_owner := true; lc_tc := lc_tc c |}
                      | None, Some c => Some c
                      | None, None => None
                      end) (l_names d1)
               = map (fun ni : string * nat => F' (fst ni) (nth_error cols1 (snd ni)))
                     (combine (map fst (l_names t)) (seq 0 (List.length (l_names t))))) by reflexivity.
  rewrite EF. clear EF.
  assert (EG : map (fun ni : string * nat =>
                      match nth_error (slots (abs t)) (snd ni) with
                      | Some s => Some {| skind := skind s;
                                          scells := match index_of (fst ni) order with
                                                    | Some j => col_from j rows' | None => scells s end |}
                      | None => None
                      end) (names (abs t))
               = map (fun ni : string * nat => G' (fst ni) (nth_error (l_cols t) (snd ni))) (l_names t)).
  { change (names (abs t)) with (l_names t). apply map_ext. intros ni. unfold G'.
    change (slots (abs t)) with (map slot_of_col (l_cols t)). rewrite nth_error_map. reflexivity. }
  rewrite EG. clear EG.
  rewrite <- (assemble t F' G' cols1 (l_names t) cols1 0 Hc1 eq_refl).
  - destruct (all_some (map _ (combine (map fst (l_names t)) (seq 0 (List.length (l_names t)))))) as [cols'|];
      cbn [option_map map_res]; reflexivity.
  - (* one name *)
    intros n i c0 Hin Hc0. unfold F', G'. cbn [option_map slot_of_col skind scells].
    assert (Hlk : lookup n (l_names t) = Some i) by (apply nodup_str_lookup; assumption).
    assert (Hlc : lcol_of t n = Some c0) by (unfold lcol_of; rewrite Hlk; exact Hc0).
    unfold newcols. rewrite lookup_combine_index_of
      by (rewrite combine_length, map_length; unfold newcells; rewrite map_length, seq_length; unfold cellss;
          rewrite map_length; lia).
    destruct (index_of n order) as [j|] eqn:Ej; [|reflexivity].
    (* n is the j-th chosen column *)
    assert (Hj : nth_error order j = Some n).
    { clear -Ej. revert j Ej. induction order as [|y o IH]; intros j Ej; [discriminate|]. cbn [index_of] in Ej.
      destruct (String.eqb n y) eqn:E.
      - injection Ej as <-. apply String.eqb_eq in E. subst. reflexivity.
      - destruct (index_of n o) as [p|]; [|discriminate]. injection Ej as <-. cbn [nth_error]. apply IH. reflexivity. }
    assert (Hcj : nth_error cs0 j = Some c0).
    { apply all_some_spec in Ecs0.
      assert (E : nth_error (map (lcol_of t) order) j = Some (lcol_of t n)) by (rewrite nth_error_map, Hj; reflexivity).
      rewrite Ecs0, nth_error_map, Hlc in E. destruct (nth_error cs0 j); [|discriminate]. cbn [option_map] in E. congruence. }
    assert (Hjl : j < List.length cs0) by (apply nth_error_Some; congruence).
    assert (Hnc : nth_error (combine (map cc cs0) newcells) j
                  = Some (cc c0, col_from j rows')).
    { assert (Hlen : List.length (map cc cs0) = List.length newcells)
        by (unfold newcells, cellss; rewrite !map_length, seq_length; reflexivity).
      assert (Hn1 : nth_error (map cc cs0) j = Some (cc c0))
        by (rewrite nth_error_map, Hcj; reflexivity).
      assert (Hn2' : nth_error newcells j = Some (col_from j rows')).
      { unfold newcells. rewrite nth_error_map, (nth_error_seq' 0 _ j); [reflexivity|].
        unfold cellss. rewrite map_length. exact Hjl. }
      apply nth_error_combine; assumption. }
    rewrite Hnc. reflexivity.
Qed.

(* ---------- the column refinements stated for a column of a table that satisfies inv_b ---------- *)
Lemma lcol_inv t name c : inv_b t = true -> lcol_of t name = Some c ->
  NoDup (ia (l_rowid t)) /\ col_inv (ia (l_rowid t)) c.
Proof.
  intros Hinv Hc. destruct (inv_b_facts t Hinv) as (Hnd & _ & _ & Hcols & _). split; [assumption|].
  rewrite Forall_forall in Hcols. apply Hcols. eapply lcol_of_In. eassumption.
Qed.

Theorem l_shuffle_col_refines_t t name c perm :
  inv_b t = true -> lcol_of t name = Some c ->
  col_of (abs t) name = Some (abs_col c)
  /\ map_res abs_col (l_shuffle_col c perm) = shuffle_col perm (abs_col c).
Proof.
  intros Hinv Hc. destruct (lcol_inv t name c Hinv Hc) as [Hnd Hci].
  split; [apply col_of_abs; assumption|eapply l_shuffle_col_refines; eassumption].
Qed.

Theorem l_sample_col_refines_t t name c k choice :
  inv_b t = true -> lcol_of t name = Some c ->
  col_of (abs t) name = Some (abs_col c)
  /\ map_res abs_col (l_sample_col c k choice) = sample_col k choice (abs_col c).
Proof.
  intros Hinv Hc. destruct (lcol_inv t name c Hinv Hc) as [Hnd Hci].
  split; [apply col_of_abs; assumption|eapply l_sample_col_refines; eassumption].
Qed.

(* the by-ID fetch (Index cache / argsort + searchsorted) in the order of the ids found at positions ps is the
   positional take of ps *)
Theorem fetch_by_id_is_positional t name c key ps :
  inv_b t = true -> lcol_of t name = Some c -> take_pos ps (ia (l_rowid t)) = Some (ia key) ->
  exists col cs, getrowidkey c key = Some col /\ take_pos ps (lc_cells c) = Some cs
                 /\ lc_kind col = lc_kind c /\ lc_cells col = cs /\ ia (lc_rowid col) = ia key.
Proof.
  intros Hinv Hc Ht. destruct (lcol_inv t name c Hinv Hc) as [Hnd Hci].
  destruct (getrowidkey_positions c _ key ps Hnd Hci Ht) as (col & cs & H1 & H2 & H3 & H4 & H5 & _).
  exists col, cs. repeat split; assumption.
Qed.

Lemma nodup_str_NoDup' l : nodup_str l = true -> NoDup l.
Proof.
  induction l as [|x l IH]; cbn [nodup_str]; [constructor|]. rewrite andb_true_iff, negb_true_iff. intros [Hx Hl].
  constructor; [|apply IH; assumption]. intros Hin.
  assert (E : existsb (String.eqb x) l = true) by (apply existsb_exists; exists x; split; [assumption|apply String.eqb_refl]).
  congruence.
Qed.

(* the result of shuffle_horiz is an ordinary table again *)
Corollary l_shuffle_horiz_wf t args perms r :
  inv_b t = true -> l_shuffle_horiz t args perms = Ok r -> twf (abs r).
Proof.
  intros Hinv H. pose proof (l_shuffle_horiz_refines t args perms Hinv) as E. rewrite H in E. cbn [map_res] in E.
  symmetry in E.
  destruct (shuffle_horiz_spec (abs t) args perms (abs r) (inv_b_twf t Hinv)) as (ns & _ & Hs); [|exact E|].
  - apply nodup_str_NoDup'. apply (inv_b_names t Hinv).
  - cbv zeta in Hs. tauto.
Qed.
