(* DataMatrix._set_col with a column object as the value (dm[name] = dm2[name2], dm[name] = dm[name2][[...]]):
   the L1 model on the guard and length test regenerated from the source (Gen/KCore.v: k_setcol_byref,
   k_setcol_badlen) refines the L0 operations OSetColFromCol / OSetColFromSlice on every pool that satisfies
   the representation invariant. *)
From Coq Require Import ZArith NArith List Bool String Lia.
From DM Require Import Base.PyVal Spec.Nf Spec.Table Spec.Ops Model.LTable Gen.KCore Model.Core.
From DM Require Import Proofs.ListX Proofs.TableFacts Proofs.CoreRefine.
Import ListNotations.

Lemma abs_lbind_same t n ci :
  abs (lbind t n ci (l_cols t)) = bind_name (abs t) n ci.
Proof.
  unfold abs, lbind, bind_name, has_name. cbn [l_fam l_rowid l_names l_cols l_sorted l_dflt fam ids names slots tsorted dflt].
  destruct (lookup n (l_names t)); reflexivity.
Qed.

Lemma abs_lbind_copy t n (v : lcol) rid :
  abs (lbind t n (List.length (l_cols t))
             (l_cols t ++ [{| lc_kind := lc_kind v; lc_rowid := rid; lc_cells := lc_cells v; lc_owner := true; lc_tc := true |}]))
  = bind_name (fst (add_slot (abs t) {| skind := lc_kind v; scells := lc_cells v |})) n
              (snd (add_slot (abs t) {| skind := lc_kind v; scells := lc_cells v |})).
Proof.
  unfold abs, lbind, bind_name, has_name, add_slot.
  cbn [fst snd l_fam l_rowid l_names l_cols l_sorted l_dflt fam ids names slots tsorted dflt lc_kind lc_cells].
  rewrite map_app, map_length. cbn [map lc_kind lc_cells].
  destruct (lookup n (l_names t)); reflexivity.
Qed.

Lemma col_len_of_inv t c : inv_b t = true -> In c (l_cols t) ->
  List.length (lc_cells c) = nrows_l t /\ ia (lc_rowid c) = ia (l_rowid t).
Proof.
  intros Hinv Hin. destruct (inv_b_facts t Hinv) as (_ & _ & _ & Hcols & _).
  rewrite Forall_forall in Hcols. destruct (Hcols c Hin) as [Hi Hl _]. split; [exact Hl|exact Hi].
Qed.

Lemma ids_eqb_refl l : ids_eqb l l = true.
Proof. unfold ids_eqb. induction l as [|x l IH]; cbn [list_eqb]; [reflexivity|]. rewrite N.eqb_refl, IH. reflexivity. Qed.

Theorem setcolfromcol_refines (w : world) p ti name t2i name2 :
  pool w = map abs p -> winv p ->
  match lstep p (OSetColFromCol ti name t2i name2) with
  | LUpd i r => step w (OSetColFromCol ti name t2i name2) = (put w i (abs r), OkUnit)
  | LErr => exists e, snd (step w (OSetColFromCol ti name t2i name2)) = Err e
              /\ fst (step w (OSetColFromCol ti name t2i name2)) = w
  | LSkip => True
  | _ => False
  end.
Proof.
  intros Hp Hw. cbn [lstep step].
  destruct (nth_error p ti) as [t|] eqn:Et; [|exact I].
  destruct (nth_error p t2i) as [t2|] eqn:Et2; [|exact I].
  rewrite (get_abs w p ti t Hp Et), (get_abs w p t2i t2 Hp Et2).
  change (names (abs t2)) with (l_names t2).
  destruct (lookup name2 (l_names t2)) as [ci|] eqn:El; [|eexists; split; reflexivity].
  change (slots (abs t2)) with (map slot_of_col (l_cols t2)). rewrite nth_error_map.
  destruct (nth_error (l_cols t2) ci) as [v|] eqn:Ev; cbn [option_map].
  2: { destruct (Nat.eqb ti t2i); exact I. }
  pose proof (winv_nth _ _ _ Hw Et2) as Hinv2.
  destruct (col_len_of_inv t2 v Hinv2 (nth_error_In _ _ Ev)) as [Hlen Hids].
  unfold setcol_value, k_setcol_byref, k_setcol_badlen.
  destruct (Nat.eqb ti t2i) eqn:Eq.
  - (* the same DataMatrix: the deliberate alias *)
    apply Nat.eqb_eq in Eq. subst t2i. rewrite Et in Et2. injection Et2 as <-.
    rewrite Hlen, Nat.eqb_refl, Hids, ids_eqb_refl. cbn [andb].
    rewrite abs_lbind_same. reflexivity.
  - (* another DataMatrix: refused unless it has as many rows, then copied *)
    cbn [andb]. change (nrows (abs t)) with (nrows_l t). change (nrows (abs t2)) with (nrows_l t2).
    rewrite Hlen.
    destruct (Nat.eqb (nrows_l t) (nrows_l t2)) eqn:En; cbn [negb].
    + apply Nat.eqb_eq in En. rewrite <- En. rewrite Z.eqb_refl. cbn [negb].
      change (skind (slot_of_col v)) with (lc_kind v). change (scells (slot_of_col v)) with (lc_cells v).
      rewrite abs_lbind_copy. destruct (add_slot (abs t) _) as [t1 i]. reflexivity.
    + assert (Hz : Z.eqb (Z.of_nat (nrows_l t2)) (Z.of_nat (nrows_l t)) = false).
      { apply Z.eqb_neq. apply Nat.eqb_neq in En. lia. }
      rewrite Hz. cbn [negb]. eexists; split; reflexivity.
Qed.

Lemma slice_col_cells c ps v : slice_col c ps = Some v ->
  take_pos ps (lc_cells c) = Some (lc_cells v) /\ lc_kind v = lc_kind c.
Proof.
  unfold slice_col. destruct (take_pos ps (lc_cells c)) as [cells|]; [|discriminate].
  destruct (take_pos ps (ia (lc_rowid c))) as [rid|]; [|discriminate].
  intros H. injection H as <-. split; reflexivity.
Qed.

Theorem setcolfromslice_refines (w : world) p ti name name2 l :
  pool w = map abs p -> winv p ->
  match lstep p (OSetColFromSlice ti name name2 l) with
  | LUpd i r => step w (OSetColFromSlice ti name name2 l) = (put w i (abs r), OkUnit)
  | LErr => exists e, snd (step w (OSetColFromSlice ti name name2 l)) = Err e
              /\ fst (step w (OSetColFromSlice ti name name2 l)) = w
  | LSkip => True
  | _ => False
  end.
Proof.
  intros Hp Hw. cbn [lstep step].
  destruct (nth_error p ti) as [t|] eqn:Et; [|exact I].
  rewrite (get_abs w p ti t Hp Et). rewrite slot_of_abs.
  destruct (lcol_of t name2) as [c|] eqn:Ec; cbn [option_map]; [|eexists; split; reflexivity].
  change (nrows (abs t)) with (nrows_l t).
  destruct (all_some (map (norm_index (nrows_l t)) l)) as [ps|] eqn:Eps; [|eexists; split; reflexivity].
  destruct (slice_col c ps) as [v|] eqn:Es; [|exact I].
  destruct (slice_col_cells c ps v Es) as [Hcells Hkind].
  pose proof (take_pos_length _ _ _ Hcells) as Hlen.
  unfold setcol_value, k_setcol_byref, k_setcol_badlen. cbn [andb].
  change (scells (slot_of_col c)) with (lc_cells c). change (skind (slot_of_col c)) with (lc_kind c).
  rewrite Hcells, Hlen.
  destruct (Nat.eqb (List.length ps) (nrows_l t)) eqn:En; cbn [negb].
  - apply Nat.eqb_eq in En. rewrite En, Z.eqb_refl. cbn [negb].
    rewrite <- Hkind. rewrite abs_lbind_copy. destruct (add_slot (abs t) _) as [t1 i]. reflexivity.
  - assert (Hz : Z.eqb (Z.of_nat (List.length ps)) (Z.of_nat (nrows_l t)) = false).
    { apply Z.eqb_neq. apply Nat.eqb_neq in En. lia. }
    rewrite Hz. cbn [negb]. eexists; split; reflexivity.
Qed.
