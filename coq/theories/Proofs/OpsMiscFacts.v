(* Proofs for property C15: the L1 models of Model/OpsMisc.v (built on the
   generated kernels of Gen/KOpsMisc.v) refine the L0 specification of
   Spec/OpsMisc.v, and the specification satisfies the laws the property
   names.  Kernels are consumed through characterising lemmas only. *)
From Coq Require Import ZArith QArith List Bool String Arith Lia ZifyBool Permutation.
From DM Require Import Base.PyVal Spec.Nf Spec.OpsMisc Gen.KOpsMisc Model.Store Model.OpsMisc Proofs.NfFacts.
Import ListNotations.
Open Scope Z_scope.

(* ================================================================ kernels *)
Lemma k_weight_bad_ok b w : k_weight_bad b w = false <-> (b = true /\ 0 <= w).
Proof.
  unfold k_weight_bad. destruct b; split; intros H; try split; try reflexivity; try lia;
    destruct H as [H1 H2]; try discriminate; lia.
Qed.
Lemma k_weight_len_id n : k_weight_len n = n. Proof. unfold k_weight_len. lia. Qed.
Lemma k_weight_reps_id w : k_weight_reps w = w. Proof. unfold k_weight_reps. lia. Qed.
Lemma k_weight_dst_id i1 i2 : k_weight_dst i1 i2 = i2. Proof. unfold k_weight_dst. lia. Qed.
Lemma k_weight_src_id i1 i2 : k_weight_src i1 i2 = i1. Proof. unfold k_weight_src. lia. Qed.
Lemma k_weight_next_succ i2 : k_weight_next i2 = i2 + 1. Proof. unfold k_weight_next. lia. Qed.

Lemma k_ff_init_lr p : k_ff_level_repeat_init p = 1. Proof. unfold k_ff_level_repeat_init. lia. Qed.
Lemma k_ff_init_rr p : k_ff_range_repeat_init p = p. Proof. unfold k_ff_range_repeat_init. lia. Qed.
Lemma k_ff_range_step_div rr l : k_ff_range_step rr l = rr / l. Proof. reflexivity. Qed.
Lemma k_ff_level_step_mul lr l : k_ff_level_step lr l = lr * l. Proof. unfold k_ff_level_step. lia. Qed.
Lemma k_ff_lvl_count_id l : k_ff_lvl_count l = l. Proof. unfold k_ff_lvl_count. lia. Qed.
Lemma k_ff_lvl_elem_id j : k_ff_lvl_elem j = j. Proof. unfold k_ff_lvl_elem. lia. Qed.
Lemma k_ff_lvl_times_id l : k_ff_lvl_times l = l. Proof. unfold k_ff_lvl_times. lia. Qed.
Lemma k_ff_rng_times_id l : k_ff_rng_times l = l. Proof. unfold k_ff_rng_times. lia. Qed.
Lemma k_ffl_dst_id i x : k_ffl_dst i x = i. Proof. unfold k_ffl_dst. lia. Qed.
Lemma k_ffl_src_id i x : k_ffl_src i x = x. Proof. unfold k_ffl_src. lia. Qed.

Lemma k_replace_hit_eq old v : k_replace_hit old v = py_eq old v.
Proof. reflexivity. Qed.
Lemma k_replace_mask_spec a b c : k_replace_mask a b c = if a then b else c.
Proof. destruct a, b, c; reflexivity. Qed.
Lemma k_replace_nan_key_spec a b : k_replace_nan_key a b = (a && b)%bool.
Proof. destruct a, b; reflexivity. Qed.
Lemma k_keep_unwrap_spec n b : k_keep_unwrap n b = ((n =? 1) && b)%bool. Proof. reflexivity. Qed.
Lemma k_keep_delete_spec b : k_keep_delete b = negb b. Proof. reflexivity. Qed.
Lemma k_name_single_spec n : k_name_single n = (n =? 1). Proof. reflexivity. Qed.

Lemma k_z_cell_spec x m s : (k_z_cell x m s == (x - m) / s)%Q. Proof. unfold k_z_cell. reflexivity. Qed.
Lemma k_mean_spec t c : (k_mean t c == t / inject_Z c)%Q. Proof. unfold k_mean. reflexivity. Qed.
Lemma k_sqdev_spec x m : (k_sqdev x m == (x - m) * (x - m))%Q. Proof. unfold k_sqdev. ring. Qed.
Lemma k_var_spec ss c : (k_var ss c == ss / (inject_Z c - 1))%Q.
Proof. unfold k_var. reflexivity. Qed.

(* ================================================================ z *)
Section Z.
Open Scope Q_scope.

Lemma qsum_ext (f g : Q -> Q) l : (forall x, f x == g x) -> qsum (map f l) == qsum (map g l).
Proof. intros H. induction l; simpl; [reflexivity|]. rewrite H, IHl. reflexivity. Qed.

Lemma qsum_shift l m s : ~ s == 0 ->
  qsum (map (fun x => (x - m) / s) l) == (qsum l - qlen l * m) / s.
Proof.
  intros Hs. unfold qlen. induction l.
  - simpl. field. exact Hs.
  - cbn [map qsum List.length]. rewrite IHl. rewrite Nat2Z.inj_succ. unfold Z.succ. rewrite inject_Z_plus.
    field. exact Hs.
Qed.

Lemma qsum_scale_sq l m s : ~ s == 0 ->
  qsum (map (fun x => ((x - m) / s) * ((x - m) / s)) l) == qsum (map (fun x => (x - m) * (x - m)) l) / (s * s).
Proof.
  intros Hs. induction l.
  - simpl. field. exact Hs.
  - cbn [map qsum]. rewrite IHl. field. exact Hs.
Qed.

Lemma qlen_pos (l : list Q) : (2 <= List.length l)%nat -> ~ qlen l == 0 /\ ~ qlen l - 1 == 0.
Proof.
  intros H. unfold qlen. split; intro E.
  - apply (Qeq_bool_iff _ _) in E. unfold Qeq_bool, inject_Z in E. simpl in E. apply Zeq_bool_eq in E. lia.
  - assert (inject_Z (Z.of_nat (List.length l)) == 1) as E1 by (rewrite <- (Qplus_0_r 1), <- E; ring).
    unfold Qeq, inject_Z in E1. simpl in E1. lia.
Qed.

(* L0 law: z scores have mean 0 ... *)
Lemma spec_z_mean0 l s : (2 <= List.length l)%nat -> ~ s == 0 -> qmean (z_scores l s) == 0.
Proof.
  intros Hn Hs. destruct (qlen_pos l Hn) as [Hq _].
  unfold qmean at 1, z_scores. rewrite qsum_shift by exact Hs.
  unfold qlen at 2. rewrite map_length. fold (qlen l). unfold qmean. field. split; assumption.
Qed.

(* ... and variance (hence standard deviation) 1, when s*s is the variance of the source *)
Lemma spec_z_var1 l s : (2 <= List.length l)%nat -> ~ s == 0 -> s * s == qvar l -> qvar (z_scores l s) == 1.
Proof.
  intros Hn Hs Hv. destruct (qlen_pos l Hn) as [Hq Hq1].
  pose proof (spec_z_mean0 l s Hn Hs) as Hm.
  unfold qvar at 1.
  assert (qlen (z_scores l s) = qlen l) as El by (unfold qlen, z_scores; rewrite map_length; reflexivity).
  rewrite El.
  rewrite (qsum_ext _ (fun z => z * z)) by (intros; rewrite Hm; ring).
  unfold z_scores. rewrite map_map.
  rewrite (qsum_scale_sq l (qmean l) s Hs).
  unfold qvar in Hv |- *. set (S := qsum (map (fun x => (x - qmean l) * (x - qmean l)) l)) in *.
  assert (~ S == 0) as HS.
  { intro E. rewrite E in Hv. assert (s * s == 0) as E0 by (rewrite Hv; field; exact Hq1).
    destruct (Qmult_integral _ _ E0); contradiction. }
  rewrite Hv. field. split; assumption.
Qed.

(* the model built from the generated kernels computes the specified quantities *)
Lemma zlen_qlen (l : list Q) : inject_Z (zlen l) = qlen l. Proof. reflexivity. Qed.
Lemma z_mean_spec l : z_mean l == qmean l.
Proof. unfold z_mean. rewrite k_mean_spec, zlen_qlen. reflexivity. Qed.
Lemma z_var_spec l : z_var l == qvar l.
Proof.
  unfold z_var. rewrite k_var_spec, zlen_qlen. unfold qvar.
  rewrite (qsum_ext _ (fun x => (x - qmean l) * (x - qmean l))).
  - reflexivity.
  - intros. rewrite k_sqdev_spec, z_mean_spec. reflexivity.
Qed.
Lemma qsum_ext2 (f g : Q -> Q) l : (forall x, f x == g x) -> qsum (map f l) == qsum (map g l).
Proof. exact (qsum_ext f g l). Qed.
Lemma qmean_ext l l' : List.length l = List.length l' -> qsum l == qsum l' -> qmean l == qmean l'.
Proof. intros E H. unfold qmean, qlen. rewrite E, H. reflexivity. Qed.

Lemma z_model_sum l s f :
  (forall a b, a == b -> f a == f b) ->
  qsum (map f (z_model l s)) == qsum (map f (z_scores l s)).
Proof.
  intros Hf. unfold z_model, z_scores. rewrite !map_map. apply qsum_ext. intros x. apply Hf.
  rewrite k_z_cell_spec, z_mean_spec. reflexivity.
Qed.

Theorem z_mean0 l s : (2 <= List.length l)%nat -> ~ s == 0 -> z_mean (z_model l s) == 0.
Proof.
  intros Hn Hs. rewrite z_mean_spec.
  rewrite (qmean_ext _ (z_scores l s)).
  - apply spec_z_mean0; assumption.
  - unfold z_model, z_scores. rewrite !map_length. reflexivity.
  - rewrite <- (map_id (z_model l s)), <- (map_id (z_scores l s)). apply z_model_sum. auto.
Qed.

Theorem z_var1 l s : (2 <= List.length l)%nat -> ~ s == 0 -> s * s == z_var l -> z_var (z_model l s) == 1.
Proof.
  intros Hn Hs Hv. rewrite z_var_spec in *.
  rewrite <- (spec_z_var1 l s Hn Hs Hv).
  assert (List.length (z_model l s) = List.length (z_scores l s)) as El
    by (unfold z_model, z_scores; rewrite !map_length; reflexivity).
  assert (qmean (z_model l s) == qmean (z_scores l s)) as Em.
  { apply qmean_ext; [exact El|].
    rewrite <- (map_id (z_model l s)), <- (map_id (z_scores l s)). apply z_model_sum. auto. }
  unfold qvar. unfold qlen. rewrite El.
  rewrite (qsum_ext (fun x => (x - qmean (z_model l s)) * (x - qmean (z_model l s)))
                    (fun x => (x - qmean (z_scores l s)) * (x - qmean (z_scores l s))))
    by (intros; rewrite Em; reflexivity).
  rewrite (z_model_sum l s (fun x => (x - qmean (z_scores l s)) * (x - qmean (z_scores l s))))
    by (intros a b E; rewrite E; reflexivity).
  reflexivity.
Qed.
End Z.

(* ================================================================ keep_only *)
Definition plain_arg (a : karg) : option string :=
  match a with AName s => Some s | AObj [s] => Some s | _ => None end.
Fixpoint plain_args (l : list karg) : option (list string) :=
  match l with
  | [] => Some []
  | a :: r => match plain_arg a, plain_args r with Some s, Some ss => Some (s :: ss) | _, _ => None end
  end.

Lemma colname_plain a s : plain_arg a = Some s -> colname a = Ok (CStr s).
Proof.
  destruct a as [n|l|]; simpl; try discriminate.
  - intros E; inversion E; reflexivity.
  - destruct l as [|x [|y r]]; try discriminate. intros E; inversion E; subst. reflexivity.
Qed.
Lemma map_res_colname l ss : plain_args l = Some ss -> map_res colname l = Ok (map CStr ss).
Proof.
  revert ss; induction l as [|a r IH]; simpl; intros ss H.
  - inversion H; reflexivity.
  - destruct (plain_arg a) eqn:Ea; try discriminate. destruct (plain_args r) eqn:Er; try discriminate.
    inversion H; subst. rewrite (colname_plain _ _ Ea). simpl. rewrite (IH _ eq_refl). reflexivity.
Qed.
Lemma mem_cn_str n ss : mem_cn n (map CStr ss) = mem_str n ss.
Proof. induction ss; simpl; [reflexivity|]. rewrite IHss; reflexivity. Qed.
Lemma no_clist ss : existsb is_clist (map CStr ss) = false.
Proof. induction ss; simpl; auto. Qed.

(* keep_only(dm, a, b, ...), keep_only(dm, [a, b, ...]) and dm[a, b, ...] with names and/or
   single-named column objects: all rows, exactly the named columns *)
Theorem keep_only_exact t wrapped args ss :
  plain_args args = Some ss -> keep_model t wrapped args = Ok (keep_spec t ss).
Proof.
  intros Hp. unfold keep_model, keep_gen.
  assert ((if wrapped then if k_keep_unwrap 1 true then args else [AOther]
           else if k_keep_unwrap (zlen args) false then [] else args) = args) as E.
  { rewrite !k_keep_unwrap_spec. destruct wrapped; simpl; [reflexivity|].
    rewrite andb_false_r. reflexivity. }
  rewrite E, (map_res_colname _ _ Hp). cbn [bind]. rewrite no_clist.
  unfold keep_spec. f_equal. f_equal. apply filter_ext. intros c.
  rewrite (k_keep_delete_spec (mem_cn (cname c) (map CStr ss))), negb_involutive, mem_cn_str. reflexivity.
Qed.

(* L0 law: the result has every row, and a column is in it iff it was named; cells and types untouched *)
Theorem keep_spec_exact t ss :
  tlen (keep_spec t ss) = tlen t /\
  (forall c, In c (tcols (keep_spec t ss)) <-> In c (tcols t) /\ mem_str (cname c) ss = true) /\
  (wf t -> wf (keep_spec t ss)).
Proof.
  split; [reflexivity|]. split.
  - intros c. unfold keep_spec; simpl. rewrite filter_In. reflexivity.
  - intros H c Hc. apply H. unfold keep_spec in Hc; simpl in Hc. apply filter_In in Hc. tauto.
Qed.

(* aliased column objects are rejected, objects that are no columns are rejected *)
Theorem keep_only_alias_rejected t a b r rest :
  keep_model t false (AObj (a :: b :: r) :: rest) = Raise TypeError \/
  exists e, keep_model t false (AObj (a :: b :: r) :: rest) = Raise e.
Proof.
  unfold keep_model, keep_gen. rewrite k_keep_unwrap_spec, andb_false_r.
  cbn [map_res colname]. rewrite k_name_single_spec.
  replace (zlen (a :: b :: r) =? 1) with false.
  2:{ symmetry. apply Z.eqb_neq. unfold zlen. cbn [List.length]. lia. }
  destruct (map_res colname rest) as [cs|e] eqn:E; simpl.
  - left. reflexivity.
  - right. exists e. reflexivity.
Qed.

(* ================================================================ replace *)
Lemma py_eq_nan_l k x : pyv_is_nan k = true -> py_eq k x = false.
Proof.
  unfold pyv_is_nan. destruct k; simpl; try discriminate; destruct f; try discriminate; intros _;
    unfold py_eq; simpl; destruct (pyv_num x) as [[z|g]|]; try reflexivity; destruct g; reflexivity.
Qed.

(* a NaN key that is not a Python float (a numpy.float32 NaN) is compared with ==, it designates nothing *)
Definition nan_key_ok (k : pyv) : bool := (negb (pyv_is_nan k) || is_float k)%bool.
Definition plain_value (kd : kind) (v : pyv) : bool :=
  match kd, v with
  | KMixed, _ => true
  | KFloat, (PInt _ | PFloat _ | PNone | PNpInt _ | PNpFloat _ _ | PBool _) => true
  | KInt, (PInt _ | PNpInt _ | PBool _) => true
  | KInt, (PFloat f | PNpFloat _ f) => fl_is_finite f
  | _, _ => false
  end.
Lemma np_store_nf kd v : kd <> KMixed -> plain_value kd v = true -> np_store kd v = nf kd v.
Proof.
  intros Hk. destruct kd; [congruence| |]; destruct v; simpl; try discriminate; try reflexivity;
    try (destruct b; intros; vm_compute; reflexivity);
    try (destruct f; simpl; intros; try discriminate; reflexivity).
Qed.

Definition good_mapping (kd : kind) (m : list (pyv * pyv)) : Prop :=
  forall k v, In (k, v) m ->
    (kd <> KMixed -> nan_key_ok k = true /\ plain_value kd v = true) /\
    exists x, nf kd v = Ok x /\ forall k' v', In (k', v') m -> key_hits kd k' x = false.

Lemma hit_mixed old c : k_replace_hit old (pyv_of_val c) = key_hits KMixed old c.
Proof.
  rewrite k_replace_hit_eq. unfold key_hits.
  destruct (pyv_is_nan old) eqn:E; [apply py_eq_nan_l; exact E|reflexivity].
Qed.

Lemma map_res_ok {A B} (f : A -> res B) (g : A -> B) l : (forall x, In x l -> f x = Ok (g x)) -> map_res f l = Ok (map g l).
Proof.
  induction l; simpl; intros H; [reflexivity|]. rewrite (H a) by auto. simpl. rewrite IHl by auto. reflexivity.
Qed.
Lemma map_res_ext {A B} (f g : A -> res B) l : (forall x, In x l -> f x = g x) -> map_res f l = map_res g l.
Proof. induction l; simpl; intros H; [reflexivity|]. rewrite (H a) by auto. rewrite IHl by auto. reflexivity. Qed.

(* the NumPy branch of replace (Float / Int columns), for every key, value and column: no key raises (a key that
   is no number equals no cell), a value NumPy cannot store raises, otherwise exactly the cells designated by the
   key -- the NaN cells for a NaN key that is a Python float, the cells equal to the key otherwise -- hold the
   stored value *)
Definition numeric_hits (old : pyv) (c : val) : bool :=
  if (is_float old && pyv_is_nan old)%bool then is_nan_val c else py_eq old (pyv_of_val c).
Theorem pass_numeric_exact kd old new cs : kd <> KMixed ->
  pass kd old new cs = bind (np_store kd new) (fun x => Ok (map (fun c => if numeric_hits old c then x else c) cs)).
Proof.
  intros Hk. assert (pass kd old new cs = pass_numeric kd old new cs) as E by (destruct kd; [congruence| |]; reflexivity).
  rewrite E. unfold pass_numeric.
  destruct (np_store kd new) as [x|e]; cbn [bind]; [|reflexivity]. apply f_equal. apply map_ext. intros c.
  rewrite k_replace_mask_spec, k_replace_nan_key_spec. reflexivity.
Qed.
Lemma numeric_hits_key_hits kd old c : kd <> KMixed -> nan_key_ok old = true -> numeric_hits old c = key_hits kd old c.
Proof.
  intros Hk H. unfold numeric_hits, key_hits, nan_key_ok in *.
  destruct (pyv_is_nan old); simpl in H.
  - rewrite H. simpl. destruct kd; [congruence| |]; reflexivity.
  - rewrite andb_false_r. reflexivity.
Qed.

Definition numeric_kind (kd : kind) : bool := match kd with KMixed => false | _ => true end.
Theorem pass_numeric_exact_b kd old new cs : numeric_kind kd = true ->
  pass kd old new cs = bind (np_store kd new) (fun x => Ok (map (fun c => if numeric_hits old c then x else c) cs))
  /\ (nan_key_ok old = true -> forall c, numeric_hits old c = key_hits kd old c).
Proof.
  intros H. assert (kd <> KMixed) as Hk by (intros E; subst; discriminate).
  split; [apply pass_numeric_exact; exact Hk|]. intros Hn c. apply numeric_hits_key_hits; assumption.
Qed.

Lemma pass_ok kd old new x cs :
  (kd <> KMixed -> nan_key_ok old = true /\ plain_value kd new = true) ->
  nf kd new = Ok x ->
  pass kd old new cs = Ok (map (fun c => if key_hits kd old c then x else c) cs).
Proof.
  intros Hn Hx. destruct kd.
  - unfold pass, pass_mixed. apply map_res_ok. intros c _. rewrite hit_mixed.
    destruct (key_hits KMixed old c); [|reflexivity]. rewrite store_mixed_spec. exact Hx.
  - destruct Hn as [Hk Hp]; [discriminate|]. rewrite pass_numeric_exact by discriminate.
    rewrite (np_store_nf KFloat new) by (auto; discriminate). rewrite Hx. cbn [bind]. apply f_equal. apply map_ext.
    intros c. rewrite (numeric_hits_key_hits KFloat) by (auto; discriminate). reflexivity.
  - destruct Hn as [Hk Hp]; [discriminate|]. rewrite pass_numeric_exact by discriminate.
    rewrite (np_store_nf KInt new) by (auto; discriminate). rewrite Hx. cbn [bind]. apply f_equal. apply map_ext.
    intros c. rewrite (numeric_hits_key_hits KInt) by (auto; discriminate). reflexivity.
Qed.

Lemma find_key_none kd m x : (forall k v, In (k, v) m -> key_hits kd k x = false) -> find_key kd m x = None.
Proof.
  induction m as [|[k v] r IH]; simpl; intros H; [reflexivity|].
  rewrite (H k v) by auto. apply IH. intros; eapply H; eauto.
Qed.

(* the sequential passes of the implementation equal the one-step specification when no stored value is
   itself designated by a key *)
Theorem replace_exact kd m cs : good_mapping kd m -> replace_model kd m cs = replace_spec kd m cs.
Proof.
  revert cs. induction m as [|[k v] r IH]; intros cs G.
  - simpl. unfold replace_spec. symmetry. rewrite (map_res_ok _ (fun c => c)); [rewrite map_id; reflexivity|].
    intros; reflexivity.
  - destruct (G k v (or_introl eq_refl)) as [Hn [x [Hx Hd]]].
    cbn [replace_model]. rewrite (pass_ok kd k v x cs Hn Hx). cbn [bind].
    rewrite IH.
    2:{ intros k' v' Hin. destruct (G k' v' (or_intror Hin)) as [Hn' [x' [Hx' Hd']]]. split; [exact Hn'|].
        exists x'. split; [exact Hx'|]. intros; eapply Hd'; right; eauto. }
    unfold replace_spec. clear IH. induction cs as [|c cs IHc]; [reflexivity|].
    cbn [map map_res]. rewrite IHc. f_equal.
    unfold replace_cell. cbn [find_key].
    destruct (key_hits kd k c) eqn:Eh.
    + rewrite find_key_none by (intros; eapply Hd; right; eauto). rewrite Hx. reflexivity.
    + reflexivity.
Qed.

(* the boolean the oracle evaluates implies the disjointness part of good_mapping *)
Lemma disjoint_b_sound kd m : disjoint_b kd m = true ->
  forall k v x, In (k, v) m -> nf kd v = Ok x -> forall k' v', In (k', v') m -> key_hits kd k' x = false.
Proof.
  unfold disjoint_b. rewrite forallb_forall. intros H k v x Hin Hx k' v' Hin'.
  specialize (H (k, v) Hin). simpl in H. rewrite Hx in H. rewrite forallb_forall in H.
  specialize (H (k', v') Hin'). simpl in H. apply negb_true_iff in H. exact H.
Qed.

(* L0 law, cell by cell: a cell designated by a key holds the stored form of the first such key's value,
   every other cell is unchanged, nothing is added or removed *)
Theorem replace_spec_cells kd m cs out : replace_spec kd m cs = Ok out ->
  List.length out = List.length cs /\
  forall i c, nth_error cs i = Some c ->
    exists o, nth_error out i = Some o /\
      ((forall k v, In (k, v) m -> key_hits kd k c = false) -> o = c) /\
      (forall v, find_key kd m c = Some v -> nf kd v = Ok o).
Proof.
  unfold replace_spec. revert out. induction cs as [|a r IH]; simpl; intros out H.
  - inversion H; subst. split; [reflexivity|]. intros [|i] c E; discriminate.
  - destruct (replace_cell kd m a) as [o|e] eqn:Ea; simpl in H; try discriminate.
    destruct (map_res (replace_cell kd m) r) as [os|e] eqn:Er; simpl in H; try discriminate.
    inversion H; subst. destruct (IH os eq_refl) as [Hl Hc]. split; [simpl; congruence|].
    intros [|i] c E; simpl in E.
    + inversion E; subst. exists o. split; [reflexivity|]. unfold replace_cell in Ea. split.
      * intros Hno. rewrite find_key_none in Ea by exact Hno. inversion Ea; reflexivity.
      * intros v Hv. rewrite Hv in Ea. exact Ea.
    + apply Hc. exact E.
Qed.

(* ================================================================ weight *)
Lemma upd_app {A} (pre : list A) x y rest : upd (List.length pre) x (pre ++ y :: rest) = pre ++ x :: rest.
Proof. induction pre; simpl; [reflexivity|]. rewrite IHpre. reflexivity. Qed.
Lemma zset_app {A} (pre : list A) x y rest : zset (zlen pre) x (pre ++ y :: rest) = pre ++ x :: rest.
Proof.
  unfold zset, zlen. replace (Z.of_nat (List.length pre) <? 0) with false by (symmetry; apply Z.ltb_ge; lia).
  rewrite Nat2Z.id. apply upd_app.
Qed.
Lemma znth_app {A} (done : list A) x todo d : znth (zlen done) (done ++ x :: todo) d = x.
Proof.
  unfold znth, zlen. replace (Z.of_nat (List.length done) <? 0) with false by (symmetry; apply Z.ltb_ge; lia).
  rewrite Nat2Z.id. rewrite app_nth2 by lia. rewrite Nat.sub_diag. reflexivity.
Qed.
Lemma zlen_app {A} (a b : list A) : zlen (a ++ b) = zlen a + zlen b.
Proof. unfold zlen. rewrite app_length. lia. Qed.

Lemma weight_of_some w n : weight_of w = Some n ->
  is_int_cell w = true /\ 0 <= int_of_cell w /\ Z.to_nat (int_of_cell w) = n.
Proof.
  destruct w; simpl; try discriminate. destruct (0 <=? z) eqn:E; try discriminate.
  intros H; inversion H. apply Z.leb_le in E. auto.
Qed.
Lemma weight_of_none w : weight_of w = None -> is_int_cell w = false \/ int_of_cell w < 0.
Proof.
  destruct w; simpl; auto. destruct (0 <=? z) eqn:E; try discriminate. apply Z.leb_gt in E. auto.
Qed.

Lemma validate_ok ws ns : weights_of ws = Some ns -> weight_validate ws = Ok tt.
Proof.
  revert ns; induction ws as [|w r IH]; simpl; intros ns H; [reflexivity|].
  destruct (weight_of w) eqn:Ew; try discriminate. destruct (weights_of r) eqn:Er; try discriminate.
  destruct (weight_of_some _ _ Ew) as [Hi [Hz _]].
  replace (k_weight_bad (is_int_cell w) (int_of_cell w)) with false
    by (symmetry; apply k_weight_bad_ok; auto).
  eapply IH; reflexivity.
Qed.
Lemma validate_bad ws : weights_of ws = None -> weight_validate ws = Raise TypeError.
Proof.
  induction ws as [|w r IH]; simpl; intros H; [discriminate|].
  destruct (k_weight_bad (is_int_cell w) (int_of_cell w)) eqn:Eb; [reflexivity|].
  apply k_weight_bad_ok in Eb. destruct Eb as [Hi Hz].
  destruct (weight_of w) eqn:Ew.
  - destruct (weights_of r); [discriminate|]. apply IH; reflexivity.
  - destruct (weight_of_none _ Ew); [congruence|lia].
Qed.
Lemma validate_cases ws : weight_validate ws = Ok tt \/ weight_validate ws = Raise TypeError.
Proof. destruct (weights_of ws) eqn:E; [left; eapply validate_ok; eauto | right; apply validate_bad; auto]. Qed.

Lemma total_ok ws ns : weights_of ws = Some ns -> ws <> [] -> weight_total ws = Ok (Z.of_nat (nsum ns)).
Proof.
  intros H Hne. unfold weight_total. destruct ws as [|w0 r0]; [congruence|]. f_equal. clear Hne.
  revert ns H. generalize (w0 :: r0) as ws. induction ws as [|w r IH]; simpl; intros ns H.
  - inversion H; reflexivity.
  - destruct (weight_of w) eqn:Ew; try discriminate. destruct (weights_of r) eqn:Er; try discriminate.
    inversion H; subst. destruct (weight_of_some _ _ Ew) as [_ [Hz Hn]].
    rewrite (IH _ eq_refl). simpl. lia.
Qed.

Lemma copy_reps_spec n : forall pre body tail x src i1,
  znth i1 src VNone = x -> List.length body = n ->
  copy_reps n src i1 (pre ++ body ++ tail, zlen pre) = (pre ++ repeat x n ++ tail, zlen pre + Z.of_nat n).
Proof.
  induction n; intros pre body tail x src i1 Hx Hb.
  - destruct body; [|discriminate]. simpl. f_equal. lia.
  - destruct body as [|y body]; [discriminate|]. simpl in Hb.
    cbn [copy_reps]. rewrite k_weight_dst_id, k_weight_src_id, k_weight_next_succ, Hx.
    cbn [app]. rewrite zset_app.
    replace (pre ++ x :: body ++ tail) with ((pre ++ [x]) ++ body ++ tail) by (rewrite <- app_assoc; reflexivity).
    replace (zlen pre + 1) with (zlen (pre ++ [x])) by (rewrite zlen_app; reflexivity).
    rewrite (IHn (pre ++ [x]) body tail x src i1 Hx) by lia.
    rewrite <- app_assoc. cbn [repeat app]. f_equal. rewrite zlen_app. unfold zlen at 2. simpl. lia.
Qed.

Lemma copy_rows_spec ws : forall ns done todo pre body tail,
  weights_of ws = Some ns -> List.length todo = List.length ws -> List.length body = nsum ns ->
  copy_rows ws (zlen done) (done ++ todo) (pre ++ body ++ tail, zlen pre)
  = (pre ++ rep_by ns todo ++ tail, zlen pre + Z.of_nat (nsum ns)).
Proof.
  induction ws as [|w r IH]; intros ns done todo pre body tail Hw Ht Hb.
  - inversion Hw; subst. destruct todo; [|discriminate]. destruct body; [|discriminate]. simpl. f_equal. lia.
  - simpl in Hw. destruct (weight_of w) eqn:Ew; try discriminate. destruct (weights_of r) eqn:Er; try discriminate.
    inversion Hw; subst. destruct todo as [|x todo]; [discriminate|]. simpl in Ht.
    destruct (weight_of_some _ _ Ew) as [_ [Hz Hn]].
    cbn [copy_rows]. rewrite k_weight_reps_id, Hn. simpl in Hb.
    rewrite <- (firstn_skipn n body). rewrite <- app_assoc.
    rewrite (copy_reps_spec n pre (firstn n body) (skipn n body ++ tail) x).
    2:{ apply znth_app. }
    2:{ rewrite firstn_length. lia. }
    replace (pre ++ repeat x n ++ skipn n body ++ tail) with ((pre ++ repeat x n) ++ skipn n body ++ tail)
      by (rewrite <- app_assoc; reflexivity).
    replace (zlen pre + Z.of_nat n) with (zlen (pre ++ repeat x n))
      by (rewrite zlen_app; unfold zlen at 2; rewrite repeat_length; reflexivity).
    replace (zlen done + 1) with (zlen (done ++ [x])) by (rewrite zlen_app; reflexivity).
    replace (done ++ x :: todo) with ((done ++ [x]) ++ todo) by (rewrite <- app_assoc; reflexivity).
    rewrite (IH l (done ++ [x]) todo (pre ++ repeat x n) (skipn n body) tail eq_refl) by (try rewrite skipn_length; lia).
    cbn [rep_by nsum fold_right]. rewrite <- !app_assoc. f_equal.
    rewrite zlen_app. unfold zlen at 2. rewrite repeat_length. unfold nsum. lia.
Qed.

Lemma weight_col_spec ws ns c : weights_of ws = Some ns -> List.length (cells c) = List.length ws ->
  weight_col ws (nsum ns) c = (cname c, ckind c, rep_by ns (cells c)).
Proof.
  intros Hw Hl. unfold weight_col. f_equal.
  pose proof (copy_rows_spec ws ns [] (cells c) [] (repeat (default_cell (ckind c)) (nsum ns)) [] Hw Hl) as H.
  rewrite repeat_length in H. specialize (H eq_refl). cbn [app] in H. rewrite !app_nil_r in H.
  change (zlen (@nil val)) with 0 in H. rewrite H. reflexivity.
Qed.

(* L1 = L0 on every non-empty well-formed table *)
Theorem weight_refines t wcells : wf t -> wcells <> [] -> List.length wcells = tlen t ->
  weight_model t wcells = weight_spec t wcells.
Proof.
  intros Hwf Hne Hl. unfold weight_model, weight_spec.
  destruct (weights_of wcells) as [ns|] eqn:Ew.
  - rewrite (validate_ok _ _ Ew). cbn [bind]. rewrite (total_ok _ _ Ew Hne). cbn [bind].
    rewrite k_weight_len_id, Nat2Z.id. f_equal. f_equal.
    apply map_ext_in. intros c Hc. apply weight_col_spec; [exact Ew|]. rewrite (Hwf c Hc). auto.
  - rewrite (validate_bad _ Ew). reflexivity.
Qed.

(* TypeError exactly when some weight is not a non-negative int (for any table, empty or not) *)
Theorem weight_typeerror_iff t wcells :
  weight_model t wcells = Raise TypeError <-> exists w, In w wcells /\ weight_of w = None.
Proof.
  assert (forall ws, weights_of ws = None <-> exists w, In w ws /\ weight_of w = None) as Hnone.
  { induction ws as [|w r IH]; simpl.
    - split; [discriminate|intros [w [[] _]]].
    - destruct (weight_of w) eqn:Ew.
      + destruct (weights_of r) eqn:Er.
        * split; [discriminate|]. intros [w' [[E|Hin] Hn]]; [subst; congruence|].
          assert (None = None :> option (list nat)) as X by reflexivity. destruct IH as [_ IH2].
          discriminate IH2. exists w'; auto.
        * split; [|reflexivity]. intros _. destruct IH as [IH1 _]. destruct (IH1 eq_refl) as [w' [Hin Hn]].
          exists w'; auto.
      + split; [|reflexivity]. intros _. exists w; auto. }
  rewrite <- Hnone. unfold weight_model. destruct (weights_of wcells) as [ns|] eqn:Ew.
  - rewrite (validate_ok _ _ Ew). cbn [bind]. split; [|discriminate].
    unfold weight_total. destruct wcells; cbn [bind]; discriminate.
  - rewrite (validate_bad _ Ew). split; reflexivity.
Qed.

(* rows: source row i appears w_i consecutive times, in source order *)
Lemma rows_of_cons n css : rows_of (S n) css = row_at css 0 :: rows_of n (map (@tl val) css).
Proof.
  unfold rows_of. cbn [seq map]. f_equal. rewrite <- seq_shift, map_map. apply map_ext. intros i.
  unfold row_at. rewrite map_map. apply map_ext. intros c. destruct c; [destruct i; reflexivity|reflexivity].
Qed.
Lemma rows_of_repeat a : forall n (heads : list val) (rests : list (list val)),
  List.length heads = List.length rests ->
  rows_of (a + n) (map (fun '(h, r) => repeat h a ++ r) (combine heads rests)) = repeat heads a ++ rows_of n rests.
Proof.
  induction a; intros n heads rests Hl.
  - cbn [Nat.add repeat app]. f_equal. rewrite <- (map_id rests) at 2.
    revert rests Hl; induction heads; intros [|r rests] Hl; try discriminate; [reflexivity|].
    simpl. f_equal. apply IHheads. simpl in Hl; lia.
  - cbn [Nat.add]. rewrite rows_of_cons. cbn [repeat app]. f_equal.
    + unfold row_at. rewrite map_map. clear IHa.
      revert rests Hl; induction heads; intros [|r rests] Hl; try discriminate; [reflexivity|].
      simpl. f_equal. apply IHheads. simpl in Hl; lia.
    + rewrite map_map. rewrite <- (IHa n heads rests Hl). f_equal. apply map_ext. intros [h r]. reflexivity.
Qed.

Lemma rep_by_rows ns : forall n (css : list (list val)),
  List.length ns = n -> (forall c, In c css -> List.length c = n) ->
  rows_of (nsum ns) (map (rep_by ns) css) = rep_by ns (rows_of n css).
Proof.
  induction ns as [|a ns IH]; intros n css Hn Hc.
  - subst n. simpl. reflexivity.
  - destruct n as [|n]; [discriminate|]. simpl in Hn.
    assert (map (rep_by (a :: ns)) css
            = map (fun '(h, r) => repeat h a ++ r) (combine (row_at css 0) (map (rep_by ns) (map (@tl val) css)))) as E.
    { clear IH. induction css as [|c css IHc]; [reflexivity|].
      cbn [map row_at combine]. rewrite IHc by (intros; apply Hc; right; auto). f_equal.
      assert (List.length c = S n) as Lc by (apply Hc; left; auto).
      destruct c; [discriminate|]. reflexivity. }
    rewrite E. rewrite (rows_of_cons n css). cbn [rep_by].
    change (nsum (a :: ns)) with (a + nsum ns)%nat.
    rewrite rows_of_repeat by (unfold row_at; rewrite !map_length; reflexivity).
    f_equal. apply IH; [lia|]. intros c Hin. apply in_map_iff in Hin. destruct Hin as [c0 [E0 Hin]]. subst c.
    specialize (Hc c0 Hin). destruct c0; [discriminate|]. simpl in *. lia.
Qed.

Theorem weight_rows t wcells ns t' : wf t -> List.length wcells = tlen t ->
  weights_of wcells = Some ns -> weight_spec t wcells = Ok t' ->
  trows t' = rep_by ns (trows t) /\ map cname (tcols t') = map cname (tcols t)
  /\ map ckind (tcols t') = map ckind (tcols t) /\ wf t'.
Proof.
  intros Hwf Hl Hw Hs. unfold weight_spec in Hs. rewrite Hw in Hs. inversion Hs; subst t'; clear Hs.
  assert (List.length ns = tlen t) as Hns.
  { rewrite <- Hl. clear -Hw. revert ns Hw. induction wcells as [|w r IH]; simpl; intros ns H.
    - inversion H; reflexivity.
    - destruct (weight_of w); try discriminate. destruct (weights_of r); try discriminate.
      inversion H; subst. simpl. f_equal. apply IH; reflexivity. }
  repeat split.
  - unfold trows. cbn [tlen tcols]. rewrite map_map. cbn [cells snd].
    rewrite <- (map_map cells (rep_by ns)). apply rep_by_rows; [exact Hns|].
    intros c Hin. apply in_map_iff in Hin. destruct Hin as [c0 [E Hin]]. subst. apply Hwf; exact Hin.
  - cbn [tcols]. rewrite map_map. reflexivity.
  - cbn [tcols]. rewrite map_map. reflexivity.
  - intros c Hin. cbn [tcols tlen] in *. apply in_map_iff in Hin. destruct Hin as [c0 [E Hin]]. subst c.
    unfold cells; cbn [snd]. specialize (Hwf c0 Hin). fold (cells c0). revert Hwf Hns. generalize (cells c0) (tlen t).
    clear. intros l n. revert l n. induction ns as [|a ns IH]; intros l n Hl Hn.
    + reflexivity.
    + destruct l as [|x l]; [simpl in *; lia|]. destruct n; [discriminate|]. cbn [rep_by nsum fold_right].
      rewrite app_length, repeat_length. f_equal. apply (IH l n); simpl in *; lia.
Qed.

(* ================================================================ _fullfact *)
Open Scope nat_scope.
Fixpoint prodN (ls : list nat) : nat := match ls with [] => 1 | l :: r => l * prodN r end.
(* mixed-radix digits of q, least significant (first factor) first *)
Fixpoint digits (ls : list nat) (q : nat) : list nat :=
  match ls with [] => [] | l :: r => (q mod l) :: digits r (q / l) end.

Lemma nth_repeat_lt {A} (x d : A) m k : k < m -> nth k (repeat x m) d = x.
Proof. revert k; induction m; intros k H; [lia|]. destruct k; simpl; [reflexivity|]. apply IHm; lia. Qed.

Lemma flat_repeat_length {A} (f : nat -> A) m l a :
  List.length (flat_map (fun j => repeat (f j) m) (seq a l)) = l * m.
Proof. revert a; induction l; intros a; simpl; [reflexivity|]. rewrite app_length, repeat_length, IHl. lia. Qed.

Lemma nth_flat_repeat {A} (f : nat -> A) d m : 0 < m -> forall l a k, k < l * m ->
  nth k (flat_map (fun j => repeat (f j) m) (seq a l)) d = f (a + k / m).
Proof.
  intros Hm. induction l; intros a k Hk; [lia|].
  cbn [seq flat_map]. destruct (Nat.lt_ge_cases k m) as [Hlt|Hge].
  - rewrite app_nth1 by (rewrite repeat_length; exact Hlt). rewrite nth_repeat_lt by exact Hlt.
    rewrite Nat.div_small by exact Hlt. f_equal. lia.
  - rewrite app_nth2 by (rewrite repeat_length; exact Hge). rewrite repeat_length.
    rewrite IHl by (simpl in Hk; lia). f_equal.
    assert (k = (k - m) + 1 * m) as E by lia. rewrite E at 2. rewrite Nat.div_add by lia. lia.
Qed.

Lemma concat_repeat_length {A} (lvl : list A) r : List.length (List.concat (repeat lvl r)) = r * List.length lvl.
Proof. induction r; simpl; [reflexivity|]. rewrite app_length, IHr. reflexivity. Qed.

Lemma nth_concat_repeat {A} (lvl : list A) d : List.length lvl <> 0 -> forall r k, k < r * List.length lvl ->
  nth k (List.concat (repeat lvl r)) d = nth (k mod List.length lvl) lvl d.
Proof.
  intros Hl. induction r; intros k Hk; [lia|]. cbn [repeat List.concat].
  destruct (Nat.lt_ge_cases k (List.length lvl)) as [Hlt|Hge].
  - rewrite app_nth1 by exact Hlt. rewrite Nat.mod_small by exact Hlt. reflexivity.
  - rewrite app_nth2 by exact Hge. rewrite IHr by (simpl in Hk; lia). f_equal.
    assert (k = (k - List.length lvl) + 1 * List.length lvl) as E by lia. rewrite E at 2.
    rewrite Nat.mod_add by exact Hl. reflexivity.
Qed.

Lemma flat_map_map {A B C} (g : A -> B) (f : B -> list C) l : flat_map f (map g l) = flat_map (fun x => f (g x)) l.
Proof. induction l; simpl; [reflexivity|]. rewrite IHl; reflexivity. Qed.

Lemma digit_arith k lr l : lr <> 0 -> l <> 0 -> (k mod (lr * l)) / lr = (k / lr) mod l.
Proof.
  intros Hlr Hl. rewrite Nat.mod_mul_r by assumption.
  rewrite (Nat.mul_comm lr ((k / lr) mod l)), Nat.add_comm, Nat.div_add_l by exact Hlr.
  rewrite (Nat.div_small (k mod lr)) by (apply Nat.mod_upper_bound; exact Hlr). lia.
Qed.

(* the column built for one factor: entry k is digit (k / lr) mod l *)
Lemma ff_cols_spec ls : forall lr k, Forall (fun l => 0 < l) ls -> 0 < lr -> k < lr * prodN ls ->
  map (fun c => nth k c 0%Z) (ff_cols (map Z.of_nat ls) (Z.of_nat lr) (Z.of_nat (prodN ls)))
  = map Z.of_nat (digits ls (k / lr)).
Proof.
  induction ls as [|l rest IH]; intros lr k Hpos Hlr Hk; [reflexivity|].
  inversion Hpos as [|? ? Hl Hrest]; subst.
  cbn [map ff_cols digits prodN].
  rewrite k_ff_range_step_div, k_ff_level_step_mul, k_ff_lvl_count_id, k_ff_lvl_times_id, k_ff_rng_times_id.
  rewrite <- Nat2Z.inj_div, <- Nat2Z.inj_mul.
  replace (l * prodN rest / l) with (prodN rest) by (rewrite Nat.mul_comm, Nat.div_mul; lia).
  rewrite !Nat2Z.id. unfold zrange. rewrite Nat2Z.id, flat_map_map.
  f_equal.
  - set (lvl := flat_map (fun x => repeat (k_ff_lvl_elem (Z.of_nat x)) lr) (seq 0 l)).
    assert (List.length lvl = l * lr) as Ll by (unfold lvl; apply flat_repeat_length).
    rewrite nth_concat_repeat by (rewrite Ll; nia || (cbn [prodN] in Hk; nia)).
    rewrite Ll. unfold lvl.
    rewrite (nth_flat_repeat (fun x => k_ff_lvl_elem (Z.of_nat x)) 0%Z lr Hlr l 0)
      by (apply Nat.mod_upper_bound; nia).
    rewrite k_ff_lvl_elem_id. cbn [Nat.add]. f_equal.
    rewrite (Nat.mul_comm l lr). apply digit_arith; lia.
  - rewrite (IH (lr * l) k Hrest) by (try nia; cbn [prodN] in Hk; nia).
    rewrite Nat.div_div by lia. reflexivity.
Qed.

Lemma prodN_pos ls : prodN ls <> 0 -> Forall (fun l => 0 < l) ls.
Proof. induction ls; simpl; intros H; constructor; [nia|apply IHls; nia]. Qed.
Lemma zprod_of_nat ls : zprod (map Z.of_nat ls) = Z.of_nat (prodN ls).
Proof. induction ls; simpl; [reflexivity|]. unfold zprod in *. cbn [fold_right]. rewrite IHls. lia. Qed.

(* _fullfact levels, row k = the mixed-radix digits of k *)
Theorem fullfact_digits ls :
  fullfact (map Z.of_nat ls) = map (fun k => map Z.of_nat (digits ls k)) (seq 0 (prodN ls)).
Proof.
  unfold fullfact. rewrite zprod_of_nat, Nat2Z.id, k_ff_init_lr, k_ff_init_rr.
  destruct (Nat.eq_dec (prodN ls) 0) as [E|E]; [rewrite E; reflexivity|].
  apply map_ext_in. intros k Hk. apply in_seq in Hk.
  change 1%Z with (Z.of_nat 1). rewrite (ff_cols_spec ls 1 k (prodN_pos ls E)) by lia.
  rewrite Nat.div_1_r. reflexivity.
Qed.

Lemma digits_range ls : Forall (fun l => 0 < l) ls -> forall q, Forall2 (fun x l => x < l) (digits ls q) ls.
Proof.
  induction 1; intros q; simpl; constructor; [apply Nat.mod_upper_bound; lia|apply IHForall].
Qed.
Lemma digits_inj ls : forall q q', q < prodN ls -> q' < prodN ls -> digits ls q = digits ls q' -> q = q'.
Proof.
  induction ls as [|l rest IH]; simpl; intros q q' H H' E; [lia|].
  inversion E as [[E1 E2]].
  assert (l <> 0) as Hl by nia.
  assert (q / l = q' / l) as Ed.
  { apply IH; [apply Nat.div_lt_upper_bound; auto | apply Nat.div_lt_upper_bound; auto | exact E2]. }
  rewrite (Nat.div_mod_eq q l), (Nat.div_mod_eq q' l), E1, Ed. reflexivity.
Qed.
Lemma digits_surj ls r : Forall2 (fun x l => x < l) r ls -> exists q, q < prodN ls /\ digits ls q = r.
Proof.
  induction 1 as [|x l r ls Hx _ IH]; [exists 0; simpl; split; [lia|reflexivity]|].
  destruct IH as [q [Hq Hd]]. exists (x + q * l). simpl. split; [nia|].
  assert (l <> 0) as Hl by lia.
  rewrite Nat.mod_add by exact Hl. rewrite Nat.mod_small by exact Hx.
  rewrite Nat.div_add by exact Hl. rewrite Nat.div_small by exact Hx. simpl. rewrite Hd. reflexivity.
Qed.

Lemma NoDup_map_inj_in {A B} (f : A -> B) l :
  (forall x y, In x l -> In y l -> f x = f y -> x = y) -> NoDup l -> NoDup (map f l).
Proof.
  induction l; intros Hi Hn; simpl; [constructor|]. inversion Hn; subst. constructor.
  - intro Hin. apply in_map_iff in Hin. destruct Hin as [y [E Hy]].
    assert (y = a) by (apply Hi; simpl; auto). subst. contradiction.
  - apply IHl; [intros; apply Hi; simpl; auto|assumption].
Qed.
Lemma map_of_nat_inj a b : map Z.of_nat a = map Z.of_nat b -> a = b.
Proof.
  revert b; induction a; intros [|y b] E; try discriminate; [reflexivity|].
  simpl in E. inversion E. f_equal; [lia|auto].
Qed.

Open Scope Z_scope.
(* every index tuple of the product exactly once *)
Theorem fullfact_bijection (levels : list Z) : Forall (fun l => 0 <= l) levels ->
  List.length (fullfact levels) = Z.to_nat (zprod levels)
  /\ NoDup (fullfact levels)
  /\ (forall r, In r (fullfact levels) <-> Forall2 (fun x l => 0 <= x < l) r levels).
Proof.
  intros Hnn.
  assert (levels = map Z.of_nat (map Z.to_nat levels)) as E.
  { clear -Hnn. induction Hnn; simpl; [reflexivity|]. rewrite Z2Nat.id by assumption. congruence. }
  set (ls := map Z.to_nat levels) in *. rewrite E. clear E Hnn. clearbody ls. rewrite fullfact_digits.
  split; [rewrite map_length, seq_length, zprod_of_nat, Nat2Z.id; reflexivity|]. split.
  - apply NoDup_map_inj_in; [|apply seq_NoDup].
    intros x y Hx Hy Exy. apply in_seq in Hx. apply in_seq in Hy. apply map_of_nat_inj in Exy.
    apply (digits_inj ls); [lia|lia|exact Exy].
  - intros r. rewrite in_map_iff. split.
    + intros [k [Ek Hk]]. apply in_seq in Hk. subst r.
      assert (Forall (fun l => (0 < l)%nat) ls) as Hpos by (apply prodN_pos; lia).
      pose proof (digits_range ls Hpos k) as HR. clear -HR. induction HR; simpl; constructor; [lia|assumption].
    + intros HR.
      assert (Forall2 (fun x l => (x < l)%nat) (map Z.to_nat r) ls /\ r = map Z.of_nat (map Z.to_nat r)) as [H2 Er].
      { clear -HR. remember (map Z.of_nat ls) as zl. revert ls Heqzl.
        induction HR as [|x l r zl Hx _ IH]; intros ls E.
        - destruct ls; [|discriminate]. split; [constructor|reflexivity].
        - destruct ls as [|n ls]; [discriminate|]. simpl in E. inversion E; subst.
          destruct (IH ls eq_refl) as [A B]. split.
          + simpl. constructor; [lia|exact A].
          + simpl. rewrite Z2Nat.id by lia. congruence. }
      destruct (digits_surj ls _ H2) as [q [Hq Hd]]. exists q. split.
      * rewrite Hd. symmetry. exact Er.
      * apply in_seq. lia.
Qed.

(* ================================================================ fullfactorial *)
Lemma in_cart {A} (fs : list (list A)) : forall r, In r (cart fs) <-> Forall2 (fun x f => In x f) r fs.
Proof.
  induction fs as [|f fs IH]; intros r; simpl.
  - split; [intros [E|[]]; subst; constructor | intros H; inversion H; auto].
  - rewrite in_flat_map. split.
    + intros [x [Hx Hr]]. apply in_map_iff in Hr. destruct Hr as [r' [E Hr']]. subst. constructor; [exact Hx|apply IH; exact Hr'].
    + intros H. inversion H; subst. exists x. split; [assumption|]. apply in_map_iff. eexists; split; [reflexivity|apply IH; assumption].
Qed.
Lemma NoDup_app_disj {A} (a b : list A) : NoDup a -> NoDup b -> (forall x, In x a -> ~ In x b) -> NoDup (a ++ b).
Proof.
  induction a; simpl; intros Ha Hb Hd; [exact Hb|]. inversion Ha; subst. constructor.
  - rewrite in_app_iff. intros [H|H]; [contradiction|]. apply (Hd a); auto.
  - apply IHa; auto.
Qed.
Lemma NoDup_cart {A} (fs : list (list A)) : Forall (@NoDup A) fs -> NoDup (cart fs).
Proof.
  induction 1 as [|f fs Hf _ IH]; simpl; [constructor; [intros []|constructor]|].
  induction Hf as [|x f Hx Hf IHf]; simpl; [constructor|].
  apply NoDup_app_disj.
  - apply NoDup_map_inj_in; [intros ? ? _ _ E; inversion E; reflexivity|exact IH].
  - exact IHf.
  - intros r Hr Hr'. apply in_map_iff in Hr. destruct Hr as [r0 [E _]]. subst r.
    apply in_flat_map in Hr'. destruct Hr' as [y [Hy Hr']]. apply in_map_iff in Hr'. destruct Hr' as [r1 [E _]].
    inversion E; subst. contradiction.
Qed.

Open Scope nat_scope.
Lemma digits_perm_cart ls :
  Permutation (map (digits ls) (seq 0 (prodN ls))) (cart (map (seq 0) ls)).
Proof.
  apply NoDup_Permutation.
  - apply NoDup_map_inj_in; [|apply seq_NoDup]. intros x y Hx Hy. apply in_seq in Hx. apply in_seq in Hy.
    apply digits_inj; lia.
  - apply NoDup_cart. clear. induction ls; simpl; constructor; [apply seq_NoDup|assumption].
  - intros r. rewrite in_cart, in_map_iff. split.
    + intros [k [E Hk]]. apply in_seq in Hk. subst r.
      assert (Forall (fun l => 0 < l) ls) as Hpos by (apply prodN_pos; lia).
      pose proof (digits_range ls Hpos k) as HR. clear -HR.
      induction HR; simpl; constructor; [apply in_seq; lia|assumption].
    + intros HR. assert (Forall2 (fun x l => x < l) r ls) as H2.
      { clear -HR. remember (map (seq 0) ls) as fs. revert ls Heqfs. induction HR; intros ls E.
        - destruct ls; [constructor|discriminate].
        - destruct ls; [discriminate|]. simpl in E. inversion E; subst. constructor; [apply in_seq in H; lia|].
          apply IHHR; reflexivity. }
      destruct (digits_surj ls r H2) as [q [Hq Hd]]. exists q. split; [exact Hd|apply in_seq; lia].
Qed.

Definition pick (levs : list (list val)) (idx : list nat) : list val :=
  map (fun '(lv, j) => nth j lv VNone) (combine levs idx).

Lemma list_as_map_nth {A B} (f : A -> B) (l : list A) d : map (fun j => f (nth j l d)) (seq 0 (List.length l)) = map f l.
Proof.
  induction l; simpl; [reflexivity|]. f_equal. rewrite <- seq_shift, map_map. exact IHl.
Qed.
Lemma flat_map_ext_in {A B} (f g : A -> list B) l : (forall x, In x l -> f x = g x) -> flat_map f l = flat_map g l.
Proof. induction l; simpl; intros H; [reflexivity|]. rewrite H by auto. rewrite IHl by auto. reflexivity. Qed.

Lemma cart_pick (levs : list (list val)) :
  cart levs = map (pick levs) (cart (map (fun lv => seq 0 (List.length lv)) levs)).
Proof.
  induction levs as [|lv rest IH]; [reflexivity|].
  cbn [cart map].
  set (C := cart rest) in *. set (CI := cart (map (fun lv0 => seq 0 (List.length lv0)) rest)) in *.
  rewrite !flat_map_concat_map, concat_map, map_map.
  rewrite <- (list_as_map_nth (fun x => map (cons x) C) lv VNone).
  f_equal. apply map_ext. intros j. rewrite IH, !map_map. apply map_ext. intros idx. reflexivity.
Qed.

Open Scope Z_scope.
Lemma py_eq_refl_val ig : is_nan_val ig = false -> cell_eq ig (pyv_of_val ig) = true.
Proof.
  unfold cell_eq, py_eq. destruct ig as [z|f|s|]; simpl; intros Hn.
  - unfold num_eqb, num_cmp, dy_cmp. rewrite Z.compare_refl. reflexivity.
  - destruct f; try discriminate; unfold num_eqb, num_cmp; simpl; try (destruct neg; reflexivity).
    unfold dy_cmp. rewrite Z.compare_refl. reflexivity.
  - apply String.eqb_refl.
  - reflexivity.
Qed.
Lemma ignored_refl ig : ignored ig ig = true.
Proof. unfold ignored. destruct (is_nan_val ig) eqn:E; [reflexivity|apply py_eq_refl_val; exact E]. Qed.

Lemma filter_idem {A} (f : A -> bool) l : filter f (filter f l) = filter f l.
Proof. induction l; simpl; [reflexivity|]. destruct (f a) eqn:E; simpl; [rewrite E, IHl; reflexivity|exact IHl]. Qed.
Lemma kept_pack ig cs : kept ig (pack ig cs) = kept ig cs.
Proof.
  unfold pack, kept at 1. rewrite filter_app. fold (kept ig cs). unfold kept at 1 2. rewrite filter_idem.
  fold (kept ig cs).
  assert (forall n, filter (fun c => negb (ignored ig c)) (repeat ig n) = []) as E.
  { induction n; simpl; [reflexivity|]. rewrite ignored_refl. simpl. exact IHn. }
  rewrite E. apply app_nil_r.
Qed.

Lemma fill_loop_spec n dsti v : (forall i, dsti i = Z.of_nat i) -> forall dst, List.length dst = n ->
  fill_loop n dsti v dst = map v (seq 0 n).
Proof.
  intros Hd. unfold fill_loop.
  assert (forall m a pre rest, List.length pre = a -> List.length rest = m ->
            fold_left (fun d i => zset (dsti i) (v i) d) (seq a m) (pre ++ rest) = pre ++ map v (seq a m)) as G.
  { induction m; intros a pre rest Ha Hr.
    - destruct rest; [reflexivity|discriminate].
    - destruct rest as [|y rest]; [discriminate|]. cbn [seq fold_left map]. rewrite Hd, <- Ha.
      fold (zlen pre). rewrite zset_app.
      replace (pre ++ v (List.length pre) :: rest) with ((pre ++ [v (List.length pre)]) ++ rest)
        by (rewrite <- app_assoc; reflexivity).
      rewrite IHm; [rewrite <- app_assoc; reflexivity|rewrite app_length; simpl; lia|simpl in Hr; lia]. }
  intros dst Hl. apply (G n 0%nat [] dst eq_refl Hl).
Qed.

Definition pickZ (pcs : list (list val)) (idx : list Z) : list val :=
  map (fun '(pc, j) => znth j pc VNone) (combine pcs idx).

Lemma by_rownr {A} (g : Z -> A -> val) (cs : list A) : forall (a : nat) pre idx,
  List.length pre = a -> List.length idx = List.length cs ->
  map (fun '(rownr, c) => g (nth rownr (pre ++ idx) 0) c) (combine (seq a (List.length cs)) cs)
  = map (fun '(c, j) => g j c) (combine cs idx).
Proof.
  induction cs as [|c cs IH]; intros a pre idx Ha Hl; [reflexivity|].
  destruct idx as [|j idx]; [discriminate|]. cbn [List.length seq combine map]. f_equal.
  - rewrite app_nth2 by lia. rewrite Ha, Nat.sub_diag. reflexivity.
  - replace (pre ++ j :: idx) with ((pre ++ [j]) ++ idx) by (rewrite <- app_assoc; reflexivity).
    apply IH; [rewrite app_length; simpl; lia|simpl in Hl; lia].
Qed.

Lemma Forall2_len {A B} (P : A -> B -> Prop) a b : Forall2 P a b -> List.length a = List.length b.
Proof. induction 1; simpl; congruence. Qed.

Lemma names_kept (F : nat -> col -> list val) (l : list col) : forall n,
  map (fun x : nat * col => cname (let '(rownr, c) := x in (cname c, KMixed, F rownr c))) (combine (seq n (List.length l)) l)
  = map cname l.
Proof. induction l; intros n; [reflexivity|]. simpl. f_equal. apply IHl. Qed.

(* the rows of the model's result are the picks of the packed columns along the rows of _fullfact *)
Lemma ff_model_rows ig t t' : tcols t <> [] -> all_mixed t = true -> fullfactorial_model ig t = Ok t' ->
  let packed := map (fun c => pack ig (cells c)) (tcols t) in
  let a := fullfact (map (fun cs => zlen (kept ig cs)) packed) in
  trows t' = map (pickZ packed) a /\ map cname (tcols t') = map cname (tcols t) /\ tlen t' = List.length a.
Proof.
  intros Hne Hm H. unfold fullfactorial_model in H. destruct (tcols t) as [|c0 cs0] eqn:Ec; [congruence|].
  rewrite <- Ec in *. rewrite Hm in H. cbn [negb] in H. inversion H; subst t'; clear H. cbv zeta.
  set (packed := map (fun c => pack ig (cells c)) (tcols t)).
  set (a := fullfact (map (fun cs => zlen (kept ig cs)) packed)).
  assert (forall r, In r a -> List.length r = List.length (tcols t)) as Hrow.
  { intros r Hr. unfold a in Hr. apply fullfact_bijection in Hr.
    - apply Forall2_len in Hr. rewrite Hr. unfold packed. rewrite !map_length. reflexivity.
    - apply Forall_forall. intros l Hl. apply in_map_iff in Hl. destruct Hl as [x [E _]]. subst. unfold zlen. lia. }
  repeat split.
  - unfold trows. cbn [tlen tcols]. unfold rows_of.
    rewrite <- (list_as_map_nth (pickZ packed) a []). apply map_ext_in. intros i Hi. apply in_seq in Hi.
    unfold row_at. rewrite !map_map.
    transitivity (map (fun '(rownr, c) => znth (nth rownr ([] ++ nth i a []) 0) (pack ig (cells c)) VNone)
                      (combine (seq 0 (List.length (tcols t))) (tcols t))).
    + apply map_ext. intros [rownr c]. unfold cells at 1. cbn [snd].
      rewrite fill_loop_spec by (try (intros; apply k_ffl_dst_id); apply repeat_length).
      rewrite (nth_indep _ VNone (znth (k_ffl_src (Z.of_nat 0) (nth rownr (nth 0%nat a []) 0)) (pack ig (cells c)) VNone))
        by (rewrite map_length, seq_length; lia).
      rewrite (map_nth (fun i0 => znth (k_ffl_src (Z.of_nat i0) (nth rownr (nth i0 a []) 0)) (pack ig (cells c)) VNone) (seq 0 (List.length a)) 0%nat i).
      rewrite seq_nth by lia. rewrite k_ffl_src_id. reflexivity.
    + rewrite (by_rownr (fun j c => znth j (pack ig (cells c)) VNone) (tcols t) 0%nat [] (nth i a [])) by
        (try reflexivity; apply Hrow; apply nth_In; lia).
      unfold pickZ, packed. clear. generalize (nth i a []). induction (tcols t); intros idx; [reflexivity|].
      destruct idx; [reflexivity|]. simpl. f_equal. apply IHl.
  - cbn [tcols]. rewrite map_map.
    apply (names_kept (fun rownr c => fill_loop (List.length a)
            (fun i : nat => k_ffl_dst (Z.of_nat i) (nth rownr (nth i a []) 0))
            (fun i : nat => znth (k_ffl_src (Z.of_nat i) (nth rownr (nth i a []) 0)) (pack ig (cells c)) VNone)
            (repeat (VStr "") (List.length a))) (tcols t) 0%nat).
Qed.

Lemma Forall2_map_r {A B C} (P : A -> C -> Prop) (f : B -> C) a : forall b,
  Forall2 P a (map f b) -> Forall2 (fun x y => P x (f y)) a b.
Proof.
  induction a; intros [|y b] H; inversion H; subst; constructor; auto.
Qed.

Lemma pickZ_pick ig (cols : list col) idx :
  Forall2 (fun j c => (j < List.length (kept ig (cells c)))%nat) idx cols ->
  pickZ (map (fun c => pack ig (cells c)) cols) (map Z.of_nat idx) = pick (map (fun c => kept ig (cells c)) cols) idx.
Proof.
  induction 1 as [|j c idx cols Hj _ IH]; [reflexivity|].
  unfold pickZ, pick in *. cbn [map combine]. f_equal; [|exact IH].
  unfold znth. replace (Z.of_nat j <? 0) with false by (symmetry; apply Z.ltb_ge; lia).
  rewrite Nat2Z.id. unfold pack. apply app_nth1. exact Hj.
Qed.

(* fullfactorial returns, in some order, exactly the Cartesian product of the non-ignored cells *)
Theorem fullfactorial_cartesian ig t t' :
  tcols t <> [] -> all_mixed t = true -> fullfactorial_model ig t = Ok t' ->
  Permutation (trows t') (fullfactorial_rows ig t)
  /\ map cname (tcols t') = map cname (tcols t)
  /\ tlen t' = List.length (fullfactorial_rows ig t).
Proof.
  intros Hne Hm H. destruct (ff_model_rows ig t t' Hne Hm H) as [Hr [Hn Hl]]. cbv zeta in *.
  set (ls := map (fun c => List.length (kept ig (cells c))) (tcols t)).
  assert (map (fun cs => zlen (kept ig cs)) (map (fun c => pack ig (cells c)) (tcols t)) = map Z.of_nat ls) as Ed.
  { unfold ls. rewrite !map_map. apply map_ext. intros c. rewrite kept_pack. reflexivity. }
  rewrite Ed, fullfact_digits in Hr, Hl.
  set (levs := map (fun c => kept ig (cells c)) (tcols t)).
  assert (trows t' = map (pick levs) (map (digits ls) (seq 0 (prodN ls)))) as Hr2.
  { rewrite Hr, !map_map. apply map_ext_in. intros k Hk. apply in_seq in Hk.
    apply pickZ_pick.
    assert (Forall (fun l => (0 < l)%nat) ls) as Hpos by (apply prodN_pos; lia).
    apply Forall2_map_r. exact (digits_range ls Hpos k). }
  assert (fullfactorial_rows ig t = map (pick levs) (cart (map (seq 0) ls))) as Hc.
  { unfold fullfactorial_rows. change (map (fun c => levels_of ig (cells c)) (tcols t)) with levs.
    rewrite (cart_pick levs). f_equal. f_equal. unfold levs, ls. rewrite !map_map. reflexivity. }
  repeat split.
  - rewrite Hr2, Hc. apply Permutation_map. apply digits_perm_cart.
  - exact Hn.
  - rewrite Hl, Hc, !map_length, seq_length.
    rewrite <- (Permutation_length (digits_perm_cart ls)), map_length, seq_length. reflexivity.
Qed.
