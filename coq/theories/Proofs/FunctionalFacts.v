(* Proofs for C19 (map_, filter_, setcol): the L1 model of Model/Functional.v computes the L0 spec of
   Spec/Functional.v for every table and every user function, plus the laws the property names. *)
From Coq Require Import ZArith NArith List Bool String Lia Arith Permutation Sorted.
From DM Require Import Base.PyVal Spec.Nf Spec.Table Spec.Functional Gen.KFunctional Model.Functional Proofs.ListX.
Import ListNotations.
Open Scope nat_scope.

(* ------------------------------------------------------------------ *)
(* 1. generic facts                                                    *)
(* ------------------------------------------------------------------ *)
Lemma eqb_sym_s (a b : string) : String.eqb a b = String.eqb b a.
Proof.
  destruct (String.eqb a b) eqn:E.
  - apply String.eqb_eq in E. subst. symmetry. apply String.eqb_refl.
  - destruct (String.eqb b a) eqn:E2; [|reflexivity]. apply String.eqb_eq in E2. subst.
    rewrite String.eqb_refl in E. discriminate.
Qed.

Lemma map_res_id {A} (l : list A) : map_res (fun a => Ok a) l = Ok l.
Proof. induction l as [|a l IH]; cbn [map_res bind]; [reflexivity|]. rewrite IH. reflexivity. Qed.

Lemma map_res_ext_in {A B} (f g : A -> res B) l : (forall a, In a l -> f a = g a) -> map_res f l = map_res g l.
Proof.
  induction l as [|a l IH]; intros H; cbn [map_res]; [reflexivity|].
  rewrite (H a (or_introl eq_refl)), IH; [reflexivity|]. intros x Hx. apply H. right. exact Hx.
Qed.

Lemma map_res_map {A B C} (h : A -> B) (g : B -> res C) l : map_res g (map h l) = map_res (fun a => g (h a)) l.
Proof. induction l as [|a l IH]; cbn [map_res map]; [reflexivity|]. rewrite IH. reflexivity. Qed.

Lemma map_res_total {A B} (h : A -> B) l : map_res (fun a => Ok (h a)) l = Ok (map h l).
Proof. induction l as [|a l IH]; cbn [map_res map bind]; [reflexivity|]. rewrite IH. reflexivity. Qed.

Lemma map_res_app {A B} (f : A -> res B) l1 l2 :
  map_res f (l1 ++ l2) = bind (map_res f l1) (fun a => bind (map_res f l2) (fun b => Ok (a ++ b))).
Proof.
  induction l1 as [|x l1 IH]; cbn [map_res app bind].
  - destruct (map_res f l2); reflexivity.
  - destruct (f x) as [y|e]; cbn [bind]; [|reflexivity]. rewrite IH.
    destruct (map_res f l1) as [ys|e]; cbn [bind]; [|reflexivity].
    destruct (map_res f l2) as [zs|e]; cbn [bind]; reflexivity.
Qed.

Lemma map_res_length {A B} (f : A -> res B) l r : map_res f l = Ok r -> List.length r = List.length l.
Proof.
  revert r; induction l as [|a l IH]; intros r H; cbn [map_res] in H.
  - inversion H; reflexivity.
  - destruct (f a) as [b|e]; cbn [bind] in H; [|discriminate].
    destruct (map_res f l) as [bs|e]; cbn [bind] in H; [|discriminate].
    inversion H; subst. cbn [List.length]. rewrite (IH bs eq_refl). reflexivity.
Qed.

(* every failure of map_res is the failure of one element *)
Lemma map_res_raise {A B} (f : A -> res B) l e : map_res f l = Raise e -> exists a, In a l /\ f a = Raise e.
Proof.
  induction l as [|a l IH]; cbn [map_res]; intros H; [discriminate|].
  destruct (f a) as [b|e'] eqn:Ea; cbn [bind] in H.
  - destruct (map_res f l) as [bs|e'] eqn:El; cbn [bind] in H; [discriminate|]. inversion H; subst.
    destruct (IH eq_refl) as [x [Hx Hf]]. exists x. split; [right; exact Hx|exact Hf].
  - inversion H; subst. exists a. split; [left; reflexivity|exact Ea].
Qed.
Lemma map_res_fails {A B} (f : A -> res B) l a e : In a l -> f a = Raise e -> exists e', map_res f l = Raise e'.
Proof.
  induction l as [|x l IH]; intros Hin Hf; [contradiction|]. cbn [map_res].
  destruct Hin as [->|Hin].
  - rewrite Hf. eexists; reflexivity.
  - destruct (f x) as [b|e']; cbn [bind]; [|eexists; reflexivity].
    destruct (IH Hin Hf) as [e' ->]. eexists; reflexivity.
Qed.

Lemma fold_bind_raise {A S} (step : S -> A -> res S) (l : list A) e :
  fold_left (fun acc a => bind acc (fun s => step s a)) l (Raise e) = Raise e.
Proof. induction l as [|a l IH]; cbn [fold_left bind]; [reflexivity|exact IH]. Qed.

(* nf only ever raises TypeError *)
Lemma nf_raise k v e : nf k v = Raise e -> e = TypeError.
Proof.
  destruct k; cbn [nf]; unfold nf_mixed, nf_float, nf_int; destruct (num_of v) as [[z|f]|];
    try (destruct (fl_is_finite f && fl_integral f)); try (destruct (fl_is_finite f)); try discriminate;
    try (intros H; inversion H; reflexivity); destruct v; intros H; inversion H; reflexivity.
Qed.

(* ------------------------------------------------------------------ *)
(* 2. sorted(names) and the canonical form of a dict                   *)
(* ------------------------------------------------------------------ *)
Lemma str_leb_total s t : str_leb s t = true \/ str_leb t s = true.
Proof. unfold str_leb. rewrite (String.compare_antisym s t). destruct (String.compare t s); cbn; auto. Qed.

Fixpoint locally_sorted (l : list string) : Prop :=
  match l with
  | a :: ((b :: _) as r) => str_leb a b = true /\ locally_sorted r
  | _ => True
  end.

Lemma ins_name_sorted x l : locally_sorted l -> locally_sorted (ins_name x l).
Proof.
  induction l as [|a l IH]; intros H; cbn [ins_name]; [exact I|].
  destruct (str_leb x a) eqn:E.
  - cbn [locally_sorted]. split; [exact E|exact H].
  - assert (Hax : str_leb a x = true) by (destruct (str_leb_total x a); congruence).
    destruct l as [|b l].
    + cbn [ins_name locally_sorted]. auto.
    + cbn [locally_sorted] in H. destruct H as [Hab Hs]. specialize (IH Hs). cbn [ins_name] in *.
      destruct (str_leb x b); cbn [locally_sorted]; auto.
Qed.
Lemma sort_names_sorted l : locally_sorted (sort_names l).
Proof. induction l as [|a l IH]; cbn [sort_names fold_right]; [exact I|]. apply ins_name_sorted, IH. Qed.
Lemma sort_sorted_id l : locally_sorted l -> sort_names l = l.
Proof.
  induction l as [|a l IH]; intros H; [reflexivity|].
  change (sort_names (a :: l)) with (ins_name a (sort_names l)).
  destruct l as [|b l]; [reflexivity|]. cbn [locally_sorted] in H. destruct H as [Hab Hs].
  rewrite (IH Hs). cbn [ins_name]. rewrite Hab. reflexivity.
Qed.
Lemma sort_names_idem l : sort_names (sort_names l) = sort_names l.
Proof. apply sort_sorted_id, sort_names_sorted. Qed.

Lemma ins_name_perm x l : Permutation (ins_name x l) (x :: l).
Proof.
  induction l as [|a l IH]; cbn [ins_name]; [apply Permutation_refl|].
  destruct (str_leb x a); [apply Permutation_refl|].
  eapply Permutation_trans; [apply perm_skip, IH|apply perm_swap].
Qed.
Lemma sort_names_perm l : Permutation (sort_names l) l.
Proof.
  induction l as [|a l IH]; [apply Permutation_refl|].
  change (sort_names (a :: l)) with (ins_name a (sort_names l)).
  eapply Permutation_trans; [apply ins_name_perm|apply perm_skip, IH].
Qed.
Lemma sort_names_NoDup l : NoDup l -> NoDup (sort_names l).
Proof. intros H. eapply Permutation_NoDup; [apply Permutation_sym, sort_names_perm|exact H]. Qed.
Lemma sort_names_in x l : In x (sort_names l) <-> In x l.
Proof. split; apply Permutation_in; [apply sort_names_perm|apply Permutation_sym, sort_names_perm]. Qed.

Lemma existsb_eqb_in (k : string) l : existsb (String.eqb k) l = true <-> In k l.
Proof.
  rewrite existsb_exists. split.
  - intros [x [Hx He]]. apply String.eqb_eq in He. subst. exact Hx.
  - intros H. exists k. split; [exact H|apply String.eqb_refl].
Qed.
Lemma existsb_sort (k : string) l : existsb (String.eqb k) (sort_names l) = existsb (String.eqb k) l.
Proof.
  destruct (existsb (String.eqb k) l) eqn:E.
  - apply (proj2 (existsb_eqb_in _ _)). apply (proj2 (sort_names_in _ _)). apply (proj1 (existsb_eqb_in _ _)). exact E.
  - destruct (existsb (String.eqb k) (sort_names l)) eqn:E2; [|reflexivity].
    apply (proj1 (existsb_eqb_in _ _)) in E2. apply (proj1 (sort_names_in _ _)) in E2.
    apply (proj2 (existsb_eqb_in _ _)) in E2. congruence.
Qed.

(* sorting the items of a dict by key = listing the items over the sorted keys *)
Lemma ins_item_map {A} (h : string -> A) x l :
  ins_item (x, h x) (map (fun n => (n, h n)) l) = map (fun n => (n, h n)) (ins_name x l).
Proof.
  induction l as [|a l IH]; cbn [ins_item ins_name map fst]; [reflexivity|].
  destruct (str_leb x a); cbn [map]; [reflexivity|]. rewrite IH. reflexivity.
Qed.
Lemma canon_map {A} (h : string -> A) l : canon (map (fun n => (n, h n)) l) = map (fun n => (n, h n)) (sort_names l).
Proof.
  induction l as [|a l IH]; [reflexivity|].
  change (canon (map (fun n => (n, h n)) (a :: l))) with (ins_item (a, h a) (canon (map (fun n => (n, h n)) l))).
  rewrite IH. apply ins_item_map.
Qed.

(* ------------------------------------------------------------------ *)
(* 3. the ordered column dict                                          *)
(* ------------------------------------------------------------------ *)
Lemma find_col_some n cs c : find_col n cs = Some c -> In c cs /\ cname c = n.
Proof.
  unfold find_col. intros H. apply find_some in H. destruct H as [Hin He]. apply String.eqb_eq in He. auto.
Qed.
Lemma find_col_none n cs : find_col n cs = None -> ~ In n (map cname cs).
Proof.
  unfold find_col. intros H Hin. apply in_map_iff in Hin. destruct Hin as [c [Hc Hin]].
  pose proof (find_none _ _ H c Hin) as Hf. cbn in Hf. rewrite <- Hc, String.eqb_refl in Hf. discriminate.
Qed.
Lemma has_col_true n cs : has_col n cs = true <-> In n (map cname cs).
Proof.
  unfold has_col. split.
  - destruct (find_col n cs) as [c|] eqn:E; [|discriminate]. intros _.
    apply find_col_some in E. destruct E as [Hin <-]. apply in_map. exact Hin.
  - intros Hin. destruct (find_col n cs) eqn:E; [reflexivity|]. apply find_col_none in E. contradiction.
Qed.
Lemma has_col_existsb n cs : existsb (String.eqb n) (map cname cs) = has_col n cs.
Proof.
  destruct (has_col n cs) eqn:E.
  - apply (proj2 (existsb_eqb_in _ _)). apply (proj1 (has_col_true _ _)). exact E.
  - destruct (existsb (String.eqb n) (map cname cs)) eqn:E2; [|reflexivity].
    apply (proj1 (existsb_eqb_in _ _)) in E2. apply (proj2 (has_col_true _ _)) in E2. congruence.
Qed.

Lemma find_col_app_l n cs ds c : find_col n cs = Some c -> find_col n (cs ++ ds) = Some c.
Proof.
  unfold find_col. induction cs as [|x cs IH]; cbn [find app]; [discriminate|].
  destruct (String.eqb n (cname x)); auto.
Qed.
Lemma find_col_app_r n cs ds : find_col n cs = None -> find_col n (cs ++ ds) = find_col n ds.
Proof.
  unfold find_col. induction cs as [|x cs IH]; cbn [find app]; [reflexivity|].
  destruct (String.eqb n (cname x)); [discriminate|auto].
Qed.

Lemma put_new c cs : has_col (cname c) cs = false -> put c cs = cs ++ [c].
Proof.
  unfold has_col, find_col. induction cs as [|x cs IH]; cbn [put find app]; [reflexivity|].
  destruct (String.eqb (cname c) (cname x)); [discriminate|]. intros H. rewrite (IH H). reflexivity.
Qed.
Lemma put_names c cs : has_col (cname c) cs = true -> map cname (put c cs) = map cname cs.
Proof.
  unfold has_col, find_col. induction cs as [|x cs IH]; cbn [put find map]; [discriminate|].
  destruct (String.eqb (cname c) (cname x)) eqn:E; cbn [map].
  - intros _. apply String.eqb_eq in E. rewrite E. reflexivity.
  - intros H. rewrite (IH H). reflexivity.
Qed.
Lemma find_col_put c cs : find_col (cname c) (put c cs) = Some c.
Proof.
  unfold find_col. induction cs as [|x cs IH]; cbn [put find].
  - rewrite String.eqb_refl. reflexivity.
  - destruct (String.eqb (cname c) (cname x)) eqn:E; cbn [find].
    + rewrite String.eqb_refl. reflexivity.
    + rewrite E. exact IH.
Qed.
Lemma put_put c1 c0 cs : cname c1 = cname c0 -> put c1 (put c0 cs) = put c1 cs.
Proof.
  intros Hn. induction cs as [|x cs IH]; cbn [put].
  - rewrite Hn, String.eqb_refl. reflexivity.
  - destruct (String.eqb (cname c0) (cname x)) eqn:E; cbn [put]; rewrite Hn.
    + rewrite String.eqb_refl, E. reflexivity.
    + rewrite E, IH. reflexivity.
Qed.
Lemma put_over_new c1 c0 cs : cname c1 = cname c0 -> has_col (cname c0) cs = false -> put c1 (cs ++ [c0]) = cs ++ [c1].
Proof.
  intros Hn Hh. rewrite <- (put_new c0 cs Hh). rewrite put_put by exact Hn. apply put_new. rewrite Hn. exact Hh.
Qed.
Lemma put_length_has c cs : has_col (cname c) cs = true -> List.length (put c cs) = List.length cs.
Proof. intros H. rewrite <- (map_length cname), put_names, map_length; auto. Qed.

Lemma lookup_none {A} k (d : list (string * A)) : ~ In k (map fst d) -> lookup k d = None.
Proof.
  induction d as [|[k' v] d IH]; cbn [lookup map fst]; [reflexivity|]. intros H.
  destruct (String.eqb k k') eqn:E.
  - apply String.eqb_eq in E. subst. exfalso. apply H. left. reflexivity.
  - apply IH. intros Hin. apply H. right. exact Hin.
Qed.

(* replacing the one column named k while mapping: h1 on the old list = h2 on the new list *)
Lemma map_res_put {B} (h1 h2 : col -> res B) k c c' cs :
  NoDup (map cname cs) -> find_col k cs = Some c -> cname c' = k ->
  h1 c = h2 c' -> (forall y, cname y <> k -> h1 y = h2 y) ->
  map_res h1 cs = map_res h2 (put c' cs).
Proof.
  intros Hnd Hf Hk Hc Ho. revert Hnd Hf. unfold find_col.
  induction cs as [|x cs IH]; cbn [find map put]; [discriminate|]. intros Hnd Hf.
  apply NoDup_cons_iff in Hnd. destruct Hnd as [Hnotin Hnd']. rewrite Hk.
  destruct (String.eqb k (cname x)) eqn:E.
  - injection Hf as Hxc. rewrite Hxc. cbn [map_res]. rewrite Hc. f_equal.
    apply String.eqb_eq in E.
    erewrite map_res_ext_in; [reflexivity|]. intros y Hy. apply Ho. intros Hyk.
    apply Hnotin. rewrite <- E, <- Hyk. apply in_map. exact Hy.
  - cbn [map_res]. rewrite (IH Hnd' Hf). rewrite Ho; [reflexivity|].
    intros Hx. rewrite Hx, String.eqb_refl in E. discriminate.
Qed.

(* ------------------------------------------------------------------ *)
(* 4. dict.update keeps keys distinct                                  *)
(* ------------------------------------------------------------------ *)
Lemma dict_set_keys {A} k (v : A) d :
  map fst (dict_set k v d) = if existsb (String.eqb k) (map fst d) then map fst d else map fst d ++ [k].
Proof.
  induction d as [|[k' v'] d IH]; cbn [dict_set map fst existsb]; [reflexivity|].
  destruct (String.eqb k k') eqn:E; cbn [map fst orb]; [reflexivity|]. rewrite IH.
  destruct (existsb (String.eqb k) (map fst d)); reflexivity.
Qed.
Lemma dict_set_NoDup {A} k (v : A) d : NoDup (map fst d) -> NoDup (map fst (dict_set k v d)).
Proof.
  intros H. rewrite dict_set_keys. destruct (existsb (String.eqb k) (map fst d)) eqn:E; [exact H|].
  apply NoDup_rev in H. rewrite <- (rev_involutive (map fst d ++ [k])). apply NoDup_rev.
  rewrite rev_app_distr. cbn [rev app]. constructor; [|exact H].
  intros Hin. apply in_rev in Hin. apply (proj2 (existsb_eqb_in _ _)) in Hin. congruence.
Qed.
Lemma dict_update_NoDup {A} (u d : list (string * A)) : NoDup (map fst d) -> NoDup (map fst (dict_update d u)).
Proof.
  unfold dict_update. revert d. induction u as [|[k v] u IH]; intros d H; cbn [fold_left]; [exact H|].
  apply IH. cbn [fst snd]. apply dict_set_NoDup. exact H.
Qed.

(* ------------------------------------------------------------------ *)
(* 5. map_ on a DataMatrix: the per-item write-back of one row          *)
(* ------------------------------------------------------------------ *)
Definition add1 (k : string) (T : tab) : tab :=
  if has_col k (tcols T) then T else with_cols T (tcols T ++ [new_col (tlen T) k]).
Definition write1 (T : tab) (i : nat) (k : string) (v : pyv) : res tab :=
  match find_col k (tcols T) with
  | None => Raise AttributeError
  | Some c => bind (nf (ckind c) v) (fun x => Ok (with_cols T (put (with_cells c (set_nth i x (ccells c))) (tcols T))))
  end.
Definition lift (ids : list N) (srt : bool) (r : res tab) : res ltab :=
  match r with Ok T => Ok {| l_ids := ids; l_sorted := srt; l_tab := T |} | Raise e => Raise e end.

Lemma add_missing_cons k ks T : add_missing (k :: ks) T = add_missing ks (add1 k T).
Proof. reflexivity. Qed.
Lemma add1_tlen k T : tlen (add1 k T) = tlen T.
Proof. unfold add1. destruct (has_col k (tcols T)); reflexivity. Qed.
Lemma add1_tdflt k T : tdflt (add1 k T) = tdflt T.
Proof. unfold add1. destruct (has_col k (tcols T)); reflexivity. Qed.
Lemma add_missing_tlen ks T : tlen (add_missing ks T) = tlen T.
Proof. revert T; induction ks as [|k ks IH]; intros T; [reflexivity|]. rewrite add_missing_cons, IH. apply add1_tlen. Qed.
Lemma add_missing_tdflt ks T : tdflt (add_missing ks T) = tdflt T.
Proof. revert T; induction ks as [|k ks IH]; intros T; [reflexivity|]. rewrite add_missing_cons, IH. apply add1_tdflt. Qed.
Lemma add1_has k T : has_col k (tcols (add1 k T)) = true.
Proof.
  unfold add1. destruct (has_col k (tcols T)) eqn:E; [exact E|]. cbn [tcols with_cols].
  apply (proj2 (has_col_true _ _)). rewrite map_app. apply in_or_app. right. left. reflexivity.
Qed.
Lemma add1_NoDup k T : NoDup (tab_names T) -> NoDup (tab_names (add1 k T)).
Proof.
  unfold add1, tab_names. destruct (has_col k (tcols T)) eqn:E; [auto|]. intros H. cbn [tcols with_cols].
  rewrite map_app. cbn [map new_col cname].
  apply NoDup_rev in H. rewrite <- (rev_involutive (map cname (tcols T) ++ [k])). apply NoDup_rev.
  rewrite rev_app_distr. cbn [rev app]. constructor; [|exact H].
  intros Hin. apply in_rev in Hin. apply (proj2 (has_col_true _ _)) in Hin. congruence.
Qed.
Lemma add_missing_NoDup ks T : NoDup (tab_names T) -> NoDup (tab_names (add_missing ks T)).
Proof. revert T; induction ks as [|k ks IH]; intros T H; [exact H|]. rewrite add_missing_cons. apply IH, add1_NoDup, H. Qed.

(* the columns add_missing appends depend only on the names present and the row count *)
Fixpoint fresh_cols (ks : list string) (names : list string) (n : nat) : list col :=
  match ks with
  | [] => []
  | k :: r => if existsb (String.eqb k) names then fresh_cols r names n
              else new_col n k :: fresh_cols r (names ++ [k]) n
  end.
Lemma add_missing_cols ks T : tcols (add_missing ks T) = tcols T ++ fresh_cols ks (tab_names T) (tlen T).
Proof.
  revert T; induction ks as [|k ks IH]; intros T; cbn [fresh_cols]; [cbn; rewrite app_nil_r; reflexivity|].
  rewrite add_missing_cons, IH. unfold add1, tab_names. rewrite has_col_existsb.
  destruct (has_col k (tcols T)); [reflexivity|]. cbn [tcols tlen with_cols]. rewrite map_app, <- app_assoc. reflexivity.
Qed.
Lemma fresh_cols_names ks names n c : In c (fresh_cols ks names n) -> In (cname c) ks.
Proof.
  revert names; induction ks as [|k ks IH]; intros names; cbn [fresh_cols]; [contradiction|].
  destruct (existsb (String.eqb k) names).
  - intros H. right. eapply IH, H.
  - intros [<-|H]; [left; reflexivity|right; eapply IH, H].
Qed.

Lemma set_cell_of_name d j c c' : set_cell_of d j c = Ok c' -> cname c' = cname c.
Proof.
  unfold set_cell_of. destruct (lookup (cname c) d) as [v|].
  - destruct (nf (ckind c) v); cbn [bind]; intros H; inversion H; reflexivity.
  - intros H; inversion H; reflexivity.
Qed.
Lemma set_cell_of_raise d j c e : set_cell_of d j c = Raise e -> e = TypeError.
Proof.
  unfold set_cell_of. destruct (lookup (cname c) d) as [v|]; [|discriminate].
  destruct (nf (ckind c) v) eqn:E; cbn [bind]; [discriminate|]. intros H; inversion H; subst. eapply nf_raise, E.
Qed.
Lemma set_row_raise T j d e : set_row T j d = Raise e -> e = TypeError.
Proof.
  unfold set_row. destruct (map_res (set_cell_of d j) (tcols T)) eqn:E; cbn [bind]; [discriminate|].
  intros H; inversion H; subst. apply map_res_raise in E. destruct E as [c [_ Hc]]. eapply set_cell_of_raise, Hc.
Qed.
Lemma map_res_names d j cs cs' : map_res (set_cell_of d j) cs = Ok cs' -> map cname cs' = map cname cs.
Proof.
  revert cs'; induction cs as [|c cs IH]; intros cs' H; cbn [map_res] in H.
  - inversion H; reflexivity.
  - destruct (set_cell_of d j c) as [c'|] eqn:Ec; cbn [bind] in H; [|discriminate].
    destruct (map_res (set_cell_of d j) cs) as [r|]; cbn [bind] in H; [|discriminate].
    inversion H; subst. cbn [map]. rewrite (IH r eq_refl), (set_cell_of_name _ _ _ _ Ec). reflexivity.
Qed.

Lemma set_cell_of_skip k v d j y : cname y <> k -> set_cell_of ((k, v) :: d) j y = set_cell_of d j y.
Proof.
  intros H. unfold set_cell_of. cbn [lookup]. destruct (String.eqb (cname y) k) eqn:E; [|reflexivity].
  apply String.eqb_eq in E. contradiction.
Qed.

(* the inner loop `for col, val in d.items(): row[col] = val` writes the whole row at once *)
Lemma inner_fold i d : forall T,
  NoDup (map fst d) -> NoDup (tab_names T) ->
  fold_left (fun acc kv => bind acc (fun T' => write1 (add1 (fst kv) T') i (fst kv) (snd kv))) d (Ok T)
  = set_row (add_missing (map fst d) T) i d.
Proof.
  induction d as [|[k v] d IH]; intros T Hd HT.
  - cbn [fold_left map add_missing]. unfold set_row.
    rewrite (map_res_ext_in _ (fun c => Ok c)); [rewrite map_res_id; cbn [bind]; destruct T; reflexivity|].
    intros c _. reflexivity.
  - cbn [fold_left map fst snd bind]. rewrite add_missing_cons.
    cbn [map fst] in Hd. apply NoDup_cons_iff in Hd. destruct Hd as [Hk Hd].
    set (T1 := add1 k T).
    assert (HT1 : NoDup (tab_names T1)) by (apply add1_NoDup, HT).
    pose proof (add1_has k T) as Hhas. fold T1 in Hhas.
    unfold write1. unfold has_col in Hhas. destruct (find_col k (tcols T1)) as [c|] eqn:Ef; [|discriminate].
    destruct (find_col_some _ _ _ Ef) as [Hcin Hcn].
    assert (Hlook : set_cell_of ((k, v) :: d) i c
                    = bind (nf (ckind c) v) (fun x => Ok (with_cells c (set_nth i x (ccells c))))).
    { unfold set_cell_of. cbn [lookup]. rewrite Hcn, String.eqb_refl. reflexivity. }
    destruct (nf (ckind c) v) as [x|e] eqn:En; cbn [bind] in *.
    + (* the cell is accepted *)
      set (c' := with_cells c (set_nth i x (ccells c))).
      set (T2 := with_cols T1 (put c' (tcols T1))).
      assert (Hn2 : tab_names T2 = tab_names T1).
      { unfold T2, tab_names. cbn [tcols with_cols]. apply put_names. unfold c'. cbn [cname with_cells]. rewrite Hcn.
        unfold has_col. rewrite Ef. reflexivity. }
      rewrite IH; [|exact Hd|rewrite Hn2; exact HT1].
      unfold set_row. rewrite !add_missing_cols. rewrite Hn2. change (tlen T2) with (tlen T1).
      change (tcols T2) with (put c' (tcols T1)).
      rewrite !map_res_app.
      rewrite (map_res_put (set_cell_of ((k, v) :: d) i) (set_cell_of d i) k c c' (tcols T1)); auto.
      * rewrite (map_res_ext_in (set_cell_of ((k, v) :: d) i) (set_cell_of d i) (fresh_cols _ _ _)).
        -- destruct (map_res (set_cell_of d i) (put c' (tcols T1))) as [a|]; cbn [bind]; [|reflexivity].
           destruct (map_res (set_cell_of d i) (fresh_cols (map fst d) (tab_names T1) (tlen T1))) as [b|]; cbn [bind]; [|reflexivity].
           f_equal. unfold with_cols. rewrite !add_missing_tlen, !add_missing_tdflt. reflexivity.
        -- intros y Hy. apply set_cell_of_skip. intros Hyk. apply fresh_cols_names in Hy. rewrite Hyk in Hy. contradiction.
      * rewrite Hlook. unfold set_cell_of. unfold c' at 1. cbn [cname with_cells]. rewrite Hcn.
        rewrite (lookup_none k d Hk). reflexivity.
      * intros y Hy. apply set_cell_of_skip, Hy.
    + (* the column type rejects the value: both sides raise TypeError *)
      rewrite fold_bind_raise. pose proof (nf_raise _ _ _ En) as ->.
      assert (Hin : In c (tcols (add_missing (map fst d) T1))).
      { rewrite add_missing_cols. apply in_or_app. left. exact Hcin. }
      destruct (map_res_fails (set_cell_of ((k, v) :: d) i) _ c TypeError Hin Hlook) as [e' He'].
      assert (Hr : set_row (add_missing (map fst d) T1) i ((k, v) :: d) = Raise e').
      { unfold set_row. rewrite He'. reflexivity. }
      rewrite Hr. f_equal. symmetry. eapply set_row_raise, Hr.
Qed.

(* ------------------------------------------------------------------ *)
(* 6. Row.__setitem__ (L1, on the regenerated scripts) = add1 + write1  *)
(* ------------------------------------------------------------------ *)
Definition mk (ids : list N) (srt : bool) (T : tab) : ltab := {| l_ids := ids; l_sorted := srt; l_tab := T |}.

Lemma column_names_existsb k t : existsb (String.eqb k) (l_column_names t) = has_col k (l_cols t).
Proof.
  unfold l_column_names, k_to_list. destruct (l_sorted t); [rewrite existsb_sort|]; apply has_col_existsb.
Qed.

Lemma write_cell_spec ids srt T i k v :
  l_write_cell (mk ids srt T) i k v = lift ids srt (write1 T i k v).
Proof.
  unfold l_write_cell, write1, l_cols. cbn [l_tab mk].
  destruct (find_col k (tcols T)) as [c|]; [|reflexivity].
  cbv [k_col_setitem eff_cons]. destruct (nf (ckind c) v); reflexivity.
Qed.

Lemma row_set_spec ids srt T i k v :
  tlen T = List.length ids -> tdflt T = KMixed ->
  l_row_set (mk ids srt T) i k v = lift ids srt (write1 (add1 k T) i k v).
Proof.
  intros Hlen Hd. unfold l_row_set. rewrite column_names_existsb. unfold l_cols. cbn [l_tab mk].
  unfold add1. destruct (has_col k (tcols T)) eqn:Eh; cbv [k_row_setitem eff_cons negb].
  - apply write_cell_spec.
  - (* the column is created by dm[key] = '' first *)
    unfold l_set_col. cbv [k_set_col_head eff_cons andb]. unfold l_cols. cbn [l_tab mk].
    rewrite Eh. cbv [k_set_col_tail eff_cons negb].
    unfold l_fill, l_put_col, l_with_tab, l_cols, l_len. cbn [l_tab l_ids l_sorted mk tcols with_cols tdflt tlen].
    rewrite Hd.
    assert (Hnew : has_col (cname (empty_col k KMixed (List.length ids))) (tcols T) = false) by exact Eh.
    rewrite (put_new _ _ Hnew).
    rewrite (find_col_app_r k (tcols T)); [|unfold has_col in Eh; destruct (find_col k (tcols T)); [discriminate|reflexivity]].
    unfold find_col. cbn [find empty_col cname]. rewrite String.eqb_refl.
    cbn [rhs_of rhs_cells empty_col ckind ccells cname]. rewrite repeat_length.
    change (nf KMixed default_value) with (Ok (VStr "")).
    cbn [bind with_cells cname ckind ccells with_cols tlen tdflt tcols].
    rewrite (put_over_new (with_cells (empty_col k KMixed (List.length ids)) (repeat (VStr "") (List.length ids)))
                          (empty_col k KMixed (List.length ids)) (tcols T) eq_refl Hnew).
    change (with_cells (empty_col k KMixed (List.length ids)) (repeat (VStr "") (List.length ids)))
      with (new_col (List.length ids) k).
    change {| l_ids := ids; l_sorted := srt;
              l_tab := with_cols (with_cols T (tcols T ++ [empty_col k KMixed (List.length ids)]))
                                 (tcols T ++ [new_col (List.length ids) k]) |}
      with (mk ids srt (with_cols T (tcols T ++ [new_col (List.length ids) k]))).
    rewrite write_cell_spec. rewrite Hlen. reflexivity.
Qed.

(* transporting a fold over the table state through `lift` *)
Lemma fold_lift {A} (Inv : tab -> Prop) (Q : A -> Prop) ids srt
      (stepL : ltab -> A -> res ltab) (stepT : tab -> A -> res tab) :
  (forall T a, Inv T -> Q a -> stepL (mk ids srt T) a = lift ids srt (stepT T a)) ->
  (forall T a T', Inv T -> Q a -> stepT T a = Ok T' -> Inv T') ->
  forall l T, Inv T -> Forall Q l ->
    fold_left (fun acc a => bind acc (fun s => stepL s a)) l (Ok (mk ids srt T))
    = lift ids srt (fold_left (fun acc a => bind acc (fun s => stepT s a)) l (Ok T)).
Proof.
  intros Hstep Hinv. induction l as [|a l IH]; intros T HT HQ; cbn [fold_left bind]; [reflexivity|].
  inversion HQ as [|? ? Ha Hl]; subst. rewrite (Hstep T a HT Ha).
  destruct (stepT T a) as [T'|e] eqn:E; cbn [lift].
  - apply IH; [eapply Hinv; eauto|exact Hl].
  - rewrite !fold_bind_raise. reflexivity.
Qed.

Lemma write1_inv T i k v T' :
  write1 T i k v = Ok T' -> tlen T' = tlen T /\ tdflt T' = tdflt T /\ tab_names T' = tab_names T.
Proof.
  unfold write1. destruct (find_col k (tcols T)) as [c|] eqn:Ef; [|discriminate].
  destruct (nf (ckind c) v); cbn [bind]; [|discriminate]. intros H; inversion H; subst.
  cbn [tlen tdflt with_cols]. repeat split. unfold tab_names. cbn [tcols].
  apply put_names. cbn [cname with_cells]. destruct (find_col_some _ _ _ Ef) as [_ ->]. unfold has_col. rewrite Ef. reflexivity.
Qed.

Lemma getrow_ok t i : i < l_len t -> l_getrow t i = Ok i.
Proof.
  intros H. unfold l_getrow, k_getrow.
  assert (E : (Z.geb (Z.of_nat i) (Z.of_nat (l_len t)) || Z.ltb (Z.of_nat i) (Z.opp (Z.of_nat (l_len t))))%bool = false).
  { apply orb_false_iff. split; [rewrite Z.geb_leb; apply Z.leb_gt; lia|apply Z.ltb_ge; lia]. }
  rewrite E. reflexivity.
Qed.

Lemma row_items_sorted ids T i : l_row_items (mk ids true T) i = read_row T i.
Proof. reflexivity. Qed.
Lemma canon_read_row T i : canon (read_row T i) = read_row T i.
Proof. unfold read_row. rewrite canon_map, sort_names_idem. reflexivity. Qed.
Lemma canon_row_items t i : canon (l_row_items t i) = read_row (l_tab t) i.
Proof.
  unfold l_row_items, l_column_names, k_to_list, read_row, l_row_get, l_cols.
  destruct (l_sorted t); rewrite canon_map; [rewrite sort_names_idem|]; reflexivity.
Qed.
Lemma read_row_keys T i : map fst (read_row T i) = sort_names (tab_names T).
Proof. unfold read_row. rewrite map_map. cbn [fst]. apply map_id. Qed.
Lemma row_dict_keys r : map fst (row_dict r) = map fst r.
Proof. unfold row_dict. rewrite map_map. reflexivity. Qed.

Lemma nth_set_nth_same {A} i (x d : A) l : i < List.length l -> nth i (set_nth i x l) d = x.
Proof. revert i; induction l as [|a l IH]; intros [|i] H; cbn [set_nth nth List.length] in *; try lia; auto. apply IH. lia. Qed.
Lemma nth_set_nth_other {A} i j (x d : A) l : i <> j -> nth j (set_nth i x l) d = nth j l d.
Proof.
  revert i j; induction l as [|a l IH]; intros [|i] [|j] H; cbn [set_nth nth]; try reflexivity; try lia.
  apply IH. lia.
Qed.
Lemma dict_update_keys_incl {A} (u d : list (string * A)) k :
  In k (map fst (dict_update d u)) -> In k (map fst d) \/ In k (map fst u).
Proof.
  unfold dict_update. revert d; induction u as [|[k' v] u IH]; intros d H; cbn [fold_left map fst snd] in *; [auto|].
  destruct (IH _ H) as [H1|H1]; [|right; right; exact H1]. rewrite dict_set_keys in H1.
  destruct (existsb (String.eqb k') (map fst d)); [left; exact H1|]. apply in_app_or in H1. destruct H1 as [H1|H1].
  - left. exact H1.
  - right. left. destruct H1 as [H1|[]]. exact H1.
Qed.
Lemma dict_update_keys_keep {A} (u d : list (string * A)) k :
  In k (map fst d) -> In k (map fst (dict_update d u)).
Proof.
  unfold dict_update. revert d; induction u as [|[k' v] u IH]; intros d H; cbn [fold_left fst snd]; [exact H|].
  apply IH. rewrite dict_set_keys. destruct (existsb (String.eqb k') (map fst d)); [exact H|]. apply in_or_app. auto.
Qed.
Lemma lookup_in {A} k (d : list (string * A)) : In k (map fst d) -> exists v, lookup k d = Some v.
Proof.
  induction d as [|[k' v] d IH]; cbn [map fst lookup]; [contradiction|]. intros [->|H].
  - rewrite String.eqb_refl. eauto.
  - destruct (String.eqb k k'); [eauto|exact (IH H)].
Qed.
Lemma find_col_in_names n cs : In n (map cname cs) -> exists c, find_col n cs = Some c.
Proof.
  intros H. apply (proj2 (has_col_true _ _)) in H. unfold has_col in H. destruct (find_col n cs); [eauto|discriminate].
Qed.
Lemma add_missing_noop ks T : (forall k, In k ks -> In k (tab_names T)) -> add_missing ks T = T.
Proof.
  induction ks as [|k ks IH]; intros H; [reflexivity|]. rewrite add_missing_cons.
  assert (E : add1 k T = T).
  { unfold add1. rewrite (proj2 (has_col_true k (tcols T))); [reflexivity|]. apply H. left. reflexivity. }
  rewrite E. apply IH. intros k' Hk'. apply H. right. exact Hk'.
Qed.
Lemma map_res_find d j cs cs' n c :
  map_res (set_cell_of d j) cs = Ok cs' -> find_col n cs = Some c ->
  exists c', find_col n cs' = Some c' /\ set_cell_of d j c = Ok c'.
Proof.
  unfold find_col. revert cs'; induction cs as [|x cs IH]; intros cs' H Hf; cbn [map_res find] in *; [discriminate|].
  destruct (set_cell_of d j x) as [x'|] eqn:Ex; cbn [bind] in H; [|discriminate].
  destruct (map_res (set_cell_of d j) cs) as [r|] eqn:Er; cbn [bind] in H; [|discriminate].
  inversion H; subst. cbn [find]. rewrite (set_cell_of_name _ _ _ _ Ex).
  destruct (String.eqb n (cname x)).
  - inversion Hf; subst. eauto.
  - apply (IH r eq_refl Hf).
Qed.

(* --- the row dict of the source in column_names order vs. in canonical order: same lookups, same new columns *)
Lemma add_missing_app a b T : add_missing (a ++ b) T = add_missing b (add_missing a T).
Proof. unfold add_missing. apply fold_left_app. Qed.
Lemma add_missing_names_incl ks T : incl (tab_names T) (tab_names (add_missing ks T)).
Proof. unfold tab_names. rewrite add_missing_cols, map_app. apply incl_appl, incl_refl. Qed.
Lemma add_missing_has ks : forall T k, In k ks -> In k (tab_names (add_missing ks T)).
Proof.
  induction ks as [|a ks IH]; intros T k H; [contradiction|]. rewrite add_missing_cons. destruct H as [->|H]; [|apply IH, H].
  apply add_missing_names_incl. apply (proj1 (has_col_true _ _)). apply add1_has.
Qed.
Lemma add_missing_dict_set {A} k (v : A) d T :
  add_missing (map fst (dict_set k v d)) T = add_missing (map fst d ++ [k]) T.
Proof.
  rewrite dict_set_keys. destruct (existsb (String.eqb k) (map fst d)) eqn:E; [|reflexivity].
  rewrite add_missing_app. cbn [add_missing fold_left]. fold (add_missing (map fst d) T).
  rewrite (proj2 (has_col_true _ _)); [reflexivity|]. apply add_missing_has. apply (proj1 (existsb_eqb_in _ _)), E.
Qed.
Lemma add_missing_update {A} (u d : list (string * A)) T :
  add_missing (map fst (dict_update d u)) T = add_missing (map fst d ++ map fst u) T.
Proof.
  unfold dict_update. revert d; induction u as [|[k v] u IH]; intros d; cbn [fold_left map fst snd]; [rewrite app_nil_r; reflexivity|].
  rewrite IH, add_missing_app, add_missing_dict_set, <- add_missing_app, <- app_assoc. reflexivity.
Qed.
Lemma add_missing_update_known {A} (u d : list (string * A)) T :
  (forall k, In k (map fst d) -> In k (tab_names T)) ->
  add_missing (map fst (dict_update d u)) T = add_missing (map fst u) T.
Proof. intros H. rewrite add_missing_update, add_missing_app, (add_missing_noop _ _ H). reflexivity. Qed.

Lemma lookup_dict_set {A} k k' (v : A) d : lookup k (dict_set k' v d) = if String.eqb k k' then Some v else lookup k d.
Proof.
  induction d as [|[k0 v0] d IH]; cbn [dict_set lookup]; [reflexivity|].
  destruct (String.eqb k' k0) eqn:E0; cbn [lookup].
  - apply String.eqb_eq in E0. subst k0. destruct (String.eqb k k'); reflexivity.
  - rewrite IH. destruct (String.eqb k k0) eqn:E1; [|reflexivity]. destruct (String.eqb k k') eqn:E2; [|reflexivity].
    apply String.eqb_eq in E1, E2. subst. rewrite String.eqb_refl in E0. discriminate.
Qed.
Lemma lookup_update_ext {A} (u d1 d2 : list (string * A)) k :
  lookup k d1 = lookup k d2 -> lookup k (dict_update d1 u) = lookup k (dict_update d2 u).
Proof.
  unfold dict_update. revert d1 d2; induction u as [|[k' v] u IH]; intros d1 d2 H; cbn [fold_left fst snd]; [exact H|].
  apply IH. rewrite !lookup_dict_set, H. reflexivity.
Qed.
Lemma lookup_map_key {A} (h : string -> A) k l :
  lookup k (map (fun n => (n, h n)) l) = if existsb (String.eqb k) l then Some (h k) else None.
Proof.
  induction l as [|a l IH]; cbn [map lookup existsb]; [reflexivity|].
  destruct (String.eqb k a) eqn:E; cbn [orb]; [apply String.eqb_eq in E; subst; reflexivity|exact IH].
Qed.
Lemma set_row_ext T j d1 d2 : (forall k, lookup k d1 = lookup k d2) -> set_row T j d1 = set_row T j d2.
Proof.
  intros H. unfold set_row. rewrite (map_res_ext_in (set_cell_of d1 j) (set_cell_of d2 j)); [reflexivity|].
  intros c _. unfold set_cell_of. rewrite H. reflexivity.
Qed.
Lemma row_dict_map (w : string -> val) l :
  row_dict (map (fun n => (n, w n)) l) = map (fun n => (n, pyv_of_val (w n))) l.
Proof. unfold row_dict. rewrite map_map. reflexivity. Qed.
Lemma column_names_in k t : In k (l_column_names t) <-> In k (tab_names (l_tab t)).
Proof. unfold l_column_names, k_to_list. destruct (l_sorted t); [apply sort_names_in|reflexivity]. Qed.
Lemma column_names_NoDup t : NoDup (tab_names (l_tab t)) -> NoDup (l_column_names t).
Proof. unfold l_column_names, k_to_list. destruct (l_sorted t); [apply sort_names_NoDup|auto]. Qed.

(* the state of the copy while map_ runs *)
Definition map_inv (n : nat) (src T : tab) : Prop :=
  tlen T = n /\ tdflt T = KMixed /\ NoDup (tab_names T) /\ incl (tab_names src) (tab_names T).

Lemma set_row_inv n src T j d T' : map_inv n src T -> set_row T j d = Ok T' -> map_inv n src T'.
Proof.
  unfold set_row, map_inv. intros [Hl [Hd [Hn Hi]]]. destruct (map_res (set_cell_of d j) (tcols T)) as [cs|] eqn:E; cbn [bind]; [|discriminate].
  intros H; inversion H; subst. cbn [tlen tdflt with_cols]. unfold tab_names in *. cbn [tcols with_cols].
  rewrite (map_res_names _ _ _ _ E). auto.
Qed.
Lemma add_missing_inv n src ks T : map_inv n src T -> map_inv n src (add_missing ks T).
Proof.
  unfold map_inv. intros [Hl [Hd [Hn Hi]]]. rewrite add_missing_tlen, add_missing_tdflt. repeat split; auto.
  - apply add_missing_NoDup, Hn.
  - eapply incl_tran; [exact Hi|apply add_missing_names_incl].
Qed.
Lemma map_row_inv n f src T j T' : map_inv n src T -> map_row f src T j = Ok T' -> map_inv n src T'.
Proof. unfold map_row. intros H. apply set_row_inv, add_missing_inv, H. Qed.

Lemma map_row_spec (f : row -> upd) ids (src : ltab) T i :
  map_inv (List.length ids) (l_tab src) T -> NoDup (tab_names (l_tab src)) -> i < List.length ids -> i < l_len src ->
  l_map_row f src (mk ids true T) (i, i) = lift ids true (map_row f (l_tab src) T i).
Proof.
  intros [Hl [Hd [Hn Hi]]] Hsn Hlt Hlt'. unfold l_map_row. cbn [fst snd].
  rewrite getrow_ok by exact Hlt. cbn [bind]. rewrite getrow_ok by exact Hlt'. cbn [bind].
  rewrite canon_row_items.
  set (r := read_row (l_tab src) i).
  set (d1 := dict_update (row_dict (l_row_items src i)) (f r)).
  assert (Hk1 : map fst (row_dict (l_row_items src i)) = l_column_names src).
  { rewrite row_dict_keys. unfold l_row_items. rewrite map_map. cbn [fst]. apply map_id. }
  assert (Hd1 : NoDup (map fst d1)).
  { apply dict_update_NoDup. rewrite Hk1. apply column_names_NoDup, Hsn. }
  transitivity (lift ids true (set_row (add_missing (map fst d1) T) i d1)).
  - rewrite <- (inner_fold i d1 T Hd1 Hn).
    apply (fold_lift (fun T' => tlen T' = List.length ids /\ tdflt T' = KMixed) (fun _ => True) ids true
                     (fun s kv => l_row_set s i (fst kv) (snd kv))
                     (fun T' kv => write1 (add1 (fst kv) T') i (fst kv) (snd kv))).
    + intros T0 kv [H1 H2] _. apply row_set_spec; assumption.
    + intros T0 kv T' [H1 H2] _ Hw. apply write1_inv in Hw. destruct Hw as [Ha [Hb _]].
      rewrite Ha, Hb, add1_tlen, add1_tdflt. auto.
    + auto.
    + apply Forall_forall. auto.
  - f_equal. unfold map_row, upd_row. fold r.
    set (d2 := dict_update (row_dict r) (f r)).
    assert (E1 : add_missing (map fst d1) T = add_missing (map fst (f r)) T).
    { apply add_missing_update_known. intros k Hk. rewrite Hk1 in Hk. apply Hi. apply (proj1 (column_names_in _ _)), Hk. }
    assert (E2 : add_missing (map fst d2) T = add_missing (map fst (f r)) T).
    { apply add_missing_update_known. intros k Hk. unfold r in Hk. rewrite row_dict_keys, read_row_keys in Hk.
      apply Hi. apply (proj1 (sort_names_in _ _)), Hk. }
    rewrite E1, E2. apply set_row_ext. intros k. apply lookup_update_ext.
    unfold r, read_row, l_row_items, l_row_get, l_cols. rewrite !row_dict_map, !lookup_map_key.
    unfold l_column_names, k_to_list. destruct (l_sorted src); reflexivity || (rewrite existsb_sort; reflexivity).
Qed.

(* ------------------------------------------------------------------ *)
(* 7. dm[:] and the refinement theorem for map_ on a DataMatrix         *)
(* ------------------------------------------------------------------ *)
Definition lwf (t : ltab) : Prop :=
  tlen (l_tab t) = l_len t /\ NoDup (l_ids t) /\ twf (l_tab t).

Lemma slice_pos_all n : slice_pos n None None = seq 0 n.
Proof.
  unfold slice_pos, clamp. rewrite Z.sub_0_r, Nat2Z.id. cbn [Z.to_nat].
  rewrite <- (map_id (seq 0 n)) at 2. apply map_ext. intros k. reflexivity.
Qed.
Lemma take_all {A} (l : list A) : take_pos (seq 0 (List.length l)) l = Some l.
Proof. rewrite take_pos_seq_firstn by lia. rewrite firstn_all. reflexivity. Qed.
Lemma with_cells_same c : with_cells c (ccells c) = c.
Proof. destruct c; reflexivity. Qed.

Lemma copy_spec t : lwf t -> l_copy t = Ok (mk (l_ids t) true (derived (l_tab t))).
Proof.
  intros [Hl [_ [_ Hc]]]. unfold l_copy. cbv [k_dm_getitem]. unfold l_slice. rewrite slice_pos_all.
  unfold l_len in *. rewrite take_all.
  rewrite (map_res_ext_in _ (fun c => Ok c)).
  - rewrite map_res_id. cbn [bind]. unfold mk, derived, l_cols. rewrite Hl. reflexivity.
  - intros c Hin. rewrite Forall_forall in Hc. specialize (Hc c Hin). rewrite <- Hl, <- Hc.
    rewrite take_all, with_cells_same. reflexivity.
Qed.

Lemma seq_lt n : Forall (fun i => i < n) (seq 0 n).
Proof. apply Forall_forall. intros i Hi. apply in_seq in Hi. lia. Qed.

Lemma combine_same {A} (l : list A) : combine l l = map (fun i => (i, i)) l.
Proof. induction l as [|a l IH]; cbn [combine map]; [reflexivity|]. rewrite IH. reflexivity. Qed.
Lemma fold_left_map_list {A B S} (g : A -> B) (step : S -> B -> S) l s :
  fold_left step (map g l) s = fold_left (fun acc a => step acc (g a)) l s.
Proof. revert s; induction l as [|a l IH]; intros s; cbn [map fold_left]; [reflexivity|apply IH]. Qed.

Theorem map_dm_refines (f : row -> upd) (t : ltab) :
  lwf t -> l_map_dm f t = lift (l_ids t) true (map_dm f (l_tab t)).
Proof.
  intros Hwf. pose proof Hwf as [Hl [_ [Hn _]]]. unfold l_map_dm. rewrite (copy_spec t Hwf). cbn [bind].
  unfold map_dm. rewrite Hl. unfold l_len. cbn [l_ids mk]. rewrite combine_same, fold_left_map_list.
  apply (fold_lift (map_inv (List.length (l_ids t)) (l_tab t)) (fun i => i < List.length (l_ids t)) (l_ids t) true
                   (fun s i => l_map_row f t s (i, i)) (fun T i => map_row f (l_tab t) T i)).
  - intros T i HT Hi. apply map_row_spec; auto.
  - intros T i T' HT _ Hm. eapply map_row_inv; eauto.
  - unfold map_inv, derived. cbn [tlen tdflt]. unfold tab_names in *. cbn [tcols]. repeat split; auto. apply incl_refl.
  - apply seq_lt.
Qed.

(* map_ on a column: nothing to refine, both levels are the element-wise conversion *)
Theorem map_col_refines (g : val -> pyv) (c : col) : l_map_col g c = map_col g c.
Proof. reflexivity. Qed.

(* ------------------------------------------------------------------ *)
(* 8. filter_: row ids of the kept rows, cells fetched by id            *)
(* ------------------------------------------------------------------ *)
Lemma map_nth_seq {A} (l : list A) d : map (fun j => nth j l d) (seq 0 (List.length l)) = l.
Proof.
  induction l as [|a l IH]; [reflexivity|]. cbn [List.length seq map nth]. f_equal.
  rewrite <- seq_shift, map_map. exact IH.
Qed.
Lemma filter_map_comm {A B} (p : B -> bool) (h : A -> B) l : filter p (map h l) = map h (filter (fun x => p (h x)) l).
Proof. induction l as [|a l IH]; cbn [filter map]; [reflexivity|]. rewrite IH. destruct (p (h a)); reflexivity. Qed.
Lemma combine_nth_seq {A B} (l1 : list A) (l2 : list B) d1 d2 :
  List.length l1 = List.length l2 ->
  combine l1 l2 = map (fun j => (nth j l1 d1, nth j l2 d2)) (seq 0 (List.length l1)).
Proof.
  intros H. rewrite <- (map_nth_seq (combine l1 l2) (d1, d2)) at 1.
  rewrite combine_length, <- H, Nat.min_id. apply map_ext. intros j. apply combine_nth, H.
Qed.
Lemma combine_seq {A} (l : list A) d :
  combine l (seq 0 (List.length l)) = map (fun j => (nth j l d, j)) (seq 0 (List.length l)).
Proof.
  rewrite (combine_nth_seq l (seq 0 (List.length l)) d 0) by (rewrite seq_length; reflexivity).
  apply map_ext_in. intros j Hj. apply in_seq in Hj. rewrite seq_nth by lia. reflexivity.
Qed.

Lemma last_index_none x l s : ~ In x l -> last_index x l s = None.
Proof.
  revert s; induction l as [|y l IH]; intros s H; cbn [last_index]; [reflexivity|].
  rewrite IH by (intros Hin; apply H; right; exact Hin).
  destruct (N.eqb x y) eqn:E; [|reflexivity]. apply N.eqb_eq in E. subst. exfalso. apply H. left. reflexivity.
Qed.
(* Index.index on duplicate-free ids is the position *)
Lemma last_index_nth l : NoDup l -> forall j s d, j < List.length l -> last_index (nth j l d) l s = Some (s + j).
Proof.
  induction 1 as [|y l Hnotin Hnd IH]; intros j s d Hj; cbn [List.length] in Hj; [lia|].
  destruct j as [|j]; cbn [nth last_index].
  - rewrite last_index_none by exact Hnotin. rewrite N.eqb_refl, Nat.add_0_r. reflexivity.
  - rewrite IH by lia. f_equal. lia.
Qed.

Lemma getrowidkey_spec ids ps c :
  NoDup ids -> List.length (ccells c) = List.length ids -> Forall (fun j => j < List.length ids) ps ->
  l_getrowidkey ids (map (fun j => nth j ids 0%N) ps) c = Ok (select_pos ps c).
Proof.
  intros Hnd Hlen Hps. unfold l_getrowidkey. rewrite map_res_map.
  rewrite (map_res_ext_in _ (fun j => Ok (cell_at j c))).
  - rewrite map_res_total. reflexivity.
  - intros j Hj. rewrite Forall_forall in Hps. specialize (Hps j Hj).
    rewrite (last_index_nth ids Hnd j 0 0%N Hps). cbn [Nat.add].
    unfold cell_at. rewrite (nth_error_nth' (ccells c) VNone) by lia. reflexivity.
Qed.
Lemma selectrowid_spec t ps :
  lwf t -> Forall (fun j => j < l_len t) ps ->
  l_selectrowid t (map (fun j => nth j (l_ids t) 0%N) ps)
  = Ok (mk (map (fun j => nth j (l_ids t) 0%N) ps) true
           {| tlen := List.length ps; tdflt := KMixed; tcols := map (select_pos ps) (tcols (l_tab t)) |}).
Proof.
  intros [Hl [Hnd [_ Hc]]] Hps. unfold l_selectrowid, l_cols.
  rewrite (map_res_ext_in _ (fun c => Ok (select_pos ps c))).
  - rewrite map_res_total. cbn [bind]. rewrite map_length. reflexivity.
  - intros c Hin. rewrite Forall_forall in Hc. apply getrowidkey_spec; auto. rewrite (Hc c Hin). exact Hl.
Qed.

Lemma iter_rows_ok t : l_iter_rows t = Ok (seq 0 (l_len t)).
Proof.
  unfold l_iter_rows. rewrite (map_res_ext_in _ (fun i => Ok i)); [apply map_res_id|].
  intros i Hi. apply in_seq in Hi. apply getrow_ok. lia.
Qed.

Lemma kept_lt f T : Forall (fun j => j < tlen T) (kept_rows f T).
Proof. apply Forall_forall. intros j Hj. unfold kept_rows in Hj. apply filter_In in Hj. destruct Hj as [Hj _]. apply in_seq in Hj. lia. Qed.

Theorem filter_dm_refines (f : row -> bool) (t : ltab) :
  lwf t ->
  l_filter_dm f t = Ok (mk (map (fun j => nth j (l_ids t) 0%N) (kept_rows f (l_tab t))) true (filter_dm f (l_tab t))).
Proof.
  intros Hwf. pose proof Hwf as [Hl _]. unfold l_filter_dm. rewrite iter_rows_ok. cbn [bind].
  unfold l_len. rewrite (combine_seq (l_ids t) 0%N), filter_map_comm, map_map. cbn [fst snd].
  assert (E : filter (fun x => f (canon (l_row_items t x))) (seq 0 (List.length (l_ids t))) = kept_rows f (l_tab t)).
  { unfold kept_rows. rewrite Hl. unfold l_len. apply filter_ext. intros j. rewrite canon_row_items. reflexivity. }
  rewrite E. rewrite selectrowid_spec; [reflexivity|exact Hwf|]. rewrite <- Hl. apply kept_lt.
Qed.

Lemma find_col_map n (h : col -> col) cs :
  (forall x, cname (h x) = cname x) -> find_col n (map h cs) = option_map h (find_col n cs).
Proof.
  intros H. unfold find_col. induction cs as [|x cs IH]; cbn [find map option_map]; [reflexivity|].
  rewrite H. destruct (String.eqb n (cname x)); [reflexivity|exact IH].
Qed.

(* filter_(g, col) for a column that sits under exactly one name of its table *)
Theorem filter_col_refines (g : val -> bool) (t : ltab) (n : string) (c : col) :
  lwf t -> find_col n (tcols (l_tab t)) = Some c ->
  l_filter_col t (Some n) c g true 1%Z = Ok (filter_col g c).
Proof.
  intros Hwf Hf. pose proof Hwf as [Hl [Hnd [_ Hc]]]. unfold l_filter_col. cbv [k_compare andb].
  unfold l_compare_function. cbv [k_compare_function eff_cons Z.eqb negb Pos.eqb].
  destruct (find_col_some _ _ _ Hf) as [Hin Hcn]. rewrite Forall_forall in Hc. pose proof (Hc c Hin) as Hlen.
  rewrite (combine_nth_seq (l_ids t) (ccells c) 0%N VNone) by (unfold l_len in Hl; lia).
  rewrite filter_map_comm, map_map. cbn [fst snd].
  set (ps := filter (fun x => g (nth x (ccells c) VNone)) (seq 0 (List.length (l_ids t)))).
  rewrite selectrowid_spec; [|exact Hwf|].
  - cbn [bind]. cbv [k_dm_getitem]. unfold l_cols. cbn [l_tab mk tcols].
    rewrite find_col_map by reflexivity. rewrite Hf. cbn [option_map]. f_equal.
    unfold select_pos, filter_col. f_equal. unfold ps, cell_at.
    rewrite <- (filter_map_comm g (fun p => nth p (ccells c) VNone)).
    unfold l_len in Hl. rewrite <- Hl, <- Hlen, map_nth_seq. reflexivity.
  - apply Forall_forall. intros j Hj. unfold ps in Hj. apply filter_In in Hj. destruct Hj as [Hj _].
    apply in_seq in Hj. unfold l_len. lia.
Qed.

(* ------------------------------------------------------------------ *)
(* 9. setcol: the copy, then DataMatrix._set_col                        *)
(* ------------------------------------------------------------------ *)
Lemma Z_nat_eqb a b : Z.eqb (Z.of_nat a) (Z.of_nat b) = Nat.eqb a b.
Proof.
  destruct (Nat.eqb a b) eqn:E.
  - apply Nat.eqb_eq in E. subst. apply Z.eqb_refl.
  - apply Nat.eqb_neq in E. apply Z.eqb_neq. lia.
Qed.
Lemma coerce_all_length k l xs : coerce_all k l = Ok xs -> List.length xs = List.length l.
Proof.
  revert xs; induction l as [|v l IH]; intros xs H; cbn [coerce_all] in H.
  - inversion H; reflexivity.
  - destruct (nf k v); cbn [bind] in H; [|discriminate].
    destruct (coerce_all k l) as [r|]; cbn [bind] in H; [|discriminate].
    inversion H; subst. cbn [List.length]. rewrite (IH r eq_refl). reflexivity.
Qed.
Lemma rhs_seq_exact k l : rhs_cells k (List.length l) (RSeq l) = coerce_all k l.
Proof.
  cbn [rhs_cells]. rewrite firstn_all2 by lia.
  destruct (coerce_all k l) as [xs|e] eqn:E; cbn [bind]; [|reflexivity].
  rewrite (coerce_all_length _ _ _ E), Nat.eqb_refl. reflexivity.
Qed.

Lemma fill_spec ids srt T n v c r :
  find_col n (tcols T) = Some c -> rhs_of v = Some r ->
  l_fill (mk ids srt T) n v
  = lift ids srt (bind (rhs_cells (ckind c) (List.length (ccells c)) r)
                       (fun xs => Ok (with_cols T (put (with_cells c xs) (tcols T))))).
Proof.
  intros Hf Hr. unfold l_fill, l_cols. cbn [l_tab mk]. rewrite Hf, Hr.
  destruct (rhs_cells (ckind c) (List.length (ccells c)) r); reflexivity.
Qed.

Lemma set_col_spec ids srt T n v :
  tlen T = List.length ids -> Forall (fun c => List.length (ccells c) = tlen T) (tcols T) ->
  l_set_col (mk ids srt T) n v false false false = lift ids srt (assign T n v).
Proof.
  intros Hl Hc. unfold l_set_col, assign, l_len, l_cols. cbn [l_ids l_tab mk].
  destruct v as [x|xs|k cells|k].
  - (* scalar *)
    cbv [k_set_col_head eff_cons andb]. unfold l_cols, l_len. cbn [l_ids l_tab mk]. unfold kind_for.
    destruct (has_col n (tcols T)) eqn:Eh; cbv [k_set_col_tail eff_cons negb].
    + unfold has_col in Eh. destruct (find_col n (tcols T)) as [c|] eqn:Ef; [|discriminate].
      rewrite (fill_spec ids srt T n (CVScalar x) c (RScalar x) Ef eq_refl).
      destruct (find_col_some _ _ _ Ef) as [Hin Hn]. rewrite Forall_forall in Hc. rewrite (Hc c Hin).
      destruct (rhs_cells (ckind c) (tlen T) (RScalar x)); cbn [bind lift]; [|reflexivity].
      unfold with_cells. rewrite Hn. reflexivity.
    + unfold has_col in Eh. destruct (find_col n (tcols T)) as [c|] eqn:Ef; [discriminate|].
      unfold l_put_col, l_with_tab, l_cols, l_len. cbn [l_ids l_sorted l_tab mk tcols tdflt with_cols].
      set (e0 := empty_col n (tdflt T) (List.length ids)).
      set (T1 := with_cols T (put e0 (tcols T))).
      assert (Hf1 : find_col n (tcols T1) = Some e0) by apply (find_col_put e0 (tcols T)).
      match goal with |- l_fill ?t _ _ = _ => change t with (mk ids srt T1) end.
      rewrite (fill_spec ids srt T1 n (CVScalar x) e0 (RScalar x) Hf1 eq_refl). unfold T1.
      cbn [ckind ccells e0 empty_col]. rewrite repeat_length, Hl.
      destruct (rhs_cells (tdflt T) (List.length ids) (RScalar x)); cbn [bind lift]; [|reflexivity].
      cbn [tcols with_cols]. rewrite put_put by reflexivity. reflexivity.
  - (* sequence *)
    cbv [k_set_col_head eff_cons andb]. unfold l_cols, l_len. cbn [l_ids l_tab mk]. unfold kind_for.
    destruct (has_col n (tcols T)) eqn:Eh; cbv [k_set_col_tail eff_cons negb].
    + unfold has_col in Eh. destruct (find_col n (tcols T)) as [c|] eqn:Ef; [|discriminate].
      rewrite (fill_spec ids srt T n (CVSeq xs) c (RSeq xs) Ef eq_refl).
      destruct (find_col_some _ _ _ Ef) as [Hin Hn]. rewrite Forall_forall in Hc. rewrite (Hc c Hin).
      destruct (rhs_cells (ckind c) (tlen T) (RSeq xs)); cbn [bind lift]; [|reflexivity].
      unfold with_cells. rewrite Hn. reflexivity.
    + unfold has_col in Eh. destruct (find_col n (tcols T)) as [c|] eqn:Ef; [discriminate|].
      unfold l_put_col, l_with_tab, l_cols, l_len. cbn [l_ids l_sorted l_tab mk tcols tdflt with_cols].
      set (e0 := empty_col n (tdflt T) (List.length ids)).
      set (T1 := with_cols T (put e0 (tcols T))).
      assert (Hf1 : find_col n (tcols T1) = Some e0) by apply (find_col_put e0 (tcols T)).
      match goal with |- l_fill ?t _ _ = _ => change t with (mk ids srt T1) end.
      rewrite (fill_spec ids srt T1 n (CVSeq xs) e0 (RSeq xs) Hf1 eq_refl). unfold T1.
      cbn [ckind ccells e0 empty_col]. rewrite repeat_length, Hl.
      destruct (rhs_cells (tdflt T) (List.length ids) (RSeq xs)); cbn [bind lift]; [|reflexivity].
      cbn [tcols with_cols]. rewrite put_put by reflexivity. reflexivity.
  - (* a column object of another table (the original): empty column of its type, then filled cell by cell *)
    cbv [k_set_col_head eff_cons andb]. unfold l_cols, l_len. cbn [l_ids l_tab mk]. rewrite Z_nat_eqb, Hl.
    destruct (Nat.eqb (List.length cells) (List.length ids)) eqn:El; cbn [negb]; [|reflexivity].
    apply Nat.eqb_eq in El.
    unfold l_put_col, l_with_tab, l_cols, l_len. cbn [l_ids l_sorted l_tab mk tcols tdflt with_cols].
    set (e0 := empty_col n k (List.length ids)).
    assert (Hh : has_col n (put e0 (tcols T)) = true).
    { unfold has_col. pose proof (find_col_put e0 (tcols T)) as Hfp. change (cname e0) with n in Hfp. rewrite Hfp. reflexivity. }
    rewrite Hh. cbv [k_set_col_tail eff_cons negb].
    set (T1 := with_cols T (put e0 (tcols T))).
    assert (Hf1 : find_col n (tcols T1) = Some e0) by apply (find_col_put e0 (tcols T)).
    match goal with |- l_fill ?t _ _ = _ => change t with (mk ids srt T1) end.
    rewrite (fill_spec ids srt T1 n (CVCol k cells) e0 (RSeq (map pyv_of_val cells)) Hf1 eq_refl). unfold T1.
    cbn [ckind ccells e0 empty_col]. rewrite repeat_length, <- El.
    rewrite <- (map_length pyv_of_val cells), rhs_seq_exact.
    destruct (coerce_all k (map pyv_of_val cells)); cbn [bind lift]; [|reflexivity].
    cbn [tcols with_cols]. rewrite put_put by reflexivity. reflexivity.
  - (* a column type *)
    cbv [k_set_col_head eff_cons andb]. unfold l_cols, l_len. cbn [l_ids l_tab mk]. unfold l_put_col, l_with_tab, l_cols, l_len, empty_col.
    cbn [l_ids l_sorted l_tab mk lift]. rewrite Hl. reflexivity.
Qed.

(* setcol = the assignment on a copy; the copy is a derived table (its default column type is MixedColumn) *)
Theorem setcol_refines (t : ltab) (n : string) (v : cvalue) :
  lwf t -> l_setcol true true t n v = lift (l_ids t) true (assign (derived (l_tab t)) n v).
Proof.
  intros Hwf. pose proof Hwf as [Hl [_ [_ Hc]]]. unfold l_setcol.
  assert (E : k_setcol true (match v with CVCol _ _ => true | _ => false end) true = Ok [SCopy; SAssign; SReturn]).
  { destruct v; reflexivity. }
  rewrite E, (copy_spec t Hwf). cbn [bind]. apply set_col_spec; assumption.
Qed.
Corollary setcol_refines_default_mixed (t : ltab) (n : string) (v : cvalue) :
  lwf t -> tdflt (l_tab t) = KMixed ->
  l_setcol true true t n v = lift (l_ids t) true (setcol (l_tab t) n v).
Proof.
  intros Hwf Hd. rewrite setcol_refines by exact Hwf. unfold setcol.
  replace (derived (l_tab t)) with (l_tab t); [reflexivity|]. unfold derived. destruct (l_tab t); cbn in *. subst. reflexivity.
Qed.
(* the guards *)
Theorem setcol_guards (t : ltab) (n : string) (v : cvalue) owner :
  l_setcol false owner t n v = Raise TypeError /\
  (forall k cells, l_setcol true false t n (CVCol k cells) = Raise PlainException).
Proof. split; [destruct v, owner; reflexivity|reflexivity]. Qed.

(* ------------------------------------------------------------------ *)
(* 10. the public functions: guards and dispatch                        *)
(* ------------------------------------------------------------------ *)
Theorem map_dispatch (g : val -> pyv) (f : row -> upd) :
  (forall o, l_map false g f o = Raise TypeError) /\
  l_map true g f OOther = Raise TypeError /\
  (forall t nm c, l_map true g f (OCol t nm c) = bind (map_col g c) (fun r => Ok (RCol r))) /\
  (forall t, lwf t -> l_map true g f (ODm t) = bind (lift (l_ids t) true (map_dm f (l_tab t))) (fun r => Ok (RTab r))).
Proof.
  split; [|split; [|split]].
  - intros [t nm c|t|]; reflexivity.
  - reflexivity.
  - intros t nm c. reflexivity.
  - intros t Hwf. unfold l_map. cbv [k_map eff_cons is_colobj is_dmobj negb]. rewrite map_dm_refines by exact Hwf. reflexivity.
Qed.
Theorem filter_dispatch (g : val -> bool) (f : row -> bool) :
  (forall o isf na, l_filter false isf na g f o = Raise TypeError) /\
  (forall isf na, l_filter true isf na g f OOther = Raise TypeError) /\
  (forall t n c, lwf t -> find_col n (tcols (l_tab t)) = Some c ->
     l_filter true true 1%Z g f (OCol t (Some n) c) = Ok (RCol (filter_col g c))) /\
  (forall t, lwf t ->
     l_filter true true 1%Z g f (ODm t)
     = Ok (RTab (mk (map (fun j => nth j (l_ids t) 0%N) (kept_rows f (l_tab t))) true (filter_dm f (l_tab t))))).
Proof.
  split; [|split; [|split]].
  - intros [t nm c|t|] isf na; reflexivity.
  - reflexivity.
  - intros t n c Hwf Hf. unfold l_filter. cbv [k_filter eff_cons is_colobj is_dmobj negb].
    rewrite (filter_col_refines g t n c Hwf Hf). reflexivity.
  - intros t Hwf. unfold l_filter. cbv [k_filter eff_cons is_colobj is_dmobj negb].
    rewrite (filter_dm_refines f t Hwf). reflexivity.
Qed.

(* ------------------------------------------------------------------ *)
(* 11. laws of the L0 spec                                              *)
(* ------------------------------------------------------------------ *)
Inductive subseq {A} : list A -> list A -> Prop :=
  | sub_nil : subseq [] []
  | sub_take a l1 l2 : subseq l1 l2 -> subseq (a :: l1) (a :: l2)
  | sub_skip a l1 l2 : subseq l1 l2 -> subseq l1 (a :: l2).

Lemma filter_subseq {A} (p : A -> bool) l : subseq (filter p l) l.
Proof. induction l as [|a l IH]; cbn [filter]; [constructor|]. destruct (p a); constructor; exact IH. Qed.

(* filter_ on a column: exactly the cells with g true, in source order *)
Theorem filter_col_law (g : val -> bool) (c : col) :
  subseq (ccells (filter_col g c)) (ccells c) /\
  (forall x, In x (ccells (filter_col g c)) <-> In x (ccells c) /\ g x = true) /\
  cname (filter_col g c) = cname c /\ ckind (filter_col g c) = ckind c.
Proof.
  split; [apply filter_subseq|]. split; [|split; reflexivity].
  intros x. unfold filter_col. cbn [ccells with_cells]. apply filter_In.
Qed.

Lemma filter_seq_sorted (p : nat -> bool) n : forall s, StronglySorted lt (filter p (seq s n)).
Proof.
  induction n as [|n IH]; intros s; cbn [seq filter]; [constructor|].
  destruct (p s); [|apply IH]. constructor; [apply IH|].
  apply Forall_forall. intros j Hj. apply filter_In in Hj. destruct Hj as [Hj _]. apply in_seq in Hj. lia.
Qed.
Lemma select_subseq {A} (l : list A) d (p : nat -> bool) :
  subseq (map (fun j => nth j l d) (filter p (seq 0 (List.length l)))) l.
Proof.
  assert (H : forall (ps : list nat), subseq (map (fun j => nth j l d) (filter p ps)) (map (fun j => nth j l d) ps)).
  { induction ps as [|a ps IH]; cbn [filter map]; [constructor|]. destruct (p a); cbn [map]; constructor; exact IH. }
  specialize (H (seq 0 (List.length l))). rewrite map_nth_seq in H. exact H.
Qed.

(* filter_ on a DataMatrix: the kept rows are exactly the rows with f true, ascending (source order);
   every column of the result is that selection of the source column, hence a subsequence of it *)
Theorem filter_dm_law (f : row -> bool) (T : tab) :
  (forall j, In j (kept_rows f T) <-> j < tlen T /\ f (read_row T j) = true) /\
  StronglySorted lt (kept_rows f T) /\
  tlen (filter_dm f T) = List.length (kept_rows f T) /\
  tcols (filter_dm f T) = map (select_pos (kept_rows f T)) (tcols T) /\
  tab_names (filter_dm f T) = tab_names T /\
  (forall c, In c (tcols T) -> List.length (ccells c) = tlen T ->
             subseq (ccells (select_pos (kept_rows f T) c)) (ccells c)).
Proof.
  split; [|split; [|split; [|split; [|split]]]].
  - intros j. unfold kept_rows. rewrite filter_In, in_seq. split; intros [H1 H2]; split; auto; lia.
  - apply filter_seq_sorted.
  - reflexivity.
  - reflexivity.
  - unfold filter_dm, tab_names. cbn [tcols]. rewrite map_map. reflexivity.
  - intros c _ Hlen. unfold select_pos, kept_rows, cell_at. cbn [ccells with_cells]. rewrite <- Hlen. apply select_subseq.
Qed.

(* setcol changes only that column *)
Lemma find_col_put_other m c cs : m <> cname c -> find_col m (put c cs) = find_col m cs.
Proof.
  intros H. unfold find_col. induction cs as [|x cs IH]; cbn [put find].
  - destruct (String.eqb m (cname c)) eqn:E; [apply String.eqb_eq in E; contradiction|reflexivity].
  - destruct (String.eqb (cname c) (cname x)) eqn:E; cbn [find].
    + apply String.eqb_eq in E. rewrite <- E.
      destruct (String.eqb m (cname c)) eqn:E2; [apply String.eqb_eq in E2; contradiction|reflexivity].
    + destruct (String.eqb m (cname x)); [reflexivity|exact IH].
Qed.
Lemma put_names_any c cs :
  map cname (put c cs) = if has_col (cname c) cs then map cname cs else map cname cs ++ [cname c].
Proof.
  destruct (has_col (cname c) cs) eqn:E; [apply put_names, E|]. rewrite put_new by exact E. rewrite map_app. reflexivity.
Qed.
Theorem setcol_law (T : tab) (n : string) (v : cvalue) (T' : tab) :
  setcol T n v = Ok T' ->
  tlen T' = tlen T /\
  (forall m, m <> n -> find_col m (tcols T') = find_col m (tcols T)) /\
  tab_names T' = (if has_col n (tcols T) then tab_names T else tab_names T ++ [n]) /\
  (exists c, find_col n (tcols T') = Some c /\ cname c = n /\
     match v with
     | CVType k => ckind c = k /\ ccells c = repeat (default_cell k) (tlen T)
     | CVCol k cells => ckind c = k /\ coerce_all k (map pyv_of_val cells) = Ok (ccells c)
     | CVScalar x => ckind c = kind_for T n /\ rhs_cells (kind_for T n) (tlen T) (RScalar x) = Ok (ccells c)
     | CVSeq xs => ckind c = kind_for T n /\ rhs_cells (kind_for T n) (tlen T) (RSeq xs) = Ok (ccells c)
     end).
Proof.
  unfold setcol, assign. intros H.
  assert (G : forall k xs, T' = with_cols T (put {| cname := n; ckind := k; ccells := xs |} (tcols T)) ->
              tlen T' = tlen T /\ (forall m, m <> n -> find_col m (tcols T') = find_col m (tcols T)) /\
              tab_names T' = (if has_col n (tcols T) then tab_names T else tab_names T ++ [n]) /\
              find_col n (tcols T') = Some {| cname := n; ckind := k; ccells := xs |}).
  { intros k xs ->. cbn [tlen tcols with_cols]. repeat split.
    - intros m Hm. apply find_col_put_other. exact Hm.
    - unfold tab_names. cbn [tcols]. apply (put_names_any {| cname := n; ckind := k; ccells := xs |}).
    - apply (find_col_put {| cname := n; ckind := k; ccells := xs |}). }
  destruct v as [x|xs|k cells|k].
  - destruct (rhs_cells (kind_for T n) (tlen T) (RScalar x)) as [ys|] eqn:E; cbn [bind] in H; [|discriminate].
    inversion H as [H']. destruct (G _ _ (eq_sym H')) as [G1 [G2 [G3 G4]]]. rewrite H'. repeat split; auto.
    eexists; split; [exact G4|]. cbn. auto.
  - destruct (rhs_cells (kind_for T n) (tlen T) (RSeq xs)) as [ys|] eqn:E; cbn [bind] in H; [|discriminate].
    inversion H as [H']. destruct (G _ _ (eq_sym H')) as [G1 [G2 [G3 G4]]]. rewrite H'. repeat split; auto.
    eexists; split; [exact G4|]. cbn. auto.
  - destruct (Nat.eqb (List.length cells) (tlen T)); [|discriminate].
    destruct (coerce_all k (map pyv_of_val cells)) as [ys|] eqn:E; cbn [bind] in H; [|discriminate].
    inversion H as [H']. destruct (G _ _ (eq_sym H')) as [G1 [G2 [G3 G4]]]. rewrite H'. repeat split; auto.
    eexists; split; [exact G4|]. cbn. auto.
  - inversion H as [H']. destruct (G _ _ (eq_sym H')) as [G1 [G2 [G3 G4]]]. rewrite H'. repeat split; auto.
    eexists; split; [exact G4|]. cbn. auto.
Qed.

(* a column passed to setcol arrives with its own cells when they are normal forms of its type *)
Lemma coerce_normal k cells :
  Forall (fun x => nf k (pyv_of_val x) = Ok x) cells -> coerce_all k (map pyv_of_val cells) = Ok cells.
Proof.
  induction 1 as [|x l Hx _ IH]; cbn [map coerce_all]; [reflexivity|]. rewrite Hx, IH. reflexivity.
Qed.
Theorem setcol_column_law (T : tab) (n : string) (c : col) :
  col_normal c -> List.length (ccells c) = tlen T ->
  setcol T n (CVCol (ckind c) (ccells c))
  = Ok (with_cols T (put {| cname := n; ckind := ckind c; ccells := ccells c |} (tcols T))).
Proof.
  intros Hn Hl. unfold setcol, assign. rewrite Hl, Nat.eqb_refl. rewrite (coerce_normal _ _ Hn). reflexivity.
Qed.

(* ------------------------------------------------------------------ *)
(* 12. shape of map_ on a DataMatrix: length, names, kinds               *)
(* ------------------------------------------------------------------ *)
Lemma set_cell_of_shape d j c c' :
  set_cell_of d j c = Ok c' -> cname c' = cname c /\ ckind c' = ckind c /\ List.length (ccells c') = List.length (ccells c).
Proof.
  unfold set_cell_of. destruct (lookup (cname c) d) as [v|].
  - destruct (nf (ckind c) v); cbn [bind]; intros H; inversion H; subst. cbn. rewrite set_nth_length. auto.
  - intros H; inversion H; subst. auto.
Qed.
Definition shape (c : col) : string * kind * nat := (cname c, ckind c, List.length (ccells c)).
Lemma map_res_shape d j cs cs' : map_res (set_cell_of d j) cs = Ok cs' -> map shape cs' = map shape cs.
Proof.
  revert cs'; induction cs as [|c cs IH]; intros cs' H; cbn [map_res] in H.
  - inversion H; reflexivity.
  - destruct (set_cell_of d j c) as [c'|] eqn:Ec; cbn [bind] in H; [|discriminate].
    destruct (map_res (set_cell_of d j) cs) as [r|]; cbn [bind] in H; [|discriminate].
    inversion H; subst. cbn [map]. rewrite (IH r eq_refl). f_equal.
    destruct (set_cell_of_shape _ _ _ _ Ec) as [H1 [H2 H3]]. unfold shape. rewrite H1, H2, H3. reflexivity.
Qed.
(* one row step keeps the row count and the shapes of the existing columns; columns are only appended,
   each a MixedColumn as long as the table *)
Definition extends (T T' : tab) : Prop :=
  tlen T' = tlen T /\
  exists extra, map shape (tcols T') = map shape (tcols T) ++ extra /\
                Forall (fun s => snd (fst s) = KMixed /\ snd s = tlen T) extra.
Lemma extends_refl T : extends T T.
Proof. split; [reflexivity|]. exists []. rewrite app_nil_r. auto. Qed.
Lemma extends_trans A B C : extends A B -> extends B C -> extends A C.
Proof.
  intros [H1 [e1 [He1 Hf1]]] [H2 [e2 [He2 Hf2]]]. split; [congruence|].
  exists (e1 ++ e2). rewrite He2, He1, <- app_assoc. split; [reflexivity|].
  apply Forall_app. split; [exact Hf1|]. rewrite H1 in Hf2. exact Hf2.
Qed.
Lemma fresh_cols_shape ks n c : forall names, In c (fresh_cols ks names n) -> ckind c = KMixed /\ List.length (ccells c) = n.
Proof.
  induction ks as [|k ks IH]; intros names Hc; cbn [fresh_cols] in Hc; [contradiction|].
  destruct (existsb (String.eqb k) names); [eapply IH, Hc|].
  destruct Hc as [<-|Hc]; [|eapply IH, Hc]. cbn. rewrite repeat_length. auto.
Qed.
Lemma add_missing_extends ks T : extends T (add_missing ks T).
Proof.
  split; [apply add_missing_tlen|]. rewrite add_missing_cols, map_app.
  eexists; split; [reflexivity|]. apply Forall_forall. intros s Hs. apply in_map_iff in Hs. destruct Hs as [c [<- Hc]].
  cbn [shape fst snd]. eapply fresh_cols_shape, Hc.
Qed.
Lemma set_row_extends T j d T' : set_row T j d = Ok T' -> extends T T'.
Proof.
  unfold set_row. destruct (map_res (set_cell_of d j) (tcols T)) as [cs|] eqn:E; cbn [bind]; [|discriminate].
  intros H; inversion H; subst. split; [reflexivity|]. exists []. cbn [tcols with_cols]. rewrite app_nil_r.
  split; [apply (map_res_shape _ _ _ _ E)|constructor].
Qed.
Lemma map_row_extends f src T j T' : map_row f src T j = Ok T' -> extends T T'.
Proof.
  unfold map_row. intros H. eapply extends_trans; [apply add_missing_extends|]. eapply set_row_extends, H.
Qed.
Theorem map_dm_shape (f : row -> upd) (T T' : tab) : map_dm f T = Ok T' -> extends T T' /\ tdflt T' = KMixed.
Proof.
  unfold map_dm. intros H.
  assert (G : forall js T0 T1, fold_left (fun acc j => bind acc (fun t' => map_row f T t' j)) js (Ok T0) = Ok T1 ->
                                extends T0 T1 /\ tdflt T1 = tdflt T0).
  { induction js as [|j js IH]; intros T0 T1 Hf; cbn [fold_left bind] in Hf.
    - inversion Hf; subst. split; [apply extends_refl|reflexivity].
    - destruct (map_row f T T0 j) as [Tm|e] eqn:Em; [|rewrite fold_bind_raise in Hf; discriminate].
      destruct (IH _ _ Hf) as [He Hd]. split; [eapply extends_trans; [eapply map_row_extends, Em|exact He]|].
      rewrite Hd. unfold map_row, set_row in Em.
      destruct (map_res _ _) as [cs|]; cbn [bind] in Em; [|discriminate]. inversion Em; subst. cbn [tdflt with_cols].
      apply add_missing_tdflt. }
  destruct (G _ _ _ H) as [He Hd]. split; [|rewrite Hd; reflexivity].
  destruct He as [H1 [e [H2 H3]]]. split; [exact H1|]. exists e. split; [exact H2|exact H3].
Qed.

(* ------------------------------------------------------------------ *)
(* 13. the functions allocate their result and touch nothing else        *)
(* ------------------------------------------------------------------ *)
Lemma h_alloc_frame (h : heap) r : forall k t, nth_error h k = Some t -> nth_error (fst (h_alloc h r)) k = Some t.
Proof.
  intros k t H. unfold h_alloc. destruct r; cbn [fst]; [|exact H].
  rewrite nth_error_app1; [exact H|]. apply nth_error_Some. congruence.
Qed.
Theorem heap_frame (h : heap) (i : nat) :
  (forall f k t, nth_error h k = Some t -> nth_error (fst (h_map_dm f h i)) k = Some t) /\
  (forall f k t, nth_error h k = Some t -> nth_error (fst (h_filter_dm f h i)) k = Some t) /\
  (forall n v k t, nth_error h k = Some t -> nth_error (fst (h_setcol h i n v)) k = Some t).
Proof.
  repeat split; intros; unfold h_map_dm, h_filter_dm, h_setcol; destruct (nth_error h i); try apply h_alloc_frame; assumption.
Qed.
Theorem heap_result (h : heap) (i : nat) (t : ltab) f r :
  nth_error h i = Some t -> l_map_dm f t = Ok r ->
  snd (h_map_dm f h i) = Ok (List.length h) /\ nth_error (fst (h_map_dm f h i)) (List.length h) = Some r.
Proof.
  intros Hi Hr. unfold h_map_dm. rewrite Hi, Hr. cbn [h_alloc fst snd]. split; [reflexivity|].
  rewrite nth_error_app2 by lia. rewrite Nat.sub_diag. reflexivity.
Qed.

(* ------------------------------------------------------------------ *)
(* 14. map_ cell by cell: row j of the result is the source row j        *)
(*     updated with f of that row; an absent key leaves ''               *)
(* ------------------------------------------------------------------ *)
Definition kind_of (T : tab) (n : string) : kind :=
  match find_col n (tcols T) with Some c => ckind c | None => KMixed end.
Definition src_cell (T : tab) (n : string) (j : nat) : val :=
  match find_col n (tcols T) with Some c => cell_at j c | None => VStr "" end.
(* what row j says about the cell of column n: the normal form of the value under key n, '' if there is none *)
Definition cell_ok (f : row -> upd) (T : tab) (n : string) (j : nat) (k : kind) (x : val) : Prop :=
  match lookup n (upd_row f T j) with Some v => nf k v = Ok x | None => x = VStr "" end.

Lemma nth_repeat_lt {A} (a d : A) n j : j < n -> nth j (repeat a n) d = a.
Proof. revert j; induction n as [|n IH]; intros [|j] H; cbn [repeat nth]; try lia; auto. apply IH. lia. Qed.
Lemma lookup_some_in {A} k (d : list (string * A)) v : lookup k d = Some v -> In k (map fst d).
Proof.
  induction d as [|[k' v'] d IH]; cbn [lookup map fst]; [discriminate|].
  destruct (String.eqb k k') eqn:E.
  - apply String.eqb_eq in E. intros _. left. symmetry. exact E.
  - intros H. right. apply IH, H.
Qed.
Lemma map_res_find_rev d j cs cs' n c' :
  map_res (set_cell_of d j) cs = Ok cs' -> find_col n cs' = Some c' ->
  exists c, find_col n cs = Some c /\ set_cell_of d j c = Ok c'.
Proof.
  unfold find_col. revert cs'; induction cs as [|x cs IH]; intros cs' H Hf; cbn [map_res] in H.
  - inversion H; subst. discriminate.
  - destruct (set_cell_of d j x) as [x'|] eqn:Ex; cbn [bind] in H; [|discriminate].
    destruct (map_res (set_cell_of d j) cs) as [r|] eqn:Er; cbn [bind] in H; [|discriminate].
    inversion H; subst. cbn [find] in *. rewrite (set_cell_of_name _ _ _ _ Ex) in Hf.
    destruct (String.eqb n (cname x)).
    + inversion Hf; subst. eauto.
    + apply (IH r eq_refl Hf).
Qed.
Lemma find_fresh n len : forall ks names, existsb (String.eqb n) names = false ->
  find_col n (fresh_cols ks names len) = if existsb (String.eqb n) ks then Some (new_col len n) else None.
Proof.
  induction ks as [|k ks IH]; intros names Hn; cbn [fresh_cols existsb]; [reflexivity|].
  destruct (existsb (String.eqb k) names) eqn:Ek.
  - destruct (String.eqb n k) eqn:E; [apply String.eqb_eq in E; subst; congruence|]. cbn [orb]. apply IH, Hn.
  - unfold find_col. cbn [find new_col cname]. destruct (String.eqb n k) eqn:E; cbn [orb].
    + apply String.eqb_eq in E. subst. reflexivity.
    + apply IH. rewrite existsb_app, Hn. cbn [existsb orb]. rewrite E. reflexivity.
Qed.
Lemma find_col_add_missing n ks T :
  find_col n (tcols (add_missing ks T))
  = match find_col n (tcols T) with
    | Some c => Some c
    | None => if existsb (String.eqb n) ks then Some (new_col (tlen T) n) else None
    end.
Proof.
  rewrite add_missing_cols. destruct (find_col n (tcols T)) as [c|] eqn:E.
  - apply find_col_app_l, E.
  - rewrite (find_col_app_r _ _ _ E). apply find_fresh. unfold tab_names. rewrite has_col_existsb. unfold has_col. rewrite E. reflexivity.
Qed.

Lemma upd_row_source_key f T n j : In n (tab_names T) -> exists v, lookup n (upd_row f T j) = Some v.
Proof.
  intros H. apply lookup_in. unfold upd_row. apply dict_update_keys_keep. rewrite row_dict_keys, read_row_keys.
  apply (proj2 (sort_names_in _ _)), H.
Qed.
Lemma upd_row_new_key f T n j : In n (map fst (upd_row f T j)) -> ~ In n (tab_names T) -> In n (map fst (f (read_row T j))).
Proof.
  intros H Hn. unfold upd_row in H. apply dict_update_keys_incl in H. destruct H as [H|H]; [|exact H].
  rewrite row_dict_keys, read_row_keys in H. apply (proj1 (sort_names_in _ _)) in H. contradiction.
Qed.

(* the copy after the rows below m have been written *)
Definition minv (f : row -> upd) (T : tab) (m : nat) (Tm : tab) : Prop :=
  tlen Tm = tlen T /\ NoDup (tab_names Tm) /\ incl (tab_names T) (tab_names Tm) /\
  (forall j k, j < m -> In k (map fst (upd_row f T j)) -> In k (tab_names Tm)) /\
  forall n cm, find_col n (tcols Tm) = Some cm ->
    ckind cm = kind_of T n /\ List.length (ccells cm) = tlen T /\
    (find_col n (tcols T) = None -> exists j, j < m /\ In n (map fst (f (read_row T j)))) /\
    (forall j, j < m -> cell_ok f T n j (ckind cm) (cell_at j cm)) /\
    (forall j, m <= j -> j < tlen T -> cell_at j cm = src_cell T n j).

Lemma minv_step f T m Tm Tm' :
  m < tlen T -> minv f T m Tm -> map_row f T Tm m = Ok Tm' -> minv f T (S m) Tm'.
Proof.
  intros Hm [Hl [Hnd [Hincl [Hkeys H]]]] Hstep. unfold map_row in Hstep.
  set (d := upd_row f T m) in *. set (Ta := add_missing (map fst d) Tm) in *.
  unfold set_row in Hstep. destruct (map_res (set_cell_of d m) (tcols Ta)) as [cs|] eqn:E; cbn [bind] in Hstep; [|discriminate].
  inversion Hstep; subst Tm'. clear Hstep.
  assert (Hnames : tab_names (with_cols Ta cs) = tab_names Ta).
  { unfold tab_names. cbn [tcols with_cols]. apply (map_res_names _ _ _ _ E). }
  unfold minv. rewrite Hnames. cbn [tlen with_cols].
  split; [unfold Ta; rewrite add_missing_tlen; exact Hl|].
  split; [unfold Ta; apply add_missing_NoDup, Hnd|].
  split; [eapply incl_tran; [exact Hincl|apply add_missing_names_incl]|].
  split.
  { intros j k Hj Hk. destruct (Nat.eq_dec j m) as [->|Hne].
    - unfold Ta. apply add_missing_has. exact Hk.
    - apply add_missing_names_incl. apply (Hkeys j k); [lia|exact Hk]. }
  intros n c' Hc'. cbn [tcols with_cols] in Hc'.
  destruct (map_res_find_rev _ _ _ _ _ _ E Hc') as [x [Hx Hset]].
  unfold Ta in Hx. rewrite find_col_add_missing in Hx.
  destruct (find_col n (tcols Tm)) as [cm|] eqn:Ecm.
  - (* a column the copy already had *)
    inversion Hx; subst x. clear Hx. destruct (H n cm Ecm) as [Hk [Hlen [Hnew [Hlow Hhigh]]]].
    destruct (find_col_some _ _ _ Ecm) as [_ Hcmn].
    unfold set_cell_of in Hset. rewrite Hcmn in Hset.
    destruct (lookup n d) as [v|] eqn:Ev.
    + destruct (nf (ckind cm) v) as [y|] eqn:En; cbn [bind] in Hset; [|discriminate]. inversion Hset; subst c'. clear Hset.
      cbn [ckind ccells with_cells]. rewrite set_nth_length. repeat split; auto.
      * intros Hnone. destruct (Hnew Hnone) as [j [Hj Hin]]. exists j. split; [lia|exact Hin].
      * intros j Hj. unfold cell_at. cbn [ccells with_cells]. destruct (Nat.eq_dec j m) as [->|Hne].
        -- unfold cell_ok. fold d. rewrite Ev. rewrite nth_set_nth_same by lia. exact En.
        -- rewrite nth_set_nth_other by lia. apply Hlow. lia.
      * intros j Hj Hj'. unfold cell_at. cbn [ccells with_cells]. rewrite nth_set_nth_other by lia. apply Hhigh; lia.
    + inversion Hset; subst c'. clear Hset. repeat split; auto.
      * intros Hnone. destruct (Hnew Hnone) as [j [Hj Hin]]. exists j. split; [lia|exact Hin].
      * intros j Hj. destruct (Nat.eq_dec j m) as [->|Hne]; [|apply Hlow; lia].
        unfold cell_ok. fold d. rewrite Ev. rewrite (Hhigh m (le_n _) Hm). unfold src_cell.
        destruct (find_col n (tcols T)) as [c|] eqn:Ec; [|reflexivity].
        destruct (find_col_some _ _ _ Ec) as [Hcin Hcn].
        destruct (upd_row_source_key f T n m) as [v Hv]; [unfold tab_names; rewrite <- Hcn; apply in_map, Hcin|].
        fold d in Hv. congruence.
      * intros j Hj Hj'. apply Hhigh; lia.
  - (* a column created for this row *)
    destruct (existsb (String.eqb n) (map fst d)) eqn:Eex; [|discriminate]. inversion Hx; subst x. clear Hx.
    apply (proj1 (existsb_eqb_in _ _)) in Eex.
    assert (HnT : find_col n (tcols T) = None).
    { destruct (find_col n (tcols T)) as [c|] eqn:Ec; [|reflexivity]. exfalso.
      destruct (find_col_some _ _ _ Ec) as [Hcin Hcn].
      apply (find_col_none _ _ Ecm). apply Hincl. unfold tab_names. rewrite <- Hcn. apply in_map, Hcin. }
    destruct (lookup_in _ _ Eex) as [v Hv].
    unfold set_cell_of in Hset. cbn [cname new_col] in Hset. rewrite Hv in Hset. change (ckind (new_col (tlen Tm) n)) with KMixed in Hset.
    destruct (nf KMixed v) as [y|] eqn:En; cbn [bind] in Hset; [|discriminate]. inversion Hset; subst c'. clear Hset.
    cbn [ckind ccells with_cells new_col]. rewrite set_nth_length, repeat_length. unfold kind_of. rewrite HnT.
    repeat split; auto.
    + intros _. exists m. split; [lia|]. apply (upd_row_new_key f T n m Eex). apply find_col_none, HnT.
    + intros j Hj. unfold cell_at. cbn [ccells with_cells]. destruct (Nat.eq_dec j m) as [->|Hne].
      * unfold cell_ok. fold d. rewrite Hv. rewrite nth_set_nth_same by (rewrite repeat_length; lia). exact En.
      * rewrite nth_set_nth_other by lia. rewrite nth_repeat_lt by lia. unfold cell_ok.
        destruct (lookup n (upd_row f T j)) as [w|] eqn:Ew; [|reflexivity]. exfalso.
        apply (find_col_none _ _ Ecm). apply (Hkeys j n); [lia|]. eapply lookup_some_in, Ew.
    + intros j Hj Hj'. unfold cell_at, src_cell. cbn [ccells with_cells]. rewrite HnT.
      rewrite nth_set_nth_other by lia. apply nth_repeat_lt. lia.
Qed.

Theorem map_dm_rows (f : row -> upd) (T T' : tab) :
  twf T -> map_dm f T = Ok T' ->
  tlen T' = tlen T /\ NoDup (tab_names T') /\ incl (tab_names T) (tab_names T') /\
  (forall n j, In n (tab_names T) -> exists v, lookup n (upd_row f T j) = Some v) /\
  forall n c', find_col n (tcols T') = Some c' ->
    ckind c' = kind_of T n /\ List.length (ccells c') = tlen T /\
    (find_col n (tcols T) = None -> exists j, j < tlen T /\ In n (map fst (f (read_row T j)))) /\
    forall j, j < tlen T -> cell_ok f T n j (ckind c') (cell_at j c').
Proof.
  intros [Hnd Hlen] H. unfold map_dm in H.
  assert (G : forall k s Ts Te, s + k <= tlen T -> minv f T s Ts ->
              fold_left (fun acc j => bind acc (fun t' => map_row f T t' j)) (seq s k) (Ok Ts) = Ok Te -> minv f T (s + k) Te).
  { induction k as [|k IH]; intros s Ts Te Hs Hi Hf; cbn [seq fold_left bind] in Hf.
    - inversion Hf; subst. rewrite Nat.add_0_r. exact Hi.
    - destruct (map_row f T Ts s) as [Tn|e] eqn:Es; [|rewrite fold_bind_raise in Hf; discriminate].
      replace (s + S k) with (S s + k) by lia. apply (IH (S s) Tn Te); [lia| |exact Hf].
      eapply minv_step; eauto. lia. }
  assert (H0 : minv f T 0 (derived T)).
  { unfold minv, derived, tab_names. cbn [tlen tcols]. split; [reflexivity|]. split; [exact Hnd|]. split; [apply incl_refl|].
    split; [intros j k Hj; lia|]. intros n cm Hc. unfold kind_of, src_cell. rewrite Hc.
    destruct (find_col_some _ _ _ Hc) as [Hin _]. rewrite Forall_forall in Hlen.
    repeat split; auto; try discriminate. intros j Hj. lia. }
  specialize (G (tlen T) 0 (derived T) T' (le_n _) H0 H). cbn [Nat.add] in G.
  destruct G as [G1 [G2 [G3 [_ G5]]]]. repeat split; auto.
  - intros n j Hn. apply upd_row_source_key, Hn.
  - apply (G5 n c' H1).
  - apply (G5 n c' H1).
  - apply (G5 n c' H1).
  - intros j Hj. apply (G5 n c' H1). exact Hj.
Qed.
