(* Operation-specific statements quoted by C04, C07, C08, C09, C11. *)
From Coq Require Import ZArith NArith List Bool Lia Arith String Permutation.
From DM Require Import Base.PyVal Spec.Nf Spec.Table Spec.Ops Proofs.ListX Proofs.MergeFacts Proofs.TableFacts Proofs.TakeFacts.
Import ListNotations.
Open Scope nat_scope.

Lemma get_put_same w i t : i < List.length (pool w) -> get (put w i t) i = Some t.
Proof. intros H. unfold get, put. cbn [pool]. apply set_nth_same. assumption. Qed.
Lemma get_lt w i t : get w i = Some t -> i < List.length (pool w).
Proof. unfold get. intros H. apply nth_error_Some. congruence. Qed.

(* ---------- taking rows always succeeds on a well-formed table ---------- *)
Lemma take_total t ps : twf t -> Forall (fun p => p < nrows t) ps -> exists t', take ps t = Some t'.
Proof.
  intros Ht Hps. unfold take.
  destruct (take_pos_total ps (ids t) Hps) as [newids ->].
  unfold derive.
  match goal with |- context [all_some ?l] => assert (Hex : exists ss, all_some l = Some ss) end.
  { destruct Ht as (_ & Hs & Hn). induction (names t) as [|[n i] nm IH]; [exists []; reflexivity|].
    inversion Hn as [|? ? Hi Hn']; subst. cbn [snd] in Hi. destruct (IH Hn') as [ss Hss].
    destruct (nth_error (slots t) i) as [s|] eqn:Es; [|apply nth_error_None in Es; lia].
    assert (Hl : List.length (scells s) = nrows t) by (rewrite Forall_forall in Hs; apply Hs; eapply nth_error_In; eassumption).
    destruct (take_pos_total ps (scells s)) as [cs Hcs]; [rewrite Hl; assumption|].
    eexists. cbn [map all_some]. rewrite Es, Hcs, Hss. reflexivity. }
  destruct Hex as [ss ->]. eexists. reflexivity.
Qed.

(* ---------- C07: resizing ---------- *)
Theorem setlength_grow w ti t n :
  get w ti = Some t -> (Z.of_nat (nrows t) <= n)%Z ->
  let extra := Z.to_nat n - nrows t in
  exists new,
    step w (OSetLength ti n) =
      (put w ti {| fam := fam t; ids := ids t ++ new; names := names t;
                   slots := map (fun s => {| skind := skind s;
                                             scells := scells s ++ repeat (default_cell (skind s)) extra |}) (slots t);
                   tsorted := tsorted t; dflt := dflt t |}, OkUnit)
    /\ List.length new = extra /\ NoDup new /\ (forall x, In x new -> ~ In x (ids t)).
Proof.
  intros Hg Hn extra. cbn [step]. rewrite Hg.
  assert (E1 : (n <? 0)%Z = false) by (apply Z.ltb_ge; lia). rewrite E1.
  assert (E2 : Nat.ltb (Z.to_nat n) (nrows t) = false) by (apply Nat.ltb_ge; lia). rewrite E2.
  eexists. split; [reflexivity|]. split; [apply iotaN_length|]. split; [apply iotaN_NoDup|].
  intros x Hx Hin. apply iotaN_In in Hx. destruct (ids t) as [|y l] eqn:Ei; [destruct Hin|].
  rewrite <- Ei in Hin. apply maxN_ge in Hin. rewrite Ei in Hin. lia.
Qed.

Theorem setlength_shrink w ti t n :
  wwf w -> get w ti = Some t -> (0 <= n)%Z -> Z.to_nat n < nrows t ->
  let m := Z.to_nat n in
  exists t', get (fst (step w (OSetLength ti n))) ti = Some t' /\ snd (step w (OSetLength ti n)) = OkUnit
    /\ ids t' = firstn m (ids t) /\ fam t' = fam t /\ tsorted t' = tsorted t /\ dflt t' = dflt t
    /\ Forall2 (fun e e' => let '(nm, k, c) := e in let '(nm', k', c') := e' in
                            nm = nm' /\ k = k' /\ c' = firstn m c) (view t) (view t').
Proof.
  intros Hw Hg Hn Hlt m. assert (Ht : twf t) by (eapply wwf_get; eassumption).
  cbn [step]. rewrite Hg.
  assert (E1 : (n <? 0)%Z = false) by (apply Z.ltb_ge; lia). rewrite E1.
  assert (E2 : Nat.ltb (Z.to_nat n) (nrows t) = true) by (apply Nat.ltb_lt; lia). rewrite E2.
  destruct (take_total t (seq 0 m) Ht) as [t' Ht'].
  { apply Forall_forall. intros p Hp. apply in_seq in Hp. unfold m in *. lia. }
  fold m. rewrite Ht'. cbn [fst snd]. eexists. split; [apply get_put_same; eapply get_lt; eassumption|].
  destruct (take_rows _ _ _ Ht Ht') as (Hi & Hf & Hv).
  rewrite take_pos_seq_firstn in Hi by (unfold nrows in Hlt; unfold m; lia). injection Hi as Hi.
  cbn [ids fam tsorted dflt]. repeat split; try congruence.
  assert (Hlen : forall nm k c, In (nm, k, c) (view t) -> List.length c = nrows t) by (intros; eapply view_len; eassumption).
  unfold view at 2. cbn [names slots]. fold (view t').
  revert Hlen. induction Hv as [|[[a k] c] [[a' k'] c'] v v' Hd Hrest IH]; intros Hlen; constructor.
  - destruct Hd as (-> & -> & Hc). repeat split.
    rewrite take_pos_seq_firstn in Hc; [congruence|]. rewrite (Hlen a' k' c) by (left; reflexivity). unfold m. lia.
  - apply IH. intros. eapply Hlen. right. eassumption.
Qed.

(* ---------- C08: rename / delete leave everything else alone ---------- *)
Theorem rename_err_unchanged w ti old new ident e :
  snd (step w (ORename ti old new ident)) = Err e -> fst (step w (ORename ti old new ident)) = w /\ e = ValueError.
Proof.
  cbn [step]. destruct (get w ti); cbn [fst snd]; [|discriminate].
  repeat match goal with |- context [if ?c then _ else _] => destruct c; cbn [fst snd] end;
    intros H; try discriminate; injection H as <-; split; reflexivity.
Qed.

Theorem rename_ok w ti t old new :
  get w ti = Some t -> old <> new -> has_name t old = true -> has_name t new = false ->
  step w (ORename ti old new true) =
    (put w ti {| fam := fam t; ids := ids t;
                 names := map (fun '(n, i) => if String.eqb n old then (new, i) else (n, i)) (names t);
                 slots := slots t; tsorted := tsorted t; dflt := dflt t |}, OkUnit).
Proof.
  intros Hg Hne Ho Hn. cbn [step]. rewrite Hg, Ho, Hn. cbn [negb].
  destruct (String.eqb old new) eqn:E; [apply String.eqb_eq in E; contradiction|]. reflexivity.
Qed.

Theorem delcol_err_unchanged w ti name e :
  snd (step w (ODelCol ti name)) = Err e -> fst (step w (ODelCol ti name)) = w /\ e = ValueError.
Proof.
  cbn [step]. destruct (get w ti); cbn [fst snd]; [|discriminate].
  destruct (has_name _ _); cbn [fst snd]; intros H; try discriminate. injection H as <-. split; reflexivity.
Qed.

Theorem delrows_rows w ti t l dead :
  wwf w -> get w ti = Some t -> all_some (map (norm_index (nrows t)) l) = Some dead ->
  let keep := filter (fun p => negb (mem_nat p dead)) (seq 0 (nrows t)) in
  exists t', get (fst (step w (ODelRows ti l))) ti = Some t' /\ snd (step w (ODelRows ti l)) = OkUnit
    /\ take_pos keep (ids t) = Some (ids t') /\ Forall2 (same_rows keep) (view t) (view t').
Proof.
  intros Hw Hg Hd keep. assert (Ht : twf t) by (eapply wwf_get; eassumption).
  cbn [step]. rewrite Hg, Hd. fold keep.
  destruct (take_total t keep Ht) as [t' Ht'].
  { apply Forall_forall. intros p Hp. apply filter_In in Hp. destruct Hp as [Hp _]. apply in_seq in Hp. lia. }
  rewrite Ht'. cbn [fst snd]. eexists. split; [apply get_put_same; eapply get_lt; eassumption|].
  destruct (take_rows _ _ _ Ht Ht') as (Hi & _ & Hv). cbn [ids]. repeat split; try assumption.
Qed.

(* ---------- C09: concatenation ---------- *)
Theorem concat_rows a b nf t :
  concat_tables a b nf = Ok t ->
  nrows t = nrows a + nrows b /\ ids t = iotaN 0 (nrows a + nrows b) /\ fam t = nf.
Proof.
  unfold concat_tables. match goal with |- context [if ?c then _ else _] => destruct c end; [discriminate|].
  intros H. injection H as <-. unfold nrows. cbn [ids fam]. rewrite iotaN_length. repeat split.
Qed.

(* ---------- C11: distinct permutations give distinct orders ---------- *)
Theorem take_pos_inj {A} (l : list A) p q r :
  NoDup l -> Forall (fun i => i < List.length l) p -> Forall (fun i => i < List.length l) q ->
  take_pos p l = Some r -> take_pos q l = Some r -> p = q.
Proof.
  intros Hnd Hp Hq H1 H2. apply take_pos_spec in H1. apply take_pos_spec in H2. rewrite <- H2 in H1. clear H2 r.
  revert q Hq H1. induction p as [|a p IH]; intros [|b q] Hq H; try discriminate; [reflexivity|].
  cbn [map] in H. injection H as Ha H. inversion Hp as [|? ? Ha' Hp']; subst. inversion Hq as [|? ? Hb' Hq']; subst.
  f_equal; [|apply IH; assumption].
  rewrite NoDup_nth_error in Hnd. apply Hnd; assumption.
Qed.

(* ---------- C04: a cell assignment touches one slot of one table ---------- *)
Theorem set_cells_one_slot w ti t name a r t' si :
  get w ti = Some t -> lookup name (names t) = Some si ->
  get (fst (set_cells w ti t name a r)) ti = Some t' ->
  ids t' = ids t /\ names t' = names t /\ fam t' = fam t
  /\ List.length (slots t') = List.length (slots t)
  /\ forall sj, sj <> si -> nth_error (slots t') sj = nth_error (slots t) sj.
Proof.
  intros Hg Hl. pose proof (get_lt _ _ _ Hg) as Hlt. unfold set_cells. rewrite Hl.
  assert (Hsame : get w ti = Some t' ->
                  ids t' = ids t /\ names t' = names t /\ fam t' = fam t
                  /\ List.length (slots t') = List.length (slots t)
                  /\ forall sj, sj <> si -> nth_error (slots t') sj = nth_error (slots t) sj)
    by (intros H; rewrite Hg in H; injection H as <-; repeat split; reflexivity).
  repeat match goal with
         | |- context [match ?x with _ => _ end] => destruct x
         end; cbn [fst]; try exact Hsame;
    rewrite get_put_same by assumption; intros H; injection H as <-;
    unfold set_slot; cbn [ids names fam slots]; rewrite set_nth_length;
    (repeat split; try reflexivity); intros sj Hne; apply set_nth_other; congruence.
Qed.

(* ---------- C09: the columns of a << b ---------- *)
Lemma view_of_cols (cols : list (string * slot)) nf ids0 b0 k0 :
  view {| fam := nf; ids := ids0; names := combine (map fst cols) (seq 0 (List.length cols));
          slots := map snd cols; tsorted := b0; dflt := k0 |}
  = map (fun ns : string * slot => (fst ns, skind (snd ns), scells (snd ns))) cols.
Proof.
  unfold view. cbn [names slots].
  assert (H : forall (pre : list slot) cs,
             map (fun '(n, i) => match nth_error (pre ++ map snd cs) i with
                                 | Some s => (n, skind s, scells s) | None => (n, KMixed, []) end)
                 (combine (map fst cs) (seq (List.length pre) (List.length cs)))
             = map (fun ns : string * slot => (fst ns, skind (snd ns), scells (snd ns))) cs).
  { intros pre cs. revert pre. induction cs as [|[n s] cs IH]; intros pre; [reflexivity|].
    cbn [map fst snd combine seq List.length]. f_equal.
    - rewrite nth_error_app2 by lia. rewrite Nat.sub_diag. reflexivity.
    - specialize (IH (pre ++ [s])). rewrite <- app_assoc in IH. cbn [app] in IH.
      rewrite app_length in IH. cbn [List.length] in IH. rewrite Nat.add_1_r in IH. exact IH. }
  exact (H [] cols).
Qed.

Theorem concat_view a b nf t :
  concat_tables a b nf = Ok t ->
  let find (n : string) (v : list (string * kind * list val)) := lookup n (map (fun '(m, k, c) => (m, (k, c))) v) in
  view t =
    map (fun '(n, k, c) => (n, k, c ++ match find n (view b) with
                                       | Some (_, c2) => c2
                                       | None => repeat (default_cell k) (nrows b) end)) (view a)
    ++ flat_map (fun '(n, k, c) => match find n (view a) with
                                   | Some _ => []
                                   | None => [(n, k, repeat (default_cell k) (nrows a) ++ c)] end) (view b).
Proof.
  unfold concat_tables. match goal with |- context [if ?c then _ else _] => destruct c end; [discriminate|].
  intros H. injection H as <-. cbv zeta.
  rewrite view_of_cols. rewrite map_app. f_equal.
  - rewrite map_map. apply map_ext. intros [[n k] c]. reflexivity.
  - induction (view b) as [|[[n k] c] vb IH]; [reflexivity|]. cbn [flat_map]. rewrite map_app, IH. f_equal.
    destruct (lookup n _); reflexivity.
Qed.

(* ---------- C06: names bound to one slot read the same cells (the deliberate alias) ---------- *)
Theorem alias_reads_same t n1 n2 i :
  lookup n1 (names t) = Some i -> lookup n2 (names t) = Some i -> slot_of t n1 = slot_of t n2.
Proof. intros H1 H2. unfold slot_of. rewrite H1, H2. reflexivity. Qed.
