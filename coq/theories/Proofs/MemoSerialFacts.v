(* C20: the serialised-store model (Model/Memo.v, Section MemoSerialised: both stores hold pickle.dumps(retval),
   hits return pickle.loads of the bytes) simulates the by-value model under loads (dumps v) = v, with
   size v := psize (dumps v).  Hence every theorem about traces of the by-value model holds for it. *)
From Coq Require Import ZArith List Bool Lia.
From DM Require Import Gen.KMemo Spec.Memo Model.Memo Proofs.MemoFacts.
Import ListNotations.
Open Scope Z_scope.

Local Arguments at_ : simpl never.

Section Serial.
  Variables (A K V P F : Type).
  Variable f : A -> V.
  Variable key_of : A -> K.
  Variable thunks : A -> nat.
  Variable dumps : V -> P.
  Variable loads : P -> V.
  Variable psize : P -> Z.
  Variables (keqb : K -> K -> bool) (feqb : F -> F -> bool).
  Hypothesis loads_dumps : forall v, loads (dumps v) = v.

  Definition vsize (v : V) : Z := psize (dumps v).

  (* a by-value state, pickled *)
  Definition pm (m : list (K * V)) : list (K * P) := map (fun kv => (fst kv, dumps (snd kv))) m.
  Definition pst (st : inst K V) : inst K P := {| cache := pm (cache st); ign := ign st |}.
  Definition pd (d : list (F * K * V)) : list (F * K * P) := map (fun e => (fst e, dumps (snd e))) d.
  Definition pw (w : world K V F) : world K P F :=
    {| insts := map (fun os => (fst os, pst (snd os))) (insts w); disk := pd (disk w) |}.

  Lemma lookup_pm : forall k m, lookup K P keqb k (pm m) = option_map dumps (lookup K V keqb k m).
  Proof. intros k. induction m as [|[k' v] r IH]; simpl; auto. destruct (keqb k k'); auto. Qed.
  Lemma remove_pm : forall k m, remove K P keqb k (pm m) = pm (remove K V keqb k m).
  Proof. intros k. induction m as [|[k' v] r IH]; simpl; auto. destruct (keqb k k'); simpl; rewrite ?IH; auto. Qed.
  Lemma at_pd : forall fo k e, at_ K P F keqb feqb fo k (fst e, dumps (snd e)) = at_ K V F keqb feqb fo k e.
  Proof. intros fo k [[fo' k'] v]. reflexivity. Qed.
  Lemma dlookup_pd : forall fo k d,
    dlookup K P F keqb feqb fo k (pd d) = option_map dumps (dlookup K V F keqb feqb fo k d).
  Proof.
    intros fo k. induction d as [|e r IH]; simpl; auto. rewrite at_pd.
    destruct (at_ K V F keqb feqb fo k e); auto.
  Qed.
  Lemma dremove_pd : forall fo k d, dremove K P F keqb feqb fo k (pd d) = pd (dremove K V F keqb feqb fo k d).
  Proof.
    intros fo k. induction d as [|e r IH]; simpl; auto. rewrite at_pd.
    destruct (at_ K V F keqb feqb fo k e); simpl; rewrite ?IH; auto.
  Qed.
  Lemma dkeys_pd : forall fo d, dkeys K P F feqb fo (pd d) = dkeys K V F feqb fo d.
  Proof.
    intros fo. induction d as [|[[fo' k'] v] r IH]; simpl; auto. destruct (feqb fo fo'); rewrite IH; auto.
  Qed.
  Lemma total_pm : forall m, total K P psize (pm m) = total K V vsize m.
  Proof.
    induction m as [|[k v] r IH]; unfold Spec.Memo.total in *; simpl; auto. rewrite IH. reflexivity.
  Qed.
  Lemma keys_pm : forall m, map fst (pm m) = map fst m.
  Proof. intros m. unfold pm. rewrite map_map. reflexivity. Qed.
  Lemma od_set_pm : forall k v m, od_set K P keqb k (dumps v) (pm m) = pm (od_set K V keqb k v m).
  Proof. intros k v. induction m as [|[k' v'] r IH]; simpl; auto. destruct (keqb k k'); simpl; rewrite ?IH; auto. Qed.
  Lemma dset_pd : forall fo k v d, dset K P F keqb feqb fo k (dumps v) (pd d) = pd (dset K V F keqb feqb fo k v d).
  Proof.
    intros fo k v. induction d as [|e r IH]; simpl; auto. rewrite at_pd.
    destruct (at_ K V F keqb feqb fo k e); simpl; rewrite ?IH; auto.
  Qed.
  Lemma removelast_map : forall X Y (g : X -> Y) l, removelast (map g l) = map g (removelast l).
  Proof.
    intros X Y g. induction l as [|x l IH]; simpl; auto. destruct l as [|y l]; simpl in *; auto. rewrite IH. reflexivity.
  Qed.
  Lemma pop_pm : forall last m, pop K P last (pm m) = pm (pop K V last m).
  Proof.
    intros last m. unfold pop. destruct last.
    - apply removelast_map.
    - destruct m; reflexivity.
  Qed.
  Lemma evict_pm : forall n mx m, evict K P psize n mx (pm m) = pm (evict K V vsize n mx m).
  Proof.
    induction n as [|n IH]; intros mx m; cbn [evict]; auto. rewrite total_pm.
    destruct (k_evict_test (total K V vsize m) mx); auto. rewrite pop_pm. apply IH.
  Qed.
  Lemma is_some_map : forall X Y (g : X -> Y) o, is_some (option_map g o) = is_some o.
  Proof. intros X Y g [x|]; reflexivity. Qed.

  Lemma read_cache_sim : forall o st d k,
    read_cache K P F keqb feqb o (pst st) (pd d) k =
    let '(hit, st', d') := read_cache K V F keqb feqb o st d k in (option_map dumps hit, pst st', pd d').
  Proof.
    intros o st d k. unfold read_cache. cbn [cache ign pst].
    rewrite dlookup_pd, lookup_pm, !is_some_map.
    destruct (k_read_cache (ign st) (persistent o) (is_some (dlookup K V F keqb feqb (folder o) k d))
                           (is_some (lookup K V keqb k (cache st)))) as [hit rs dm dd].
    cbn [r_hit r_reset r_delmem r_deldisk]. unfold pst. cbn [cache ign].
    f_equal; [f_equal|].
    - destruct hit as [[|]|]; auto.
    - destruct dm; [rewrite remove_pm|]; reflexivity.
    - destruct dd; [rewrite dremove_pd|]; reflexivity.
  Qed.

  Lemma write_cache_sim : forall o st d k v,
    write_cache K P F psize keqb feqb o (pst st) (pd d) k (dumps v) =
    let '(st', d') := write_cache K V F vsize keqb feqb o st d k v in (pst st', pd d').
  Proof.
    intros o st d k v. unfold write_cache. cbn [cache ign pst]. rewrite dlookup_pd, is_some_map.
    destruct (k_write_cache (persistent o) (is_some (dlookup K V F keqb feqb (folder o) k d))) as [wd wm we].
    cbn [w_disk w_mem w_evict]. unfold pst. cbn [cache ign]. f_equal.
    - f_equal. destruct wm; destruct we; rewrite ?od_set_pm, ?evict_pm; unfold pm; rewrite ?map_length; reflexivity.
    - destruct wd; [rewrite dset_pd|]; reflexivity.
  Qed.

  Notation icall_v := (icall A K V F f key_of thunks vsize keqb feqb).
  Notation icall_p := (icall_s A K V P F f key_of thunks dumps loads psize keqb feqb).

  Lemma mk_event_sim : forall o v ran forced st d,
    mk_event_s K V P F psize feqb o v ran forced (pst st) (pd d) = mk_event K V F vsize feqb o v ran forced st d.
  Proof.
    intros. unfold mk_event_s, mk_event. cbn [cache pst]. rewrite keys_pm, total_pm, dkeys_pd. reflexivity.
  Qed.

  (* one call: the same observation, the pickled next state *)
  Lemma icall_sim : forall o st d a,
    icall_p o (pst st) (pd d) a = let '(ev, st', d') := icall_v o st d a in (ev, pst st', pd d').
  Proof.
    intros o st d a. unfold icall_s, icall. rewrite read_cache_sim.
    destruct (read_cache K V F keqb feqb o st d (memkey A K F key_of o a)) as [[hit st1] d1].
    destruct hit as [v|]; cbn [option_map].
    - rewrite loads_dumps, mk_event_sim. reflexivity.
    - rewrite write_cache_sim.
      destruct (write_cache K V F vsize keqb feqb o st1 d1 (memkey A K F key_of o a) (f a)) as [st2 d2].
      rewrite mk_event_sim. reflexivity.
  Qed.

  Lemma set_nth_map : forall X Y (g : X -> Y) n x l, set_nth n (g x) (map g l) = map g (set_nth n x l).
  Proof.
    intros X Y g. induction n as [|n IH]; intros x [|y l]; simpl; auto. rewrite IH. reflexivity.
  Qed.
  Lemma upd_sim : forall w i o st d, upd K P F (pw w) i o (pst st) (pd d) = pw (upd K V F w i o st d).
  Proof.
    intros w i o st d. unfold upd, pw. cbn [insts disk]. f_equal.
    exact (set_nth_map _ _ (fun os : opts K F * inst K V => (fst os, pst (snd os))) i (o, st) (insts w)).
  Qed.

  Notation wstep_v := (wstep A K V F f key_of thunks vsize keqb feqb).
  Notation wstep_p := (wstep_s A K V P F f key_of thunks dumps loads psize keqb feqb).
  Notation wrun_v := (wrun A K V F f key_of thunks vsize keqb feqb).
  Notation wrun_p := (wrun_s A K V P F f key_of thunks dumps loads psize keqb feqb).

  Lemma wstep_sim : forall w p, wstep_p (pw w) p = (pw (fst (wstep_v w p)), snd (wstep_v w p)).
  Proof.
    intros w [o|i a|i]; cbn [wstep_s wstep].
    - cbn [fst snd]. f_equal. unfold pw. cbn [insts disk]. rewrite map_app. reflexivity.
    - unfold pw at 1. cbn [insts disk]. rewrite nth_error_map.
      destruct (nth_error (insts w) i) as [[o st]|]; cbn [option_map fst snd]; [|reflexivity].
      change (disk (pw w)) with (pd (disk w)).
      rewrite icall_sim. destruct (icall_v o st (disk w) a) as [[ev st'] d']. cbn [fst snd].
      rewrite <- upd_sim. reflexivity.
    - unfold pw at 1. cbn [insts disk]. rewrite nth_error_map.
      destruct (nth_error (insts w) i) as [[o st]|]; cbn [option_map fst snd]; [|reflexivity].
      change (disk (pw w)) with (pd (disk w)).
      change (iclear K P (pst st)) with (pst (iclear K V st)). rewrite <- upd_sim. reflexivity.
  Qed.

  (* any history: the same trace, the pickled final world *)
  Lemma wrun_sim : forall ops w, wrun_p (pw w) ops = (pw (fst (wrun_v w ops)), snd (wrun_v w ops)).
  Proof.
    induction ops as [|p r IH]; intros w; cbn [wrun_s wrun]; [reflexivity|].
    rewrite wstep_sim. destruct (wstep_v w p) as [w1 t]. cbn [fst snd]. rewrite IH.
    destruct (wrun_v w1 r) as [w2 tr]. reflexivity.
  Qed.
  Lemma serial_trace_w0 : forall ops, snd (wrun_p w0 ops) = snd (wrun_v w0 ops).
  Proof. intros ops. change (@w0 K P F) with (pw w0). rewrite wrun_sim. reflexivity. Qed.

  (* ---------- what a hit returns is rebuilt from the stored bytes (no round-trip hypothesis) ---------- *)
  Hypothesis keqb_spec : forall a b, keqb a b = true <-> a = b.
  Hypothesis feqb_spec : forall a b, feqb a b = true <-> a = b.

  (* e.g. transparency, for the serialised model *)
  Lemma serial_transparent_w0 : (forall a b, key_of a = key_of b -> f a = f b) ->
    forall ops : list (op A K F),
      Forall (fun p => match p with ONew o => opts_ok A K F key_of o | _ => True end) ops ->
      tr_ok A K V F (EV_tr A K V F f) [] (snd (wrun_p w0 ops)).
  Proof.
    intros Hk ops H. rewrite serial_trace_w0.
    exact (memo_transparent_w0 A K V F f key_of thunks vsize keqb feqb keqb_spec feqb_spec Hk ops H).
  Qed.

  (* the serialised model is the by-value model whose values are the pickles, observed through loads *)
  Notation icall_b := (icall A K P F (fun a => dumps (f a)) key_of thunks psize keqb feqb).
  Definition unpickled (a : A) (ev : event K P) : event K V :=
    {| e_ret := if e_ran ev then f a else loads (e_ret ev); e_ran := e_ran ev; e_forced := e_forced ev;
       e_keys := e_keys ev; e_csize := e_csize ev; e_files := e_files ev |}.
  Lemma icall_s_bytes : forall o st d a,
    icall_p o st d a = let '(ev, st', d') := icall_b o st d a in (unpickled a ev, st', d').
  Proof.
    intros o st d a. unfold icall_s, icall.
    destruct (read_cache K P F keqb feqb o st d (memkey A K F key_of o a)) as [[hit st1] d1].
    destruct hit as [p|].
    - reflexivity.
    - destruct (write_cache K P F psize keqb feqb o st1 d1 (memkey A K F key_of o a) (dumps (f a))) as [st2 d2].
      reflexivity.
  Qed.

  Definition fits_s (o : opts K F) (p : P) : Prop := persistent o = true \/ psize p <= max_size o.

  (* from ANY state of the serialised model: a call that executes stores dumps (f a); the next call with the same
     arguments does not execute and returns loads (dumps (f a)), an object rebuilt from those bytes; the stores
     never hold the object that was handed out *)
  Lemma serial_isolation : forall o st d a ev1 st1 d1,
    icall_p o st d a = (ev1, st1, d1) -> e_ran ev1 = true -> fits_s o (dumps (f a)) ->
    forall ev2 st2 d2, icall_p o st1 d1 a = (ev2, st2, d2) ->
      e_ran ev2 = false /\ e_ret ev2 = loads (dumps (f a)) /\ cache st2 = cache st1 /\ d2 = d1.
  Proof.
    intros o st d a ev1 st1 d1 H R Hf ev2 st2 d2 H2. rewrite icall_s_bytes in H, H2.
    destruct (icall_b o st d a) as [[evb st1'] d1'] eqn:E1. injection H as <- <- <-. cbn [unpickled e_ran] in R.
    destruct (icall_cases A K P F (fun a => dumps (f a)) key_of thunks psize keqb feqb
                _ _ _ _ _ _ _ E1) as [C|C]; [destruct C as (C & _); congruence|].
    destruct C as (_ & Rv & _).
    destruct (icall_stores A K P F (fun a => dumps (f a)) key_of thunks psize keqb feqb keqb_spec feqb_spec
                _ _ _ _ _ _ _ E1 Hf) as [I S].
    destruct (icall_hit A K P F (fun a => dumps (f a)) key_of thunks psize keqb feqb
                o st1' d1' a _ I S) as (evh & sth & Eh & Rh & Rvh & _ & Ch & _).
    rewrite Eh in H2. injection H2 as <- <- <-. cbn [unpickled e_ran e_ret]. rewrite Rh, Rvh, Rv. auto.
  Qed.
End Serial.
