(* C02 proofs, part 1: the L0 laws of Spec.Select (exactness, source order, all
   columns intact, independence of row order / derivation, set and sequence lemmas). *)
From Coq Require Import ZArith NArith List Bool String Lia Sorted Permutation.
From DM Require Import Base.PyVal Spec.Nf Spec.Table Spec.Select.
Import ListNotations.
Open Scope nat_scope.

(* ---------- pick / take_pos / all_some *)
Lemma pick_cons {A} p ps (l : list A) :
  pick (p :: ps) l = (match nth_error l p with Some x => [x] | None => [] end) ++ pick ps l.
Proof. reflexivity. Qed.

Lemma pick_app {A} ps qs (l : list A) : pick (ps ++ qs) l = pick ps l ++ pick qs l.
Proof. unfold pick. apply flat_map_app. Qed.

Lemma all_some_map {A B} (g : A -> option B) (h : A -> B) l :
  (forall x, In x l -> g x = Some (h x)) -> all_some (map g l) = Some (map h l).
Proof.
  induction l as [|a l IH]; intros H; cbn; [reflexivity|].
  rewrite (H a (or_introl eq_refl)), IH; [reflexivity|]. intros x Hx. apply H. right. exact Hx.
Qed.

Lemma take_pos_pick {A} ps (l : list A) :
  (forall p, In p ps -> p < List.length l) -> take_pos ps l = Some (pick ps l).
Proof.
  unfold take_pos. induction ps as [|p ps IH]; intros H; cbn; [reflexivity|].
  assert (Hp : p < List.length l) by (apply H; left; reflexivity).
  destruct (nth_error l p) eqn:E; [|apply nth_error_None in E; lia].
  rewrite IH; [reflexivity|]. intros q Hq. apply H. right. exact Hq.
Qed.

Lemma pick_length {A} ps (l : list A) :
  (forall p, In p ps -> p < List.length l) -> List.length (pick ps l) = List.length ps.
Proof.
  induction ps as [|p ps IH]; intros H; [reflexivity|].
  rewrite pick_cons, app_length, IH by (intros q Hq; apply H; right; exact Hq).
  assert (Hp : p < List.length l) by (apply H; left; reflexivity).
  destruct (nth_error l p) eqn:E; [reflexivity|apply nth_error_None in E; lia].
Qed.

Lemma nth_error_pick {A} ps (l : list A) j :
  (forall p, In p ps -> p < List.length l) ->
  nth_error (pick ps l) j = match nth_error ps j with Some p => nth_error l p | None => None end.
Proof.
  revert j. induction ps as [|p ps IH]; intros j H.
  - destruct j; reflexivity.
  - assert (Hp : p < List.length l) by (apply H; left; reflexivity).
    rewrite pick_cons. destruct (nth_error l p) eqn:E; [|apply nth_error_None in E; lia].
    destruct j; cbn; [symmetry; exact E|]. apply IH. intros q Hq. apply H. right. exact Hq.
Qed.

(* ---------- positions_sat: exactly the satisfying positions, in increasing order *)
Lemma positions_sat_in f cells : forall i p,
  In p (positions_sat f cells i) <->
  exists c, i <= p /\ nth_error cells (p - i) = Some c /\ f p c = true.
Proof.
  induction cells as [|c r IH]; intros i p; cbn.
  - split; [tauto|]. intros [x [_ [H _]]]. destruct (p - i); discriminate.
  - destruct (f i c) eqn:E; cbn; rewrite IH; split.
    + intros [->|[x [H1 [H2 H3]]]].
      * exists c. replace (p - p) with 0 by lia. auto.
      * exists x. replace (p - i) with (S (p - S i)) by lia. cbn. split; [lia|auto].
    + intros [x [H1 [H2 H3]]]. destruct (Nat.eq_dec i p) as [->|Hn]; [left; reflexivity|right].
      exists x. replace (p - i) with (S (p - S i)) in H2 by lia. cbn in H2. split; [lia|auto].
    + intros [x [H1 [H2 H3]]]. exists x. replace (p - i) with (S (p - S i)) by lia. cbn. split; [lia|auto].
    + intros [x [H1 [H2 H3]]]. destruct (Nat.eq_dec i p) as [->|Hn].
      * replace (p - p) with 0 in H2 by lia. cbn in H2. inversion H2; subst. congruence.
      * exists x. replace (p - i) with (S (p - S i)) in H2 by lia. cbn in H2. split; [lia|auto].
Qed.

Lemma positions_sat_lt f cells i p : In p (positions_sat f cells i) -> i <= p < i + List.length cells.
Proof.
  intros H. apply positions_sat_in in H as [c [H1 [H2 _]]]. split; [exact H1|].
  assert (p - i < List.length cells) by (apply nth_error_Some; congruence). lia.
Qed.

Lemma positions_sat_sorted f cells : forall i, StronglySorted lt (positions_sat f cells i).
Proof.
  induction cells as [|c r IH]; intros i; cbn; [constructor|].
  destruct (f i c); [|apply IH]. constructor; [apply IH|].
  apply Forall_forall. intros p Hp. apply positions_sat_lt in Hp. lia.
Qed.

(* row-independent tests: positions_sat is Spec.Table.positions_where *)
Lemma positions_sat_where g cells : forall i, positions_sat (fun _ c => g c) cells i = positions_where g cells i.
Proof. induction cells as [|c r IH]; intros i; cbn; [reflexivity|]. rewrite IH. reflexivity. Qed.

Lemma combine_map {A B C} (f : A -> B) (g : A -> C) l :
  combine (map f l) (map g l) = map (fun x => (f x, g x)) l.
Proof. induction l as [|a l IH]; cbn; [reflexivity|]. rewrite IH. reflexivity. Qed.

Lemma map_fst_combine {A B} (a : list A) : forall (b : list B),
  List.length a = List.length b -> map fst (combine a b) = a.
Proof.
  induction a as [|x a IH]; intros [|y b] H; try discriminate; [reflexivity|].
  cbn. rewrite IH by (cbn in H; lia). reflexivity.
Qed.

(* ---------- take: ids and every column picked at the same positions *)
Definition view_pick (ps : list nat) (v : list (string * kind * list val)) :=
  map (fun '(n, k, c) => (n, k, pick ps c)) v.

Lemma map_combine_seq {A B C} (G : A -> option B -> C) (ss : list B) : forall (ns : list A) (pre : list B),
  List.length ns = List.length ss ->
  map (fun '(n, i) => G n (nth_error (pre ++ ss) i)) (combine ns (seq (List.length pre) (List.length ss)))
  = map (fun '(n, s) => G n (Some s)) (combine ns ss).
Proof.
  induction ss as [|s ss IH]; intros ns pre Hl.
  - destruct ns; [reflexivity|discriminate].
  - destruct ns as [|n ns]; [discriminate|]. cbn [List.length seq combine map].
    f_equal.
    + rewrite nth_error_app2 by lia. rewrite Nat.sub_diag. reflexivity.
    + specialize (IH ns (pre ++ [s])). rewrite app_length in IH. cbn in IH.
      replace (List.length pre + 1) with (S (List.length pre)) in IH by lia.
      rewrite <- IH by (cbn in Hl; lia).
      apply map_ext. intros [n' i]. rewrite <- app_assoc. reflexivity.
Qed.

Lemma wf_slot t n i : wf_table t = true -> In (n, i) (names t) ->
  exists s, nth_error (slots t) i = Some s /\ List.length (scells s) = nrows t.
Proof.
  unfold wf_table. intros H Hin. rewrite forallb_forall in H. specialize (H _ Hin). cbn in H.
  destruct (nth_error (slots t) i) as [s|]; [|discriminate]. exists s. split; [reflexivity|].
  apply Nat.eqb_eq. exact H.
Qed.

Theorem take_spec t ps :
  wf_table t = true -> (forall p, In p ps -> p < nrows t) ->
  exists t', take ps t = Some t' /\ ids t' = pick ps (ids t) /\ view t' = view_pick ps (view t)
             /\ fam t' = fam t /\ map fst (names t') = map fst (names t) /\ wf_table t' = true.
Proof.
  intros Hwf Hps. unfold take. rewrite take_pos_pick by exact Hps. unfold derive.
  set (h := fun x : string * nat =>
              match nth_error (slots t) (snd x) with
              | Some s => {| skind := skind s; scells := pick ps (scells s) |}
              | None => {| skind := KMixed; scells := [] |} end).
  rewrite (all_some_map _ h).
  2:{ intros [n i] Hin. destruct (wf_slot t n i Hwf Hin) as [s [Hs Hl]]. unfold h. cbn. rewrite Hs.
      rewrite take_pos_pick by (rewrite Hl; exact Hps). reflexivity. }
  eexists. split; [reflexivity|]. cbn [ids fam names slots].
  assert (Hlen : List.length (map fst (names t)) = List.length (map h (names t))) by (rewrite !map_length; reflexivity).
  assert (Hview : view {| fam := fam t; ids := pick ps (ids t);
                          names := combine (map fst (names t)) (seq 0 (List.length (names t)));
                          slots := map h (names t); tsorted := true; dflt := KMixed |} = view_pick ps (view t)).
  { unfold view. cbn [names slots].
    pose proof (map_combine_seq (fun (n : string) (o : option slot) =>
                  match o with Some s => (n, skind s, scells s) | None => (n, KMixed, []) end)
                  (map h (names t)) (map fst (names t)) [] Hlen) as E.
    cbn [app List.length] in E. rewrite map_length in E.
    etransitivity; [etransitivity; [|exact E]|].
    - apply map_ext. intros [n i]. reflexivity.
    - unfold view_pick. rewrite map_map, combine_map, map_map.
      apply map_ext_in. intros [n i] Hin. cbn [fst].
      unfold h. cbn [snd]. destruct (wf_slot t n i Hwf Hin) as [s [Hs _]]. rewrite Hs. reflexivity. }
  split; [reflexivity|]. split; [exact Hview|]. split; [reflexivity|]. split.
  - rewrite map_fst_combine by (rewrite seq_length, map_length; reflexivity). reflexivity.
  - unfold wf_table. cbn [names slots nrows ids]. apply forallb_forall. intros [n i] Hin.
    apply in_combine_r in Hin as Hi. apply in_seq in Hi.
    destruct (nth_error (map h (names t)) i) as [s|] eqn:E.
    + apply Nat.eqb_eq. apply nth_error_In in E. apply in_map_iff in E as [[n' i'] [<- Hin']].
      destruct (wf_slot t n' i' Hwf Hin') as [s [Hs Hl]]. unfold h. cbn. rewrite Hs. cbn.
      rewrite !pick_length; [reflexivity|exact Hps|rewrite Hl; exact Hps].
    + apply nth_error_None in E. rewrite map_length in E. lia.
Qed.

(* ---------- select: exactly the satisfying rows *)
Definition satp (op : cmpop) (r : ref) (cells : list val) (p : nat) : bool :=
  match nth_error cells p with Some c => sat_at op r p c | None => false end.

Lemma sel_positions_in op r cells p : In p (sel_positions op r cells) <-> satp op r cells p = true.
Proof.
  unfold sel_positions, satp. rewrite positions_sat_in. rewrite Nat.sub_0_r. split.
  - intros [c [_ [H1 H2]]]. rewrite H1. exact H2.
  - destruct (nth_error cells p) as [c|]; [|discriminate]. intros H. exists c. repeat split; [lia|exact H].
Qed.

Lemma lookup_in {A} n (l : list (string * A)) a : lookup n l = Some a -> In (n, a) l.
Proof.
  induction l as [|[m x] l IH]; cbn; [discriminate|].
  destruct (String.eqb n m) eqn:E; [apply String.eqb_eq in E; subst; intros H; inversion H; left; reflexivity|].
  intros H. right. apply IH. exact H.
Qed.

Lemma slot_len t c s : wf_table t = true -> slot_of t c = Some s -> List.length (scells s) = nrows t.
Proof.
  unfold slot_of. intros Hwf H. destruct (lookup c (names t)) as [i|] eqn:E; [|discriminate].
  apply lookup_in in E. destruct (wf_slot t c i Hwf E) as [s' [Hs Hl]]. congruence.
Qed.

Theorem select_exact t c op r s :
  wf_table t = true -> slot_of t c = Some s ->
  let ps := sel_positions op r (scells s) in
  exists t', select t c op r = Some t'
    /\ (forall p, In p ps <-> satp op r (scells s) p = true)
    /\ StronglySorted lt ps
    /\ ids t' = pick ps (ids t) /\ view t' = view_pick ps (view t)
    /\ fam t' = fam t /\ map fst (names t') = map fst (names t) /\ wf_table t' = true.
Proof.
  intros Hwf Hs ps. unfold select. rewrite Hs.
  destruct (take_spec t ps Hwf) as [t' [H1 H2]].
  - intros p Hp. apply positions_sat_lt in Hp. rewrite (slot_len t c s Hwf Hs) in Hp. lia.
  - exists t'. split; [exact H1|]. split; [intros p; apply sel_positions_in|].
    split; [apply positions_sat_sorted|exact H2].
Qed.

(* ---------- independence of row order and derivation *)
Lemma pick_positions_equiv {A} (F G : nat -> val -> bool) (cells : list val) (l : list A) :
  List.length l = List.length cells ->
  forall ps0 i (pre : list A), List.length pre = i ->
  (forall p, In p ps0 -> p < List.length cells) ->
  (forall j p c, nth_error ps0 j = Some p -> nth_error cells p = Some c -> F (i + j) c = G p c) ->
  pick (positions_sat F (pick ps0 cells) i) (pre ++ pick ps0 l)
  = pick (filter (fun p => match nth_error cells p with Some c => G p c | None => false end) ps0) l.
Proof.
  intros Hlen. induction ps0 as [|p q IH]; intros i pre Hpre Hlt HFG; [reflexivity|].
  assert (Hp : p < List.length cells) by (apply Hlt; left; reflexivity).
  destruct (nth_error cells p) as [cp|] eqn:Ec; [|apply nth_error_None in Ec; lia].
  destruct (nth_error l p) as [lp|] eqn:El; [|apply nth_error_None in El; lia].
  rewrite !pick_cons, Ec, El. cbn [app positions_sat filter]. rewrite Ec.
  assert (HF : F i cp = G p cp).
  { rewrite <- (HFG 0 p cp); [f_equal; lia|reflexivity|exact Ec]. }
  assert (Hrest : pick (positions_sat F (pick q cells) (S i)) (pre ++ lp :: pick q l)
                  = pick (filter (fun p0 => match nth_error cells p0 with Some c => G p0 c | None => false end) q) l).
  { replace (pre ++ lp :: pick q l) with ((pre ++ [lp]) ++ pick q l) by (rewrite <- app_assoc; reflexivity).
    apply IH.
    - rewrite app_length. cbn. lia.
    - intros x Hx. apply Hlt. right. exact Hx.
    - intros j x c Hj Hc. rewrite <- (HFG (S j) x c); [f_equal; lia|exact Hj|exact Hc]. }
  rewrite HF. destruct (G p cp).
  - rewrite !pick_cons. rewrite nth_error_app2 by lia. rewrite Hpre, Nat.sub_diag. cbn [nth_error].
    rewrite El. rewrite Hrest. reflexivity.
  - exact Hrest.
Qed.

Definition vlookup (c : string) (v : list (string * kind * list val)) : option (kind * list val) :=
  match find (fun '(n, _, _) => String.eqb c n) v with Some (_, k, cs) => Some (k, cs) | None => None end.

Lemma slot_of_view t c : wf_table t = true ->
  vlookup c (view t) = match slot_of t c with Some s => Some (skind s, scells s) | None => None end.
Proof.
  unfold wf_table, slot_of, view, vlookup. induction (names t) as [|[n i] nm IH]; intros H; [reflexivity|].
  cbn [forallb] in H. apply andb_prop in H as [H1 H2]. cbn [map find lookup].
  destruct (nth_error (slots t) i) as [s|] eqn:E; [|discriminate].
  destruct (String.eqb c n); [rewrite E; reflexivity|]. apply IH. exact H2.
Qed.

Lemma vlookup_pick c ps v :
  vlookup c (view_pick ps v) = match vlookup c v with Some (k, cs) => Some (k, pick ps cs) | None => None end.
Proof.
  unfold vlookup, view_pick. induction v as [|[[n k] cs] v IH]; [reflexivity|].
  cbn [map find]. destruct (String.eqb c n); [reflexivity|exact IH].
Qed.

Lemma view_len t n k cs : wf_table t = true -> In (n, k, cs) (view t) -> List.length cs = nrows t.
Proof.
  intros Hwf Hin. unfold view in Hin. apply in_map_iff in Hin as [[m i] [E Hin]].
  destruct (wf_slot t m i Hwf Hin) as [s [Hs Hl]]. rewrite Hs in E. inversion E; subst. exact Hl.
Qed.

(* Selecting from a table derived from t by taking the rows ps0 (any rearrangement, selection or
   repetition of rows) returns exactly those rows of ps0, in the order of ps0, whose cell in t
   satisfies the comparison; a sequence reference travels with the rows. *)
Theorem select_equivariant t c op r s ps0 t2 :
  wf_table t = true -> slot_of t c = Some s ->
  (forall p, In p ps0 -> p < nrows t) ->
  match r with RSeq vs => List.length vs = nrows t | _ => True end ->
  take ps0 t = Some t2 ->
  exists t2', select t2 c op (reorder_ref ps0 r) = Some t2' /\
    let qs := filter (satp op r (scells s)) ps0 in
    ids t2' = pick qs (ids t) /\ view t2' = view_pick qs (view t).
Proof.
  intros Hwf Hs Hps Hr Ht2.
  destruct (take_spec t ps0 Hwf Hps) as [t2x [E [Hids [Hview [_ [_ Hwf2]]]]]].
  rewrite Ht2 in E. inversion E; subst t2x. clear E.
  pose proof (slot_len t c s Hwf Hs) as Hlen.
  assert (Hs2 : exists s2, slot_of t2 c = Some s2 /\ scells s2 = pick ps0 (scells s)).
  { pose proof (slot_of_view t2 c Hwf2) as V2. rewrite Hview, vlookup_pick, (slot_of_view t c Hwf), Hs in V2.
    destruct (slot_of t2 c) as [s2|]; [|discriminate]. exists s2. split; [reflexivity|]. inversion V2. reflexivity. }
  destruct Hs2 as [s2 [Hs2 Hc2]].
  destruct (select_exact t2 c op (reorder_ref ps0 r) s2 Hwf2 Hs2) as [t2' [Hsel [_ [_ [Hi [Hv _]]]]]].
  exists t2'. split; [exact Hsel|]. cbn zeta.
  assert (HFG : forall j p cell, nth_error ps0 j = Some p -> nth_error (scells s) p = Some cell ->
                 sat_at op (reorder_ref ps0 r) (0 + j) cell = sat_at op r p cell).
  { intros j p cell Hj Hc. destruct r; cbn [reorder_ref sat_at]; try reflexivity.
    rewrite nth_error_pick by (intros x Hx; rewrite Hr; apply Hps; exact Hx). cbn. rewrite Hj. reflexivity. }
  assert (Hps' : forall p, In p ps0 -> p < List.length (scells s)) by (intros p Hp; rewrite Hlen; apply Hps; exact Hp).
  split.
  - rewrite Hi, Hids, Hc2. unfold sel_positions.
    apply (pick_positions_equiv _ (sat_at op r) (scells s) (ids t) (eq_sym Hlen) ps0 0 [] eq_refl Hps' HFG).
  - rewrite Hv, Hview, Hc2. unfold view_pick. rewrite map_map. apply map_ext_in. intros [[n k] cs] Hin.
    f_equal. unfold sel_positions.
    apply (pick_positions_equiv _ (sat_at op r) (scells s) cs) with (pre := []) (i := 0); auto.
    rewrite (view_len t n k cs Hwf Hin). exact (eq_sym Hlen).
Qed.

(* with the identity derivation this is select itself: positions in increasing order *)
Lemma positions_sat_filter f cells : forall i,
  positions_sat f cells i
  = filter (fun p => match nth_error cells (p - i) with Some c => f p c | None => false end) (seq i (List.length cells)).
Proof.
  induction cells as [|c r IH]; intros i; [reflexivity|]. cbn [positions_sat List.length seq filter].
  rewrite Nat.sub_diag. cbn [nth_error]. rewrite IH.
  assert (E : filter (fun p => match nth_error r (p - S i) with Some c0 => f p c0 | None => false end) (seq (S i) (List.length r))
            = filter (fun p => match nth_error (c :: r) (p - i) with Some c0 => f p c0 | None => false end) (seq (S i) (List.length r))).
  { apply filter_ext_in. intros p Hp. apply in_seq in Hp. replace (p - i) with (S (p - S i)) by lia. reflexivity. }
  rewrite E. reflexivity.
Qed.

Lemma sel_positions_filter op r cells :
  sel_positions op r cells = filter (satp op r cells) (seq 0 (List.length cells)).
Proof.
  unfold sel_positions. rewrite positions_sat_filter. apply filter_ext. intros p. rewrite Nat.sub_0_r. reflexivity.
Qed.

Lemma Permutation_filter {A} (f : A -> bool) l l' : Permutation l l' -> Permutation (filter f l) (filter f l').
Proof.
  induction 1; cbn.
  - constructor.
  - destruct (f x); [constructor|]; assumption.
  - destruct (f x), (f y); try (apply Permutation_refl); apply perm_swap.
  - eapply Permutation_trans; eassumption.
Qed.

(* a table holding the same rows in another order yields the same rows (as a multiset of row ids,
   and cell by cell) *)
Theorem select_perm_rows t c op r s ps0 t2 t1' :
  wf_table t = true -> slot_of t c = Some s ->
  Permutation ps0 (seq 0 (nrows t)) ->
  match r with RSeq vs => List.length vs = nrows t | _ => True end ->
  take ps0 t = Some t2 -> select t c op r = Some t1' ->
  exists t2', select t2 c op (reorder_ref ps0 r) = Some t2' /\ Permutation (ids t2') (ids t1').
Proof.
  intros Hwf Hs Hperm Hr Ht2 Ht1.
  assert (Hps : forall p, In p ps0 -> p < nrows t).
  { intros p Hp. apply (Permutation_in _ Hperm) in Hp. apply in_seq in Hp. lia. }
  destruct (select_equivariant t c op r s ps0 t2 Hwf Hs Hps Hr Ht2) as [t2' [Hsel [Hi _]]].
  exists t2'. split; [exact Hsel|].
  destruct (select_exact t c op r s Hwf Hs) as [t1x [E [_ [_ [Hi1 _]]]]]. rewrite Ht1 in E. inversion E; subst t1x.
  rewrite Hi, Hi1, sel_positions_filter, (slot_len t c s Hwf Hs). unfold pick.
  apply Permutation_flat_map. apply Permutation_filter. exact Hperm.
Qed.

(* ---------- the reference kinds *)
Lemma select_seq_rowwise op vs i cell :
  sat_at op (RSeq vs) i cell = match nth_error vs i with Some v => py_cmp op cell v | None => false end.
Proof. reflexivity. Qed.

Lemma select_set_eq_any vs i cell :
  sat_at CEq (RSet vs) i cell = true <-> exists v, In v vs /\ py_cmp CEq cell v = true.
Proof. cbn. rewrite existsb_exists. reflexivity. Qed.

Lemma select_set_ne_all vs i cell :
  sat_at CNe (RSet vs) i cell = true <-> forall v, In v vs -> py_cmp CEq cell v = false.
Proof.
  cbn. rewrite forallb_forall. split; intros H v Hv; specialize (H v Hv).
  - destruct cell, v; cbn in *; try discriminate; try reflexivity;
      try (apply negb_true_iff in H; exact H).
  - destruct cell, v; cbn in *; try discriminate; try reflexivity;
      try (apply negb_true_iff; exact H).
Qed.

Lemma nan_only_by_eq_nan op r i :
  sat_at op (RScalar r) i (VFlt FNan) = true -> (op = CEq /\ is_nan_val r = true) \/ op = CNe.
Proof.
  cbn. unfold sat_scalar. destruct (is_nan_val r) eqn:E.
  - destruct op; cbn; intros H; try discriminate; auto.
  - destruct r as [z|f|s0|]; destruct op; cbn; intros H; try discriminate; auto;
      destruct f; cbn in *; try discriminate.
Qed.

Lemma eq_nan_selects_nan i cell : sat_at CEq (RScalar (VFlt FNan)) i cell = is_nan_val cell.
Proof. reflexivity. Qed.
