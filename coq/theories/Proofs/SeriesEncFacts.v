(* Series columns inside the positional model (Spec/SeriesEnc.v): every
   series-specific operation is a finite sequence of alphabet operations, so the
   invariant over all histories and the frame property carry over. *)
From Coq Require Import ZArith NArith List Bool String Lia.
From DM Require Import Base.PyVal Spec.Nf Spec.Table Spec.Ops Spec.SeriesEnc Proofs.ListX Proofs.TableFacts.
Import ListNotations.

Lemma run_ops_wf ops : forall w, wwf w -> wwf (fst (run_ops w ops)).
Proof.
  induction ops as [|o r IH]; intros w Hw; [exact Hw|].
  destruct r as [|o2 r'].
  - cbn [run_ops]. apply step_wf; assumption.
  - change (run_ops w (o :: o2 :: r')) with
      (let '(w', out) := step w o in match out with OkUnit | OkNew => run_ops w' (o2 :: r') | _ => (w', out) end).
    pose proof (step_wf w o Hw) as H1. destruct (step w o) as [w' out]. cbn [fst] in H1.
    destruct out; cbn [fst]; try assumption; apply IH; assumption.
Qed.

Theorem sstep_wf w so : wwf w -> wwf (fst (sstep w so)).
Proof. intros Hw. unfold sstep. destruct so; try (apply run_ops_wf; assumption). exact Hw. Qed.

Theorem srun_wf sops : forall w, wwf w -> wwf (srun sops w).
Proof.
  unfold srun. induction sops as [|so r IH]; intros w Hw; cbn [fold_left]; [assumption|].
  apply IH. apply sstep_wf. assumption.
Qed.

Corollary srun_wf0 sops : wwf (srun sops w0).
Proof. apply srun_wf. constructor. Qed.

(* ---------- frame ---------- *)
Lemma set_cells_pool_len w ti t name a r :
  List.length (pool (fst (set_cells w ti t name a r))) = List.length (pool w).
Proof.
  unfold set_cells.
  repeat match goal with
         | |- context [match ?x with _ => _ end] => destruct x
         end; cbn [fst]; unfold put; cbn [pool]; rewrite ?set_nth_length; reflexivity.
Qed.

Lemma pool_len_step w o : List.length (pool w) <= List.length (pool (fst (step w o))).
Proof.
  destruct o; cbn [step].
  5: { (* OSetCell *)
    destruct (get w t) as [tb|]; cbn [fst]; [|lia].
    destruct a; try (rewrite set_cells_pool_len; lia).
    destruct (norm_index (nrows tb) i); cbn [fst]; [|lia].
    match goal with |- context [set_cells ?w1 ?a ?b ?c ?d ?e] =>
      pose proof (set_cells_pool_len w1 a b c d e) as Hs; destruct (set_cells w1 a b c d e) as [w2 out] end.
    cbn [fst] in *. rewrite Hs. unfold put. cbn [pool]. rewrite set_nth_length. lia. }
  all: unfold push_opt;
    repeat match goal with
           | |- context [match ?x with _ => _ end] => destruct x
           end; cbn [fst]; unfold put, push; cbn [pool]; rewrite ?set_nth_length, ?app_length; cbn [List.length]; lia.
Qed.

Lemma run_ops_frame ops : forall w j,
  j < List.length (pool w) -> Forall (fun o => target o <> Some j) ops -> get (fst (run_ops w ops)) j = get w j.
Proof.
  induction ops as [|o r IH]; intros w j Hj Hall; [reflexivity|].
  inversion Hall as [|? ? Ho Hr]; subst.
  destruct r as [|o2 r'].
  - cbn [run_ops]. apply step_frame; assumption.
  - change (run_ops w (o :: o2 :: r')) with
      (let '(w', out) := step w o in match out with OkUnit | OkNew => run_ops w' (o2 :: r') | _ => (w', out) end).
    pose proof (step_frame w o j Hj Ho) as Hf. pose proof (pool_len_step w o) as Hl.
    destruct (step w o) as [w' out]. cbn [fst] in Hf, Hl.
    destruct out; cbn [fst]; try exact Hf; (rewrite IH; [exact Hf|lia|exact Hr]).
Qed.

Lemma starget_plain o : starget (SPlain o) = target o.
Proof. destruct o; reflexivity. Qed.

Lemma Forall_map_const {A} (f : A -> op) (l : list A) (P : op -> Prop) :
  (forall a, P (f a)) -> Forall P (map f l).
Proof. intros H. induction l; constructor; auto. Qed.

(* a series operation changes at most its target table *)
Theorem sstep_frame w so j :
  j < List.length (pool w) -> starget so <> Some j -> get (fst (sstep w so)) j = get w j.
Proof.
  intros Hj Ht. unfold sstep.
  destruct so as [o|t name d d0|t name d a v|t name a js r|t name d0 d|t old new d ident|t name d|t name d0 t2 name2 d
                  |t t2 i|t n cols|t e|]; cbn [starget] in Ht; try reflexivity.
  - (* SPlain *) cbn [expand run_ops]. apply step_frame; [assumption|]. rewrite <- starget_plain. exact Ht.
  - apply run_ops_frame; [assumption|]. cbn [expand]. apply Forall_app.
    split; apply Forall_map_const; intros x; cbn [target]; exact Ht.
  - apply run_ops_frame; [assumption|]. cbn [expand]. destruct (svalue_fits v d).
    + apply Forall_map_const; intros b; cbn [target]; exact Ht.
    + constructor; [cbn [target]; exact Ht|constructor].
  - apply run_ops_frame; [assumption|]. cbn [expand]. apply Forall_map_const; intros b; cbn [target]; exact Ht.
  - apply run_ops_frame; [assumption|]. cbn [expand]. apply Forall_app.
    split; apply Forall_map_const; intros x; cbn [target]; exact Ht.
  - apply run_ops_frame; [assumption|]. cbn [expand]. apply Forall_map_const; intros x; cbn [target]; exact Ht.
  - apply run_ops_frame; [assumption|]. cbn [expand]. apply Forall_map_const; intros x; cbn [target]; exact Ht.
  - apply run_ops_frame; [assumption|]. cbn [expand]. apply Forall_app.
    split; apply Forall_map_const; intros x; cbn [target]; exact Ht.
  - (* SConcatRow: two new pool members, no existing one touched *)
    apply run_ops_frame; [assumption|]. cbn [expand]. repeat constructor; cbn [target]; discriminate.
  - (* SConcatDict: the table built from the dict is a NEW pool member (index = old pool length) *)
    apply run_ops_frame; [assumption|]. cbn [expand]. constructor; [cbn [target]; discriminate|].
    apply Forall_app. split.
    + apply Forall_forall. intros o Ho. apply in_flat_map in Ho. destruct Ho as [[nm vs] [_ Ho]].
      destruct Ho as [<-|[<-|[]]]; cbn [target]; intros H; injection H as H; lia.
    + repeat constructor. cbn [target]. discriminate.
  - (* SOut: the out-of-model marker changes nothing *)
    cbn [expand run_ops step]. destruct (get w 0); reflexivity.
Qed.

(* pseudo-column names of different samples differ, and never collide with a name without '#' *)
Lemma sample_rhs_scalar x j : sample_rhs (SVScalar x) j = RScalar x.
Proof. reflexivity. Qed.

(* ---------- C04 for series columns: a series assignment touches only the pseudo-columns of that series ---------- *)
From DM Require Import Proofs.OpFacts.

Definition untouched (S : list nat) (tb tb' : table) : Prop :=
  ids tb' = ids tb /\ names tb' = names tb /\ fam tb' = fam tb
  /\ List.length (slots tb') = List.length (slots tb)
  /\ forall sj, ~ In sj S -> nth_error (slots tb') sj = nth_error (slots tb) sj.

Lemma untouched_refl S tb : untouched S tb tb.
Proof. repeat split; reflexivity. Qed.
Lemma untouched_trans S a b c : untouched S a b -> untouched S b c -> untouched S a c.
Proof.
  intros (A1 & A2 & A3 & A4 & A5) (B1 & B2 & B3 & B4 & B5). repeat split; try congruence.
  intros sj H. rewrite B5, A5 by assumption. reflexivity.
Qed.

Lemma get_after_set_cells w ti tb nm a r :
  get w ti = Some tb -> exists tb', get (fst (set_cells w ti tb nm a r)) ti = Some tb'.
Proof.
  intros Hg. pose proof (get_lt _ _ _ Hg) as Hlt.
  pose proof (set_cells_pool_len w ti tb nm a r) as Hl.
  unfold get. destruct (nth_error (pool (fst (set_cells w ti tb nm a r))) ti) as [x|] eqn:E; [eauto|].
  apply nth_error_None in E. lia.
Qed.

Lemma setcell_step_untouched w t tb nm a r si S :
  get w t = Some tb -> lookup nm (names tb) = Some si -> In si S ->
  exists tb', get (fst (step w (OSetCell t nm a r))) t = Some tb' /\ untouched S tb tb'.
Proof.
  intros Hg Hl Hin. pose proof (get_lt _ _ _ Hg) as Hlt.
  assert (Hone : forall w1, get w1 t = Some tb -> forall a1,
            exists tb', get (fst (set_cells w1 t tb nm a1 r)) t = Some tb' /\ untouched S tb tb').
  { intros w1 Hg1 a1. destruct (get_after_set_cells w1 t tb nm a1 r Hg1) as [tb' Ht'].
    exists tb'. split; [exact Ht'|].
    destruct (set_cells_one_slot w1 t tb nm a1 r tb' si Hg1 Hl Ht') as (H1 & H2 & H3 & H4 & H5).
    repeat split; try assumption. intros sj Hn. apply H5. intros ->. contradiction. }
  cbn [step]. rewrite Hg.
  destruct a as [i|x y|l|t2|i]; try (apply Hone; assumption).
  destruct (norm_index (nrows tb) i); cbn [fst]; [|exists tb; split; [assumption|apply untouched_refl]].
  assert (Hh : has_name tb nm = true) by (unfold has_name; rewrite Hl; reflexivity).
  rewrite Hh.
  assert (Hg1 : get (put w t tb) t = Some tb) by (apply get_put_same; assumption).
  destruct (Hone (put w t tb) Hg1 (ARow i)) as [tb' [Ht' Hu]].
  destruct (set_cells (put w t tb) t tb nm (ARow i) r) as [w2 out]. cbn [fst] in *.
  exists tb'. split; assumption.
Qed.

Lemma setcells_run_untouched t a S (f : nat -> rhs) nmf js :
  forall w tb,
  get w t = Some tb ->
  Forall (fun j => exists si, lookup (nmf j) (names tb) = Some si /\ In si S) js ->
  exists tb', get (fst (run_ops w (map (fun j => OSetCell t (nmf j) a (f j)) js))) t = Some tb' /\ untouched S tb tb'.
Proof.
  induction js as [|j r IH]; intros w tb Hg Hall.
  - cbn [map run_ops fst]. exists tb. split; [assumption|apply untouched_refl].
  - inversion Hall as [|? ? [si [Hl Hin]] Hr]; subst.
    destruct (setcell_step_untouched w t tb (nmf j) a (f j) si S Hg Hl Hin) as [tb1 [Hg1 Hu1]].
    destruct r as [|j2 r'].
    + cbn [map run_ops]. exists tb1. split; assumption.
    + cbn [map]. cbn [map] in IH.
      change (run_ops w (OSetCell t (nmf j) a (f j) :: OSetCell t (nmf j2) a (f j2) :: map (fun j => OSetCell t (nmf j) a (f j)) r'))
        with (let '(w', out) := step w (OSetCell t (nmf j) a (f j)) in
              match out with
              | OkUnit | OkNew => run_ops w' (OSetCell t (nmf j2) a (f j2) :: map (fun j => OSetCell t (nmf j) a (f j)) r')
              | _ => (w', out) end).
      destruct (step w (OSetCell t (nmf j) a (f j))) as [w' out]. cbn [fst] in Hg1.
      assert (Hr1 : Forall (fun j => exists si, lookup (nmf j) (names tb1) = Some si /\ In si S) (j2 :: r')).
      { destruct Hu1 as (_ & Hn & _). rewrite Hn. exact Hr. }
      destruct out; cbn [fst]; try (exists tb1; split; assumption);
        destruct (IH w' tb1 Hg1 Hr1) as [tb2 [Hg2 Hu2]]; exists tb2; (split; [exact Hg2|eapply untouched_trans; eassumption]).
Qed.

(* the slots bound to the pseudo-columns of series `name` *)
Definition series_slots (tb : table) (name : string) (js : list nat) : list nat :=
  flat_map (fun j => match lookup (sname name j) (names tb) with Some si => [si] | None => [] end) js.

Lemma series_slots_all tb name js :
  Forall (fun j => has_name tb (sname name j) = true) js ->
  Forall (fun j => exists si, lookup (sname name j) (names tb) = Some si /\ In si (series_slots tb name js)) js.
Proof.
  intros H. apply Forall_forall. intros j Hj. rewrite Forall_forall in H. specialize (H j Hj).
  unfold has_name in H. destruct (lookup (sname name j) (names tb)) as [si|] eqn:E; [|discriminate].
  exists si. split; [reflexivity|]. unfold series_slots. apply in_flat_map. exists j. split; [assumption|].
  rewrite E. left. reflexivity.
Qed.

(* dm[name][a] = v on a series column of depth d: the row ids, the names and every column that is not a sample of
   that series stay as they are, whatever the addressing form, the shape of the value and the outcome *)
Theorem sset_touches_only_its_series w t tb name d a v :
  get w t = Some tb -> svalue_fits v d = true ->
  Forall (fun j => has_name tb (sname name j) = true) (upto (Nat.max 1 d)) ->
  exists tb', get (fst (sstep w (SSet t name d a v))) t = Some tb'
              /\ untouched (series_slots tb name (upto (Nat.max 1 d))) tb tb'.
Proof.
  intros Hg Hf Hall. unfold sstep. cbn [expand]. rewrite Hf.
  apply (setcells_run_untouched t a _ (sample_rhs v) (sname name)); [assumption|].
  apply series_slots_all. assumption.
Qed.

Theorem ssetsample_touches_only_its_samples w t tb name a js r :
  get w t = Some tb ->
  Forall (fun j => has_name tb (sname name j) = true) js ->
  exists tb', get (fst (sstep w (SSetSample t name a js r))) t = Some tb'
              /\ untouched (series_slots tb name js) tb tb'.
Proof.
  intros Hg Hall. unfold sstep. cbn [expand].
  apply (setcells_run_untouched t a _ (fun _ => r) (sname name)); [assumption|].
  apply series_slots_all. assumption.
Qed.
