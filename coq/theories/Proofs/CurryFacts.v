From Coq Require Import ZArith List Bool Lia.
From DM Require Import Gen.KCurry Model.Curry.
Import ListNotations.
Open Scope Z_scope.

Section Facts.
  Variables (A R : Type) (f : list A -> R).
  Notation curried := (curried A).
  Notation call := (call A R f).
  Notation run := (run A R f).

  Definition nbound (ch : list (list A)) : Z := Z.of_nat (length (concat ch)).

  (* characterising lemma for the generated kernels: the loop computes
     arity - (number of bound arguments) *)
  Lemma fold_nbound (ch : list (list A)) (z : Z) :
    fold_left (fun nb link => k_nbound_step nb (lenZ link)) ch z = z + nbound ch.
  Proof.
    revert z; induction ch as [|l ch IH]; intros z; cbn [fold_left].
    - unfold nbound; simpl; lia.
    - rewrite IH. unfold k_nbound_step, nbound, lenZ. simpl concat.
      rewrite app_length. lia.
  Qed.

  Lemma unbound_spec (c : curried) : unbound A c = arity c - nbound (chain c).
  Proof. unfold unbound, k_unbound. rewrite fold_nbound. lia. Qed.

  Lemma call_now_spec u n : k_call_now u n = true <-> u = n.
  Proof. unfold k_call_now. rewrite ?Z.eqb_eq. lia. Qed.

  Lemma call_val (c : curried) args :
    arity c - nbound (chain c) = lenZ args ->
    call c args = Val (f (concat (chain c) ++ args)).
  Proof.
    intros H. unfold call. rewrite unbound_spec.
    destruct (k_call_now _ _) eqn:E; [reflexivity|].
    apply call_now_spec in H. congruence.
  Qed.

  Lemma call_fn (c : curried) args :
    arity c - nbound (chain c) <> lenZ args ->
    call c args = Fn {| arity := arity c; chain := chain c ++ [args] |}.
  Proof.
    intros H. unfold call. rewrite unbound_spec.
    destruct (k_call_now _ _) eqn:E; [|reflexivity].
    apply call_now_spec in E. contradiction.
  Qed.

  Lemma nbound_snoc ch a : nbound (ch ++ [a]) = nbound ch + lenZ a.
  Proof. unfold nbound, lenZ. rewrite concat_app, app_length. simpl. rewrite app_nil_r. lia. Qed.

  Definition nonempty (l : list A) : Prop := l <> [].

  Lemma lenZ_pos l : nonempty l -> 0 < lenZ l.
  Proof. destruct l; unfold nonempty, lenZ; simpl; [congruence|lia]. Qed.

  (* Main induction: from any curried object whose remaining arity is exactly
     the number of arguments still to come, feeding the chunks yields f on
     everything bound so far plus the chunks. *)
  Lemma run_exact (chunks : list (list A)) : forall (c : curried),
    chunks <> [] -> Forall nonempty chunks ->
    arity c - nbound (chain c) = Z.of_nat (length (concat chunks)) ->
    run c chunks = Val (f (concat (chain c) ++ concat chunks)).
  Proof.
    induction chunks as [|ch rest IH]; intros c Hne Hall Hlen; [congruence|].
    cbn [Curry.run]. inversion Hall as [|x l Hch Hrest]; subst.
    destruct rest as [|ch2 rest].
    - simpl concat in *. rewrite app_nil_r in *.
      rewrite call_val by (unfold lenZ; lia). reflexivity.
    - assert (Hpos : 0 < Z.of_nat (length (concat (ch2 :: rest)))).
      { inversion Hrest as [|y l' Hch2 _]; subst. apply lenZ_pos in Hch2.
        unfold lenZ in Hch2. simpl concat. rewrite app_length. lia. }
      rewrite call_fn.
      all: change (concat (ch :: ch2 :: rest)) with (ch ++ concat (ch2 :: rest)) in *.
      2:{ rewrite app_length in Hlen. unfold lenZ. lia. }
      rewrite IH; [|congruence|assumption|].
      + cbn [chain]. rewrite concat_app. simpl (concat [ch]). rewrite app_nil_r.
        rewrite <- !app_assoc. reflexivity.
      + cbn [chain arity]. rewrite nbound_snoc.
        rewrite app_length in Hlen. unfold lenZ. lia.
  Qed.

  (* A proper prefix never calls f: it returns a callable whose state is the
     chain extended by the prefix. *)
  Lemma run_prefix (chunks : list (list A)) : forall (c : curried),
    Forall nonempty chunks ->
    Z.of_nat (length (concat chunks)) < arity c - nbound (chain c) ->
    run c chunks = Fn {| arity := arity c; chain := chain c ++ chunks |}.
  Proof.
    induction chunks as [|ch rest IH]; intros c Hall Hlt.
    - simpl. rewrite app_nil_r. destruct c; reflexivity.
    - cbn [Curry.run]. inversion Hall as [|x l Hch Hrest]; subst.
      simpl concat in Hlt. rewrite app_length in Hlt.
      assert (0 <= Z.of_nat (length (concat rest))) by lia.
      rewrite call_fn by (unfold lenZ; lia).
      rewrite IH; [|assumption|].
      + cbn [arity chain]. rewrite <- app_assoc. reflexivity.
      + cbn [arity chain]. rewrite nbound_snoc. unfold lenZ. lia.
  Qed.

  Theorem curry_any_grouping (n : nat) (chunks : list (list A)) :
    Forall nonempty chunks -> length (concat chunks) = n -> (0 < n)%nat ->
    run (curry A n) chunks = Val (f (concat chunks)).
  Proof.
    intros Hall Hlen Hn.
    rewrite run_exact; [reflexivity| |assumption|].
    - intros ->. simpl in Hlen. lia.
    - unfold curry, nbound; simpl. lia.
  Qed.

  (* Every proper prefix is callable and reusable: whatever continuation
     completes it, the result is f on prefix ++ continuation; since curried
     objects are values, using one continuation does not consume the prefix. *)
  Theorem curry_prefix_reusable (n : nat) (pre : list (list A)) :
    Forall nonempty pre -> (length (concat pre) < n)%nat ->
    exists c, run (curry A n) pre = Fn c /\
      forall cont, cont <> [] -> Forall nonempty cont ->
        (length (concat pre) + length (concat cont) = n)%nat ->
        run c cont = Val (f (concat pre ++ concat cont)).
  Proof.
    intros Hall Hlt.
    eexists; split.
    - apply run_prefix; [assumption|]. unfold curry, nbound; simpl. lia.
    - intros cont Hne Hc Hlen. rewrite run_exact; [reflexivity|assumption|assumption|].
      cbn [arity chain curry]. simpl app. unfold nbound. lia.
  Qed.

  (* Exactly-once: with a full argument list split into chunks, f is applied
     to the argument list only at the last chunk (all earlier results are Fn). *)
  Theorem curry_no_early_call (n : nat) (pre : list (list A)) :
    Forall nonempty pre -> (length (concat pre) < n)%nat ->
    forall r, run (curry A n) pre <> Val r.
  Proof.
    intros Hall Hlt r. rewrite run_prefix; [discriminate|assumption|].
    unfold curry, nbound; simpl. lia.
  Qed.
End Facts.
