(* List lemmas shared by the table proofs. *)
From Coq Require Import ZArith NArith List Bool Lia Arith.
From DM Require Import Spec.Table.
Import ListNotations.
Open Scope nat_scope.

Lemma set_nth_length {A} i (x : A) l : List.length (set_nth i x l) = List.length l.
Proof. revert i; induction l as [|a l IH]; intros [|i]; cbn [set_nth List.length]; auto. Qed.

Lemma set_nth_same {A} i (x : A) l : i < List.length l -> nth_error (set_nth i x l) i = Some x.
Proof.
  revert i; induction l as [|a l IH]; intros [|i] H; cbn [set_nth nth_error List.length] in *; try lia; auto.
  apply IH; lia.
Qed.

Lemma set_nth_other {A} i j (x : A) l : i <> j -> nth_error (set_nth i x l) j = nth_error l j.
Proof.
  revert i j; induction l as [|a l IH]; intros [|i] [|j] H; cbn [set_nth nth_error]; try reflexivity; try lia.
  apply IH; lia.
Qed.

Lemma all_some_spec {A} (l : list (option A)) r :
  all_some l = Some r <-> l = map Some r.
Proof.
  revert r; induction l as [|[a|] l IH]; intros r; cbn [all_some].
  - split; [intros H; inversion H; reflexivity| destruct r; [reflexivity|discriminate]].
  - destruct (all_some l) as [x|] eqn:E.
    + split.
      * intros H; inversion H; subst. cbn [map]. f_equal. apply IH. reflexivity.
      * destruct r as [|b r]; [discriminate|]. cbn [map]. intros H. injection H as Ha Hl.
        subst a. apply (proj2 (IH r)) in Hl. congruence.
    + split; [discriminate|]. destruct r as [|b r]; [discriminate|]. cbn [map]. intros H. injection H as Ha Hl.
      apply (proj2 (IH r)) in Hl. discriminate.
  - split; [discriminate|]. destruct r; discriminate.
Qed.

Lemma all_some_length {A} (l : list (option A)) r : all_some l = Some r -> List.length r = List.length l.
Proof. intros H. apply all_some_spec in H. subst. rewrite map_length. reflexivity. Qed.

Lemma take_pos_spec {A} ps (l : list A) r :
  take_pos ps l = Some r <-> map (nth_error l) ps = map Some r.
Proof. unfold take_pos. apply all_some_spec. Qed.

Lemma take_pos_length {A} ps (l : list A) r : take_pos ps l = Some r -> List.length r = List.length ps.
Proof. unfold take_pos. intros H. apply all_some_length in H. rewrite map_length in H. exact H. Qed.

Lemma take_pos_nth {A} ps (l : list A) r i p :
  take_pos ps l = Some r -> nth_error ps i = Some p -> nth_error r i = nth_error l p.
Proof.
  intros H Hp. apply take_pos_spec in H.
  assert (E : nth_error (map (nth_error l) ps) i = nth_error (map Some r) i) by (rewrite H; reflexivity).
  rewrite !nth_error_map, Hp in E. cbn [option_map] in E.
  destruct (nth_error r i); cbn [option_map] in E; congruence.
Qed.

Lemma take_pos_total {A} ps (l : list A) :
  Forall (fun p => p < List.length l) ps -> exists r, take_pos ps l = Some r.
Proof.
  induction ps as [|p ps IH]; intros H; [exists []; reflexivity|].
  inversion H as [|? ? Hp Hrest]; subst. destruct (IH Hrest) as [r Hr].
  destruct (nth_error l p) as [a|] eqn:E; [|apply nth_error_None in E; lia].
  exists (a :: r). unfold take_pos in *. cbn [map all_some]. rewrite E, Hr. reflexivity.
Qed.

Lemma take_pos_seq_firstn {A} m (l : list A) : m <= List.length l -> take_pos (seq 0 m) l = Some (firstn m l).
Proof.
  intros H. apply take_pos_spec.
  revert m H; induction l as [|a l IH]; intros m H.
  - cbn [List.length] in H. assert (m = 0) by lia. subst. reflexivity.
  - destruct m as [|m]; [reflexivity|]. cbn [seq map firstn nth_error]. f_equal.
    rewrite <- seq_shift, map_map. cbn [nth_error]. apply IH. cbn [List.length] in H. lia.
Qed.

(* the rows taken at duplicate-free positions of a duplicate-free list are duplicate-free *)
Lemma take_pos_NoDup {A} ps (l : list A) r :
  NoDup l -> NoDup ps -> take_pos ps l = Some r -> NoDup r.
Proof.
  intros Hl Hps H. apply take_pos_spec in H.
  revert r H; induction ps as [|p ps IH]; intros r H.
  - destruct r; [constructor|discriminate].
  - destruct r as [|a r]; [discriminate|]. cbn [map] in H. injection H as Ha H2.
    inversion Hps as [|? ? Hnotin Hps']; subst.
    constructor; [|apply IH; assumption].
    intros Hin. apply In_nth_error in Hin. destruct Hin as [i Hi].
    assert (E : nth_error (map Some r) i = Some (Some a)) by (rewrite nth_error_map, Hi; reflexivity).
    rewrite <- H2, nth_error_map in E. destruct (nth_error ps i) as [q|] eqn:Eq; [|discriminate].
    cbn [option_map] in E. inversion E as [E'].
    assert (q = p).
    { rewrite NoDup_nth_error in Hl. apply Hl; [apply nth_error_Some; congruence | congruence]. }
    subst q. apply Hnotin. eapply nth_error_In; eassumption.
Qed.

Lemma nodup_nat_NoDup l : nodup_nat l = true <-> NoDup l.
Proof.
  assert (M : forall x l, mem_nat x l = true <-> In x l).
  { intros x l0. induction l0 as [|y l0 IH]; cbn [mem_nat]; [split; [discriminate|intros []]|].
    rewrite orb_true_iff, IH, Nat.eqb_eq. simpl. split; intros [H|H]; auto. }
  induction l as [|x l IH]; cbn [nodup_nat]; [split; [constructor|reflexivity]|].
  rewrite andb_true_iff, negb_true_iff, IH. split.
  - intros [H1 H2]. constructor; [|assumption]. rewrite <- M. congruence.
  - intros H. inversion H; subst. split; [|assumption]. destruct (mem_nat x l) eqn:E; [|reflexivity].
    apply M in E. contradiction.
Qed.

Lemma iotaN_In x s n : In x (iotaN s n) <-> (s <= x < s + N.of_nat n)%N.
Proof.
  revert s; induction n as [|n IH]; intros s; cbn [iotaN]; [simpl; lia|].
  simpl In. rewrite IH. lia.
Qed.
Lemma iotaN_NoDup s n : NoDup (iotaN s n).
Proof.
  revert s; induction n as [|n IH]; intros s; cbn [iotaN]; constructor; [|apply IH].
  rewrite iotaN_In. lia.
Qed.
Lemma iotaN_length s n : List.length (iotaN s n) = n.
Proof. revert s; induction n; intros s; cbn [iotaN List.length]; auto. Qed.
Lemma maxN_ge x l : In x l -> (x <= maxN l)%N.
Proof. induction l as [|y l IH]; intros H; [destruct H|]. cbn [maxN]. destruct H as [->|H]; [lia|specialize (IH H); lia]. Qed.
