(* Proofs for C17, JSON and pandas part: the round trip through to_json /
   from_json gives the column listing on fresh row ids; to_json is injective
   on what the property names; to_pandas' payload is the listing. *)
From Coq Require Import ZArith NArith List Bool String Ascii Permutation Lia.
From DM Require Import Base.PyVal Base.PersistPy Spec.Nf Spec.Table Model.LTable Spec.Persist Gen.KPersist Model.Persist
  Proofs.PersistFacts.
Import ListNotations.
Open Scope string_scope.

Lemma k_to_list_sorts_spec b : k_to_list_sorts b = b.
Proof. destruct b; reflexivity. Qed.

Lemma kind_of_typename_typename k : kind_of_typename (typename k) = Some k.
Proof. destruct k; reflexivity. Qed.

(* ---------- nodup_str *)
Lemma existsb_eqb_In x l : existsb (String.eqb x) l = true <-> In x l.
Proof.
  rewrite existsb_exists. split.
  - intros [y [Hin E]]. apply String.eqb_eq in E. subst. exact Hin.
  - intro H. exists x. split; auto. apply String.eqb_refl.
Qed.
Lemma nodup_str_NoDup l : nodup_str l = true <-> NoDup l.
Proof.
  induction l as [|x r IH]; simpl.
  - split; auto. constructor.
  - rewrite andb_true_iff, negb_true_iff, IH. split.
    + intros [H1 H2]. constructor; auto. intro Hin. apply existsb_eqb_In in Hin. congruence.
    + intro H. inversion H; subst. split; auto.
      destruct (existsb (String.eqb x) r) eqn:E; auto. apply existsb_eqb_In in E. contradiction.
Qed.

(* ---------- the listing, on the object graph and on the abstract table *)
Definition vimg (t : ltable) (ni : string * nat) : vcol :=
  match nth_error (l_cols t) (snd ni) with
  | Some c => (fst ni, lc_kind c, lc_cells c)
  | None => (fst ni, KMixed, [])
  end.
Lemma fst_vimg t ni : fst (fst (vimg t ni)) = fst ni.
Proof. unfold vimg. destruct (nth_error (l_cols t) (snd ni)); reflexivity. Qed.

Lemma view_abs t : view (abs t) = map (vimg t) (l_names t).
Proof.
  unfold view, abs. simpl. apply map_ext. intros [n i]. unfold vimg. simpl.
  rewrite nth_error_map. destruct (nth_error (l_cols t) i); reflexivity.
Qed.

Lemma ins_col_map {A} (f : string * A -> vcol) (x : string * A) l :
  (forall y, fst (fst (f y)) = fst y) -> ins_col (f x) (map f l) = map f (ins_key x l).
Proof.
  intro H. induction l as [|y r IH]; simpl; auto.
  rewrite !H. destruct (str_leb (fst x) (fst y)); simpl; auto. rewrite IH. reflexivity.
Qed.
Lemma sort_col_map {A} (f : string * A -> vcol) l :
  (forall y, fst (fst (f y)) = fst y) -> fold_right ins_col [] (map f l) = map f (sort_key l).
Proof.
  intro H. induction l; simpl; auto. rewrite IHl. apply ins_col_map, H.
Qed.

Lemma listing_abs t : listing (abs t) = map (vimg t) (to_list (l_sorted t) (l_names t)).
Proof.
  unfold listing, to_list. rewrite k_to_list_sorts_spec, view_abs. simpl.
  destruct (l_sorted t); auto. apply sort_col_map, fst_vimg.
Qed.

(* ---------- to_pandas: the dict handed to pandas.DataFrame is the listing (names and cells) *)
Theorem to_pandas_payload t :
  pandas_payload t = map (fun v : vcol => (fst (fst v), snd v)) (listing (abs t)).
Proof.
  rewrite listing_abs, map_map. unfold pandas_payload. apply map_ext. intros [n i]. unfold vimg. simpl.
  destruct (nth_error (l_cols t) i); reflexivity.
Qed.

(* ---------- view of a table whose names are numbered 0..m-1 *)
Lemma view_numbered (ns : list string) : forall (ss pre : list slot),
  List.length ns = List.length ss ->
  map (fun ni : string * nat => let (n, i) := ni in
         match nth_error (pre ++ ss) i with Some s => (n, skind s, scells s) | None => (n, KMixed, []) end)
      (combine ns (seq (List.length pre) (List.length ss)))
  = map (fun ns : string * slot => (fst ns, skind (snd ns), scells (snd ns))) (combine ns ss).
Proof.
  induction ns as [|n ns IH]; intros ss pre Hlen; destruct ss as [|s ss]; simpl in *; try discriminate; auto.
  f_equal.
  - rewrite nth_error_app2 by lia. rewrite Nat.sub_diag. reflexivity.
  - specialize (IH ss (pre ++ [s])%list). rewrite <- app_assoc in IH. simpl in IH.
    rewrite app_length in IH. simpl in IH. rewrite Nat.add_1_r in IH. apply IH. lia.
Qed.
Lemma combine_map_both {A B C} (f : A -> B) (g : A -> C) l :
  combine (map f l) (map g l) = map (fun x => (f x, g x)) l.
Proof. induction l; simpl; auto. rewrite IHl. reflexivity. Qed.

(* the column object from_json builds for one listed column *)
Definition jimg (t : ltable) (n : nat) (ni : string * nat) : lcol :=
  let k := match nth_error (l_cols t) (snd ni) with Some c => lc_kind c | None => KMixed end in
  {| lc_kind := k;
     lc_rowid := match k with KMixed => fresh_index n | _ => {| ia := iotaN 0 n; imeta := None; imax := None |} end;
     lc_cells := match nth_error (l_cols t) (snd ni) with Some c => lc_cells c | None => [] end;
     lc_owner := true; lc_tc := true |}.
Lemma json_col_jcol_of t n ni : json_col n (jcol_of t ni) = Some (jimg t n ni).
Proof.
  unfold json_col, jcol_of, jimg. destruct (nth_error (l_cols t) (snd ni)); simpl.
  - rewrite kind_of_typename_typename. reflexivity.
  - reflexivity.
Qed.
Lemma fst_jcol_of t ni : fst (jcol_of t ni) = fst ni.
Proof. unfold jcol_of. destruct (nth_error (l_cols t) (snd ni)); reflexivity. Qed.

Definition json_image (nextid : nat) (t : ltable) : ltable :=
  let L := to_list (l_sorted t) (l_names t) in
  let n := List.length (ia (l_rowid t)) in
  {| l_fam := nextid; l_rowid := fresh_index n;
     l_names := combine (map fst L) (seq 0 (List.length L));
     l_cols := map (jimg t n) L; l_sorted := true; l_dflt := KMixed |}.

Lemma from_json_doc_eq nextid t :
  nodup_str (map fst (l_names t)) = true ->
  from_json_doc nextid (json_doc t) = Some (json_image nextid t).
Proof.
  intro nd. unfold from_json_doc, json_doc. simpl.
  set (L := to_list (l_sorted t) (l_names t)).
  assert (Hf : map fst (map (jcol_of t) L) = map fst L).
  { rewrite map_map. apply map_ext. intro. apply fst_jcol_of. }
  rewrite Hf.
  assert (Hnd : nodup_str (map fst L) = true).
  { apply nodup_str_NoDup. apply nodup_str_NoDup in nd.
    eapply Permutation_NoDup; [apply Permutation_map, Permutation_sym, to_list_perm | exact nd]. }
  rewrite Hnd. rewrite map_map.
  rewrite (all_some_map _ (jimg t (List.length (ia (l_rowid t))))) by (intro; apply json_col_jcol_of).
  rewrite map_length. reflexivity.
Qed.

Lemma view_json_image nextid t : view (abs (json_image nextid t)) = listing (abs t).
Proof.
  rewrite listing_abs. unfold view, abs, json_image. simpl.
  set (L := to_list (l_sorted t) (l_names t)).
  set (ss := map (fun c => {| skind := lc_kind c; scells := lc_cells c |}) (map (jimg t (List.length (ia (l_rowid t)))) L)).
  assert (Hl : List.length L = List.length ss) by (unfold ss; rewrite !map_length; reflexivity).
  rewrite Hl. pose proof (view_numbered (map fst L) ss [] ) as H. simpl in H. rewrite H by (rewrite map_length; exact Hl).
  unfold ss. rewrite map_map, combine_map_both, map_map. apply map_ext. intros [n i]. unfold vimg, jimg. simpl.
  destruct (nth_error (l_cols t) i); reflexivity.
Qed.

(* ---------- iotaN, for the invariant of the table from_json builds *)
Lemma mem_iotaN_lt x : forall n s, (x < s)%N -> mem_N x (iotaN s n) = false.
Proof.
  induction n; intros s H; simpl; auto.
  rewrite IHn by lia. replace (N.eqb x s) with false; auto. symmetry. apply N.eqb_neq. lia.
Qed.
Lemma nodup_iotaN : forall n s, nodup_N (iotaN s n) = true.
Proof. induction n; intros s; simpl; auto. rewrite mem_iotaN_lt by lia. simpl. apply IHn. Qed.
Lemma length_iotaN : forall n s, List.length (iotaN s n) = n.
Proof. induction n; intros; simpl; auto. Qed.
Lemma maxN_iotaN : forall n s, maxN (iotaN s (S n)) = (s + N.of_nat n)%N.
Proof.
  induction n; intros s.
  - simpl. lia.
  - change (maxN (iotaN s (S (S n)))) with (N.max s (maxN (iotaN (N.succ s) (S n)))). rewrite IHn. lia.
Qed.
Lemma list_eqb_N_refl l : ids_eqb l l = true.
Proof. apply list_eqb_refl, N.eqb_refl. Qed.
Lemma fresh_index_ok n : index_ok (fresh_index n) = true.
Proof.
  unfold index_ok, meta_ok, max_ok, fresh_index. simpl. destruct n.
  - reflexivity.
  - change (iotaN 0 (S n)) with (0%N :: iotaN (N.succ 0) n) at 1. cbv iota beta.
    rewrite maxN_iotaN. apply Z.eqb_eq. lia.
Qed.

Lemma lookup_In {A} n (l : list (string * A)) a : lookup n l = Some a -> In (n, a) l.
Proof.
  induction l as [|[m x] r IH]; simpl; intro H; try discriminate.
  destruct (String.eqb n m) eqn:E.
  - apply String.eqb_eq in E. inversion H. subst. auto.
  - auto.
Qed.

Lemma inv_names_lt t n i : inv_b t = true -> In (n, i) (l_names t) -> (i < List.length (l_cols t))%nat.
Proof.
  unfold inv_b. rewrite !andb_true_iff. intros ((((_ & _) & _) & I4) & _) Hin.
  rewrite forallb_forall in I4. specialize (I4 _ Hin). simpl in I4. apply Nat.ltb_lt. exact I4.
Qed.
Lemma inv_col_ok t c : inv_b t = true -> In c (l_cols t) -> col_ok t c = true.
Proof.
  unfold inv_b. rewrite !andb_true_iff. intros (_ & I5) Hin. rewrite forallb_forall in I5. auto.
Qed.
Lemma inv_nodup_names t : inv_b t = true -> nodup_str (map fst (l_names t)) = true.
Proof. unfold inv_b. rewrite !andb_true_iff. tauto. Qed.

Lemma inv_json_image nextid t : inv_b t = true -> inv_b (json_image nextid t) = true.
Proof.
  intro Hinv. unfold inv_b. rewrite !andb_true_iff.
  set (L := to_list (l_sorted t) (l_names t)).
  assert (HL : forall ni, In ni L -> In ni (l_names t)).
  { intros ni H. eapply Permutation_in; [apply to_list_perm | exact H]. }
  repeat split; simpl; fold L.
  - apply nodup_iotaN.
  - apply fresh_index_ok.
  - rewrite map_fst_combine by (rewrite map_length, seq_length; reflexivity).
    apply nodup_str_NoDup. apply inv_nodup_names, nodup_str_NoDup in Hinv.
    eapply Permutation_NoDup; [apply Permutation_map, Permutation_sym, to_list_perm | exact Hinv].
  - apply forallb_forall. intros [n i] Hin. apply in_combine_r in Hin. apply in_seq in Hin.
    rewrite map_length. apply Nat.ltb_lt. lia.
  - apply forallb_forall. intros c Hc. apply in_map_iff in Hc. destruct Hc as [[n i] [Hc Hin]]. subst c.
    apply HL in Hin. pose proof (inv_names_lt t n i Hinv Hin) as Hlt.
    destruct (nth_error (l_cols t) i) as [c|] eqn:E; [|apply nth_error_None in E; lia].
    pose proof (inv_col_ok t c Hinv (nth_error_In _ _ E)) as Hok.
    unfold col_ok in Hok. rewrite !andb_true_iff in Hok. destruct Hok as (((((H1 & H2) & H3) & H4) & H5) & H6).
    unfold col_ok, jimg. simpl. rewrite E. rewrite !andb_true_iff.
    assert (Hn : ia (match lc_kind c with
                     | KMixed => fresh_index (List.length (ia (l_rowid t)))
                     | _ => {| ia := iotaN 0 (List.length (ia (l_rowid t))); imeta := None; imax := None |}
                     end) = iotaN 0 (List.length (ia (l_rowid t)))) by (destruct (lc_kind c); reflexivity).
    repeat split.
    + rewrite Hn. apply list_eqb_N_refl.
    + rewrite length_iotaN. exact H2.
    + destruct (lc_kind c); auto using fresh_index_ok.
    + exact H6.
Qed.

(* ---------- the theorems *)
Section JsonFacts.
  Variable text : Type.
  Variable dumps : jdoc -> text.
  Variable loads : text -> jdoc.
  Hypothesis loads_dumps : forall x, loads (dumps x) = x.

  Lemma dumps_inj x y : dumps x = dumps y -> x = y.
  Proof. intro H. rewrite <- (loads_dumps x), <- (loads_dumps y), H. reflexivity. Qed.

  (* from_json (to_json d): same names, kinds, cells in listing order, on row ids 0..n-1, a fresh
     family, and the representation invariant holds *)
  Theorem json_roundtrip nextid t :
    inv_b t = true ->
    exists r, from_json text loads nextid (to_json text dumps t) = Some r
              /\ l_fam r = nextid
              /\ ids (abs r) = iotaN 0 (nrows (abs t))
              /\ view (abs r) = listing (abs t)
              /\ tsorted (abs r) = true /\ dflt (abs r) = KMixed
              /\ inv_b r = true.
  Proof.
    intro Hinv. exists (json_image nextid t). unfold from_json, to_json. rewrite loads_dumps.
    rewrite from_json_doc_eq by (apply inv_nodup_names, Hinv).
    repeat split; auto using view_json_image, inv_json_image.
  Qed.

  (* L1 refines L0 *)
  Theorem json_roundtrip_spec nextid t used :
    inv_b t = true -> (forall f, In f used -> (f < nextid)%nat) ->
    exists r, from_json text loads nextid (to_json text dumps t) = Some r
              /\ json_image_ok (abs t) (abs r) = true /\ fresh_fam used (abs r) = true /\ inv_b r = true.
  Proof.
    intros Hinv Hu. destruct (json_roundtrip nextid t Hinv) as [r (H & Hf & Hi & Hv & Hs & Hd & HI)].
    exists r. repeat split; auto.
    - unfold json_image_ok. rewrite Hi, Hv, Hs, Hd, list_eqb_N_refl, view_eqb_refl. reflexivity.
    - unfold fresh_fam. simpl. rewrite Hf. destruct (mem_nat nextid used) eqn:E; auto.
      apply mem_nat_In in E. apply Hu in E. lia.
  Qed.

  (* equal text -> same row ids in the same order, same listing names, and every name denotes the
     same kind and cells: a differing cell, name or row order gives different text *)
  Definition decode (p : string * list val) : option (kind * list val) :=
    match kind_of_typename (fst p) with Some k => Some (k, snd p) | None => None end.
  Lemma lookup_map_jcol t n L :
    lookup n (map (jcol_of t) L) = option_map (fun i => snd (jcol_of t (n, i))) (lookup n L).
  Proof.
    induction L as [|[m i] r IH]; simpl; auto.
    unfold jcol_of at 1. simpl.
    destruct (nth_error (l_cols t) i) eqn:E; simpl; destruct (String.eqb n m) eqn:En; auto;
      apply String.eqb_eq in En; subst; unfold jcol_of; simpl; rewrite E; reflexivity.
  Qed.
  Lemma col_view_decode t n :
    inv_b t = true ->
    col_view (abs t) n = match lookup n (map (jcol_of t) (to_list (l_sorted t) (l_names t))) with
                         | Some p => decode p | None => None end.
  Proof.
    intro Hinv. rewrite lookup_map_jcol.
    assert (Hl : lookup n (to_list (l_sorted t) (l_names t)) = lookup n (l_names t)).
    { symmetry. apply lookup_perm. apply Permutation_sym, to_list_perm.
      apply nodup_str_NoDup, inv_nodup_names, Hinv. }
    rewrite Hl. unfold col_view, slot_of, abs. simpl.
    destruct (lookup n (l_names t)) as [i|] eqn:E; simpl; auto.
    pose proof (inv_names_lt t n i Hinv (lookup_In _ _ _ E)) as Hlt.
    rewrite nth_error_map. unfold jcol_of. simpl.
    destruct (nth_error (l_cols t) i) as [c|] eqn:Ec; [|apply nth_error_None in Ec; lia].
    simpl. unfold decode. simpl. rewrite kind_of_typename_typename. reflexivity.
  Qed.

  Theorem json_injective d1 d2 :
    inv_b d1 = true -> inv_b d2 = true ->
    to_json text dumps d1 = to_json text dumps d2 ->
    ids (abs d1) = ids (abs d2)
    /\ map (fun v : vcol => fst (fst v)) (listing (abs d1)) = map (fun v : vcol => fst (fst v)) (listing (abs d2))
    /\ forall n, col_view (abs d1) n = col_view (abs d2) n.
  Proof.
    intros H1 H2 H. apply dumps_inj in H. unfold json_doc in H. inversion H as [[Hi Hc]].
    split; [exact Hi|]. split.
    - rewrite !listing_abs, !map_map.
      assert (Hn : forall t L, map (fun x => fst (fst (vimg t x))) L = map fst (map (jcol_of t) L)).
      { intros. rewrite map_map. apply map_ext. intro. rewrite fst_vimg, fst_jcol_of. reflexivity. }
      rewrite !Hn, Hc. reflexivity.
    - intro n. rewrite (col_view_decode d1 n H1), (col_view_decode d2 n H2), Hc. reflexivity.
  Qed.
End JsonFacts.
