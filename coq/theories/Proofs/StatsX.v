(* C12, part 3: columns whose cells were stored without the type check (Spec/Stats.v xcell: bool, NumPy scalars,
   Fraction / Decimal next to the checked int / float / str / None).  The laws of part 1 and the refinement of
   part 2 carry over; the checked cells are the special case `map XV`. *)
From Coq Require Import ZArith QArith Qcanon List Bool String Permutation Sorted Lia Arith.
From DM Require Import Base.PyVal Base.QcPy Spec.Nf Spec.Stats Gen.KCheck Gen.KStats Model.Stats
  Proofs.StatsFacts Proofs.StatsRefine.
Import ListNotations.
Open Scope Qc_scope.

(* ------------------------------------------------------------------ the checked cells are a special case *)
Lemma xnums_embed : forall cells, xnums (map XV cells) = nums cells.
Proof. induction cells as [|v r IH]; simpl; auto. destruct (cell_q v); rewrite IH; reflexivity. Qed.
Lemma xkeys_embed : forall cells, xkeys (map XV cells) = keys cells.
Proof. induction cells as [|v r IH]; simpl; auto. destruct (cell_key v); rewrite IH; reflexivity. Qed.
Lemma xin_scope_embed : forall cells, xin_scope (map XV cells) = in_scope cells.
Proof.
  intros. unfold xin_scope, in_scope. f_equal. induction cells as [|v r IH]; simpl; auto. rewrite IH. reflexivity.
Qed.
Lemma xcol_stat_embed : forall s cells, xcol_stat s (map XV cells) = col_stat s cells.
Proof. intros. unfold xcol_stat, col_stat. rewrite xnums_embed. reflexivity. Qed.
Lemma xunique_ok_embed : forall cells u, xunique_ok (map XV cells) (map XV u) = unique_ok cells u.
Proof. intros. unfold xunique_ok, unique_ok. rewrite !xkeys_embed. reflexivity. Qed.
Theorem x_embeds : forall cells,
  xnums (map XV cells) = nums cells /\ xkeys (map XV cells) = keys cells /\ xin_scope (map XV cells) = in_scope cells.
Proof. intros. split; [apply xnums_embed|split; [apply xkeys_embed|apply xin_scope_embed]]. Qed.

(* ------------------------------------------------------------------ row order, ignored cells *)
Lemma xnums_perm : forall c c', Permutation c c' -> Permutation (xnums c) (xnums c').
Proof.
  induction 1; simpl; auto.
  - destruct (xcell_q x); auto.
  - destruct (xcell_q x), (xcell_q y); auto. apply perm_swap.
  - eapply perm_trans; eauto.
Qed.
Theorem xcol_stat_perm : forall s c c', Permutation c c' -> xcol_stat s c = xcol_stat s c'.
Proof. intros. unfold xcol_stat. apply textbook_perm, xnums_perm; auto. Qed.
Definition is_number_xcell (c : xcell) : bool := match xcell_q c with Some _ => true | None => false end.
Lemma xnums_filter : forall c, xnums (filter is_number_xcell c) = xnums c.
Proof.
  induction c; simpl; auto. unfold is_number_xcell at 1. destruct (xcell_q a) eqn:E; simpl; rewrite ?E, IHc; auto.
Qed.
Theorem xcol_stat_ignores : forall s c, xcol_stat s (filter is_number_xcell c) = xcol_stat s c.
Proof. intros. unfold xcol_stat. rewrite xnums_filter. reflexivity. Qed.
(* a number counts with its value, whatever type carries it *)
Theorem xcell_q_types : forall z b f,
  xcell_q (XNpInt z) = xcell_q (XV (VInt z)) /\ xcell_q (XNpFlt b f) = xcell_q (XV (VFlt f)) /\
  xcell_q (XBool true) = xcell_q (XV (VInt 1)) /\ xcell_q (XBool false) = xcell_q (XV (VInt 0)) /\
  xcell_q (XRat (qz z)) = xcell_q (XV (VInt z)).
Proof. intros. repeat split; reflexivity. Qed.

(* ------------------------------------------------------------------ unique / count *)
Theorem xunique_ok_spec : forall cells u, xunique_ok cells u = true <-> xunique_spec cells u.
Proof.
  intros. unfold xunique_ok, xunique_spec. rewrite !andb_true_iff, knodup_NoDup, !forallb_forall. split.
  - intros [[N S1] S2]. split; auto. intros k. split; intros I; apply kmem_In; auto.
  - intros [N S]. repeat split; auto; intros k I; apply kmem_In; apply S; auto.
Qed.
Theorem xdistinct_nodup : forall cells, NoDup (xdistinct cells).
Proof. intros. apply kdistinct_NoDup. Qed.
Theorem xdistinct_complete : forall cells k, In k (xdistinct cells) <-> In k (xkeys cells).
Proof. intros. apply kdistinct_In. Qed.
Theorem xunique_spec_count : forall cells u,
  xunique_spec cells u -> List.length (xkeys u) = List.length (xdistinct cells).
Proof.
  intros cells u [N S]. apply Permutation_length. apply NoDup_Permutation; auto. apply xdistinct_nodup.
  intros k. rewrite S, xdistinct_complete. tauto.
Qed.
Lemma xkeys_perm : forall c c', Permutation c c' -> Permutation (xkeys c) (xkeys c').
Proof.
  induction 1; simpl; auto.
  - destruct (xcell_key x); auto.
  - destruct (xcell_key x), (xcell_key y); auto. apply perm_swap.
  - eapply perm_trans; eauto.
Qed.
Theorem xdistinct_perm : forall c c', Permutation c c' -> Permutation (xdistinct c) (xdistinct c').
Proof.
  intros c c' P. apply NoDup_Permutation; try apply xdistinct_nodup.
  intros k. rewrite !xdistinct_complete. split; apply Permutation_in; [|apply Permutation_sym]; apply xkeys_perm; auto.
Qed.
Theorem xl1_unique_perm : forall k cells, Permutation (umodel_list (xl1_unique k cells)) (xdistinct cells).
Proof.
  intros. unfold xl1_unique. destruct (all_some (map key_q (xdistinct cells))) as [qs|] eqn:E; simpl; auto.
  apply all_some_map in E.
  assert (P : Permutation (map KNum (qsort qs)) (xdistinct cells)).
  { rewrite E. apply Permutation_map, qsort_perm. }
  destruct k; try destruct (xhas_nan cells || xhas_rat cells); simpl; auto.
Qed.
Theorem xl1_unique_nodup : forall k cells, NoDup (umodel_list (xl1_unique k cells)).
Proof.
  intros. eapply Permutation_NoDup. apply Permutation_sym, xl1_unique_perm. apply xdistinct_nodup.
Qed.
Theorem xl1_unique_complete : forall k cells x, In x (umodel_list (xl1_unique k cells)) <-> In x (xkeys cells).
Proof.
  intros. rewrite <- xdistinct_complete. split; apply Permutation_in; [|apply Permutation_sym]; apply xl1_unique_perm.
Qed.

(* ------------------------------------------------------------------ BaseColumn._numbers on unchecked cells *)
(* what the MixedColumn's arithmetic sees: every kept cell through float() *)
Definition xfcast (c : xcell) : xcell :=
  match c with XV v => XV (fcast v) | XNpInt z => XV (VFlt (round53 z)) | _ => c end.
Definition xint_exact (c : xcell) : Prop :=
  match c with XV v => int_exact v | XNpInt z => (Z.abs z < 2 ^ 53)%Z | _ => True end.
(* Fraction / Decimal objects are outside the classified universe of the kernels *)
Definition modelled (c : xcell) : bool := match c with XRat _ => false | _ => true end.

Lemma p_numbers_vals : forall cells, p_numbers (map pyv_of_val cells) = m_numbers cells.
Proof.
  induction cells as [|v r IH]; simpl; auto.
  destruct (k_numbers_keep (pyv_of_val v)) as [[|]|e]; simpl; auto.
  destruct (k_numbers_conv (pyv_of_val v)) as [x|e]; simpl; auto.
  destruct x; auto. rewrite IH. reflexivity.
Qed.
Lemma all_some_vals : forall cells, all_some (map pyv_of_xcell (map XV cells)) = Some (map pyv_of_val cells).
Proof. induction cells as [|v r IH]; simpl; auto. rewrite IH. reflexivity. Qed.
Theorem xm_nums_embed : forall cells, xm_nums (map XV cells) = m_nums cells.
Proof. intros. unfold xm_nums, m_nums. rewrite all_some_vals, p_numbers_vals. reflexivity. Qed.
Theorem xm_stat_embed : forall s cells, xm_stat s (map XV cells) = m_stat s cells.
Proof. intros. unfold xm_stat, m_stat. rewrite xm_nums_embed. reflexivity. Qed.

Lemma py_eq_npint_refl : forall z, py_eq (PNpInt z) (PNpInt z) = true.
Proof. intros. unfold py_eq, pyv_num, num_eqb, num_cmp. rewrite dy_cmp_refl. reflexivity. Qed.
Lemma py_eq_npfin_refl : forall i b m e, py_eq (PNpFloat i (FFin b m e)) (PNpFloat i (FFin b m e)) = true.
Proof. intros. unfold py_eq, pyv_num, num_eqb, num_cmp, fl_dy. rewrite dy_cmp_refl. reflexivity. Qed.

(* what the generated filter / conversion kernels do with one stored object *)
Lemma numbers_pcell : forall c p, xcell_inf c = false -> pyv_of_xcell c = Some p ->
  match xcell_q (xfcast c) with
  | Some q => k_numbers_keep p = Ok true /\ exists f, k_numbers_conv p = Ok (PFloat f) /\ fl_q f = Some q
  | None => k_numbers_keep p = Ok false
  end.
Proof.
  intros c p Hinf Hp. destruct c as [v|b|z|i f|q]; simpl in Hp; inversion Hp; subst p; clear Hp.
  - apply (numbers_cell v Hinf).
  - simpl xfcast. simpl xcell_q. split.
    + destruct b; reflexivity.
    + destruct b; eexists; (split; [reflexivity|reflexivity]).
  - simpl xfcast. simpl xcell_q. destruct (finite_fl_q _ (round53_finite z)) as [q Hq]. rewrite Hq. split.
    + unfold k_numbers_keep, k_nanorinf. simpl is_Number. simpl bind.
      rewrite py_eq_npint_refl. reflexivity.
    + exists (round53 z). split; auto.
  - simpl xfcast. simpl xcell_q. destruct f as [|b|b|b m e]; simpl in Hinf; try discriminate.
    + reflexivity.
    + split. reflexivity. exists (FZero b). split; reflexivity.
    + unfold fl_q at 1. simpl fl_dy. simpl option_map. split.
      * unfold k_numbers_keep, k_nanorinf. simpl is_Number. simpl bind.
        rewrite py_eq_npfin_refl. reflexivity.
      * exists (FFin b m e). split; reflexivity.
Qed.

Lemma all_some_cons : forall A (o : option A) (l : list (option A)) r,
  all_some (o :: l) = Some r -> exists a t, o = Some a /\ all_some l = Some t /\ r = a :: t.
Proof.
  intros A o l r H. simpl in H. destruct o as [a|]; [|discriminate].
  destruct (all_some l) as [t|]; simpl in H; [|discriminate]. inversion H. eauto.
Qed.
Lemma modelled_pyv : forall cells, forallb modelled cells = true -> exists ps, all_some (map pyv_of_xcell cells) = Some ps.
Proof.
  induction cells as [|c r IH]; simpl; intros H. eexists; reflexivity.
  apply andb_prop in H. destruct H as [Hc Hr]. destruct (IH Hr) as [ps E]. rewrite E.
  destruct c; simpl in *; try discriminate; eexists; reflexivity.
Qed.

Lemma p_numbers_cons : forall p r,
  p_numbers (p :: r) =
    bind (k_numbers_keep p) (fun keep =>
      if keep then
        bind (k_numbers_conv p) (fun x =>
          match x with
          | PFloat f => bind (p_numbers r) (fun t => Ok (f :: t))
          | _ => Raise TypeError
          end)
      else p_numbers r).
Proof. reflexivity. Qed.

Theorem xm_nums_spec : forall cells, xin_scope cells = true -> forallb modelled cells = true ->
  xm_nums cells = Some (xnums (map xfcast cells)).
Proof.
  unfold xin_scope, xm_nums. induction cells as [|c r IH]; intros H M.
  - reflexivity.
  - simpl in H. rewrite negb_orb in H. apply andb_prop in H. destruct H as [Hc Hr]. apply negb_true_iff in Hc.
    simpl in M. apply andb_prop in M. destruct M as [Mc Mr].
    specialize (IH Hr Mr).
    destruct (modelled_pyv r Mr) as [ps Eps]. rewrite Eps in IH.
    assert (exists p, pyv_of_xcell c = Some p) as [p Ep] by (destruct c; simpl in *; try discriminate; eexists; reflexivity).
    simpl map. simpl all_some. rewrite Ep, Eps. simpl option_map.
    pose proof (numbers_pcell c p Hc Ep) as C.
    cbv iota beta. rewrite p_numbers_cons. simpl xnums. destruct (xcell_q (xfcast c)) as [q|].
    + destruct C as [K [f [Cv Fq]]]. rewrite K. simpl. rewrite Cv. simpl.
      destruct (p_numbers ps) as [t|e]; simpl in *; [|discriminate]. rewrite Fq, IH. reflexivity.
    + rewrite C. simpl. exact IH.
Qed.

Lemma xnums_xfcast_exact : forall cells, Forall xint_exact cells -> xnums (map xfcast cells) = xnums cells.
Proof.
  induction 1 as [|c r Hc _ IH]; simpl; auto. destruct c as [v|b|z|i f|q]; simpl in *; rewrite ?IH; auto.
  - destruct v; simpl in *; auto. rewrite round53_exact by auto. reflexivity.
  - rewrite round53_exact by auto. reflexivity.
Qed.

(* statistics of a MixedColumn holding unchecked cells = the textbook statistic of its finite numeric cells *)
Theorem xm_stat_spec : forall s cells, xin_scope cells = true -> forallb modelled cells = true ->
  xm_stat s cells = match s, xnums (map xfcast cells) with
                    | Sum, [] => MNan
                    | _, _ => lift (xcol_stat s (map xfcast cells))
                    end.
Proof. intros. unfold xm_stat. rewrite xm_nums_spec by auto. simpl. apply base_stat_spec. Qed.
Theorem xm_stat_ignores_non_numeric : forall s cells,
  xin_scope cells = true -> forallb modelled cells = true -> Forall xint_exact cells ->
  xm_stat s cells = match s, xnums cells with Sum, [] => MNan | _, _ => lift (xcol_stat s cells) end.
Proof.
  intros. rewrite xm_stat_spec by auto. unfold xcol_stat. rewrite xnums_xfcast_exact by auto. reflexivity.
Qed.

(* ------------------------------------------------------------------ agreement with a FloatColumn holding the same numbers *)
Definition xto_fl (c : xcell) : fl :=
  match c with
  | XV v => to_fl v
  | XBool b => if b then FFin false 1 0 else FZero false
  | XNpInt z => round53 z
  | XNpFlt _ f => f
  | XRat _ => FNan
  end.
Lemma xnums_to_fl : forall cells, forallb modelled cells = true ->
  nums (map VFlt (map xto_fl cells)) = xnums (map xfcast cells).
Proof.
  induction cells as [|c r IH]; simpl; auto. intros M. apply andb_prop in M. destruct M as [Mc Mr].
  specialize (IH Mr). destruct c as [v|b|z|i f|q]; simpl in *; try discriminate.
  - destruct v; simpl; rewrite IH; reflexivity.
  - destruct b; simpl; rewrite IH; reflexivity.
  - rewrite IH. reflexivity.
  - rewrite IH. reflexivity.
Qed.
Lemma xto_fl_inf : forall cells, xin_scope cells = true -> existsb fl_inf (map xto_fl cells) = false.
Proof.
  unfold xin_scope. induction cells as [|c r IH]; simpl; intros H; auto.
  rewrite negb_orb in H. apply andb_prop in H. destruct H as [Hc Hr]. rewrite IH by auto.
  destruct c as [v|b|z|i f|q]; simpl in *; auto.
  - destruct v as [z|f| |]; simpl in *; auto.
    + pose proof (round53_finite z). destruct (round53 z); simpl in *; auto; discriminate.
    + destruct f; simpl in *; auto; discriminate.
  - destruct b; reflexivity.
  - pose proof (round53_finite z). destruct (round53 z); simpl in *; auto; discriminate.
  - destruct f; simpl in *; auto; discriminate.
Qed.
Theorem xmixed_float_agree : forall s cells, xin_scope cells = true -> forallb modelled cells = true ->
  (s <> Sum \/ xnums (map xfcast cells) <> []) ->
  xm_stat s cells = f_stat s (map xto_fl cells).
Proof.
  intros s cells H M NS. rewrite xm_stat_spec by auto. rewrite f_stat_spec by (apply xto_fl_inf; auto).
  unfold col_stat, xcol_stat. rewrite xnums_to_fl by auto.
  destruct s; try reflexivity. destruct (xnums (map xfcast cells)); try reflexivity.
  destruct NS; congruence.
Qed.

(* ------------------------------------------------------------------ one statement for the three column types *)
Lemma all_v_map : forall cells vs, all_v cells = Some vs -> cells = map XV vs.
Proof.
  induction cells as [|c r IH]; intros vs F; simpl in F.
  - inversion F. reflexivity.
  - destruct c; try discriminate. destruct (all_v r); simpl in F; try discriminate.
    inversion F. simpl. f_equal. apply IH. reflexivity.
Qed.
Definition xseen (k : kind) (cells : list xcell) : list xcell :=
  match k with KMixed => map xfcast cells | _ => cells end.
Lemma xseen_embed : forall k vs, xseen k (map XV vs) = map XV (seen k vs).
Proof. intros. destruct k; simpl; auto. rewrite !map_map. reflexivity. Qed.
Theorem xl1_stat_spec : forall k s cells, xin_scope cells = true ->
  xl1_stat k s cells = MOut \/
  xl1_stat k s cells =
    match s, xnums (xseen k cells) with
    | Sum, [] => match k, cells with KFloat, _ :: _ => MVal 0 | _, _ => MNan end
    | _, _ => lift (xcol_stat s (xseen k cells))
    end.
Proof.
  intros k s cells H.
  assert (V : forall vs, cells = map XV vs ->
    l1_stat k s vs = MOut \/
    l1_stat k s vs =
      match s, xnums (xseen k cells) with
      | Sum, [] => match k, cells with KFloat, _ :: _ => MVal 0 | _, _ => MNan end
      | _, _ => lift (xcol_stat s (xseen k cells))
      end).
  { intros vs ->. rewrite xin_scope_embed in H. destruct (l1_stat_spec k s vs H) as [O|R]; auto. right.
    rewrite R, xseen_embed, xnums_embed, xcol_stat_embed. destruct s; try reflexivity.
    destruct (nums (seen k vs)); try reflexivity. destruct k, vs; reflexivity. }
  destruct k; cbv beta iota delta [xl1_stat].
  - destruct (forallb modelled cells) eqn:M.
    + right. simpl xseen. rewrite xm_stat_spec by auto.
      destruct s; try reflexivity; destruct (xnums (map xfcast cells)); reflexivity.
    + left. unfold xm_stat, xm_nums.
      assert (N : all_some (map pyv_of_xcell cells) = None).
      { clear -M. induction cells as [|c r IH]; simpl in *; [discriminate|].
        destruct c; simpl in *; auto; rewrite (IH M); reflexivity. }
      rewrite N. reflexivity.
  - destruct (all_v cells) as [vs|] eqn:F; [|left; reflexivity]. apply all_v_map in F. apply V. exact F.
  - destruct (all_v cells) as [vs|] eqn:F; [|left; reflexivity]. apply all_v_map in F. apply V. exact F.
Qed.
Theorem xl1_count_length : forall k cells u,
  xl1_count k cells u = match k with
                        | KMixed => zlen u
                        | _ => (zlen (umodel_list (xl1_unique k cells)) + (if xhas_nan cells then 1 else 0))%Z
                        end.
Proof.
  intros. destruct k; simpl; auto; unfold zlen; rewrite (Permutation_length (xl1_unique_perm _ cells)); reflexivity.
Qed.
