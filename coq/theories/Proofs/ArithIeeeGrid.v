(* C13: the instances of the scalar arithmetic TESTED against each other by vm_compute on the grid of
   Spec/ArithIeee.v (51 numbers x 51 numbers x the six operators + - * / // %); not proved for all inputs.
   Depends on Base/ and Spec/ only (nothing generated), so it is not rebuilt when a kernel changes. *)
From Coq Require Import ZArith List Bool String.
From DM Require Import Base.PyVal Base.Float64Py Spec.Nf Spec.Arith Spec.ArithIeee.
Import ListNotations.
Open Scope Z_scope.

(* every grid number is a binary64 value (or an int within the float range) *)
Lemma grid_is_b64 : forallb num_is_b64 grid = true.
Proof. vm_compute. reflexivity. Qed.
(* 7177 of the 15606 grid points are computed by the exact instance with a binary64 result *)
Lemma grid_size : N.of_nat (List.length grid) = 51%N /\ N.of_nat (count_grid op_defined) = 7177%N.
Proof. vm_compute. split; reflexivity. Qed.
(* the SpecFloat instance: a closed term *)
Lemma grid_consistent_spec : on_grid (consistent_at spec_fops) = true.
Proof. vm_compute. reflexivity. Qed.
(* the primitive-float instance: rests on Coq's primitive float operations *)
Lemma grid_consistent_prim : on_grid (consistent_at prim_fops) = true.
Proof. vm_compute. reflexivity. Qed.
Lemma grid_prim_same_as_spec : on_grid (same_at prim_fops spec_fops) = true.
Proof. vm_compute. reflexivity. Qed.
